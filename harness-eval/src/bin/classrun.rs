//! C19: run the real `ClassingConfig::{classing,request}` of /repo/eval on generated and shipped class
//! configurations, and use every generated request on a real allocator.
//!
//! Transcript (one token list per line):
//!   CFG <label> <nclasses>             start of a configuration
//!   J <json>                           the JSON text that was handed to facet_json (one line)
//!   C <id> <kind> <min|-> <max|-> <gfp tokens>      one per class, in order;
//!        gfp tokens (prefix): on <hex> | off <hex> | all <k> m1..mk | any <k> m1..mk | not m
//!   PARSE ok|differ                    Debug of the parsed real config == Debug of the harness' mirror
//!   K <cores> <id>:<count>,.. | K <cores> - | K <cores> P     `classing(cores).classes()` (P = panicked)
//!   Q <order> <core> <pid> <gfphex> <class> <local|N> <use>   `request(order, core, cores, pid, gfp)`
//!   Q <order> <core> <pid> <gfphex> P                         ... panicked
//!        use = ok | err | panic:<message> | -    (get + put of that request on an LLFree built with the
//!        classing of the last K line; `-` = not used)
//! Every random choice derives from --seed.  `--replay <file>` re-executes the J/K/Q lines of a transcript
//! (or replay file) on the current implementation.
use std::io::Write;
use std::panic::{AssertUnwindSafe, catch_unwind};
use std::sync::Mutex;

use facet::Facet;
use llfree::{Alloc, Init, LLFree, MetaData, Request, TREE_FRAMES};
use llfree_eval::classes::ClassingConfig as RealConfig;
use llfree_eval::gfp::GFP;
use llfree_verif_harness_eval::{Args, Rng, out};

/// Mirror of the (private) configuration types of /repo/eval/src/classes.rs with identical names,
/// field order and facet attributes, so that (a) the harness can build configurations and serialise
/// them with facet_json, (b) `{:?}` of both sides can be compared after parsing.
mod mirror {
    use super::*;

    #[derive(Clone, Debug, Facet)]
    pub struct ClassingConfig {
        pub classes: Vec<ClassConfig>,
        pub default: u8,
        pub perfect: (usize, usize),
        pub good: (usize, usize),
    }

    #[derive(Clone, Copy, Debug, Facet, PartialEq, Eq)]
    #[repr(u8)]
    #[facet(rename_all = "snake_case")]
    pub enum Count {
        Zero,
        One,
        Cores,
        CoresHalf,
        Pids,
    }

    #[derive(Clone, Debug, Facet)]
    pub struct ClassConfig {
        pub id: u8,
        pub count: Count,
        pub order: Option<(usize, usize)>,
        #[facet(default)]
        pub gfp: GfpMatch,
    }

    #[derive(Facet, Clone, Debug, PartialEq, Eq)]
    #[repr(u8)]
    #[facet(rename_all = "snake_case")]
    pub enum GfpMatch {
        On(GFP),
        Off(GFP),
        All(Vec<Self>),
        Any(Vec<Self>),
        Not(Box<Self>),
    }
    impl Default for GfpMatch {
        fn default() -> Self {
            Self::All(Vec::new())
        }
    }
}
use mirror::{ClassConfig, ClassingConfig, Count, GfpMatch};

const KINDS: [Count; 5] = [Count::Zero, Count::One, Count::Cores, Count::CoresHalf, Count::Pids];
const FLAGS: [GFP; 10] = [
    GFP::MOVABLE,
    GFP::PAGE_CACHE,
    GFP::HIGHMEM,
    GFP::FS,
    GFP::NOFAIL,
    GFP::NORETRY,
    GFP::RECLAIMABLE,
    GFP::DMA,
    GFP::ZERO,
    GFP::ZEROTAGS,
];

fn kind_name(k: Count) -> &'static str {
    match k {
        Count::Zero => "zero",
        Count::One => "one",
        Count::Cores => "cores",
        Count::CoresHalf => "cores_half",
        Count::Pids => "pids",
    }
}

fn gfp_tokens(m: &GfpMatch, s: &mut String) {
    match m {
        GfpMatch::On(f) => s.push_str(&format!(" on {:x}", *f as u32)),
        GfpMatch::Off(f) => s.push_str(&format!(" off {:x}", *f as u32)),
        GfpMatch::All(l) => {
            s.push_str(&format!(" all {}", l.len()));
            l.iter().for_each(|x| gfp_tokens(x, s));
        }
        GfpMatch::Any(l) => {
            s.push_str(&format!(" any {}", l.len()));
            l.iter().for_each(|x| gfp_tokens(x, s));
        }
        GfpMatch::Not(x) => {
            s.push_str(" not");
            gfp_tokens(x, s);
        }
    }
}

// ---------------------------------------------------------------- panic capture
static LAST_PANIC: Mutex<String> = Mutex::new(String::new());

fn install_hook() {
    std::panic::set_hook(Box::new(|info| {
        let msg = if let Some(s) = info.payload().downcast_ref::<&str>() {
            s.to_string()
        } else if let Some(s) = info.payload().downcast_ref::<String>() {
            s.clone()
        } else {
            "?".into()
        };
        let loc = info
            .location()
            .map(|l| format!("{}:{}", l.file().rsplit('/').next().unwrap_or(""), l.line()))
            .unwrap_or_default();
        let text: String = format!("{loc}:{msg}")
            .chars()
            .map(|c| if c.is_whitespace() { '_' } else { c })
            .take(120)
            .collect();
        *LAST_PANIC.lock().unwrap() = text;
    }));
}
fn last_panic() -> String {
    LAST_PANIC.lock().unwrap().clone()
}

// ---------------------------------------------------------------- generators
fn rand_gfp(rng: &mut Rng, depth: usize) -> GfpMatch {
    let leaf = depth == 0 || rng.chance(2, 5);
    if leaf {
        let f = *rng.pick(&FLAGS);
        if rng.chance(1, 2) { GfpMatch::On(f) } else { GfpMatch::Off(f) }
    } else {
        match rng.below(3) {
            0 => GfpMatch::All((0..rng.below(4)).map(|_| rand_gfp(rng, depth - 1)).collect()),
            1 => GfpMatch::Any((0..rng.below(4)).map(|_| rand_gfp(rng, depth - 1)).collect()),
            _ => GfpMatch::Not(Box::new(rand_gfp(rng, depth - 1))),
        }
    }
}

fn rand_order(rng: &mut Rng) -> Option<(usize, usize)> {
    match rng.below(6) {
        0 => None,
        1 => Some((0, 8)),
        2 => Some((9, 10)),
        3 => {
            // possibly empty range (min > max)
            Some((rng.below(12) as usize, rng.below(12) as usize))
        }
        _ => {
            let a = rng.below(11) as usize;
            Some((a, a + rng.below(11 - a as u64) as usize))
        }
    }
}

/// The matcher shapes of the shipped files: a partition of the GFP space over the first n-1 classes
/// (orders 0..8), the last class takes orders 9..10.
fn partition(kinds: &[Count], ids: &[u8]) -> Vec<ClassConfig> {
    let n = kinds.len();
    let on = |f| GfpMatch::On(f);
    let off = |f| GfpMatch::Off(f);
    let hard = || GfpMatch::Any(vec![off(GFP::HIGHMEM), on(GFP::NOFAIL), off(GFP::FS), on(GFP::NORETRY)]);
    let small: Vec<GfpMatch> = match n {
        1 => vec![],
        2 => vec![GfpMatch::default()],
        3 => vec![off(GFP::MOVABLE), on(GFP::MOVABLE)],
        _ => vec![
            off(GFP::MOVABLE),
            GfpMatch::All(vec![on(GFP::MOVABLE), off(GFP::PAGE_CACHE), GfpMatch::Not(Box::new(hard()))]),
            GfpMatch::All(vec![on(GFP::MOVABLE), GfpMatch::Any(vec![on(GFP::PAGE_CACHE), hard()])]),
        ],
    };
    let mut v = Vec::new();
    for i in 0..n {
        let (order, gfp) = if i + 1 == n {
            (if n == 1 { None } else { Some((9, 10)) }, GfpMatch::default())
        } else {
            (Some((0, 8)), small[i].clone())
        };
        v.push(ClassConfig { id: ids[i], count: kinds[i], order, gfp });
    }
    v
}

fn wrap(classes: Vec<ClassConfig>) -> ClassingConfig {
    let default = classes.last().map(|c| c.id).unwrap_or(0);
    ClassingConfig { classes, default, perfect: (64, 2047), good: (2048, 4095) }
}

// ---------------------------------------------------------------- running one configuration
struct Opts {
    cores: Vec<usize>,
    sweep_step: usize,
    grid: bool,
    use_alloc: bool,
}

struct Runner {
    w: Box<dyn Write>,
    rng: Rng,
    gfps: Vec<u32>,
    evals: u64,
    use_panics: u64,
}

impl Runner {
    fn header(&mut self, label: &str, json: &str, m: &ClassingConfig) -> Option<RealConfig> {
        writeln!(self.w, "CFG {label} {}", m.classes.len()).unwrap();
        let one_line: String = json.chars().map(|c| if c == '\n' || c == '\r' { ' ' } else { c }).collect();
        writeln!(self.w, "J {one_line}").unwrap();
        for c in &m.classes {
            let mut s = format!("C {} {}", c.id, kind_name(c.count));
            match c.order {
                Some((a, b)) => s.push_str(&format!(" {a} {b}")),
                None => s.push_str(" - -"),
            }
            gfp_tokens(&c.gfp, &mut s);
            writeln!(self.w, "{s}").unwrap();
        }
        match facet_json::from_str::<RealConfig>(json) {
            Ok(real) => {
                let same = format!("{real:?}") == format!("{m:?}");
                writeln!(self.w, "PARSE {}", if same { "ok" } else { "differ" }).unwrap();
                Some(real)
            }
            Err(e) => {
                let e: String = format!("{e}").chars().map(|c| if c.is_whitespace() { '_' } else { c }).take(100).collect();
                writeln!(self.w, "PARSE error:{e}").unwrap();
                None
            }
        }
    }

    /// K line + allocator for `cores`
    fn classing<'a>(&mut self, real: &RealConfig, cores: usize, use_alloc: bool) -> Option<LLFree<'a>> {
        let r = catch_unwind(AssertUnwindSafe(|| real.classing(cores)));
        match r {
            Err(_) => {
                writeln!(self.w, "K {cores} P").unwrap();
                None
            }
            Ok(classing) => {
                let l: Vec<String> = classing.classes().iter().map(|(c, n)| format!("{}:{}", c.0, n)).collect();
                writeln!(self.w, "K {cores} {}", if l.is_empty() { "-".into() } else { l.join(",") }).unwrap();
                if !use_alloc || l.is_empty() {
                    return None;
                }
                self.make_alloc(real, cores)
            }
        }
    }

    /// A fresh allocator (64 trees, all free) with the classing of `real` for `cores`.
    fn make_alloc<'a>(&mut self, real: &RealConfig, cores: usize) -> Option<LLFree<'a>> {
        let frames = 64 * TREE_FRAMES;
        catch_unwind(AssertUnwindSafe(|| {
            let classing = real.classing(cores);
            let meta = MetaData::alloc(&LLFree::metadata_size(&classing, frames));
            LLFree::new(frames, Init::FreeAll, &classing, meta).ok()
        }))
        .unwrap_or_else(|_| {
            writeln!(self.w, "# allocator construction panicked: {}", last_panic()).unwrap();
            None
        })
    }

    fn query(&mut self, real: &RealConfig, alloc: &mut Option<LLFree>, q: (usize, usize, usize, usize, u32)) {
        let (order, core, cores, pid, gfp) = q;
        self.evals += 1;
        let r = catch_unwind(AssertUnwindSafe(|| real.request(order, core, cores, pid, gfp)));
        let Ok(req) = r else {
            writeln!(self.w, "Q {order} {core} {pid} {gfp:x} P").unwrap();
            return;
        };
        let local = req.local.map(|l| l.to_string()).unwrap_or("N".into());
        let mut used = String::from("-");
        let mut drop_alloc = false;
        if let Some(a) = alloc.as_ref() {
            let request = Request::new(req.order, req.class, req.local);
            let r = catch_unwind(AssertUnwindSafe(|| match a.get(None, request) {
                Ok((frame, _)) => a.put(frame, request).is_ok(),
                Err(_) => false,
            }));
            used = match r {
                Ok(true) => "ok".into(),
                Ok(false) => "err".into(),
                Err(_) => {
                    self.use_panics += 1;
                    drop_alloc = true;
                    format!("panic:{}", last_panic())
                }
            };
        }
        if drop_alloc {
            // the state after a panic is undefined: leak the allocator and continue on a fresh one
            std::mem::forget(alloc.take());
            *alloc = self.make_alloc(real, cores);
        }
        writeln!(self.w, "Q {order} {core} {pid} {gfp:x} {} {local} {used}", req.class.0).unwrap();
    }

    fn run_config(&mut self, label: &str, json: &str, m: &ClassingConfig, o: &Opts) {
        let Some(real) = self.header(label, json, m) else { return };
        let ngfp = self.gfps.len();
        let mut first = true;
        for &cores in &o.cores {
            let mut alloc = self.classing(&real, cores, o.use_alloc && cores > 0);
            // order x gfp grid (class selection), once per configuration
            if o.grid && first {
                for order in 0..=12usize {
                    for gi in 0..ngfp {
                        let gfp = self.gfps[gi];
                        let core = self.rng.below(65) as usize;
                        let pid = self.rng.below(65) as usize;
                        self.query(&real, &mut alloc, (order, core, cores, pid, gfp));
                    }
                }
            }
            first = false;
            // core sweep and pid sweep (slot index)
            let mut x = 0;
            while x <= 64 {
                let order = self.rng.below(11) as usize;
                let gfp = self.gfps[self.rng.below(ngfp as u64) as usize];
                let other = self.rng.below(65) as usize;
                self.query(&real, &mut alloc, (order, x, cores, other, gfp));
                let order = self.rng.below(11) as usize;
                let gfp = self.gfps[self.rng.below(ngfp as u64) as usize];
                self.query(&real, &mut alloc, (order, other, cores, x, gfp));
                x += if x == 64 { 1 } else { o.sweep_step.min(64 - x) };
            }
            // boundaries: core/pid == cores-1, cores, cores+1, large
            for x in [cores.saturating_sub(1), cores, cores + 1, 2 * cores + 1, 1 << 20, usize::MAX] {
                let order = self.rng.below(11) as usize;
                let gfp = self.gfps[self.rng.below(ngfp as u64) as usize];
                self.query(&real, &mut alloc, (order, x, cores, x, gfp));
            }
        }
    }
}

fn main() {
    let args = Args::parse();
    let seed = args.num("seed", 1);
    let random = args.num("random", 200);
    let level = args.num("level", 0); // 0 = quick, 1 = thorough
    let dups = args.num("dups", 0); // investigation only: duplicate ids with different kinds
    let results = args.get("results").unwrap_or("/repo/results").to_string();
    install_hook();

    let mut rng = Rng::new(seed);
    let mut gfps: Vec<u32> = vec![0, u32::MAX, 0x0100_0000, 0xe000_0000];
    gfps.extend(FLAGS.iter().map(|f| *f as u32));
    let g = |l: &[GFP]| l.iter().fold(0u32, |a, f| a | *f as u32);
    gfps.push(g(&[GFP::MOVABLE, GFP::HIGHMEM, GFP::FS]));
    gfps.push(g(&[GFP::MOVABLE, GFP::PAGE_CACHE, GFP::HIGHMEM, GFP::FS]));
    gfps.push(g(&[GFP::MOVABLE, GFP::RECLAIMABLE]));
    gfps.push(g(&[GFP::MOVABLE, GFP::NORETRY, GFP::HIGHMEM, GFP::FS]));
    gfps.push(g(&[GFP::MOVABLE, GFP::PAGE_CACHE, GFP::NOFAIL, GFP::HIGHMEM, GFP::FS]));
    gfps.push(g(&[GFP::HIGHMEM, GFP::FS]));
    for _ in 0..3 {
        gfps.push(rng.next() as u32);
    }

    let mut r = Runner { w: out(args.get("out")), rng, gfps, evals: 0, use_panics: 0 };
    let all_cores: Vec<usize> = (1..=16).collect();

    // ---- replay mode: re-execute J/K/Q lines on the current implementation
    if let Some(path) = args.get("replay") {
        let text = std::fs::read_to_string(path).expect("replay file");
        let mut cur: Option<(RealConfig, usize)> = None;
        let mut alloc: Option<LLFree> = None;
        let mut json = String::new();
        let mut n = 0;
        for line in text.lines() {
            let line = line.trim();
            if let Some(j) = line.strip_prefix("J ") {
                json = j.to_string();
                n += 1;
                match facet_json::from_str::<ClassingConfig>(&json) {
                    Ok(m) => {
                        cur = r.header(&format!("replay{n}"), &json, &m).map(|c| (c, 1));
                        alloc = None;
                    }
                    Err(e) => {
                        eprintln!("classrun: replay: cannot parse configuration: {e}");
                        cur = None;
                    }
                }
            } else if let Some(k) = line.strip_prefix("K ") {
                if let Some((real, cores)) = cur.as_mut() {
                    *cores = k.split_whitespace().next().unwrap().parse().expect("cores");
                    let c = *cores;
                    let real = real.clone();
                    alloc = r.classing(&real, c, c > 0);
                }
            } else if let Some(q) = line.strip_prefix("Q ") {
                if let Some((real, cores)) = cur.as_ref() {
                    let t: Vec<&str> = q.split_whitespace().collect();
                    let p = |s: &str| s.parse::<usize>().expect("number");
                    let gfp = u32::from_str_radix(t[3], 16).expect("gfp");
                    let real = real.clone();
                    r.query(&real, &mut alloc, (p(t[0]), p(t[1]), *cores, p(t[2]), gfp));
                }
            }
        }
        let _ = json;
        r.w.flush().unwrap();
        eprintln!("classrun: replay evaluations={} use_panics={}", r.evals, r.use_panics);
        return;
    }

    // ---- 1. shipped configurations: every cores 1..16, full sweeps
    let mut shipped: Vec<_> = std::fs::read_dir(&results)
        .map(|d| d.filter_map(|e| e.ok()).map(|e| e.path()).collect::<Vec<_>>())
        .unwrap_or_default()
        .into_iter()
        .filter(|p| {
            let n = p.file_name().and_then(|n| n.to_str()).unwrap_or("");
            n.starts_with("classes") && n.ends_with(".json")
        })
        .collect();
    shipped.sort();
    let full = Opts { cores: all_cores.clone(), sweep_step: 1, grid: true, use_alloc: true };
    for p in &shipped {
        let text = std::fs::read_to_string(p).expect("read");
        let label = format!("file:{}", p.file_name().unwrap().to_str().unwrap());
        match facet_json::from_str::<ClassingConfig>(&text) {
            Ok(m) => r.run_config(&label, &text, &m, &full),
            Err(e) => {
                let e: String = format!("{e}").chars().map(|c| if c.is_whitespace() { '_' } else { c }).take(100).collect();
                writeln!(r.w, "CFG {label} 0\nPARSE error:{e}").unwrap();
            }
        }
    }

    // ---- 2. all combinations of kinds for 1..4 classes
    let mut idx = 0usize;
    for n in 1..=4usize {
        for code in 0..5usize.pow(n as u32) {
            let kinds: Vec<Count> = (0..n).map(|i| KINDS[(code / 5usize.pow(i as u32)) % 5]).collect();
            idx += 1;
            // ids: 0..n, or spread over 0..8 (still distinct)
            let ids: Vec<u8> = if idx % 3 == 0 {
                let off = r.rng.below(8 - n as u64 + 1) as u8;
                (0..n as u8).map(|i| i + off).collect()
            } else {
                (0..n as u8).collect()
            };
            let classes = if idx % 2 == 0 {
                partition(&kinds, &ids)
            } else {
                (0..n)
                    .map(|i| ClassConfig {
                        id: ids[i],
                        count: kinds[i],
                        order: rand_order(&mut r.rng),
                        gfp: rand_gfp(&mut r.rng, 3),
                    })
                    .collect()
            };
            let m = wrap(classes);
            let json = facet_json::to_string(&m).expect("serialise");
            let label = format!("kinds{n}:{}", kinds.iter().map(|k| kind_name(*k)).collect::<Vec<_>>().join("+"));
            // quick: every configuration sees every core count 1..16; the 625 four-class ones with a
            // coarser core/pid sweep (step 3 + boundaries)
            let o = Opts {
                cores: all_cores.clone(),
                sweep_step: if level == 0 && n == 4 { 3 } else { 1 },
                grid: true,
                use_alloc: true,
            };
            r.run_config(&label, &json, &m, &o);
        }
    }

    // ---- 3. random configurations: 1..8 classes, ids 0..7 possibly repeated with the SAME kind
    for i in 0..random {
        let n = 1 + r.rng.below(8) as usize;
        let mut kind_of: [Option<Count>; 8] = [None; 8];
        let mut classes = Vec::new();
        for _ in 0..n {
            let id = r.rng.below(8) as usize;
            let k = *kind_of[id].get_or_insert(*r.rng.pick(&KINDS));
            classes.push(ClassConfig { id: id as u8, count: k, order: rand_order(&mut r.rng), gfp: rand_gfp(&mut r.rng, 4) });
        }
        let m = wrap(classes);
        let json = facet_json::to_string(&m).expect("serialise");
        let o = Opts { cores: all_cores.clone(), sweep_step: if level == 0 { 5 } else { 1 }, grid: true, use_alloc: true };
        r.run_config(&format!("random{i}"), &json, &m, &o);
    }

    // ---- 4. outside the hypotheses (correspondence of the panics only): cores = 0, empty class list
    for code in 0..5 {
        let m = wrap(vec![ClassConfig { id: 0, count: KINDS[code], order: None, gfp: GfpMatch::default() }]);
        let json = facet_json::to_string(&m).expect("serialise");
        let o = Opts { cores: vec![0], sweep_step: 16, grid: false, use_alloc: false };
        r.run_config(&format!("edge-cores0:{}", kind_name(KINDS[code])), &json, &m, &o);
    }
    {
        let m = wrap(vec![]);
        let json = facet_json::to_string(&m).expect("serialise");
        let o = Opts { cores: vec![1, 4], sweep_step: 16, grid: false, use_alloc: false };
        r.run_config("edge-empty", &json, &m, &o);
    }

    {
        // 9 classes: `Classing::new` asserts at most 8
        let classes = (0..9u8)
            .map(|i| ClassConfig { id: i % 8, count: Count::Cores, order: Some((i as usize, i as usize)), gfp: GfpMatch::default() })
            .collect();
        let m = wrap(classes);
        let json = facet_json::to_string(&m).expect("serialise");
        let o = Opts { cores: vec![2], sweep_step: 16, grid: false, use_alloc: false };
        r.run_config("edge-nine", &json, &m, &o);
    }

    // ---- 5. investigation only (--dups N): duplicate ids with DIFFERENT kinds
    for i in 0..dups {
        let n = 2 + r.rng.below(3) as usize;
        let mut classes = Vec::new();
        for j in 0..n {
            let id = if j == 0 { 0 } else { r.rng.below(2) as u8 };
            classes.push(ClassConfig { id, count: *r.rng.pick(&KINDS), order: rand_order(&mut r.rng), gfp: rand_gfp(&mut r.rng, 2) });
        }
        let m = wrap(classes);
        let json = facet_json::to_string(&m).expect("serialise");
        let o = Opts { cores: vec![1, 2, 4, 16], sweep_step: 7, grid: true, use_alloc: true };
        r.run_config(&format!("dup{i}"), &json, &m, &o);
    }

    r.w.flush().unwrap();
    eprintln!("classrun: evaluations={} use_panics={}", r.evals, r.use_panics);
}
