fn main() {
    let c: llfree_eval::classes::ClassingConfig = facet_json::from_str(r#"{"classes":[{"id":0,"count":"one","order":null}],"default":0,"perfect":[1,2],"good":[3,4]}"#).unwrap();
    println!("{c:?} {:?}", c.request(0, 0, 1, 0, 0));
}
