//! Policy tie for the evaluation crate's JSON class configurations: load every
//! /repo/results/classes*.json with the real `ClassingConfig`, call the real `.classing(cores)` (which stores
//! the PERFECT / GOOD ranges into the statics read by the nested `policy`) and tabulate the real
//! `(classing.policy)(Class(r), Class(t), free)` for the comparison with Requests.v `pol_json` by driver `policy`.
//! Besides the shipped files, seeded variants of the first file with other PERFECT / GOOD ranges (text
//! substitution of the two JSON entries; overlapping, empty and single-point ranges included).
//!
//! Transcript:
//!   J <label> <perfect_lo>,<perfect_hi> <good_lo>,<good_hi>     ranges as parsed by the real config (its `{:?}`)
//!   K <label> <cores> => <c>:<n>,... default <d>
//!   P json <r> <t> <free> => match <n>|demote|steal|invalid|panic      (under the last J line)
use std::io::Write;
use std::panic::{AssertUnwindSafe, catch_unwind};

use llfree::{Class, Policy, TREE_FRAMES};
use llfree_eval::classes::ClassingConfig;
use llfree_verif_harness_eval::{Args, Rng, out};

fn show_policy(p: Policy) -> String {
    match p {
        Policy::Match(n) => format!("match {n}"),
        Policy::Demote => "demote".into(),
        Policy::Steal => "steal".into(),
        Policy::Invalid => "invalid".into(),
    }
}

/// `(a, b)` following `<key>: ` in the Debug output of the real (parsed) configuration
fn debug_pair(dbg: &str, key: &str) -> (usize, usize) {
    let k = format!("{key}: (");
    let i = dbg.rfind(&k).unwrap_or_else(|| panic!("no {key} in {dbg}")) + k.len();
    let rest = &dbg[i..];
    let j = rest.find(')').expect("pair end");
    let mut it = rest[..j].split(',').map(|x| x.trim().parse::<usize>().expect("number"));
    (it.next().unwrap(), it.next().unwrap())
}

/// replace the `[a, b]` following `"<key>"` in the JSON text
fn set_pair(json: &str, key: &str, (a, b): (usize, usize)) -> String {
    let k = format!("\"{key}\"");
    let i = json.find(&k).expect("key");
    let s = i + json[i..].find('[').expect("[");
    let e = s + json[s..].find(']').expect("]");
    format!("{}[{a}, {b}]{}", &json[..s], &json[e + 1..])
}

fn run_one(w: &mut dyn Write, label: &str, json: &str, rng: &mut Rng, random: usize, cnt: &mut u64) {
    let cfg: ClassingConfig = match facet_json::from_str(json) {
        Ok(c) => c,
        Err(e) => {
            writeln!(w, "X {label} parse error {}", format!("{e:?}").replace('\n', " ")).unwrap();
            return;
        }
    };
    let dbg = format!("{cfg:?}");
    let (plo, phi) = debug_pair(&dbg, "perfect");
    let (glo, ghi) = debug_pair(&dbg, "good");
    writeln!(w, "J {label} {plo},{phi} {glo},{ghi}").unwrap();
    let mut frees = vec![0, 1, TREE_FRAMES / 64, TREE_FRAMES / 2, TREE_FRAMES - 1, TREE_FRAMES, TREE_FRAMES + 1];
    for b in [plo, phi, glo, ghi] {
        frees.extend([b.saturating_sub(1), b, b + 1]);
    }
    for _ in 0..random {
        frees.push(rng.below(TREE_FRAMES as u64 + 2) as usize);
    }
    for cores in [1usize, 2, 5, 8] {
        let classing = match catch_unwind(AssertUnwindSafe(|| cfg.classing(cores))) {
            Ok(c) => c,
            Err(_) => {
                writeln!(w, "K {label} {cores} => panic").unwrap();
                continue;
            }
        };
        let cl: Vec<String> = classing.classes().iter().map(|(c, n)| format!("{}:{}", c.0, n)).collect();
        writeln!(w, "K {label} {cores} => {} default {}", cl.join(","), classing.default.0).unwrap();
        // the policy does not take `cores`; the sweep is repeated for the first and last core count only
        if cores != 1 && cores != 8 {
            continue;
        }
        for r in 0..=7u8 {
            for t in 0..=7u8 {
                for &free in &frees {
                    *cnt += 1;
                    let res = catch_unwind(AssertUnwindSafe(|| (classing.policy)(Class(r), Class(t), free)))
                        .map(show_policy)
                        .unwrap_or_else(|_| "panic".into());
                    writeln!(w, "P json {r} {t} {free} => {res}").unwrap();
                }
            }
        }
    }
}

fn main() {
    let args = Args::parse();
    let seed = args.num("seed", 1);
    let random = args.num("random", 16) as usize;
    let variants = args.num("variants", 12) as usize;
    let results = args.get("results").unwrap_or("/repo/results").to_string();
    let mut w = out(args.get("out"));
    let mut rng = Rng::new(seed);
    std::panic::set_hook(Box::new(|_| {}));
    let mut cnt = 0u64;

    let mut shipped: Vec<_> = std::fs::read_dir(&results)
        .expect("results dir")
        .filter_map(|e| e.ok())
        .map(|e| e.path())
        .filter(|p| {
            let n = p.file_name().unwrap().to_string_lossy().to_string();
            n.starts_with("classes") && n.ends_with(".json")
        })
        .collect();
    shipped.sort();
    let mut first: Option<(String, String)> = None;
    for p in &shipped {
        let name = p.file_name().unwrap().to_string_lossy().to_string();
        let text = std::fs::read_to_string(p).expect("read");
        run_one(&mut *w, &name, &text, &mut rng, random, &mut cnt);
        first.get_or_insert((name, text));
    }
    // other ranges: same classes, substituted PERFECT / GOOD
    if let Some((name, text)) = first {
        let tf = TREE_FRAMES;
        let mut ranges: Vec<((usize, usize), (usize, usize))> = vec![
            ((0, 0), (0, 0)),
            ((0, tf), (0, tf)),             // perfect shadows good
            ((tf / 2, tf), (0, tf / 2)),    // overlap in one point
            ((5, 4), (0, tf)),              // empty perfect range
            ((10, 20), (30, 29)),           // empty good range
            ((tf, tf), (tf + 1, tf + 1)),
        ];
        while ranges.len() < variants {
            let pick = |rng: &mut Rng| {
                let a = rng.below(tf as u64 + 2) as usize;
                let b = rng.below(tf as u64 + 2) as usize;
                if rng.chance(1, 6) { (a.max(b), a.min(b)) } else { (a.min(b), a.max(b)) }
            };
            let p = pick(&mut rng);
            let g = pick(&mut rng);
            ranges.push((p, g));
        }
        for (k, (p, g)) in ranges.into_iter().take(variants).enumerate() {
            let t2 = set_pair(&set_pair(&text, "perfect", p), "good", g);
            run_one(&mut *w, &format!("{name}#{k}"), &t2, &mut rng, random, &mut cnt);
        }
    }
    w.flush().unwrap();
    eprintln!("poljson: files={} lines={cnt}", shipped.len());
}
