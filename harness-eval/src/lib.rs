//! Shared helpers of the evaluation-crate verification harness (same conventions as
//! /verif/harness/src/lib.rs): PRNG, argument parsing, output.
use std::io::{BufWriter, Write};

/// SplitMix64: every random choice of a run derives from one seed.
#[derive(Clone)]
pub struct Rng(pub u64);
impl Rng {
    pub fn new(seed: u64) -> Self {
        Rng(seed ^ 0x9e37_79b9_7f4a_7c15)
    }
    pub fn next(&mut self) -> u64 {
        self.0 = self.0.wrapping_add(0x9e37_79b9_7f4a_7c15);
        let mut z = self.0;
        z = (z ^ (z >> 30)).wrapping_mul(0xbf58_476d_1ce4_e5b9);
        z = (z ^ (z >> 27)).wrapping_mul(0x94d0_49bb_1331_11eb);
        z ^ (z >> 31)
    }
    pub fn below(&mut self, n: u64) -> u64 {
        if n == 0 { 0 } else { self.next() % n }
    }
    pub fn range(&mut self, lo: usize, hi: usize) -> usize {
        lo + self.below((hi - lo) as u64) as usize
    }
    pub fn chance(&mut self, num: u64, den: u64) -> bool {
        self.below(den) < num
    }
    pub fn pick<'a, T>(&mut self, v: &'a [T]) -> &'a T {
        &v[self.below(v.len() as u64) as usize]
    }
}

/// `--key value` arguments
pub struct Args(Vec<String>);
impl Args {
    pub fn parse() -> Self {
        Args(std::env::args().skip(1).collect())
    }
    pub fn get(&self, key: &str) -> Option<&str> {
        let k = format!("--{key}");
        self.0
            .iter()
            .position(|a| *a == k)
            .and_then(|i| self.0.get(i + 1))
            .map(|s| s.as_str())
    }
    pub fn num(&self, key: &str, default: u64) -> u64 {
        self.get(key).map(|s| s.parse().expect(key)).unwrap_or(default)
    }
    pub fn flag(&self, key: &str) -> bool {
        let k = format!("--{key}");
        self.0.iter().any(|a| *a == k)
    }
}

pub fn out(path: Option<&str>) -> Box<dyn Write> {
    match path {
        Some(p) => Box::new(BufWriter::with_capacity(1 << 20, std::fs::File::create(p).expect("create"))),
        None => Box::new(BufWriter::with_capacity(1 << 20, std::io::stdout())),
    }
}
