(* Extraction of the executable model for the correspondence driver.
   ExtrOcamlBasic only: bool, option, list, prod, unit, sumbool map to OCaml's; N, positive, nat
   stay Coq's inductives. No Extract Constant / Extract Inductive of our own. *)
From LLF Require Import Base Row.
Require Import ExtrOcamlBasic.
Extraction Language OCaml.
Set Extraction KeepSingleton.
Extraction "model.ml" fza row_spec popcount.
