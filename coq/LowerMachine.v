(* M1: small-step semantics of the lower allocator (lower.rs + bitfield.rs + atomic.rs): one
   transition per atomic load / compare-exchange of an `Atom`, any number of threads, any schedule.
   `try_update f` is two program points: a load, then a CAS that on failure receives the current value
   and retries (the loop of `fetch_update`).  Definitions only.
   This is the machine of the code with the repair of D12 applied (`set_first_zero_rows` returns only
   when all rows of the chunk were set; after a rollback it continues with the next chunk).
   Threads are a most general client of the lower allocator: when idle a thread may start any
   `get(start, order)`, `get_at(frame, order)` (aligned, in range, order <= tree order: what the upper
   allocator's `check` guarantees) or `put(frame, order)` of a block it may free: a held block or an
   aligned sub-block of a held block (the ghost `held` list is split accordingly).
   Ghost state (`held`) is written by the transition function and never read by the program. *)
From LLF Require Import Base Row Bitfield Lower.

Inductive call :=
| CGet (start : N) (order : nat)
| CGetAt (frame : N) (order : nat)
| CPut (frame : N) (order : nat).

Inductive tctx := XGetAt | XPut | XSplit (old : N).

Inductive pc :=
(* get, order < hord: child loop j *)
| G1L (j : N) | G1C (j : N) (v : N)                  (* try_update ent with dec *)
| G2L (j i : N) | G2C (j i : N) (e : N)               (* order <= 6: try_update row with fza, row loop i *)
| G2R (j c q : N) | G2W (j c q : N) | G2U (j c q : N) (* order >= 7: chunk c: check rows, fill rows, roll back *)
| G3L (j : N) | G3C (j : N) (v : N)                  (* undo: try_update ent with inc *)
(* compare_exchange_all over entries: group gi, entry q forward / undo (get huge, get_at huge, put huge) *)
| HC (gi q : N) | HU (gi q : N)
(* get_at, order < hord *)
| A1L | A1C (v : N) | A3L | A3C (v : N)
(* Bitfield::toggle in context x *)
| TL (x : tctx) | TC (x : tctx) (e : N) | TN (x : tctx) | TW (x : tctx) (q : N) | TU (x : tctx) (q : N)
(* put, order < hord *)
| P1 | PP2 (old : N) | PP3 (n : N) | PS2L | PS2C (v : N).

Inductive thr :=
| TIdle (last : option (res N))       (* result of the last completed call *)
| TRun (c : call) (p : pc)
| TPanic (s : site) (c : call).       (* the thread panicked inside call c (and stays there) *)

Inductive akind := KLoad | KCas.
Record event := {
  ev_kind : akind;
  ev_ent : bool;          (* true: huge entry table; false: bitfield row *)
  ev_h : N;               (* huge frame index *)
  ev_r : N;               (* row within the bitfield (0 for entries) *)
  ev_off : N;             (* bit offset of the accessed lane within the row *)
  ev_width : N;           (* access width in bits: 16 for entries; 8/16/32/64 for rows *)
  ev_val : N;             (* value read (load) / value found (CAS) *)
  ev_new : N;             (* CAS: value to be written; load: 0 *)
  ev_ok : bool
}.

Record mstate := {
  ms_frames : N;
  ms_ents : list N;
  ms_bfs : list (list N);
  ms_pool : list thr;
  ms_held : list (N * nat)            (* ghost: blocks (frame, order) handed out and not yet freed *)
}.

Definition RETRIES : N := 4.

Section Machine.
  Variable g : geom.
  Notation HF := (HF g).
  Notation TF := (TF g).
  Notation THUGE := (THUGE g).
  Notation ROWS := (ROWS g).

  Definition set_thr (s : mstate) (t : nat) (x : thr) : mstate :=
    {| ms_frames := ms_frames s; ms_ents := ms_ents s; ms_bfs := ms_bfs s;
       ms_pool := upd (ms_pool s) t x; ms_held := ms_held s |}.
  Definition set_ents (s : mstate) (es : list N) : mstate :=
    {| ms_frames := ms_frames s; ms_ents := es; ms_bfs := ms_bfs s; ms_pool := ms_pool s; ms_held := ms_held s |}.
  Definition set_bfs (s : mstate) (bs : list (list N)) : mstate :=
    {| ms_frames := ms_frames s; ms_ents := ms_ents s; ms_bfs := bs; ms_pool := ms_pool s; ms_held := ms_held s |}.
  Definition set_held (s : mstate) (h : list (N * nat)) : mstate :=
    {| ms_frames := ms_frames s; ms_ents := ms_ents s; ms_bfs := ms_bfs s; ms_pool := ms_pool s; ms_held := h |}.

  Definition rd_ent (s : mstate) (h : N) : option N := nth_error (ms_ents s) (nn h).
  Definition wr_ent (s : mstate) (h v : N) : mstate := set_ents s (upd (ms_ents s) (nn h) v).
  Definition rd_row (s : mstate) (h r : N) : option N :=
    match nth_error (ms_bfs s) (nn h) with Some rows => nth_error rows (nn r) | None => None end.
  Definition wr_row (s : mstate) (h r v : N) : mstate :=
    match nth_error (ms_bfs s) (nn h) with
    | Some rows => set_bfs s (upd (ms_bfs s) (nn h) (upd rows (nn r) v))
    | None => s
    end.

  Definition ev_ld_ent h v := {| ev_kind := KLoad; ev_ent := true; ev_h := h; ev_r := 0; ev_off := 0; ev_width := 16; ev_val := v; ev_new := 0; ev_ok := true |}.
  Definition ev_cas_ent h v n ok := {| ev_kind := KCas; ev_ent := true; ev_h := h; ev_r := 0; ev_off := 0; ev_width := 16; ev_val := v; ev_new := n; ev_ok := ok |}.
  Definition ev_ld_row h r v := {| ev_kind := KLoad; ev_ent := false; ev_h := h; ev_r := r; ev_off := 0; ev_width := 64; ev_val := v; ev_new := 0; ev_ok := true |}.
  Definition ev_cas_row h r off w v n ok := {| ev_kind := KCas; ev_ent := false; ev_h := h; ev_r := r; ev_off := off; ev_width := w; ev_val := v; ev_new := n; ev_ok := ok |}.

  (* ----- parameters of a call ----- *)
  Definition c_order (c : call) : nat := match c with CGet _ o | CGetAt _ o | CPut _ o => o end.
  Definition c_frame (c : call) : N := match c with CGet s _ => s * 64 | CGetAt f _ | CPut f _ => f end.
  Definition c_huge (c : call) : N := c_frame c / HF.                     (* huge frame of the frame / hint *)
  Definition c_tbase (c : call) : N := (c_frame c / TF) * THUGE.          (* first huge frame of the tree *)
  Definition c_n (c : call) : N := pow2 (c_order c).
  Definition c_hnum (c : call) : N := pow2 (c_order c - hord g).          (* entries of a huge-order block *)
  Definition c_choff (c : call) : N := c_huge c mod THUGE.
  Definition c_start (c : call) : N := match c with CGet s _ => s | _ => 0 end.

  (* huge frame of child loop index j (get) *)
  Definition child_h (c : call) (j : N) : N := c_tbase c + (c_choff c + j) mod THUGE.
  (* first entry of cas_all group gi *)
  Definition group_h (c : call) (gi : N) : N :=
    match c with
    | CGet _ _ => c_tbase c + ((c_choff c / c_hnum c) * c_hnum c + gi * c_hnum c) mod THUGE
    | _ => c_huge c
    end.
  Definition group_cnt (c : call) : N := match c with CGet _ _ => THUGE / c_hnum c | _ => 1 end.
  Definition cas_cur (c : call) : N := match c with CPut _ _ => MARK | _ => HF end.
  Definition cas_new (c : call) : N := match c with CPut _ _ => HF | _ => MARK end.

  (* multi-row search: rows per chunk, number of chunks *)
  Definition c_nr (c : call) : N := pow2 (c_order c - 6).
  Definition c_chunks (c : call) : N := ROWS / c_nr c.

  (* ----- toggle parameters in context x ----- *)
  Definition t_order (x : tctx) (c : call) : nat := match x with XSplit _ => hord g | _ => c_order c end.
  Definition t_expected (x : tctx) : bool := match x with XPut => true | _ => false end.
  Definition t_row (x : tctx) (c : call) : N := match x with XSplit _ => 0 | _ => (c_frame c / 64) mod ROWS end.
  Definition t_off (x : tctx) (c : call) : N := match x with XSplit _ => 0 | _ => c_frame c mod 64 end.
  Definition t_nrows (x : tctx) (c : call) : N := pow2 (t_order x c - 6).
  Definition t_mask (x : tctx) (c : call) : N := mask64 (pow2 (t_order x c)) (t_off x c).
  Definition toggle_f (x : tctx) (c : call) (e : N) : option N :=
    let m := t_mask x c in
    if t_expected x then (if N.land e m =? m then Some (N.land e (not64 m)) else None)
    else (if N.land e m =? 0 then Some (N.lor e m) else None).
  Definition toggle_entry (x : tctx) (c : call) : pc :=
    if Nat.leb (t_order x c) 2 then TL x else if Nat.leb (t_order x c) 6 then TN x else TW x 0.

  (* ----- ghost: the client's blocks ----- *)
  Definition blk_in (f : N) (k : nat) (F : N) (K : nat) : bool :=
    Nat.leb k K && (F <=? f) && (f + pow2 k <=? F + pow2 K).
  (* siblings left over when (f,k) is carved out of a block of order K that contains it *)
  Fixpoint siblings (f : N) (k : nat) (n : nat) : list (N * nat) :=
    match n with
    | O => []
    | S n' => (N.lxor (f / pow2 k) 1 * pow2 k, k) :: siblings ((f / pow2 (S k)) * pow2 (S k)) (S k) n'
    end.
  Fixpoint client_take (held : list (N * nat)) (f : N) (k : nat) : option (list (N * nat)) :=
    match held with
    | [] => None
    | (F, K) :: r =>
        if blk_in f k F K then Some (siblings f k (K - k) ++ r)
        else match client_take r f k with Some r' => Some ((F, K) :: r') | None => None end
    end.

  Definition finish (s : mstate) (t : nat) (c : call) (r : res N) : mstate :=
    let s1 := set_thr s t (TIdle (Some r)) in
    match c, r with
    | CGet _ o, Ok f => set_held s1 ((f, o) :: ms_held s1)
    | CGetAt _ o, Ok f => set_held s1 ((f, o) :: ms_held s1)
    | _, _ => s1
    end.
  Definition goto (s : mstate) (t : nat) (c : call) (p : pc) : mstate := set_thr s t (TRun c p).
  Definition crash (s : mstate) (t : nat) (c : call) (x : site) : mstate := set_thr s t (TPanic x c).

  (* continuation after a toggle *)
  Definition toggle_ok (s : mstate) (t : nat) (c : call) (x : tctx) : mstate :=
    match x with
    | XGetAt => finish s t c (Ok (c_frame c))
    | XPut => goto s t c PS2L
    | XSplit old => goto s t c (PP2 old)
    end.
  Definition toggle_fail (s : mstate) (t : nat) (c : call) (x : tctx) : mstate :=
    match x with
    | XGetAt => goto s t c A3L
    | XPut => finish s t c (Err EMemory)
    | XSplit _ => goto s t c (PP3 0)
    end.

  (* next child of the get loop, or out of memory *)
  Definition next_child (s : mstate) (t : nat) (c : call) (j : N) : mstate :=
    if j + 1 <? THUGE then goto s t c (G1L (j + 1)) else finish s t c (Err EMemory).
  Definition next_row (s : mstate) (t : nat) (c : call) (j i : N) : mstate :=
    if i + 1 <? ROWS then goto s t c (G2L j (i + 1)) else goto s t c (G3L j).
  Definition next_chunk (s : mstate) (t : nat) (c : call) (j ch : N) : mstate :=
    if ch + 1 <? c_chunks c then goto s t c (G2R j (ch + 1) 0) else goto s t c (G3L j).
  Definition next_group (s : mstate) (t : nat) (c : call) (gi : N) : mstate :=
    if gi + 1 <? group_cnt c then goto s t c (HC (gi + 1) 0) else finish s t c (Err EMemory).

  (* the first program point of a call *)
  Definition entry_pc (c : call) : pc :=
    match c with
    | CGet _ o => if Nat.leb (hord g) o then HC 0 0 else G1L 0
    | CGetAt _ o => if Nat.leb (hord g) o then HC 0 0 else A1L
    | CPut _ o => if Nat.leb (hord g) o then HC 0 0 else P1
    end.

  (* preconditions the upper allocator guarantees *)
  Definition call_ok (s : mstate) (c : call) : bool :=
    Nat.leb (c_order c) (tord g) &&
    match c with
    | CGet st _ => (st * 64) / TF <? ntab g (ms_frames s)
    | CGetAt f o | CPut f o => (f mod pow2 o =? 0) && (f + pow2 o <=? ms_frames s)
    end.

  (* one step of thread t; `c` is the call to start if the thread is idle *)
  Definition mstep (s : mstate) (t : nat) (c0 : call) : mstate * option event :=
    match nth_error (ms_pool s) t with
    | None => (s, None)
    | Some (TPanic _ _) => (s, None)
    | Some (TIdle _) =>
        if call_ok s c0 then
          match c0 with
          | CPut f k =>
              match client_take (ms_held s) f k with
              | Some h' => (goto (set_held s h') t c0 (entry_pc c0), None)
              | None => (s, None)                      (* not a block the client may free *)
              end
          | _ => (goto s t c0 (entry_pc c0), None)
          end
        else (s, None)
    | Some (TRun c p) =>
        let n := c_n c in
        let k := c_order c in
        match p with
        (* ---------- get small ---------- *)
        | G1L j =>
            let h := child_h c j in
            match rd_ent s h with
            | None => (crash s t c (SIndex 1), None)
            | Some v => (match e_dec v n with
                         | Some _ => goto s t c (G1C j v)
                         | None => next_child s t c j end, Some (ev_ld_ent h v))
            end
        | G1C j v =>
            let h := child_h c j in
            match rd_ent s h, e_dec v n with
            | Some cur, Some v' =>
                if cur =? v then
                  (goto (wr_ent s h v') t c (if Nat.leb k 6 then G2L j 0 else G2R j 0 0), Some (ev_cas_ent h cur v' true))
                else (match e_dec cur n with
                      | Some _ => goto s t c (G1C j cur)
                      | None => next_child s t c j end, Some (ev_cas_ent h cur v' false))
            | _, _ => (crash s t c (SIndex 1), None)
            end
        | G2L j i =>
            let h := child_h c j in
            let r := (i + c_start c mod ROWS) mod ROWS in
            match rd_row s h r with
            | None => (crash s t c (SIndex 2), None)
            | Some e => (match fza e k with
                         | Some _ => goto s t c (G2C j i e)
                         | None => next_row s t c j i end, Some (ev_ld_row h r e))
            end
        | G2C j i e =>
            let h := child_h c j in
            let r := (i + c_start c mod ROWS) mod ROWS in
            match rd_row s h r, fza e k with
            | Some cur, Some (v', off) =>
                if cur =? e then
                  (finish (wr_row s h r v') t c (Ok (h * HF + r * 64 + off)), Some (ev_cas_row h r 0 64 cur v' true))
                else (match fza cur k with
                      | Some _ => goto s t c (G2C j i cur)
                      | None => next_row s t c j i end, Some (ev_cas_row h r 0 64 cur v' false))
            | _, _ => (crash s t c (SIndex 2), None)
            end
        | G2R j ch q =>
            let h := child_h c j in
            let r := ch * c_nr c + q in
            match rd_row s h r with
            | None => (crash s t c (SIndex 2), None)
            | Some e => (if e =? 0 then
                           (if q + 1 <? c_nr c then goto s t c (G2R j ch (q + 1)) else goto s t c (G2W j ch 0))
                         else next_chunk s t c j ch, Some (ev_ld_row h r e))
            end
        | G2W j ch q =>
            let h := child_h c j in
            let r := ch * c_nr c + q in
            match rd_row s h r with
            | None => (crash s t c (SIndex 2), None)
            | Some cur =>
                if cur =? 0 then
                  (let s1 := wr_row s h r MAX64 in
                   if q + 1 <? c_nr c then goto s1 t c (G2W j ch (q + 1))
                   else finish s1 t c (Ok (h * HF + ch * c_nr c * 64)), Some (ev_cas_row h r 0 64 cur MAX64 true))
                else ((if q =? 0 then next_chunk s t c j ch else goto s t c (G2U j ch (q - 1))),
                      Some (ev_cas_row h r 0 64 cur MAX64 false))
            end
        | G2U j ch q =>
            let h := child_h c j in
            let r := ch * c_nr c + q in
            match rd_row s h r with
            | None => (crash s t c (SIndex 2), None)
            | Some cur =>
                if cur =? MAX64 then
                  (let s1 := wr_row s h r 0 in
                   if q =? 0 then next_chunk s1 t c j ch else goto s1 t c (G2U j ch (q - 1)),
                   Some (ev_cas_row h r 0 64 cur 0 true))
                else (crash s t c SFailedUndoSearch, Some (ev_cas_row h r 0 64 cur 0 false))
            end
        | G3L j =>
            let h := child_h c j in
            match rd_ent s h with
            | None => (crash s t c (SIndex 1), None)
            | Some v => (match e_inc g v n with
                         | Some _ => goto s t c (G3C j v)
                         | None => crash s t c SUndoFailed end, Some (ev_ld_ent h v))
            end
        | G3C j v =>
            let h := child_h c j in
            match rd_ent s h, e_inc g v n with
            | Some cur, Some v' =>
                if cur =? v then (next_child (wr_ent s h v') t c j, Some (ev_cas_ent h cur v' true))
                else (match e_inc g cur n with
                      | Some _ => goto s t c (G3C j cur)
                      | None => crash s t c SUndoFailed end, Some (ev_cas_ent h cur v' false))
            | _, _ => (crash s t c (SIndex 1), None)
            end
        (* ---------- compare_exchange_all ---------- *)
        | HC gi q =>
            let h := group_h c gi + q in
            match rd_ent s h with
            | None => (crash s t c (SIndex 3), None)
            | Some cur =>
                if cur =? cas_cur c then
                  (let s1 := wr_ent s h (cas_new c) in
                   if q + 1 <? c_hnum c then goto s1 t c (HC gi (q + 1))
                   else finish s1 t c (match c with CPut _ _ => Ok 0 | _ => Ok (group_h c gi * HF) end),
                   Some (ev_cas_ent h cur (cas_new c) true))
                else ((if q =? 0 then next_group s t c gi else goto s t c (HU gi (q - 1))),
                      Some (ev_cas_ent h cur (cas_new c) false))
            end
        | HU gi q =>
            let h := group_h c gi + q in
            match rd_ent s h with
            | None => (crash s t c (SIndex 3), None)
            | Some cur =>
                if cur =? cas_new c then
                  (let s1 := wr_ent s h (cas_cur c) in
                   if q =? 0 then next_group s1 t c gi else goto s1 t c (HU gi (q - 1)),
                   Some (ev_cas_ent h cur (cas_cur c) true))
                else (crash s t c SUndoFailedAll, Some (ev_cas_ent h cur (cas_cur c) false))
            end
        (* ---------- get_at small ---------- *)
        | A1L =>
            let h := c_huge c in
            match rd_ent s h with
            | None => (crash s t c (SIndex 6), None)
            | Some v => (match e_dec v n with
                         | Some _ => goto s t c (A1C v)
                         | None => finish s t c (Err EMemory) end, Some (ev_ld_ent h v))
            end
        | A1C v =>
            let h := c_huge c in
            match rd_ent s h, e_dec v n with
            | Some cur, Some v' =>
                if cur =? v then (goto (wr_ent s h v') t c (toggle_entry XGetAt c), Some (ev_cas_ent h cur v' true))
                else (match e_dec cur n with
                      | Some _ => goto s t c (A1C cur)
                      | None => finish s t c (Err EMemory) end, Some (ev_cas_ent h cur v' false))
            | _, _ => (crash s t c (SIndex 6), None)
            end
        | A3L =>
            let h := c_huge c in
            match rd_ent s h with
            | None => (crash s t c (SIndex 6), None)
            | Some v => (match e_inc g v n with
                         | Some _ => goto s t c (A3C v)
                         | None => crash s t c SUndoUnwrap end, Some (ev_ld_ent h v))
            end
        | A3C v =>
            let h := c_huge c in
            match rd_ent s h, e_inc g v n with
            | Some cur, Some v' =>
                if cur =? v then (finish (wr_ent s h v') t c (Err EMemory), Some (ev_cas_ent h cur v' true))
                else (match e_inc g cur n with
                      | Some _ => goto s t c (A3C cur)
                      | None => crash s t c SUndoUnwrap end, Some (ev_cas_ent h cur v' false))
            | _, _ => (crash s t c (SIndex 6), None)
            end
        (* ---------- toggle ---------- *)
        | TL x =>
            let h := c_huge c in
            let r := t_row x c in
            match rd_row s h r with
            | None => (crash s t c (SIndex 7), None)
            | Some e => (match toggle_f x c e with
                         | Some _ => goto s t c (TC x e)
                         | None => toggle_fail s t c x end, Some (ev_ld_row h r e))
            end
        | TC x e =>
            let h := c_huge c in
            let r := t_row x c in
            match rd_row s h r, toggle_f x c e with
            | Some cur, Some v' =>
                if cur =? e then (toggle_ok (wr_row s h r v') t c x, Some (ev_cas_row h r 0 64 cur v' true))
                else (match toggle_f x c cur with
                      | Some _ => goto s t c (TC x cur)
                      | None => toggle_fail s t c x end, Some (ev_cas_row h r 0 64 cur v' false))
            | _, _ => (crash s t c (SIndex 7), None)
            end
        | TN x =>
            (* one narrow compare-exchange on the 2^order-bit lane *)
            let h := c_huge c in
            let r := t_row x c in
            let w := pow2 (t_order x c) in
            let off := t_off x c in
            match rd_row s h r with
            | None => (crash s t c (SIndex 7), None)
            | Some cur =>
                let lane := N.land (N.shiftr cur off) (ones w) in
                let val := if t_expected x then ones w else 0 in
                let nval := if t_expected x then 0 else ones w in
                if lane =? val then
                  (toggle_ok (wr_row s h r (N.lxor cur (N.shiftl (ones w) off))) t c x,
                   Some (ev_cas_row h r off w lane nval true))
                else (toggle_fail s t c x, Some (ev_cas_row h r off w lane nval false))
            end
        | TW x q =>
            let h := c_huge c in
            let r := t_row x c + q in
            let exp := if t_expected x then MAX64 else 0 in
            let nexp := if t_expected x then 0 else MAX64 in
            match rd_row s h r with
            | None => (crash s t c (SIndex 7), None)
            | Some cur =>
                if cur =? exp then
                  (let s1 := wr_row s h r nexp in
                   if q + 1 <? t_nrows x c then goto s1 t c (TW x (q + 1)) else toggle_ok s1 t c x,
                   Some (ev_cas_row h r 0 64 cur nexp true))
                else ((if q =? 0 then toggle_fail s t c x else goto s t c (TU x (q - 1))),
                      Some (ev_cas_row h r 0 64 cur nexp false))
            end
        | TU x q =>
            let h := c_huge c in
            let r := t_row x c + q in
            let exp := if t_expected x then MAX64 else 0 in
            let nexp := if t_expected x then 0 else MAX64 in
            match rd_row s h r with
            | None => (crash s t c (SIndex 7), None)
            | Some cur =>
                if cur =? nexp then
                  (let s1 := wr_row s h r exp in
                   if q =? 0 then toggle_fail s1 t c x else goto s1 t c (TU x (q - 1)),
                   Some (ev_cas_row h r 0 64 cur exp true))
                else (crash s t c SFailedUndoToggle, Some (ev_cas_row h r 0 64 cur exp false))
            end
        (* ---------- put small ---------- *)
        | P1 =>
            let h := c_huge c in
            match rd_ent s h with
            | None => (crash s t c (SIndex 13), None)
            | Some old =>
                ((if e_huge old then goto s t c (toggle_entry (XSplit old) c)
                  else if e_free old + n <=? HF then goto s t c (toggle_entry XPut c)
                  else finish s t c (Err EMemory)), Some (ev_ld_ent h old))
            end
        | PP2 old =>
            let h := c_huge c in
            match rd_ent s h with
            | None => (crash s t c (SIndex 13), None)
            | Some cur =>
                if cur =? old then (goto (wr_ent s h 0) t c (toggle_entry XPut c), Some (ev_cas_ent h cur 0 true))
                else (crash s t c SFailedPartialClear, Some (ev_cas_ent h cur 0 false))
            end
        | PP3 i =>
            let h := c_huge c in
            match rd_ent s h with
            | None => (crash s t c (SIndex 13), None)
            | Some cur =>
                ((if negb (e_huge cur) then goto s t c (toggle_entry XPut c)
                  else if i + 1 <? RETRIES then goto s t c (PP3 (i + 1))
                  else crash s t c SExceedingRetries), Some (ev_ld_ent h cur))
            end
        | PS2L =>
            let h := c_huge c in
            match rd_ent s h with
            | None => (crash s t c (SIndex 9), None)
            | Some v => (match e_inc g v n with
                         | Some _ => goto s t c (PS2C v)
                         | None => crash s t c SIncFailed end, Some (ev_ld_ent h v))
            end
        | PS2C v =>
            let h := c_huge c in
            match rd_ent s h, e_inc g v n with
            | Some cur, Some v' =>
                if cur =? v then (finish (wr_ent s h v') t c (Ok 0), Some (ev_cas_ent h cur v' true))
                else (match e_inc g cur n with
                      | Some _ => goto s t c (PS2C cur)
                      | None => crash s t c SIncFailed end, Some (ev_cas_ent h cur v' false))
            | _, _ => (crash s t c (SIndex 9), None)
            end
        end
    end.

  (* a schedule: which thread moves, and which call it starts if it is idle *)
  Definition mrun (sch : list (nat * call)) (s : mstate) : mstate :=
    fold_left (fun s tc => fst (mstep s (fst tc) (snd tc))) sch s.

  (* initial state over a lower-allocator state, `n` idle threads, the client's initial blocks *)
  Definition boot (l : lower) (held0 : list (N * nat)) (n : nat) : mstate :=
    {| ms_frames := frames l; ms_ents := ents l; ms_bfs := bfs l;
       ms_pool := repeat (TIdle None) n; ms_held := held0 |}.

  Definition lower_of (s : mstate) : lower := {| frames := ms_frames s; bfs := ms_bfs s; ents := ms_ents s |}.

  (* the client's blocks after AllocAll: every whole huge frame, every other managed frame at order 0 *)
  Definition alloc_all_held (fr : N) : list (N * nat) :=
    map (fun h => (N.of_nat h * HF, hord g)) (seq 0 (nn (fr / HF))) ++
    map (fun i => ((fr / HF) * HF + N.of_nat i, 0%nat)) (seq 0 (nn (fr mod HF))).

  (* ----- C01's predicate on the ghost ----- *)
  Definition blk_ok (fr : N) (b : N * nat) : bool :=
    (fst b mod pow2 (snd b) =? 0) && (fst b + pow2 (snd b) <=? fr).
  Definition disjoint (a b : N * nat) : bool :=
    (fst a + pow2 (snd a) <=? fst b) || (fst b + pow2 (snd b) <=? fst a).
  Fixpoint pairwise_disjoint (l : list (N * nat)) : bool :=
    match l with
    | [] => true
    | a :: r => forallb (disjoint a) r && pairwise_disjoint r
    end.
  Definition held_ok (s : mstate) : bool :=
    forallb (blk_ok (ms_frames s)) (ms_held s) && pairwise_disjoint (ms_held s).

  Definition panicked (s : mstate) : list site :=
    flat_map (fun x => match x with TPanic p _ => [p] | _ => [] end) (ms_pool s).
End Machine.
