(* `lower_recover` (lower.rs `Lower::recover`, with the repair that skips table entries without a
   bitfield): from any state that is structurally sound but whose counters are arbitrary (`LowerPre`)
   it re-establishes the full invariant without changing which frames are allocated, and it is the
   identity on consistent states. *)
From Coq Require Import PeanoNat ZArith ZifyN ZifyBool.
From LLF Require Import Base BitLemmas Row RowProofs Bitfield Lower Spec AbsLemmas BitfieldPutProofs LowerPutProofs.
Local Open Scope N_scope.

Section Recover.
  Variable g : geom.
  Hypothesis WF : wf_geom g.

  (* LowerInv without the counter clause: sizes, row shapes, bits beyond `frames` set, entries without a
     bitfield are 0, markers only on huge frames entirely inside the range *)
  Definition LowerPre (l : lower) : Prop :=
    length (bfs l) = nn (nbf g (frames l)) /\
    length (ents l) = nn (ntab g (frames l) * THUGE g) /\
    (forall h e rows, nth_error (ents l) h = Some e -> nth_error (bfs l) h = Some rows ->
       rows_ok g rows /\
       (e = MARK -> (N.of_nat h + 1) * HF g <= frames l) /\
       (forall i, i < HF g -> frames l <= N.of_nat h * HF g + i -> N.testbit (rows_bits rows) i = true)) /\
    (forall h e, nth_error (ents l) h = Some e -> nth_error (bfs l) h = None -> e = 0).

  Lemma LowerInv_pre l : LowerInv g l -> LowerPre l.
  Proof.
    intros (H1 & H2 & H3 & H4). split; [exact H1|]. split; [exact H2|]. split; [|exact H4].
    intros h e rows He Hb. destruct (H3 h e rows He Hb) as (Hok & Hm & _ & Ht).
    split; [exact Hok|]. split; [|exact Ht]. intros E. apply Hm. exact E.
  Qed.

  (* what recover leaves at one index *)
  Definition rec_ent (e : N) (rows : list N) : N := if e_huge e then e else bf_count_zeros rows.
  Definition rec_bf (e : N) (rows : list N) : list N :=
    if e_huge e then (if bf_count_zeros rows =? HF g then rows else bf_fill rows false) else rows.
  Definition recd_ent (l : lower) (j : nat) : option N :=
    match nth_error (ents l) j, nth_error (bfs l) j with
    | Some e, Some rows => Some (rec_ent e rows) | _, _ => nth_error (ents l) j end.
  Definition recd_bf (l : lower) (j : nat) : option (list N) :=
    match nth_error (ents l) j, nth_error (bfs l) j with
    | Some e, Some rows => Some (rec_bf e rows) | _, _ => nth_error (bfs l) j end.

  Lemma rc_one l h :
    frames (recover_one g l h) = frames l /\
    (forall j, nth_error (ents (recover_one g l h)) j = if Nat.eqb h j then recd_ent l h else nth_error (ents l) j) /\
    (forall j, nth_error (bfs (recover_one g l h)) j = if Nat.eqb h j then recd_bf l h else nth_error (bfs l) j).
  Proof.
    unfold recover_one, recd_ent, recd_bf, rec_ent, rec_bf.
    destruct (nth_error (ents l) h) as [e|] eqn:He.
    2:{ split; [reflexivity|]. split; intros j; destruct (Nat.eqb_spec h j) as [<-|]; congruence. }
    destruct (nth_error (bfs l) h) as [rows|] eqn:Hb.
    2:{ split; [reflexivity|]. split; intros j; destruct (Nat.eqb_spec h j) as [<-|]; congruence. }
    assert (Hhe : (h < length (ents l))%nat) by (apply nth_error_Some; congruence).
    assert (Hhb : (h < length (bfs l))%nat) by (apply nth_error_Some; congruence).
    destruct (e_huge e) eqn:Hh.
    - destruct (bf_count_zeros rows =? HF g).
      + split; [reflexivity|]. split; intros j; destruct (Nat.eqb_spec h j) as [<-|]; congruence.
      + split; [reflexivity|]. split; intros j.
        * cbn [set_bf ents]. destruct (Nat.eqb_spec h j) as [<-|]; congruence.
        * cbn [set_bf bfs]. unfold nn. rewrite Nat2N.id, bp_nth_error_upd.
          destruct (Nat.eqb_spec h j) as [<-|]; [|reflexivity].
          destruct (Nat.ltb_spec h (length (bfs l))); [reflexivity | lia].
    - assert (Ef : e_free e = e) by (unfold e_free; rewrite Hh; reflexivity). rewrite Ef.
      destruct (N.eqb_spec e (bf_count_zeros rows)) as [Ee|Ee].
      + split; [reflexivity|]. split; intros j; destruct (Nat.eqb_spec h j) as [<-|]; congruence.
      + split; [reflexivity|]. split; intros j.
        * cbn [set_ent ents]. unfold nn. rewrite Nat2N.id, bp_nth_error_upd.
          destruct (Nat.eqb_spec h j) as [<-|]; [|reflexivity].
          destruct (Nat.ltb_spec h (length (ents l))); [reflexivity | lia].
        * cbn [set_ent bfs]. destruct (Nat.eqb_spec h j) as [<-|]; congruence.
  Qed.

  Lemma rc_fold : forall n a l,
    let l' := fold_left (recover_one g) (seq a n) l in
    frames l' = frames l /\
    (forall j, nth_error (ents l') j = if (a <=? j)%nat && (j <? a + n)%nat then recd_ent l j else nth_error (ents l) j) /\
    (forall j, nth_error (bfs l') j = if (a <=? j)%nat && (j <? a + n)%nat then recd_bf l j else nth_error (bfs l) j).
  Proof.
    induction n as [|n IH]; intros a l; cbn [seq fold_left].
    - split; [reflexivity|]. split; intros j;
        destruct (Nat.leb_spec a j), (Nat.ltb_spec j (a + 0)); cbn [andb]; try reflexivity; lia.
    - destruct (IH (S a) (recover_one g l a)) as (Hf & He & Hb).
      destruct (rc_one l a) as (Of & Oe & Ob).
      split; [congruence|].
      assert (Hsame : forall j, a <> j -> recd_ent (recover_one g l a) j = recd_ent l j /\
                                         recd_bf (recover_one g l a) j = recd_bf l j).
      { intros j Hj. unfold recd_ent, recd_bf. rewrite Oe, Ob.
        destruct (Nat.eqb_spec a j); [contradiction|]. split; reflexivity. }
      split; intros j.
      + rewrite He, Oe.
        destruct (Nat.leb_spec (S a) j), (Nat.ltb_spec j (S a + n)), (Nat.leb_spec a j), (Nat.ltb_spec j (a + S n)),
          (Nat.eqb_spec a j); cbn [andb]; try reflexivity; try lia; try (subst j; reflexivity).
        apply (Hsame j). assumption.
      + rewrite Hb, Ob.
        destruct (Nat.leb_spec (S a) j), (Nat.ltb_spec j (S a + n)), (Nat.leb_spec a j), (Nat.ltb_spec j (a + S n)),
          (Nat.eqb_spec a j); cbn [andb]; try reflexivity; try lia; try (subst j; reflexivity).
        apply (Hsame j). assumption.
  Qed.

  (* pointwise description of the recovered state *)
  Lemma rc_recover l :
    frames (lower_recover g l) = frames l /\
    (forall j, nth_error (ents (lower_recover g l)) j = recd_ent l j) /\
    (forall j, nth_error (bfs (lower_recover g l)) j = recd_bf l j).
  Proof.
    unfold lower_recover. destruct (rc_fold (length (ents l)) 0 l) as (Hf & He & Hb).
    split; [exact Hf|]. split; intros j.
    - rewrite He. cbn [Nat.leb Nat.add andb]. destruct (Nat.ltb_spec j (length (ents l))) as [|Hj]; [reflexivity|].
      unfold recd_ent. apply nth_error_None in Hj. rewrite Hj. reflexivity.
    - rewrite Hb. cbn [Nat.leb Nat.add andb]. destruct (Nat.ltb_spec j (length (ents l))) as [|Hj]; [reflexivity|].
      unfold recd_bf. apply nth_error_None in Hj. rewrite Hj. reflexivity.
  Qed.

  Lemma rc_length_eq {A B} (l1 : list A) (l2 : list B) :
    (forall j, nth_error l1 j = None <-> nth_error l2 j = None) -> length l1 = length l2.
  Proof.
    intros H. destruct (Nat.lt_trichotomy (length l1) (length l2)) as [L|[L|L]]; [|exact L|].
    - exfalso. assert (N1 : nth_error l1 (length l1) = None) by (apply nth_error_None; lia).
      apply H in N1. apply nth_error_None in N1. lia.
    - exfalso. assert (N2 : nth_error l2 (length l2) = None) by (apply nth_error_None; lia).
      apply H in N2. apply nth_error_None in N2. lia.
  Qed.

  Lemma rc_lengths l :
    length (ents (lower_recover g l)) = length (ents l) /\ length (bfs (lower_recover g l)) = length (bfs l).
  Proof.
    destruct (rc_recover l) as (_ & He & Hb). split; apply rc_length_eq; intros j.
    - rewrite He. unfold recd_ent. destruct (nth_error (ents l) j), (nth_error (bfs l) j); split; congruence.
    - rewrite Hb. unfold recd_bf. destruct (nth_error (ents l) j), (nth_error (bfs l) j); split; congruence.
  Qed.

  Lemma rc_fill_ok rows : rows_ok g rows -> rows_ok g (bf_fill rows false) /\ Forall (fun r => r = 0) (bf_fill rows false).
  Proof.
    intros (Hl & _). rewrite bp_fill_eq, Hl. split.
    - apply bp_rows_ok_repeat. reflexivity.
    - apply bp_Forall_repeat. reflexivity.
  Qed.

  (* C: recover establishes the invariant *)
  Theorem recover_inv l : LowerPre l -> LowerInv g (lower_recover g l).
  Proof.
    intros (P1 & P2 & P3 & P4). destruct (rc_recover l) as (Hf & He & Hb). destruct (rc_lengths l) as (Le & Lb).
    pose proof (HF_lt_MARK g WF) as HM.
    unfold LowerInv. rewrite Hf, Le, Lb. split; [exact P1|]. split; [exact P2|]. split.
    - intros h e' rows' He' Hb'. rewrite He in He'. rewrite Hb in Hb'. unfold recd_ent, recd_bf in *.
      destruct (nth_error (ents l) h) as [e|] eqn:Ee; [|discriminate].
      destruct (nth_error (bfs l) h) as [rows|] eqn:Eb; [|discriminate].
      injection He' as <-. injection Hb' as <-.
      destruct (P3 h e rows Ee Eb) as (Hok & Hm & Ht). unfold rec_ent, rec_bf.
      destruct (e_huge e) eqn:Hh.
      + assert (Em : e = MARK) by (apply N.eqb_eq; exact Hh). specialize (Hm Em).
        assert (Hz : rows_ok g (if bf_count_zeros rows =? HF g then rows else bf_fill rows false) /\
                     Forall (fun r => r = 0) (if bf_count_zeros rows =? HF g then rows else bf_fill rows false)).
        { destruct (N.eqb_spec (bf_count_zeros rows) (HF g)) as [Ez|Ez].
          - split; [assumption|]. apply (count_zeros_full_zero g WF); assumption.
          - apply rc_fill_ok. assumption. }
        destruct Hz as (Hok' & Hz). split; [exact Hok'|]. split; [|split].
        * intros _. split; assumption.
        * intros N. contradiction.
        * intros i Hi Hr. exfalso. lia.
      + pose proof (bp_count_zeros_le g WF rows Hok) as Hle.
        split; [exact Hok|]. split; [|split].
        * intros E. lia.
        * intros _. split; [reflexivity | exact Hle].
        * exact Ht.
    - intros h e' He' Hb'. rewrite He in He'. rewrite Hb in Hb'. unfold recd_ent, recd_bf in *.
      destruct (nth_error (ents l) h) as [e|] eqn:Ee; [|discriminate].
      destruct (nth_error (bfs l) h) as [rows|] eqn:Eb; [discriminate|].
      injection He' as <-. apply (P4 h e Ee Eb).
  Qed.

  (* bitfields under counter entries (and bitfields without an entry) are untouched *)
  Theorem recover_bf_counter l h : (forall e, nth_error (ents l) h = Some e -> e_huge e = false) ->
    nth_error (bfs (lower_recover g l)) h = nth_error (bfs l) h.
  Proof.
    intros H. destruct (rc_recover l) as (_ & _ & Hb). rewrite Hb. unfold recd_bf, rec_bf.
    destruct (nth_error (ents l) h) as [e|]; [|reflexivity]. rewrite (H e eq_refl).
    destruct (nth_error (bfs l) h); reflexivity.
  Qed.

  (* marker entries stay markers; their bitfield is cleared *)
  Theorem recover_marker l h rows : LowerPre l ->
    nth_error (ents l) h = Some MARK -> nth_error (bfs l) h = Some rows ->
    nth_error (ents (lower_recover g l)) h = Some MARK /\
    exists rows', nth_error (bfs (lower_recover g l)) h = Some rows' /\ rows_ok g rows' /\ Forall (fun r => r = 0) rows'.
  Proof.
    intros (_ & _ & P3 & _) He Hb. destruct (rc_recover l) as (_ & Re & Rb).
    destruct (P3 h MARK rows He Hb) as (Hok & _).
    rewrite Re, Rb. unfold recd_ent, recd_bf, rec_ent, rec_bf. rewrite He, Hb. change (e_huge MARK) with true.
    split; [reflexivity|]. eexists. split; [reflexivity|].
    destruct (N.eqb_spec (bf_count_zeros rows) (HF g)) as [Ez|Ez].
    - split; [assumption|]. apply (count_zeros_full_zero g WF); assumption.
    - apply rc_fill_ok. assumption.
  Qed.

  (* which frames are allocated (and which huge frames are whole) does not change *)
  Theorem recover_alloc_at l f : LowerPre l -> alloc_at g (lower_recover g l) f = alloc_at g l f.
  Proof.
    intros (_ & _ & P3 & _). destruct (rc_recover l) as (Hf & Re & Rb).
    unfold alloc_at, ent, bf. rewrite Hf, Re, Rb. unfold recd_ent, recd_bf, rec_ent, rec_bf.
    destruct (nth_error (ents l) (nn (f / HF g))) as [e|] eqn:He; [|reflexivity].
    destruct (nth_error (bfs l) (nn (f / HF g))) as [rows|] eqn:Hb; [|reflexivity].
    destruct (e_huge e) eqn:Hh.
    - rewrite Hh. reflexivity.
    - destruct (P3 _ e rows He Hb) as (Hok & _).
      rewrite (lp_e_huge_false g WF) by (apply (bp_count_zeros_le g WF); assumption). reflexivity.
  Qed.

  Theorem recover_whole_at l h : LowerPre l -> whole_at (lower_recover g l) h = whole_at l h.
  Proof.
    intros (_ & _ & P3 & _). destruct (rc_recover l) as (Hf & Re & Rb).
    unfold whole_at, ent, bf. rewrite Re, Rb. unfold recd_ent, recd_bf, rec_ent.
    destruct (nth_error (ents l) (nn h)) as [e|] eqn:He; [|reflexivity].
    destruct (nth_error (bfs l) (nn h)) as [rows|] eqn:Hb; [|reflexivity].
    destruct (e_huge e) eqn:Hh; [exact Hh|].
    destruct (P3 _ e rows He Hb) as (Hok & _).
    rewrite (lp_e_huge_false g WF) by (apply (bp_count_zeros_le g WF); assumption). reflexivity.
  Qed.

  Theorem recover_abs l : LowerPre l -> abs g (lower_recover g l) = abs g l.
  Proof.
    intros Pre. pose proof (recover_inv l Pre) as Inv. destruct (rc_recover l) as (Hf & _).
    apply ospec_ext.
    - exact Hf.
    - intros f. rewrite (abs_alloc_testbit g WF _ Inv). rewrite (abs_alloc_testbit_gen g WF l).
      + apply recover_alloc_at. exact Pre.
      + destruct Pre as (_ & _ & P3 & _). intros h e rows He Hb. destruct (P3 h e rows He Hb) as (Hok & _). exact Hok.
    - intros h. rewrite !abs_whole_testbit_gen. apply recover_whole_at. exact Pre.
  Qed.

  (* identity on consistent states *)
  Lemma rc_one_id l h : LowerInv g l -> recover_one g l h = l.
  Proof.
    intros (_ & _ & Hok & _). unfold recover_one.
    destruct (nth_error (ents l) h) as [e|] eqn:He; [|reflexivity].
    destruct (nth_error (bfs l) h) as [rows|] eqn:Hb; [|reflexivity].
    destruct (Hok h e rows He Hb) as (Hr & Hm & Hc & _).
    destruct (e_huge e) eqn:Hh.
    - assert (Em : e = MARK) by (apply N.eqb_eq; exact Hh). destruct (Hm Em) as (Hz & _).
      rewrite (count_zeros_of_zero g WF rows Hr Hz), N.eqb_refl. reflexivity.
    - assert (En : e <> MARK) by (apply N.eqb_neq; exact Hh). destruct (Hc En) as (Ec & _).
      unfold e_free. rewrite Hh, <- Ec, N.eqb_refl. reflexivity.
  Qed.

  Theorem recover_id l : LowerInv g l -> lower_recover g l = l.
  Proof.
    intros Inv. unfold lower_recover. generalize (seq 0 (length (ents l))). intros idx.
    induction idx as [|h idx IH]; cbn [fold_left]; [reflexivity|]. rewrite rc_one_id by assumption. exact IH.
  Qed.
End Recover.

(* ---------- non-vacuity: corrupt counters and a dirty bitfield under a marker, then recover ---------- *)
Definition rc_bad : lower :=
  let l := snd (lower_put g9 (reserve_all g9 5000) 4608 3) in
  (* wrong counter for the partial huge frame 9, marker huge frame 1 with a dirty bitfield *)
  set_bf (set_ent l 9 77) 1 (upd (repeat 0 8) 3 255).

Example recover_ex :
  lower_invb g9 rc_bad = false /\ lower_invb g9 (lower_recover g9 rc_bad) = true /\
  abs g9 (lower_recover g9 rc_bad) = abs g9 rc_bad /\
  ent (lower_recover g9 rc_bad) 9 = Some 8 /\ ent (lower_recover g9 rc_bad) 1 = Some MARK /\
  bf (lower_recover g9 rc_bad) 1 = Some (repeat 0 8) /\
  lower_recover g9 (free_all g9 2049) = free_all g9 2049 /\
  lower_recover g9 (reserve_all g9 0) = reserve_all g9 0.
Proof. vm_compute. repeat split. Qed.

Print Assumptions recover_inv.
Print Assumptions recover_abs.
Print Assumptions recover_bf_counter.
Print Assumptions recover_marker.
Print Assumptions recover_id.
