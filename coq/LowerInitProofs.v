(* C06: `free_all` / `reserve_all` initialisation of the lower allocator is correct for every frame
   count (including 0 and counts whose last huge frame / tree is partial), and the accounting of
   `lower_stats` agrees with the ownership state under the invariant. *)
From Coq Require Import PeanoNat ZArith ZifyN ZifyBool.
From LLF Require Import Base BitLemmas Row RowProofs Bitfield Lower Spec AbsLemmas BitfieldProofs BitfieldPutProofs LowerPutProofs.
Local Open Scope N_scope.

Lemma li_nth_map_seq {A} (f : nat -> A) n : forall a j,
  nth_error (map f (seq a n)) j = if (j <? n)%nat then Some (f (a + j)%nat) else None.
Proof.
  induction n as [|n IH]; intros a [|j]; cbn [seq map nth_error]; try reflexivity.
  - rewrite Nat.add_0_r. reflexivity.
  - rewrite IH. replace (S a + j)%nat with (a + S j)%nat by lia.
    destruct (Nat.ltb_spec j n), (Nat.ltb_spec (S j) (S n)); try reflexivity; lia.
Qed.

Section Init.
  Variable g : geom.
  Hypothesis WF : wf_geom g.

  Definition zeros_bf : list N := repeat 0 (rows_nat g).
  Definition ones_bf : list N := repeat MAX64 (rows_nat g).
  Definition part_bf (e : N) : list N := bf_set (bf_set zeros_bf 0 e false) e (HF g) true.

  Lemma li_zeros_ok : rows_ok g zeros_bf.
  Proof. apply bp_rows_ok_repeat. reflexivity. Qed.
  Lemma li_ones_ok : rows_ok g ones_bf.
  Proof. apply bp_rows_ok_repeat. reflexivity. Qed.
  Lemma li_zeros_zero : Forall (fun r => r = 0) zeros_bf.
  Proof. apply bp_Forall_repeat. reflexivity. Qed.
  Lemma li_zeros_bits : rows_bits zeros_bf = 0.
  Proof. apply bp_rows_bits_repeat0. Qed.
  Lemma li_ones_bits i : N.testbit (rows_bits ones_bf) i = (i <? HF g).
  Proof.
    unfold ones_bf. rewrite (bp_rows_bits_full g WF).
    destruct (N.ltb_spec i (HF g)); [apply N.ones_spec_low | apply N.ones_spec_high]; assumption.
  Qed.

  Lemma li_part_ok e : rows_ok g (part_bf e).
  Proof.
    destruct li_zeros_ok as (Hl & Hf). unfold part_bf. split.
    - rewrite !bp_set_length. exact Hl.
    - apply bp_set_lt, bp_set_lt. exact Hf.
  Qed.

  Lemma li_part_bits e i : N.testbit (rows_bits (part_bf e)) i = (e <=? i) && (i <? HF g).
  Proof.
    destruct li_zeros_ok as (Hl & Hf).
    destruct (N.ltb_spec i (HF g)) as [Hi|Hi].
    - unfold part_bf. rewrite bp_set_testbit.
      + rewrite bp_set_testbit by (try assumption; rewrite Hl, <- (bp_HF_rows_nat g WF); assumption).
        rewrite li_zeros_bits, N.bits_0.
        destruct (N.leb_spec e i), (N.ltb_spec i (HF g)), (N.leb_spec 0 i), (N.ltb_spec i e); cbn [andb];
          try reflexivity; lia.
      + apply bp_set_lt. exact Hf.
      + rewrite bp_set_length, Hl, <- (bp_HF_rows_nat g WF). assumption.
    - rewrite (rows_bits_high g WF _ i (li_part_ok e) Hi). rewrite andb_false_r. reflexivity.
  Qed.

  Lemma li_part_count e : e <= HF g -> bf_count_zeros (part_bf e) = e.
  Proof.
    intros He. pose proof (bf_count_zeros_sum g WF _ (li_part_ok e)) as S.
    assert (E : rows_bits (part_bf e) = blk e (HF g - e)).
    { apply N.bits_inj. intros i. rewrite li_part_bits, blk_testbit.
      destruct (N.leb_spec e i), (N.ltb_spec i (HF g)), (N.ltb_spec i (e + (HF g - e))); cbn [andb]; try reflexivity; lia. }
    rewrite E, bp_popcount_blk in S. lia.
  Qed.

  (* ----- sizes ----- *)
  Lemma li_nbf_ge fr : fr <= nbf g fr * HF g.
  Proof. apply div_ceil_ge. pose proof (HF_pos g). lia. Qed.

  Lemma li_full_le fr h : h < fr / HF g -> (h + 1) * HF g <= fr.
  Proof.
    intros H. pose proof (HF_pos g) as HP. pose proof (N.mul_div_le fr (HF g) ltac:(lia)) as M.
    revert H M. generalize (fr / HF g) (HF g). intros; nia.
  Qed.

  Lemma li_full_lt_nbf fr h : h < fr / HF g -> h < nbf g fr.
  Proof.
    intros H. pose proof (li_full_le fr h H). pose proof (li_nbf_ge fr). pose proof (HF_pos g) as HP.
    revert HP H H0 H1. generalize (nbf g fr) (HF g) (fr / HF g). intros; nia.
  Qed.

  Lemma li_partial fr h : h < nbf g fr -> ~ h < fr / HF g -> h = fr / HF g /\ fr - h * HF g = fr mod HF g /\ 0 < fr mod HF g.
  Proof.
    intros H1 H2. pose proof (HF_pos g) as HP. pose proof (nbf_lt_inv g fr h H1) as L.
    pose proof (N.div_mod fr (HF g) ltac:(lia)) as D. pose proof (N.mod_lt fr (HF g) ltac:(lia)) as M.
    revert HP H2 L D M. generalize (HF g) (fr / HF g) (fr mod HF g). intros a q r HP H2 L D M.
    assert (h = q) by nia. subst h. split; [reflexivity|]. split; nia.
  Qed.

  (* ----- free_all ----- *)
  Lemma li_free_all_ent fr h :
    ent (free_all g fr) h = if h <? ntab g fr * THUGE g then Some (N.min (fr - h * HF g) (HF g)) else None.
  Proof.
    unfold ent, free_all, free_all_ents; cbn [ents]. rewrite li_nth_map_seq. cbn [Nat.add].
    unfold nn. rewrite N2Nat.id.
    destruct (Nat.ltb_spec (N.to_nat h) (N.to_nat (ntab g fr * THUGE g))), (N.ltb_spec h (ntab g fr * THUGE g));
      try reflexivity; lia.
  Qed.

  Lemma li_free_all_bf fr h :
    bf (free_all g fr) h =
    if h <? nbf g fr then Some (if h <? fr / HF g then zeros_bf else part_bf (fr - h * HF g)) else None.
  Proof.
    unfold bf, free_all, free_all_bfs; cbn [bfs]. rewrite li_nth_map_seq. cbn [Nat.add].
    unfold nn. rewrite N2Nat.id.
    destruct (Nat.ltb_spec (N.to_nat h) (N.to_nat (nbf g fr))), (N.ltb_spec h (nbf g fr)); try reflexivity; lia.
  Qed.

  Theorem free_all_inv fr : LowerInv g (free_all g fr).
  Proof.
    pose proof (HF_pos g) as HP. pose proof (HF_lt_MARK g WF) as HM.
    unfold LowerInv. split; [|split; [|split]].
    - unfold free_all, free_all_bfs; cbn [bfs frames]. rewrite map_length, seq_length. reflexivity.
    - unfold free_all, free_all_ents; cbn [ents frames]. rewrite map_length, seq_length. reflexivity.
    - intros h e rows He Hb. change (frames (free_all g fr)) with fr.
      assert (He' : ent (free_all g fr) (N.of_nat h) = Some e) by (unfold ent, nn; rewrite Nat2N.id; exact He).
      assert (Hb' : bf (free_all g fr) (N.of_nat h) = Some rows) by (unfold bf, nn; rewrite Nat2N.id; exact Hb).
      clear He Hb. revert He' Hb'. generalize (N.of_nat h). clear h. intros h He Hb.
      rewrite li_free_all_ent in He. rewrite li_free_all_bf in Hb.
      destruct (h <? ntab g fr * THUGE g); [|discriminate]. injection He as <-.
      destruct (N.ltb_spec h (nbf g fr)) as [Hn|]; [|discriminate]. injection Hb as <-.
      destruct (N.ltb_spec h (fr / HF g)) as [Hfull|Hpart].
      + pose proof (li_full_le fr h Hfull) as L.
        assert (E : N.min (fr - h * HF g) (HF g) = HF g) by lia. rewrite E.
        split; [apply li_zeros_ok|]. split; [|split].
        * intros. lia.
        * intros _. split; [|lia]. symmetry. apply (count_zeros_of_zero g WF); [apply li_zeros_ok | apply li_zeros_zero].
        * intros i Hi Hfr. exfalso. lia.
      + destruct (li_partial fr h Hn ltac:(lia)) as (Eh & Er & Hpos).
        pose proof (N.mod_lt fr (HF g) ltac:(lia)) as M.
        assert (E : N.min (fr - h * HF g) (HF g) = fr - h * HF g) by lia. rewrite E.
        split; [apply li_part_ok|]. split; [|split].
        * intros. lia.
        * intros _. split; [|lia]. symmetry. apply li_part_count. lia.
        * intros i Hi Hfr. rewrite li_part_bits.
          destruct (N.leb_spec (fr - h * HF g) i), (N.ltb_spec i (HF g)); cbn [andb]; try reflexivity; lia.
    - intros h e He Hb. 
      assert (He' : ent (free_all g fr) (N.of_nat h) = Some e) by (unfold ent, nn; rewrite Nat2N.id; exact He).
      assert (Hb' : bf (free_all g fr) (N.of_nat h) = None) by (unfold bf, nn; rewrite Nat2N.id; exact Hb).
      clear He Hb. revert He' Hb'. generalize (N.of_nat h). clear h. intros h He Hb.
      rewrite li_free_all_ent in He. rewrite li_free_all_bf in Hb.
      destruct (h <? ntab g fr * THUGE g); [|discriminate]. injection He as <-.
      destruct (N.ltb_spec h (nbf g fr)) as [|Hn]; [discriminate|].
      pose proof (li_nbf_ge fr). assert (fr <= h * HF g) by nia. lia.
  Qed.

  Theorem free_all_alloc fr : o_alloc (abs g (free_all g fr)) = 0.
  Proof.
    pose proof (HF_pos g) as HP.
    apply N.bits_inj. intros i. rewrite N.bits_0, (abs_alloc_testbit g WF _ (free_all_inv fr)).
    unfold alloc_at. change (frames (free_all g fr)) with fr.
    destruct (N.ltb_spec i fr) as [Hi|]; [|reflexivity]. cbn [andb].
    rewrite li_free_all_ent, li_free_all_bf.
    destruct (i / HF g <? ntab g fr * THUGE g); [|reflexivity].
    destruct (N.ltb_spec (i / HF g) (nbf g fr)) as [Hn|]; [|reflexivity].
    rewrite (lp_e_huge_false g WF) by lia. cbn [orb].
    destruct (N.ltb_spec (i / HF g) (fr / HF g)) as [Hfull|Hpart].
    - rewrite li_zeros_bits. apply N.bits_0.
    - rewrite li_part_bits.
      pose proof (N.div_mod i (HF g) ltac:(lia)) as D.
      destruct (N.leb_spec (fr - i / HF g * HF g) (i mod HF g)); [|reflexivity]. exfalso. lia.
  Qed.

  Theorem free_all_whole fr : o_whole (abs g (free_all g fr)) = 0.
  Proof.
    apply N.bits_inj. intros h. rewrite N.bits_0, abs_whole_testbit_gen. unfold whole_at.
    rewrite li_free_all_ent. destruct (h <? ntab g fr * THUGE g); [|reflexivity].
    rewrite (lp_e_huge_false g WF) by lia. destruct (bf (free_all g fr) h); reflexivity.
  Qed.

  Theorem free_all_exact_free fr : exact_free (abs g (free_all g fr)) = fr.
  Proof. unfold exact_free. rewrite free_all_alloc. cbn. lia. Qed.

  (* ----- reserve_all ----- *)
  Lemma li_reserve_all_ent fr h :
    ent (reserve_all g fr) h = if h <? ntab g fr * THUGE g then Some (if h <? fr / HF g then MARK else 0) else None.
  Proof.
    unfold ent, reserve_all, reserve_all_ents; cbn [ents]. rewrite li_nth_map_seq. cbn [Nat.add].
    unfold nn. rewrite N2Nat.id.
    destruct (Nat.ltb_spec (N.to_nat h) (N.to_nat (ntab g fr * THUGE g))), (N.ltb_spec h (ntab g fr * THUGE g));
      try reflexivity; lia.
  Qed.

  Lemma li_reserve_all_bf fr h :
    bf (reserve_all g fr) h = if h <? nbf g fr then Some (if h <? fr / HF g then zeros_bf else ones_bf) else None.
  Proof.
    unfold bf, reserve_all, reserve_all_bfs; cbn [bfs]. rewrite li_nth_map_seq. cbn [Nat.add].
    unfold nn. rewrite N2Nat.id.
    destruct (Nat.ltb_spec (N.to_nat h) (N.to_nat (nbf g fr))), (N.ltb_spec h (nbf g fr)); try reflexivity; lia.
  Qed.

  Theorem reserve_all_inv fr : LowerInv g (reserve_all g fr).
  Proof.
    pose proof (HF_pos g) as HP. pose proof (HF_lt_MARK g WF) as HM.
    unfold LowerInv. split; [|split; [|split]].
    - unfold reserve_all, reserve_all_bfs; cbn [bfs frames]. rewrite map_length, seq_length. reflexivity.
    - unfold reserve_all, reserve_all_ents; cbn [ents frames]. rewrite map_length, seq_length. reflexivity.
    - intros h e rows He Hb. change (frames (reserve_all g fr)) with fr.
      assert (He' : ent (reserve_all g fr) (N.of_nat h) = Some e) by (unfold ent, nn; rewrite Nat2N.id; exact He).
      assert (Hb' : bf (reserve_all g fr) (N.of_nat h) = Some rows) by (unfold bf, nn; rewrite Nat2N.id; exact Hb).
      clear He Hb. revert He' Hb'. generalize (N.of_nat h). clear h. intros h He Hb.
      rewrite li_reserve_all_ent in He. rewrite li_reserve_all_bf in Hb.
      destruct (h <? ntab g fr * THUGE g); [|discriminate]. injection He as <-.
      destruct (N.ltb_spec h (nbf g fr)) as [Hn|]; [|discriminate]. injection Hb as <-.
      destruct (N.ltb_spec h (fr / HF g)) as [Hfull|Hpart].
      + pose proof (li_full_le fr h Hfull) as L.
        split; [apply li_zeros_ok|]. split; [|split].
        * intros _. split; [apply li_zeros_zero | exact L].
        * intros E. exfalso. apply E. reflexivity.
        * intros i Hi Hfr. exfalso. lia.
      + split; [apply li_ones_ok|]. split; [|split].
        * intros E. discriminate E.
        * intros _. split; [|lia]. unfold ones_bf. rewrite bp_count_zeros_repeat1. reflexivity.
        * intros i Hi Hfr. rewrite li_ones_bits. apply N.ltb_lt. exact Hi.
    - intros h e He Hb.
      assert (He' : ent (reserve_all g fr) (N.of_nat h) = Some e) by (unfold ent, nn; rewrite Nat2N.id; exact He).
      assert (Hb' : bf (reserve_all g fr) (N.of_nat h) = None) by (unfold bf, nn; rewrite Nat2N.id; exact Hb).
      clear He Hb. revert He' Hb'. generalize (N.of_nat h). clear h. intros h He Hb.
      rewrite li_reserve_all_ent in He. rewrite li_reserve_all_bf in Hb.
      destruct (h <? ntab g fr * THUGE g); [|discriminate]. injection He as <-.
      destruct (N.ltb_spec h (nbf g fr)) as [|Hn]; [discriminate|].
      destruct (N.ltb_spec h (fr / HF g)) as [Hfull|]; [|reflexivity].
      pose proof (li_full_lt_nbf fr h Hfull). lia.
  Qed.

  (* every managed frame is allocated ... *)
  Theorem reserve_all_alloc fr : o_alloc (abs g (reserve_all g fr)) = ones fr.
  Proof.
    pose proof (HF_pos g) as HP.
    apply N.bits_inj. intros i. rewrite (abs_alloc_testbit g WF _ (reserve_all_inv fr)).
    unfold alloc_at, ones. change (frames (reserve_all g fr)) with fr.
    destruct (N.ltb_spec i fr) as [Hi|Hi]; [|rewrite N.ones_spec_high by assumption; reflexivity].
    rewrite N.ones_spec_low by assumption. cbn [andb].
    pose proof (frame_lt_nbf g fr i Hi) as Hn. pose proof (nbf_le_ntab g fr) as Hnt.
    rewrite li_reserve_all_ent, li_reserve_all_bf.
    destruct (N.ltb_spec (i / HF g) (ntab g fr * THUGE g)); [|lia].
    destruct (N.ltb_spec (i / HF g) (nbf g fr)); [|lia].
    destruct (N.ltb_spec (i / HF g) (fr / HF g)).
    - reflexivity.
    - rewrite li_ones_bits. change (e_huge 0) with false. cbn [orb]. apply N.ltb_lt. apply N.mod_lt. lia.
  Qed.

  (* ... and exactly the huge frames that lie entirely in the range are allocated whole *)
  Theorem reserve_all_whole fr : o_whole (abs g (reserve_all g fr)) = ones (fr / HF g).
  Proof.
    apply N.bits_inj. intros h. rewrite abs_whole_testbit_gen. unfold whole_at, ones.
    rewrite li_reserve_all_ent, li_reserve_all_bf. pose proof (nbf_le_ntab g fr) as Hnt.
    destruct (N.ltb_spec h (fr / HF g)) as [Hfull|Hp].
    - rewrite N.ones_spec_low by assumption. pose proof (li_full_lt_nbf fr h Hfull).
      destruct (N.ltb_spec h (ntab g fr * THUGE g)); [|lia].
      destruct (N.ltb_spec h (nbf g fr)); [|lia]. reflexivity.
    - rewrite N.ones_spec_high by assumption.
      destruct (h <? ntab g fr * THUGE g); [|reflexivity]. change (e_huge 0) with false.
      destruct (h <? nbf g fr); reflexivity.
  Qed.

  Theorem reserve_all_exact_free fr : exact_free (abs g (reserve_all g fr)) = 0.
  Proof.
    unfold exact_free. rewrite reserve_all_alloc. cbn [o_frames abs frames reserve_all].
    unfold ones. rewrite popcount_ones. lia.
  Qed.
End Init.


(* ---------- accounting: lower_stats as sums over entry indices ---------- *)
Lemma li_skipn_skipn {A} (l : list A) : forall b a, skipn a (skipn b l) = skipn (b + a) l.
Proof.
  induction l as [|x l IH]; intros b a.
  - rewrite !skipn_nil. reflexivity.
  - destruct b; [reflexivity|]. cbn [skipn Nat.add]. apply IH.
Qed.

Lemma li_nsum_split f : forall a b, nsum (a + b) f = nsum a f + nsum b (fun j => f (a + j)%nat).
Proof.
  intros a; revert f; induction a as [|a IH]; intros f b; cbn [nsum Nat.add]; [reflexivity|].
  rewrite IH. lia.
Qed.

Lemma li_nsum_flat n : forall T f, nsum T (fun t => nsum n (fun j => f (t * n + j)%nat)) = nsum (T * n) f.
Proof.
  induction T as [|T IH]; intros f; [reflexivity|].
  cbn [nsum]. change (S T * n)%nat with (n + T * n)%nat. rewrite li_nsum_split. f_equal.
  rewrite <- (IH (fun j => f (n + j)%nat)). apply nsum_ext. intros t _. apply nsum_ext. intros j _.
  f_equal. lia.
Qed.

Definition at_ (phi : N -> N) (es : list N) (j : nat) : N :=
  match nth_error es j with Some e => phi e | None => 0 end.

Lemma li_sum_nsum phi es : forall n r,
  fold_right (fun e a => phi e + a) 0 (firstn n (skipn r es)) = nsum n (fun j => at_ phi es (r + j)).
Proof.
  induction n as [|n IH]; intros r; cbn [nsum]; [reflexivity|].
  destruct (nth_error es r) as [a|] eqn:E.
  - rewrite (skipn_nth_cons es r a E). cbn [firstn fold_right]. rewrite IH.
    unfold at_ at 2. rewrite Nat.add_0_r, E. f_equal.
    apply nsum_ext. intros j _. f_equal. lia.
  - rewrite (skipn_nth_none es r E), firstn_nil. cbn [fold_right].
    unfold at_ at 1. rewrite Nat.add_0_r, E.
    rewrite nsum_zero; [reflexivity|]. intros j _. unfold at_.
    assert (N : nth_error es (r + S j) = None).
    { apply nth_error_None. apply nth_error_None in E. lia. }
    rewrite N. reflexivity.
Qed.

Lemma li_filter_count (p : N -> bool) l :
  N.of_nat (length (filter p l)) = fold_right (fun e a => (if p e then 1 else 0) + a) 0 l.
Proof.
  induction l as [|x l IH]; cbn [filter fold_right]; [reflexivity|].
  destruct (p x); cbn [length]; lia.
Qed.

Lemma li_chunks {A} n : (0 < n)%nat -> forall T (es : list A) fuel,
  length es = (T * n)%nat -> (T <= fuel)%nat ->
  chunks n es fuel = map (fun t => firstn n (skipn (t * n) es)) (seq 0 T).
Proof.
  intros Hn. induction T as [|T IH]; intros es fuel Hl Hf.
  - destruct es; [|discriminate]. destruct fuel; reflexivity.
  - destruct fuel as [|fuel]; [lia|]. destruct es as [|a es]; [cbn in Hl; lia|].
    cbn [chunks]. cbn [seq map]. f_equal.
    rewrite <- seq_shift, map_map. rewrite (IH (skipn n (a :: es)) fuel).
    + apply map_ext. intros t. rewrite li_skipn_skipn. do 2 f_equal; try lia.
    + rewrite skipn_length, Hl. lia.
    + lia.
Qed.

Section Stats.
  Variable g : geom.
  Hypothesis WF : wf_geom g.

  Definition hf_ind (e : N) : N := if e_free e =? HF g then 1 else 0.
  Definition tsum (es : list N) (t : nat) : N := nsum (thuge_nat g) (fun j => at_ e_free es (t * thuge_nat g + j)).
  Definition tcnt (es : list N) (t : nat) : N := nsum (thuge_nat g) (fun j => at_ hf_ind es (t * thuge_nat g + j)).

  Definition stats_step (s : stats) (tab : list N) : stats :=
    let free := fold_right (fun e a => e_free e + a) 0 tab in
    {| free_frames := free_frames s + free;
       free_huge := free_huge s + N.of_nat (length (filter (fun e => e_free e =? HF g) tab));
       free_trees := free_trees s + (if free =? TF g then 1 else 0) |}.

  Lemma li_fold_stats es : forall T a s,
    fold_left stats_step (map (fun t => firstn (thuge_nat g) (skipn (t * thuge_nat g) es)) (seq a T)) s =
    {| free_frames := free_frames s + nsum T (fun t => tsum es (a + t));
       free_huge := free_huge s + nsum T (fun t => tcnt es (a + t));
       free_trees := free_trees s + nsum T (fun t => if tsum es (a + t) =? TF g then 1 else 0) |}.
  Proof.
    induction T as [|T IH]; intros a s; cbn [seq map fold_left nsum].
    - destruct s; cbn. f_equal; lia.
    - rewrite IH. unfold stats_step. cbn [free_frames free_huge free_trees].
      rewrite li_filter_count.
      rewrite (li_sum_nsum e_free es), (li_sum_nsum hf_ind es).
      fold (tsum es a) (tcnt es a). rewrite !Nat.add_0_r.
      f_equal.
      + rewrite <- N.add_assoc. f_equal. f_equal. apply nsum_ext. intros t _. rewrite Nat.add_succ_r. reflexivity.
      + rewrite <- N.add_assoc. f_equal. f_equal. apply nsum_ext. intros t _. rewrite Nat.add_succ_r. reflexivity.
      + rewrite <- N.add_assoc. f_equal. f_equal. apply nsum_ext. intros t _. rewrite Nat.add_succ_r. reflexivity.
  Qed.

  Lemma li_thuge_pos : (0 < thuge_nat g)%nat.
  Proof. pose proof (THUGE_pos g). rewrite (THUGE_nat g) in H. lia. Qed.

  Lemma li_stats_sums l T : length (ents l) = (T * thuge_nat g)%nat ->
    lower_stats g l =
    {| free_frames := nsum (length (ents l)) (at_ e_free (ents l));
       free_huge := nsum (length (ents l)) (at_ hf_ind (ents l));
       free_trees := nsum T (fun t => if tsum (ents l) t =? TF g then 1 else 0) |}.
  Proof.
    intros Hl. unfold lower_stats, tree_tables.
    rewrite (li_chunks (thuge_nat g) li_thuge_pos T (ents l) (length (ents l)) Hl).
    2:{ rewrite Hl. pose proof li_thuge_pos. nia. }
    change (fun (s : stats) (tab : list N) => _) with stats_step.
    rewrite li_fold_stats. cbn [stats0 free_frames free_huge free_trees Nat.add]. rewrite !N.add_0_l.
    unfold tsum, tcnt. rewrite !li_nsum_flat, <- Hl. reflexivity.
  Qed.
End Stats.


(* ---------- free frames = zero bits ---------- *)
Fixpoint pair_free (es : list N) (bs : list (list N)) : N :=
  match es, bs with e :: es', _ :: bs' => e_free e + pair_free es' bs' | _, _ => 0 end.

Lemma li_land_shiftl_0 a b n : a < 2 ^ n -> N.land a (N.shiftl b n) = 0.
Proof.
  intros Ha. apply N.bits_inj. intros i. rewrite N.land_spec, N.bits_0.
  destruct (N.lt_ge_cases i n) as [Hi|Hi].
  - rewrite N.shiftl_spec_low by assumption. apply andb_false_r.
  - rewrite (testbit_high a n i) by assumption. reflexivity.
Qed.

Lemma li_sum_all_zero es : (forall h e, nth_error es h = Some e -> e = 0) ->
  fold_right (fun e a => e_free e + a) 0 es = 0.
Proof.
  induction es as [|e es IH]; intros H; cbn [fold_right]; [reflexivity|].
  rewrite (H 0%nat e eq_refl). rewrite IH; [reflexivity|]. intros h x Hx. apply (H (S h)). exact Hx.
Qed.

Lemma li_pair_free_all : forall es bs,
  (forall h e, nth_error es h = Some e -> nth_error bs h = None -> e = 0) ->
  pair_free es bs = fold_right (fun e a => e_free e + a) 0 es.
Proof.
  induction es as [|e es IH]; intros bs H; [reflexivity|].
  destruct bs as [|b bs].
  - cbn [pair_free]. symmetry. apply li_sum_all_zero. intros h x Hx. apply (H h x Hx). destruct h; reflexivity.
  - cbn [pair_free fold_right]. f_equal. apply IH. intros h x Hx Hb. apply (H (S h) x Hx Hb).
Qed.

Lemma li_fold_nsum es : fold_right (fun e a => e_free e + a) 0 es = nsum (length es) (at_ e_free es).
Proof.
  rewrite <- (firstn_all es) at 1. change (firstn (length es) es) with (firstn (length es) (skipn 0 es)).
  rewrite li_sum_nsum. reflexivity.
Qed.

Section Acc.
  Variable g : geom.
  Hypothesis WF : wf_geom g.

  Lemma li_popcount_abs_from : forall es bs,
    (forall h e rows, nth_error es h = Some e -> nth_error bs h = Some rows ->
                      rows_ok g rows /\ e_free e + popcount (huge_bits g e rows) = HF g) ->
    pair_free es bs + popcount (abs_from g es bs) = N.of_nat (Nat.min (length es) (length bs)) * HF g.
  Proof.
    induction es as [|e es IH]; intros bs H; [reflexivity|].
    destruct bs as [|rows bs]; [reflexivity|].
    cbn [pair_free abs_from length Nat.min].
    destruct (H 0%nat e rows eq_refl eq_refl) as (Hok & Hsum).
    rewrite popcount_lor_disjoint by (apply li_land_shiftl_0; apply (huge_bits_lt g WF); assumption).
    rewrite popcount_shiftl.
    specialize (IH bs (fun h => H (S h))). lia.
  Qed.

  Lemma li_huge_ok_sum fr h e rows : huge_ok g fr h e rows ->
    rows_ok g rows /\ e_free e + popcount (huge_bits g e rows) = HF g.
  Proof.
    intros (Hok & Hmark & Hcnt & _). split; [assumption|]. unfold huge_bits, e_free, e_huge.
    destruct (N.eqb_spec e MARK) as [E|E].
    - unfold ones. rewrite popcount_ones. lia.
    - destruct (Hcnt E) as (-> & _). apply (bf_count_zeros_sum g WF). assumption.
  Qed.

  (* C04 (lower part): the counters add up to the number of free frames *)
  Theorem stats_free_frames_exact l : LowerInv g l ->
    nsum (length (ents l)) (at_ e_free (ents l)) + popcount (o_alloc (abs g l)) = frames l.
  Proof.
    intros Inv. pose proof Inv as (Hlb & Hle & Hok & Hnobf). pose proof (HF_pos g) as HP.
    rewrite <- li_fold_nsum, <- (li_pair_free_all (ents l) (bfs l) Hnobf).
    pose proof (li_popcount_abs_from (ents l) (bfs l)) as P.
    rewrite Hlb, Hle in P. pose proof (nbf_le_ntab g (frames l)) as Hnt.
    replace (Nat.min (nn (ntab g (frames l) * THUGE g)) (nn (nbf g (frames l)))) with (nn (nbf g (frames l))) in P
      by (unfold nn; lia).
    unfold nn in P. rewrite N2Nat.id in P.
    specialize (P (fun h e rows He Hb => li_huge_ok_sum _ _ _ _ (Hok h e rows He Hb))).
    set (X := abs_from g (ents l) (bfs l)) in *. set (M := nbf g (frames l) * HF g) in *.
    assert (HM : frames l <= M) by apply li_nbf_ge.
    assert (Hx : forall f, N.testbit X f =
                 match ent l (f / HF g), bf l (f / HF g) with
                 | Some e, Some rows => N.testbit (huge_bits g e rows) (f mod HF g) | _, _ => false end).
    { intros f. unfold X. apply (abs_from_testbit g WF).
      intros h e rows He Hb. destruct (Hok h e rows He Hb) as (R & _). exact R. }
    assert (E : X = N.lor (N.land X (ones (frames l))) (blk (frames l) (M - frames l))).
    { apply N.bits_inj. intros f. rewrite N.lor_spec, N.land_spec, blk_testbit. unfold ones.
      destruct (N.lt_ge_cases f (frames l)) as [Hf|Hf].
      - rewrite N.ones_spec_low by assumption. destruct (N.leb_spec (frames l) f); [lia|].
        cbn [andb]. rewrite andb_true_r, orb_false_r. reflexivity.
      - rewrite N.ones_spec_high by assumption. rewrite andb_false_r. cbn [orb].
        destruct (N.leb_spec (frames l) f); [|lia]. cbn [andb].
        destruct (N.ltb_spec f (frames l + (M - frames l))) as [Hm|Hm].
        + (* tail bits of the last bitfield are set *)
          assert (Hh : f / HF g < nbf g (frames l)).
          { apply N.div_lt_upper_bound; [lia|]. unfold M in Hm. lia. }
          destruct (LowerInv_bf_some g l _ Inv Hh) as (rows & Hb).
          destruct (LowerInv_ent_some g l (f / HF g) Inv ltac:(lia)) as (e & He).
          rewrite Hx, He, Hb. pose proof (N.mod_lt f (HF g) ltac:(lia)) as Hml.
          rewrite (huge_bits_testbit g e rows _ Hml).
          pose proof (LowerInv_huge_ok g l _ _ _ Inv He Hb) as (_ & _ & _ & Htail).
          rewrite (Htail (f mod HF g) Hml). { apply orb_true_r. }
          pose proof (N.div_mod f (HF g) ltac:(lia)). lia.
        + rewrite Hx. destruct (bf l (f / HF g)) as [rows|] eqn:Hb.
          * exfalso. pose proof (LowerInv_bf_lt g l _ _ Inv Hb) as Hh.
            pose proof (N.div_mod f (HF g) ltac:(lia)) as D. pose proof (N.mod_lt f (HF g) ltac:(lia)) as Hml.
            unfold M in Hm. revert Hm Hh D Hml HM. generalize (f / HF g) (f mod HF g) (nbf g (frames l)) (HF g).
            intros; nia.
          * destruct (ent l (f / HF g)); reflexivity. }
    assert (D : N.land (N.land X (ones (frames l))) (blk (frames l) (M - frames l)) = 0).
    { apply N.bits_inj. intros f. rewrite !N.land_spec, blk_testbit, N.bits_0. unfold ones.
      destruct (N.lt_ge_cases f (frames l)) as [Hf|Hf].
      - destruct (N.leb_spec (frames l) f); [lia|]. cbn [andb]. apply andb_false_r.
      - rewrite N.ones_spec_high by assumption. rewrite andb_false_r. reflexivity. }
    pose proof (popcount_lor_disjoint _ _ D) as PC. rewrite <- E, bp_popcount_blk in PC.
    change (o_alloc (abs g l)) with (N.land X (ones (frames l))). lia.
  Qed.
End Acc.


(* ---------- free huge frames / free trees ---------- *)
Lemma li_nsum_eq_max : forall n f b, (forall j, (j < n)%nat -> f j <= b) -> nsum n f = N.of_nat n * b ->
  forall j, (j < n)%nat -> f j = b.
Proof.
  induction n as [|n IH]; intros f b Hle Hs j Hj; [lia|]. cbn [nsum] in Hs.
  assert (H0 : f 0%nat <= b) by (apply Hle; lia).
  assert (H1 : nsum n (fun j => f (S j)) <= N.of_nat n * b) by (apply nsum_le; intros; apply Hle; lia).
  destruct j as [|j]; [nia|].
  apply (IH (fun j => f (S j)) b); [intros; apply Hle; lia | nia | lia].
Qed.

Lemma li_nsum_const n b : nsum n (fun _ => b) = N.of_nat n * b.
Proof. induction n as [|n IH]; cbn [nsum]; [reflexivity|]. rewrite IH. lia. Qed.

Lemma li_cfb_nsum s k : forall n i,
  count_free_blocks s k i n =
  nsum n (fun j => if in_range s ((i + N.of_nat j) * pow2 k) k && all_free s ((i + N.of_nat j) * pow2 k) k then 1 else 0).
Proof.
  induction n as [|n IH]; intros i; cbn [count_free_blocks nsum]; [reflexivity|].
  rewrite IH, N.add_0_r. f_equal. apply nsum_ext. intros j _.
  replace (i + 1 + N.of_nat j) with (i + N.of_nat (S j)) by lia. reflexivity.
Qed.

Section Acc2.
  Variable g : geom.
  Hypothesis WF : wf_geom g.

  Lemma li_divmod h t : t < HF g -> (h * HF g + t) / HF g = h /\ (h * HF g + t) mod HF g = t.
  Proof.
    intros Ht. split.
    - apply lp_div_unique. lia.
    - symmetry. apply (N.mod_unique _ (HF g) h t); [assumption | lia].
  Qed.

  Lemma li_at_hf es j : at_ (hf_ind g) es j = if at_ e_free es j =? HF g then 1 else 0.
  Proof.
    unfold at_, hf_ind. destruct (nth_error es j); [reflexivity|].
    pose proof (HF_pos g). destruct (N.eqb_spec 0 (HF g)); [lia | reflexivity].
  Qed.

  Lemma li_at_ent l h : at_ e_free (ents l) (nn h) = match ent l h with Some e => e_free e | None => 0 end.
  Proof. reflexivity. Qed.

  Lemma li_efree_le l j : LowerInv g l -> at_ e_free (ents l) j <= HF g.
  Proof.
    intros Inv. pose proof (HF_pos g). unfold at_. destruct (nth_error (ents l) j) as [e|] eqn:He; [|lia].
    unfold e_free, e_huge. destruct (N.eqb_spec e MARK); [lia|].
    destruct Inv as (_ & _ & Hok & Hno). destruct (nth_error (bfs l) j) as [rows|] eqn:Hb.
    - destruct (Hok j e rows He Hb) as (_ & _ & Hc & _). destruct (Hc n). assumption.
    - rewrite (Hno j e He Hb). lia.
  Qed.

  (* a huge frame entirely inside the range is free (all its frames) iff its counter is HF *)
  Lemma li_huge_free_iff l h : LowerInv g l -> (h + 1) * HF g <= frames l ->
    ((forall t, t < HF g -> alloc_at g l (h * HF g + t) = false) <-> at_ e_free (ents l) (nn h) = HF g).
  Proof.
    intros Inv Hr. pose proof (HF_pos g) as HP. pose proof (HF_lt_MARK g WF) as HM.
    assert (Hf : h * HF g < frames l) by lia.
    destruct (LowerInv_frame g l _ Inv Hf) as (e & rows & He & Hb).
    destruct (li_divmod h 0 HP) as (E0 & _). rewrite N.add_0_r in E0. rewrite E0 in He, Hb.
    pose proof (LowerInv_huge_ok g l _ _ _ Inv He Hb) as (Hok & Hmark & Hcnt & _).
    rewrite li_at_ent, He.
    assert (Ha : forall t, t < HF g -> alloc_at g l (h * HF g + t) = e_huge e || N.testbit (rows_bits rows) t).
    { intros t Ht. unfold alloc_at. destruct (li_divmod h t Ht) as (-> & ->). rewrite He, Hb.
      destruct (N.ltb_spec (h * HF g + t) (frames l)); [reflexivity | lia]. }
    split.
    - intros H. assert (Hh : e_huge e = false).
      { specialize (H 0 HP). rewrite Ha in H by assumption. apply orb_false_iff in H. tauto. }
      assert (Hz : rows_bits rows = 0).
      { apply N.bits_inj. intros t. rewrite N.bits_0. destruct (N.lt_ge_cases t (HF g)) as [Ht|Ht].
        - specialize (H t Ht). rewrite Ha in H by assumption. apply orb_false_iff in H. tauto.
        - apply (rows_bits_high g WF); assumption. }
      apply rows_bits_zero_inv in Hz. unfold e_free. rewrite Hh.
      assert (En : e <> MARK) by (apply N.eqb_neq; exact Hh).
      destruct (Hcnt En) as (-> & _). apply (count_zeros_of_zero g WF); assumption.
    - intros H t Ht. rewrite Ha by assumption. unfold e_free in H.
      destruct (e_huge e) eqn:Hh; [lia|]. cbn [orb].
      assert (En : e <> MARK) by (apply N.eqb_neq; exact Hh).
      destruct (Hcnt En) as (Ec & _). rewrite Ec in H.
      pose proof (count_zeros_full_zero g WF rows Hok H) as Hz. rewrite (rows_zero_bits rows Hz). apply N.bits_0.
  Qed.

  Lemma li_huge_all_free l h : LowerInv g l -> (h + 1) * HF g <= frames l ->
    (all_free (abs g l) (h * HF g) (hord g) = true <-> at_ e_free (ents l) (nn h) = HF g).
  Proof.
    intros Inv Hr. rewrite <- (li_huge_free_iff l h Inv Hr), all_free_spec. rewrite <- (HF_pow2 g). split.
    - intros H t Ht. rewrite <- (abs_alloc_testbit g WF l Inv). apply H. lia.
    - intros H i Hi. rewrite (abs_alloc_testbit g WF l Inv).
      replace i with (h * HF g + (i - h * HF g)) by lia. apply H. lia.
  Qed.

  (* an entry at or beyond the last fully managed huge frame never reads "entirely free" *)
  Lemma li_not_free_beyond l h : LowerInv g l -> frames l / HF g <= h -> at_ e_free (ents l) (nn h) <> HF g.
  Proof.
    intros Inv Hh. pose proof (HF_pos g) as HP. rewrite li_at_ent.
    destruct (ent l h) as [e|] eqn:He; [|lia].
    destruct (bf l h) as [rows|] eqn:Hb.
    - pose proof (LowerInv_huge_ok g l _ _ _ Inv He Hb) as (Hok & Hmark & Hcnt & Htail).
      pose proof (nbf_lt_inv g _ _ (LowerInv_bf_lt g l _ _ Inv Hb)) as Hlt.
      unfold e_free. destruct (e_huge e) eqn:Hg; [lia|].
      assert (En : e <> MARK) by (apply N.eqb_neq; exact Hg).
      destruct (Hcnt En) as (Ec & _). intros E. rewrite Ec in E.
      pose proof (count_zeros_full_zero g WF rows Hok E) as Hz.
      pose proof (N.div_mod (frames l) (HF g) ltac:(lia)) as D. pose proof (N.mod_lt (frames l) (HF g) ltac:(lia)) as M.
      assert (Hb1 : frames l - h * HF g < HF g).
      { revert Hh D M Hlt. generalize (frames l / HF g) (frames l mod HF g) (HF g) (frames l). intros; nia. }
      specialize (Htail (frames l - h * HF g) Hb1 ltac:(lia)).
      rewrite (rows_zero_bits rows Hz), N.bits_0 in Htail. discriminate.
    - rewrite (LowerInv_no_bf g l _ _ Inv He Hb). change (e_free 0) with 0. lia.
  Qed.

  Theorem stats_free_huge_count l : LowerInv g l ->
    nsum (length (ents l)) (at_ (hf_ind g) (ents l)) = free_huge_count g (abs g l).
  Proof.
    intros Inv. pose proof Inv as (_ & Hle & _). pose proof (HF_pos g) as HP.
    unfold free_huge_count. rewrite li_cfb_nsum. change (o_frames (abs g l)) with (frames l).
    assert (Hsplit : length (ents l) = (nn (frames l / HF g) + (length (ents l) - nn (frames l / HF g)))%nat).
    { assert (frames l / HF g <= ntab g (frames l) * THUGE g).
      { pose proof (nbf_le_ntab g (frames l)). pose proof (li_nbf_ge g (frames l)).
        pose proof (N.mul_div_le (frames l) (HF g) ltac:(lia)).
        revert H H0 H1. generalize (frames l / HF g) (nbf g (frames l)) (ntab g (frames l) * THUGE g) (HF g) HP.
        intros; nia. }
      rewrite Hle. unfold nn. lia. }
    rewrite Hsplit, li_nsum_split. rewrite (nsum_zero (length (ents l) - _)).
    - rewrite N.add_0_r. apply nsum_ext. intros j Hj. rewrite li_at_hf. rewrite N.add_0_l.
      assert (Hfull : (N.of_nat j + 1) * HF g <= frames l) by (apply li_full_le; unfold nn in Hj; lia).
      unfold in_range. change (o_frames (abs g l)) with (frames l). rewrite <- (HF_pow2 g).
      destruct (N.leb_spec (N.of_nat j * HF g + HF g) (frames l)); [|lia]. cbn [andb].
      pose proof (li_huge_all_free l (N.of_nat j) Inv Hfull) as Hiff.
      unfold nn in Hiff. rewrite Nat2N.id in Hiff.
      destruct (all_free (abs g l) (N.of_nat j * HF g) (hord g)), (N.eqb_spec (at_ e_free (ents l) j) (HF g));
        try reflexivity; exfalso; intuition congruence.
    - intros j _. rewrite li_at_hf.
      pose proof (li_not_free_beyond l (N.of_nat (nn (frames l / HF g) + j)) Inv ltac:(unfold nn; lia)) as Hn.
      unfold nn in Hn at 1. rewrite Nat2N.id in Hn.
      destruct (N.eqb_spec (at_ e_free (ents l) (nn (frames l / HF g) + j)) (HF g)); [contradiction | reflexivity].
  Qed.
End Acc2.


Section Acc3.
  Variable g : geom.
  Hypothesis WF : wf_geom g.

  (* frames of tree t <-> (huge frame j of the tree, offset u) *)
  Lemma li_tree_decomp t i : t * TF g <= i < t * TF g + TF g ->
    exists j u, j < THUGE g /\ u < HF g /\ i = (t * THUGE g + j) * HF g + u.
  Proof.
    intros Hi. pose proof (HF_pos g) as HP. rewrite TF_eq in Hi.
    exists ((i - t * (THUGE g * HF g)) / HF g), ((i - t * (THUGE g * HF g)) mod HF g).
    pose proof (N.div_mod (i - t * (THUGE g * HF g)) (HF g) ltac:(lia)) as D.
    pose proof (N.mod_lt (i - t * (THUGE g * HF g)) (HF g) ltac:(lia)) as M.
    split; [|split; [assumption|]].
    - apply N.div_lt_upper_bound; lia.
    - revert D M. generalize ((i - t * (THUGE g * HF g)) / HF g) ((i - t * (THUGE g * HF g)) mod HF g).
      intros q r D M. nia.
  Qed.

  Lemma li_tree_all_free l t : LowerInv g l -> (t + 1) * TF g <= frames l ->
    (all_free (abs g l) (t * TF g) (tord g) = true <-> tsum g (ents l) (nn t) = TF g).
  Proof.
    intros Inv Hr. pose proof (HF_pos g) as HP. pose proof (THUGE_pos g) as TP.
    assert (Hhuge : forall j, j < THUGE g -> (t * THUGE g + j + 1) * HF g <= frames l).
    { intros j Hj. rewrite TF_eq in Hr. nia. }
    assert (Hidx : forall j, (nn t * thuge_nat g + j)%nat = nn (t * THUGE g + N.of_nat j)).
    { intros j. rewrite <- nn_tree_base. unfold nn. lia. }
    rewrite all_free_spec, <- (TF_pow2 g). unfold tsum. split.
    - intros H. rewrite TF_eq, (THUGE_nat g), <- li_nsum_const. apply nsum_ext. intros j Hj.
      rewrite Hidx. assert (Hj' : N.of_nat j < THUGE g) by (rewrite (THUGE_nat g); lia).
      apply (li_huge_free_iff g WF l _ Inv (Hhuge _ Hj')). intros u Hu.
      rewrite <- (abs_alloc_testbit g WF l Inv). apply H. rewrite TF_eq. nia.
    - intros H i Hi. destruct (li_tree_decomp t i Hi) as (j & u & Hj & Hu & ->).
      rewrite (abs_alloc_testbit g WF l Inv).
      apply (proj2 (li_huge_free_iff g WF l _ Inv (Hhuge _ Hj))); [|assumption].
      rewrite TF_eq, (THUGE_nat g) in H.
      pose proof (li_nsum_eq_max _ _ _ (fun j _ => li_efree_le g l _ Inv) H (nn j)) as E.
      cbv beta in E. rewrite Hidx in E. unfold nn in E at 2. rewrite N2Nat.id in E. apply E.
      rewrite (THUGE_nat g) in Hj. unfold nn. lia.
  Qed.

  Lemma li_tree_not_free_beyond l t : LowerInv g l -> frames l / TF g <= t -> tsum g (ents l) (nn t) <> TF g.
  Proof.
    intros Inv Ht H. pose proof (HF_pos g) as HP. pose proof (THUGE_pos g) as TP.
    unfold tsum in H. rewrite TF_eq, (THUGE_nat g) in H.
    assert (Hlast : (thuge_nat g - 1 < thuge_nat g)%nat) by (pose proof (li_thuge_pos g); lia).
    pose proof (li_nsum_eq_max _ _ _ (fun j _ => li_efree_le g l _ Inv) H _ Hlast) as E.
    cbv beta in E. replace (nn t * thuge_nat g + (thuge_nat g - 1))%nat with (nn (t * THUGE g + (THUGE g - 1))) in E.
    2:{ rewrite <- nn_tree_base. rewrite (THUGE_nat g) at 2. unfold nn. lia. }
    revert E. apply (li_not_free_beyond g WF l _ Inv).
    (* frames / HF <= (t+1) * THUGE - 1 *)
    pose proof (N.div_mod (frames l) (TF g) ltac:(pose proof (TF_pos g); lia)) as D.
    pose proof (N.mod_lt (frames l) (TF g) ltac:(pose proof (TF_pos g); lia)) as M.
    assert (frames l < (t + 1) * THUGE g * HF g).
    { rewrite TF_eq in *. revert Ht D M. generalize (frames l / (THUGE g * HF g)) (frames l mod (THUGE g * HF g)).
      intros q r Ht D M. nia. }
    assert (frames l / HF g < (t + 1) * THUGE g) by (apply N.div_lt_upper_bound; lia).
    nia.
  Qed.

  Theorem stats_free_tree_count l : LowerInv g l ->
    nsum (nn (ntab g (frames l))) (fun t => if tsum g (ents l) t =? TF g then 1 else 0) = free_tree_count g (abs g l).
  Proof.
    intros Inv. pose proof (TF_pos g) as TP.
    unfold free_tree_count. rewrite li_cfb_nsum. change (o_frames (abs g l)) with (frames l).
    assert (Hsplit : nn (ntab g (frames l)) = (nn (frames l / TF g) + (nn (ntab g (frames l)) - nn (frames l / TF g)))%nat).
    { assert (frames l / TF g <= ntab g (frames l)).
      { pose proof (div_ceil_ge (frames l) (TF g) ltac:(lia)) as G. fold (ntab g (frames l)) in G.
        pose proof (N.mul_div_le (frames l) (TF g) ltac:(lia)).
        revert G H. generalize (frames l / TF g) (ntab g (frames l)) (TF g) TP. intros; nia. }
      unfold nn. lia. }
    rewrite Hsplit, li_nsum_split. rewrite (nsum_zero (nn (ntab g (frames l)) - _)).
    - rewrite N.add_0_r. apply nsum_ext. intros j Hj. rewrite N.add_0_l.
      assert (Hfull : (N.of_nat j + 1) * TF g <= frames l).
      { pose proof (N.mul_div_le (frames l) (TF g) ltac:(lia)). unfold nn in Hj.
        assert (N.of_nat j + 1 <= frames l / TF g) by lia. nia. }
      unfold in_range. change (o_frames (abs g l)) with (frames l). rewrite <- (TF_pow2 g).
      destruct (N.leb_spec (N.of_nat j * TF g + TF g) (frames l)); [|lia]. cbn [andb].
      pose proof (li_tree_all_free l (N.of_nat j) Inv Hfull) as Hiff.
      unfold nn in Hiff. rewrite Nat2N.id in Hiff.
      destruct (all_free (abs g l) (N.of_nat j * TF g) (tord g)), (N.eqb_spec (tsum g (ents l) j) (TF g));
        try reflexivity; exfalso; intuition congruence.
    - intros j _.
      pose proof (li_tree_not_free_beyond l (N.of_nat (nn (frames l / TF g) + j)) Inv ltac:(unfold nn; lia)) as Hn.
      unfold nn in Hn at 1. rewrite Nat2N.id in Hn.
      destruct (N.eqb_spec (tsum g (ents l) (nn (frames l / TF g) + j)) (TF g)); [contradiction | reflexivity].
  Qed.

  (* C04 (lower part) / B4: the statistics of the lower allocator are the accounting of its ownership state *)
  Theorem lower_stats_abs l : LowerInv g l ->
    free_frames (lower_stats g l) = exact_free (abs g l) /\
    free_huge (lower_stats g l) = free_huge_count g (abs g l) /\
    free_trees (lower_stats g l) = free_tree_count g (abs g l).
  Proof.
    intros Inv. pose proof Inv as (_ & Hle & _).
    assert (Hl : length (ents l) = (nn (ntab g (frames l)) * thuge_nat g)%nat) by (rewrite Hle; apply nn_tree_base).
    rewrite (li_stats_sums g l _ Hl). cbn [free_frames free_huge free_trees].
    split; [|split].
    - pose proof (stats_free_frames_exact g WF l Inv) as E. unfold exact_free.
      change (o_frames (abs g l)) with (frames l). lia.
    - apply stats_free_huge_count; assumption.
    - apply stats_free_tree_count; assumption.
  Qed.
End Acc3.

(* ---------- statistics of the two initial states; pointwise "nothing beyond the range is free" ---------- *)
Lemma li_cfb_all_free s k : o_alloc s = 0 ->
  count_free_blocks s k 0 (nn (o_frames s / pow2 k)) = o_frames s / pow2 k.
Proof.
  intros Hz. rewrite li_cfb_nsum. pose proof (pow2_pos k) as WP.
  rewrite (nsum_ext _ _ (fun _ => 1)).
  - rewrite li_nsum_const. unfold nn. lia.
  - intros j Hj. rewrite N.add_0_l. unfold in_range, all_free. rewrite Hz, N.land_0_l. cbn [N.eqb].
    pose proof (N.mul_div_le (o_frames s) (pow2 k) ltac:(lia)) as M.
    assert (N.of_nat j + 1 <= o_frames s / pow2 k) by (unfold nn in Hj; lia).
    destruct (N.leb_spec (N.of_nat j * pow2 k + pow2 k) (o_frames s)); [reflexivity | nia].
Qed.

Lemma li_cfb_none_free s k n : o_alloc s = ones (o_frames s) -> count_free_blocks s k 0 n = 0.
Proof.
  intros Ho. rewrite li_cfb_nsum. apply nsum_zero. intros j _. pose proof (pow2_pos k) as WP.
  unfold in_range. destruct (N.leb_spec ((0 + N.of_nat j) * pow2 k + pow2 k) (o_frames s)) as [Hin|]; [|reflexivity].
  cbn [andb]. destruct (all_free s ((0 + N.of_nat j) * pow2 k) k) eqn:A; [|reflexivity].
  exfalso. rewrite all_free_spec in A. specialize (A ((0 + N.of_nat j) * pow2 k) ltac:(lia)).
  rewrite Ho in A. unfold ones in A. rewrite N.ones_spec_low in A by lia. discriminate.
Qed.

Section InitStats.
  Variable g : geom.
  Hypothesis WF : wf_geom g.

  (* B1 *)
  Theorem free_all_stats fr :
    lower_stats g (free_all g fr) = {| free_frames := fr; free_huge := fr / HF g; free_trees := fr / TF g |}.
  Proof.
    destruct (lower_stats_abs g WF _ (free_all_inv g WF fr)) as (E1 & E2 & E3).
    rewrite (free_all_exact_free g WF) in E1.
    unfold free_huge_count in E2. rewrite (HF_pow2 g), li_cfb_all_free in E2 by apply (free_all_alloc g WF).
    unfold free_tree_count in E3. rewrite (TF_pow2 g), li_cfb_all_free in E3 by apply (free_all_alloc g WF).
    change (o_frames (abs g (free_all g fr))) with fr in E2, E3.
    rewrite <- (HF_pow2 g) in E2. rewrite <- (TF_pow2 g) in E3.
    destruct (lower_stats g (free_all g fr)); cbn in *. congruence.
  Qed.

  (* B2 *)
  Theorem reserve_all_stats fr : lower_stats g (reserve_all g fr) = stats0.
  Proof.
    destruct (lower_stats_abs g WF _ (reserve_all_inv g WF fr)) as (E1 & E2 & E3).
    rewrite (reserve_all_exact_free g WF) in E1.
    unfold free_huge_count in E2. rewrite li_cfb_none_free in E2 by apply (reserve_all_alloc g WF).
    unfold free_tree_count in E3. rewrite li_cfb_none_free in E3 by apply (reserve_all_alloc g WF).
    unfold stats0. destruct (lower_stats g (reserve_all g fr)); cbn in *. congruence.
  Qed.

  (* B4: nothing at or beyond `frames` is ever reported free *)
  Theorem beyond_bit_set l f e rows : LowerInv g l -> frames l <= f ->
    ent l (f / HF g) = Some e -> bf l (f / HF g) = Some rows -> N.testbit (rows_bits rows) (f mod HF g) = true.
  Proof.
    intros Inv Hf He Hb. pose proof (HF_pos g) as HP.
    pose proof (LowerInv_huge_ok g l _ _ _ Inv He Hb) as (_ & _ & _ & Htail).
    apply Htail; [apply N.mod_lt; lia|]. pose proof (N.div_mod f (HF g) ltac:(lia)). lia.
  Qed.

  Theorem beyond_not_alloc_not_free l f : LowerInv g l -> frames l <= f ->
    alloc_at g l f = false /\ N.testbit (o_alloc (abs g l)) f = false /\
    (forall k, lower_is_free g l f k = Panic SIsFreeAssert) /\
    (forall s, lower_stats_at g l f 0 = Ok s -> s = stats0).
  Proof.
    intros Inv Hf. pose proof (HF_pos g) as HP.
    assert (A : alloc_at g l f = false).
    { unfold alloc_at. destruct (N.ltb_spec f (frames l)); [lia | reflexivity]. }
    split; [exact A|]. split; [rewrite (abs_alloc_testbit g WF l Inv); exact A|]. split.
    - intros k. unfold lower_is_free. pose proof (pow2_pos k).
      destruct (N.leb_spec (f + pow2 k) (frames l)); [lia|]. rewrite andb_false_r. reflexivity.
    - intros s. unfold lower_stats_at. destruct (has_tree g l (f / TF g)); cbn [negb]; [|discriminate].
      cbn [Nat.eqb]. destruct (ent l (f / HF g)) as [e|] eqn:He; [|discriminate].
      destruct (0 <? e_free e); [|intros [= <-]; reflexivity].
      destruct (bf l (f / HF g)) as [rows|] eqn:Hb; [|discriminate].
      pose proof (LowerInv_huge_ok g l _ _ _ Inv He Hb) as (Hok & _).
      destruct (bf_is_zero g rows f 0) eqn:Z; [|intros [= <-]; reflexivity].
      exfalso. apply (bf_is_zero_spec g WF rows f 0 Hok ltac:(lia) (N.mod_1_r f)) in Z.
      rewrite land_blk_zero in Z. specialize (Z (f mod HF g) ltac:(change (pow2 0) with 1; lia)).
      rewrite (beyond_bit_set l f e rows Inv Hf He Hb) in Z. discriminate.
  Qed.
End InitStats.

(* ---------- non-vacuity ---------- *)
Example init_ex_5000 :
  lower_invb g9 (free_all g9 5000) = true /\ lower_invb g9 (reserve_all g9 5000) = true /\
  lower_stats g9 (free_all g9 5000) = {| free_frames := 5000; free_huge := 9; free_trees := 2 |} /\
  o_alloc (abs g9 (reserve_all g9 5000)) = ones 5000 /\ o_whole (abs g9 (reserve_all g9 5000)) = ones 9 /\
  ent (free_all g9 5000) 9 = Some 392 /\ ent (free_all g9 5000) 10 = Some 0 /\ bf (free_all g9 5000) 10 = None.
Proof. vm_compute. repeat split. Qed.

Example init_ex_edge :
  lower_stats g9 (free_all g9 0) = stats0 /\ ents (free_all g9 0) = [] /\ bfs (reserve_all g9 0) = [] /\
  lower_stats g9 (free_all g9 2048) = {| free_frames := 2048; free_huge := 4; free_trees := 1 |} /\
  lower_stats g9 (free_all g9 2049) = {| free_frames := 2049; free_huge := 4; free_trees := 1 |} /\
  length (ents (free_all g9 2049)) = 8%nat /\ length (bfs (free_all g9 2049)) = 5%nat /\
  lower_stats g9 (free_all g9 511) = {| free_frames := 511; free_huge := 0; free_trees := 0 |} /\
  lower_invb g9 (free_all g9 511) = true /\ lower_invb g9 (reserve_all g9 511) = true /\
  lower_stats g9 (reserve_all g9 2049) = stats0.
Proof. vm_compute. repeat split. Qed.

Print Assumptions free_all_inv.
Print Assumptions free_all_alloc.
Print Assumptions free_all_stats.
Print Assumptions reserve_all_inv.
Print Assumptions reserve_all_alloc.
Print Assumptions reserve_all_whole.
Print Assumptions reserve_all_stats.
Print Assumptions lower_stats_abs.
Print Assumptions beyond_not_alloc_not_free.

(* ---------- B3: freeing everything after reserve_all yields exactly free_all ---------- *)
Lemma li_upd_id {A} (l : list A) i x : nth_error l i = Some x \/ nth_error l i = None -> upd l i x = l.
Proof.
  intros H. apply bp_nth_error_ext. intros j. rewrite bp_nth_error_upd.
  destruct (Nat.eqb_spec i j) as [<-|]; [|reflexivity].
  destruct (Nat.ltb_spec i (length l)) as [Hl|Hl].
  - destruct H as [H|H]; [congruence|]. apply nth_error_None in H. lia.
  - symmetry. apply nth_error_None. assumption.
Qed.

Section FreeSeq.
  Variable g : geom.
  Hypothesis WF : wf_geom g.

  Lemma li_rows_bits_inj a b : rows_ok g a -> rows_ok g b ->
    (forall t, N.testbit (rows_bits a) t = N.testbit (rows_bits b) t) -> a = b.
  Proof.
    intros (La & Fa) (Lb & Fb) H. apply bp_nth_error_ext. intros j.
    destruct (nth_error a j) as [x|] eqn:Ex; destruct (nth_error b j) as [y|] eqn:Ey.
    - f_equal. apply N.bits_inj. intros t. destruct (N.lt_ge_cases t 64) as [Ht|Ht].
      + specialize (H (64 * N.of_nat j + t)). rewrite !bp_rows_bits_testbit in H by assumption.
        destruct (bp_div64 (N.of_nat j) t Ht) as (E1 & E2). rewrite E1, E2 in H.
        unfold nn in H. rewrite Nat2N.id, Ex, Ey in H. exact H.
      + rewrite !bp_testbit_high64; try assumption; try reflexivity.
        * exact (bp_Forall_nth_inv _ _ _ _ Fb Ey).
        * exact (bp_Forall_nth_inv _ _ _ _ Fa Ex).
    - exfalso. apply nth_error_None in Ey. assert (j < length a)%nat by (apply nth_error_Some; congruence). lia.
    - exfalso. apply nth_error_None in Ex. assert (j < length b)%nat by (apply nth_error_Some; congruence). lia.
    - reflexivity.
  Qed.

  Definition put_step (acc : res unit * lower) (p : N * nat) : res unit * lower :=
    match acc with (Ok _, l) => lower_put g l (fst p) (snd p) | other => other end.
  Definition put_all (l : lower) (ps : list (N * nat)) : res unit * lower := fold_left put_step ps (Ok tt, l).

  (* the canonical free sequence: every whole huge frame at HUGE_ORDER, then every remaining managed frame
     (those of the partial last huge frame) at order 0 *)
  Definition free_seq_huge (fr : N) : list (N * nat) :=
    map (fun h => (N.of_nat h * HF g, hord g)) (seq 0 (nn (fr / HF g))).
  Definition free_seq_small (fr : N) : list (N * nat) :=
    map (fun i => (fr / HF g * HF g + N.of_nat i, 0%nat)) (seq 0 (nn (fr mod HF g))).
  Definition free_seq (fr : N) : list (N * nat) := free_seq_huge fr ++ free_seq_small fr.

  (* stage 1: the first m huge frames have been freed *)
  Definition st1_ent (fr m : N) (h : nat) : N :=
    if N.of_nat h <? m then HF g else if N.of_nat h <? fr / HF g then MARK else 0.
  Definition st1 (fr m : N) : lower :=
    {| frames := fr; bfs := reserve_all_bfs g fr;
       ents := map (st1_ent fr m) (seq 0 (nn (ntab g fr * THUGE g))) |}.

  Lemma li_st1_0 fr : st1 fr 0 = reserve_all g fr.
  Proof.
    unfold st1, reserve_all, reserve_all_ents. f_equal. apply map_ext. intros h. unfold st1_ent.
    destruct (N.ltb_spec (N.of_nat h) 0); [lia | reflexivity].
  Qed.

  Lemma li_has_tree l fr f : frames l = fr -> length (ents l) = nn (ntab g fr * THUGE g) -> f < fr ->
    has_tree g l (f / TF g) = true.
  Proof.
    intros _ Hl Hf. unfold has_tree. rewrite Hl. unfold nn. rewrite N2Nat.id.
    pose proof (frame_lt_ntab g fr f Hf). apply N.leb_le. pose proof (THUGE_pos g). nia.
  Qed.

  Lemma li_st1_step fr m : m < fr / HF g ->
    lower_put g (st1 fr m) (m * HF g) (hord g) = (Ok tt, st1 fr (m + 1)).
  Proof.
    intros Hm. pose proof (HF_pos g) as HP. pose proof (THUGE_pos g) as TP.
    pose proof (li_full_le g fr m Hm) as Hfull.
    assert (Hlen : length (ents (st1 fr m)) = nn (ntab g fr * THUGE g)).
    { unfold st1; cbn [ents]. rewrite map_length, seq_length. reflexivity. }
    unfold lower_put. rewrite (li_has_tree (st1 fr m) fr (m * HF g) eq_refl Hlen ltac:(lia)). cbn [negb].
    rewrite Nat.leb_refl, Nat.sub_diag. change (pow2 0) with 1.
    rewrite N.div_mul by lia.
    pose proof (N.mod_lt m (THUGE g) ltac:(lia)) as Hmod.
    destruct (N.ltb_spec (THUGE g) (m mod THUGE g + 1)); [lia|].
    change (nn 1) with 1%nat. cbn [cas_all].
    assert (Hidx : (nn m < nn (ntab g fr * THUGE g))%nat).
    { pose proof (li_full_lt_nbf g fr m Hm). pose proof (nbf_le_ntab g fr). unfold nn. lia. }
    assert (Hnth : nth_error (ents (st1 fr m)) (nn m) = Some MARK).
    { unfold st1; cbn [ents]. rewrite li_nth_map_seq. destruct (Nat.ltb_spec (nn m) (nn (ntab g fr * THUGE g))); [|lia].
      cbn [Nat.add]. unfold st1_ent, nn. rewrite N2Nat.id.
      destruct (N.ltb_spec m m); [lia|]. destruct (N.ltb_spec m (fr / HF g)); [reflexivity | lia]. }
    rewrite Hnth, N.eqb_refl. f_equal. unfold st1. cbn [frames bfs ents]. f_equal.
    apply bp_nth_error_ext. intros j. rewrite bp_nth_error_upd, map_length, seq_length, !li_nth_map_seq. cbn [Nat.add].
    unfold st1_ent.
    destruct (Nat.eqb_spec (nn m) j) as [<-|Hne].
    - destruct (Nat.ltb_spec (nn m) (nn (ntab g fr * THUGE g))); [|lia]. unfold nn. rewrite N2Nat.id.
      destruct (N.ltb_spec m (m + 1)); [reflexivity | lia].
    - destruct (Nat.ltb_spec j (nn (ntab g fr * THUGE g))); [|reflexivity]. f_equal.
      destruct (N.ltb_spec (N.of_nat j) m), (N.ltb_spec (N.of_nat j) (m + 1)); try reflexivity; unfold nn in Hne; lia.
  Qed.

  Lemma li_stage1 fr : forall n a, (a + n <= nn (fr / HF g))%nat ->
    fold_left put_step (map (fun h => (N.of_nat h * HF g, hord g)) (seq a n)) (Ok tt, st1 fr (N.of_nat a)) =
    (Ok tt, st1 fr (N.of_nat (a + n))).
  Proof.
    induction n as [|n IH]; intros a Ha; cbn [seq map fold_left].
    - rewrite Nat.add_0_r. reflexivity.
    - unfold put_step at 2. cbn [fst snd]. rewrite li_st1_step by (unfold nn in Ha; lia).
      replace (N.of_nat a + 1) with (N.of_nat (S a)) by lia. rewrite IH by lia.
      replace (S a + n)%nat with (a + S n)%nat by lia. reflexivity.
  Qed.

  (* stage 2: the first i frames of the partial huge frame hp = fr / HF have been freed *)
  Definition st2 (fr i : N) (rows : list N) : lower :=
    {| frames := fr; bfs := upd (reserve_all_bfs g fr) (nn (fr / HF g)) rows;
       ents := upd (ents (st1 fr (fr / HF g))) (nn (fr / HF g)) i |}.
  Definition st2_rows (i : N) (rows : list N) : Prop :=
    rows_ok g rows /\ forall t, N.testbit (rows_bits rows) t = (i <=? t) && (t <? HF g).

  Lemma li_st1_ents_nth fr m j : nth_error (ents (st1 fr m)) j =
    if (j <? nn (ntab g fr * THUGE g))%nat then Some (st1_ent fr m j) else None.
  Proof. unfold st1; cbn [ents]. rewrite li_nth_map_seq. reflexivity. Qed.

  Lemma li_rbfs_nth fr j : nth_error (reserve_all_bfs g fr) j =
    if (j <? nn (nbf g fr))%nat then Some (if N.of_nat j <? fr / HF g then zeros_bf g else ones_bf g) else None.
  Proof. unfold reserve_all_bfs. rewrite li_nth_map_seq. reflexivity. Qed.

  Lemma li_st2_0 fr : st2 fr 0 (ones_bf g) = st1 fr (fr / HF g).
  Proof.
    unfold st2, st1. cbn [ents]. f_equal.
    - apply li_upd_id. rewrite li_rbfs_nth. destruct (Nat.ltb_spec (nn (fr / HF g)) (nn (nbf g fr))); [|right; reflexivity].
      left. unfold nn. rewrite N2Nat.id. destruct (N.ltb_spec (fr / HF g) (fr / HF g)); [lia | reflexivity].
    - apply li_upd_id. rewrite li_nth_map_seq.
      destruct (Nat.ltb_spec (nn (fr / HF g)) (nn (ntab g fr * THUGE g))); [|right; reflexivity].
      left. cbn [Nat.add]. unfold st1_ent, nn. rewrite N2Nat.id.
      destruct (N.ltb_spec (fr / HF g) (fr / HF g)); [lia | reflexivity].
  Qed.

  Lemma li_ones_rows : st2_rows 0 (ones_bf g).
  Proof. split; [apply li_ones_ok; exact WF|]. intros t. rewrite (li_ones_bits g WF). destruct (N.leb_spec 0 t); [reflexivity | lia]. Qed.

  Lemma li_st2_step fr i rows : i < fr mod HF g -> st2_rows i rows ->
    exists rows', st2_rows (i + 1) rows' /\
      lower_put g (st2 fr i rows) (fr / HF g * HF g + i) 0 = (Ok tt, st2 fr (i + 1) rows').
  Proof.
    intros Hi (Hok & Hbits). pose proof (HF_pos g) as HP. pose proof (HF_lt_MARK g WF) as HM.
    pose proof (N.div_mod fr (HF g) ltac:(lia)) as D. pose proof (N.mod_lt fr (HF g) ltac:(lia)) as Mr.
    set (hp := fr / HF g) in *.
    assert (Hhp : hp < nbf g fr).
    { replace hp with ((hp * HF g) / HF g) by (apply N.div_mul; lia). apply frame_lt_nbf. clear - D Hi. nia. }
    pose proof (nbf_le_ntab g fr) as Hnt.
    assert (Hlen : length (ents (st2 fr i rows)) = nn (ntab g fr * THUGE g)).
    { unfold st2, st1; cbn [ents]. rewrite upd_length, map_length, seq_length. reflexivity. }
    destruct (li_divmod g hp i ltac:(lia)) as (Ediv & Emod).
    unfold lower_put. assert (Hlt : hp * HF g + i < fr) by (clear - D Hi; nia).
    rewrite (li_has_tree (st2 fr i rows) fr (hp * HF g + i) eq_refl Hlen Hlt). cbn [negb].
    destruct WF as (H6 & _). destruct (Nat.leb_spec (hord g) 0); [lia|].
    rewrite Ediv.
    assert (He : ent (st2 fr i rows) hp = Some i).
    { unfold ent, st2; cbn [ents]. apply nth_error_upd_same. unfold st1; cbn [ents].
      rewrite map_length, seq_length. unfold nn. lia. }
    assert (Hb : bf (st2 fr i rows) hp = Some rows).
    { unfold bf, st2; cbn [bfs]. apply nth_error_upd_same. unfold reserve_all_bfs.
      rewrite map_length, seq_length. unfold nn. lia. }
    rewrite He. rewrite (lp_e_huge_false g WF i) by lia.
    assert (Ef : e_free i = i) by (unfold e_free; rewrite (lp_e_huge_false g WF i) by lia; reflexivity).
    rewrite Ef. change (pow2 0) with 1. destruct (N.leb_spec (i + 1) (HF g)); [|lia].
    unfold put_small. rewrite Ediv, Hb.
    pose proof (bp_toggle_true g WF rows (hp * HF g + i) 0 Hok ltac:(lia) (N.mod_1_r _)) as P.
    rewrite Emod in P. change (pow2 0) with 1 in P.
    destruct (bf_toggle g rows (hp * HF g + i) 0 true) as [rows'|]; cbn [toggle_true_post] in P.
    2:{ exfalso. apply P. intros t Ht. rewrite Hbits.
        destruct (N.leb_spec i t), (N.ltb_spec t (HF g)); try reflexivity; lia. }
    destruct P as (Hok' & _ & Pnew).
    exists rows'. split.
    - split; [exact Hok'|]. intros t. rewrite Pnew, Hbits.
      destruct (N.leb_spec i t), (N.ltb_spec t (HF g)), (N.ltb_spec t (i + 1)), (N.leb_spec (i + 1) t);
        cbn [andb negb]; try reflexivity; lia.
    - rewrite ent_set_bf, He. unfold e_inc. change (pow2 0) with 1. rewrite Ef, (lp_e_huge_false g WF i) by lia. cbn [negb andb].
      destruct (N.leb_spec (i + 1) (HF g)); [|lia].
      subst hp. f_equal. unfold set_ent, set_bf, st2. cbn [frames bfs ents]. rewrite !lp_upd_upd. reflexivity.
  Qed.

  Lemma li_stage2 fr : forall n a rows, (a + n <= nn (fr mod HF g))%nat -> st2_rows (N.of_nat a) rows ->
    exists rows', st2_rows (N.of_nat (a + n)) rows' /\
      fold_left put_step (map (fun i => (fr / HF g * HF g + N.of_nat i, 0%nat)) (seq a n)) (Ok tt, st2 fr (N.of_nat a) rows) =
      (Ok tt, st2 fr (N.of_nat (a + n)) rows').
  Proof.
    induction n as [|n IH]; intros a rows Ha Hr; cbn [seq map fold_left].
    - rewrite Nat.add_0_r. exists rows. split; [assumption | reflexivity].
    - replace (a + S n)%nat with (S a + n)%nat by lia. unfold put_step at 2. cbn [fst snd].
      destruct (li_st2_step fr (N.of_nat a) rows ltac:(unfold nn in Ha; lia) Hr) as (rows1 & Hr1 & ->).
      replace (N.of_nat a + 1) with (N.of_nat (S a)) in * by lia.
      destruct (IH (S a) rows1 ltac:(lia) Hr1) as (rows' & Hr' & ->).
      exists rows'. split; [assumption | reflexivity].
  Qed.

  Lemma li_st2_final fr rows : st2_rows (fr mod HF g) rows -> st2 fr (fr mod HF g) rows = free_all g fr.
  Proof.
    intros (Hok & Hbits). pose proof (HF_pos g) as HP.
    pose proof (N.div_mod fr (HF g) ltac:(lia)) as D. pose proof (N.mod_lt fr (HF g) ltac:(lia)) as Mr.
    unfold st2, free_all. f_equal.
    - (* bitfields *)
      apply bp_nth_error_ext. intros j. rewrite bp_nth_error_upd. unfold free_all_bfs, reserve_all_bfs.
      rewrite map_length, seq_length, !li_nth_map_seq. cbn [Nat.add].
      destruct (Nat.ltb_spec j (nn (nbf g fr))) as [Hj|Hj].
      + destruct (Nat.eqb_spec (nn (fr / HF g)) j) as [<-|Hne].
        * f_equal. unfold nn. rewrite N2Nat.id. destruct (N.ltb_spec (fr / HF g) (fr / HF g)); [lia|].
          apply (li_rows_bits_inj rows (part_bf g (fr - fr / HF g * HF g))); [exact Hok | apply (li_part_ok g) |].
          intros t. rewrite Hbits, (li_part_bits g WF). replace (fr - fr / HF g * HF g) with (fr mod HF g) by lia.
          reflexivity.
        * f_equal. destruct (N.ltb_spec (N.of_nat j) (fr / HF g)) as [|Hge]; [reflexivity|]. exfalso.
          destruct (li_partial g fr (N.of_nat j) ltac:(unfold nn in Hj; lia) ltac:(lia)) as (E & _).
          unfold nn in Hne. lia.
      + destruct (Nat.eqb_spec (nn (fr / HF g)) j); reflexivity.
    - (* entries *)
      apply bp_nth_error_ext. intros j. rewrite bp_nth_error_upd. unfold st1, free_all_ents. cbn [ents].
      rewrite map_length, seq_length, !li_nth_map_seq. cbn [Nat.add]. unfold st1_ent.
      destruct (Nat.ltb_spec j (nn (ntab g fr * THUGE g))) as [Hj|Hj].
      + destruct (Nat.eqb_spec (nn (fr / HF g)) j) as [<-|Hne].
        * f_equal. unfold nn. rewrite N2Nat.id. lia.
        * f_equal. destruct (N.ltb_spec (N.of_nat j) (fr / HF g)) as [Hlt|Hge].
          -- pose proof (li_full_le g fr _ Hlt). lia.
          -- assert (fr / HF g + 1 <= N.of_nat j) by (unfold nn in Hne; lia).
             assert (fr <= N.of_nat j * HF g) by nia. lia.
      + destruct (Nat.eqb_spec (nn (fr / HF g)) j); reflexivity.
  Qed.

  (* B3 *)
  Theorem free_seq_from_reserve_all fr : put_all (reserve_all g fr) (free_seq fr) = (Ok tt, free_all g fr).
  Proof.
    unfold put_all, free_seq. rewrite fold_left_app.
    rewrite <- li_st1_0. change (st1 fr 0) with (st1 fr (N.of_nat 0)).
    unfold free_seq_huge. rewrite (li_stage1 fr _ 0%nat) by lia. cbn [Nat.add].
    unfold nn at 1. rewrite N2Nat.id. rewrite <- li_st2_0.
    unfold free_seq_small.
    destruct (li_stage2 fr (nn (fr mod HF g)) 0%nat (ones_bf g) ltac:(lia) li_ones_rows) as (rows' & Hr & E).
    cbn [Nat.add] in *. change (N.of_nat 0) with 0 in E. rewrite E.
    unfold nn in *. rewrite N2Nat.id in *. f_equal. apply li_st2_final. exact Hr.
  Qed.

  Corollary free_seq_all_free fr :
    fst (put_all (reserve_all g fr) (free_seq fr)) = Ok tt /\
    o_alloc (abs g (snd (put_all (reserve_all g fr) (free_seq fr)))) = 0 /\
    lower_stats g (snd (put_all (reserve_all g fr) (free_seq fr))) = lower_stats g (free_all g fr).
  Proof. rewrite free_seq_from_reserve_all. cbn [fst snd]. split; [reflexivity|]. split; [apply (free_all_alloc g WF) | reflexivity]. Qed.
End FreeSeq.

Example free_seq_ex :
  length (free_seq g9 5000) = 401%nat /\ put_all g9 (reserve_all g9 5000) (free_seq g9 5000) = (Ok tt, free_all g9 5000) /\
  put_all g9 (reserve_all g9 0) (free_seq g9 0) = (Ok tt, free_all g9 0) /\
  put_all g9 (reserve_all g9 2049) (free_seq g9 2049) = (Ok tt, free_all g9 2049) /\
  put_all g9 (reserve_all g9 511) (free_seq g9 511) = (Ok tt, free_all g9 511).
Proof. vm_compute. repeat split. Qed.

Print Assumptions free_seq_from_reserve_all.
