(* C06: `free_all` / `reserve_all` initialisation of the lower allocator is correct for every frame
   count (including 0 and counts whose last huge frame / tree is partial), and the accounting of
   `lower_stats` agrees with the ownership state under the invariant. *)
From Coq Require Import PeanoNat ZArith ZifyN ZifyBool.
From LLF Require Import Base BitLemmas Row RowProofs Bitfield Lower Spec AbsLemmas BitfieldPutProofs LowerPutProofs.
Local Open Scope N_scope.

Lemma li_nth_map_seq {A} (f : nat -> A) n : forall a j,
  nth_error (map f (seq a n)) j = if (j <? n)%nat then Some (f (a + j)%nat) else None.
Proof.
  induction n as [|n IH]; intros a [|j]; cbn [seq map nth_error]; try reflexivity.
  - rewrite Nat.add_0_r. reflexivity.
  - rewrite IH. replace (S a + j)%nat with (a + S j)%nat by lia.
    destruct (Nat.ltb_spec j n), (Nat.ltb_spec (S j) (S n)); try reflexivity; lia.
Qed.

Section Init.
  Variable g : geom.
  Hypothesis WF : wf_geom g.

  Definition zeros_bf : list N := repeat 0 (rows_nat g).
  Definition ones_bf : list N := repeat MAX64 (rows_nat g).
  Definition part_bf (e : N) : list N := bf_set (bf_set zeros_bf 0 e false) e (HF g) true.

  Lemma li_zeros_ok : rows_ok g zeros_bf.
  Proof. apply bp_rows_ok_repeat. reflexivity. Qed.
  Lemma li_ones_ok : rows_ok g ones_bf.
  Proof. apply bp_rows_ok_repeat. reflexivity. Qed.
  Lemma li_zeros_zero : Forall (fun r => r = 0) zeros_bf.
  Proof. apply bp_Forall_repeat. reflexivity. Qed.
  Lemma li_zeros_bits : rows_bits zeros_bf = 0.
  Proof. apply bp_rows_bits_repeat0. Qed.
  Lemma li_ones_bits i : N.testbit (rows_bits ones_bf) i = (i <? HF g).
  Proof.
    unfold ones_bf. rewrite (bp_rows_bits_full g WF).
    destruct (N.ltb_spec i (HF g)); [apply N.ones_spec_low | apply N.ones_spec_high]; assumption.
  Qed.

  Lemma li_part_ok e : rows_ok g (part_bf e).
  Proof.
    destruct li_zeros_ok as (Hl & Hf). unfold part_bf. split.
    - rewrite !bp_set_length. exact Hl.
    - apply bp_set_lt, bp_set_lt. exact Hf.
  Qed.

  Lemma li_part_bits e i : N.testbit (rows_bits (part_bf e)) i = (e <=? i) && (i <? HF g).
  Proof.
    destruct li_zeros_ok as (Hl & Hf).
    destruct (N.ltb_spec i (HF g)) as [Hi|Hi].
    - unfold part_bf. rewrite bp_set_testbit.
      + rewrite bp_set_testbit by (try assumption; rewrite Hl, <- (bp_HF_rows_nat g WF); assumption).
        rewrite li_zeros_bits, N.bits_0.
        destruct (N.leb_spec e i), (N.ltb_spec i (HF g)), (N.leb_spec 0 i), (N.ltb_spec i e); cbn [andb];
          try reflexivity; lia.
      + apply bp_set_lt. exact Hf.
      + rewrite bp_set_length, Hl, <- (bp_HF_rows_nat g WF). assumption.
    - rewrite (rows_bits_high g WF _ i (li_part_ok e) Hi). rewrite andb_false_r. reflexivity.
  Qed.

  Lemma li_part_count e : e <= HF g -> bf_count_zeros (part_bf e) = e.
  Proof.
    intros He. pose proof (bf_count_zeros_sum g WF _ (li_part_ok e)) as S.
    assert (E : rows_bits (part_bf e) = blk e (HF g - e)).
    { apply N.bits_inj. intros i. rewrite li_part_bits, blk_testbit.
      destruct (N.leb_spec e i), (N.ltb_spec i (HF g)), (N.ltb_spec i (e + (HF g - e))); cbn [andb]; try reflexivity; lia. }
    rewrite E, bp_popcount_blk in S. lia.
  Qed.

  (* ----- sizes ----- *)
  Lemma li_nbf_ge fr : fr <= nbf g fr * HF g.
  Proof. apply div_ceil_ge. pose proof (HF_pos g). lia. Qed.

  Lemma li_full_le fr h : h < fr / HF g -> (h + 1) * HF g <= fr.
  Proof.
    intros H. pose proof (HF_pos g) as HP. pose proof (N.mul_div_le fr (HF g) ltac:(lia)) as M.
    revert H M. generalize (fr / HF g) (HF g). intros; nia.
  Qed.

  Lemma li_full_lt_nbf fr h : h < fr / HF g -> h < nbf g fr.
  Proof.
    intros H. pose proof (li_full_le fr h H). pose proof (li_nbf_ge fr). pose proof (HF_pos g) as HP.
    revert HP H H0 H1. generalize (nbf g fr) (HF g) (fr / HF g). intros; nia.
  Qed.

  Lemma li_partial fr h : h < nbf g fr -> ~ h < fr / HF g -> h = fr / HF g /\ fr - h * HF g = fr mod HF g /\ 0 < fr mod HF g.
  Proof.
    intros H1 H2. pose proof (HF_pos g) as HP. pose proof (nbf_lt_inv g fr h H1) as L.
    pose proof (N.div_mod fr (HF g) ltac:(lia)) as D. pose proof (N.mod_lt fr (HF g) ltac:(lia)) as M.
    revert HP H2 L D M. generalize (HF g) (fr / HF g) (fr mod HF g). intros a q r HP H2 L D M.
    assert (h = q) by nia. subst h. split; [reflexivity|]. split; nia.
  Qed.

  (* ----- free_all ----- *)
  Lemma li_free_all_ent fr h :
    ent (free_all g fr) h = if h <? ntab g fr * THUGE g then Some (N.min (fr - h * HF g) (HF g)) else None.
  Proof.
    unfold ent, free_all, free_all_ents; cbn [ents]. rewrite li_nth_map_seq. cbn [Nat.add].
    unfold nn. rewrite N2Nat.id.
    destruct (Nat.ltb_spec (N.to_nat h) (N.to_nat (ntab g fr * THUGE g))), (N.ltb_spec h (ntab g fr * THUGE g));
      try reflexivity; lia.
  Qed.

  Lemma li_free_all_bf fr h :
    bf (free_all g fr) h =
    if h <? nbf g fr then Some (if h <? fr / HF g then zeros_bf else part_bf (fr - h * HF g)) else None.
  Proof.
    unfold bf, free_all, free_all_bfs; cbn [bfs]. rewrite li_nth_map_seq. cbn [Nat.add].
    unfold nn. rewrite N2Nat.id.
    destruct (Nat.ltb_spec (N.to_nat h) (N.to_nat (nbf g fr))), (N.ltb_spec h (nbf g fr)); try reflexivity; lia.
  Qed.

  Theorem free_all_inv fr : LowerInv g (free_all g fr).
  Proof.
    pose proof (HF_pos g) as HP. pose proof (HF_lt_MARK g WF) as HM.
    unfold LowerInv. split; [|split; [|split]].
    - unfold free_all, free_all_bfs; cbn [bfs frames]. rewrite map_length, seq_length. reflexivity.
    - unfold free_all, free_all_ents; cbn [ents frames]. rewrite map_length, seq_length. reflexivity.
    - intros h e rows He Hb. change (frames (free_all g fr)) with fr.
      assert (He' : ent (free_all g fr) (N.of_nat h) = Some e) by (unfold ent, nn; rewrite Nat2N.id; exact He).
      assert (Hb' : bf (free_all g fr) (N.of_nat h) = Some rows) by (unfold bf, nn; rewrite Nat2N.id; exact Hb).
      clear He Hb. revert He' Hb'. generalize (N.of_nat h). clear h. intros h He Hb.
      rewrite li_free_all_ent in He. rewrite li_free_all_bf in Hb.
      destruct (h <? ntab g fr * THUGE g); [|discriminate]. injection He as <-.
      destruct (N.ltb_spec h (nbf g fr)) as [Hn|]; [|discriminate]. injection Hb as <-.
      destruct (N.ltb_spec h (fr / HF g)) as [Hfull|Hpart].
      + pose proof (li_full_le fr h Hfull) as L.
        assert (E : N.min (fr - h * HF g) (HF g) = HF g) by lia. rewrite E.
        split; [apply li_zeros_ok|]. split; [|split].
        * intros. lia.
        * intros _. split; [|lia]. symmetry. apply (count_zeros_of_zero g WF); [apply li_zeros_ok | apply li_zeros_zero].
        * intros i Hi Hfr. exfalso. lia.
      + destruct (li_partial fr h Hn ltac:(lia)) as (Eh & Er & Hpos).
        pose proof (N.mod_lt fr (HF g) ltac:(lia)) as M.
        assert (E : N.min (fr - h * HF g) (HF g) = fr - h * HF g) by lia. rewrite E.
        split; [apply li_part_ok|]. split; [|split].
        * intros. lia.
        * intros _. split; [|lia]. symmetry. apply li_part_count. lia.
        * intros i Hi Hfr. rewrite li_part_bits.
          destruct (N.leb_spec (fr - h * HF g) i), (N.ltb_spec i (HF g)); cbn [andb]; try reflexivity; lia.
    - intros h e He Hb. 
      assert (He' : ent (free_all g fr) (N.of_nat h) = Some e) by (unfold ent, nn; rewrite Nat2N.id; exact He).
      assert (Hb' : bf (free_all g fr) (N.of_nat h) = None) by (unfold bf, nn; rewrite Nat2N.id; exact Hb).
      clear He Hb. revert He' Hb'. generalize (N.of_nat h). clear h. intros h He Hb.
      rewrite li_free_all_ent in He. rewrite li_free_all_bf in Hb.
      destruct (h <? ntab g fr * THUGE g); [|discriminate]. injection He as <-.
      destruct (N.ltb_spec h (nbf g fr)) as [|Hn]; [discriminate|].
      pose proof (li_nbf_ge fr). assert (fr <= h * HF g) by nia. lia.
  Qed.

  Theorem free_all_alloc fr : o_alloc (abs g (free_all g fr)) = 0.
  Proof.
    pose proof (HF_pos g) as HP.
    apply N.bits_inj. intros i. rewrite N.bits_0, (abs_alloc_testbit g WF _ (free_all_inv fr)).
    unfold alloc_at. change (frames (free_all g fr)) with fr.
    destruct (N.ltb_spec i fr) as [Hi|]; [|reflexivity]. cbn [andb].
    rewrite li_free_all_ent, li_free_all_bf.
    destruct (i / HF g <? ntab g fr * THUGE g); [|reflexivity].
    destruct (N.ltb_spec (i / HF g) (nbf g fr)) as [Hn|]; [|reflexivity].
    rewrite (lp_e_huge_false g WF) by lia. cbn [orb].
    destruct (N.ltb_spec (i / HF g) (fr / HF g)) as [Hfull|Hpart].
    - rewrite li_zeros_bits. apply N.bits_0.
    - rewrite li_part_bits.
      pose proof (N.div_mod i (HF g) ltac:(lia)) as D.
      destruct (N.leb_spec (fr - i / HF g * HF g) (i mod HF g)); [|reflexivity]. exfalso. lia.
  Qed.

  Theorem free_all_whole fr : o_whole (abs g (free_all g fr)) = 0.
  Proof.
    apply N.bits_inj. intros h. rewrite N.bits_0, abs_whole_testbit_gen. unfold whole_at.
    rewrite li_free_all_ent. destruct (h <? ntab g fr * THUGE g); [|reflexivity].
    rewrite (lp_e_huge_false g WF) by lia. destruct (bf (free_all g fr) h); reflexivity.
  Qed.

  Theorem free_all_exact_free fr : exact_free (abs g (free_all g fr)) = fr.
  Proof. unfold exact_free. rewrite free_all_alloc. cbn. lia. Qed.

  (* ----- reserve_all ----- *)
  Lemma li_reserve_all_ent fr h :
    ent (reserve_all g fr) h = if h <? ntab g fr * THUGE g then Some (if h <? fr / HF g then MARK else 0) else None.
  Proof.
    unfold ent, reserve_all, reserve_all_ents; cbn [ents]. rewrite li_nth_map_seq. cbn [Nat.add].
    unfold nn. rewrite N2Nat.id.
    destruct (Nat.ltb_spec (N.to_nat h) (N.to_nat (ntab g fr * THUGE g))), (N.ltb_spec h (ntab g fr * THUGE g));
      try reflexivity; lia.
  Qed.

  Lemma li_reserve_all_bf fr h :
    bf (reserve_all g fr) h = if h <? nbf g fr then Some (if h <? fr / HF g then zeros_bf else ones_bf) else None.
  Proof.
    unfold bf, reserve_all, reserve_all_bfs; cbn [bfs]. rewrite li_nth_map_seq. cbn [Nat.add].
    unfold nn. rewrite N2Nat.id.
    destruct (Nat.ltb_spec (N.to_nat h) (N.to_nat (nbf g fr))), (N.ltb_spec h (nbf g fr)); try reflexivity; lia.
  Qed.

  Theorem reserve_all_inv fr : LowerInv g (reserve_all g fr).
  Proof.
    pose proof (HF_pos g) as HP. pose proof (HF_lt_MARK g WF) as HM.
    unfold LowerInv. split; [|split; [|split]].
    - unfold reserve_all, reserve_all_bfs; cbn [bfs frames]. rewrite map_length, seq_length. reflexivity.
    - unfold reserve_all, reserve_all_ents; cbn [ents frames]. rewrite map_length, seq_length. reflexivity.
    - intros h e rows He Hb. change (frames (reserve_all g fr)) with fr.
      assert (He' : ent (reserve_all g fr) (N.of_nat h) = Some e) by (unfold ent, nn; rewrite Nat2N.id; exact He).
      assert (Hb' : bf (reserve_all g fr) (N.of_nat h) = Some rows) by (unfold bf, nn; rewrite Nat2N.id; exact Hb).
      clear He Hb. revert He' Hb'. generalize (N.of_nat h). clear h. intros h He Hb.
      rewrite li_reserve_all_ent in He. rewrite li_reserve_all_bf in Hb.
      destruct (h <? ntab g fr * THUGE g); [|discriminate]. injection He as <-.
      destruct (N.ltb_spec h (nbf g fr)) as [Hn|]; [|discriminate]. injection Hb as <-.
      destruct (N.ltb_spec h (fr / HF g)) as [Hfull|Hpart].
      + pose proof (li_full_le fr h Hfull) as L.
        split; [apply li_zeros_ok|]. split; [|split].
        * intros _. split; [apply li_zeros_zero | exact L].
        * intros E. exfalso. apply E. reflexivity.
        * intros i Hi Hfr. exfalso. lia.
      + split; [apply li_ones_ok|]. split; [|split].
        * intros E. discriminate E.
        * intros _. split; [|lia]. unfold ones_bf. rewrite bp_count_zeros_repeat1. reflexivity.
        * intros i Hi Hfr. rewrite li_ones_bits. apply N.ltb_lt. exact Hi.
    - intros h e He Hb.
      assert (He' : ent (reserve_all g fr) (N.of_nat h) = Some e) by (unfold ent, nn; rewrite Nat2N.id; exact He).
      assert (Hb' : bf (reserve_all g fr) (N.of_nat h) = None) by (unfold bf, nn; rewrite Nat2N.id; exact Hb).
      clear He Hb. revert He' Hb'. generalize (N.of_nat h). clear h. intros h He Hb.
      rewrite li_reserve_all_ent in He. rewrite li_reserve_all_bf in Hb.
      destruct (h <? ntab g fr * THUGE g); [|discriminate]. injection He as <-.
      destruct (N.ltb_spec h (nbf g fr)) as [|Hn]; [discriminate|].
      destruct (N.ltb_spec h (fr / HF g)) as [Hfull|]; [|reflexivity].
      pose proof (li_full_lt_nbf fr h Hfull). lia.
  Qed.

  (* every managed frame is allocated ... *)
  Theorem reserve_all_alloc fr : o_alloc (abs g (reserve_all g fr)) = ones fr.
  Proof.
    pose proof (HF_pos g) as HP.
    apply N.bits_inj. intros i. rewrite (abs_alloc_testbit g WF _ (reserve_all_inv fr)).
    unfold alloc_at, ones. change (frames (reserve_all g fr)) with fr.
    destruct (N.ltb_spec i fr) as [Hi|Hi]; [|rewrite N.ones_spec_high by assumption; reflexivity].
    rewrite N.ones_spec_low by assumption. cbn [andb].
    pose proof (frame_lt_nbf g fr i Hi) as Hn. pose proof (nbf_le_ntab g fr) as Hnt.
    rewrite li_reserve_all_ent, li_reserve_all_bf.
    destruct (N.ltb_spec (i / HF g) (ntab g fr * THUGE g)); [|lia].
    destruct (N.ltb_spec (i / HF g) (nbf g fr)); [|lia].
    destruct (N.ltb_spec (i / HF g) (fr / HF g)).
    - reflexivity.
    - rewrite li_ones_bits. change (e_huge 0) with false. cbn [orb]. apply N.ltb_lt. apply N.mod_lt. lia.
  Qed.

  (* ... and exactly the huge frames that lie entirely in the range are allocated whole *)
  Theorem reserve_all_whole fr : o_whole (abs g (reserve_all g fr)) = ones (fr / HF g).
  Proof.
    apply N.bits_inj. intros h. rewrite abs_whole_testbit_gen. unfold whole_at, ones.
    rewrite li_reserve_all_ent, li_reserve_all_bf. pose proof (nbf_le_ntab g fr) as Hnt.
    destruct (N.ltb_spec h (fr / HF g)) as [Hfull|Hp].
    - rewrite N.ones_spec_low by assumption. pose proof (li_full_lt_nbf fr h Hfull).
      destruct (N.ltb_spec h (ntab g fr * THUGE g)); [|lia].
      destruct (N.ltb_spec h (nbf g fr)); [|lia]. reflexivity.
    - rewrite N.ones_spec_high by assumption.
      destruct (h <? ntab g fr * THUGE g); [|reflexivity]. change (e_huge 0) with false.
      destruct (h <? nbf g fr); reflexivity.
  Qed.

  Theorem reserve_all_exact_free fr : exact_free (abs g (reserve_all g fr)) = 0.
  Proof.
    unfold exact_free. rewrite reserve_all_alloc. cbn [o_frames abs frames reserve_all].
    unfold ones. rewrite popcount_ones. lia.
  Qed.
End Init.
