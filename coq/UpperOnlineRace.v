(* Why `change_tree(.., Online)` is excluded from the concurrent theorems of UpperConcProps.v (`sched_valid` requires
   `change_ok`: no Online): the exclusion is NECESSARY.  Trees::change with Online on an unreserved entry whose counter is 0
   (an offline tree, but just as well an entirely allocated online tree) evaluates `fetch_free` = the lower allocator's
   free count of the tree and stores it into the counter.  A concurrent put into the same tree that has already freed
   its frame in the lower allocator but not yet incremented the tree counter is then counted twice.

   Witness on machine M2 (vm_compute): one tree of 256 frames, everything allocated; thread 0 frees frame 0, thread 1
   brings tree 0 "online" between the lower free and the counter increment.  At the end no call is in flight, nothing
   panicked, the tree counter says 2 and exactly 1 frame is free: the accounting invariant is broken (and stays
   broken: tree_stats over-reports, validate() fails).

   C04 quantifies over the interleavings of C01, which contain concurrent tree changes: the scenario group `online-race`
   (schedrun --api upper --scenario online-race: u-online-vs-put, u-online-vs-get-noslot, ...) shows the same end state
   on the compiled code; it is known finding D16 (DESIGN.md 11.2, known_findings.json).  C03 quantifies over concurrent
   get / put / drain / targeted allocations only, C15 over sequential histories. *)
From LLF Require Import Base Row Bitfield Lower Spec Sorted Upper UpperInvDef UpperPrims LowerMachine ConcBase ConcInvDef
  Policies UpperMachine UpperConcInvDef UpperConcProps.

Definition g7 : geom := {| hord := 7; tlog := 1 |}.          (* HF = 128, TF = 256 *)
Definition simple7 := pol_simple 256.
Definition u0 : upper :=
  match llfree_new g7 256 IAllocAll [(0, 1)] 0 (free_all g7 256) [] (repeat slot_none 16) with
  | Ok u => u
  | _ => {| low := free_all g7 0; trees := []; locals := []; dflt := 0 |}
  end.
Definition rq0 := {| r_order := 0%nat; r_class := 0; r_local := None |}.
Definition put0 := UPut 0 rq0.
Definition online0 := UChange {| m_id := Some 0; m_class := None; m_free := 0 |} {| c_class := None; c_op := Some OpOnline |}.
Definition race : list (nat * ucall) :=
  repeat (0%nat, put0) 10 ++ repeat (1%nat, online0) 5 ++ repeat (0%nat, put0) 2.
Definition s_end := urun g7 simple7 race (uboot u0 (alloc_all_held g7 256) 2).

Theorem conc_online_put_double_count :
  upper_invb g7 simple7 (ustate_new u0) = true /\                  (* consistent start *)
  upanicked s_end = [] /\ forallb (fun x => match x with UIdle (Some _) => true | _ => false end) (m2_pool s_end) = true /\  (* both calls returned, nothing panicked *)
  map t_free (trees (m2_up s_end)) = [2] /\                        (* the tree counter ... *)
  tree_free g7 (low (m2_up s_end)) 0 = 1 /\                        (* ... and the frames actually free *)
  ~ UpperInv g7 simple7 (ustate_new (m2_up s_end)).
Proof.
  split; [vm_compute; reflexivity|]. split; [vm_compute; reflexivity|]. split; [vm_compute; reflexivity|].
  split; [vm_compute; reflexivity|]. split; [vm_compute; reflexivity|].
  intros (_ & _ & _ & _ & _ & H & _).
  assert (E : exists t, nth_error (trees (m2_up s_end)) 0 = Some t /\ t_free t = 2 /\ nth 0 (off (ustate_new (m2_up s_end))) 0 = 0
              /\ tree_free g7 (low (us (ustate_new (m2_up s_end)))) 0 = 1).
  { vm_compute. eexists. repeat split. }
  destruct E as (t & Et & Ef & Eo & El). destruct (H 0%nat t Et) as (_ & C & _). cbv zeta in C.
  change (N.of_nat 0) with 0 in C. rewrite Ef, Eo, El in C.
  lia.
Qed.
Print Assumptions conc_online_put_double_count.

(* The consequence for later calls: after the race the client frees everything it still holds (sequentially, through
   thread 0).  The over-counted tree counter then exceeds TREE_FRAMES and the last free of a HELD block panics in
   Tree::put's `free <= TREE_FRAMES` assertion (site STreeFree; trees.rs:337 on the compiled code). *)
Definition idle0 (s : m2state) : bool := match nth_error (m2_pool s) 0 with Some (UIdle _) => true | _ => false end.
Fixpoint free_all_held (fuel : nat) (s : m2state) : m2state :=
  match fuel with
  | O => s
  | S fuel' =>
      if idle0 s then
        match m2_held s with
        | [] => s
        | (f, k) :: _ => free_all_held fuel' (fst (ustep g7 simple7 s 0%nat (UPut f {| r_order := k; r_class := 0; r_local := None |})))
        end
      else free_all_held fuel' (fst (ustep g7 simple7 s 0%nat put0))
  end.
Definition s_after := free_all_held 4000 s_end.

Theorem conc_online_put_later_free_panics :
  upanicked s_after = [STreeFree] /\
  nth_error (m2_pool s_after) 0 = Some (UPanic STreeFree (UPut 128 {| r_order := 7%nat; r_class := 0; r_local := None |})) /\
  In (128, 7%nat) (m2_held s_end).                (* the block whose free panics was held *)
Proof. split; [vm_compute; reflexivity|]. split; [vm_compute; reflexivity|]. vm_compute. tauto. Qed.
Print Assumptions conc_online_put_later_free_panics.
