(* Generic lemmas for the concurrent invariant of the lower machine (M1):
   N-valued sums over lists and over index ranges, list update facts, powers of two, index arithmetic
   of the (huge frame, row, bit) decomposition, and bit-level facts about 64-bit rows. *)
From LLF Require Import Base BitLemmas Row RowProofs Bitfield Lower Spec LowerMachine.
From Coq Require Import ZArith ZifyClasses ZifyN ZifyBool.

(* ---------- lia support for N.b2n ---------- *)
Lemma Nb2n_b2z x : Z.of_N (N.b2n x) = Z.b2z x. Proof. destruct x; reflexivity. Qed.
#[global] Instance Op_Nb2n : UnOp N.b2n := { TUOp := Z.b2z; TUOpInj := Nb2n_b2z }.
Add Zify UnOp Op_Nb2n.
Notation b2n := N.b2n.

Lemma b2n_le1 b : b2n b <= 1. Proof. lia. Qed.
Lemma b2n_true b : 1 <= b2n b -> b = true. Proof. lia. Qed.

(* ---------- sums over lists ---------- *)
Definition sumf {A} (f : A -> N) (l : list A) : N := fold_right (fun p a => f p + a) 0 l.

Lemma sumf_nil {A} (f : A -> N) : sumf f [] = 0. Proof. reflexivity. Qed.
Lemma sumf_cons {A} (f : A -> N) a l : sumf f (a :: l) = f a + sumf f l. Proof. reflexivity. Qed.

Lemma sumf_upd {A} (f : A -> N) l t p x : nth_error l t = Some x ->
  sumf f (upd l t p) + f x = sumf f l + f p.
Proof.
  revert t; induction l as [|a r IH]; destruct t; cbn [nth_error upd]; intros H; try discriminate.
  - inversion H; subst. rewrite !sumf_cons. lia.
  - rewrite !sumf_cons. specialize (IH t H). lia.
Qed.
Lemma sumf_ge {A} (f : A -> N) l t x : nth_error l t = Some x -> f x <= sumf f l.
Proof.
  revert t; induction l as [|a r IH]; destruct t; cbn [nth_error]; intros H; try discriminate.
  - inversion H; subst. rewrite sumf_cons. lia.
  - rewrite sumf_cons. specialize (IH t H). lia.
Qed.
Lemma sumf_ge_in {A} (f : A -> N) l x : In x l -> f x <= sumf f l.
Proof. induction l as [|a r IH]; cbn [In]; intros H; [tauto|]. rewrite sumf_cons. destruct H as [->|H]; [lia|specialize (IH H); lia]. Qed.
Lemma sumf_ext_in {A} (f g : A -> N) l : (forall x, In x l -> f x = g x) -> sumf f l = sumf g l.
Proof. induction l; intros H; [reflexivity|]. rewrite !sumf_cons, (H a), IHl; auto using in_eq, in_cons. Qed.
Lemma sumf_le_in {A} (f g : A -> N) l : (forall x, In x l -> f x <= g x) -> sumf f l <= sumf g l.
Proof. induction l; intros H; [reflexivity|]. rewrite !sumf_cons. pose proof (H a (in_eq _ _)).
  specialize (IHl (fun x Hx => H x (in_cons _ _ _ Hx))). lia. Qed.
Lemma sumf_add {A} (f g : A -> N) l : sumf (fun x => f x + g x) l = sumf f l + sumf g l.
Proof. induction l; [reflexivity|]. rewrite !sumf_cons, IHl. lia. Qed.
Lemma sumf_mulc {A} (f : A -> N) c l : sumf (fun x => c * f x) l = c * sumf f l.
Proof. induction l; [rewrite !sumf_nil; lia|]. rewrite !sumf_cons, IHl. lia. Qed.
Lemma sumf_swap {A C} (f : A -> C -> N) (la : list A) (lc : list C) :
  sumf (fun a => sumf (f a) lc) la = sumf (fun c => sumf (fun a => f a c) la) lc.
Proof. induction la.
  - rewrite sumf_nil. induction lc; [reflexivity|]. rewrite sumf_cons, <- IHlc. reflexivity.
  - rewrite sumf_cons, IHla, <- sumf_add. reflexivity. Qed.
Lemma sumf_zero {A} (f : A -> N) l : sumf f l = 0 -> forall x, In x l -> f x = 0.
Proof. induction l; intros H x Hx; [destruct Hx|]. rewrite sumf_cons in H.
  destruct Hx as [->|Hx]; [lia|apply IHl; [lia|exact Hx]]. Qed.
Lemma sumf_all_zero {A} (f : A -> N) l : (forall x, In x l -> f x = 0) -> sumf f l = 0.
Proof. induction l; intros H; [reflexivity|]. rewrite sumf_cons, (H a (in_eq _ _)), IHl; auto using in_cons. Qed.
Lemma sumf_map {A C} (f : C -> N) (g : A -> C) l : sumf f (map g l) = sumf (fun x => f (g x)) l.
Proof. induction l; [reflexivity|]. cbn [map]. rewrite !sumf_cons, IHl. reflexivity. Qed.
Lemma sumf_app {A} (f : A -> N) l1 l2 : sumf f (l1 ++ l2) = sumf f l1 + sumf f l2.
Proof. induction l1; [reflexivity|]. cbn [app]. rewrite !sumf_cons, IHl1. lia. Qed.
Lemma sumf_repeat_zero {A} (f : A -> N) x n : f x = 0 -> sumf f (repeat x n) = 0.
Proof. intros H; induction n; [reflexivity|]. cbn [repeat]. rewrite sumf_cons, H, IHn. reflexivity. Qed.

(* ---------- sums over index ranges 0 <= x < n ---------- *)
Definition nseq (n : N) : list N := map N.of_nat (seq 0 (N.to_nat n)).
Definition ssum (n : N) (g : N -> N) : N := sumf g (nseq n).

Lemma in_nseq n x : In x (nseq n) <-> x < n.
Proof. unfold nseq. rewrite in_map_iff. split.
  - intros (k & <- & Hk). apply in_seq in Hk. lia.
  - intros H. exists (N.to_nat x). split; [lia|]. apply in_seq. lia. Qed.
Lemma nseq_succ n : nseq (n + 1) = nseq n ++ [n].
Proof. unfold nseq. replace (N.to_nat (n + 1)) with (S (N.to_nat n)) by lia.
  rewrite seq_S, map_app. cbn [map plus]. rewrite N2Nat.id. reflexivity. Qed.
Lemma ssum_0 g : ssum 0 g = 0. Proof. reflexivity. Qed.
Lemma ssum_succ n g : ssum (n + 1) g = ssum n g + g n.
Proof. unfold ssum. rewrite nseq_succ, sumf_app, sumf_cons, sumf_nil. lia. Qed.
Lemma ssum_ext n g h : (forall i, i < n -> g i = h i) -> ssum n g = ssum n h.
Proof. intros H. apply sumf_ext_in. intros x Hx. apply in_nseq in Hx. auto. Qed.
Lemma ssum_le n g h : (forall i, i < n -> g i <= h i) -> ssum n g <= ssum n h.
Proof. intros H. apply sumf_le_in. intros x Hx. apply in_nseq in Hx. auto. Qed.
Lemma ssum_add n g h : ssum n (fun i => g i + h i) = ssum n g + ssum n h.
Proof. apply sumf_add. Qed.
Lemma ssum_mulc n c g : ssum n (fun i => c * g i) = c * ssum n g.
Proof. apply sumf_mulc. Qed.
Lemma ssum_zero n g : ssum n g = 0 -> forall i, i < n -> g i = 0.
Proof. intros H i Hi. apply (sumf_zero _ _ H). apply in_nseq. exact Hi. Qed.
Lemma ssum_ge n g i : i < n -> g i <= ssum n g.
Proof. intros Hi. apply sumf_ge_in. apply in_nseq. exact Hi. Qed.
Lemma ssum_sumf {A} n (f : N -> A -> N) (l : list A) :
  ssum n (fun i => sumf (f i) l) = sumf (fun p => ssum n (fun i => f i p)) l.
Proof. apply sumf_swap. Qed.

Lemma ssum_ind (P : N -> Prop) : P 0 -> (forall n, P n -> P (n + 1)) -> forall n, P n.
Proof. intros H0 HS n. induction n using N.peano_ind; [exact H0|]. rewrite <- N.add_1_r. auto. Qed.

Lemma ssum_const n c : ssum n (fun _ => c) = n * c.
Proof. induction n using ssum_ind; [reflexivity|]. rewrite ssum_succ, IHn. lia. Qed.
(* number of indices below n inside [lo, lo+cnt) *)
Definition inb (lo cnt x : N) : bool := (lo <=? x) && (x <? lo + cnt).
Lemma ssum_inb n lo cnt : ssum n (fun x => b2n (inb lo cnt x)) = N.min (lo + cnt) n - N.min lo n.
Proof. unfold inb. induction n using ssum_ind; [rewrite ssum_0; lia|]. rewrite ssum_succ, IHn. lia. Qed.
Lemma ssum_inb_in n lo cnt : lo + cnt <= n -> ssum n (fun x => b2n (inb lo cnt x)) = cnt.
Proof. intros H. rewrite ssum_inb. lia. Qed.
Lemma ssum_eqb n k : ssum n (fun x => b2n (x =? k)) = b2n (k <? n).
Proof. induction n using ssum_ind; [rewrite ssum_0; lia|]. rewrite ssum_succ, IHn. lia. Qed.

(* a double sum over (r, i), i < C, is a single sum over r * C + i *)
Lemma ssum_shift n m g : ssum (n + m) g = ssum n g + ssum m (fun i => g (n + i)).
Proof. induction m using ssum_ind.
  - rewrite N.add_0_r, ssum_0. lia.
  - rewrite N.add_assoc, !ssum_succ, IHm. lia. Qed.
Lemma ssum_flatten R C g : ssum R (fun r => ssum C (fun i => g (r * C + i))) = ssum (R * C) g.
Proof. induction R using ssum_ind; [reflexivity|].
  rewrite ssum_succ, IHR. replace ((R + 1) * C) with (R * C + C) by lia. rewrite ssum_shift. reflexivity. Qed.

(* ---------- lists ---------- *)
Lemma Forall_upd {A} (P : A -> Prop) l t x : Forall P l -> P x -> Forall P (upd l t x).
Proof. intros H; revert t; induction H; destruct t; cbn [upd]; intros; constructor; auto. Qed.
Lemma Forall_nth_error {A} (P : A -> Prop) l t x : Forall P l -> nth_error l t = Some x -> P x.
Proof. intros H; revert t; induction H; destruct t; cbn [nth_error]; intros E; try discriminate;
  [inversion E; subst; auto|eauto]. Qed.
Lemma nth_error_upd {A} (l : list A) i j x :
  nth_error (upd l i x) j = if Nat.eqb i j then (if Nat.ltb i (length l) then Some x else None) else nth_error l j.
Proof.
  destruct (Nat.eqb_spec i j) as [<-|Hne].
  - destruct (Nat.ltb_spec i (length l)).
    + apply nth_error_upd_same; assumption.
    + rewrite upd_oob by assumption. apply nth_error_None. assumption.
  - apply nth_error_upd_other; assumption.
Qed.
Lemma nth_error_repeat {A} (x : A) n i : (i < n)%nat -> nth_error (repeat x n) i = Some x.
Proof. revert i; induction n; destruct i; cbn [repeat nth_error]; intros; try lia; auto. apply IHn; lia. Qed.
Lemma nth_error_some_lt {A} (l : list A) i x : nth_error l i = Some x -> (i < length l)%nat.
Proof. intros H. apply nth_error_Some. congruence. Qed.
