(* Generic lemmas for the concurrent invariant of the lower machine (M1):
   N-valued sums over lists and over index ranges, list update facts, powers of two, index arithmetic
   of the (huge frame, row, bit) decomposition, and bit-level facts about 64-bit rows. *)
From LLF Require Import Base BitLemmas Row RowProofs Bitfield Lower Spec LowerMachine.
From Coq Require Import ZArith ZifyClasses ZifyN ZifyBool.

(* ---------- lia support for N.b2n ---------- *)
Lemma Nb2n_b2z x : Z.of_N (N.b2n x) = Z.b2z x. Proof. destruct x; reflexivity. Qed.
#[global] Instance Op_Nb2n : UnOp N.b2n := { TUOp := Z.b2z; TUOpInj := Nb2n_b2z }.
Add Zify UnOp Op_Nb2n.
Notation b2n := N.b2n.

Lemma b2n_le1 b : b2n b <= 1. Proof. lia. Qed.
Lemma b2n_true b : 1 <= b2n b -> b = true. Proof. lia. Qed.

(* ---------- sums over lists ---------- *)
Definition sumf {A} (f : A -> N) (l : list A) : N := fold_right (fun p a => f p + a) 0 l.

Lemma sumf_nil {A} (f : A -> N) : sumf f [] = 0. Proof. reflexivity. Qed.
Lemma sumf_cons {A} (f : A -> N) a l : sumf f (a :: l) = f a + sumf f l. Proof. reflexivity. Qed.

Lemma sumf_upd {A} (f : A -> N) l t p x : nth_error l t = Some x ->
  sumf f (upd l t p) + f x = sumf f l + f p.
Proof.
  revert t; induction l as [|a r IH]; destruct t; cbn [nth_error upd]; intros H; try discriminate.
  - inversion H; subst. rewrite !sumf_cons. lia.
  - rewrite !sumf_cons. specialize (IH t H). lia.
Qed.
Lemma sumf_ge {A} (f : A -> N) l t x : nth_error l t = Some x -> f x <= sumf f l.
Proof.
  revert t; induction l as [|a r IH]; destruct t; cbn [nth_error]; intros H; try discriminate.
  - inversion H; subst. rewrite sumf_cons. lia.
  - rewrite sumf_cons. specialize (IH t H). lia.
Qed.
Lemma sumf_ge_in {A} (f : A -> N) l x : In x l -> f x <= sumf f l.
Proof. induction l as [|a r IH]; cbn [In]; intros H; [tauto|]. rewrite sumf_cons. destruct H as [->|H]; [lia|specialize (IH H); lia]. Qed.
Lemma sumf_ext_in {A} (f g : A -> N) l : (forall x, In x l -> f x = g x) -> sumf f l = sumf g l.
Proof. induction l; intros H; [reflexivity|]. rewrite !sumf_cons, (H a), IHl; auto using in_eq, in_cons. Qed.
Lemma sumf_le_in {A} (f g : A -> N) l : (forall x, In x l -> f x <= g x) -> sumf f l <= sumf g l.
Proof. induction l; intros H; [reflexivity|]. rewrite !sumf_cons. pose proof (H a (in_eq _ _)).
  specialize (IHl (fun x Hx => H x (in_cons _ _ _ Hx))). lia. Qed.
Lemma sumf_add {A} (f g : A -> N) l : sumf (fun x => f x + g x) l = sumf f l + sumf g l.
Proof. induction l; [reflexivity|]. rewrite !sumf_cons, IHl. lia. Qed.
Lemma sumf_mulc {A} (f : A -> N) c l : sumf (fun x => c * f x) l = c * sumf f l.
Proof. induction l; [rewrite !sumf_nil; lia|]. rewrite !sumf_cons, IHl. lia. Qed.
Lemma sumf_swap {A C} (f : A -> C -> N) (la : list A) (lc : list C) :
  sumf (fun a => sumf (f a) lc) la = sumf (fun c => sumf (fun a => f a c) la) lc.
Proof. induction la.
  - rewrite sumf_nil. induction lc; [reflexivity|]. rewrite sumf_cons, <- IHlc. reflexivity.
  - rewrite sumf_cons, IHla, <- sumf_add. reflexivity. Qed.
Lemma sumf_zero {A} (f : A -> N) l : sumf f l = 0 -> forall x, In x l -> f x = 0.
Proof. induction l; intros H x Hx; [destruct Hx|]. rewrite sumf_cons in H.
  destruct Hx as [->|Hx]; [lia|apply IHl; [lia|exact Hx]]. Qed.
Lemma sumf_all_zero {A} (f : A -> N) l : (forall x, In x l -> f x = 0) -> sumf f l = 0.
Proof. induction l; intros H; [reflexivity|]. rewrite sumf_cons, (H a (in_eq _ _)), IHl; auto using in_cons. Qed.
Lemma sumf_map {A C} (f : C -> N) (g : A -> C) l : sumf f (map g l) = sumf (fun x => f (g x)) l.
Proof. induction l; [reflexivity|]. cbn [map]. rewrite !sumf_cons, IHl. reflexivity. Qed.
Lemma sumf_app {A} (f : A -> N) l1 l2 : sumf f (l1 ++ l2) = sumf f l1 + sumf f l2.
Proof. induction l1; [reflexivity|]. cbn [app]. rewrite !sumf_cons, IHl1. lia. Qed.
Lemma sumf_repeat_zero {A} (f : A -> N) x n : f x = 0 -> sumf f (repeat x n) = 0.
Proof. intros H; induction n; [reflexivity|]. cbn [repeat]. rewrite sumf_cons, H, IHn. reflexivity. Qed.

(* ---------- sums over index ranges 0 <= x < n ---------- *)
Definition nseq (n : N) : list N := map N.of_nat (seq 0 (N.to_nat n)).
Definition ssum (n : N) (g : N -> N) : N := sumf g (nseq n).

Lemma in_nseq n x : In x (nseq n) <-> x < n.
Proof. unfold nseq. rewrite in_map_iff. split.
  - intros (k & <- & Hk). apply in_seq in Hk. lia.
  - intros H. exists (N.to_nat x). split; [lia|]. apply in_seq. lia. Qed.
Lemma nseq_succ n : nseq (n + 1) = nseq n ++ [n].
Proof. unfold nseq. replace (N.to_nat (n + 1)) with (S (N.to_nat n)) by lia.
  rewrite seq_S, map_app. cbn [map plus]. rewrite N2Nat.id. reflexivity. Qed.
Lemma ssum_0 g : ssum 0 g = 0. Proof. reflexivity. Qed.
Lemma ssum_succ n g : ssum (n + 1) g = ssum n g + g n.
Proof. unfold ssum. rewrite nseq_succ, sumf_app, sumf_cons, sumf_nil. lia. Qed.
Lemma ssum_ext n g h : (forall i, i < n -> g i = h i) -> ssum n g = ssum n h.
Proof. intros H. apply sumf_ext_in. intros x Hx. apply in_nseq in Hx. auto. Qed.
Lemma ssum_le n g h : (forall i, i < n -> g i <= h i) -> ssum n g <= ssum n h.
Proof. intros H. apply sumf_le_in. intros x Hx. apply in_nseq in Hx. auto. Qed.
Lemma ssum_add n g h : ssum n (fun i => g i + h i) = ssum n g + ssum n h.
Proof. apply sumf_add. Qed.
Lemma ssum_mulc n c g : ssum n (fun i => c * g i) = c * ssum n g.
Proof. apply sumf_mulc. Qed.
Lemma ssum_zero n g : ssum n g = 0 -> forall i, i < n -> g i = 0.
Proof. intros H i Hi. apply (sumf_zero _ _ H). apply in_nseq. exact Hi. Qed.
Lemma ssum_ge n g i : i < n -> g i <= ssum n g.
Proof. intros Hi. apply sumf_ge_in. apply in_nseq. exact Hi. Qed.
Lemma ssum_sumf {A} n (f : N -> A -> N) (l : list A) :
  ssum n (fun i => sumf (f i) l) = sumf (fun p => ssum n (fun i => f i p)) l.
Proof. apply sumf_swap. Qed.

Lemma ssum_ind (P : N -> Prop) : P 0 -> (forall n, P n -> P (n + 1)) -> forall n, P n.
Proof. intros H0 HS n. induction n using N.peano_ind; [exact H0|]. rewrite <- N.add_1_r. auto. Qed.

Lemma ssum_const n c : ssum n (fun _ => c) = n * c.
Proof. induction n using ssum_ind; [reflexivity|]. rewrite ssum_succ, IHn. lia. Qed.
(* number of indices below n inside [lo, lo+cnt) *)
Definition inb (lo cnt x : N) : bool := (lo <=? x) && (x <? lo + cnt).
Lemma ssum_inb n lo cnt : ssum n (fun x => b2n (inb lo cnt x)) = N.min (lo + cnt) n - N.min lo n.
Proof. unfold inb. induction n using ssum_ind; [rewrite ssum_0; lia|]. rewrite ssum_succ, IHn. lia. Qed.
Lemma ssum_inb_in n lo cnt : lo + cnt <= n -> ssum n (fun x => b2n (inb lo cnt x)) = cnt.
Proof. intros H. rewrite ssum_inb. lia. Qed.
Lemma ssum_eqb n k : ssum n (fun x => b2n (x =? k)) = b2n (k <? n).
Proof. induction n using ssum_ind; [rewrite ssum_0; lia|]. rewrite ssum_succ, IHn. lia. Qed.

(* a double sum over (r, i), i < C, is a single sum over r * C + i *)
Lemma ssum_shift n m g : ssum (n + m) g = ssum n g + ssum m (fun i => g (n + i)).
Proof. induction m using ssum_ind.
  - rewrite N.add_0_r, ssum_0. lia.
  - rewrite N.add_assoc, !ssum_succ, IHm. lia. Qed.
Lemma ssum_flatten R C g : ssum R (fun r => ssum C (fun i => g (r * C + i))) = ssum (R * C) g.
Proof. induction R using ssum_ind; [reflexivity|].
  rewrite ssum_succ, IHR. replace ((R + 1) * C) with (R * C + C) by lia. rewrite ssum_shift. reflexivity. Qed.

(* ---------- lists ---------- *)
Lemma Forall_upd {A} (P : A -> Prop) l t x : Forall P l -> P x -> Forall P (upd l t x).
Proof. intros H; revert t; induction H; destruct t; cbn [upd]; intros; constructor; auto. Qed.
Lemma Forall_nth_error {A} (P : A -> Prop) l t x : Forall P l -> nth_error l t = Some x -> P x.
Proof. intros H; revert t; induction H; destruct t; cbn [nth_error]; intros E; try discriminate;
  [inversion E; subst; auto|eauto]. Qed.
Lemma nth_error_upd {A} (l : list A) i j x :
  nth_error (upd l i x) j = if Nat.eqb i j then (if Nat.ltb i (length l) then Some x else None) else nth_error l j.
Proof.
  destruct (Nat.eqb_spec i j) as [<-|Hne].
  - destruct (Nat.ltb_spec i (length l)).
    + apply nth_error_upd_same; assumption.
    + rewrite upd_oob by assumption. apply nth_error_None. assumption.
  - apply nth_error_upd_other; assumption.
Qed.
Lemma nth_error_repeat {A} (x : A) n i : (i < n)%nat -> nth_error (repeat x n) i = Some x.
Proof. revert i; induction n; destruct i; cbn [repeat nth_error]; intros; try lia; auto. apply IHn; lia. Qed.
Lemma nth_error_some_lt {A} (l : list A) i x : nth_error l i = Some x -> (i < length l)%nat.
Proof. intros H. apply nth_error_Some. congruence. Qed.

(* ---------- powers of two, geometry ---------- *)
Lemma pow2_pos k : 0 < pow2 k.
Proof. unfold pow2. apply N.neq_0_lt_0, N.pow_nonzero. discriminate. Qed.
Lemma pow2_nz k : pow2 k <> 0. Proof. pose proof (pow2_pos k). lia. Qed.
Lemma pow2_0 : pow2 0 = 1. Proof. reflexivity. Qed.
Lemma pow2_S k : pow2 (S k) = 2 * pow2 k.
Proof. unfold pow2. rewrite Nat2N.inj_succ, N.pow_succ_r'. reflexivity. Qed.
Lemma pow2_add a b : pow2 (a + b) = pow2 a * pow2 b.
Proof. unfold pow2. rewrite Nat2N.inj_add, N.pow_add_r. reflexivity. Qed.
Lemma pow2_le a b : (a <= b)%nat -> pow2 a <= pow2 b.
Proof. intros H. unfold pow2. apply N.pow_le_mono_r; lia. Qed.
Lemma pow2_lt a b : (a < b)%nat -> pow2 a < pow2 b.
Proof. intros H. unfold pow2. apply N.pow_lt_mono_r; lia. Qed.
Lemma pow2_split a b : (a <= b)%nat -> pow2 b = pow2 (b - a) * pow2 a.
Proof. intros H. rewrite <- pow2_add. f_equal. lia. Qed.
Lemma pow2_6 : pow2 6 = 64. Proof. reflexivity. Qed.

Section Geom.
  Variable g : geom.
  Hypothesis wf : wf_geom g.
  Notation HF := (HF g).
  Notation TF := (TF g).
  Notation THUGE := (THUGE g).
  Notation ROWS := (ROWS g).

  Lemma HF_pow2 : HF = pow2 (hord g). Proof. reflexivity. Qed.
  Lemma THUGE_pow2 : THUGE = pow2 (tlog g). Proof. reflexivity. Qed.
  Lemma TF_pow2 : TF = pow2 (tord g). Proof. unfold TF, tord. rewrite Nat.add_comm, pow2_add. reflexivity. Qed.
  Lemma HF_64 : HF = 64 * ROWS.
  Proof. destruct wf as (H6 & _). unfold Bitfield.ROWS. rewrite HF_pow2, (pow2_split 6 (hord g)) by lia.
    rewrite pow2_6, N.div_mul by discriminate. lia. Qed.
  Lemma ROWS_pow2 : ROWS = pow2 (hord g - 6).
  Proof. destruct wf as (H6 & _). unfold Bitfield.ROWS. rewrite HF_pow2, (pow2_split 6 (hord g)) by lia.
    rewrite pow2_6, N.div_mul by discriminate. reflexivity. Qed.
  Lemma ROWS_pos : 0 < ROWS. Proof. rewrite ROWS_pow2. apply pow2_pos. Qed.
  Lemma HF_pos : 0 < HF. Proof. apply pow2_pos. Qed.
  Lemma THUGE_pos : 0 < THUGE. Proof. apply pow2_pos. Qed.
  Lemma TF_pos : 0 < TF. Proof. rewrite TF_pow2. apply pow2_pos. Qed.
  Lemma HF_lt_MARK : HF < MARK.
  Proof. destruct wf as (_ & H15 & _). rewrite HF_pow2. pose proof (pow2_le _ _ H15). change (pow2 15) with 32768 in H.
    unfold MARK. lia. Qed.
  Lemma ROWS_nat : ROWS = N.of_nat (rows_nat g).
  Proof. rewrite ROWS_pow2. unfold rows_nat, pow2. rewrite Nat2N.inj_pow. reflexivity. Qed.
  Lemma pow2_le_HF k : (k <= hord g)%nat -> pow2 k <= HF. Proof. apply pow2_le. Qed.
  Lemma pow2_lt_HF k : (k < hord g)%nat -> pow2 k < HF. Proof. apply pow2_lt. Qed.

  (* ----- the (huge frame, row, bit) decomposition of a frame number ----- *)
  Lemma rowbit_lt r i : r < ROWS -> i < 64 -> r * 64 + i < HF.
  Proof. intros. rewrite HF_64. nia. Qed.

  (* an interval inside huge frame h0 *)
  Lemma inb_in_huge h0 b0 w h b : b0 + w <= HF -> b < HF ->
    inb (h0 * HF + b0) w (h * HF + b) = (h =? h0) && inb b0 w b.
  Proof.
    intros Hw Hb. unfold inb. pose proof HF_pos.
    destruct (N.eqb_spec h h0) as [->|Hne]; [cbn [andb]; lia|].
    cbn [andb]. destruct (N.lt_gt_cases h h0) as [Hn _]. specialize (Hn Hne). destruct Hn as [Hlt|Hgt].
    - assert (h * HF + HF <= h0 * HF) by nia. lia.
    - assert (h0 * HF + HF <= h * HF) by nia. lia.
  Qed.
  (* an interval inside row r0 *)
  Lemma inb_in_row r0 off w r i : off + w <= 64 -> i < 64 ->
    inb (r0 * 64 + off) w (r * 64 + i) = (r =? r0) && inb off w i.
  Proof. intros Hw Hi. unfold inb. lia. Qed.
  (* an interval of whole rows *)
  Lemma inb_rows r0 cnt r i : i < 64 -> inb (r0 * 64) (64 * cnt) (r * 64 + i) = inb r0 cnt r.
  Proof. intros Hi. unfold inb. lia. Qed.
  (* an interval of whole entries *)
  Lemma inb_ents h0 cnt h b : b < HF -> inb (h0 * HF) (cnt * HF) (h * HF + b) = inb h0 cnt h.
  Proof.
    intros Hb. unfold inb. pose proof HF_pos.
    destruct (N.leb_spec h0 h) as [H1|H1]; destruct (N.ltb_spec h (h0 + cnt)) as [H2|H2]; cbn [andb].
    - assert (h0 * HF <= h * HF) by nia. assert (h * HF + HF <= (h0 + cnt) * HF) by nia. lia.
    - assert (h0 * HF <= h * HF) by nia. assert ((h0 + cnt) * HF <= h * HF) by nia. lia.
    - assert (h * HF + HF <= h0 * HF) by nia. lia.
    - assert (h * HF + HF <= h0 * HF) by nia. lia.
  Qed.
End Geom.

(* ---------- bits of a 64-bit row ---------- *)
(* zero bits of a row *)
Definition cz (v : N) : N := ssum 64 (fun i => 1 - b2n (N.testbit v i)).

Lemma cz_le v : cz v <= 64.
Proof. unfold cz. etransitivity; [apply (ssum_le _ _ (fun _ => 1)); intros; lia|]. rewrite ssum_const. lia. Qed.
Lemma cz_0 : cz 0 = 64. Proof. reflexivity. Qed.
Lemma cz_MAX64 : cz MAX64 = 0. Proof. reflexivity. Qed.

Lemma testbit_MAX64 i : N.testbit MAX64 i = (i <? 64).
Proof. rewrite MAX64_ones. destruct (N.ltb_spec i 64); [apply N.ones_spec_low|apply N.ones_spec_high]; lia. Qed.
Lemma row_high v i : v < W64 -> 64 <= i -> N.testbit v i = false.
Proof. intros Hv Hi. apply (testbit_high v 64); [rewrite <- W64_pow; exact Hv|exact Hi]. Qed.
Lemma row_all_set v : v < W64 -> (forall i, i < 64 -> N.testbit v i = true) -> v = MAX64.
Proof. intros Hv H. apply N.bits_inj. intros i. rewrite testbit_MAX64. destruct (N.ltb_spec i 64); [apply H; assumption|].
  apply row_high; assumption. Qed.
Lemma row_all_clear v : v < W64 -> (forall i, i < 64 -> N.testbit v i = false) -> v = 0.
Proof. intros Hv H. apply N.bits_inj. intros i. rewrite N.bits_0. destruct (N.lt_ge_cases i 64); [apply H; assumption|].
  apply row_high; assumption. Qed.

(* effect on the zero count of setting / clearing the bits [off, off+w) *)
Lemma cz_set v v' off w : off + w <= 64 ->
  (forall i, i < 64 -> N.testbit v' i = N.testbit v i || inb off w i) ->
  (forall i, inb off w i = true -> N.testbit v i = false) ->
  cz v' + w = cz v.
Proof.
  intros Hw Hs Hz. unfold cz. rewrite <- (ssum_inb_in 64 off w Hw), <- ssum_add.
  apply ssum_ext. intros i Hi. rewrite (Hs i Hi). specialize (Hz i).
  destruct (inb off w i); [rewrite Hz by reflexivity; cbn; lia|]. rewrite orb_false_r. lia.
Qed.
Lemma cz_clear v v' off w : off + w <= 64 ->
  (forall i, i < 64 -> N.testbit v' i = N.testbit v i && negb (inb off w i)) ->
  (forall i, inb off w i = true -> N.testbit v i = true) ->
  cz v' = cz v + w.
Proof.
  intros Hw Hs Hz. unfold cz. rewrite <- (ssum_inb_in 64 off w Hw), <- ssum_add.
  apply ssum_ext. intros i Hi. rewrite (Hs i Hi). specialize (Hz i).
  destruct (inb off w i); [rewrite Hz by reflexivity; cbn; lia|]. rewrite andb_true_r. lia.
Qed.

(* masks *)
Lemma testbit_mask64 w off i : N.testbit (mask64 w off) i = inb off w i.
Proof.
  unfold mask64, ones, inb.
  destruct (N.leb_spec off i) as [H|H].
  - rewrite N.shiftl_spec_high' by assumption.
    destruct (N.ltb_spec i (off + w)); [rewrite N.ones_spec_low by lia|rewrite N.ones_spec_high by lia]; reflexivity.
  - rewrite N.shiftl_spec_low by assumption. reflexivity.
Qed.
Lemma mask64_lt w off : off + w <= 64 -> mask64 w off < W64.
Proof. intros H. rewrite W64_pow. apply lt_pow2_bits. intros i Hi. rewrite testbit_mask64. unfold inb. lia. Qed.
Lemma land_mask_zero e m : N.land e m = 0 <-> (forall i, N.testbit m i = true -> N.testbit e i = false).
Proof. split.
  - intros H i Hm. assert (T : N.testbit (N.land e m) i = false) by (rewrite H; apply N.bits_0).
    rewrite N.land_spec, Hm, andb_true_r in T. exact T.
  - intros H. apply N.bits_inj. intros i. rewrite N.bits_0, N.land_spec. specialize (H i).
    destruct (N.testbit m i); [rewrite H by reflexivity; reflexivity|apply andb_false_r]. Qed.
Lemma land_mask_full e m : N.land e m = m <-> (forall i, N.testbit m i = true -> N.testbit e i = true).
Proof. split.
  - intros H i Hm. assert (T : N.testbit (N.land e m) i = true) by (rewrite H; exact Hm).
    rewrite N.land_spec, Hm, andb_true_r in T. exact T.
  - intros H. apply N.bits_inj. intros i. rewrite N.land_spec. specialize (H i).
    destruct (N.testbit m i); [rewrite H by reflexivity; reflexivity|apply andb_false_r]. Qed.
Lemma land_lt a b : a < W64 -> N.land a b < W64.
Proof. intros H. rewrite W64_pow in *. apply lt_pow2_bits. intros i Hi. rewrite N.land_spec, (testbit_high a 64 i) by assumption. reflexivity. Qed.
Lemma lxor_lt a b : a < W64 -> b < W64 -> N.lxor a b < W64.
Proof. intros Ha Hb. rewrite W64_pow in *. apply lt_pow2_bits. intros i Hi.
  rewrite N.lxor_spec, (testbit_high a 64 i), (testbit_high b 64 i) by assumption. reflexivity. Qed.
Lemma lor_lt a b : a < W64 -> b < W64 -> N.lor a b < W64.
Proof. rewrite W64_pow. apply lor_lt_pow2. Qed.

(* the lane of a narrow compare-exchange *)
Lemma lane_testbit_sh cur off w j : N.testbit (N.land (N.shiftr cur off) (ones w)) j = N.testbit cur (j + off) && (j <? w).
Proof. unfold ones. rewrite N.land_spec, N.shiftr_spec'.
  destruct (N.ltb_spec j w); [rewrite N.ones_spec_low by assumption|rewrite N.ones_spec_high by assumption]; reflexivity. Qed.
Lemma lane_zero cur off w : N.land (N.shiftr cur off) (ones w) = 0 <-> (forall i, inb off w i = true -> N.testbit cur i = false).
Proof. unfold inb. split.
  - intros H i Hi. assert (T : N.testbit (N.land (N.shiftr cur off) (ones w)) (i - off) = false) by (rewrite H; apply N.bits_0).
    rewrite lane_testbit_sh in T. replace (i - off + off) with i in T by lia.
    destruct (N.ltb_spec (i - off) w); [|lia]. rewrite andb_true_r in T. exact T.
  - intros H. apply N.bits_inj. intros j. rewrite N.bits_0, lane_testbit_sh.
    destruct (N.ltb_spec j w); [|apply andb_false_r]. rewrite H by lia. reflexivity. Qed.
Lemma lane_ones cur off w : N.land (N.shiftr cur off) (ones w) = ones w <-> (forall i, inb off w i = true -> N.testbit cur i = true).
Proof. unfold inb. split.
  - intros H i Hi. assert (T : N.testbit (N.land (N.shiftr cur off) (ones w)) (i - off) = true).
    { rewrite H. unfold ones. apply N.ones_spec_low. lia. }
    rewrite lane_testbit_sh in T. replace (i - off + off) with i in T by lia.
    apply andb_true_iff in T. tauto.
  - intros H. apply N.bits_inj. intros j. rewrite lane_testbit_sh. unfold ones.
    destruct (N.ltb_spec j w); [rewrite N.ones_spec_low by assumption|rewrite N.ones_spec_high by assumption; apply andb_false_r].
    rewrite H by lia. reflexivity. Qed.
Lemma testbit_lxor_mask cur off w i : N.testbit (N.lxor cur (N.shiftl (ones w) off)) i = xorb (N.testbit cur i) (inb off w i).
Proof. rewrite N.lxor_spec. change (N.shiftl (ones w) off) with (mask64 w off). rewrite testbit_mask64. reflexivity. Qed.

(* popcount is the number of set bits (needed once, to read LowerInv's counter at boot) *)
Lemma ssum_double_bits a n : ssum (n + 1) (fun i => b2n (N.testbit (2 * a) i)) = ssum n (fun i => b2n (N.testbit a i)).
Proof.
  rewrite N.add_comm, ssum_shift. change (ssum 1 (fun i => b2n (N.testbit (2 * a) i))) with (b2n (N.testbit (2 * a) 0) + 0).
  rewrite N.testbit_even_0. cbn [b2n]. rewrite N.add_0_l. apply ssum_ext. intros i _.
  rewrite N.add_1_l, N.double_bits_succ. reflexivity. Qed.
Lemma ssum_sdouble_bits a n : ssum (n + 1) (fun i => b2n (N.testbit (2 * a + 1) i)) = 1 + ssum n (fun i => b2n (N.testbit a i)).
Proof.
  rewrite N.add_comm, ssum_shift. change (ssum 1 (fun i => b2n (N.testbit (2 * a + 1) i))) with (b2n (N.testbit (2 * a + 1) 0) + 0).
  rewrite N.testbit_odd_0. cbn [b2n]. rewrite N.add_0_r. f_equal. apply ssum_ext. intros i _.
  rewrite N.add_1_l, N.testbit_odd_succ by lia. reflexivity. Qed.
Lemma popcount_bits n : forall v, v < 2 ^ n -> popcount v = ssum n (fun i => b2n (N.testbit v i)).
Proof.
  induction n using ssum_ind; intros v Hv.
  - change (2 ^ 0) with 1 in Hv. assert (v = 0) by lia. subst. reflexivity.
  - rewrite N.add_1_r, N.pow_succ_r' in Hv.
    destruct (N.even v) eqn:Ev.
    + apply N.even_spec in Ev. destruct Ev as [a ->]. rewrite popcount_double, ssum_double_bits. apply IHn. lia.
    + assert (Ho : N.odd v = true) by (rewrite <- N.negb_even, Ev; reflexivity).
      apply N.odd_spec in Ho. destruct Ho as [a ->]. rewrite popcount_succ_double, ssum_sdouble_bits, <- IHn by lia. lia.
Qed.
Lemma cz_popcount v : v < W64 -> cz v = count_zeros64 v.
Proof.
  intros Hv. unfold count_zeros64, cz. rewrite (popcount_bits 64 v) by (rewrite <- W64_pow; exact Hv).
  assert (H : ssum 64 (fun i => 1 - b2n (N.testbit v i)) + ssum 64 (fun i => b2n (N.testbit v i)) = 64).
  { rewrite <- ssum_add. rewrite (ssum_ext _ _ (fun _ => 1)) by (intros; lia). reflexivity. }
  lia.
Qed.
(* set bits plus zero bits *)
Lemma cz_bits v : ssum 64 (fun i => b2n (N.testbit v i)) + cz v = 64.
Proof. unfold cz. rewrite <- ssum_add. rewrite (ssum_ext _ _ (fun _ => 1)) by (intros; lia). reflexivity. Qed.
