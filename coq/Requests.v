(* The request-building closures and class tables returned by `Classing::simple(cores)` and
   `Classing::movable(cores)` (core/src/lib.rs:269, :300), and the policy of the evaluation crate's JSON
   class configurations (eval/src/classes.rs `ClassingConfig::classing`, nested `policy`).  Definitions only.

   `hord` = HUGE_ORDER (`hord g` of the geometry, 9 or 11).  Rust `core % cores` panics for cores = 0 (N's
   `mod` returns `core`): the facts of RequestProofs.v are stated for 1 <= cores.

   simple_request  = nested `request` of `Classing::simple`:
                     `Request::new(order, Class((order >= HUGE_ORDER) as _), Some(core % cores))`
   movable_request = nested `request` of `Classing::movable`: class 2 for order >= HUGE_ORDER, else 1 if
                     `movable`, else 0; slot `core % cores`
   simple_classing / movable_classing = (`classing.classes()` as (class id, slot count) pairs, `classing.default`)
   pol_json        = the JSON classing's policy: PERFECT = (perfect_lo, perfect_hi), GOOD = (good_lo, good_hi),
                     both inclusive (`Range::contains`: min <= value && value <= max).  The ranges are the values
                     read back from the 32+32-bit packed statics; values >= 2^32 are not representable there
                     (the shipped configurations are far below). *)
From Coq Require Import List NArith.
From LLF Require Import Base Upper.
Import ListNotations.

Definition simple_request (hord : nat) (order core cores : N) : request :=
  {| r_order := N.to_nat order;
     r_class := if N.of_nat hord <=? order then 1 else 0;
     r_local := Some (core mod cores) |}.

Definition movable_request (hord : nat) (order core cores : N) (movable : bool) : request :=
  {| r_order := N.to_nat order;
     r_class := if N.of_nat hord <=? order then 2 else if movable then 1 else 0;
     r_local := Some (core mod cores) |}.

(* (classes, default) *)
Definition simple_classing (cores : N) : list (N * N) * N := ([(0, cores); (1, cores)], 1).
Definition movable_classing (cores : N) : list (N * N) * N := ([(0, cores); (1, cores); (2, cores)], 2).

Definition range_contains (lo hi v : N) : bool := (lo <=? v) && (v <=? hi).

Definition pol_json (perfect_lo perfect_hi good_lo good_hi : N) (requested target free : N) : pol :=
  if target <? requested then PSteal
  else if requested <? target then PDemote
  else if range_contains perfect_lo perfect_hi free then PMatch 255
  else if range_contains good_lo good_hi free then PMatch 2
  else PMatch 1.

(* ---- executable statement of "the request is valid for the classing": its class is configured and its
   slot index (if any) is below that class's slot count.  (With duplicate ids the allocator uses the first
   entry; the two tables above have none.) *)
Fixpoint slots_of (classes : list (N * N)) (c : N) : option N :=
  match classes with
  | [] => None
  | (c', n) :: rest => if c' =? c then Some n else slots_of rest c
  end.

Definition request_valid_b (classes : list (N * N)) (r : request) : bool :=
  match slots_of classes (r_class r) with
  | None => false
  | Some n => match r_local r with None => true | Some j => j <? n end
  end.
