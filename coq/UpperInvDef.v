(* Well-formedness invariant of the whole (sequential) allocator state, with the ghost "hidden by
   offline" amount per tree. Definitions only (Prop version and an executable boolean version). *)
From LLF Require Import Base Row Bitfield Lower Spec Upper.

(* ghost-extended state: off_t = frames of tree t that are free in the lower allocator but hidden
   from the tree counter because the tree was taken offline *)
Record ustate := { us : upper; off : list N }.

Section UpperInv.
  Variable g : geom.
  Variable policy : N -> N -> N -> pol.
  Notation TF := (TF g).

  (* all present slots as (class, slot) *)
  Definition present_slots (u : upper) : list (N * slot) :=
    filter (fun cs => s_pres (snd cs)) (all_slots u).
  Definition slots_of (u : upper) (t : N) : list (N * slot) :=
    filter (fun cs => row_tree g (s_row (snd cs)) =? t) (present_slots u).
  Definition sum_free (l : list (N * slot)) : N := fold_right (fun cs a => s_free (snd cs) + a) 0 l.

  Definition pol_keeps (p : pol) : bool := match p with PMatch _ | PDemote => true | _ => false end.

  (* per tree t *)
  Definition tree_ok (u : upper) (offs : list N) (i : nat) (t : tree) : Prop :=
    let ti := N.of_nat i in
    let sl := slots_of u ti in
    (* U2: reserved iff exactly one slot holds the tree *)
    (if t_res t then length sl = 1%nat else length sl = 0%nat) /\
    (* U3: conservation *)
    t_free t + sum_free sl + nth i offs 0 = tree_free g (low u) ti /\
    (* U4: the tree's class is configured; a slot of class c holding it is rated Match or Demote *)
    class_slots u (t_class t) <> None /\
    (forall c s, In (c, s) sl -> forall f, pol_keeps (policy c (t_class t) f) = true).

  Definition UpperInv (x : ustate) : Prop :=
    let u := us x in
    LowerInv g (low u) /\
    length (trees u) = nn (ntab g (frames (low u))) /\
    length (off x) = length (trees u) /\
    length (locals u) = 8%nat /\
    class_slots u (dflt u) <> None /\
    (forall i t, nth_error (trees u) i = Some t -> tree_ok u (off x) i t) /\
    (* U5: every present slot points into an existing tree, inside the managed range *)
    (forall c s, In (c, s) (present_slots u) ->
       row_tree g (s_row s) < ntrees u /\ s_row s * 64 < frames (low u) /\ s_free s <= TF).

  (* ----- executable version ----- *)
  Definition tree_okb (classes : list N) (u : upper) (offs : list N) (i : nat) (t : tree) : bool :=
    let ti := N.of_nat i in
    let sl := slots_of u ti in
    Nat.eqb (length sl) (if t_res t then 1 else 0) &&
    (t_free t + sum_free sl + nth i offs 0 =? tree_free g (low u) ti) &&
    (match class_slots u (t_class t) with Some _ => true | None => false end) &&
    (* the policy's kind is checked at a few free values; the Prop version quantifies over all *)
    forallb (fun cs => forallb (fun f => pol_keeps (policy (fst cs) (t_class t) f)) [0; 1; TF / 2; TF]) sl.

  Definition upper_invb (x : ustate) : bool :=
    let u := us x in
    lower_invb g (low u) &&
    Nat.eqb (length (trees u)) (nn (ntab g (frames (low u)))) &&
    Nat.eqb (length (off x)) (length (trees u)) &&
    Nat.eqb (length (locals u)) 8 &&
    (match class_slots u (dflt u) with Some _ => true | None => false end) &&
    forallb (fun it => tree_okb [] u (off x) (fst it) (snd it)) (combine (seq 0 (length (trees u))) (trees u)) &&
    forallb (fun cs => (row_tree g (s_row (snd cs)) <? ntrees u) && (s_row (snd cs) * 64 <? frames (low u))
                       && (s_free (snd cs) <=? TF)) (present_slots u).

  (* ----- ghost transitions: only change_tree touches `off` ----- *)
  Definition tree_eqb (a b : tree) : bool :=
    (t_free a =? t_free b) && Bool.eqb (t_res a) (t_res b) && (t_class a =? t_class b).

  (* the entry that a successful change rewrote: Offline hides its counter, Online reveals everything *)
  Definition ghost_change (x : ustate) (m : tree_match) (ch : tree_change) : res unit * ustate :=
    let u := us x in
    let '(r, u') := llfree_change_tree g u m ch in
    match r with
    | Ok _ =>
        let offs' :=
          map (fun it => let '(i, (t, t')) := it in
                 let o := nth i (off x) 0 in
                 if tree_eqb t t' then o else
                 match c_op ch with
                 | Some OpOffline => o + t_free t
                 | Some OpOnline => 0
                 | None => o
                 end)
              (combine (seq 0 (length (trees u))) (combine (trees u) (trees u'))) in
        (r, {| us := u'; off := offs' |})
    | _ => (r, {| us := u'; off := off x |})
    end.

  (* every other operation leaves the ghost alone *)
  Definition ghost_lift {A} (f : upper -> res A * upper) (x : ustate) : res A * ustate :=
    let '(r, u') := f (us x) in (r, {| us := u'; off := off x |}).

  Definition ustate_new (u : upper) : ustate := {| us := u; off := repeat 0 (length (trees u)) |}.
End UpperInv.
