(* llfree_put, llfree_drain, change_tree: safety, invariant preservation, functional properties. *)
From Coq Require Import List NArith Bool Lia Permutation PeanoNat.
From LLF Require Import Base Row Bitfield Lower Spec Upper UpperInvDef LowerFacts AbsLemmas UpperPrims.

Section Put.
  Variable g : geom.
  Variable policy : N -> N -> N -> pol.
  Hypothesis WF : wf_geom g.
  Hypothesis LF : lower_facts g.
  Notation TF := (TF g).
  Notation UIC := (UpperInvC g policy).

  (* the slot index of a request is in range *)
  Definition valid_req (u : upper) (r : request) : Prop :=
    match r_local r with Some j => idx_ok u (r_class r) j | None => True end.

  Lemma check_inv u frame r :
    match check g u frame r with
    | Ok _ => (r_order r <= tord g)%nat /\ frame + pow2 (r_order r) <= frames (low u) /\
              aligned frame (r_order r) = true /\ class_slots u (r_class r) <> None
    | Err e => e = EArgument
    | Panic _ => False
    end.
  Proof.
    unfold check.
    destruct (Nat.leb (r_order r) (tord g)) eqn:E1; cbn [negb]; auto.
    destruct ((frame + pow2 (r_order r) <? W64) && (frame + pow2 (r_order r) <=? frames (low u))) eqn:E2; cbn [negb]; auto.
    destruct (frame mod pow2 (r_order r) =? 0) eqn:E3; cbn [negb]; auto.
    unfold class_locals. destruct (class_slots u (r_class r)) eqn:E4; cbn [option_map]; auto.
    apply Nat.leb_le in E1. apply andb_true_iff in E2. destruct E2 as (_ & E2). apply N.leb_le in E2.
    splits; auto. congruence.
  Qed.

  Lemma pow2_pos k : 0 < pow2 k.
  Proof. unfold pow2. apply N.neq_0_lt_0, N.pow_nonzero. lia. Qed.

  Lemma with_low_id u : with_low u (low u) = u.
  Proof. destruct u; reflexivity. Qed.

  Lemma class_locals_set_slot u c j s c' : class_locals (set_slot u c j s) c' = class_locals u c'.
  Proof.
    unfold class_locals. destruct (N.eq_dec c' c) as [->|Nc].
    - destruct (class_slots u c) eqn:E.
      + erewrite class_slots_set_slot_same by eauto. cbn [option_map]. rewrite upd_length. reflexivity.
      + unfold set_slot. rewrite E, E. reflexivity.
    - rewrite class_slots_set_slot_other; auto.
  Qed.

  Theorem llfree_put_correct x frame r res x' :
    UpperInv g policy x -> valid_req (us x) r ->
    ghost_lift (fun u => llfree_put g policy u frame r) x = (res, x') ->
    match check g (us x) frame r with
    | Err e => e = EArgument /\ res = Err EArgument /\ x' = x
    | Panic _ => False
    | Ok _ =>
        if spec_put_enabled g (abs g (low (us x))) frame (r_order r)
        then res = Ok tt /\ UpperInv g policy x' /\
             abs g (low (us x')) = spec_put g (abs g (low (us x))) frame (r_order r) /\
             off x' = off x /\ dflt (us x') = dflt (us x) /\
             (forall t, t <> frame / TF -> tree_at (us x') t = tree_at (us x) t) /\
             (forall c, class_locals (us x') c = class_locals (us x) c) /\
             (forall c j s, slot_at (us x) c j = Some s ->
                (s_pres s = false \/ row_tree g (s_row s) <> frame / TF) -> slot_at (us x') c j = Some s)
        else res = Err EMemory /\ x' = x
    end.
  Proof.
    intros HI HV HP. unfold ghost_lift in HP.
    destruct (llfree_put g policy (us x) frame r) as (res0, u') eqn:EP. inversion HP; subst res0 x'. clear HP.
    unfold llfree_put in EP. pose proof (check_inv (us x) frame r) as HC.
    destruct (check g (us x) frame r) as [[]|e|s]; auto.
    2:{ inversion EP; subst. splits; auto. destruct x; reflexivity. }
    destruct HC as (Hk & Hfr & Hal & Hcl).
    apply UpperInv_C0 in HI. pose proof (UIC_lower g policy WF LF _ _ _ HI) as HL.
    destruct (lower_put g (low (us x)) frame (r_order r)) as (rl, l') eqn:EL.
    pose proof (lf_put g LF _ _ _ _ _ HL Hk Hal Hfr EL) as HPut.
    destruct rl as [[]|e|s]; [| |destruct HPut].
    2:{ destruct HPut as (-> & -> & ->). inversion EP; subst. split; auto. rewrite with_low_id. destruct x; reflexivity. }
    destruct HPut as (-> & Habs & HL' & Hfr' & Htf).
    set (T := frame / TF) in *. set (n := pow2 (r_order r)) in *.
    set (cr1 := fun t => delta t T n).
    assert (H1 : UIC cr1 [] (mk x (with_low (us x) l'))).
    { apply (UIC_with_low g policy (fun _ => 0) cr1 [] x l' HI HL' Hfr'). intros t _. rewrite Htf. unfold cr1. lia. }
    assert (HT : T < ntrees (with_low (us x) l')).
    { change (ntrees (with_low (us x) l')) with (ntrees (us x)). rewrite (UIC_ntrees g policy WF LF _ _ _ HI).
      apply div_lt_ntab; auto. pose proof (pow2_pos (r_order r)). lia. }
    assert (PUT : forall r0 u0, trees_put g policy (with_low (us x) l') T n = (r0, u0) ->
       r0 = Ok tt /\ UpperInv g policy (mk x u0) /\ low u0 = l' /\ dflt u0 = dflt (us x) /\
       (forall t, t <> T -> tree_at u0 t = tree_at (us x) t) /\ locals u0 = locals (us x)).
    { intros r0 u0 E0.
      assert (A1 : n <= cr1 T) by (unfold cr1, delta; rewrite N.eqb_refl; lia).
      assert (A2 : forall j, (fun _ : N => 0) j + delta j T n = cr1 j) by (intros j; unfold cr1; lia).
      destruct (trees_put_C g policy WF LF cr1 (fun _ => 0) [] _ T n r0 u0 H1 HT A1 A2 E0) as (-> & H2 & t & t' & E1 & E2 & E3 & E4 & ->).
      splits; auto.
      + apply UpperInv_C0. exact H2.
      + intros t0 Ht0. cbn [us mk]. rewrite tree_at_set_tree_other; auto. }
    destruct (r_local r) as [local|] eqn:ELoc.
    - unfold valid_req in HV. rewrite ELoc in HV.
      destruct (locals_put g (with_low (us x) l') (r_class r) local T n) as (rp, u2) eqn:ELP.
      assert (A1 : n <= cr1 T) by (unfold cr1, delta; rewrite N.eqb_refl; lia).
      destruct (locals_put_C g policy WF LF cr1 [] (mk x (with_low (us x) l')) (r_class r) local T n rp u2 H1 HV A1 ELP)
        as [(-> & -> & _) | (-> & s & Hs & Ps & Ts & -> & Hinv)].
      + cbn [us mk] in *. destruct (PUT _ _ EP) as (-> & Q1 & Q2 & Q3 & Q4 & Q5).
        splits; auto.
        * cbn [us mk]. rewrite Q2. auto.
        * intros c. unfold class_locals. f_equal. apply class_slots_ext. auto.
        * intros c j s Hs _. unfold slot_at in *. cbn [us mk]. erewrite class_slots_ext; eauto.
      + cbn [us mk] in *. inversion EP; subst res u'. clear EP.
        change (slot_at (with_low (us x) l') (r_class r) local) with (slot_at (us x) (r_class r) local) in Hs.
        splits; auto.
        * apply UpperInv_C0. apply Hinv. intros t. unfold cr1. lia.
        * cbn [us mk]. rewrite set_slot_low. auto.
        * cbn [us mk]. rewrite set_slot_dflt. auto.
        * intros t _. cbn [us mk]. unfold tree_at. rewrite set_slot_trees. reflexivity.
        * intros c. cbn [us mk]. rewrite class_locals_set_slot. reflexivity.
        * intros c j s0 Hs0 Hcond. cbn [us mk].
          destruct (N.eq_dec c (r_class r)) as [->|Nc]; [destruct (N.eq_dec j local) as [->|Nj]|].
          -- rewrite Hs in Hs0. inversion Hs0; subst s0. destruct Hcond; congruence.
          -- rewrite slot_at_set_slot_other; auto. congruence.
          -- rewrite slot_at_set_slot_other; auto. congruence.
    - destruct (PUT _ _ EP) as (-> & Q1 & Q2 & Q3 & Q4 & Q5). splits; auto.
      + cbn [us mk]. rewrite Q2. auto.
      + intros c. unfold class_locals. f_equal. apply class_slots_ext. auto.
      + intros c j s Hs _. unfold slot_at in *. cbn [us mk]. erewrite class_slots_ext; eauto.
  Qed.
End Put.
Section Drain.
  Variable g : geom.
  Variable policy : N -> N -> N -> pol.
  Hypothesis WF : wf_geom g.
  Hypothesis LF : lower_facts g.
  Notation TF := (TF g).
  Notation UIC := (UpperInvC g policy).
  Notation UI0 := (UpperInvC g policy (fun _ => 0) []).

  Lemma resv_of_none c : resv_of g c slot_none = [].
  Proof. reflexivity. Qed.

  Lemma slot_at_set_tree u i t c j : slot_at (set_tree u i t) c j = slot_at u c j.
  Proof. reflexivity. Qed.

  Lemma drain_slots_C : forall n x c j l r u',
    UI0 x -> class_slots (us x) c = Some l -> (nn j + n = length l)%nat ->
    (forall j' s, j' < j -> slot_at (us x) c j' = Some s -> s_pres s = false) ->
    drain_slots g policy (us x) c j n = (r, u') ->
    r = Ok tt /\ UI0 (mk x u') /\ low u' = low (us x) /\
    (forall c', c' <> c -> class_slots u' c' = class_slots (us x) c') /\
    (exists l', class_slots u' c = Some l' /\ length l' = length l) /\
    (forall j' s, slot_at u' c j' = Some s -> s_pres s = false).
  Proof.
    induction n as [|n IH]; intros x c j l r u' HI HC Hlen Hprev HD; cbn [drain_slots] in HD.
    - inversion HD; subst r u'. rewrite mk_id. splits; eauto.
      intros j' s Hs. apply (Hprev j' s); auto.
      unfold slot_at in Hs. rewrite HC in Hs.
      assert (nn j' < length l)%nat by (apply nth_error_Some; congruence). unfold nn in *. lia.
    - rewrite HC in HD.
      destruct (nth_error l (nn j)) as [s|] eqn:Hs.
      2:{ apply nth_error_None in Hs. lia. }
      assert (Hat : slot_at (us x) c j = Some s) by (unfold slot_at; rewrite HC; auto).
      set (u1 := set_slot (us x) c j slot_none) in *.
      assert (HC1 : class_slots u1 c = Some (upd l (nn j) slot_none)) by (apply class_slots_set_slot_same; auto).
      assert (H1 : UIC (fun _ => 0) (resv_of g c s ++ []) (mk x u1)).
      { apply UIC_slot_xchg; auto. cbn [s_pres slot_none]. discriminate. }
      rewrite app_nil_r in H1.
      assert (Hprev1 : forall j' s0, j' < j + 1 -> slot_at u1 c j' = Some s0 -> s_pres s0 = false).
      { intros j' s0 Hj' Hs0. destruct (N.eq_dec j' j) as [->|Nj].
        - unfold u1 in Hs0. rewrite slot_at_set_slot_same in Hs0 by congruence. inversion Hs0. reflexivity.
        - unfold u1 in Hs0. rewrite slot_at_set_slot_other in Hs0 by congruence. apply (Hprev j' s0); auto. lia. }
      assert (Hlen1 : (nn (j + 1) + n = length (upd l (nn j) slot_none))%nat).
      { rewrite upd_length. unfold nn in *. lia. }
      assert (FIN : forall x2, us x2 = u1 \/ (exists i t, us x2 = set_tree u1 i t) -> off x2 = off x ->
                UI0 x2 -> drain_slots g policy (us x2) c (j + 1) n = (r, u') ->
                r = Ok tt /\ UI0 (mk x u') /\ low u' = low (us x) /\
                (forall c', c' <> c -> class_slots u' c' = class_slots (us x) c') /\
                (exists l', class_slots u' c = Some l' /\ length l' = length l) /\
                (forall j' s, slot_at u' c j' = Some s -> s_pres s = false)).
      { intros x2 Hx2 Hoff H2 HD2.
        assert (Hloc : forall c' j', slot_at (us x2) c' j' = slot_at u1 c' j' ).
        { destruct Hx2 as [->|(i & t & ->)]; reflexivity. }
        assert (Hcs : forall c', class_slots (us x2) c' = class_slots u1 c').
        { destruct Hx2 as [->|(i & t & ->)]; reflexivity. }
        assert (Hlow : low (us x2) = low (us x)).
        { destruct Hx2 as [->|(i & t & ->)]; unfold u1; cbn [low set_tree with_trees]; apply set_slot_low. }
        destruct (IH x2 c (j + 1) (upd l (nn j) slot_none) r u' H2) as (-> & Q1 & Q2 & Q3 & (l' & Q4 & Q5) & Q6); auto.
        - rewrite Hcs. auto.
        - intros j' s0. rewrite Hloc. apply Hprev1.
        - splits; auto.
          + unfold mk in *. rewrite Hoff in Q1. exact Q1.
          + congruence.
          + intros c' Hc'. rewrite Q3, Hcs by auto. unfold u1. apply class_slots_set_slot_other; auto.
          + exists l'. split; auto. rewrite Q5. apply upd_length. }
      destruct (s_pres s) eqn:P.
      + unfold resv_of in H1. rewrite P in H1.
        destruct (trees_unreserve g policy u1 (row_tree g (s_row s)) (s_free s) c) as (r1, u2) eqn:EU.
        destruct (trees_unreserve_C g policy WF LF _ _ (mk x u1) _ _ _ _ _ H1 EU) as (-> & H2 & t & t' & _ & _ & _ & _ & ->).
        cbn [lift] in HD.
        apply (FIN (mk x (set_tree u1 (row_tree g (s_row s)) t')));
          [right; eexists _, _; reflexivity | reflexivity | exact H2 | exact HD].
      + unfold resv_of in H1. rewrite P in H1.
        apply (FIN (mk x u1)); [left; reflexivity | reflexivity | exact H1 | exact HD].
  Qed.

  Lemma drain_classes_C : forall n x c r u',
    UI0 x -> (nn c + n = 8)%nat ->
    (forall c' j s, c' < c -> slot_at (us x) c' j = Some s -> s_pres s = false) ->
    drain_classes g policy (us x) c n = (r, u') ->
    r = Ok tt /\ UI0 (mk x u') /\ low u' = low (us x) /\
    (forall c', class_locals u' c' = class_locals (us x) c') /\
    (forall c' j s, slot_at u' c' j = Some s -> s_pres s = false).
  Proof.
    induction n as [|n IH]; intros x c r u' HI Hc Hprev HD; cbn [drain_classes] in HD.
    - inversion HD; subst r u'. rewrite mk_id. splits; auto.
      intros c' j s Hs. apply (Hprev c' j s); auto.
      destruct (slot_at_inv _ _ _ _ Hs) as (l & HCl & _).
      pose proof (class_slots_lt _ _ _ (UIC_len8 g policy WF LF _ _ _ HI) HCl). unfold nn in *. lia.
    - destruct (drain_slots g policy (us x) c 0
                 match class_slots (us x) c with Some l => length l | None => 0%nat end) as (r1, u1) eqn:ED.
      assert (STEP : r1 = Ok tt /\ UI0 (mk x u1) /\ low u1 = low (us x) /\
                (forall c', class_locals u1 c' = class_locals (us x) c') /\
                (forall c' j s, c' < c + 1 -> slot_at u1 c' j = Some s -> s_pres s = false)).
      { destruct (class_slots (us x) c) as [l|] eqn:HC.
        - destruct (drain_slots_C (length l) x c 0 l r1 u1 HI HC) as (-> & Q1 & Q2 & Q3 & (l' & Q4 & Q5) & Q6); auto.
          { intros j' s Hj'. lia. }
          splits; auto.
          + intros c'. unfold class_locals. destruct (N.eq_dec c' c) as [->|Nc].
            * rewrite Q4, HC. cbn [option_map]. congruence.
            * rewrite Q3; auto.
          + intros c' j s Hc' Hs. destruct (N.eq_dec c' c) as [->|Nc].
            * eapply Q6; eauto.
            * apply (Hprev c' j s); [lia|]. unfold slot_at in *. rewrite Q3 in Hs; auto.
        - cbn [drain_slots] in ED. inversion ED; subst r1 u1. rewrite mk_id. splits; auto.
          intros c' j s Hc' Hs. destruct (N.eq_dec c' c) as [->|Nc].
          + unfold slot_at in Hs. rewrite HC in Hs. discriminate.
          + apply (Hprev c' j s); auto. lia. }
      destruct STEP as (-> & Q1 & Q2 & Q3 & Q4). cbn [lift] in HD.
      destruct (IH (mk x u1) (c + 1) r u' Q1) as (-> & R1 & R2 & R3 & R4); auto.
      { unfold nn in *. lia. }
      cbn [us mk] in R2, R3. splits; auto.
      + congruence.
      + intros c'. rewrite R3. apply Q3.
  Qed.

  Lemma filter_nil {A} (f : A -> bool) l : (forall a, In a l -> f a = false) -> filter f l = [].
  Proof. induction l; cbn [filter]; intros H; auto. rewrite (H a) by (left; auto). apply IHl. intros; apply H; right; auto. Qed.

  Theorem llfree_drain_correct x r x' :
    UpperInv g policy x ->
    ghost_lift (llfree_drain g policy) x = (r, x') ->
    r = Ok tt /\ UpperInv g policy x' /\ low (us x') = low (us x) /\ off x' = off x /\
    present_slots (us x') = [] /\
    (forall i t, tree_at (us x') i = Some t -> t_res t = false) /\
    (forall c, class_locals (us x') c = class_locals (us x) c).
  Proof.
    intros HI HD. unfold ghost_lift in HD.
    destruct (llfree_drain g policy (us x)) as (r0, u') eqn:E. inversion HD; subst r0 x'. clear HD.
    apply UpperInv_C0 in HI. unfold llfree_drain in E.
    destruct (drain_classes_C 8 x 0 r u' HI) as (-> & Q1 & Q2 & Q3 & Q4); auto.
    { intros c' j s Hc'. lia. }
    assert (HP : present_slots u' = []).
    { unfold present_slots. apply filter_nil. intros (c, s) Hin. cbn [snd].
      apply in_all_slots in Hin; [|apply (UIC_len8 g policy WF LF _ _ _ Q1)].
      destruct Hin as (j & Hj). eapply Q4; eauto. }
    splits; auto.
    - apply UpperInv_C0. exact Q1.
    - intros i t Ht. pose proof (UIC_tree g policy WF LF _ _ _ _ _ Q1 Ht) as Hok.
      apply tree_okC_nn in Hok; auto. destruct Hok as (A & _).
      cbn [us mk] in A. unfold slots_of in A. rewrite HP in A. cbn [filter length ih_of] in A.
      destruct (t_res t); auto; discriminate.
  Qed.
End Drain.
Section Change.
  Variable g : geom.
  Variable policy : N -> N -> N -> pol.
  Hypothesis WF : wf_geom g.
  Hypothesis LF : lower_facts g.
  Notation TF := (TF g).
  Notation UIC := (UpperInvC g policy).
  Notation UI0 := (UpperInvC g policy (fun _ => 0) []).

  Lemma change_at_spec x id cls free ch r u' :
    UI0 x -> trees_change_at g (us x) id cls free ch = (r, u') ->
    match tree_at (us x) id with
    | None => r = Err EArgument /\ u' = us x
    | Some t => match tree_apply_change t cls free ch (tree_free g (low (us x)) id) with
                | Some t' => r = Ok tt /\ u' = set_tree (us x) id t'
                | None => r = Err EMemory /\ u' = us x
                end
    end.
  Proof.
    intros HI HC. unfold trees_change_at in HC.
    destruct (tree_at (us x) id) as [t|] eqn:Ht.
    2:{ inversion HC; auto. }
    pose proof (tree_at_lt _ _ _ Ht) as Hid. rewrite (UIC_ntrees g policy WF LF _ _ _ HI) in Hid.
    destruct (lf_stats_at_tree g LF _ _ (UIC_lower g policy WF LF _ _ _ HI) Hid) as (s & E1 & E2).
    rewrite E1, E2 in HC.
    destruct (tree_apply_change t cls free ch (tree_free g (low (us x)) id)); inversion HC; auto.
  Qed.

  Lemma search_loop_once {A} (acc : upper -> N -> res A * upper) : forall n u start i r u',
    search_loop acc u start i n = (r, u') ->
    (forall k u1, acc u k = (Err EMemory, u1) -> u1 = u) ->
    (r = Err EMemory /\ u' = u) \/ (exists k, acc u k = (r, u') /\ r <> Err EMemory).
  Proof.
    induction n as [|n IH]; intros u start i r u' H Hacc; cbn [search_loop] in H.
    - inversion H; auto.
    - destruct (acc u (walk_idx start (ntrees u) i)) as (r1, u1) eqn:E.
      destruct r1 as [a|e|s].
      + inversion H; subst. right. eexists. split; eauto. discriminate.
      + destruct e.
        * pose proof (Hacc _ _ E). subst u1. eapply IH; eauto.
        * inversion H; subst. right. eexists. split; eauto. discriminate.
        * inversion H; subst. right. eexists. split; eauto. discriminate.
      + inversion H; subst. right. eexists. split; eauto. discriminate.
  Qed.

  (* result of `Trees::change` *)
  Lemma trees_change_spec x m ch r u' :
    UI0 x -> trees_change g (us x) m ch = (r, u') ->
    ((r = Err EMemory \/ r = Err EArgument) /\ u' = us x) \/
    (r = Ok tt /\ exists id t t', (m_id m = Some id \/ m_id m = None) /\ tree_at (us x) id = Some t /\
       tree_apply_change t (m_class m) (m_free m) ch (tree_free g (low (us x)) id) = Some t' /\
       u' = set_tree (us x) id t').
  Proof.
    intros HI HC. unfold trees_change in HC.
    assert (AT : forall id r u', trees_change_at g (us x) id (m_class m) (m_free m) ch = (r, u') ->
       ((r = Err EMemory \/ r = Err EArgument) /\ u' = us x) \/
       (r = Ok tt /\ exists t t', tree_at (us x) id = Some t /\
          tree_apply_change t (m_class m) (m_free m) ch (tree_free g (low (us x)) id) = Some t' /\
          u' = set_tree (us x) id t')).
    { intros id r0 u0 E. pose proof (change_at_spec x id _ _ _ _ _ HI E) as S.
      destruct (tree_at (us x) id) as [t|] eqn:Ht.
      - destruct (tree_apply_change t (m_class m) (m_free m) ch (tree_free g (low (us x)) id)) as [t'|] eqn:Ea.
        + destruct S as (-> & ->). right. split; auto. exists t, t'. auto.
        + destruct S as (-> & ->). auto.
      - destruct S as (-> & ->). auto. }
    destruct (m_id m) as [i|] eqn:Em.
    - destruct (AT _ _ _ HC) as [(Q & ->)|(-> & t & t' & Q1 & Q2 & Q3)]; auto.
      right. split; auto. exists i, t, t'. auto.
    - destruct (ntrees (us x) =? 0).
      { inversion HC; auto. }
      apply search_loop_once in HC.
      + destruct HC as [(-> & ->)|(k & E & Hne)]; auto.
        destruct (AT _ _ _ E) as [(Q & ->)|(-> & t & t' & Q1 & Q2 & Q3)]; auto.
        right. split; auto. exists k, t, t'. auto.
      + intros k u1 E. destruct (AT _ _ _ E) as [(_ & ->)|(Q & _)]; auto. discriminate.
  Qed.

  (* ----- the ghost list after a change ----- *)
  Definition goff (ch : tree_change) (offs : list N) (k : nat) (t t' : tree) : N :=
    let o := nth k offs 0 in
    if tree_eqb t t' then o else
    match c_op ch with Some OpOffline => o + t_free t | Some OpOnline => 0 | None => o end.

  Lemma nth_error_map_combine3 {A B C} (f : nat * (A * B) -> C) : forall (l1 : list A) (l2 : list B) s k a b,
    nth_error l1 k = Some a -> nth_error l2 k = Some b ->
    nth_error (map f (combine (seq s (length l1)) (combine l1 l2))) k = Some (f ((s + k)%nat, (a, b))).
  Proof.
    induction l1 as [|a0 l1 IH]; intros l2 s k a b H1 H2.
    - destruct k; discriminate.
    - destruct l2 as [|b0 l2]; [destruct k; discriminate|].
      destruct k as [|k]; cbn in *.
      + inversion H1; inversion H2; subst. rewrite Nat.add_0_r. reflexivity.
      + rewrite (IH l2 (S s) k a b H1 H2). do 3 f_equal. lia.
  Qed.

  Lemma tree_eqb_refl t : tree_eqb t t = true.
  Proof. unfold tree_eqb. rewrite !N.eqb_refl. destruct (t_res t); reflexivity. Qed.
  Lemma tree_eqb_true a b : tree_eqb a b = true -> t_free a = t_free b /\ t_res a = t_res b /\ t_class a = t_class b.
  Proof.
    unfold tree_eqb. intros H. apply andb_true_iff in H. destruct H as (H & H3).
    apply andb_true_iff in H. destruct H as (H1 & H2).
    apply N.eqb_eq in H1, H3. apply Bool.eqb_prop in H2. auto.
  Qed.

  Definition goffs (ch : tree_change) (x : ustate) (u' : upper) : list N :=
    map (fun it : nat * (tree * tree) => let '(i, (t, t')) := it in
           let o := nth i (off x) 0 in
           if tree_eqb t t' then o else
           match c_op ch with
           | Some OpOffline => o + t_free t
           | Some OpOnline => 0
           | None => o
           end)
        (combine (seq 0 (length (trees (us x)))) (combine (trees (us x)) (trees u'))).

  Lemma goffs_set_tree ch x id t t' :
    length (off x) = length (trees (us x)) -> tree_at (us x) id = Some t ->
    let offs' := goffs ch x (set_tree (us x) id t') in
    length offs' = length (off x) /\
    (forall k, k <> nn id -> nth k offs' 0 = nth k (off x) 0) /\
    nth (nn id) offs' 0 = goff ch (off x) (nn id) t t'.
  Proof.
    intros Hlen Ht. cbv zeta. unfold goffs. cbn [set_tree with_trees trees].
    unfold tree_at in Ht.
    assert (Hid : (nn id < length (trees (us x)))%nat) by (apply nth_error_Some; congruence).
    splits.
    - rewrite map_length, !combine_length, seq_length, upd_length. lia.
    - intros k Hk. destruct (nth_error (trees (us x)) k) as [a|] eqn:Ea.
      + erewrite nth_error_nth; [|apply nth_error_map_combine3; [exact Ea|rewrite nth_error_upd_other by auto; exact Ea]].
        cbn [Nat.add]. rewrite tree_eqb_refl. reflexivity.
      + apply nth_error_None in Ea. rewrite !nth_overflow; auto; try lia.
        rewrite map_length, !combine_length, seq_length, upd_length. lia.
    - erewrite nth_error_nth; [|apply nth_error_map_combine3; [exact Ht|apply nth_error_upd_same; auto]].
      cbn [Nat.add]. reflexivity.
  Qed.

  Definition change_cfg (u : upper) (ch : tree_change) : Prop :=
    forall c, c_class ch = Some c -> class_slots u c <> None.

  Lemma apply_change_inv t cls free ch fetch t' :
    tree_apply_change t cls free ch fetch = Some t' ->
    t_res t = false /\ (forall k, cls = Some k -> k = t_class t) /\ free <= t_free t /\
    t_res t' = false /\
    t_class t' = match c_class ch with Some c => c | None => t_class t end /\
    match c_op ch with
    | Some OpOffline => t_free t' = 0
    | Some OpOnline => t_free t = 0 /\ t_free t' = fetch
    | None => t_free t' = t_free t
    end.
  Proof.
    unfold tree_apply_change. intros H.
    destruct (negb (t_res t) && match cls with Some k => k =? t_class t | None => true end && (free <=? t_free t)) eqn:E;
      try discriminate.
    apply andb_true_iff in E. destruct E as (E & E3). apply andb_true_iff in E. destruct E as (E1 & E2).
    apply negb_true_iff in E1. apply N.leb_le in E3.
    assert (Q : forall k, cls = Some k -> k = t_class t).
    { intros k ->. apply N.eqb_eq. auto. }
    destruct (c_op ch) as [[]|].
    - destruct (t_free t =? 0) eqn:Z; try discriminate. apply N.eqb_eq in Z.
      inversion H; subst t'; cbn [t_free t_res t_class]. splits; auto.
    - inversion H; subst t'; cbn [t_free t_res t_class]. splits; auto.
    - inversion H; subst t'; cbn [t_free t_res t_class]. splits; auto.
  Qed.

  Lemma ghost_change_eq x m ch :
    ghost_change g x m ch =
    let '(r, u') := trees_change g (us x) m ch in
    match r with
    | Ok _ => (r, {| us := u'; off := goffs ch x u' |})
    | _ => (r, {| us := u'; off := off x |})
    end.
  Proof. reflexivity. Qed.

  Lemma ghost_change_core x m ch r x' :
    UI0 x -> change_cfg (us x) ch -> ghost_change g x m ch = (r, x') ->
    ((r = Err EMemory \/ r = Err EArgument) /\ x' = x) \/
    (r = Ok tt /\ UI0 x' /\ exists id t t', (m_id m = Some id \/ m_id m = None) /\ tree_at (us x) id = Some t /\
       tree_apply_change t (m_class m) (m_free m) ch (tree_free g (low (us x)) id) = Some t' /\
       us x' = set_tree (us x) id t' /\ length (off x') = length (off x) /\
       (forall k, k <> nn id -> nth k (off x') 0 = nth k (off x) 0) /\
       nth (nn id) (off x') 0 = goff ch (off x) (nn id) t t').
  Proof.
    intros HI Hcfg HG. rewrite ghost_change_eq in HG.
    destruct (trees_change g (us x) m ch) as (r0, u') eqn:E.
    destruct (trees_change_spec x m ch r0 u' HI E) as [(Q & ->)|(-> & id & t & t' & Q1 & Q2 & Q3 & ->)].
    - left. destruct Q as [-> | ->]; inversion HG; subst; split; auto; destruct x; reflexivity.
    - right. inversion HG; subst r x'. clear HG.
      assert (Hlen : length (off x) = length (trees (us x))) by (destruct HI as (_ & _ & H3 & _); exact H3).
      destruct (goffs_set_tree ch x id t t' Hlen Q2) as (G1 & G2 & G3).
      split; auto. split.
      2:{ exists id, t, t'. cbn [us off]. splits; auto. }
      destruct (apply_change_inv _ _ _ _ _ _ Q3) as (A1 & A2 & A3 & A4 & A5 & A6).
      pose proof (UIC_tree g policy WF LF _ _ _ _ _ HI Q2) as Hok.
      eapply UIC_set_tree_off; eauto.
      + eapply okC_unres; eauto.
        * rewrite A5. destruct (c_class ch) as [c|] eqn:Ec; [apply Hcfg; auto|].
          apply tree_okC_nn in Hok; auto. destruct Hok as (_ & _ & C & _). exact C.
        * rewrite G3. unfold goff. apply tree_okC_nn in Hok; auto. destruct Hok as (A & B & _).
          rewrite A1 in A.
          assert (L1 : slots_of g (us x) id = []) by (apply length_zero_iff_nil; lia).
          rewrite L1 in B. cbn [ih_of filter ih_sum fold_right sum_free] in B.
          destruct (tree_eqb t t') eqn:Eq.
          -- apply tree_eqb_true in Eq. lia.
          -- destruct (c_op ch) as [[]|]; lia.
      + intros t0 c f [].
  Qed.

  Lemma ghost_change_by_id x m ch i r x' :
    UI0 x -> m_id m = Some i -> ghost_change g x m ch = (r, x') ->
    match tree_at (us x) i with
    | None => r = Err EArgument /\ x' = x
    | Some t =>
        match tree_apply_change t (m_class m) (m_free m) ch (tree_free g (low (us x)) i) with
        | None => r = Err EMemory /\ x' = x
        | Some t' => r = Ok tt /\ us x' = set_tree (us x) i t' /\
                     nth (nn i) (off x') 0 = goff ch (off x) (nn i) t t'
        end
    end.
  Proof.
    intros HI Em HG. rewrite ghost_change_eq in HG. unfold trees_change in HG. rewrite Em in HG.
    destruct (trees_change_at g (us x) i (m_class m) (m_free m) ch) as (r0, u') eqn:E.
    pose proof (change_at_spec x i _ _ _ _ _ HI E) as S.
    destruct (tree_at (us x) i) as [t|] eqn:Ht.
    - destruct (tree_apply_change t (m_class m) (m_free m) ch (tree_free g (low (us x)) i)) as [t'|] eqn:Ea.
      + destruct S as (-> & ->). inversion HG; subst r x'. cbn [us off]. splits; auto.
        assert (Hlen : length (off x) = length (trees (us x))) by (destruct HI as (_ & _ & H3 & _); exact H3).
        destruct (goffs_set_tree ch x i t t' Hlen Ht) as (G1 & G2 & G3). exact G3.
      + destruct S as (-> & ->). inversion HG; subst. split; auto. destruct x; reflexivity.
    - destruct S as (-> & ->). inversion HG; subst. split; auto. destruct x; reflexivity.
  Qed.

  (* the matcher accepts tree j with entry t *)
  Definition tmatches (m : tree_match) (j : N) (t : tree) : Prop :=
    (forall i, m_id m = Some i -> i = j) /\ (forall k, m_class m = Some k -> k = t_class t) /\
    m_free m <= t_free t.

  Theorem ghost_change_correct x m ch r x' :
    UpperInv g policy x -> change_cfg (us x) ch -> ghost_change g x m ch = (r, x') ->
    (forall s, r <> Panic s) /\ UpperInv g policy x' /\
    low (us x') = low (us x) /\ locals (us x') = locals (us x) /\ dflt (us x') = dflt (us x) /\
    (forall e, r = Err e -> x' = x) /\
    (forall i, m_id m = Some i -> tree_at (us x) i = None -> r = Err EArgument) /\
    (forall j t, tree_at (us x) j = Some t -> t_res t = true \/ ~ tmatches m j t ->
        tree_at (us x') j = Some t /\ nth (nn j) (off x') 0 = nth (nn j) (off x) 0).
  Proof.
    intros HI Hcfg HG. pose proof HI as HI0. apply UpperInv_C0 in HI0.
    assert (BYID : forall i, m_id m = Some i -> tree_at (us x) i = None -> r = Err EArgument).
    { intros i Em Hn. pose proof (ghost_change_by_id x m ch i r x' HI0 Em HG) as S. rewrite Hn in S. tauto. }
    destruct (ghost_change_core x m ch r x' HI0 Hcfg HG)
      as [(Q & ->)|(-> & HI' & id & t & t' & Q1 & Q2 & Q3 & Q4 & Q5 & Q6 & Q7)].
    - splits; auto. destruct Q as [-> | ->]; discriminate.
    - destruct (apply_change_inv _ _ _ _ _ _ Q3) as (A1 & A2 & A3 & _).
      splits; auto; try (rewrite Q4; reflexivity).
      + discriminate.
      + apply UpperInv_C0. exact HI'.
      + discriminate.
      + intros j tj Hj Hcond. assert (Nj : j <> id).
        { intros ->. rewrite Q2 in Hj. inversion Hj; subst tj. destruct Hcond as [Hc|Hc]; [congruence|].
          apply Hc. unfold tmatches. splits; auto. intros i Ei. destruct Q1 as [Q1|Q1]; congruence. }
        rewrite Q4, tree_at_set_tree_other by auto. split; auto.
        apply Q6. unfold nn. intros E. apply Nj. lia.
  Qed.

  (* C15: offline hides the counter of the tree *)
  Theorem ghost_change_offline x m ch i t r x' :
    UpperInv g policy x -> change_cfg (us x) ch ->
    m_id m = Some i -> tree_at (us x) i = Some t -> t_res t = false ->
    m_free m <= t_free t -> (forall k, m_class m = Some k -> k = t_class t) ->
    c_op ch = Some OpOffline ->
    ghost_change g x m ch = (r, x') ->
    r = Ok tt /\
    tree_at (us x') i = Some {| t_free := 0; t_res := false;
                                t_class := match c_class ch with Some c => c | None => t_class t end |} /\
    nth (nn i) (off x') 0 = nth (nn i) (off x) 0 + t_free t.
  Proof.
    intros HI Hcfg Em Ht R Hf Hc Hop HG. apply UpperInv_C0 in HI.
    pose proof (ghost_change_by_id x m ch i r x' HI Em HG) as S. rewrite Ht in S.
    unfold tree_apply_change in S. rewrite R, Hop in S. apply N.leb_le in Hf. rewrite Hf in S.
    assert (Ec : match m_class m with Some k => k =? t_class t | None => true end = true).
    { destruct (m_class m) as [k|]; auto. apply N.eqb_eq. auto. }
    rewrite Ec in S. cbn [negb andb] in S. destruct S as (-> & S2 & S3). splits; auto.
    - rewrite S2. erewrite tree_at_set_tree_same; eauto.
    - rewrite S3. unfold goff. rewrite Hop.
      destruct (tree_eqb t _) eqn:Eq; auto. apply tree_eqb_true in Eq. cbn [t_free] in Eq. lia.
  Qed.

  (* online restores the counter from the lower allocator *)
  Theorem ghost_change_online x m ch i t r x' :
    UpperInv g policy x -> change_cfg (us x) ch ->
    m_id m = Some i -> tree_at (us x) i = Some t -> t_res t = false -> t_free t = 0 ->
    m_free m = 0 -> (forall k, m_class m = Some k -> k = t_class t) ->
    c_op ch = Some OpOnline ->
    ghost_change g x m ch = (r, x') ->
    r = Ok tt /\
    tree_at (us x') i = Some {| t_free := tree_free g (low (us x)) i; t_res := false;
                                t_class := match c_class ch with Some c => c | None => t_class t end |} /\
    nth (nn i) (off x') 0 = 0.
  Proof.
    intros HI Hcfg Em Ht R Z Hf Hc Hop HG. apply UpperInv_C0 in HI.
    pose proof (ghost_change_by_id x m ch i r x' HI Em HG) as S. rewrite Ht in S.
    unfold tree_apply_change in S. rewrite R, Hop, Hf, Z in S.
    assert (Ec : match m_class m with Some k => k =? t_class t | None => true end = true).
    { destruct (m_class m) as [k|]; auto. apply N.eqb_eq. auto. }
    rewrite Ec in S. cbn [negb andb] in S. change (0 <=? 0) with true in S. change (0 =? 0) with true in S.
    cbn iota in S. destruct S as (-> & S2 & S3). splits; auto.
    - rewrite S2. erewrite tree_at_set_tree_same; eauto.
    - rewrite S3. unfold goff. rewrite Hop.
      destruct (tree_eqb t _) eqn:Eq; auto. apply tree_eqb_true in Eq. cbn [t_free] in Eq.
      pose proof (UIC_tree g policy WF LF _ _ _ _ _ HI Ht) as Hok.
      apply tree_okC_nn in Hok; auto. destruct Hok as (A & B & _). rewrite R in A.
      assert (L1 : slots_of g (us x) i = []) by (apply length_zero_iff_nil; lia).
      rewrite L1 in B. cbn [ih_of filter ih_sum fold_right sum_free] in B. lia.
  Qed.
End Change.

Section Reflect.
  Variable g : geom.
  Variable policy : N -> N -> N -> pol.
  Hypothesis KI : pol_kind_indep policy.

  Lemma keeps_kind p q : pol_kind p = pol_kind q -> pol_keeps p = pol_keeps q.
  Proof. destruct p, q; cbn; try discriminate; auto. Qed.

  Lemma in_combine_seq {A} (l : list A) : forall s i t, nth_error l i = Some t ->
    In ((s + i)%nat, t) (combine (seq s (length l)) l).
  Proof.
    induction l as [|a l IH]; intros s i t H; destruct i; try discriminate; cbn in *.
    - inversion H; subst. left. f_equal. lia.
    - right. replace (s + S i)%nat with (S s + i)%nat by lia. apply IH. auto.
  Qed.

  (* the executable invariant is sound (for policies whose kind does not depend on `free`) *)
  Theorem upper_invb_sound x : upper_invb g policy x = true -> UpperInv g policy x.
  Proof.
    unfold upper_invb, UpperInv. rewrite !andb_true_iff.
    intros ((((((H1 & H2) & H3) & H4) & H5) & H6) & H7).
    apply lower_invb_sound in H1. apply Nat.eqb_eq in H2, H3, H4.
    rewrite forallb_forall in H6, H7.
    splits; auto.
    - destruct (class_slots (us x) (dflt (us x))); congruence.
    - intros i t Hi. pose proof (in_combine_seq _ 0 i t Hi) as Hin. cbn [Nat.add] in Hin.
      specialize (H6 _ Hin). cbn [fst snd] in H6. unfold tree_okb in H6. rewrite !andb_true_iff in H6.
      destruct H6 as (((A & B) & C) & D). apply Nat.eqb_eq in A. apply N.eqb_eq in B.
      unfold tree_ok. cbv zeta. splits; auto.
      + destruct (t_res t); auto.
      + destruct (class_slots (us x) (t_class t)); congruence.
      + intros c s Hcs f. rewrite forallb_forall in D. specialize (D _ Hcs). cbn [fst forallb] in D.
        apply andb_true_iff in D. destruct D as (D & _).
        rewrite <- D. apply keeps_kind. apply KI.
    - intros c s Hcs. specialize (H7 _ Hcs). cbn [snd] in H7. rewrite !andb_true_iff in H7.
      destruct H7 as ((A & B) & C). apply N.ltb_lt in A, B. apply N.leb_le in C. auto.
  Qed.
End Reflect.

(* ---------- non-vacuity: a concrete geometry, policy and reachable states ---------- *)
Definition g0 : geom := {| hord := 9; tlog := 2 |}.
Definition pol0 (r t f : N) : pol := if t <? r then PSteal else if r <? t then PDemote else PMatch 1.

Lemma g0_wf : wf_geom g0.
Proof. unfold wf_geom, g0; cbn; lia. Qed.
Lemma pol0_refl_match : pol_refl_match pol0.
Proof. intros c f. unfold pol0. rewrite N.ltb_irrefl. reflexivity. Qed.
Lemma pol0_kind_indep : pol_kind_indep pol0.
Proof. intros r t f f'. reflexivity. Qed.
Lemma pol0_demote_trans : pol_demote_trans pol0.
Proof.
  intros a b c f f'. unfold pol0.
  destruct (b <? a) eqn:E1; try discriminate. destruct (a <? b) eqn:E2; try discriminate. intros _.
  destruct (c <? b) eqn:E3; try discriminate. intros _.
  apply N.ltb_lt in E2. apply N.ltb_ge in E3.
  assert (E4 : (c <? a) = false) by (apply N.ltb_ge; lia). rewrite E4.
  destruct (a <? c); reflexivity.
Qed.
Lemma pol0_never_invalid : pol_never_invalid pol0.
Proof. intros r t f. unfold pol0. destruct (t <? r); auto. destruct (r <? t); auto. Qed.

Definition lower0 : lower := {| frames := 0; bfs := []; ents := [] |}.
Definition upper0 : upper := {| low := lower0; trees := []; locals := []; dflt := 0 |}.
Definition rq (o : nat) (c : N) (l : option N) : request := {| r_order := o; r_class := c; r_local := l |}.
Definition gget (x : ustate) (f : option N) (r : request) : res (N * N) * ustate :=
  ghost_lift (fun u => llfree_get g0 pol0 u f r) x.
Definition gput (x : ustate) (f : N) (r : request) : res unit * ustate :=
  ghost_lift (fun u => llfree_put g0 pol0 u f r) x.

(* 2 full trees + a quarter tree, classes 0 (2 slots) and 1 (1 slot), default class 0 *)
Definition ex_new : upper :=
  match llfree_new g0 4608 IFreeAll [(0, 2); (1, 1)] 0 lower0 [] (repeat slot_none 3) with
  | Ok u => u | _ => upper0 end.
Definition ex0 : ustate := ustate_new ex_new.
Definition ex1 : ustate := snd (gget ex0 None (rq 0 0 (Some 0))).     (* reserves tree 1, frame 2048 *)
Definition ex2 : ustate := snd (gget ex1 None (rq 9 1 (Some 0))).     (* huge frame *)
Definition ex3 : ustate := snd (gget ex2 None (rq 3 0 None)).         (* 8 frames, no slot *)

Lemma ex3_inv : UpperInv g0 pol0 ex3.
Proof. apply upper_invb_sound; [exact pol0_kind_indep|]. vm_compute. reflexivity. Qed.

Example llfree_put_nonvacuous_slot :
  UpperInv g0 pol0 ex3 /\ valid_req (us ex3) (rq 0 0 (Some 0)) /\
  check g0 (us ex3) 2048 (rq 0 0 (Some 0)) = Ok tt /\
  spec_put_enabled g0 (abs g0 (low (us ex3))) 2048 0 = true /\
  fst (gput ex3 2048 (rq 0 0 (Some 0))) = Ok tt.
Proof.
  split; [exact ex3_inv|]. split.
  - unfold valid_req. cbn [r_local rq]. intros l Hl. vm_compute in Hl. inversion Hl; subst l. reflexivity.
  - vm_compute. auto.
Qed.

Example llfree_put_nonvacuous_global :
  UpperInv g0 pol0 ex3 /\ valid_req (us ex3) (rq 3 0 None) /\
  check g0 (us ex3) 512 (rq 3 0 None) = Ok tt /\
  spec_put_enabled g0 (abs g0 (low (us ex3))) 512 3 = true /\
  spec_put_enabled g0 (abs g0 (low (us ex3))) 1024 3 = false /\
  check g0 (us ex3) 4607 (rq 3 0 None) = Err EArgument.
Proof. split; [exact ex3_inv|]. split; [exact I|]. vm_compute. auto. Qed.

Example llfree_drain_nonvacuous :
  UpperInv g0 pol0 ex3 /\ present_slots (us ex3) <> [] /\
  (exists i t, tree_at (us ex3) i = Some t /\ t_res t = true).
Proof.
  split; [exact ex3_inv|]. split.
  - vm_compute. discriminate.
  - exists 1. vm_compute. eexists. split; reflexivity.
Qed.

Definition ex_m0 : tree_match := {| m_id := Some 0; m_class := Some 0; m_free := 100 |}.
Definition ex_off : tree_change := {| c_class := Some 1; c_op := Some OpOffline |}.
Definition ex_on : tree_change := {| c_class := None; c_op := Some OpOnline |}.
Definition ex4 : ustate := snd (ghost_change g0 ex3 ex_m0 ex_off).

Example ghost_change_nonvacuous :
  UpperInv g0 pol0 ex3 /\ change_cfg (us ex3) ex_off /\
  (exists t, tree_at (us ex3) 0 = Some t /\ t_res t = false /\ m_free ex_m0 <= t_free t /\ t_class t = 0) /\
  fst (ghost_change g0 ex3 ex_m0 ex_off) = Ok tt /\
  (* a reserved tree and a non-existent tree *)
  fst (ghost_change g0 ex3 {| m_id := Some 1; m_class := None; m_free := 0 |} ex_off) = Err EMemory /\
  fst (ghost_change g0 ex3 {| m_id := Some 7; m_class := None; m_free := 0 |} ex_off) = Err EArgument /\
  (* search *)
  fst (ghost_change g0 ex3 {| m_id := None; m_class := Some 0; m_free := 2000 |} ex_off) = Err EMemory /\
  fst (ghost_change g0 ex3 {| m_id := None; m_class := Some 0; m_free := 500 |} ex_off) = Ok tt.
Proof.
  split; [exact ex3_inv|]. split.
  - intros c Hc. vm_compute in Hc. inversion Hc; subst c. vm_compute. discriminate.
  - split.
    + vm_compute. eexists. split; [reflexivity|]. split; [reflexivity|]. split; [discriminate|reflexivity].
    + vm_compute. auto 10.
Qed.

Lemma ex4_inv : UpperInv g0 pol0 ex4.
Proof. apply upper_invb_sound; [exact pol0_kind_indep|]. vm_compute. reflexivity. Qed.

Example ghost_change_online_nonvacuous :
  UpperInv g0 pol0 ex4 /\ change_cfg (us ex4) ex_on /\
  (exists t, tree_at (us ex4) 0 = Some t /\ t_res t = false /\ t_free t = 0 /\ t_class t = 1) /\
  nth 0 (off ex4) 0 = 1528 /\
  fst (ghost_change g0 ex4 {| m_id := Some 0; m_class := Some 1; m_free := 0 |} ex_on) = Ok tt.
Proof.
  split; [exact ex4_inv|]. split.
  - intros c Hc. discriminate.
  - split.
    + vm_compute. eexists. split; [reflexivity|]. auto.
    + vm_compute. auto.
Qed.
