(* The invariant of machine M2 (UpperMachine.v) under arbitrary interleavings.  Definitions only (plus the
   boolean checker `uinv_b` used for testing by vm_compute, see UpperConcInvTest.v).

   Per-thread ghost `ugh`, a FUNCTION of the thread's (primitive, continuation stack) -- and of the embedded
   M1 thread's (call, pc) for `PLow`:
     g_cr : credits (tree, amount): frames taken from a tree counter / a local slot and not yet taken from the
            lower allocator (get side), or already given back to the lower allocator and not yet added to a
            counter / a slot (put side, undo paths), or taken by `Trees::sync` and not yet put into the slot.
            While the thread is inside `Lower::get` the amount is `lhold` of the embedded M1 thread: what is left
            of the request after the entry decrements M1 has performed so far; inside `Lower::put`: what the
            entry increments have added so far.  Hence  tree_free(lower memory) - sum of credits  is unchanged
            by every M1 step (UpperConcM1.step_hold), as are the tree counters: the conservation equation
            counter + slots + credits + in-hand = tree_free  is stable under M1 steps.
     g_ih : in-hand reservations (tree, class, free): a reservation swapped out of a slot or just created by
            reserve_or_steal and not yet installed in a slot / unreserved.
     g_bl : frames obtained from the lower allocator by a `UGet` that has not returned yet (the block belongs to
            M1's `held` ghost but not yet to M2's).
   Invariant: the sequential `UpperInvC` shape (UpperPrims.v) without its `LowerInv` conjunct, with
   credit := sum over the pool of g_cr, in-hand := concatenation over the pool of g_ih; plus M1's invariant
   `Inv` for the M1 state formed by the embedded threads over the shared lower memory. *)
From LLF Require Import Base Row Bitfield Lower Spec Sorted Upper UpperInvDef UpperPrims LowerMachine ConcBase
  ConcInvDef UpperMachine.

Record ugh := { g_cr : list (N * N); g_ih : list (N * N * N); g_bl : list N }.
Definition gh_nil : ugh := {| g_cr := []; g_ih := []; g_bl := [] |}.
Definition gh_add (a b : ugh) : ugh :=
  {| g_cr := g_cr a ++ g_cr b; g_ih := g_ih a ++ g_ih b; g_bl := g_bl a ++ g_bl b |}.
Definition gh_cr (t a : N) : ugh := {| g_cr := [(t, a)]; g_ih := []; g_bl := [] |}.
Definition gh_ih (t c f : N) : ugh := {| g_cr := []; g_ih := [(t, c, f)]; g_bl := [] |}.
Definition gh_bl (fr : N) : ugh := {| g_cr := []; g_ih := []; g_bl := [fr] |}.

Definition crsum (l : list (N * N)) (i : N) : N := sumf (fun p => if fst p =? i then snd p else 0) l.

Section Def.
  Variable g : geom.
  Variable policy : N -> N -> N -> pol.
  Notation HF := (HF g).
  Notation TF := (TF g).

  (* what is left of the request of a lower get (what has been added so far by a lower put) *)
  Definition lhold (th : thr) : N :=
    match th with
    | TRun c p =>
        match c with
        | CPut _ _ => match p with HC _ q => q * HF | _ => 0 end
        | _ => match p with
               | G1L _ | G1C _ _ | A1L | A1C _ => c_n c
               | HC _ q => c_n c - q * HF
               | HU _ q => c_n c - (q + 1) * HF
               | _ => 0
               end
        end
    | _ => 0
    end.

  Definition tf_gh (i : N) (f : tfun) : ugh :=
    match f with
    | FPut free => gh_cr i free
    | FUnres free class => gh_ih i class free
    | _ => gh_nil
    end.
  Definition sf_gh (f : sfun) : ugh :=
    match f with
    | SPut tree free => gh_cr tree free
    | _ => gh_nil
    end.
  Definition slot_gh (c : N) (s : slot) : ugh :=
    if s_pres s then gh_ih (row_tree g (s_row s)) c (s_free s) else gh_nil.

  (* a thread inside the lower allocator: the frame below says on whose behalf *)
  Definition low_gh (h : N) (top : option kframe) : ugh :=
    match top with
    | Some (KGL2 _ _ _ row) => gh_cr (row_tree g row) h
    | Some (KRS2 i o _ reserved free tc) =>
        if reserved then gh_add (gh_ih i tc (free - pow2 o)) (gh_cr i h) else gh_cr i h
    | Some (KSG2 i _ _) => gh_cr i h
    | Some (KSL2 _ row _) => gh_cr (row_tree g row) h
    | Some (KDL4 _ row) => gh_cr (row_tree g row) h
    | Some (KPut1 frame _) => gh_cr (frame / TF) h
    | _ => gh_nil
    end.

  Definition prim_gh (p : prim) (top : option kframe) : ugh :=
    match p with
    | PLd _ => gh_nil
    | PTL i f | PTF i f _ _ _ | PTC i f _ _ => tf_gh i f
    | PSL _ _ f | PSC _ _ f _ _ => sf_gh f
    | PSW c _ new => slot_gh c new
    | PLow th => low_gh (lhold th) top
    end.

  Definition frame_gh (f : kframe) : ugh :=
    match f with
    | KDL2 r _ row | KDL3 r _ row => gh_cr (row_tree g row) (pow2 (r_order r))
    | KGL3 fr _ | KRS3 fr _ => gh_bl fr
    | KUnres (Ok (fr, _)) => gh_bl fr
    | _ => gh_nil
    end.
  Definition frames_gh (k : list kframe) : ugh := fold_right (fun f a => gh_add (frame_gh f) a) gh_nil k.

  Definition pk_gh (p : prim) (k : list kframe) : ugh := gh_add (prim_gh p (hd_error k)) (frames_gh k).
  Definition uthr_gh (x : uthr) : ugh :=
    match x with
    | URun _ p k => pk_gh p k
    | _ => gh_nil
    end.

  (* ----- the M1 state formed by the embedded threads ----- *)
  Definition low_thr (x : uthr) : thr :=
    match x with
    | URun _ (PLow th) _ => th
    | UPanic SExceedingRetries (UPut f r) => TPanic SExceedingRetries (CPut f (r_order r))
    | _ => TIdle None
    end.
  Definition inflight (x : uthr) : list (N * nat) :=
    match x with
    | URun (UGet _ r) p k => map (fun fr => (fr, r_order r)) (g_bl (pk_gh p k))
    | _ => []
    end.
  Definition m1_of (s : m2state) : mstate :=
    {| ms_frames := frames (low (m2_up s)); ms_ents := ents (low (m2_up s)); ms_bfs := bfs (low (m2_up s));
       ms_pool := map low_thr (m2_pool s);
       ms_held := m2_held s ++ flat_map inflight (m2_pool s) |}.

  (* ----- sums over the pool ----- *)
  Definition CRf (gs : list ugh) (i : N) : N := sumf (fun x => crsum (g_cr x) i) gs.
  Definition IHf (gs : list ugh) : list (N * N * N) := flat_map g_ih gs.

  (* ----- the upper part: UpperInvC without LowerInv, with the bound on tree_free it is used for ----- *)
  Definition tree_ok2 (u : upper) (offs : list N) (cr : N -> N) (ih : list (N * N * N)) (i : nat) (t : tree) : Prop :=
    let ti := N.of_nat i in
    let sl := slots_of g u ti in
    (length sl + length (ih_of ih ti) = if t_res t then 1 else 0)%nat /\
    t_free t + sum_free sl + nth i offs 0 + cr ti + ih_sum (ih_of ih ti) = tree_free g (low u) ti /\
    class_slots u (t_class t) <> None /\
    (forall c s, In (c, s) sl -> forall f, pol_keeps (policy c (t_class t) f) = true) /\
    (forall c f0, In (ti, c, f0) ih -> forall f, pol_keeps (policy c (t_class t) f) = true).

  Definition UIC2 (cr : N -> N) (ih : list (N * N * N)) (x : ustate) : Prop :=
    let u := us x in
    (forall t, t < ntab g (frames (low u)) -> tree_free g (low u) t <= TF) /\
    length (trees u) = nn (ntab g (frames (low u))) /\
    length (off x) = length (trees u) /\
    length (locals u) = 8%nat /\
    class_slots u (dflt u) <> None /\
    (forall i t, nth_error (trees u) i = Some t -> tree_ok2 u (off x) cr ih i t) /\
    (forall c s, In (c, s) (present_slots u) ->
       row_tree g (s_row s) < ntrees u /\ s_row s * 64 < frames (low u) /\ s_free s <= TF) /\
    (forall t c f, In (t, c, f) ih -> t < ntrees u /\ class_slots u c <> None).

  (* ----- boolean checker (testing only) ----- *)
  Definition tree_ok2b (u : upper) (cr : N -> N) (ih : list (N * N * N)) (i : nat) (t : tree) : bool :=
    let ti := N.of_nat i in
    let sl := slots_of g u ti in
    Nat.eqb (length sl + length (ih_of ih ti)) (if t_res t then 1 else 0) &&
    (t_free t + sum_free sl + cr ti + ih_sum (ih_of ih ti) =? tree_free g (low u) ti) &&
    (match class_slots u (t_class t) with Some _ => true | None => false end) &&
    forallb (fun cs => forallb (fun f => pol_keeps (policy (fst cs) (t_class t) f)) [0; 1; TF / 2; TF]) sl &&
    forallb (fun e => forallb (fun f => pol_keeps (policy (snd (fst e)) (t_class t) f)) [0; 1; TF / 2; TF]) (ih_of ih ti).

  Definition uic2b (cr : N -> N) (ih : list (N * N * N)) (u : upper) : bool :=
    forallb (fun t => tree_free g (low u) t <=? TF) (nseq (ntab g (frames (low u)))) &&
    Nat.eqb (length (trees u)) (nn (ntab g (frames (low u)))) &&
    Nat.eqb (length (locals u)) 8 &&
    (match class_slots u (dflt u) with Some _ => true | None => false end) &&
    forallb (fun it => tree_ok2b u cr ih (fst it) (snd it)) (combine (seq 0 (length (trees u))) (trees u)) &&
    forallb (fun cs => (row_tree g (s_row (snd cs)) <? ntrees u) && (s_row (snd cs) * 64 <? frames (low u))
                       && (s_free (snd cs) <=? TF)) (present_slots u) &&
    forallb (fun e => (fst (fst e) <? ntrees u) &&
                      match class_slots u (snd (fst e)) with Some _ => true | None => false end) ih.

  Definition panic_okb (x : uthr) : bool :=
    match x with
    | UPanic SExceedingRetries (UPut _ _) => true
    | UPanic _ _ => false
    | _ => true
    end.

  Definition uinv_b (s : m2state) : bool :=
    let gs := map uthr_gh (m2_pool s) in
    inv_b g (m1_of s) &&
    uic2b (CRf gs) (IHf gs) (m2_up s) &&
    forallb panic_okb (m2_pool s).
End Def.
