(* L5: metadata layout arithmetic, `MetaData::valid`, and the zone / persistent wrappers
   (llfree.rs `metadata_size`/`MetaData::valid`, lower.rs `Metadata::new`, trees.rs/local.rs
   `metadata_size`, util.rs `size_of_slice`/`OffsetSlice`, bitfield.rs `toggle_int`, wrapper.rs).
   Definitions only.  Sizes and addresses are N; where the Rust computes on `usize`/pointers with
   wrap-around (`b.end.sub(1)`) the wrap is written explicitly (`wdec64`).

   Element types of the pinned code (size_of = stride, align_of):
     Align<Bitfield>            ROWS*8 rounded up to 64, 64     (lower buffer, first part)
     Align<[HugeEntry; TH]>     2*TH   rounded up to 64, 64     (lower buffer, second part)
     Atom<Tree>                 4, 4                            (trees buffer; whole array rounded to 64)
     Local                      64, 64 (one 8-byte word used)   (local buffer)
   NOTE lower.rs computes the first part as `size_of_slice::<Bitfield>` (stride ROWS*8, align 8) although
   the slice it builds is `[Align<Bitfield>]` (stride rounded up to 64).  Both agree iff ROWS*8 is a
   multiple of 64, i.e. HUGE_ORDER >= 9, which holds for the two geometries the crate can be built
   with (9 and 11).  `bitfield_bytes` is the stride of the slice that is actually built;
   `bitfield_bytes_as_computed` is the Rust formula; `MetaProofs.bitfield_bytes_agree` relates them. *)
From LLF Require Import Base Row Bitfield Lower.

Definition CACHE : N := 64.
(* usize::next_multiple_of *)
Definition align_up (v a : N) : N := div_ceil v a * a.

Record buf := { b_addr : N; b_len : N }.                       (* a `&mut [u8]`: as_ptr, len *)
Definition b_end (b : buf) : N := b_addr b + b_len b.          (* as_ptr_range().end *)

(* classing = list of (class id, number of local slots), as in Upper.v *)
Definition slots_total (cl : list (N * N)) : N := fold_right (fun e acc => snd e + acc) 0 cl.

Section Sizes.
  Variable g : geom.

  Definition bitfield_bytes : N := align_up (ROWS g * 8) CACHE.
  Definition bitfield_bytes_as_computed : N := ROWS g * 8.      (* size_of::<Bitfield>().next_multiple_of(8) *)
  Definition table_bytes : N := align_up (2 * THUGE g) CACHE.
  (* Lower::metadata_size *)
  Definition lower_size (fr : N) : N := nbf g fr * bitfield_bytes + ntab g fr * table_bytes.
  (* Trees::metadata_size *)
  Definition trees_size (fr : N) : N := align_up (4 * ntab g fr) CACHE.
  (* Locals::metadata_size *)
  Definition local_size (cl : list (N * N)) : N := slots_total cl * 64.

  (* ----- byte location (offset in its buffer) and width of every metadata word ----- *)
  (* row r of bitfield h: lower buffer, 8 bytes *)
  Definition row_loc (h r : N) : N := h * bitfield_bytes + r * 8.
  (* huge entry h (global index = tree * THUGE + child): lower buffer, 2 bytes *)
  Definition ent_loc (fr : N) (h : N) : N :=
    nbf g fr * bitfield_bytes + (h / THUGE g) * table_bytes + (h mod THUGE g) * 2.
  (* tree entry t: trees buffer, 4 bytes *)
  Definition tree_loc (t : N) : N := t * 4.

  (* `toggle_int::<I>` for order 3..6 at frame f: width 2^order / 8 bytes, index
     `(f mod HF) / (8 * size_of I)` in units of `size_of I` from the start of the bitfield *)
  Definition narrow_width (order : nat) : N := pow2 order / 8.
  Definition narrow_loc (f : N) (order : nat) : N :=
    (f / HF g) * bitfield_bytes + ((f mod HF g) / pow2 order) * narrow_width order.

  (* the two `from_raw_parts_mut` of Lower::new: (offset, byte length) inside the lower buffer *)
  Definition lower_bitfields_part (fr : N) : N * N := (0, nbf g fr * bitfield_bytes).
  Definition lower_tables_part (fr : N) : N * N := (nbf g fr * bitfield_bytes, ntab g fr * table_bytes).
End Sizes.

(* Locals::new: classes are laid out in classing order; `classes[id] = Some(OffsetSlice(offset, count))`,
   a later entry with the same id replaces the earlier one.  Result: (byte offset, count). *)
Fixpoint class_lookup (cl : list (N * N)) (c : N) (off : N) (acc : option (N * N)) : option (N * N) :=
  match cl with
  | [] => acc
  | (id, cnt) :: r => class_lookup r c (off + cnt * 64) (if id =? c then Some (off, cnt) else acc)
  end.
(* slot i of class c: local buffer, 8 bytes (the `tree` word at offset 0 of the 64-byte `Local`) *)
Definition slot_loc (cl : list (N * N)) (c i : N) : option N :=
  match class_lookup cl c 0 None with
  | Some (off, cnt) => if i <? cnt then Some (off + i * 64) else None
  | None => None
  end.

(* ---------- MetaData::valid ---------- *)
(* `p.sub(1)` on a pointer: wrapping decrement of a 64-bit address *)
Definition wdec64 (a : N) : N := (a + W64 - 1) mod W64.
(* Range<*const u8>::contains *)
Definition rcontains (b : buf) (x : N) : bool := (b_addr b <=? x) && (x <? b_end b).
(* `overlap` exactly as written: four endpoint containments *)
Definition overlap (a b : buf) : bool :=
  rcontains a (b_addr b) || rcontains a (wdec64 (b_end b))
  || rcontains b (b_addr a) || rcontains b (wdec64 (b_end a)).
Definition aligned64 (b : buf) : bool := b_addr b mod 64 =? 0.

Definition meta_valid (g : geom) (fr : N) (cl : list (N * N)) (local trees lower : buf) : bool :=
  (local_size cl <=? b_len local)
  && (trees_size g fr <=? b_len trees)
  && (lower_size g fr <=? b_len lower)
  && aligned64 local && aligned64 trees && aligned64 lower
  && negb (overlap local trees)
  && negb (overlap trees lower)
  && negb (overlap lower local).

(* the specification `valid` is compared with: real intersection of byte ranges *)
Definition intersects (a b : buf) : bool := (b_addr a <? b_end b) && (b_addr b <? b_end a).

(* the checks of the three constructors that run after `valid` *)
Definition lower_new_ok (g : geom) (fr : N) (lower : buf) : bool :=
  (lower_size g fr <=? b_len lower) && aligned64 lower.
Definition locals_new_ok (cl : list (N * N)) (local : buf) : bool :=
  (local_size cl <=? b_len local) && aligned64 local.
Definition trees_new_ok (g : geom) (fr : N) (trees : buf) : bool := trees_size g fr <=? b_len trees.

(* ---------- ZoneAlloc ---------- *)
Section Zone.
  Variables state request class stat : Type.
  Variable inner_get : state -> option N -> request -> res (N * class) * state.
  Variable inner_put : state -> N -> request -> res unit * state.
  Variable inner_stats_at : state -> N -> nat -> stat.
  Variable stat_default : stat.

  (* `frame_id.0 + self.offset`: checked usize addition (the harness builds with overflow checks) *)
  Definition zone_add (f off : N) : res N := if f + off <? W64 then Ok (f + off) else Panic (SArith 170).

  Definition zone_get (off : N) (s : state) (frame : option N) (rq : request) : res (N * class) * state :=
    let fwd (fr : option N) :=
      let '(r, s') := inner_get s fr rq in
      (match r with
       | Ok (f, c) => match zone_add f off with Ok f' => Ok (f', c) | Err e => Err e | Panic p => Panic p end
       | Err e => Err e
       | Panic p => Panic p
       end, s') in
    match frame with
    | Some f => if f <? off then (Err EArgument, s) else fwd (Some (f - off))
    | None => fwd None
    end.

  Definition zone_put (off : N) (s : state) (f : N) (rq : request) : res unit * state :=
    if f <? off then (Err EArgument, s) else inner_put s (f - off) rq.

  Definition zone_stats_at (off : N) (s : state) (f : N) (order : nat) : stat :=
    if f <? off then stat_default else inner_stats_at s (f - off) order.
End Zone.

(* ZoneAlloc::create's own check *)
Definition zone_create_ok (g : geom) (off : N) : bool := off mod TF g =? 0.

(* ---------- NvmAlloc::create ---------- *)
Definition NVM_MAGIC : N := 3735928559.                          (* 0xdeadbeef *)

Record nvm_layout_t := {
  nl_managed : N;          (* frames handed to the inner allocator: [0, n) of the zone *)
  nl_meta_pages : N;       (* pages holding the lower metadata: [n, n + p) *)
  nl_lower_off : N;        (* byte offset of the lower metadata buffer in the zone *)
  nl_lower_len : N;        (* its length = lower_size of the ZONE length *)
  nl_header_off : N        (* byte offset of the header page (the last frame) *)
}.

Section Nvm.
  Variable g : geom.
  Variable fs : N.                                               (* Frame::SIZE *)

  (* zone of z frames: frames | lower metadata (computed for z frames) | header page *)
  Definition nvm_layout (z : N) : res nvm_layout_t :=
    let m := lower_size g z in
    if z * fs <? m + fs then Err EInit                           (* the size guard *)
    else
      let p := div_ceil m fs in
      if z - 1 <? p then Panic (SArith 151)                      (* `zone.len() - m.lower.div_ceil(..)` *)
      else Ok {| nl_managed := z - 1 - p; nl_meta_pages := p;
                 nl_lower_off := (z - 1 - p) * fs; nl_lower_len := m;
                 nl_header_off := (z - 1) * fs |}.

  (* the decision of `create(zone, recover, ..)` before the inner allocator is built:
     base = zone.as_ptr(), header = (magic, frames) words found in the last frame.
     Ok (offset in frames, layout, header written?) *)
  Definition nvm_create (base z : N) (recover : bool) (h_magic h_frames : N)
    : res (N * nvm_layout_t * bool) :=
    let m := lower_size g z in
    if (z * fs <? m + fs) || negb (base mod (fs * TF g) =? 0) then Err EInit
    else if recover && negb ((h_magic =? NVM_MAGIC) && (h_frames =? z - 1)) then Err EInit
    else match nvm_layout z with
         | Ok l => Ok (base / fs, l, negb recover)
         | Err e => Err e
         | Panic p => Panic p
         end.

  (* the MetaData the inner allocator is created with: caller's local/trees + the in-zone lower buffer *)
  Definition nvm_lower_buf (base : N) (l : nvm_layout_t) : buf :=
    {| b_addr := base + nl_lower_off l; b_len := nl_lower_len l |}.
End Nvm.
