(* Generic machinery for the preservation proof: reading the memory after a write, the generic step
   lemma (all obligations stated as deltas against the old state), the global counting lemmas K1 / K2. *)
From Coq Require Import PeanoNat.
From LLF Require Import Base BitLemmas Row RowProofs Bitfield Lower Spec LowerMachine ConcBase ConcInvDef ConcInvGeom.

Lemma nn_inj a b : nn a = nn b -> a = b. Proof. unfold nn. lia. Qed.
Lemma nn_eqb a b : Nat.eqb (nn a) (nn b) = (a =? b).
Proof. destruct (N.eqb_spec a b) as [->|H]; [apply Nat.eqb_refl|]. apply Nat.eqb_neq. intro E. apply H, nn_inj, E. Qed.

(* ---------- memory after updates ---------- *)
Section Mem.
  Variable g : geom.
  Notation HF := (HF g).
  Notation ROWS := (ROWS g).

  Lemma entv_set_thr s t x h : entv (set_thr s t x) h = entv s h. Proof. reflexivity. Qed.
  Lemma entv_set_held s hl h : entv (set_held s hl) h = entv s h. Proof. reflexivity. Qed.
  Lemma rowv_set_thr s t x h r : rowv (set_thr s t x) h r = rowv s h r. Proof. reflexivity. Qed.
  Lemma rowv_set_held s hl h r : rowv (set_held s hl) h r = rowv s h r. Proof. reflexivity. Qed.
  Lemma zeros_set_thr s t x h : zeros (set_thr s t x) h = zeros s h. Proof. reflexivity. Qed.
  Lemma zeros_set_held s hl h : zeros (set_held s hl) h = zeros s h. Proof. reflexivity. Qed.

  Lemma entv_wr_ent s h v cur h' : rd_ent s h = Some cur -> entv (wr_ent s h v) h' = if h' =? h then v else entv s h'.
  Proof.
    intros H. unfold entv, rd_ent, wr_ent in *. cbn [ms_ents set_ents].
    destruct (N.eqb_spec h' h) as [->|Hne].
    - rewrite nth_error_upd_same; [reflexivity|]. apply nth_error_some_lt in H. exact H.
    - rewrite nth_error_upd_other; [reflexivity|]. intro E. apply Hne. symmetry. apply nn_inj, E.
  Qed.
  Lemma rowv_wr_ent s h v h' r : rowv (wr_ent s h v) h' r = rowv s h' r. Proof. reflexivity. Qed.
  Lemma zeros_wr_ent s h v h' : zeros (wr_ent s h v) h' = zeros s h'. Proof. reflexivity. Qed.

  Lemma entv_wr_row s h r v h' : entv (wr_row s h r v) h' = entv s h'.
  Proof. unfold wr_row. destruct (nth_error (ms_bfs s) (nn h)); reflexivity. Qed.
  Lemma rowv_wr_row s h r v cur h' r' : rd_row s h r = Some cur ->
    rowv (wr_row s h r v) h' r' = if (h' =? h) && (r' =? r) then v else rowv s h' r'.
  Proof.
    intros H. unfold rowv, rd_row, wr_row in *.
    destruct (nth_error (ms_bfs s) (nn h)) as [rows|] eqn:E; [|discriminate].
    cbn [ms_bfs set_bfs].
    destruct (N.eqb_spec h' h) as [->|Hne]; cbn [andb].
    - rewrite nth_error_upd_same by (apply nth_error_some_lt in E; exact E).
      destruct (N.eqb_spec r' r) as [->|Hne].
      + rewrite nth_error_upd_same; [reflexivity|]. apply nth_error_some_lt in H. exact H.
      + rewrite nth_error_upd_other, E; [reflexivity|]. intro E'. apply Hne. symmetry. apply nn_inj, E'.
    - rewrite nth_error_upd_other; [reflexivity|]. intro E'. apply Hne. symmetry. apply nn_inj, E'.
  Qed.
  Lemma zeros_wr_row_same s h r v cur : rd_row s h r = Some cur ->
    zeros (wr_row s h r v) h + cz cur = zeros s h + cz v.
  Proof.
    intros H. unfold zeros, rd_row, wr_row in *.
    destruct (nth_error (ms_bfs s) (nn h)) as [rows|] eqn:E; [|discriminate].
    cbn [ms_bfs set_bfs]. rewrite nth_error_upd_same by (apply nth_error_some_lt in E; exact E).
    apply sumf_upd. exact H.
  Qed.
  Lemma zeros_wr_row_other s h r v h' : h' <> h -> zeros (wr_row s h r v) h' = zeros s h'.
  Proof.
    intros Hne. unfold zeros, wr_row. destruct (nth_error (ms_bfs s) (nn h)) as [rows|] eqn:E; [|reflexivity].
    cbn [ms_bfs set_bfs]. rewrite nth_error_upd_other; [reflexivity|]. intro E'. apply Hne. symmetry. apply nn_inj, E'.
  Qed.
  Lemma frames_wr_row s h r v : ms_frames (wr_row s h r v) = ms_frames s.
  Proof. unfold wr_row. destruct (nth_error (ms_bfs s) (nn h)); reflexivity. Qed.
  Lemma pool_wr_row s h r v : ms_pool (wr_row s h r v) = ms_pool s.
  Proof. unfold wr_row. destruct (nth_error (ms_bfs s) (nn h)); reflexivity. Qed.
  Lemma held_wr_row s h r v : ms_held (wr_row s h r v) = ms_held s.
  Proof. unfold wr_row. destruct (nth_error (ms_bfs s) (nn h)); reflexivity. Qed.
  Lemma ents_wr_row s h r v : ms_ents (wr_row s h r v) = ms_ents s.
  Proof. unfold wr_row. destruct (nth_error (ms_bfs s) (nn h)); reflexivity. Qed.
  Lemma bfs_len_wr_row s h r v : length (ms_bfs (wr_row s h r v)) = length (ms_bfs s).
  Proof. unfold wr_row. destruct (nth_error (ms_bfs s) (nn h)); [apply upd_length|reflexivity]. Qed.
  Lemma bfs_wr_row_rows s h r v : v < W64 -> (forall h' rows, nth_error (ms_bfs s) h' = Some rows -> rows_ok g rows) ->
    forall h' rows, nth_error (ms_bfs (wr_row s h r v)) h' = Some rows -> rows_ok g rows.
  Proof.
    intros Hv Hok h' rows'. unfold wr_row. destruct (nth_error (ms_bfs s) (nn h)) as [rows|] eqn:E; [|apply Hok].
    cbn [ms_bfs set_bfs]. rewrite nth_error_upd. destruct (Nat.eqb_spec (nn h) h') as [<-|Hne]; [|apply Hok].
    destruct (Nat.ltb (nn h) (length (ms_bfs s))); [|discriminate]. intros E'. inversion E'; subst rows'.
    destruct (Hok _ _ E) as [Hl Hf]. split; [rewrite upd_length; exact Hl|]. apply Forall_upd; assumption.
  Qed.
End Mem.

Lemma sumf_nth_error {A} (f : A -> N) (l : list A) :
  sumf f l = ssum (N.of_nat (length l)) (fun i => match nth_error l (nn i) with Some x => f x | None => 0 end).
Proof.
  induction l as [|a l IH] using rev_ind; [reflexivity|].
  rewrite app_length, sumf_app, sumf_cons, sumf_nil. cbn [length].
  replace (N.of_nat (length l + 1)) with (N.of_nat (length l) + 1) by lia. rewrite ssum_succ.
  unfold nn. rewrite Nat2N.id, nth_error_app2, Nat.sub_diag by lia. cbn [nth_error]. rewrite IH.
  f_equal; [|lia]. apply ssum_ext. intros i Hi. rewrite nth_error_app1 by (unfold nn; lia). reflexivity.
Qed.

(* ---------- the generic step lemma ---------- *)
Section Step.
  Variable g : geom.
  Hypothesis wf : wf_geom g.
  Notation HF := (HF g).
  Notation THUGE := (THUGE g).
  Notation ROWS := (ROWS g).

  Definition gsum (F : N -> N -> N) : N := ssum ROWS (fun r => ssum 64 (F r)).
  Lemma gsum_ext F G : (forall r i, r < ROWS -> i < 64 -> F r i = G r i) -> gsum F = gsum G.
  Proof. intros H. apply ssum_ext. intros r Hr. apply ssum_ext. intros i Hi. auto. Qed.
  Lemma gsum_add F G : gsum (fun r i => F r i + G r i) = gsum F + gsum G.
  Proof. unfold gsum. rewrite <- ssum_add. apply ssum_ext. intros r _. apply ssum_add. Qed.
  Lemma gsum_sumf {A} (f : N -> N -> A -> N) (l : list A) :
    gsum (fun r i => sumf (f r i) l) = sumf (fun p => gsum (fun r i => f r i p)) l.
  Proof. unfold gsum. rewrite <- ssum_sumf. apply ssum_ext. intros r _. apply ssum_sumf. Qed.
  Lemma gsum_zero F : gsum F = 0 -> forall r i, r < ROWS -> i < 64 -> F r i = 0.
  Proof. intros H r i Hr Hi. pose proof (ssum_zero _ _ H r Hr) as H1. cbv beta in H1. exact (ssum_zero _ _ H1 i Hi). Qed.
  Lemma gsum_ge F r i : r < ROWS -> i < 64 -> F r i <= gsum F.
  Proof. intros Hr Hi. unfold gsum. etransitivity; [apply (ssum_ge 64 (F r) i Hi)|]. apply (ssum_ge ROWS (fun r => ssum 64 (F r)) r Hr). Qed.
  Lemma gsum_row (F : N -> N) : gsum (fun r _ => F r) = 64 * ssum ROWS F.
  Proof. unfold gsum. rewrite <- ssum_mulc. apply ssum_ext. intros r _. rewrite ssum_const. reflexivity. Qed.

  Record step_at (s s' : mstate) (x0 x' : thr) (h : N) : Prop := {
    SA : h < nbf g (ms_frames s) -> forall r i, r < ROWS -> i < 64 ->
         b2n (bit s' h r i) + isMark (entv s' h) + heldc (fidx g h r i) (ms_held s) + fr g h r i x0 + tr g h r x0
         = b2n (bit s h r i) + isMark (entv s h) + heldc (fidx g h r i) (ms_held s') + fr g h r i x' + tr g h r x';
    SB : h < nbf g (ms_frames s) -> entv s' h = MARK -> forall r i, r < ROWS -> i < 64 ->
         heldc (fidx g h r i) (ms_held s') + sumf (fr g h r i) (ms_pool s) + fr g h r i x' = 1 + fr g h r i x0;
    SC : h < nbf g (ms_frames s) -> entv s' h <> MARK ->
         entv s' h + sumf (pend g h) (ms_pool s) + pend g h x' + 64 * trcount g h x0
         = zeros s' h + 64 * (sumf (trcount g h) (ms_pool s) + trcount g h x') + pend g h x0;
    SD : h < nbf g (ms_frames s) -> entv s' h = MARK -> sumf (needsC g h) (ms_pool s) + needsC g h x' = needsC g h x0;
    SG : h < nbf g (ms_frames s) -> entv s' h = MARK -> (h + 1) * HF <= ms_frames s;
    SF : entv s' h <> MARK -> hugec g h (ms_held s') + sumf (hfr g h) (ms_pool s) + hfr g h x' = hfr g h x0;
    SN : nbf g (ms_frames s) <= h -> entv s' h = 0
  }.

  Lemma inv_step s s' t x0 x' :
    Inv g s -> nth_error (ms_pool s) t = Some x0 ->
    ms_frames s' = ms_frames s -> ms_pool s' = upd (ms_pool s) t x' ->
    length (ms_bfs s') = length (ms_bfs s) -> length (ms_ents s') = length (ms_ents s) ->
    (forall h rows, nth_error (ms_bfs s') h = Some rows -> rows_ok g rows) ->
    (forall h, step_at s s' x0 x' h) ->
    isBad x' = 0 -> local_b g (ms_frames s) x' = true ->
    Forall (fun b => blk_ok (ms_frames s) b = true) (ms_held s') ->
    Inv g s'.
  Proof.
    intros I Ht Efr Epool El1 El2 Hrows Hst Hbad Hloc Hheld.
    pose proof (fun f => sumf_upd f (ms_pool s) t x' x0 Ht) as U.
    pose proof (fun f => sumf_ge f (ms_pool s) t x0 Ht) as G.
    constructor; rewrite ?Efr, ?Epool, ?El1, ?El2.
    - apply I. - apply I. - exact Hrows.
    - intros h Hh. apply (SN _ _ _ _ _ (Hst h) Hh).
    - intros h Hh He. apply (SG _ _ _ _ _ (Hst h) Hh He).
    - intros h r i Hh Hr Hi. pose proof (SA _ _ _ _ _ (Hst h) Hh r i Hr Hi) as A.
      pose proof (I_A g s I h r i Hh Hr Hi) as A0.
      pose proof (U (fr g h r i)). pose proof (U (tr g h r)). lia.
    - intros h Hh He r i Hr Hi. pose proof (SB _ _ _ _ _ (Hst h) Hh He r i Hr Hi) as B.
      pose proof (U (fr g h r i)). lia.
    - intros h Hh He. pose proof (SC _ _ _ _ _ (Hst h) Hh He) as C.
      pose proof (U (pend g h)). pose proof (U (trcount g h)). lia.
    - intros h Hh He. pose proof (SD _ _ _ _ _ (Hst h) Hh He) as D. pose proof (U (needsC g h)). lia.
    - pose proof (U isBad). pose proof (G isBad). pose proof (I_E g s I). lia.
    - intros h He. pose proof (SF _ _ _ _ _ (Hst h) He) as F. pose proof (U (hfr g h)). lia.
    - apply Forall_upd; [apply I|exact Hloc].
    - exact Hheld.
  Qed.

  (* huge frame h is not affected by the step: its memory is unchanged and the thread's ghost at h only
     moves between the thread and the held list *)
  Record same_at (s s' : mstate) (x0 x' : thr) (h : N) : Prop := {
    E_ent : entv s' h = entv s h;
    E_row : forall r, rowv s' h r = rowv s h r;
    E_zeros : zeros s' h = zeros s h;
    E_fr : forall r i, r < ROWS -> i < 64 ->
           heldc (fidx g h r i) (ms_held s') + fr g h r i x' = heldc (fidx g h r i) (ms_held s) + fr g h r i x0;
    E_tr : forall r, tr g h r x' = tr g h r x0;
    E_pend : pend g h x' = pend g h x0;
    E_trc : trcount g h x' = trcount g h x0;
    E_nd : entv s h = MARK -> needsC g h x' <= needsC g h x0;
    E_hfr : hugec g h (ms_held s') + hfr g h x' <= hugec g h (ms_held s) + hfr g h x0
  }.

  Lemma same_step s s' t x0 x' h :
    Inv g s -> nth_error (ms_pool s) t = Some x0 -> same_at s s' x0 x' h -> step_at s s' x0 x' h.
  Proof.
    intros I Ht [Ee Er Ez Ef Etr Ep Etc End Eh].
    pose proof (fun f => sumf_ge f (ms_pool s) t x0 Ht) as G.
    constructor; rewrite ?Ee.
    - intros Hh r i Hr Hi. unfold bit. rewrite Er. specialize (Ef r i Hr Hi). rewrite Etr. lia.
    - intros Hh He r i Hr Hi. pose proof (I_B g s I h Hh He r i Hr Hi). specialize (Ef r i Hr Hi). lia.
    - intros Hh He. pose proof (I_C g s I h Hh He). rewrite Ez, Ep, Etc. lia.
    - intros Hh He. pose proof (I_D g s I h Hh He). specialize (End He). pose proof (G (needsC g h)). lia.
    - intros Hh He. apply (I_G g s I h Hh He).
    - intros He. pose proof (I_F g s I h He). pose proof (G (hfr g h)). lia.
    - intros Hh. apply (I_nobf g s I h Hh).
  Qed.

  (* ---------- global counting ---------- *)
  Definition gfr (h : N) (x : thr) : N := gsum (fun r i => fr g h r i x).
  Definition gheld (s : mstate) (h : N) : N := gsum (fun r i => heldc (fidx g h r i) (ms_held s)).
  Definition goor (s : mstate) (h : N) : N := gsum (fun r i => oor (ms_frames s) (fidx g h r i)).

  Lemma has_rows s h : Inv g s -> h < nbf g (ms_frames s) ->
    exists rows, nth_error (ms_bfs s) (nn h) = Some rows /\ rows_ok g rows.
  Proof.
    intros I Hh. destruct (nth_error (ms_bfs s) (nn h)) as [rows|] eqn:E.
    - exists rows. split; [reflexivity|]. apply (I_rows g s I _ _ E).
    - exfalso. apply nth_error_None in E. rewrite (I_len1 g s I) in E. unfold nn in *. lia.
  Qed.
  Lemma has_row s h r : Inv g s -> h < nbf g (ms_frames s) -> r < ROWS ->
    exists v, rd_row s h r = Some v /\ v < W64.
  Proof.
    intros I Hh Hr. destruct (has_rows s h I Hh) as (rows & E & Hl & Hf). unfold rd_row. rewrite E.
    destruct (nth_error rows (nn r)) as [v|] eqn:E2.
    - exists v. split; [reflexivity|]. apply (Forall_nth_error _ _ _ _ Hf E2).
    - exfalso. apply nth_error_None in E2. rewrite Hl in E2. rewrite (ROWS_nat g wf) in Hr. unfold nn in *. lia.
  Qed.
  Lemma has_ent s h : Inv g s -> h < ntab g (ms_frames s) * THUGE -> exists v, rd_ent s h = Some v.
  Proof.
    intros I Hh. unfold rd_ent. destruct (nth_error (ms_ents s) (nn h)) as [v|] eqn:E; [eauto|].
    exfalso. apply nth_error_None in E. rewrite (I_len2 g s I) in E. unfold nn in *. lia.
  Qed.
  Lemma rowv_rd s h r v : rd_row s h r = Some v -> rowv s h r = v.
  Proof. intros H. unfold rowv. rewrite H. reflexivity. Qed.
  Lemma entv_rd s h v : rd_ent s h = Some v -> entv s h = v.
  Proof. intros H. unfold entv. rewrite H. reflexivity. Qed.

  Lemma zeros_rows s h : Inv g s -> h < nbf g (ms_frames s) -> zeros s h = ssum ROWS (fun r => cz (rowv s h r)).
  Proof.
    intros I Hh. destruct (has_rows s h I Hh) as (rows & E & Hl & Hf). unfold zeros. rewrite E, sumf_nth_error, Hl, <- (ROWS_nat g wf).
    apply ssum_ext. intros r Hr. unfold rowv, rd_row. rewrite E.
    destruct (nth_error rows (nn r)) eqn:E2; [reflexivity|].
    exfalso. apply nth_error_None in E2. rewrite Hl in E2. rewrite (ROWS_nat g wf) in Hr. unfold nn in *. lia.
  Qed.
  Lemma bits_zeros s h : Inv g s -> h < nbf g (ms_frames s) -> gsum (fun r i => b2n (bit s h r i)) + zeros s h = HF.
  Proof.
    intros I Hh. rewrite (zeros_rows s h I Hh). unfold gsum. rewrite <- ssum_add.
    rewrite (ssum_ext _ _ (fun _ => 64)); [rewrite ssum_const, (HF_64 g wf); lia|].
    intros r _. apply cz_bits.
  Qed.

  Lemma tr_sum x h : gwf g (ghost_of g x) -> ssum ROWS (fun r => tr g h r x) = trcount g h x.
  Proof.
    intros [Wt _ _]. unfold tr, trcount. destruct (h =? g_h (ghost_of g x)); cbn [andb].
    - apply ssum_inb_in. exact Wt.
    - rewrite ssum_const. lia.
  Qed.

  (* under a counter entry everything is accounted for exactly once *)
  Lemma K1 s h : Inv g s -> h < nbf g (ms_frames s) -> entv s h <> MARK ->
    entv s h + sumf (pend g h) (ms_pool s) + gheld s h + sumf (gfr h) (ms_pool s) + goor s h = HF.
  Proof.
    intros I Hh He. pose proof (bits_zeros s h I Hh) as Gb. pose proof (I_C g s I h Hh He) as C.
    assert (Eq : gsum (fun r i => b2n (bit s h r i))
                 = gheld s h + sumf (gfr h) (ms_pool s) + 64 * sumf (trcount g h) (ms_pool s) + goor s h).
    { rewrite (gsum_ext _ (fun r i => heldc (fidx g h r i) (ms_held s) + sumf (fr g h r i) (ms_pool s)
                                       + sumf (tr g h r) (ms_pool s) + oor (ms_frames s) (fidx g h r i))).
      2:{ intros r i Hr Hi. pose proof (I_A g s I h r i Hh Hr Hi) as A. unfold isMark in A.
          destruct (N.eqb_spec (entv s h) MARK); [contradiction|]. cbn [b2n] in A. lia. }
      rewrite !gsum_add. unfold gheld, goor. rewrite (gsum_sumf (fr g h)). f_equal. f_equal.
      rewrite (gsum_sumf (fun r _ => tr g h r)), <- sumf_mulc. apply sumf_ext_in. intros x Hx.
      rewrite gsum_row. f_equal. apply tr_sum. apply (local_gwf g wf (ms_frames s)).
      exact (proj1 (Forall_forall _ _) (I_L g s I) x Hx). }
    lia.
  Qed.

  Lemma pend_needs h x : 0 < pend g h x -> needsC g h x = 1.
  Proof.
    unfold pend, needsC. destruct (h =? g_h (ghost_of g x)); [|lia]. cbn [andb].
    destruct x as [l|c p|s c]; cbn [ghost_of]; [cbn; lia| |destruct s; cbn; lia].
    destruct p; cbn [gpc]; try (cbn; lia); try (destruct (is_put c); cbn; lia); destruct x; cbn; lia.
  Qed.

  (* under the marker nothing is pending, and zero bits plus transit rows make up everything *)
  Lemma K2 s h : Inv g s -> h < nbf g (ms_frames s) -> entv s h = MARK ->
    sumf (pend g h) (ms_pool s) = 0 /\ zeros s h + 64 * sumf (trcount g h) (ms_pool s) = HF.
  Proof.
    intros I Hh He. split.
    - apply sumf_all_zero. intros x Hx. pose proof (sumf_zero _ _ (I_D g s I h Hh He) x Hx) as Hn.
      destruct (N.eq_dec (pend g h x) 0) as [?|Hp]; [assumption|]. pose proof (pend_needs h x ltac:(lia)). lia.
    - pose proof (bits_zeros s h I Hh) as Gb. pose proof (I_G g s I h Hh He) as HG.
      assert (Eq : gsum (fun r i => b2n (bit s h r i)) = 64 * sumf (trcount g h) (ms_pool s)).
      { rewrite (gsum_ext _ (fun r i => sumf (tr g h r) (ms_pool s))).
        2:{ intros r i Hr Hi. pose proof (I_A g s I h r i Hh Hr Hi) as A. pose proof (I_B g s I h Hh He r i Hr Hi) as B.
            rewrite He in A. unfold isMark, oor in A. rewrite N.eqb_refl in A. cbn [b2n] in A.
            pose proof (rowbit_lt g wf r i Hr Hi). unfold fidx in *. 
            destruct (N.leb_spec (ms_frames s) (h * HF + r * 64 + i)); [lia|]. cbn [b2n] in A. lia. }
        rewrite (gsum_sumf (fun r _ => tr g h r)), <- sumf_mulc. apply sumf_ext_in. intros x Hx.
        rewrite gsum_row. f_equal. apply tr_sum. apply (local_gwf g wf (ms_frames s)).
        exact (proj1 (Forall_forall _ _) (I_L g s I) x Hx). }
      lia.
  Qed.

  Lemma anchored_gfr x : anchored g (ghost_of g x) -> 1 <= gfr (g_h (ghost_of g x)) x.
  Proof.
    intros (Hn & r & i & Hr & Hi & E). unfold gfr.
    etransitivity; [|apply (gsum_ge (fun r i => fr g (g_h (ghost_of g x)) r i x) r i Hr Hi)].
    unfold fr. cbv zeta. rewrite E. unfold inb. lia.
  Qed.
  Lemma hfr_gfr h x : hfr g h x <= gfr h x.
  Proof.
    pose proof (ROWS_pos g wf). unfold gfr.
    etransitivity; [|apply (gsum_ge (fun r i => fr g h r i x) 0 0); lia].
    unfold hfr, fr, fidx. cbv zeta. replace (h * HF + 0 * 64 + 0) with (h * HF) by lia. lia.
  Qed.

  (* a thread with nothing pending and owning nothing in h has no business in h *)
  Lemma quiet_thread h x : gwf g (ghost_of g x) -> pend g h x + gfr h x = 0 ->
    trcount g h x = 0 /\ (forall r, tr g h r x = 0) /\ needsC g h x = 0 /\ hfr g h x = 0.
  Proof.
    intros [Wt Wn Wtn] H0. pose proof (hfr_gfr h x) as Hh.
    assert (Hnd : needsC g h x = 0).
    { unfold needsC. destruct (N.eqb_spec h (g_h (ghost_of g x))) as [->|]; [|reflexivity].
      destruct (nd (ghost_of g x)) eqn:En; [|reflexivity]. exfalso.
      destruct (Wn eq_refl) as [Hp|Ha].
      - unfold pend in H0. rewrite N.eqb_refl in H0. lia.
      - pose proof (anchored_gfr x Ha). lia. }
    assert (Htc : trcount g h x = 0).
    { unfold trcount. destruct (N.eqb_spec h (g_h (ghost_of g x))) as [->|]; [|reflexivity].
      destruct (N.eq_dec (tr_n (ghost_of g x)) 0) as [?|Hn]; [assumption|]. exfalso.
      destruct (Wtn ltac:(lia)) as [Hd|Ha].
      - unfold needsC in Hnd. rewrite N.eqb_refl, Hd in Hnd. discriminate.
      - pose proof (anchored_gfr x Ha). lia. }
    repeat split; try assumption; try lia.
    intros r. unfold tr, trcount in *. destruct (h =? g_h (ghost_of g x)); [|reflexivity].
    cbn [andb]. unfold inb. rewrite Htc. lia.
  Qed.
End Step.
