(* Generic machinery for the preservation proof: reading the memory after a write, the generic step
   lemma (all obligations stated as deltas against the old state), the global counting lemmas K1 / K2. *)
From Coq Require Import PeanoNat.
From LLF Require Import Base BitLemmas Row RowProofs Bitfield Lower Spec LowerMachine ConcBase ConcInvDef.

Lemma nn_inj a b : nn a = nn b -> a = b. Proof. unfold nn. lia. Qed.
Lemma nn_eqb a b : Nat.eqb (nn a) (nn b) = (a =? b).
Proof. destruct (N.eqb_spec a b) as [->|H]; [apply Nat.eqb_refl|]. apply Nat.eqb_neq. intro E. apply H, nn_inj, E. Qed.

(* ---------- memory after updates ---------- *)
Section Mem.
  Variable g : geom.
  Notation HF := (HF g).
  Notation ROWS := (ROWS g).

  Lemma entv_set_thr s t x h : entv (set_thr s t x) h = entv s h. Proof. reflexivity. Qed.
  Lemma entv_set_held s hl h : entv (set_held s hl) h = entv s h. Proof. reflexivity. Qed.
  Lemma rowv_set_thr s t x h r : rowv (set_thr s t x) h r = rowv s h r. Proof. reflexivity. Qed.
  Lemma rowv_set_held s hl h r : rowv (set_held s hl) h r = rowv s h r. Proof. reflexivity. Qed.
  Lemma zeros_set_thr s t x h : zeros (set_thr s t x) h = zeros s h. Proof. reflexivity. Qed.
  Lemma zeros_set_held s hl h : zeros (set_held s hl) h = zeros s h. Proof. reflexivity. Qed.

  Lemma entv_wr_ent s h v cur h' : rd_ent s h = Some cur -> entv (wr_ent s h v) h' = if h' =? h then v else entv s h'.
  Proof.
    intros H. unfold entv, rd_ent, wr_ent in *. cbn [ms_ents set_ents].
    destruct (N.eqb_spec h' h) as [->|Hne].
    - rewrite nth_error_upd_same; [reflexivity|]. apply nth_error_some_lt in H. exact H.
    - rewrite nth_error_upd_other; [reflexivity|]. intro E. apply Hne. symmetry. apply nn_inj, E.
  Qed.
  Lemma rowv_wr_ent s h v h' r : rowv (wr_ent s h v) h' r = rowv s h' r. Proof. reflexivity. Qed.
  Lemma zeros_wr_ent s h v h' : zeros (wr_ent s h v) h' = zeros s h'. Proof. reflexivity. Qed.

  Lemma entv_wr_row s h r v h' : entv (wr_row s h r v) h' = entv s h'.
  Proof. unfold wr_row. destruct (nth_error (ms_bfs s) (nn h)); reflexivity. Qed.
  Lemma rowv_wr_row s h r v cur h' r' : rd_row s h r = Some cur ->
    rowv (wr_row s h r v) h' r' = if (h' =? h) && (r' =? r) then v else rowv s h' r'.
  Proof.
    intros H. unfold rowv, rd_row, wr_row in *.
    destruct (nth_error (ms_bfs s) (nn h)) as [rows|] eqn:E; [|discriminate].
    cbn [ms_bfs set_bfs].
    destruct (N.eqb_spec h' h) as [->|Hne]; cbn [andb].
    - rewrite nth_error_upd_same by (apply nth_error_some_lt in E; exact E).
      destruct (N.eqb_spec r' r) as [->|Hne].
      + rewrite nth_error_upd_same; [reflexivity|]. apply nth_error_some_lt in H. exact H.
      + rewrite nth_error_upd_other, E; [reflexivity|]. intro E'. apply Hne. symmetry. apply nn_inj, E'.
    - rewrite nth_error_upd_other; [reflexivity|]. intro E'. apply Hne. symmetry. apply nn_inj, E'.
  Qed.
  Lemma zeros_wr_row_same s h r v cur : rd_row s h r = Some cur ->
    zeros (wr_row s h r v) h + cz cur = zeros s h + cz v.
  Proof.
    intros H. unfold zeros, rd_row, wr_row in *.
    destruct (nth_error (ms_bfs s) (nn h)) as [rows|] eqn:E; [|discriminate].
    cbn [ms_bfs set_bfs]. rewrite nth_error_upd_same by (apply nth_error_some_lt in E; exact E).
    apply sumf_upd. exact H.
  Qed.
  Lemma zeros_wr_row_other s h r v h' : h' <> h -> zeros (wr_row s h r v) h' = zeros s h'.
  Proof.
    intros Hne. unfold zeros, wr_row. destruct (nth_error (ms_bfs s) (nn h)) as [rows|] eqn:E; [|reflexivity].
    cbn [ms_bfs set_bfs]. rewrite nth_error_upd_other; [reflexivity|]. intro E'. apply Hne. symmetry. apply nn_inj, E'.
  Qed.
  Lemma frames_wr_row s h r v : ms_frames (wr_row s h r v) = ms_frames s.
  Proof. unfold wr_row. destruct (nth_error (ms_bfs s) (nn h)); reflexivity. Qed.
  Lemma pool_wr_row s h r v : ms_pool (wr_row s h r v) = ms_pool s.
  Proof. unfold wr_row. destruct (nth_error (ms_bfs s) (nn h)); reflexivity. Qed.
  Lemma held_wr_row s h r v : ms_held (wr_row s h r v) = ms_held s.
  Proof. unfold wr_row. destruct (nth_error (ms_bfs s) (nn h)); reflexivity. Qed.
  Lemma ents_wr_row s h r v : ms_ents (wr_row s h r v) = ms_ents s.
  Proof. unfold wr_row. destruct (nth_error (ms_bfs s) (nn h)); reflexivity. Qed.
  Lemma bfs_len_wr_row s h r v : length (ms_bfs (wr_row s h r v)) = length (ms_bfs s).
  Proof. unfold wr_row. destruct (nth_error (ms_bfs s) (nn h)); [apply upd_length|reflexivity]. Qed.
  Lemma bfs_wr_row_rows s h r v : v < W64 -> (forall h' rows, nth_error (ms_bfs s) h' = Some rows -> rows_ok g rows) ->
    forall h' rows, nth_error (ms_bfs (wr_row s h r v)) h' = Some rows -> rows_ok g rows.
  Proof.
    intros Hv Hok h' rows'. unfold wr_row. destruct (nth_error (ms_bfs s) (nn h)) as [rows|] eqn:E; [|apply Hok].
    cbn [ms_bfs set_bfs]. rewrite nth_error_upd. destruct (Nat.eqb_spec (nn h) h') as [<-|Hne]; [|apply Hok].
    destruct (Nat.ltb (nn h) (length (ms_bfs s))); [|discriminate]. intros E'. inversion E'; subst rows'.
    destruct (Hok _ _ E) as [Hl Hf]. split; [rewrite upd_length; exact Hl|]. apply Forall_upd; assumption.
  Qed.
End Mem.
