(* Thread-local part of the M2 invariant (UpperMachine.v): definitions.
   `twf u c p k`: shape of the (primitive, continuation stack) of a thread inside call c:
     - the top frame determines the kind and the parameters of the primitive in progress (`top_wf`),
     - the frames below are "passive" frames of search loops / of the API functions (`pas_wf`), they carry no ghost,
     - frames are ordered by the nesting level of the function they belong to (`lvl`): at most one per level,
       which bounds the stack (and the return chains of `settle`: fuel SETTLE is never exhausted),
     - the kind of value a function returns matches the frame below (`stack_ty`).
   `post_gh p v f`: the thread's ghost right after primitive p completed with value v under top frame f (the
   frame's own ghost `frame_gh f` not included).
   Only static parts of the shared state are read: number of trees, slot counts, `frames`, default class. *)
From Coq Require Import PeanoNat Permutation.
From LLF Require Import Base Row Bitfield Lower Spec Sorted Upper UpperInvDef UpperPrims LowerMachine ConcBase ConcInvDef
  UpperMachine UpperConcInvDef.

Definition gh_eq (a b : ugh) : Prop :=
  (forall i, crsum (g_cr a) i = crsum (g_cr b) i) /\ Permutation (g_ih a) (g_ih b) /\ g_bl a = g_bl b.

Section Wf.
  Variable g : geom.
  Variable policy : N -> N -> N -> pol.
  Notation TF := (TF g).

  (* ----- calls (what `check` and the scope restriction "valid parameters" guarantee) ----- *)
  Definition req_ok (u : upper) (r : request) : Prop :=
    (r_order r <= tord g)%nat /\ pow2 (r_order r) <= frames (low u) /\
    exists len, class_locals u (r_class r) = Some len /\ (forall l, r_local r = Some l -> l < len).
  Definition frame_ok (u : upper) (f : N) (o : nat) : Prop := f mod pow2 o = 0 /\ f + pow2 o <= frames (low u).
  (* change_tree within scope: Offline or a pure class change (an Online re-counts the tree non-atomically, which
     cannot be reconciled with frames in transit), onto a configured class *)
  Definition change_ok (u : upper) (ch : tree_change) : Prop :=
    c_op ch <> Some OpOnline /\ (forall c, c_class ch = Some c -> class_locals u c <> None).
  Definition call_wf (u : upper) (c : ucall) : Prop :=
    match c with
    | UGet None r => req_ok u r
    | UGet (Some f) r => req_ok u r /\ frame_ok u f (r_order r)
    | UPut f r => req_ok u r /\ frame_ok u f (r_order r)
    | UDrain => True
    | UChange _ ch => change_ok u ch
    end.

  (* ----- primitives ----- *)
  Definition tprim (u : upper) (p : prim) (i : N) (f : tfun) : Prop :=
    p = PTL i f \/ exists cur new, p = PTC i f cur new /\ tf_apply g policy (dflt u) f cur 0 = Some (Ok new).
  Definition sprim (p : prim) (c idx : N) (f : sfun) : Prop :=
    p = PSL c idx f \/ exists cur new, p = PSC c idx f cur new /\ sf_apply g f cur = Some (Ok new).
  Definition lprim (p : prim) (cl : call) : Prop := exists pc, p = PLow (TRun cl pc).

  Definition fr_tree (fr : option N) (t : N) : Prop := forall f, fr = Some f -> f / TF = t.
  Definition otree (fr : option N) : option N := option_map (fun f => f / TF) fr.
  Definition row_ok (u : upper) (fr : option N) (row : N) : Prop :=
    row_tree g row < ntrees u /\ fr_tree fr (row_tree g row).

  Definition ros_ok (u : upper) (c : ucall) (o : nat) (cl : N) : Prop :=
    exists r, c = UGet None r /\ o = r_order r /\ cl = r_class r /\ exists len, class_locals u cl = Some len /\ 0 < len.
  Definition acc_wf (u : upper) (c : ucall) (a : acc) : Prop :=
    match a with
    | AcRos o cl _ => ros_ok u c o cl
    | AcSteal cl o => exists r, c = UGet None r /\ o = r_order r /\ cl = r_class r
    | AcChange mc mf ch => exists m, c = UChange m ch /\ mc = m_class m /\ mf = m_free m
    end.
  Definition acc_get (a : acc) : Prop := match a with AcChange _ _ _ => False | _ => True end.
  Definition cands_ok (u : upper) (l : list (N * N)) : Prop := Forall (fun p => snd p < ntrees u) l.
  Definition sb_wf (u : upper) (c : ucall) (sb : sbst) : Prop :=
    (acc_wf u c (sb_acc sb) /\ acc_get (sb_acc sb)) /\ cands_ok u (sb_best sb) /\ ntrees u <> 0.

  Definition top_wf (u : upper) (c : ucall) (p : prim) (f : kframe) : Prop :=
    match f with
    | KGL1 o cl local fr _ =>
        exists r, c = UGet fr r /\ o = r_order r /\ cl = r_class r /\
          sprim p cl local (SGet (otree fr) (pow2 o)) /\ slot_ok u cl local = true
    | KGL2 o cl local row =>
        exists fr r, c = UGet fr r /\ o = r_order r /\ cl = r_class r /\ slot_ok u cl local = true /\
          lprim p (low_get_call row o fr) /\ row_ok u fr row
    | KGL3 _ cl =>
        exists fr r local row', c = UGet fr r /\ cl = r_class r /\ sprim p cl local (SSetStart row') /\
          slot_ok u cl local = true /\ row' * 64 < frames (low u)
    | KGL4 _ t => exists n, tprim u p t (FPut n) /\ t < ntrees u
    | KGL5 o cl local fr t =>
        exists r mn, c = UGet fr r /\ o = r_order r /\ cl = r_class r /\ tprim u p t (FSync mn) /\ t < ntrees u /\
          slot_ok u cl local = true
    | KGL6 o cl local fr t am =>
        exists r, c = UGet fr r /\ o = r_order r /\ cl = r_class r /\ sprim p cl local (SPut t am) /\ t < ntrees u /\
          slot_ok u cl local = true
    | KSBL sb => (exists i, p = PLd i /\ i < ntrees u) /\ sb_wf u c sb
    | KRS1 i o cl _ => ros_ok u c o cl /\ tprim u p i (FRos (pow2 o) cl) /\ i < ntrees u
    | KRS2 i o _ reserved free tc =>
        exists r, c = UGet None r /\ o = r_order r /\ lprim p (CGet (tree_row g i) o) /\ i < ntrees u /\
          (reserved = true -> tc = r_class r /\ pow2 o <= free /\ exists len, class_locals u tc = Some len /\ 0 < len)
    | KRS3 _ tc => exists r idx new, c = UGet None r /\ p = PSW tc idx new /\ slot_ok u tc idx = true /\ s_pres new = true /\
                               s_row new * 64 < frames (low u)
    | KUnres rr => (exists t a cl, tprim u p t (FUnres a cl) /\ t < ntrees u) /\ (forall z, rr <> Panic z) /\
                   (forall x, rr = Ok x -> exists fr r, c = UGet fr r)
    | KRetR rr =>
        (exists t n, tprim u p t (FPut n) /\ t < ntrees u) /\ (forall z, rr <> Panic z) /\
        (forall x, rr = Ok x -> exists f r, c = UPut f r)
    | KSG1 i o fr =>
        exists r, c = UGet fr r /\ o = r_order r /\ tprim u p i (FSteal (r_class r) (pow2 o)) /\ i < ntrees u /\ fr_tree fr i
    | KSG2 i o _ =>
        exists fr r, c = UGet fr r /\ o = r_order r /\ lprim p (low_get_call (tree_row g i) o fr) /\ i < ntrees u /\ fr_tree fr i
    | KSL1 r fr i _ =>
        c = UGet fr r /\
        exists idx, sprim p ((i + r_class r) mod 8) idx (SGet (otree fr) (pow2 (r_order r))) /\
                    slot_ok u ((i + r_class r) mod 8) idx = true
    | KSL2 r row _ => exists fr, c = UGet fr r /\ lprim p (low_get_call row (r_order r) fr) /\ row_ok u fr row
    | KDL1 r fr i _ =>
        c = UGet fr r /\
        exists idx, sprim p ((i + r_class r) mod 8) idx (SGetNone (otree fr) (pow2 (r_order r))) /\
                    slot_ok u ((i + r_class r) mod 8) idx = true /\
                    policy (r_class r) ((i + r_class r) mod 8) (pow2 (r_order r)) = PDemote
    | KDL2 r fr row =>
        c = UGet fr r /\
        exists lc new, p = PSW (r_class r) lc new /\ slot_ok u (r_class r) lc = true /\ s_pres new = true /\
                       s_row new = row /\ row_ok u fr row /\ row * 64 < frames (low u)
    | KDL3 r fr row =>
        c = UGet fr r /\ (exists t a, tprim u p t (FUnres a (r_class r)) /\ t < ntrees u) /\ row_ok u fr row
    | KDL4 r row => exists fr, c = UGet fr r /\ lprim p (low_get_call row (r_order r) fr) /\ row_ok u fr row
    | KPut1 f r => c = UPut f r /\ lprim p (CPut f (r_order r))
    | KPut2 f r =>
        c = UPut f r /\
        exists local, sprim p (r_class r) local (SPut (f / TF) (pow2 (r_order r))) /\ slot_ok u (r_class r) local = true
    | KDr1 cc j => c = UDrain /\ p = PSW cc j slot_none /\ slot_ok u cc j = true
    | KDr2 cc _ => c = UDrain /\ exists t a, tprim u p t (FUnres a cc) /\ t < ntrees u
    | KCh => exists i m ch, c = UChange m ch /\ tprim u p i (FChange (m_class m) (m_free m) ch) /\ i < ntrees u
    | _ => False
    end.

  Definition pas_wf (u : upper) (c : ucall) (f : kframe) : Prop :=
    match f with
    | KGet1 r _ =>
        c = UGet None r /\ exists local len, r_local r = Some local /\ class_locals u (r_class r) = Some len /\ 0 < len
    | KGet2 r fr | KOom1 r fr => c = UGet fr r
    | KAt1 f r => c = UGet (Some f) r
    | KSR1 o cl _ _ => ros_ok u c o cl
    | KSBA sb => sb_wf u c sb
    | KSBT sb cands => sb_wf u c sb /\ cands_ok u cands
    | KSe a _ _ => acc_wf u c a /\ (exists mc mf ch, a = AcChange mc mf ch) /\ ntrees u <> 0
    | _ => False
    end.

  (* nesting level of the function a frame belongs to *)
  Definition lvl (f : kframe) : nat :=
    match f with
    | KGet1 _ _ | KGet2 _ _ | KOom1 _ _ | KAt1 _ _ | KPut1 _ _ | KPut2 _ _ | KDr1 _ _ | KDr2 _ _ => 5
    | KSR1 _ _ _ _ => 4
    | KSBL _ | KSBA _ | KSBT _ _ | KSe _ _ _ => 3
    | _ => 2
    end.
  Fixpoint sorted_from (lo : nat) (k : list kframe) : Prop :=
    match k with
    | [] => True
    | f :: r => (lo < lvl f)%nat /\ sorted_from (lvl f) r
    end.
  (* frames that expect the result of get_local *)
  Definition wants_vg (f : kframe) : bool := match f with KGet1 _ _ | KAt1 _ _ => true | _ => false end.
  Definition gives_vg (f : kframe) : bool :=
    match f with
    | KGL1 _ _ _ _ _ | KGL2 _ _ _ _ | KGL3 _ _ | KGL4 _ _ | KGL5 _ _ _ _ _ | KGL6 _ _ _ _ _ _ => true
    | _ => false
    end.
  (* the value kind returned to stack k by a function returning VG (b = true) / VR *)
  Definition ret_ty (b : bool) (k : list kframe) : Prop :=
    match k with
    | [] => b = false
    | h :: r => wants_vg h = b /\ Forall (fun x => wants_vg x = false) r
    end.

  Definition pas_stack (u : upper) (c : ucall) (lo : nat) (k : list kframe) : Prop :=
    Forall (pas_wf u c) k /\ sorted_from lo k.

  Definition twf (u : upper) (c : ucall) (p : prim) (k : list kframe) : Prop :=
    match k with
    | [] => False
    | f :: r => top_wf u c p f /\ pas_stack u c (lvl f) r /\ ret_ty (gives_vg f) r
    end.

  (* ----- the ghost right after a primitive completed ----- *)
  Definition rt (s : slot) : N := row_tree g (s_row s).
  Definition post_gh (p : prim) (v : val) (f : kframe) : ugh :=
    match p, v with
    | (PTL i f0 | PTC i f0 _ _ | PTF i f0 _ _ _), VT true old new =>
        match f0 with
        | FSync _ => gh_cr i (t_free old)
        | FSteal _ n => gh_cr i n
        | FRos n _ => if t_res new then gh_add (gh_ih i (t_class new) (t_free old - n)) (gh_cr i n) else gh_cr i n
        | _ => gh_nil
        end
    | (PTL i f0 | PTC i f0 _ _ | PTF i f0 _ _ _), VT false _ _ => tf_gh i f0
    | (PSL _ _ f0 | PSC _ _ f0 _ _), VS true old _ =>
        match f0 with
        | SGet _ n => gh_cr (rt old) n
        | SGetNone _ n =>
            match f with
            | KDL1 r _ _ _ => gh_add (gh_ih (rt old) (r_class r) (s_free old - n)) (gh_cr (rt old) n)
            | _ => gh_nil
            end
        | _ => gh_nil
        end
    | (PSL _ _ f0 | PSC _ _ f0 _ _), VS false _ _ => sf_gh f0
    | PSW c _ _, VS _ old _ => slot_gh g c old
    | PLow (TRun cl _), VL (Ok fr) =>
        match f with
        | KRS2 i o _ true free tc => gh_add (gh_ih i tc (free - pow2 o)) (gh_bl fr)
        | KPut1 frame r => gh_cr (frame / TF) (pow2 (r_order r))
        | _ => gh_bl fr
        end
    | PLow (TRun cl _), VL (Err _) =>
        match f with
        | KPut1 _ _ => gh_nil
        | KRS2 i _ _ true free tc => gh_ih i tc free
        | _ => low_gh g (c_n cl) (Some f)
        end
    | _, _ => gh_nil
    end.

  (* the ghost of a finished call: the block of a successful get is still in flight *)
  Definition ret_gh (c : ucall) (r : res (N * N)) : ugh :=
    match c, r with
    | UGet _ _, Ok (fr, _) => gh_bl fr
    | _, _ => gh_nil
    end.

  (* static parts of the shared state *)
  Definition static_eq (u u' : upper) : Prop :=
    ntrees u' = ntrees u /\ (forall c, class_locals u' c = class_locals u c) /\
    frames (low u') = frames (low u) /\ dflt u' = dflt u.
End Wf.
