(* Extraction of the sequential allocator model (Lower.v, Upper.v), the policies (Policies.v) and the
   executable specification (Spec.v) for the correspondence driver `seq`.
   ExtrOcamlBasic only: bool, option, list, prod, unit, sumbool map to OCaml's; N, positive, nat
   stay Coq's inductives. No Extract Constant / Extract Inductive of our own. *)
From LLF Require Import Base Row Bitfield Lower Sorted Upper Spec Policies.
Require Import ExtrOcamlBasic.
Extraction Language OCaml.
Set Extraction KeepSingleton.
Extraction "model.ml"
  (* geometry *)
  HF TF THUGE tord pow2
  (* model *)
  llfree_new llfree_get llfree_put llfree_drain llfree_change_tree
  llfree_stats llfree_stats_at llfree_tree_stats llfree_validate
  lower_is_free lower_get lower_put lower_recover lower_new tree_free
  (* policies *)
  pol_select pol_simple pol_movable pol_zeroed pol_zeroslot pol_custom
  (* specification *)
  abs spec_get_enabled spec_get spec_put_enabled spec_put
  exact_free free_huge_count free_tree_count lower_invb
  aligned in_range all_free all_alloc all_whole blk popcount ones
  (* arithmetic used by the driver's glue *)
  N.add N.sub N.mul N.div N.modulo N.eqb N.leb N.ltb N.min N.max N.land N.lor N.ldiff N.shiftl N.shiftr N.testbit
  N.of_nat N.to_nat.
