(* L2: sequential model of lower.rs `Lower` (huge-entry tables + bitfields). Definitions only.
   State: `frames`, one bitfield (list of rows) per huge frame that intersects the managed range, and
   one u16 entry per table slot (TREE_HUGE per tree, also for huge frames beyond the range).
   Every slice index of the code is an `nth_error`; a `None` is a `Panic (SIndex k)`.
   This is the model of the code *with the repairs of DESIGN.md section 8 applied* (D1: frames = 0,
   D2: recover with a short last tree). *)
From LLF Require Import Base Row Bitfield.

Record lower := { frames : N; bfs : list (list N); ents : list N }.

Definition MARK : N := 65535.                                  (* HugeEntry::new_huge(): count = u16::MAX *)

Record stats := { free_frames : N; free_huge : N; free_trees : N }.
Definition stats0 := {| free_frames := 0; free_huge := 0; free_trees := 0 |}.

Section Lower.
  Variable g : geom.
  Notation HF := (HF g).
  Notation TF := (TF g).
  Notation THUGE := (THUGE g).
  Notation ROWS := (ROWS g).

  (* ----- HugeEntry ----- *)
  Definition e_huge (e : N) : bool := e =? MARK.
  Definition e_free (e : N) : N := if e_huge e then 0 else e.
  Definition e_dec (e n : N) : option N :=
    if negb (e_huge e) && (n <=? e_free e) then Some (e_free e - n) else None.
  Definition e_inc (e n : N) : option N :=
    if negb (e_huge e) && (e_free e + n <=? HF) then Some (e_free e + n) else None.

  (* ----- sizes ----- *)
  Definition div_ceil (a b : N) : N := (a + b - 1) / b.
  Definition nbf (fr : N) : N := div_ceil fr HF.                 (* bitfields *)
  Definition ntab (fr : N) : N := div_ceil fr TF.                (* tables = trees *)

  Definition set_ent (l : lower) (h : N) (e : N) : lower :=
    {| frames := frames l; bfs := bfs l; ents := upd (ents l) (nn h) e |}.
  Definition set_bf (l : lower) (h : N) (rows : list N) : lower :=
    {| frames := frames l; bfs := upd (bfs l) (nn h) rows; ents := ents l |}.
  Definition ent (l : lower) (h : N) : option N := nth_error (ents l) (nn h).
  Definition bf (l : lower) (h : N) : option (list N) := nth_error (bfs l) (nn h).

  (* `self.children[tree.0]`: the table of `tree` exists *)
  Definition has_tree (l : lower) (t : N) : bool := (t + 1) * THUGE <=? N.of_nat (length (ents l)).

  (* compare_exchange_all(cur, new) on entries [h, h+n): sequentially all-or-nothing *)
  Fixpoint cas_all (es : list N) (h : nat) (n : nat) (cur new : N) : option (list N) :=
    match n with
    | O => Some es
    | S n' =>
        match nth_error es h with
        | Some e => if e =? cur then cas_all (upd es h new) (S h) n' cur new else None
        | None => None
        end
    end.

  (* ----- get (search within the tree of `start`, a row id) ----- *)
  (* huge orders: groups of h_num entries, starting at the aligned group of the hint, wrapping *)
  Fixpoint get_huge_loop (l : lower) (tstart_h : N) (child_off h_num : N) (k : N) (n : nat)
    : res N * lower :=
    match n with
    | O => (Err EMemory, l)
    | S n' =>
        let i := (child_off + k * h_num) mod THUGE in
        match cas_all (ents l) (nn (tstart_h + i)) (nn h_num) HF MARK with
        | Some es => (Ok ((tstart_h + i) * HF), {| frames := frames l; bfs := bfs l; ents := es |})
        | None => get_huge_loop l tstart_h child_off h_num (k + 1) n'
        end
    end.

  (* small orders: children from the hint's child, wrapping *)
  Fixpoint get_small_loop (l : lower) (tstart_h : N) (child_off : N) (start : N) (order : nat)
           (j : N) (n : nat) : res N * lower :=
    match n with
    | O => (Err EMemory, l)
    | S n' =>
        let h := tstart_h + (child_off + j) mod THUGE in
        match ent l h with
        | None => (Panic (SIndex 1), l)
        | Some e =>
            match e_dec e (pow2 order) with
            | None => get_small_loop l tstart_h child_off start order (j + 1) n'
            | Some e' =>
                match bf l h with
                | None => (Panic (SIndex 2), l)
                | Some rows =>
                    match bf_set_first_zeros g rows start order with
                    | Some (rows', off) => (Ok (h * HF + off), set_bf (set_ent l h e') h rows')
                    | None =>
                        (* undo: inc on the value just written *)
                        match e_inc e' (pow2 order) with
                        | None => (Panic SUndoFailed, l)
                        | Some _ => get_small_loop l tstart_h child_off start order (j + 1) n'
                        end
                    end
                end
            end
        end
    end.

  Definition lower_get (l : lower) (start : N) (order : nat) : res N * lower :=
    let t := (start * 64) / TF in
    if negb (has_tree l t) then (Panic (SIndex 0), l) else
    let tstart_h := t * THUGE in
    let child_off := ((start * 64) / HF) mod THUGE in
    if Nat.leb (hord g) order then
      let h_num := pow2 (order - hord g) in
      if THUGE <? h_num then (Panic (SIndex 3), l)
      else get_huge_loop l tstart_h ((child_off / h_num) * h_num) h_num 0 (nn (THUGE / h_num))
    else get_small_loop l tstart_h child_off start order 0 (thuge_nat g).

  (* ----- get_at ----- *)
  Definition lower_get_at (l : lower) (frame : N) (order : nat) : res unit * lower :=
    let t := frame / TF in
    if negb (has_tree l t) then (Panic (SIndex 4), l) else
    let h := frame / HF in
    if Nat.leb (hord g) order then
      let n := pow2 (order - hord g) in
      if THUGE <? h mod THUGE + n then (Panic (SIndex 5), l) else
      match cas_all (ents l) (nn h) (nn n) HF MARK with
      | Some es => (Ok tt, {| frames := frames l; bfs := bfs l; ents := es |})
      | None => (Err EMemory, l)
      end
    else
      match ent l h with
      | None => (Panic (SIndex 6), l)
      | Some e =>
          match e_dec e (pow2 order) with
          | None => (Err EMemory, l)
          | Some e' =>
              match bf l h with
              | None => (Panic (SIndex 7), l)
              | Some rows =>
                  match bf_toggle g rows frame order false with
                  | Some rows' => (Ok tt, set_bf (set_ent l h e') h rows')
                  | None =>
                      match e_inc e' (pow2 order) with
                      | None => (Panic SUndoUnwrap, l)
                      | Some _ => (Err EMemory, l)
                      end
                  end
              end
          end
      end.

  (* `lower.get(start, order, frame)` *)
  Definition lower_get_opt (l : lower) (start : N) (order : nat) (frame : option N) : res N * lower :=
    match frame with
    | Some f => match lower_get_at l f order with
                | (Ok _, l') => (Ok f, l')
                | (Err e, l') => (Err e, l')
                | (Panic s, l') => (Panic s, l')
                end
    | None => lower_get l start order
    end.

  (* ----- put ----- *)
  Definition put_small (l : lower) (frame : N) (order : nat) : res unit * lower :=
    let h := frame / HF in
    match bf l h with
    | None => (Panic (SIndex 8), l)
    | Some rows =>
        match bf_toggle g rows frame order true with
        | None => (Err EMemory, l)
        | Some rows' =>
            let l1 := set_bf l h rows' in
            match ent l1 h with
            | None => (Panic (SIndex 9), l1)
            | Some e =>
                match e_inc e (pow2 order) with
                | Some e' => (Ok tt, set_ent l1 h e')
                | None => (Panic SIncFailed, l1)
                end
            end
        end
    end.

  Definition partial_put_huge (l : lower) (frame : N) (order : nat) : res unit * lower :=
    let h := frame / HF in
    match bf l h with
    | None => (Panic (SIndex 10), l)
    | Some rows =>
        match bf_toggle g rows 0 (hord g) false with
        | Some rows' => put_small (set_ent (set_bf l h rows') h 0) frame order
        | None =>
            (* the entry is still the marker after RETRIES loads: nobody else runs *)
            (Panic SExceedingRetries, l)
        end
    end.

  Definition lower_put (l : lower) (frame : N) (order : nat) : res unit * lower :=
    let t := frame / TF in
    if negb (has_tree l t) then (Panic (SIndex 11), l) else
    let h := frame / HF in
    if Nat.leb (hord g) order then
      let n := pow2 (order - hord g) in
      if THUGE <? h mod THUGE + n then (Panic (SIndex 12), l) else
      match cas_all (ents l) (nn h) (nn n) MARK HF with
      | Some es => (Ok tt, {| frames := frames l; bfs := bfs l; ents := es |})
      | None => (Err EMemory, l)
      end
    else
      match ent l h with
      | None => (Panic (SIndex 13), l)
      | Some old =>
          if e_huge old then partial_put_huge l frame order
          else if e_free old + pow2 order <=? HF then put_small l frame order
          else (Err EMemory, l)
      end.

  (* ----- queries ----- *)
  Definition lower_is_free (l : lower) (frame : N) (order : nat) : res bool :=
    (* the three asserts are the caller's preconditions (aligned, in range, order <= TREE_ORDER) *)
    if negb ((frame mod pow2 order =? 0) && (frame + pow2 order <=? frames l) && Nat.leb order (tord g))
    then Panic SIsFreeAssert else
    let h := frame / HF in
    if negb (has_tree l (frame / TF)) then Panic (SIndex 14) else
    if Nat.leb (hord g) order then
      let n := pow2 (order - hord g) in
      if THUGE <? h mod THUGE + n then Panic (SIndex 15) else
      Ok (forallb (fun e => e_free e =? HF) (firstn (nn n) (skipn (nn h) (ents l))))
    else
      match ent l h with
      | None => Panic (SIndex 16)
      | Some e =>
          if e_free e <? pow2 order then Ok false
          else if e_free e =? HF then Ok true
          else match bf l h with
               | None => Panic (SIndex 17)
               | Some rows => Ok (bf_is_zero g rows frame order)
               end
      end.

  Fixpoint chunks {A} (n : nat) (l : list A) (fuel : nat) : list (list A) :=
    match fuel with
    | O => []
    | S f => match l with [] => [] | _ => firstn n l :: chunks n (skipn n l) f end
    end.

  Definition tree_tables (l : lower) : list (list N) := chunks (thuge_nat g) (ents l) (length (ents l)).

  Definition lower_stats (l : lower) : stats :=
    fold_left (fun s tab =>
      let free := fold_right (fun e a => e_free e + a) 0 tab in
      {| free_frames := free_frames s + free;
         free_huge := free_huge s + N.of_nat (length (filter (fun e => e_free e =? HF) tab));
         free_trees := free_trees s + (if free =? TF then 1 else 0) |})
      (tree_tables l) stats0.

  Definition lower_stats_at (l : lower) (frame : N) (order : nat) : res stats :=
    let t := frame / TF in
    if negb (has_tree l t) then Panic (SIndex 18) else
    let h := frame / HF in
    if Nat.eqb order 0 then
      match ent l h with
      | None => Panic (SIndex 19)
      | Some e =>
          if 0 <? e_free e then
            match bf l h with
            | None => Panic (SIndex 20)
            | Some rows => Ok {| free_frames := if bf_is_zero g rows frame 0 then 1 else 0; free_huge := 0; free_trees := 0 |}
            end
          else Ok stats0
      end
    else if Nat.eqb order (hord g) then
      match ent l h with
      | None => Panic (SIndex 21)
      | Some e => Ok {| free_frames := e_free e; free_huge := e_free e / HF; free_trees := 0 |}
      end
    else if Nat.eqb order (tord g) then
      let tab := firstn (thuge_nat g) (skipn (nn (t * THUGE)) (ents l)) in
      let ff := fold_right (fun e a => e_free e + a) 0 tab in
      let fh := fold_right (fun e a => e_free e / HF + a) 0 tab in
      Ok {| free_frames := ff; free_huge := fh; free_trees := ff / TF |}
    else Ok stats0.

  (* free frames of tree t as `stats_at(.., TREE_ORDER).free_frames` computes them *)
  Definition tree_free (l : lower) (t : N) : N :=
    fold_right (fun e a => e_free e + a) 0 (firstn (thuge_nat g) (skipn (nn (t * THUGE)) (ents l))).

  (* ----- initialisation ----- *)
  (* entries of the last (partial) table in free_all: min(HF, frames -sat- frame) *)
  Definition free_all_ents (fr : N) : list N :=
    map (fun h => let f := N.of_nat h * HF in N.min (fr - f) HF)      (* N subtraction saturates *)
        (seq 0 (nn (ntab fr * THUGE))).

  Definition free_all_bfs (fr : N) : list (list N) :=
    map (fun h =>
           let b := N.of_nat h in
           if b <? fr / HF then repeat 0 (rows_nat g)
           else (* the partial bitfield: bits below the end are free, the rest allocated
                   (no bitfield lies entirely beyond the range: nbf = ceil(frames/HF)) *)
             let e := fr - b * HF in
             bf_set (bf_set (repeat 0 (rows_nat g)) 0 e false) e HF true)
        (seq 0 (nn (nbf fr))).

  Definition free_all (fr : N) : lower :=
    {| frames := fr; bfs := free_all_bfs fr; ents := free_all_ents fr |}.

  Definition reserve_all_ents (fr : N) : list N :=
    map (fun h => if N.of_nat h <? fr / HF then MARK else 0) (seq 0 (nn (ntab fr * THUGE))).
  Definition reserve_all_bfs (fr : N) : list (list N) :=
    map (fun h => if N.of_nat h <? fr / HF then repeat 0 (rows_nat g) else repeat MAX64 (rows_nat g))
        (seq 0 (nn (nbf fr))).
  Definition reserve_all (fr : N) : lower :=
    {| frames := fr; bfs := reserve_all_bfs fr; ents := reserve_all_ents fr |}.

  (* `recover` (repaired: table entries beyond the last bitfield are skipped) *)
  Definition recover_one (l : lower) (h : nat) : lower :=
    match nth_error (ents l) h, nth_error (bfs l) h with
    | Some e, Some rows =>
        let z := bf_count_zeros rows in
        if e_huge e then
          if z =? HF then l else set_bf l (N.of_nat h) (bf_fill rows false)
        else
          if e_free e =? z then l else set_ent l (N.of_nat h) z
    | _, _ => l
    end.
  Definition lower_recover (l : lower) : lower :=
    fold_left recover_one (seq 0 (length (ents l))) l.

  Inductive init := IFreeAll | IAllocAll | IRecover | INone.

  (* `Lower::new` over a buffer whose content is described by `buf` (used by Recover / None) *)
  Definition lower_new (fr : N) (i : init) (buf : lower) : lower :=
    match i with
    | IFreeAll => free_all fr
    | IAllocAll => reserve_all fr
    | IRecover => lower_recover {| frames := fr; bfs := bfs buf; ents := ents buf |}
    | INone => {| frames := fr; bfs := bfs buf; ents := ents buf |}
    end.
End Lower.
