(* Extraction of the `Trees::search_best` model for the correspondence driver `search` (C16).
   ExtrOcamlBasic only: bool, option, list, prod, unit, sumbool map to OCaml's; N, Z, positive, nat
   stay Coq's inductives. No Extract Constant / Extract Inductive of our own. *)
From LLF Require Import Base Sorted SearchBest.
Require Import ExtrOcamlBasic.
Extraction Language OCaml.
Set Extraction KeepSingleton.
(* search_order cap tree_frames rate trees start offset len : the order of the `access` calls;
   walk ntrees start offset len : the tree indices looked at (diagnostics only) *)
Extraction "model.ml" search_order walk.
