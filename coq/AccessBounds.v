(* C18, lifted from location arithmetic to the machines: EVERY access that the small-step machines M1
   (LowerMachine.v: lower allocator) and M2 (UpperMachine.v: whole allocator) perform in ANY reachable state
   addresses a metadata word inside its buffer.

   Meta.v / MetaProofs.v (Properties/C18.v) show that the byte locations row_loc / ent_loc / tree_loc / slot_loc
   lie inside buffers of the sizes `metadata_size` asks for GIVEN in-range indices.  Here:
   1. an event of M1 is only emitted after a successful lookup (`rd_ent` / `rd_row` = Some): `mstep_event_shape`;
      with the shape part of the invariant `Inv` (list lengths = nbf / ntab * THUGE, rows per bitfield, the
      thread-local facts of the narrow compare-exchange) the indices are in range and the accessed lane is an
      aligned 8/16/32/64-bit lane inside its row: `m1_event_idx_ok`;
   2. the same for M2: tree index < ntab, slot index < the class's slot count, lower accesses via the embedded
      M1 step: `m2_event_idx_ok` (under `UInv`);
   3. over reachable states (conc_inv / conc_uinv) and composed with the location lemmas of MetaProofs.v: the
      byte range of every emitted event lies inside lower_size / trees_size / local_size of the configuration and
      is aligned to its width; narrow accesses stay inside the 8-byte row of their frame:
      `reachable_m1_access_in_bounds`, `reachable_m2_access_in_bounds`.
   The step correspondence of the harness (schedrun | step / ustep) compares every hooked address of the compiled
   code with the location of the machine's event, so these bounds carry over to the accesses of the code on every
   explored schedule.  Stdlib only. *)
From Coq Require Import PeanoNat ZArith ZifyN ZifyBool.
From LLF Require Import Base Row Bitfield Lower Spec Sorted Upper UpperInvDef LowerMachine ConcBase ConcInvDef ConcInv
  ConcProps Meta MetaProofs AccessBoundsDef UpperPrims UpperMachine UpperConcInvDef UpperConcWf UpperConcInv UpperConcProps.

Ltac Zify.zify_post_hook ::= Z.div_mod_to_equations.

(* destruct the scrutinees that decide the second component of a step *)
Ltac snd_split :=
  repeat (cbn [snd]; cbv zeta;
          match goal with
          | |- context [snd (match ?x with _ => _ end)] => destruct x eqn:?
          end).

(* ================================================================================================ *)
(* M1                                                                                               *)
(* ================================================================================================ *)

(* what an event of M1 tells about the lookup that produced it *)
Definition ev_shape (g : geom) (s : mstate) (t : nat) (e : event) : Prop :=
  (ev_ent e = true /\ ev_r e = 0 /\ ev_off e = 0 /\ ev_width e = 16 /\ exists v, rd_ent s (ev_h e) = Some v) \/
  (ev_ent e = false /\ (exists v, rd_row s (ev_h e) (ev_r e) = Some v) /\
   ((ev_off e = 0 /\ ev_width e = 64) \/
    exists c x, nth_error (ms_pool s) t = Some (TRun c (TN x)) /\ ev_off e = t_off x c /\ ev_width e = pow2 (t_order g x c))).

(* every event is emitted after a successful lookup of the word it names; the only access that is not a whole
   row / entry is the narrow compare-exchange at pc TN *)
Lemma mstep_event_shape g s t c0 e : snd (mstep g s t c0) = Some e -> ev_shape g s t e.
Proof.
  unfold mstep. destruct (nth_error (ms_pool s) t) as [x|] eqn:Ht; [|discriminate].
  destruct x as [l|c p|x c]; [| |discriminate].
  - snd_split; discriminate.
  - destruct p; snd_split; try discriminate; intros [= <-];
      first [ left; repeat split; eexists; eassumption
            | right; split; [reflexivity|split; [eexists; eassumption|left; split; reflexivity]]
            | right; split; [reflexivity|split; [eexists; eassumption|right; do 2 eexists; split; [eassumption|split; reflexivity]]] ].
Qed.

(* the indices of an access are in range; the lane of a row access is aligned and inside the row *)
Definition row_idx_ok (g : geom) (fr h r off w : N) : Prop :=
  h < nbf g fr /\ r < ROWS g /\ off + w <= 64 /\ off mod w = 0 /\ (w = 8 \/ w = 16 \/ w = 32 \/ w = 64).
Definition ent_idx_ok (g : geom) (fr h off w : N) : Prop := h < ntab g fr * THUGE g /\ off = 0 /\ w = 16.
Definition ev_idx_ok (g : geom) (fr : N) (e : event) : Prop :=
  if ev_ent e then ent_idx_ok g fr (ev_h e) (ev_off e) (ev_width e) /\ ev_r e = 0
  else row_idx_ok g fr (ev_h e) (ev_r e) (ev_off e) (ev_width e).

Section M1.
  Variable g : geom.
  Hypothesis wf : wf_geom g.
  Notation HF := (HF g).
  Notation THUGE := (THUGE g).
  Notation ROWS := (ROWS g).

  Lemma lookup_lt {A} (l : list A) (i : N) x : nth_error l (nn i) = Some x -> i < N.of_nat (length l).
  Proof. intros H. apply nth_error_some_lt in H. unfold nn in H. lia. Qed.

  (* the lane of the narrow compare-exchange (pc TN): 2^order bits at bit offset `frame mod 64`, order 3..6 *)
  Lemma narrow_lane fr c x :
    local_b g fr (TRun c (TN x)) = true ->
    let off := t_off x c in let w := pow2 (t_order g x c) in
    off + w <= 64 /\ off mod w = 0 /\ (w = 8 \/ w = 16 \/ w = 32 \/ w = 64).
  Proof.
    cbn [local_b lpc]. intros H.
    apply andb_true_iff in H. destruct H as [Hc H].
    apply andb_true_iff in H. destruct H as [H H6]. apply andb_true_iff in H. destruct H as [H H3].
    apply andb_true_iff in H. destruct H as [Hx Hs].
    apply Nat.leb_le in H3. apply Nat.leb_le in H6.
    assert (Hw : forall k, (3 <= k <= 6)%nat -> pow2 k = 8 \/ pow2 k = 16 \/ pow2 k = 32 \/ pow2 k = 64).
    { intros k Hk. assert (E : k = 3%nat \/ k = 4%nat \/ k = 5%nat \/ k = 6%nat) by lia.
      destruct E as [-> | [-> | [-> | ->]]]; cbv; tauto. }
    destruct x as [| |old]; cbn [t_off t_order ctx_ok] in *.
    - (* get_at: the frame is aligned to its order *)
      destruct c as [st k|f k|f k]; try discriminate. cbn [c_frame c_order] in *.
      unfold cwf in Hc. cbn [c_order] in Hc. apply andb_true_iff in Hc. destruct Hc as [_ Hc].
      apply andb_true_iff in Hc. destruct Hc as [Ha _]. apply N.eqb_eq in Ha.
      destruct (Hw k (conj H3 H6)) as [E|[E|[E|E]]]; rewrite E in *; (split; [|split; [|tauto]]); lia.
    - destruct c as [st k|f k|f k]; try discriminate. cbn [c_frame c_order] in *.
      unfold cwf in Hc. cbn [c_order] in Hc. apply andb_true_iff in Hc. destruct Hc as [_ Hc].
      apply andb_true_iff in Hc. destruct Hc as [Ha _]. apply N.eqb_eq in Ha.
      destruct (Hw k (conj H3 H6)) as [E|[E|[E|E]]]; rewrite E in *; (split; [|split; [|tauto]]); lia.
    - (* the split of a huge frame: offset 0 *)
      destruct (Hw (hord g) (conj H3 H6)) as [E|[E|[E|E]]]; rewrite E in *; (split; [|split; [|tauto]]); lia.
  Qed.

  (* the part of the invariant that is used: list lengths, rows per bitfield, the thread-local facts of thread t *)
  Record Shape (s : mstate) (t : nat) : Prop := {
    Sh_bfs : length (ms_bfs s) = nn (nbf g (ms_frames s));
    Sh_ents : length (ms_ents s) = nn (ntab g (ms_frames s) * THUGE);
    Sh_rows : forall h rows, nth_error (ms_bfs s) h = Some rows -> length rows = rows_nat g;
    Sh_loc : forall x, nth_error (ms_pool s) t = Some x -> local_b g (ms_frames s) x = true
  }.

  Lemma Inv_Shape s t : Inv g s -> Shape s t.
  Proof.
    intros I. constructor.
    - apply (I_len1 g s I).
    - apply (I_len2 g s I).
    - intros h rows H. apply (I_rows g s I h rows H).
    - intros x H. apply (Forall_nth_error _ _ _ _ (I_L g s I) H).
  Qed.

  Lemma shape_idx_ok s t e : Shape s t -> ev_shape g s t e -> ev_idx_ok g (ms_frames s) e.
  Proof.
    intros [L1 L2 L3 L4] [(E & Hr & Ho & Hw & v & Hv)|(E & (v & Hv) & Hlane)]; unfold ev_idx_ok; rewrite E.
    - split; [|exact Hr]. split; [|split; assumption].
      unfold rd_ent in Hv. apply lookup_lt in Hv. rewrite L2 in Hv. unfold nn in Hv. lia.
    - unfold rd_row in Hv. destruct (nth_error (ms_bfs s) (nn (ev_h e))) as [rows|] eqn:Eb; [|discriminate].
      pose proof (lookup_lt _ _ _ Eb) as Hh. rewrite L1 in Hh.
      pose proof (lookup_lt _ _ _ Hv) as Hrr. rewrite (L3 _ _ Eb), <- (ROWS_nat g wf) in Hrr.
      split; [unfold nn in Hh; lia|]. split; [exact Hrr|].
      destruct Hlane as [(-> & ->) | (c & x & Ht & -> & ->)].
      + split; [lia|]. split; [reflexivity|tauto].
      + apply (narrow_lane (ms_frames s) c x). apply L4. exact Ht.
  Qed.

  Theorem m1_event_idx_ok s t c0 e :
    Inv g s -> snd (mstep g s t c0) = Some e -> ev_idx_ok g (ms_frames s) e.
  Proof. intros I H. apply (shape_idx_ok s t e); [apply Inv_Shape; exact I|apply (mstep_event_shape _ _ _ _ _ H)]. Qed.

  (* ----- the frame count never changes ----- *)
  Lemma fr_set_thr s t x : ms_frames (set_thr s t x) = ms_frames s. Proof. reflexivity. Qed.
  Lemma fr_set_held s h : ms_frames (set_held s h) = ms_frames s. Proof. reflexivity. Qed.
  Lemma fr_wr_ent s h v : ms_frames (wr_ent s h v) = ms_frames s. Proof. reflexivity. Qed.
  Lemma fr_wr_row s h r v : ms_frames (wr_row s h r v) = ms_frames s.
  Proof. unfold wr_row. destruct (nth_error (ms_bfs s) (nn h)); reflexivity. Qed.
  Lemma fr_goto s t c p : ms_frames (goto s t c p) = ms_frames s. Proof. reflexivity. Qed.
  Lemma fr_crash s t c x : ms_frames (crash s t c x) = ms_frames s. Proof. reflexivity. Qed.
  Lemma fr_finish s t c r : ms_frames (finish s t c r) = ms_frames s.
  Proof. unfold finish. destruct c; destruct r; reflexivity. Qed.
  Lemma fr_toggle_ok s t c x : ms_frames (toggle_ok s t c x) = ms_frames s.
  Proof. destruct x; cbn [toggle_ok]; [apply fr_finish|reflexivity|reflexivity]. Qed.
  Lemma fr_toggle_fail s t c x : ms_frames (toggle_fail s t c x) = ms_frames s.
  Proof. destruct x; cbn [toggle_fail]; [reflexivity|apply fr_finish|reflexivity]. Qed.
  Lemma fr_next_child s t c j : ms_frames (next_child g s t c j) = ms_frames s.
  Proof. unfold next_child. destruct (_ <? _); [reflexivity|apply fr_finish]. Qed.
  Lemma fr_next_row s t c j i : ms_frames (next_row g s t c j i) = ms_frames s.
  Proof. unfold next_row. destruct (_ <? _); reflexivity. Qed.
  Lemma fr_next_chunk s t c j ch : ms_frames (next_chunk g s t c j ch) = ms_frames s.
  Proof. unfold next_chunk. destruct (_ <? _); reflexivity. Qed.
  Lemma fr_next_group s t c gi : ms_frames (next_group g s t c gi) = ms_frames s.
  Proof. unfold next_group. destruct (_ <? _); [reflexivity|apply fr_finish]. Qed.

  Ltac fr_simp :=
    repeat first [ rewrite fr_goto | rewrite fr_crash | rewrite fr_finish | rewrite fr_toggle_ok | rewrite fr_toggle_fail
                 | rewrite fr_next_child | rewrite fr_next_row | rewrite fr_next_chunk | rewrite fr_next_group
                 | rewrite fr_wr_ent | rewrite fr_wr_row | rewrite fr_set_held | rewrite fr_set_thr ].
  Ltac fst_split :=
    repeat (cbn [fst]; cbv zeta;
            match goal with
            | |- context [match ?x with _ => _ end] => destruct x eqn:?
            end).

  Lemma mstep_frames s t c0 : ms_frames (fst (mstep g s t c0)) = ms_frames s.
  Proof.
    unfold mstep. destruct (nth_error (ms_pool s) t) as [x|]; [|reflexivity].
    destruct x as [l|c p|x c]; [| |reflexivity].
    - fst_split; cbn [fst]; fr_simp; reflexivity.
    - destruct p; fst_split; cbn [fst]; fr_simp; reflexivity.
  Qed.

  Lemma mrun_frames sch : forall s, ms_frames (mrun g sch s) = ms_frames s.
  Proof.
    induction sch as [|[t c] r IH]; intros s; [reflexivity|]. cbn [mrun fold_left fst snd].
    change (ms_frames (mrun g r (fst (mstep g s t c))) = ms_frames s). rewrite IH. apply mstep_frames.
  Qed.
End M1.

(* ================================================================================================ *)
(* byte ranges (Meta.v)                                                                             *)
(* ================================================================================================ *)
Section Bytes.
  Variable g : geom.
  Hypothesis wf : wf_geom g.

  (* a row access of `w` bits at bit offset `off` of row r of bitfield h: bytes [loc, loc + w/8) *)
  Definition row_bytes_ok (fr h r off w : N) : Prop :=
    let base := row_loc g h r in
    let loc := base + off / 8 in
    let wb := w / 8 in
    (wb = 1 \/ wb = 2 \/ wb = 4 \/ wb = 8) /\ w = 8 * wb /\ off = 8 * (off / 8) /\
    base <= loc /\ loc + wb <= base + 8 /\                            (* inside the 8-byte row word *)
    base + 8 <= nbf g fr * bitfield_bytes g /\                        (* the row lies in the bitfield part ... *)
    base + 8 <= lower_size g fr /\                                    (* ... of the lower buffer *)
    loc mod wb = 0.                                                   (* aligned to its access width *)
  (* a huge entry: 2 bytes in the table part of the lower buffer *)
  Definition ent_bytes_ok (fr h w : N) : Prop :=
    w = 16 /\ nbf g fr * bitfield_bytes g <= ent_loc g fr h /\ ent_loc g fr h + 2 <= lower_size g fr /\ ent_loc g fr h mod 2 = 0.

  Lemma row_idx_bytes fr h r off w : row_idx_ok g fr h r off w -> row_bytes_ok fr h r off w.
  Proof.
    intros (Hh & Hr & Hlane & Hal & Hw).
    destruct (row_loc_bounds g wf fr h r Hh Hr) as (B1 & B2 & B3).
    unfold row_bytes_ok. cbv zeta. set (base := row_loc g h r) in *.
    destruct Hw as [-> | [-> | [-> | ->]]].
    - change (8 / 8) with 1. repeat split; try tauto; lia.
    - change (16 / 8) with 2. repeat split; try tauto; lia.
    - change (32 / 8) with 4. repeat split; try tauto; lia.
    - change (64 / 8) with 8. repeat split; try tauto; lia.
  Qed.

  Lemma ent_idx_bytes fr h off w : ent_idx_ok g fr h off w -> ent_bytes_ok fr h w.
  Proof.
    intros (Hh & _ & ->). destruct (ent_loc_bounds g wf fr h Hh) as (B1 & B2 & B3).
    unfold ent_bytes_ok. tauto.
  Qed.

  Definition m1_ev_bytes_ok (fr : N) (e : event) : Prop :=
    if ev_ent e then ent_bytes_ok fr (ev_h e) (ev_width e)
    else row_bytes_ok fr (ev_h e) (ev_r e) (ev_off e) (ev_width e).

  Lemma ev_idx_bytes fr e : ev_idx_ok g fr e -> m1_ev_bytes_ok fr e.
  Proof.
    unfold ev_idx_ok, m1_ev_bytes_ok. destruct (ev_ent e).
    - intros [H _]. eapply ent_idx_bytes. exact H.
    - apply row_idx_bytes.
  Qed.
End Bytes.

(* the executable forms of AccessBoundsDef.v (evaluated by the drivers on the accesses of the compiled code) *)
Lemma row_idx_okb_spec g fr h r off w : row_idx_okb g fr h r off w = true <-> row_idx_ok g fr h r off w.
Proof.
  unfold row_idx_okb, lane_okb, row_idx_ok. rewrite !andb_true_iff, !orb_true_iff, !N.ltb_lt, !N.leb_le, !N.eqb_eq. tauto.
Qed.
Lemma ent_idx_okb_spec g fr h off w : ent_idx_okb g fr h off w = true <-> ent_idx_ok g fr h off w.
Proof. unfold ent_idx_okb, ent_idx_ok. rewrite !andb_true_iff, N.ltb_lt, !N.eqb_eq. tauto. Qed.

(* every access of every reachable state of M1 lies inside the lower buffer of the configuration *)
Theorem reachable_m1_access_in_bounds : forall g l held0 n sch t c e,
  wf_geom g -> LowerInv g l -> HeldInit g l held0 ->
  let s := mrun g sch (boot l held0 n) in
  snd (mstep g s t c) = Some e ->
  ev_idx_ok g (frames l) e /\ m1_ev_bytes_ok g (frames l) e.
Proof.
  intros g l held0 n sch t c e wf HL HI s H.
  assert (I : Inv g s) by (apply conc_inv; assumption).
  assert (F : ms_frames s = frames l) by (unfold s; rewrite mrun_frames; reflexivity).
  pose proof (m1_event_idx_ok g wf s t c e I H) as X. rewrite F in X.
  split; [exact X|apply (ev_idx_bytes g wf); exact X].
Qed.

(* ================================================================================================ *)
(* M2                                                                                               *)
(* ================================================================================================ *)
Definition uev_idx_ok (g : geom) (u : upper) (e : uevent) : Prop :=
  let fr := frames (low u) in
  match ue_loc e with
  | LTree i => i < ntab g fr /\ ue_off e = 0 /\ ue_width e = 32
  | LSlot c idx => (exists len, class_locals u c = Some len /\ idx < len) /\ ue_off e = 0 /\ ue_width e = 64
  | LEnt h => ent_idx_ok g fr h (ue_off e) (ue_width e)
  | LRow h r => row_idx_ok g fr h r (ue_off e) (ue_width e)
  end.

Section M2.
  Variable g : geom.
  Variable policy : N -> N -> N -> pol.
  Hypothesis wf : wf_geom g.

  Lemma tree_at_lt u i t : length (trees u) = nn (ntab g (frames (low u))) -> tree_at u i = Some t -> i < ntab g (frames (low u)).
  Proof. intros L H. unfold tree_at in H. apply lookup_lt in H. rewrite L in H. unfold nn in H. lia. Qed.

  Lemma slot_at_lt u c idx sl : slot_at u c idx = Some sl -> exists len, class_locals u c = Some len /\ idx < len.
  Proof.
    unfold slot_at, class_locals. destruct (class_slots u c) as [l|]; [|discriminate].
    intros H. apply lookup_lt in H. exists (N.of_nat (length l)). split; [reflexivity|exact H].
  Qed.

  (* the M1 step of the embedded lower call *)
  Lemma low_event_idx_ok s t c k th e0 o :
    UInv g policy o s -> nth_error (m2_pool s) t = Some (URun c (PLow th) k) ->
    forall c1, snd (mstep g (m1_view (m2_up s) th) O c1) = Some e0 ->
    ev_idx_ok g (frames (low (m2_up s))) e0.
  Proof.
    intros (I & _ & _) Ht c1 H.
    apply (shape_idx_ok g wf (m1_view (m2_up s) th) O e0); [|apply (mstep_event_shape _ _ _ _ _ H)].
    pose proof (Inv_Shape g (m1_of g s) t I) as [L1 L2 L3 L4].
    constructor; cbn [m1_view ms_frames ms_ents ms_bfs ms_pool] in *.
    - exact L1.
    - exact L2.
    - exact L3.
    - intros x Hx. cbn [nth_error] in Hx. injection Hx as <-.
      apply L4. cbn [m1_of ms_pool]. rewrite nth_error_map, Ht. reflexivity.
  Qed.

  Lemma idx_of_m1 u e0 : ev_idx_ok g (frames (low u)) e0 -> uev_idx_ok g u (ev_of_m1 e0).
  Proof.
    unfold ev_idx_ok, uev_idx_ok, ev_of_m1. cbn [ue_loc ue_off ue_width]. destruct (ev_ent e0).
    - intros [H _]. exact H.
    - intros H. exact H.
  Qed.

  Theorem m2_event_idx_ok o s t c0 e :
    UInv g policy o s -> snd (ustep g policy s t c0) = Some e -> uev_idx_ok g (m2_up s) e.
  Proof.
    intros U H. pose proof U as (I & UGs & _).
    assert (LT : length (trees (m2_up s)) = nn (ntab g (frames (low (m2_up s))))).
    { destruct UGs as (_ & LT & _). exact LT. }
    unfold ustep in H. destruct (nth_error (m2_pool s) t) as [x|] eqn:Ht; [|discriminate].
    destruct x as [l|c p k|z c]; [| |discriminate].
    - destruct c0; try discriminate. destruct (client_take _ _ _); discriminate.
    - destruct (prim_step g policy (m2_up s) p) as [[u' ev] oc] eqn:E. cbn [snd] in H. subst ev.
      destruct p as [i|i f0|i f0 cur j a|i f0 cur new|cl idx f0|cl idx f0 cur new|cl idx new|th]; cbn [prim_step] in E.
      + destruct (tree_at (m2_up s) i) as [tr|] eqn:Et; [|discriminate]. injection E as _ <- _.
        unfold uev_idx_ok, uev. cbn [ue_loc ue_off ue_width]. split; [eapply tree_at_lt; eassumption|split; reflexivity].
      + destruct (tree_at (m2_up s) i) as [tr|] eqn:Et; [|discriminate]. injection E as _ <- _.
        unfold uev_idx_ok, uev. cbn [ue_loc ue_off ue_width]. split; [eapply tree_at_lt; eassumption|split; reflexivity].
      + destruct (nth_error (ents (low (m2_up s))) (nn (i * THUGE g + j))) as [en|] eqn:Ee; [|discriminate]. injection E as _ <- _.
        unfold uev_idx_ok, uev. cbn [ue_loc ue_off ue_width]. split; [|split; reflexivity].
        apply lookup_lt in Ee. pose proof (I_len2 g _ I) as L2. cbn [m1_of ms_ents ms_frames] in L2. rewrite L2 in Ee.
        unfold nn in Ee. lia.
      + destruct (tree_at (m2_up s) i) as [tr|] eqn:Et; [|discriminate].
        destruct (tree_eqb tr cur); injection E as _ <- _;
          unfold uev_idx_ok, uev; cbn [ue_loc ue_off ue_width]; (split; [eapply tree_at_lt; eassumption|split; reflexivity]).
      + destruct (slot_at (m2_up s) cl idx) as [sl|] eqn:Es; [|discriminate]. injection E as _ <- _.
        unfold uev_idx_ok, uev. cbn [ue_loc ue_off ue_width]. split; [eapply slot_at_lt; eassumption|split; reflexivity].
      + destruct (slot_at (m2_up s) cl idx) as [sl|] eqn:Es; [|discriminate].
        destruct (slot_eqb sl cur); injection E as _ <- _;
          unfold uev_idx_ok, uev; cbn [ue_loc ue_off ue_width]; (split; [eapply slot_at_lt; eassumption|split; reflexivity]).
      + destruct (slot_at (m2_up s) cl idx) as [sl|] eqn:Es; [|discriminate]. injection E as _ <- _.
        unfold uev_idx_ok, uev. cbn [ue_loc ue_off ue_width]. split; [eapply slot_at_lt; eassumption|split; reflexivity].
      + destruct th as [l|c1 p1|z c1]; try discriminate.
        destruct (mstep g (m1_view (m2_up s) (TRun c1 p1)) 0 c1) as [ms' ev0] eqn:M.
        assert (Hev : option_map ev_of_m1 ev0 = Some e).
        { destruct (nth_error (ms_pool ms') 0) as [[[[x|er|z]|]|c2 p2|z c2]|]; injection E as _ <- _; reflexivity. }
        destruct ev0 as [e0|]; [|discriminate]. injection Hev as <-.
        apply idx_of_m1. eapply (low_event_idx_ok s t c k (TRun c1 p1) e0 o U Ht c1).
        rewrite M. reflexivity.
  Qed.
End M2.

(* ----- byte ranges of M2's events; `cl` = the classing the local buffer was laid out with ----- *)
Definition m2_ev_bytes_ok (g : geom) (fr : N) (cl : list (N * N)) (e : uevent) : Prop :=
  match ue_loc e with
  | LTree i => ue_width e = 32 /\ tree_loc i + 4 <= trees_size g fr /\ tree_loc i mod 4 = 0
  | LSlot c idx => ue_width e = 64 /\ exists o, slot_loc cl c idx = Some o /\ o + 8 <= local_size cl /\ o mod 8 = 0
  | LEnt h => ent_bytes_ok g fr h (ue_width e)
  | LRow h r => row_bytes_ok g fr h r (ue_off e) (ue_width e)
  end.

(* the local slots of `u` are those of classing `cl` (Locals::new lays the classes out in classing order) *)
Definition classing_agrees (cl : list (N * N)) (u : upper) : Prop :=
  forall c, class_locals u c = option_map snd (class_lookup cl c 0 None).

Lemma uev_idx_bytes g u cl e : wf_geom g -> classing_agrees cl u ->
  uev_idx_ok g u e -> m2_ev_bytes_ok g (frames (low u)) cl e.
Proof.
  intros wf CA. unfold uev_idx_ok, m2_ev_bytes_ok. destruct (ue_loc e) as [i|c idx|h|h r].
  - intros (Hi & _ & Hw). split; [exact Hw|]. apply tree_loc_bounds. exact Hi.
  - intros ((len & Hl & Hidx) & _ & Hw). split; [exact Hw|].
    rewrite (CA c) in Hl. destruct (class_lookup cl c 0 None) as [[off cnt]|] eqn:E; [|discriminate].
    cbn [option_map snd] in Hl. injection Hl as ->.
    exists (off + idx * 64).
    assert (S : slot_loc cl c idx = Some (off + idx * 64)).
    { unfold slot_loc. rewrite E. apply N.ltb_lt in Hidx. rewrite Hidx. reflexivity. }
    split; [exact S|]. destruct (slot_loc_bounds cl c idx _ S) as (B1 & _ & B3). split; [lia|exact B3].
  - apply (ent_idx_bytes g wf).
  - apply (row_idx_bytes g wf).
Qed.

(* ----- `Locals::new` (Upper.v `locals_new`) establishes `classing_agrees` ----- *)
Definition lenopt (ls : list (option (list slot))) (c : N) : option N :=
  match nth_error ls (nn c) with Some (Some l) => Some (N.of_nat (length l)) | _ => None end.

Fixpoint lgo (cl : list (N * N)) (buf : list slot) (acc : list (option (list slot))) : res (list (option (list slot))) :=
  match cl with
  | [] => Ok acc
  | (c, n) :: r =>
      if 8 <=? c then Panic (SIndex 49)
      else lgo r (skipn (nn n) buf) (upd acc (nn c) (Some (firstn (nn n) buf)))
  end.
Lemma locals_new_lgo cl buf : locals_new cl buf = lgo cl buf (repeat None 8).
Proof. reflexivity. Qed.

Lemma lgo_agrees c : forall cl buf acc off a ls,
  lgo cl buf acc = Ok ls -> slots_total cl <= N.of_nat (length buf) -> length acc = 8%nat ->
  lenopt acc c = option_map snd a ->
  lenopt ls c = option_map snd (class_lookup cl c off a).
Proof.
  induction cl as [|[id n] r IH]; intros buf acc off a ls H Hlen Hacc Ha; cbn [lgo class_lookup] in *.
  - injection H as <-. exact Ha.
  - destruct (8 <=? id) eqn:E8; [discriminate|]. apply N.leb_gt in E8.
    cbn [slots_total fold_right snd] in Hlen. fold (slots_total r) in Hlen.
    apply (IH _ _ (off + n * 64) _ ls H).
    + rewrite skipn_length. unfold nn. lia.
    + rewrite upd_length. exact Hacc.
    + unfold lenopt. destruct (N.eqb_spec id c) as [->|Hne].
      * rewrite nth_error_upd_same by (rewrite Hacc; unfold nn; lia).
        rewrite firstn_length. cbn [option_map snd]. f_equal. unfold nn. lia.
      * rewrite nth_error_upd_other by (unfold nn; lia). exact Ha.
Qed.

Lemma locals_new_agrees cl buf ls u : locals_new cl buf = Ok ls -> slots_total cl <= N.of_nat (length buf) ->
  locals u = ls -> classing_agrees cl u.
Proof.
  intros H Hlen <- c. rewrite locals_new_lgo in H.
  pose proof (lgo_agrees c cl buf (repeat None 8) 0 None (locals u) H Hlen (repeat_length _ _)) as X.
  unfold class_locals, class_slots. unfold lenopt in X.
  assert (X0 : match nth_error (repeat (@None (list slot)) 8) (nn c) with Some (Some l) => Some (N.of_nat (length l)) | _ => None end = None).
  { destruct (nth_error (repeat None 8) (nn c)) as [[l|]|] eqn:E; [|reflexivity|reflexivity].
    apply nth_error_In, repeat_spec in E. discriminate. }
  specialize (X X0). rewrite <- X. destruct (nth_error (locals u) (nn c)) as [[l|]|]; reflexivity.
Qed.

(* `LLFree::new` (Upper.v `llfree_new`) over a local buffer that is large enough *)
Lemma llfree_new_classing_agrees g fr i cl d lbuf tbuf sbuf u :
  llfree_new g fr i cl d lbuf tbuf sbuf = Ok u -> slots_total cl <= N.of_nat (length sbuf) -> classing_agrees cl u.
Proof.
  unfold llfree_new. destruct (locals_new cl sbuf) as [ls|er|z] eqn:E; try discriminate.
  intros H Hlen. apply (locals_new_agrees cl sbuf ls u E Hlen).
  destruct i; [destruct (trees_new g _ d); try discriminate; injection H as <-; reflexivity ..|injection H as <-; reflexivity].
Qed.

Lemma uev_idx_okb_spec g u e : uev_idx_ok g u e <->
  match ue_loc e with
  | LTree i => tree_idx_okb g (frames (low u)) i (ue_off e) (ue_width e) = true
  | LSlot c idx => slot_idx_okb (class_locals u c) idx (ue_off e) (ue_width e) = true
  | LEnt h => ent_idx_okb g (frames (low u)) h (ue_off e) (ue_width e) = true
  | LRow h r => row_idx_okb g (frames (low u)) h r (ue_off e) (ue_width e) = true
  end.
Proof.
  unfold uev_idx_ok. destruct (ue_loc e) as [i|c idx|h|h r].
  - unfold tree_idx_okb. rewrite !andb_true_iff, N.ltb_lt, !N.eqb_eq. tauto.
  - unfold slot_idx_okb. destruct (class_locals u c) as [n|].
    + rewrite !andb_true_iff, N.ltb_lt, !N.eqb_eq. split.
      * intros ((len & [= <-] & Hi) & A & B). tauto.
      * intros ((Hi & A) & B). split; [exists n; split; [reflexivity|exact Hi]|tauto].
    + split; [intros ((len & Hl & _) & _); discriminate|discriminate].
  - symmetry. apply ent_idx_okb_spec.
  - symmetry. apply row_idx_okb_spec.
Qed.

(* every access of every reachable state of M2 lies inside the three buffers of the configuration *)
Theorem reachable_m2_access_in_bounds : forall g policy u held0 n sch t c e cl,
  wf_geom g -> pol_refl_match policy -> pol_demote_trans policy ->
  UpperInv g policy (ustate_new u) -> HeldInit g (low u) held0 -> sched_valid g u sch ->
  classing_agrees cl u ->
  let s := urun g policy sch (uboot u held0 n) in
  snd (ustep g policy s t c) = Some e ->
  uev_idx_ok g (m2_up s) e /\ m2_ev_bytes_ok g (frames (low u)) cl e.
Proof.
  intros g policy u held0 n sch t c e cl wf PR PT HU HH SV CA s H.
  destruct (conc_uinv g policy wf PR PT u held0 n sch HU HH SV) as (I & E). rewrite E in I. fold s in I.
  pose proof (m2_event_idx_ok g policy wf _ s t c e I H) as X.
  pose proof (urun_static g policy wf sch (uboot u held0 n)) as (_ & SC & SF & _). fold s in SC, SF.
  cbn [uboot m2_up] in SC, SF.
  split; [exact X|]. rewrite <- SF. apply (uev_idx_bytes g (m2_up s) cl e wf); [|exact X].
  intros c1. rewrite SC. apply CA.
Qed.

Print Assumptions reachable_m1_access_in_bounds.
Print Assumptions reachable_m2_access_in_bounds.
Print Assumptions locals_new_agrees.
Print Assumptions llfree_new_classing_agrees.
