(* L3: util.rs `SortedBuffer<N, T>` (as repaired: see DESIGN.md D9) and the order it is read in.
   The buffer `[Option<T>; N]` always has its `Some` entries in a prefix (invariant of `add`), so
   the model keeps just that prefix: a list of at most `cap` elements in ascending order.
   Elements are (key, value) pairs compared by key only (`OrdBy`). No proofs here. *)
From LLF Require Import Base.

Section SortedBuffer.
  Context {K V : Type}.
  Variable le : K -> K -> bool.            (* `<=` of `Ord for K` *)

  (* number of leading elements strictly smaller than the new key: position of the first element e
     with `value <= e` *)
  Fixpoint sb_pos (k : K) (buf : list (K * V)) : nat :=
    match buf with
    | [] => 0
    | (k', _) :: r => if le k k' then 0 else S (sb_pos k r)
    end.

  Fixpoint insert_at (n : nat) (x : K * V) (buf : list (K * V)) : list (K * V) :=
    match n, buf with
    | O, _ => x :: buf
    | S n', [] => [x]
    | S n', a :: r => a :: insert_at n' x r
    end.

  (* `add`: if not full, insert at pos (shifting the larger elements right); if full and pos > 0,
     drop the smallest element and insert below the first larger-or-equal one; if full and pos = 0
     (new key <= every kept key) the value is dropped. *)
  Definition sb_add (cap : nat) (buf : list (K * V)) (x : K * V) : list (K * V) :=
    let pos := sb_pos (fst x) buf in
    if Nat.ltb (length buf) cap then insert_at pos x buf
    else match pos with
         | O => buf
         | S p => insert_at p x (tl buf)
         end.

  Definition sb_add_all (cap : nat) (xs : list (K * V)) : list (K * V) :=
    fold_left (sb_add cap) xs [].

  (* `best.iter().rev()`: best first *)
  Definition sb_iter_rev (buf : list (K * V)) : list (K * V) := rev buf.
End SortedBuffer.

(* The behaviour of the pinned (unrepaired) code, kept to exhibit finding D9:
   rotate_right(1) on buffer[pos..len] then overwrite buffer[pos]. *)
Section SortedBufferOld.
  Context {K V : Type}.
  Variable le : K -> K -> bool.
  (* slots: list (option (K*V)) of length cap *)
  Fixpoint old_pos (k : K) (buf : list (option (K * V))) : option nat :=
    match buf with
    | [] => None
    | None :: _ => Some 0%nat
    | Some (k', _) :: r => if le k k' then Some 0%nat else option_map S (old_pos k r)
    end.
  Fixpoint old_len (buf : list (option (K * V))) : nat :=
    match buf with Some _ :: r => S (old_len r) | _ => 0%nat end.
  Definition rotate_right1 {A} (l : list A) : list A :=
    match rev l with [] => [] | a :: r => a :: rev r end.
  Definition old_add (buf : list (option (K * V))) (x : K * V) : list (option (K * V)) :=
    match old_pos (fst x) buf with
    | None => buf
    | Some pos =>
        let len := old_len buf in
        let buf1 := if Nat.ltb pos len
                    then firstn pos buf ++ rotate_right1 (firstn (len - pos) (skipn pos buf)) ++ skipn len buf
                    else buf in
        upd buf1 pos (Some x)
    end.
End SortedBufferOld.
