(* Tests of machine M2 (UpperMachine.v) by vm_compute: a call running ALONE on M2 computes the big-step
   function of the sequential model Upper.v (same result, same final memory: lower buffer, tree entries,
   local slots), on states reached by varied operation sequences, for three classings / policies.
   Also: the packed-word encodings round-trip, and a few interleaved schedules keep the ghost sane.
   No proofs that anything else depends on. *)
From LLF Require Import Base Row Bitfield Lower Sorted Upper LowerMachine Policies UpperMachine.

Definition g0 := {| hord := 9; tlog := 2 |}.          (* TREE_FRAMES = 2048 *)
Definition TF0 : N := 2048.

Definition rq (o : nat) (c : N) (l : option N) : request := {| r_order := o; r_class := c; r_local := l |}.
Definition mkU (pol : N -> N -> N -> pol) (fr : N) (i : init) (classing : list (N * N)) (d : N) : upper :=
  match llfree_new g0 fr i classing d (free_all g0 fr) [] (repeat slot_none 16) with
  | Ok u => u
  | _ => {| low := free_all g0 0; trees := []; locals := []; dflt := 0 |}
  end.

(* sequential prefix: run calls with the big-step functions *)
Definition after (pol : N -> N -> N -> pol) (u : upper) (cs : list ucall) : upper :=
  fold_left (fun u c => snd (ubig g0 pol u c)) cs u.

Definition simple := pol_simple TF0.
Definition movable := pol_movable TF0.
Definition custom := pol_custom TF0.

(* Classing::simple(1): classes 0 and 1 with one slot each, default 1; 4 trees *)
Definition US := mkU simple 8192 IFreeAll [(0, 1); (1, 1)] 1.
(* two slots per class, 5 trees, the last one partial *)
Definition US2 := mkU simple 8300 IFreeAll [(0, 2); (1, 2)] 1.
(* Classing::movable(1): classes 0,1,2, default 2 *)
Definition UM := mkU movable 8192 IFreeAll [(0, 1); (1, 1); (2, 1)] 2.
(* a class without slots *)
Definition UZ := mkU simple 8192 IFreeAll [(0, 1); (1, 0)] 1.
(* custom policy with Invalid pairs *)
Definition UC := mkU custom 8192 IFreeAll [(0, 1); (1, 1); (2, 1)] 1.
(* everything allocated *)
Definition UA := mkU simple 8192 IAllocAll [(0, 1); (1, 1)] 1.

Definition get (o : nat) (c : N) (l : option N) := UGet None (rq o c l).
Definition getat (f : N) (o : nat) (c : N) (l : option N) := UGet (Some f) (rq o c l).
Definition put (f : N) (o : nat) (c : N) (l : option N) := UPut f (rq o c l).
Definition offline (i : N) := UChange {| m_id := Some i; m_class := None; m_free := 0 |} {| c_class := None; c_op := Some OpOffline |}.
Definition online (i : N) := UChange {| m_id := Some i; m_class := None; m_free := 0 |} {| c_class := None; c_op := Some OpOnline |}.
Definition reclass (c : N) (minfree : N) (to : N) :=
  UChange {| m_id := None; m_class := Some c; m_free := minfree |} {| c_class := Some to; c_op := None |}.

(* fill tree 0 of US with order-9 gets (class 1) *)
Definition huge4 := [get 9 1 (Some 0); get 9 1 (Some 0); get 9 1 (Some 0); get 9 1 (Some 0)].
Definition many (n : nat) (c : ucall) : list ucall := repeat c n.

Definition tests : list ((N -> N -> N -> pol) * upper * ucall) :=
  [ (* first allocations: reserve a tree *)
    (simple, US, get 0 0 (Some 0)); (simple, US, get 0 1 (Some 0)); (simple, US, get 3 0 (Some 0));
    (simple, US, get 9 1 (Some 0)); (simple, US, get 11 1 (Some 0)); (simple, US, get 7 0 None);
    (simple, US, get 0 0 None); (simple, US, get 12 0 (Some 0)); (simple, US, get 0 5 (Some 0));
    (simple, US, getat 64 0 0 (Some 0)); (simple, US, getat 4096 9 1 None); (simple, US, getat 65 1 0 None);
    (simple, US, getat 9000 0 0 None);
    (* with a reservation: local hit, set_start, sync *)
    (simple, after simple US [get 0 0 (Some 0)], get 0 0 (Some 0));
    (simple, after simple US [get 0 0 (Some 0)], get 6 0 (Some 0));
    (simple, after simple US [get 0 0 (Some 0)], get 9 0 (Some 0));
    (simple, after simple US [get 0 0 (Some 0)], getat 1 0 0 (Some 0));
    (simple, after simple US [get 0 0 (Some 0)], getat 2048 0 0 (Some 0));
    (simple, after simple US [get 0 0 (Some 0)], getat 0 0 0 (Some 0));
    (simple, after simple US [get 0 0 (Some 0)], put 6144 0 0 (Some 0));
    (simple, after simple US [get 0 0 (Some 0)], put 6144 0 0 None);
    (simple, after simple US [get 0 0 (Some 0)], put 6144 0 1 (Some 0));
    (simple, after simple US [get 0 0 (Some 0)], UDrain);
    (simple, after simple US [get 0 0 (Some 0); get 9 1 (Some 0)], UDrain);
    (simple, after simple US [get 0 0 (Some 0); UDrain], get 0 0 (Some 0));
    (simple, after simple US [get 0 0 (Some 0); put 6144 0 0 None], get 11 0 (Some 0));     (* sync with the global counter *)
    (simple, after simple US [get 3 0 (Some 0); put 6144 3 0 None; get 0 0 (Some 0); put 6152 0 0 None], get 0 0 (Some 0));
    (* class 1 holds trees: class 0 steals / class 1 demotes *)
    (simple, after simple US (get 9 1 (Some 0) :: many 3 (get 11 1 (Some 0))), get 0 0 (Some 0));
    (simple, after simple US (get 9 1 (Some 0) :: many 3 (get 11 1 (Some 0))), get 0 0 None);
    (simple, after simple US (get 0 0 (Some 0) :: many 3 (get 11 0 (Some 0))), get 9 1 (Some 0));
    (simple, after simple US (get 0 0 (Some 0) :: many 3 (get 11 0 (Some 0))), get 9 1 None);
    (simple, after simple US (get 0 0 (Some 0) :: many 3 (get 11 0 (Some 0))), getat 512 9 1 (Some 0));
    (simple, after simple US (many 4 (get 11 0 (Some 0))), get 0 0 (Some 0));               (* out of memory *)
    (simple, after simple US (many 4 (get 11 0 (Some 0))), get 0 1 None);
    (simple, after simple US (many 4 (get 11 0 (Some 0))), put 2048 11 0 (Some 0));
    (simple, after simple US (many 4 (get 11 0 (Some 0))), put 2048 9 0 None);             (* partial free of a tree-order block *)
    (simple, after simple US huge4, get 9 1 (Some 0));
    (simple, after simple US huge4, put 512 0 1 (Some 0));                                 (* split a huge frame *)
    (* change_tree *)
    (simple, US, offline 1); (simple, US, offline 7); (simple, after simple US [offline 1], online 1);
    (simple, after simple US [offline 1], get 11 0 None); (simple, after simple US [get 0 0 None], online 0);
    (simple, US, reclass 1 2048 0); (simple, after simple US [get 0 0 (Some 0)], reclass 1 100 0);
    (simple, after simple US [get 0 0 (Some 0); UDrain], reclass 0 1 1); (simple, US, reclass 3 0 0);
    (simple, after simple US [offline 0; offline 1; offline 2; offline 3], get 0 0 (Some 0));
    (* two slots, partial last tree *)
    (simple, US2, get 0 0 (Some 1)); (simple, after simple US2 [get 0 0 (Some 0)], get 0 0 (Some 1));
    (simple, after simple US2 [get 0 0 (Some 0); get 0 0 (Some 1)], get 0 0 (Some 2));
    (simple, after simple US2 [get 0 0 (Some 0); get 0 0 (Some 1)], UDrain);
    (simple, after simple US2 (many 4 (get 11 1 (Some 0))), get 6 0 (Some 1));
    (simple, after simple US2 (many 4 (get 11 1 (Some 0))), get 7 0 (Some 1));
    (simple, after simple US2 (many 4 (get 11 1 (Some 0))), getat 8192 5 1 (Some 1));
    (* movable: three classes *)
    (movable, UM, get 0 0 (Some 0)); (movable, UM, get 0 1 (Some 0)); (movable, UM, get 9 2 (Some 0));
    (movable, after movable UM [get 0 0 (Some 0); get 0 1 (Some 0)], get 9 2 (Some 0));
    (movable, after movable UM [get 0 1 (Some 0); get 11 1 (Some 0); get 11 1 (Some 0); get 11 1 (Some 0)], get 0 0 (Some 0));
    (movable, after movable UM [get 0 1 (Some 0); get 11 1 (Some 0); get 11 1 (Some 0); get 11 1 (Some 0)], get 0 2 (Some 0));
    (movable, after movable UM [get 0 0 (Some 0); get 11 0 (Some 0); get 11 0 (Some 0); get 11 0 (Some 0)], get 0 2 (Some 0));
    (movable, after movable UM [get 0 0 (Some 0); get 11 0 (Some 0); get 11 0 (Some 0); get 11 0 (Some 0)], get 0 2 None);
    (movable, after movable UM [get 0 2 (Some 0); get 11 2 (Some 0); get 11 2 (Some 0); get 11 2 (Some 0)], get 0 0 (Some 0));
    (movable, after movable UM [get 0 2 (Some 0); get 11 2 (Some 0); get 11 2 (Some 0); get 11 2 (Some 0)], getat 5 0 1 None);
    (* class without slots; custom policy *)
    (simple, UZ, get 0 1 (Some 0)); (simple, UZ, get 0 0 (Some 0)); (simple, after simple UZ [get 0 1 None], get 0 0 (Some 0));
    (simple, after simple UZ (many 4 (get 11 1 None)), get 0 0 (Some 0));
    (custom, UC, get 0 0 (Some 0)); (custom, after custom UC [get 0 2 (Some 0)], get 11 0 (Some 0));
    (custom, after custom UC [get 0 2 (Some 0); get 11 2 (Some 0); get 11 2 (Some 0); get 11 2 (Some 0)], get 0 0 (Some 0));
    (* AllocAll *)
    (simple, UA, get 0 0 (Some 0)); (simple, UA, put 0 9 1 (Some 0)); (simple, UA, put 5 0 0 (Some 0));
    (simple, after simple UA [put 5 0 0 (Some 0)], get 0 0 (Some 0)); (simple, after simple UA [put 0 11 1 None], get 11 1 (Some 0));
    (simple, UA, put 0 0 0 (Some 3))                                                        (* slot index out of range: panic *)
  ].

Definition expected : list (res (N * N)) :=
  Eval vm_compute in map (fun t => fst (ubig g0 (fst (fst t)) (snd (fst t)) (snd t))) tests.
Print expected.

Example usolo_agrees_tests :
  forallb (fun t => usolo_agrees g0 (fst (fst t)) (snd (fst t)) (snd t) 2000) tests = true.
Proof. vm_compute. reflexivity. Qed.

(* where the sequential model panics, M2 stops at the same site *)
Definition usolo_site_agrees (pol : N -> N -> N -> pol) (u : upper) (c : ucall) (fuel : nat) : bool :=
  let s := usolo g0 pol fuel (fst (ustep g0 pol (uboot u (solo_held c) 1) O c)) c in
  match ubig g0 pol u c, nth_error (m2_pool s) O with
  | (Panic x, _), Some (UPanic y _) =>
      match x, y with
      | SIndex a, SIndex b => a =? b
      | SUnreserveFailed, SUnreserveFailed | SUnreserveClass, SUnreserveClass | STreeFree, STreeFree
      | SLocalFree, SLocalFree | SExceedingRetries, SExceedingRetries => true
      | SArith a, SArith b => a =? b
      | _, _ => false
      end
  | (Panic _, _), _ => false
  | _, _ => true
  end.
Example usolo_site_agrees_tests :
  forallb (fun t => usolo_site_agrees (fst (fst t)) (snd (fst t)) (snd t) 2000) tests = true.
Proof. vm_compute. reflexivity. Qed.

(* the packed words *)
Example enc_dec_tree : forallb (fun t => tree_eqb (dec_tree (enc_tree t)) t)
  [ {| t_free := 0; t_res := false; t_class := 0 |}; {| t_free := 2048; t_res := false; t_class := 1 |};
    {| t_free := 0; t_res := true; t_class := 7 |}; {| t_free := 262144; t_res := true; t_class := 3 |} ] = true.
Proof. vm_compute. reflexivity. Qed.
Example enc_dec_slot : forallb (fun s => slot_eqb (dec_slot (enc_slot s)) s)
  [ slot_none; {| s_pres := true; s_row := 0; s_free := 0 |}; {| s_pres := true; s_row := 96; s_free := 2047 |};
    {| s_pres := true; s_row := 17592186044415; s_free := 262144 |} ] = true.
Proof. vm_compute. reflexivity. Qed.
Example enc_words :
  (enc_tree {| t_free := 2048; t_res := true; t_class := 1 |} =? 805308416) &&      (* 0x30000800 *)
  (enc_slot {| s_pres := true; s_row := 32; s_free := 2047 |} =? 9259383241687695392) = true.   (* 0x807ff00000000020 *)
Proof. vm_compute. reflexivity. Qed.

(* two threads interleaved step by step: gets on one slot, then frees; the ghost stays disjoint and the run ends
   with both threads idle *)
Definition alt (n : nat) (c0 c1 : ucall) : list (nat * ucall) :=
  flat_map (fun _ => [(0%nat, c0); (1%nat, c1)]) (seq 0 n).
Definition inter1 := urun g0 simple (alt 200 (get 0 0 (Some 0)) (get 0 0 (Some 0))) (uboot US [] 2).
Example inter1_ok :
  uheld_ok inter1 && Nat.eqb (length (upanicked inter1)) 0 && negb (Nat.eqb (length (m2_held inter1)) 0) = true.
Proof. vm_compute. reflexivity. Qed.
Definition inter2 := urun g0 simple (alt 400 (get 11 1 (Some 0)) (get 0 0 (Some 0))) (uboot US [] 2).
Example inter2_ok : uheld_ok inter2 && Nat.eqb (length (upanicked inter2)) 0 = true.
Proof. vm_compute. reflexivity. Qed.
