(* C01 (and the crash-point property) on machine M2 (UpperMachine.v) for EVERY interleaving of get / get_at / put / drain
   and change_tree calls -- INCLUDING change_tree(.., Online), which the accounting invariant `UInv` (UpperConcInv.v) must
   exclude (UpperOnlineRace.v: an Online racing a put double-counts the tree counter).

   Idea: the upper layer is a client of the lower allocator.  Whatever the tree counters / slot counters say, it only
   calls Lower::get / get_at with a start row / a frame in range and only frees blocks its caller holds (`client_take`
   at the start of a put).  So M1's invariant `Inv` for the embedded M1 state is preserved regardless of the accounting.
   The weak invariant keeps:  Inv (M1 view)  /\  shape of the shared upper state (number of trees, rows of present slots
   in range)  /\  per-thread shape `twf` (UpperConcWf.v, accounting free)  /\  `uall_ok` (UpperProgress.v).
   What is given up: the upper layer may PANIC (failed asserts on counters, "Unreserve failed", ...): a panicked thread
   just stops.  A get that panics in upper code after the lower allocator has handed it a frame (e.g. "Unreserve failed"
   of the reservation it swapped out) LEAKS that frame: it stays allocated for ever and belongs to nobody.  The M1 view
   therefore carries a ghost list L of leaked blocks: `m1w s L` = `m1_of s` with L appended to the held list.

   Part 1 is the thread-local part (UpperConcLocal.v, Section Local / Start) replayed with the accounting facts removed
   from `vfacts` (an unreserve may fail; the free counter of a slot is unbounded; change_at closures unconstrained) and
   with `call_wf_w` (change_tree: any operation).  Part 2 is the step / run. *)
From Coq Require Import PeanoNat Permutation Setoid Morphisms.
From LLF Require Import Base Row Bitfield Lower Spec Sorted Upper UpperInvDef UpperPrims UpperGetLoops LowerMachine
  ConcBase ConcInvDef UpperMachine UpperConcInvDef UpperConcWf UpperConcLocal.

(* ================= Part 1: the thread-local part, accounting free ================= *)
(* calls: as `call_wf` but change_tree with ANY operation (Online included) *)
Definition call_wf_w (g : geom) (u : upper) (c : ucall) : Prop :=
  match c with
  | UChange _ _ => True
  | _ => call_wf g u c
  end.

Section LocalW.
  Variable g : geom.
  Variable policy : N -> N -> N -> pol.
  Hypothesis WF : wf_geom g.
  Variable u : upper.
  Variable c : ucall.
  Hypothesis SH : ntrees u = ntab g (frames (low u)).
  Hypothesis CW : call_wf_w g u c.
  Notation TF := (TF g).

  (* ----- weights: the return chains of `settle` are short ----- *)
  Definition fw (f : kframe) : nat := match f with KGet1 _ _ => 4 | KGet2 _ _ => 2 | _ => 1 end.
  Definition sw (k : list kframe) : nat := fold_right (fun f a => fw f + a)%nat O k.
  Definition wt (a : act) : nat := match a with ARet _ k => S (sw k) | _ => O end.

  Lemma lvl_le f : (lvl f <= 5)%nat.
  Proof. destruct f; cbn; lia. Qed.
  Lemma sorted_len k : forall lo, (lo <= 5)%nat -> sorted_from lo k -> (lo + length k <= 5)%nat.
  Proof.
    induction k as [|f k IH]; intros lo L; cbn [sorted_from length]; [lia|]. intros [L1 S].
    specialize (IH _ (lvl_le f) S). lia.
  Qed.
  Lemma sw_le k : (sw k <= 4 * length k)%nat.
  Proof. induction k as [|f k IH]; cbn [sw fold_right length]; [lia|]. fold (sw k). destruct f; cbn [fw]; lia. Qed.
  Lemma sorted_weak k lo lo' : (lo' <= lo)%nat -> sorted_from lo k -> sorted_from lo' k.
  Proof. destruct k; cbn [sorted_from]; [tauto|]. intros L [A B]. split; [lia|exact B]. Qed.

  (* ----- passive stacks ----- *)
  Lemma pas_weak k lo lo' : (lo' <= lo)%nat -> pas_stack u c lo k -> pas_stack u c lo' k.
  Proof. intros L [A B]. split; [exact A|eapply sorted_weak; eassumption]. Qed.
  Lemma pas_cons f k lo : pas_wf u c f -> (lo < lvl f)%nat -> pas_stack u c (lvl f) k -> pas_stack u c lo (f :: k).
  Proof. intros P L [A B]. split; [constructor; assumption|]. cbn [sorted_from]. split; assumption. Qed.
  Lemma pas_nil lo : pas_stack u c lo [].
  Proof. split; [constructor|exact I]. Qed.
  Lemma pas_frame_gh f : pas_wf u c f -> frame_gh g f = gh_nil.
  Proof. destruct f; cbn [pas_wf frame_gh]; try reflexivity; try tauto. Qed.
  Lemma pas_frames_gh k : Forall (pas_wf u c) k -> frames_gh g k = gh_nil.
  Proof.
    induction 1 as [|f k P _ IH]; [reflexivity|]. cbn [frames_gh fold_right]. fold (frames_gh g k).
    rewrite IH, (pas_frame_gh _ P). reflexivity.
  Qed.
  Lemma pk_gh_top p f k lo : pas_stack u c lo k ->
    pk_gh g p (f :: k) = gh_add (prim_gh g p (Some f)) (frame_gh g f).
  Proof.
    intros [A _]. unfold pk_gh. cbn [hd_error frames_gh fold_right]. fold (frames_gh g k).
    rewrite (pas_frames_gh _ A), gh_add_nil_r. reflexivity.
  Qed.
  Lemma ret_ty_tail b f k : ret_ty b (f :: k) -> ret_ty false k.
  Proof.
    intros [_ F]. destruct k as [|h r]; [reflexivity|]. inversion F; subst. split; assumption.
  Qed.

  Lemma ret_ty_all k : ret_ty false k <-> Forall (fun x => wants_vg x = false) k.
  Proof.
    destruct k as [|h r]; cbn [ret_ty]; split; intros H; auto.
    - destruct H; constructor; assumption.
    - inversion H; subst. split; assumption.
  Qed.
  Lemma ret_ty_cons f k : wants_vg f = false -> ret_ty false k -> ret_ty false (f :: k).
  Proof. intros W H. apply ret_ty_all. constructor; [exact W|]. apply ret_ty_all. exact H. Qed.

  (* ----- acts ----- *)
  Definition enter_ok (p : prim) : Prop :=
    forall th, p = PLow th ->
      exists cl, th = TRun cl (entry_pc g cl) /\ cwf g (frames (low u)) cl = true /\ is_put cl = false.
  Definition glr_res (x : glr) : res (N * N) :=
    match x with GOk f cl => Ok (f, cl) | GErr e _ => Err e | GPanic z => Panic z end.
  Definition act_ok (G : ugh) (a : act) : Prop :=
    match a with
    | ADo p k => twf g policy u c p k /\ gh_eq (pk_gh g p k) G /\ enter_ok p
    | ARet (VR r) k => pas_stack u c 0 k /\ ret_ty false k /\ (forall z, r <> Panic z) /\ gh_eq (ret_gh c r) G
    | ARet (VG x) k => pas_stack u c 0 k /\ ret_ty true k /\ (forall z, x <> GPanic z) /\ gh_eq (ret_gh c (glr_res x)) G
    | _ => False
    end.
  Definition good (G : ugh) (x : settled) : Prop :=
    match x with
    | SRun p k => twf g policy u c p k /\ gh_eq (pk_gh g p k) G /\ enter_ok p
    | SDone r => (forall z, r <> Panic z) /\ gh_eq (ret_gh c r) G
    | SCrash _ => False
    end.
  Definition aok (G : ugh) (B : nat) (a : act) : Prop := act_ok G a /\ (wt a <= B)%nat.
  (* ... or the upper layer panics (a failed assert / expect on the accounting) *)
  Definition aokw (G : ugh) (B : nat) (a : act) : Prop := (exists z, a = APanic z) \/ aok G B a.
  Definition goodw (G : ugh) (x : settled) : Prop := match x with SCrash _ => True | _ => good G x end.

  Lemma aok_weak G B B' a : (B <= B')%nat -> aok G B a -> aok G B' a.
  Proof. intros L [A W]. split; [exact A|lia]. Qed.
  Lemma aok_eq G G' B a : gh_eq G G' -> aok G B a -> aok G' B a.
  Proof.
    intros E [A W]. split; [|exact W]. destruct a as [p k|v k|z]; cbn [act_ok] in *; try tauto.
    - destruct A as (A1 & A2 & A3). split; [exact A1|]. split; [eapply gh_eq_trans; eassumption|exact A3].
    - destruct v; try tauto; destruct A as (A1 & A2 & A3 & A4); (split; [exact A1|]; split; [exact A2|]; split; [exact A3|]);
        eapply gh_eq_trans; eassumption.
  Qed.

  Lemma ret_gh_err e : ret_gh c (Err e) = gh_nil.
  Proof. destruct c; reflexivity. Qed.

  Lemma not_lprim_enter p : (forall th, p <> PLow th) -> enter_ok p.
  Proof. intros H th E. destruct (H th E). Qed.

  Lemma aok_do G B p k : twf g policy u c p k -> gh_eq (pk_gh g p k) G -> enter_ok p -> aok G B (ADo p k).
  Proof. intros T E N. split; [split; [exact T|split; [exact E|exact N]]|cbn; lia]. Qed.
  Lemma aok_err e k : pas_stack u c 0 k -> ret_ty false k -> aok gh_nil (S (sw k)) (ARet (VR (Err e)) k).
  Proof.
    intros P T. split; [|cbn; lia]. cbn [act_ok]. split; [exact P|]. split; [exact T|]. split; [discriminate|].
    rewrite ret_gh_err. apply gh_eq_refl.
  Qed.
  Lemma aok_gerr e t k : pas_stack u c 0 k -> ret_ty true k -> aok gh_nil (S (sw k)) (ARet (VG (GErr e t)) k).
  Proof.
    intros P T. split; [|cbn; lia]. cbn [act_ok]. split; [exact P|]. split; [exact T|]. split; [discriminate|].
    cbn [glr_res]. rewrite ret_gh_err. apply gh_eq_refl.
  Qed.

  Lemma tree_ok_lt i : i < ntrees u -> UpperMachine.tree_ok u i = true.
  Proof. intros H. unfold UpperMachine.tree_ok. apply N.ltb_lt. exact H. Qed.

  Lemma enter_tu_ok G B i f k :
    i < ntrees u -> twf g policy u c (PTL i f) k -> gh_eq (pk_gh g (PTL i f) k) G -> aok G B (enter_tu u i f k).
  Proof.
    intros L T E. unfold enter_tu. rewrite (tree_ok_lt _ L). apply aok_do; [exact T|exact E|].
    apply not_lprim_enter. discriminate.
  Qed.

  (* the ghost of a freshly started tree / slot primitive with a closure that holds nothing *)
  Lemma gh_top_nil p f k lo : pas_stack u c lo k -> prim_gh g p (Some f) = gh_nil -> frame_gh g f = gh_nil ->
    gh_eq (pk_gh g p (f :: k)) gh_nil.
  Proof. intros P A B. rewrite (pk_gh_top p f k lo P), A, B. apply gh_eq_refl. Qed.

  Lemma ntrees_pos fr r : c = UGet fr r -> ntrees u <> 0.
  Proof.
    intros ->. rewrite SH. assert (Hf : pow2 (r_order r) <= frames (low u)).
    { destruct fr; cbn [call_wf_w call_wf] in CW; [destruct CW as [(_ & H & _) _]|destruct CW as (_ & H & _)]; exact H. }
    pose proof (pow2_pos (r_order r)). intros E.
    assert (Q : 0 < ntab g (frames (low u))) by (apply (ntab_lt g); lia). lia.
  Qed.

  Lemma enter_access_ok B a i k :
    acc_wf u c a -> acc_get a -> i < ntrees u -> pas_stack u c 2 k -> ret_ty false k ->
    aok gh_nil B (enter_access u a i k).
  Proof.
    intros A AG L P T. destruct a as [o cl local|cl o|? ? ?]; cbn [acc_wf acc_get enter_access] in *; [| |destruct AG].
    - apply enter_tu_ok; [exact L| |].
      + cbn [twf]. split; [|split; [exact P|exact T]]. cbn [top_wf]. split; [exact A|]. split; [left; reflexivity|exact L].
      + eapply gh_top_nil; [exact P|reflexivity|reflexivity].
    - destruct A as (r & Ec & -> & ->). apply enter_tu_ok; [exact L| |].
      + cbn [twf]. split; [|split; [exact P|exact T]]. cbn [top_wf]. exists r. split; [exact Ec|]. split; [reflexivity|].
        split; [left; reflexivity|]. split; [exact L|]. intros f E. discriminate.
      + eapply gh_top_nil; [exact P|reflexivity|reflexivity].
  Qed.

  Lemma sb_try_ok sb cands k :
    sb_wf u c sb -> cands_ok u cands -> pas_stack u c 3 k -> ret_ty false k ->
    aok gh_nil (S (sw k)) (UpperMachine.sb_try u sb cands k).
  Proof.
    intros S C P T. destruct cands as [|[x i] r]; cbn [UpperMachine.sb_try].
    - apply aok_err; [eapply pas_weak; [|exact P]; lia|exact T].
    - inversion C as [|? ? Hi Hr]; subst. cbn [snd] in Hi.
      apply enter_access_ok.
      + apply S.
      + apply S.
      + exact Hi.
      + apply pas_cons; [cbn [pas_wf]; split; assumption|cbn; lia|exact P].
      + apply ret_ty_cons; [reflexivity|exact T].
  Qed.

  Lemma cands_rev l : cands_ok u l -> cands_ok u (sb_iter_rev l).
  Proof. unfold cands_ok, sb_iter_rev. intros H. apply Forall_rev. exact H. Qed.

  Lemma sb_next_ok sb k :
    sb_wf u c sb -> pas_stack u c 3 k -> ret_ty false k ->
    aok gh_nil (S (sw k)) (sb_next u sb k).
  Proof.
    intros S P T. unfold sb_next. destruct (sb_n sb).
    - apply sb_try_ok; [exact S|apply cands_rev; apply S|exact P|exact T].
    - destruct S as (A & C & N).
      pose proof (walk_idx_lt (sb_start sb) (ntrees u) (sb_i sb) N) as L. rewrite (tree_ok_lt _ L).
      apply aok_do; [| |apply not_lprim_enter; discriminate].
      + cbn [twf]. split; [|split; [exact P|exact T]]. cbn [top_wf]. split; [eexists; split; [reflexivity|exact L]|].
        split; [exact A|split; [exact C|exact N]].
      + eapply gh_top_nil; [exact P|reflexivity|reflexivity].
  Qed.

  Lemma enter_sb_ok a rt cap start offset len k :
    acc_wf u c a -> acc_get a -> ntrees u <> 0 -> pas_stack u c 3 k -> ret_ty false k ->
    aok gh_nil (S (sw k)) (enter_sb u a rt cap start offset len k).
  Proof.
    intros A AG N P T. unfold enter_sb. apply N.eqb_neq in N. rewrite N, andb_false_r.
    apply sb_next_ok; [|exact P|exact T]. split; [split; [exact A|exact AG]|]. split; [constructor|apply N.eqb_neq; exact N].
  Qed.

  Lemma enter_sar_ok o cl local start k :
    ros_ok u c o cl -> pas_stack u c 4 k -> ret_ty false k ->
    aok gh_nil (S (S (sw k))) (enter_search_and_reserve g u o cl local start k).
  Proof.
    intros R P T. assert (N : ntrees u <> 0) by (destruct R as (r & E & _); eapply ntrees_pos; exact E).
    unfold enter_search_and_reserve. destruct (Nat.ltb o (hord g)).
    - eapply aok_weak; [|apply enter_sb_ok]; [cbn [sw fold_right fw]; fold (sw k); lia|exact R|exact I|exact N| |].
      + apply pas_cons; [exact R|cbn; lia|exact P].
      + apply ret_ty_cons; [reflexivity|exact T].
    - eapply aok_weak; [|apply enter_sb_ok]; [lia|exact R|exact I|exact N|eapply pas_weak; [|exact P]; lia|exact T].
  Qed.

  (* ----- steal_local / demote_local ----- *)
  Lemma steal_scan_slots cl free n : forall i j i' j',
    steal_scan policy u cl free i j n = Some (i', j') ->
    exists l, class_slots u ((i' + cl) mod 8) = Some l /\ j' < N.of_nat (length l).
  Proof.
    induction n as [|n IH]; intros i j i' j'; cbn [steal_scan]; [discriminate|].
    destruct (8 <=? i); [discriminate|].
    destruct (class_slots u ((i + cl) mod 8)) as [l|] eqn:El; [|apply IH].
    destruct (policy cl ((i + cl) mod 8) free); try apply IH;
      (destruct (j <? N.of_nat (length l)) eqn:Ej; [|apply IH]; intros H; inversion H; subst;
       exists l; split; [exact El|apply N.ltb_lt; exact Ej]).
  Qed.
  Lemma demote_scan_slots cl free n : forall i j i' j',
    demote_scan policy u cl free i j n = Some (i', j') ->
    policy cl ((i' + cl) mod 8) free = PDemote /\
    exists l, class_slots u ((i' + cl) mod 8) = Some l /\ j' < N.of_nat (length l).
  Proof.
    induction n as [|n IH]; intros i j i' j'; cbn [demote_scan]; [discriminate|].
    destruct (8 <=? i); [discriminate|].
    destruct (class_slots u ((i + cl) mod 8)) as [l|] eqn:El; [|apply IH].
    destruct (policy cl ((i + cl) mod 8) free) eqn:Ep; try apply IH.
    destruct (j <? N.of_nat (length l)) eqn:Ej; [|apply IH]. intros H; inversion H; subst.
    split; [exact Ep|]. exists l; split; [exact El|apply N.ltb_lt; exact Ej].
  Qed.

  Lemma slot_ok_mod tc l index j :
    class_slots u tc = Some l -> j < N.of_nat (length l) ->
    slot_ok u tc ((index + j) mod match class_locals u tc with Some n => n | None => 1 end) = true.
  Proof.
    intros E L. unfold slot_ok, class_locals. rewrite E. cbn [option_map]. apply N.ltb_lt. apply N.mod_lt. lia.
  Qed.

  Lemma sl_next_ok r fr i j k :
    c = UGet fr r -> pas_stack u c 2 k -> ret_ty false k ->
    aok gh_nil (S (sw k)) (sl_next g policy u r fr i j k).
  Proof.
    intros Ec P T. unfold sl_next.
    destruct (steal_scan policy u (r_class r) (pow2 (r_order r)) i j 9) as [[i' j']|] eqn:E.
    - destruct (steal_scan_slots _ _ _ _ _ _ _ E) as (l & El & Lj).
      apply aok_do; [| |apply not_lprim_enter; discriminate].
      + cbn [twf]. split; [|split; [exact P|exact T]]. cbn [top_wf]. split; [exact Ec|].
        eexists. split; [left; reflexivity|]. apply slot_ok_mod with (l := l); assumption.
      + eapply gh_top_nil; [exact P|reflexivity|reflexivity].
    - apply aok_err; [eapply pas_weak; [|exact P]; lia|exact T].
  Qed.

  Lemma dl_next_ok r fr i j k :
    c = UGet fr r -> pas_stack u c 2 k -> ret_ty false k ->
    aok gh_nil (S (sw k)) (dl_next g policy u r fr i j k).
  Proof.
    intros Ec P T. unfold dl_next.
    destruct (demote_scan policy u (r_class r) (pow2 (r_order r)) i j 9) as [[i' j']|] eqn:E.
    - destruct (demote_scan_slots _ _ _ _ _ _ _ E) as (Ep & l & El & Lj).
      apply aok_do; [| |apply not_lprim_enter; discriminate].
      + cbn [twf]. split; [|split; [exact P|exact T]]. cbn [top_wf]. split; [exact Ec|].
        eexists. split; [left; reflexivity|]. split; [apply slot_ok_mod with (l := l); assumption|exact Ep].
      + eapply gh_top_nil; [exact P|reflexivity|reflexivity].
    - apply aok_err; [eapply pas_weak; [|exact P]; lia|exact T].
  Qed.

  Lemma enter_demote_local_ok r fr k :
    c = UGet fr r -> pas_stack u c 2 k -> ret_ty false k ->
    aok gh_nil (S (sw k)) (enter_demote_local g policy u r fr k).
  Proof.
    intros Ec P T. unfold enter_demote_local. destruct (class_slots u (r_class r)).
    - apply dl_next_ok; assumption.
    - apply aok_err; [eapply pas_weak; [|exact P]; lia|exact T].
  Qed.

  (* ----- facts about the call ----- *)
  Lemma get_req fr r : c = UGet fr r -> req_ok g u r.
  Proof. intros ->. destruct fr; cbn [call_wf_w call_wf] in CW; [exact (proj1 CW)|exact CW]. Qed.
  Lemma get_frame f r : c = UGet (Some f) r -> frame_ok u f (r_order r).
  Proof. intros ->. exact (proj2 CW). Qed.
  Lemma frame_tree_lt f o : frame_ok u f o -> f / TF < ntrees u.
  Proof.
    intros [_ H]. rewrite SH. apply (div_lt_ntab g). pose proof (pow2_pos o). lia.
  Qed.

  Lemma after_local_ok B f r k :
    c = UGet (Some f) r -> pas_stack u c 5 k -> ret_ty false k ->
    aok gh_nil B (after_local g u f r k).
  Proof.
    intros Ec P T. unfold after_local, enter_steal_global.
    pose proof (frame_tree_lt _ _ (get_frame _ _ Ec)) as L.
    assert (P2 : pas_stack u c 2 (KGet2 r (Some f) :: k)) by (apply pas_cons; [exact Ec|cbn; lia|exact P]).
    apply enter_tu_ok; [exact L| |].
    - cbn [twf]. split; [|split; [exact P2|apply ret_ty_cons; [reflexivity|exact T]]].
      cbn [top_wf]. exists r. split; [exact Ec|]. split; [reflexivity|]. split; [left; reflexivity|].
      split; [exact L|]. intros f' E. inversion E; reflexivity.
    - eapply gh_top_nil; [exact P2|reflexivity|reflexivity].
  Qed.

  Lemma slot_ok_local r fr local : c = UGet fr r \/ (exists f, c = UPut f r) -> r_local r = Some local ->
    slot_ok u (r_class r) local = true /\ exists len, class_locals u (r_class r) = Some len /\ local < len.
  Proof.
    intros Ec El. assert (R : req_ok g u r).
    { destruct Ec as [Ec|(f & Ec)]; [eapply get_req; exact Ec|]. rewrite Ec in CW. exact (proj1 CW). }
    destruct R as (_ & _ & len & E & Hl). specialize (Hl _ El). split; [|exists len; split; assumption].
    unfold slot_ok. rewrite E. apply N.ltb_lt. exact Hl.
  Qed.

  Lemma slot_ok_inv cl local : slot_ok u cl local = true -> exists len, class_locals u cl = Some len /\ local < len.
  Proof.
    unfold slot_ok. destruct (class_locals u cl) as [len|]; [|discriminate]. intros H. exists len. split; [reflexivity|apply N.ltb_lt; exact H].
  Qed.

  Lemma enter_get_local_ok B fr r local sync k :
    c = UGet fr r -> slot_ok u (r_class r) local = true -> pas_stack u c 2 k -> ret_ty true k ->
    aok gh_nil B (enter_get_local g u (r_order r) (r_class r) local fr sync k).
  Proof.
    intros Ec S P T. destruct (slot_ok_inv _ _ S) as (len & E & L).
    unfold enter_get_local. rewrite E. apply N.ltb_lt in L. rewrite L.
    apply aok_do; [| |apply not_lprim_enter; discriminate].
    - cbn [twf]. split; [|split; [exact P|exact T]]. cbn [top_wf]. exists r. split; [exact Ec|].
      split; [reflexivity|]. split; [reflexivity|]. split; [left; reflexivity|exact S].
    - eapply gh_top_nil; [exact P|reflexivity|reflexivity].
  Qed.

  (* ----- change_tree: Trees::search over all trees / change_at ----- *)
  Lemma enter_access_change B a i k :
    acc_wf u c a -> (exists mc mf ch, a = AcChange mc mf ch) -> i < ntrees u -> pas_stack u c 2 k -> ret_ty false k ->
    aok gh_nil B (enter_access u a i k).
  Proof.
    intros A (mc & mf & ch & ->) L P T. cbn [acc_wf enter_access] in *. destruct A as (m & Ec & -> & ->).
    rewrite (tree_ok_lt _ L). apply aok_do; [| |apply not_lprim_enter; discriminate].
    - cbn [twf]. split; [|split; [exact P|exact T]]. cbn [top_wf]. exists i, m, ch. split; [exact Ec|].
      split; [left; reflexivity|exact L].
    - eapply gh_top_nil; [exact P|reflexivity|reflexivity].
  Qed.

  Lemma se_next_ok a i n k :
    acc_wf u c a -> (exists mc mf ch, a = AcChange mc mf ch) -> ntrees u <> 0 -> pas_stack u c 3 k -> ret_ty false k ->
    aok gh_nil (S (sw k)) (se_next u a i n k).
  Proof.
    intros A C N P T. destruct n as [|n]; cbn [se_next].
    - apply aok_err; [eapply pas_weak; [|exact P]; lia|exact T].
    - apply enter_access_change; [exact A|exact C|apply walk_idx_lt; exact N| |apply ret_ty_cons; [reflexivity|exact T]].
      apply pas_cons; [cbn [pas_wf]; split; [exact A|split; [exact C|exact N]]|cbn; lia|exact P].
  Qed.

  (* ----- the passive frames: a value is returned to them ----- *)
  Lemma ret_r_ok G r k :
    pas_stack u c 0 k -> ret_ty false k -> (forall z, r <> Panic z) -> gh_eq (ret_gh c r) G ->
    aok G (S (sw k)) (ret_r r k).
  Proof.
    intros P T N E. destruct r as [x|e|z]; cbn [ret_r]; [| |destruct (N z eq_refl)];
      (split; [cbn [act_ok]; split; [exact P|]; split; [exact T|]; split; [exact N|exact E]|cbn; lia]).
  Qed.

  Lemma sorted_tail f k : sorted_from 0 (f :: k) -> sorted_from (lvl f) k.
  Proof. intros [_ H]. exact H. Qed.

  Lemma resume_pas G v f k :
    act_ok G (ARet v (f :: k)) ->
    aok G (sw (f :: k)) (resume g policy u v f k).
  Proof.
    intros A. destruct v as [? ? ?|? ? ?|?|r|x]; cbn [act_ok] in A; try (destruct A; fail).
    - (* VR *)
      destruct A as ((PF & PS) & T & NP & E). inversion PF as [|? ? Pf Pk]; subst.
      pose proof (sorted_tail _ _ PS) as Sk. pose proof (ret_ty_tail _ _ _ T) as Tk.
      assert (P0 : pas_stack u c 0 k) by (split; [exact Pk|eapply sorted_weak; [|exact Sk]; lia]).
      destruct T as [Wf _].
      assert (RR : aok G (sw (f :: k)) (ret_r r k)).
      { eapply aok_weak; [|apply ret_r_ok; assumption]. cbn [sw fold_right]. fold (sw k). destruct f; cbn [fw]; lia. }
      destruct f; cbn [pas_wf] in Pf; try (destruct Pf; fail); cbn [wants_vg] in Wf; try discriminate;
        cbn [resume]; cbn [lvl] in Sk.
      + (* KGet2 *)
        destruct r as [x|e|z]; [exact RR| |exact RR]. destruct e; try exact RR.
        assert (EG : gh_eq gh_nil G) by (rewrite ret_gh_err in E; exact E).
        apply (aok_eq gh_nil); [exact EG|]. unfold enter_steal_local.
        eapply aok_weak; [|apply sl_next_ok; [exact Pf| |]].
        * cbn [sw fold_right fw]. fold (sw k). lia.
        * apply pas_cons; [exact Pf|cbn; lia|split; [exact Pk|exact Sk]].
        * apply ret_ty_cons; [reflexivity|exact Tk].
      + (* KOom1 *)
        destruct r as [x|e|z]; [exact RR| |exact RR]. destruct e; try exact RR.
        assert (EG : gh_eq gh_nil G) by (rewrite ret_gh_err in E; exact E).
        apply (aok_eq gh_nil); [exact EG|].
        eapply aok_weak; [|apply enter_demote_local_ok; [exact Pf| |exact Tk]].
        * cbn [sw fold_right fw]. fold (sw k). lia.
        * split; [exact Pk|eapply sorted_weak; [|exact Sk]; lia].
      + (* KSR1 *)
        destruct r as [x|e|z]; [exact RR| |exact RR]. destruct e; try exact RR.
        assert (EG : gh_eq gh_nil G) by (rewrite ret_gh_err in E; exact E).
        apply (aok_eq gh_nil); [exact EG|].
        eapply aok_weak; [|apply enter_sb_ok; [exact Pf|exact I| | |exact Tk]].
        * cbn [sw fold_right fw]. fold (sw k). lia.
        * destruct Pf as (r0 & Ec & _). eapply ntrees_pos; exact Ec.
        * split; [exact Pk|eapply sorted_weak; [|exact Sk]; lia].
      + (* KSBA *)
        destruct r as [x|e|z]; [exact RR| |exact RR]. destruct e; try exact RR.
        assert (EG : gh_eq gh_nil G) by (rewrite ret_gh_err in E; exact E).
        apply (aok_eq gh_nil); [exact EG|].
        eapply aok_weak; [|apply sb_next_ok; [exact Pf| |exact Tk]].
        * cbn [sw fold_right fw]. fold (sw k). lia.
        * split; [exact Pk|exact Sk].
      + (* KSBT *)
        destruct r as [x|e|z]; [exact RR| |exact RR]. destruct e; try exact RR.
        assert (EG : gh_eq gh_nil G) by (rewrite ret_gh_err in E; exact E).
        apply (aok_eq gh_nil); [exact EG|]. destruct Pf as [Ps Pc].
        eapply aok_weak; [|apply sb_try_ok; [exact Ps|exact Pc| |exact Tk]].
        * cbn [sw fold_right fw]. fold (sw k). lia.
        * split; [exact Pk|exact Sk].
      + (* KSe *)
        destruct r as [x|e|z]; [exact RR| |exact RR]. destruct e; try exact RR.
        assert (EG : gh_eq gh_nil G) by (rewrite ret_gh_err in E; exact E).
        apply (aok_eq gh_nil); [exact EG|]. destruct Pf as (Pa & Pc & Pn).
        eapply aok_weak; [|apply se_next_ok; [exact Pa|exact Pc|exact Pn| |exact Tk]].
        * cbn [sw fold_right fw]. fold (sw k). lia.
        * split; [exact Pk|exact Sk].
    - (* VG *)
      destruct A as ((PF & PS) & T & NP & E). inversion PF as [|? ? Pf Pk]; subst.
      pose proof (sorted_tail _ _ PS) as Sk. pose proof (ret_ty_tail _ _ _ T) as Tk.
      assert (P0 : pas_stack u c 0 k) by (split; [exact Pk|eapply sorted_weak; [|exact Sk]; lia]).
      destruct T as [Wf _].
      destruct f; cbn [pas_wf] in Pf; try (destruct Pf; fail); cbn [wants_vg] in Wf; try discriminate;
        cbn [resume]; cbn [lvl] in Sk.
      + (* KGet1 *)
        destruct Pf as (Ec & local & len & El & Ecl & Ll).
        destruct x as [fr cl|e t|z]; [| |destruct (NP z eq_refl)].
        * split; [|cbn [wt sw fold_right fw]; fold (sw k); lia]. cbn [act_ok]. split; [exact P0|]. split; [exact Tk|].
          split; [discriminate|exact E].
        * assert (EG : gh_eq gh_nil G) by (cbn [glr_res] in E; rewrite ret_gh_err in E; exact E).
          apply (aok_eq gh_nil); [exact EG|].
          destruct e; try (eapply aok_weak; [|apply aok_err; assumption]; cbn [sw fold_right fw]; fold (sw k); lia).
          rewrite El.
          eapply aok_weak; [|apply enter_sar_ok].
          -- cbn [sw fold_right fw]. fold (sw k). lia.
          -- exists r. split; [exact Ec|]. split; [reflexivity|]. split; [reflexivity|]. exists len. split; assumption.
          -- apply pas_cons; [exact Ec|cbn; lia|split; [exact Pk|exact Sk]].
          -- apply ret_ty_cons; [reflexivity|exact Tk].
      + (* KAt1 *)
        destruct x as [fr cl|e t|z]; [| |destruct (NP z eq_refl)].
        * split; [|cbn [wt sw fold_right fw]; fold (sw k); lia]. cbn [act_ok]. split; [exact P0|]. split; [exact Tk|].
          split; [discriminate|exact E].
        * assert (EG : gh_eq gh_nil G) by (cbn [glr_res] in E; rewrite ret_gh_err in E; exact E).
          apply (aok_eq gh_nil); [exact EG|].
          destruct e; try (eapply aok_weak; [|apply aok_err; assumption]; cbn [sw fold_right fw]; fold (sw k); lia).
          apply after_local_ok; [exact Pf|split; [exact Pk|exact Sk]|exact Tk].
  Qed.

  (* ----- settle ----- *)
  Lemma settle_good fuel : forall a G, act_ok G a -> (wt a < fuel)%nat -> good G (settle g policy fuel u a).
  Proof.
    induction fuel as [|fuel IH]; intros a G A W; [lia|].
    destruct a as [p k|v k|z]; cbn [act_ok] in A; [exact A| |destruct A].
    destruct k as [|f k].
    - cbn [settle]. destruct v as [? ? ?|? ? ?|?|r|x]; try (destruct A; fail).
      + destruct A as (_ & _ & NP & E). destruct r as [x|e|z]; [split; assumption|split; assumption|destruct (NP z eq_refl)].
      + destruct A as (_ & T & _). discriminate T.
    - cbn [settle]. destruct (resume_pas G v f k A) as [A' W']. apply IH; [exact A'|]. cbn [wt] in W. lia.
  Qed.

  Lemma act_wt_bound G a : act_ok G a -> (wt a <= 21)%nat.
  Proof.
    destruct a as [p k|v k|z]; cbn [wt]; [lia| |lia]. intros A.
    assert (S : sorted_from 0 k).
    { cbn [act_ok] in A. destruct v; try (destruct A; fail); destruct A as ((_ & S) & _); exact S. }
    pose proof (sorted_len k 0 ltac:(lia) S). pose proof (sw_le k). lia.
  Qed.

  Lemma settle_ok a G : act_ok G a -> good G (settle g policy SETTLE u a).
  Proof. intros A. apply settle_good; [exact A|]. pose proof (act_wt_bound _ _ A). unfold SETTLE. lia. Qed.

  (* ================= the top frame: a primitive delivers its value ================= *)
  Definition slot_in (s : slot) : Prop :=
    s_pres s = true -> rt g s < ntrees u /\ s_row s * 64 < frames (low u).
  (* what the access guarantees about the delivered value: NO accounting fact (an unreserve may fail, the free
     counter of a slot is unconstrained); a change_at closure (the only one evaluated with `fetch_free`) is unconstrained *)
  Definition vfacts (p : prim) (v : val) : Prop :=
    match p with
    | PLd _ => exists t, v = VT true t t
    | PTL _ f0 | PTC _ f0 _ _ | PTF _ f0 _ _ _ =>
        exists ok old new, v = VT ok old new /\
          ((forall a b ch, f0 <> FChange a b ch) ->
           if ok then tf_apply g policy (dflt u) f0 old 0 = Some (Ok new)
           else tf_apply g policy (dflt u) f0 old 0 = None)
    | PSL _ _ f0 | PSC _ _ f0 _ _ =>
        exists ok old new, v = VS ok old new /\ slot_in old /\
          (if ok then sf_apply g f0 old = Some (Ok new) else sf_apply g f0 old = None)
    | PSW _ _ nw => exists old, v = VS true old nw /\ slot_in old
    | PLow th =>
        exists cl pc, th = TRun cl pc /\
          match v with
          | VL (Ok fr) => is_put cl = false -> fr / TF = c_frame cl / TF /\ fr < frames (low u)
          | VL (Err e) => e = EMemory
          | _ => False
          end
    end.

  Lemma lhold_entry cl : is_put cl = false -> lhold g (TRun cl (entry_pc g cl)) = c_n cl.
  Proof.
    destruct cl; cbn [is_put]; try discriminate; intros _; cbn [entry_pc lhold]; destruct (Nat.leb _ _); cbn [lhold];
      rewrite ?N.mul_0_l, ?N.sub_0_r; reflexivity.
  Qed.
  Lemma low_call_n row o fr : c_n (low_get_call row o fr) = pow2 o.
  Proof. destruct fr; reflexivity. Qed.
  Lemma low_call_put row o fr : is_put (low_get_call row o fr) = false.
  Proof. destruct fr; reflexivity. Qed.
  Lemma cwf_low_get row fr r : c = UGet fr r -> row_ok g u fr row ->
    cwf g (frames (low u)) (low_get_call row (r_order r) fr) = true.
  Proof.
    intros Ec [R _]. destruct (get_req _ _ Ec) as (O & _). unfold cwf.
    replace (c_order (low_get_call row (r_order r) fr)) with (r_order r) by (destruct fr; reflexivity).
    apply Nat.leb_le in O. rewrite O. cbn [andb]. destruct fr as [f|]; cbn [low_get_call].
    - destruct (get_frame _ _ Ec) as [A B]. apply N.eqb_eq in A. apply N.leb_le in B. rewrite A, B. reflexivity.
    - apply N.ltb_lt. rewrite <- SH. exact R.
  Qed.

  Lemma enter_low_get G B F k cl :
    is_put cl = false -> cwf g (frames (low u)) cl = true ->
    top_wf g policy u c (PLow (TRun cl (entry_pc g cl))) F -> pas_stack u c (lvl F) k -> ret_ty (gives_vg F) k ->
    gh_eq (gh_add (low_gh g (c_n cl) (Some F)) (frame_gh g F)) G ->
    aok G B (enter_low g cl (F :: k)).
  Proof.
    intros Pu Cw T P R E. unfold enter_low. apply aok_do.
    - cbn [twf]. split; [exact T|split; [exact P|exact R]].
    - rewrite (pk_gh_top _ _ _ _ P). cbn [prim_gh]. rewrite (lhold_entry _ Pu). exact E.
    - intros th Eth. inversion Eth; subst. exists cl. split; [reflexivity|split; assumption].
  Qed.

  Lemma slot_get_facts s tree n s' : slot_get g s tree n = Some s' ->
    s_pres s = true /\ (forall t, tree = Some t -> rt g s = t) /\ n <= s_free s /\
    s' = {| s_pres := true; s_row := s_row s; s_free := s_free s - n |}.
  Proof.
    unfold slot_get. destruct (s_pres s); cbn [andb]; [|discriminate].
    destruct (match tree with Some i => row_tree g (s_row s) =? i | None => true end) eqn:Et; [|discriminate].
    destruct (n <=? s_free s) eqn:En; [|discriminate]. intros H; inversion H; subst.
    split; [reflexivity|]. split; [|split; [apply N.leb_le; exact En|reflexivity]].
    intros t ->. apply N.eqb_eq. exact Et.
  Qed.

  Lemma fr_tree_otree fr s : (forall t, otree g fr = Some t -> rt g s = t) -> fr_tree g fr (rt g s).
  Proof. intros H f ->. symmetry. apply H. reflexivity. Qed.

  Ltac ghs :=
    unfold gh_eq, gh_add, gh_cr, gh_ih, gh_bl, gh_nil; cbn [g_cr g_ih g_bl app];
    split; [intros ?i; unfold crsum; cbn [sumf fold_right fst snd]; try lia
           |split; [try apply Permutation_refl|try reflexivity]].

  (* --- get_local --- *)
  Lemma K_GL1 p o cl local fr sy k v :
    twf g policy u c p (KGL1 o cl local fr sy :: k) -> vfacts p v ->
    aok (gh_add (post_gh g p v (KGL1 o cl local fr sy)) gh_nil) 21 (resume g policy u v (KGL1 o cl local fr sy) k).
  Proof.
    intros (T & P & R) V. cbn [top_wf] in T. destruct T as (r & Ec & -> & -> & Sp & So). cbn [lvl gives_vg] in P, R.
    assert (V' : exists ok old new, v = VS ok old new /\ slot_in old /\
              (if ok then sf_apply g (SGet (otree g fr) (pow2 (r_order r))) old = Some (Ok new)
               else sf_apply g (SGet (otree g fr) (pow2 (r_order r))) old = None) /\
              post_gh g p v (KGL1 (r_order r) (r_class r) local fr sy)
              = if ok then gh_cr (rt g old) (pow2 (r_order r)) else gh_nil).
    { destruct Sp as [->|(cur & new & -> & _)]; cbn [vfacts] in V; destruct V as (ok & old & new' & -> & Si & Ha);
        exists ok, old, new'; (split; [reflexivity|]; split; [exact Si|]; split; [exact Ha|]); destruct ok; reflexivity. }
    clear V Sp. destruct V' as (ok & old & new & -> & Si & Ha & ->). cbn [resume]. rewrite gh_add_nil_r.
    assert (P0 : pas_stack u c 0 k) by (eapply pas_weak; [|exact P]; lia).
    destruct ok.
    - (* the slot had enough: call the lower allocator *)
      cbn [sf_apply] in Ha. destruct (slot_get g old (otree g fr) (pow2 (r_order r))) as [s'|] eqn:Eg; [|discriminate].
      destruct (slot_get_facts _ _ _ _ Eg) as (Pr & Tr & Le & _). destruct (Si Pr) as (L1 & L2).
      assert (RO : row_ok g u fr (s_row old)) by (split; [exact L1|apply fr_tree_otree; exact Tr]).
      apply enter_low_get; [apply low_call_put|apply cwf_low_get; assumption| |exact P|exact R|].
      + cbn [top_wf]. exists fr, r. split; [exact Ec|]. split; [reflexivity|]. split; [reflexivity|]. split; [exact So|].
        split; [eexists; reflexivity|exact RO].
      + rewrite low_call_n. cbn [low_gh frame_gh]. rewrite gh_add_nil_r. apply gh_eq_refl.
    - cbn [sf_apply] in Ha.
      destruct (s_pres old) eqn:Pr; [|eapply aok_weak; [|apply aok_gerr; assumption]; pose proof (sw_le k); pose proof (sorted_len k 0 ltac:(lia) (proj2 P0)); lia].
      destruct (sy && _) eqn:Es; [|eapply aok_weak; [|apply aok_gerr; assumption]; pose proof (sw_le k); pose proof (sorted_len k 0 ltac:(lia) (proj2 P0)); lia].
      (* sync with the tree counter *)
      destruct (Si Pr) as (L1 & L2).
      assert (Hlt : pow2 (r_order r) <? s_free old = false).
      { apply N.ltb_ge. destruct (slot_get g old (otree g fr) (pow2 (r_order r))) eqn:Eg; [discriminate|].
        unfold slot_get in Eg. rewrite Pr in Eg. cbn [andb] in Eg.
        apply andb_true_iff in Es. destruct Es as [_ Es].
        assert (Et : match otree g fr with Some i => row_tree g (s_row old) =? i | None => true end = true).
        { destruct fr as [f|]; cbn [otree option_map]; [|reflexivity]. rewrite N.eqb_sym. exact Es. }
        rewrite Et in Eg. destruct (pow2 (r_order r) <=? s_free old) eqn:El; [discriminate|]. apply N.leb_gt in El. lia. }
      rewrite Hlt. apply enter_tu_ok; [exact L1| |].
      + cbn [twf]. split; [|split; [exact P|exact R]]. cbn [top_wf]. exists r, (pow2 (r_order r) - s_free old).
        split; [exact Ec|]. split; [reflexivity|]. split; [reflexivity|]. split; [left; reflexivity|]. split; [exact L1|exact So].
      + eapply gh_top_nil; [exact P|reflexivity|reflexivity].
  Qed.

  Lemma sw_bound k lo : pas_stack u c lo k -> (S (sw k) <= 21)%nat.
  Proof.
    intros [_ S]. assert (S0 : sorted_from 0 k) by (eapply sorted_weak; [|exact S]; lia).
    pose proof (sw_le k). pose proof (sorted_len k 0 ltac:(lia) S0). lia.
  Qed.

  Lemma aok_gret G frm cl fr r k lo :
    c = UGet fr r -> pas_stack u c lo k -> ret_ty true k -> gh_eq (gh_bl frm) G ->
    aok G 21 (ARet (VG (GOk frm cl)) k).
  Proof.
    intros Ec P T E. split; [|cbn [wt]; eapply sw_bound; exact P]. cbn [act_ok glr_res].
    split; [eapply pas_weak; [|exact P]; lia|]. split; [exact T|]. split; [discriminate|].
    rewrite Ec. exact E.
  Qed.
  Lemma aok_rret G frm cl fr r k lo :
    c = UGet fr r -> pas_stack u c lo k -> ret_ty false k -> gh_eq (gh_bl frm) G ->
    aok G 21 (ARet (VR (Ok (frm, cl))) k).
  Proof.
    intros Ec P T E. split; [|cbn [wt]; eapply sw_bound; exact P]. cbn [act_ok].
    split; [eapply pas_weak; [|exact P]; lia|]. split; [exact T|]. split; [discriminate|].
    rewrite Ec. exact E.
  Qed.
  Lemma aok_gerr' e t k lo : pas_stack u c lo k -> ret_ty true k -> aok gh_nil 21 (ARet (VG (GErr e t)) k).
  Proof.
    intros P T. eapply aok_weak; [eapply sw_bound; exact P|]. apply aok_gerr; [eapply pas_weak; [|exact P]; lia|exact T].
  Qed.
  Lemma aok_err' e k lo : pas_stack u c lo k -> ret_ty false k -> aok gh_nil 21 (ARet (VR (Err e)) k).
  Proof.
    intros P T. eapply aok_weak; [eapply sw_bound; exact P|]. apply aok_err; [eapply pas_weak; [|exact P]; lia|exact T].
  Qed.

  (* the value delivered by a tree / slot / lower primitive *)
  Lemma tprim_v p i f0 v : tprim g policy u p i f0 -> vfacts p v ->
    exists ok old new, v = VT ok old new /\
      ((forall a b ch, f0 <> FChange a b ch) ->
       if ok then tf_apply g policy (dflt u) f0 old 0 = Some (Ok new) else tf_apply g policy (dflt u) f0 old 0 = None) /\
      post_gh g p v = post_gh g (PTL i f0) v.
  Proof.
    intros [->|(cur & new & -> & _)] V; cbn [vfacts] in V; destruct V as (ok & old & new' & -> & A);
      exists ok, old, new'; repeat split; assumption.
  Qed.
  Lemma sprim_v p cl idx f0 v : sprim g p cl idx f0 -> vfacts p v ->
    exists ok old new, v = VS ok old new /\ slot_in old /\
      (if ok then sf_apply g f0 old = Some (Ok new) else sf_apply g f0 old = None) /\
      post_gh g p v = post_gh g (PSL cl idx f0) v.
  Proof.
    intros [->|(cur & new & -> & _)] V; cbn [vfacts] in V; destruct V as (ok & old & new' & -> & A & B);
      exists ok, old, new'; (split; [reflexivity|]; split; [exact A|]; split; [exact B|]); destruct ok; reflexivity.
  Qed.
  Lemma lprim_v p cl v : lprim p cl -> vfacts p v ->
    exists pc, p = PLow (TRun cl pc) /\
      ((exists frm, v = VL (Ok frm) /\ (is_put cl = false -> frm / TF = c_frame cl / TF /\ frm < frames (low u))) \/
       v = VL (Err EMemory)).
  Proof.
    intros (pc & ->) V. cbn [vfacts] in V. destruct V as (cl' & pc' & E & V). inversion E; subst cl' pc'.
    exists pc. split; [reflexivity|]. destruct v as [? ? ?|? ? ?|x|?|?]; try (destruct V; fail).
    destruct x as [frm|e|z]; [left; exists frm; split; [reflexivity|exact V]|right; subst; reflexivity|destruct V].
  Qed.

  Lemma tput_gh t n F k lo : pas_stack u c lo k -> frame_gh g F = gh_nil ->
    gh_eq (pk_gh g (PTL t (FPut n)) (F :: k)) (gh_cr t n).
  Proof. intros P E. rewrite (pk_gh_top _ _ _ _ P), E. cbn [prim_gh tf_gh]. rewrite gh_add_nil_r. apply gh_eq_refl. Qed.

  Lemma fput_some d t n : tf_apply g policy d (FPut n) t 0 <> None.
  Proof. cbn [tf_apply]. discriminate. Qed.

  Lemma K_GL2 p o cl local row k v :
    twf g policy u c p (KGL2 o cl local row :: k) -> vfacts p v ->
    aok (gh_add (post_gh g p v (KGL2 o cl local row)) gh_nil) 21 (resume g policy u v (KGL2 o cl local row) k).
  Proof.
    intros (T & P & R) V. cbn [top_wf] in T. destruct T as (fr & r & Ec & -> & -> & So & Lp & RO). cbn [lvl gives_vg] in P, R.
    destruct (lprim_v _ _ _ Lp V) as (pc & -> & [(frm & -> & Hf)| ->]); cbn [resume post_gh]; rewrite gh_add_nil_r.
    - destruct (Hf (low_call_put _ _ _)) as (Ht & Hl).
      destruct (row =? frm / 64); [eapply aok_gret; [exact Ec|exact P|exact R|apply gh_eq_refl]|].
      destruct (slot_ok_inv _ _ So) as (len & E & L). rewrite E. apply N.ltb_lt in L. rewrite L.
      apply aok_do; [| |apply not_lprim_enter; discriminate].
      + cbn [twf]. split; [|split; [exact P|exact R]]. cbn [top_wf]. exists fr, r, local, (frm / 64).
        split; [exact Ec|]. split; [reflexivity|]. split; [left; reflexivity|]. split; [exact So|].
        pose proof (N.mul_div_le frm 64 ltac:(lia)). lia.
      + rewrite (pk_gh_top _ _ _ _ P). cbn [prim_gh sf_gh frame_gh]. rewrite gh_add_nil_l. apply gh_eq_refl.
    - unfold enter_tput. apply enter_tu_ok; [apply RO| |].
      + cbn [twf]. split; [|split; [exact P|exact R]]. cbn [top_wf]. eexists. split; [left; reflexivity|apply RO].
      + eapply gh_eq_trans; [eapply tput_gh; [exact P|reflexivity]|]. rewrite low_call_n. cbn [low_gh]. apply gh_eq_refl.
  Qed.

  Lemma K_GL3 p frm cl k v :
    twf g policy u c p (KGL3 frm cl :: k) -> vfacts p v ->
    aok (gh_add (post_gh g p v (KGL3 frm cl)) (gh_bl frm)) 21 (resume g policy u v (KGL3 frm cl) k).
  Proof.
    intros (T & P & R) V. cbn [top_wf] in T. destruct T as (fr & r & local & row' & Ec & -> & Sp & So & Hr). cbn [lvl gives_vg] in P, R.
    destruct (sprim_v _ _ _ _ _ Sp V) as (ok & old & new & -> & Si & Ha & ->). cbn [resume].
    eapply aok_gret; [exact Ec|exact P|exact R|]. destruct ok; cbn [post_gh sf_gh]; rewrite gh_add_nil_l; apply gh_eq_refl.
  Qed.

  Lemma K_GL4 p e t k v :
    twf g policy u c p (KGL4 e t :: k) -> vfacts p v ->
    aok (gh_add (post_gh g p v (KGL4 e t)) gh_nil) 21 (resume g policy u v (KGL4 e t) k).
  Proof.
    intros (T & P & R) V. cbn [top_wf] in T. destruct T as (n & Tp & L). cbn [lvl gives_vg] in P, R.
    destruct (tprim_v _ _ _ _ Tp V) as (ok & old & new & -> & Ha & ->); try (specialize (Ha ltac:(intros; discriminate))). cbn [resume].
    destruct ok; [|destruct (fput_some _ _ _ Ha)]. cbn [post_gh]. rewrite gh_add_nil_r. eapply aok_gerr'; eassumption.
  Qed.

  Lemma K_GL5 p o cl local fr t k v :
    twf g policy u c p (KGL5 o cl local fr t :: k) -> vfacts p v ->
    aok (gh_add (post_gh g p v (KGL5 o cl local fr t)) gh_nil) 21 (resume g policy u v (KGL5 o cl local fr t) k).
  Proof.
    intros (T & P & R) V. cbn [top_wf] in T. destruct T as (r & mn & Ec & -> & -> & Tp & L & So). cbn [lvl gives_vg] in P, R.
    destruct (tprim_v _ _ _ _ Tp V) as (ok & old & new & -> & Ha & ->); try (specialize (Ha ltac:(intros; discriminate))). cbn [resume post_gh]. rewrite gh_add_nil_r.
    destruct ok; [|cbn [tf_gh]; eapply aok_gerr'; eassumption].
    destruct (slot_ok_inv _ _ So) as (len & E & Ll). rewrite E. apply N.ltb_lt in Ll. rewrite Ll.
    apply aok_do; [| |apply not_lprim_enter; discriminate].
    - cbn [twf]. split; [|split; [exact P|exact R]]. cbn [top_wf]. exists r. split; [exact Ec|]. split; [reflexivity|].
      split; [reflexivity|]. split; [left; reflexivity|]. split; [exact L|exact So].
    - rewrite (pk_gh_top _ _ _ _ P). cbn [prim_gh sf_gh frame_gh]. rewrite gh_add_nil_r. apply gh_eq_refl.
  Qed.

  Lemma K_GL6 p o cl local fr t am k v :
    twf g policy u c p (KGL6 o cl local fr t am :: k) -> vfacts p v ->
    aok (gh_add (post_gh g p v (KGL6 o cl local fr t am)) gh_nil) 21 (resume g policy u v (KGL6 o cl local fr t am) k).
  Proof.
    intros (T & P & R) V. cbn [top_wf] in T. destruct T as (r & Ec & -> & -> & Sp & L & So). cbn [lvl gives_vg] in P, R.
    destruct (sprim_v _ _ _ _ _ Sp V) as (ok & old & new & -> & Si & Ha & ->). cbn [resume post_gh]. rewrite gh_add_nil_r.
    destruct ok.
    - apply enter_get_local_ok; assumption.
    - unfold enter_tput. apply enter_tu_ok; [exact L| |].
      + cbn [twf]. split; [|split; [exact P|exact R]]. cbn [top_wf]. eexists. split; [left; reflexivity|exact L].
      + eapply tput_gh; [exact P|reflexivity].
  Qed.

  (* --- search_best --- *)
  Lemma cands_add cap best key idx : cands_ok u best -> idx < ntrees u -> cands_ok u (sb_add N.leb cap best (key, idx)).
  Proof.
    intros C L. apply Forall_forall. intros y Hy. apply sb_add_In in Hy. destruct Hy as [->|Hy]; [exact L|].
    exact (proj1 (Forall_forall _ _) C y Hy).
  Qed.

  Lemma K_SBL p sb k v :
    twf g policy u c p (KSBL sb :: k) -> vfacts p v ->
    aok (gh_add (post_gh g p v (KSBL sb)) gh_nil) 21 (resume g policy u v (KSBL sb) k).
  Proof.
    intros (T & P & R) V. cbn [top_wf] in T. destruct T as ((i & -> & Li) & S). cbn [lvl gives_vg] in P, R.
    cbn [vfacts] in V. destruct V as (t & ->). cbn [resume post_gh]. rewrite gh_add_nil_r.
    assert (NX : forall sb', sb_wf u c sb' -> aok gh_nil 21 (sb_next u sb' k)).
    { intros sb' S'. eapply aok_weak; [eapply sw_bound; exact P|]. apply sb_next_ok; assumption. }
    destruct S as (A & C & N).
    pose proof (walk_idx_lt (sb_start sb) (ntrees u) (sb_i sb - 1) N) as Lw.
    assert (S : sb_wf u c sb) by (split; [exact A|split; [exact C|exact N]]).
    assert (AD : forall key, aok gh_nil 21
              (sb_next u {| sb_acc := sb_acc sb; sb_rate := sb_rate sb; sb_cap := sb_cap sb; sb_start := sb_start sb;
                            sb_i := sb_i sb; sb_n := sb_n sb;
                            sb_best := sb_add N.leb (sb_cap sb) (sb_best sb)
                                         (key, walk_idx (sb_start sb) (ntrees u) (sb_i sb - 1)) |} k)).
    { intros key. apply NX. split; [exact A|]. split; [apply cands_add; assumption|exact N]. }
    destruct (t_res t); [apply NX; exact S|].
    destruct (rate_apply g policy (sb_rate sb) (t_class t) (t_free t)) as [n| | |]; try (apply AD); [|apply NX; exact S].
    destruct n as [|q]; [apply AD|].
    do 8 (destruct q as [q|q|]; try apply AD).
    apply enter_access_ok; [exact (proj1 A)|exact (proj2 A)|exact Lw| |apply ret_ty_cons; [reflexivity|exact R]].
    apply pas_cons; [exact S|cbn; lia|exact P].
  Qed.

  (* --- reserve_or_steal --- *)
  Lemma ros_facts d t n cl new : tf_apply g policy d (FRos n cl) t 0 = Some (Ok new) ->
    n <= t_free t /\ (t_res new = true -> t_class new = cl).
  Proof.
    cbn [tf_apply]. unfold tree_reserve_or_steal.
    destruct ((n <=? t_free t) && negb (t_res t)) eqn:Ec; [|discriminate].
    apply andb_true_iff in Ec. destruct Ec as [Ln Nr]. apply N.leb_le in Ln. apply negb_true_iff in Nr.
    destruct (policy cl (t_class t) n); cbn [option_map]; intros H; inversion H; subst; cbn [t_res t_class];
      (split; [exact Ln|]); try reflexivity; intros Q; congruence.
  Qed.

  Lemma cwf_cget i o : (o <= tord g)%nat -> i < ntrees u -> cwf g (frames (low u)) (CGet (tree_row g i) o) = true.
  Proof.
    intros O L. unfold cwf. cbn [c_order]. apply Nat.leb_le in O. rewrite O. cbn [andb]. apply N.ltb_lt.
    change (tree_row g i * 64 / TF) with (row_tree g (tree_row g i)). rewrite (row_tree_tree_row g WF). rewrite <- SH. exact L.
  Qed.

  Lemma K_RS1 p i o cl local k v :
    twf g policy u c p (KRS1 i o cl local :: k) -> vfacts p v ->
    aok (gh_add (post_gh g p v (KRS1 i o cl local)) gh_nil) 21 (resume g policy u v (KRS1 i o cl local) k).
  Proof.
    intros (T & P & R) V. cbn [top_wf] in T. destruct T as (RO & Tp & Li). cbn [lvl gives_vg] in P, R.
    destruct (tprim_v _ _ _ _ Tp V) as (ok & old & new & -> & Ha & ->); try (specialize (Ha ltac:(intros; discriminate))). cbn [resume post_gh]. rewrite gh_add_nil_r.
    destruct ok; [|cbn [tf_gh]; eapply aok_err'; eassumption].
    destruct RO as (r & Ec & -> & -> & len & El & Ll). destruct (ros_facts _ _ _ _ _ Ha) as (Ln & Hc).
    destruct (get_req _ _ Ec) as (O & _).
    apply enter_low_get; [reflexivity|apply cwf_cget; assumption| |exact P|exact R|].
    - cbn [top_wf]. exists r. split; [exact Ec|]. split; [reflexivity|]. split; [eexists; reflexivity|]. split; [exact Li|].
      intros Hr. split; [apply Hc; exact Hr|]. split; [exact Ln|]. exists len. rewrite (Hc Hr). split; assumption.
    - cbn [c_n c_order low_gh frame_gh]. rewrite gh_add_nil_r. apply gh_eq_refl.
  Qed.

  Lemma unres_gh t a cl F k lo : pas_stack u c lo k ->
    pk_gh g (PTL t (FUnres a cl)) (F :: k) = gh_add (gh_ih t cl a) (frame_gh g F).
  Proof. intros P. rewrite (pk_gh_top _ _ _ _ P). reflexivity. Qed.

  Lemma K_RS2 p i o local reserved free tc k v :
    twf g policy u c p (KRS2 i o local reserved free tc :: k) -> vfacts p v ->
    aok (gh_add (post_gh g p v (KRS2 i o local reserved free tc)) gh_nil) 21
        (resume g policy u v (KRS2 i o local reserved free tc) k).
  Proof.
    intros (T & P & R) V. cbn [top_wf] in T. destruct T as (r & Ec & -> & Lp & Li & Hres). cbn [lvl gives_vg] in P, R.
    destruct (lprim_v _ _ _ Lp V) as (pc & -> & [(frm & -> & Hf)| ->]); cbn [resume post_gh]; rewrite gh_add_nil_r.
    - destruct (Hf eq_refl) as (Ht & Hl). cbn [c_frame] in Ht.
      change (tree_row g i * 64 / TF) with (row_tree g (tree_row g i)) in Ht. rewrite (row_tree_tree_row g WF) in Ht.
      destruct reserved; [|eapply aok_rret; [exact Ec|exact P|exact R|apply gh_eq_refl]].
      destruct (Hres eq_refl) as (-> & Ln & len & El & Ll). rewrite El. apply N.ltb_lt in Ll. rewrite Ll.
      apply aok_do; [| |apply not_lprim_enter; discriminate].
      + cbn [twf]. split; [|split; [exact P|exact R]]. cbn [top_wf]. eexists r, _, _. split; [exact Ec|]. split; [reflexivity|].
        split; [|split; [reflexivity|]].
        * unfold slot_ok. rewrite El. apply N.ltb_lt. apply N.mod_lt. apply N.ltb_lt in Ll. lia.
        * cbn [s_row]. rewrite (tree_row_64 g WF). pose proof (N.mul_div_le frm TF ltac:(pose proof (TF_pos g); lia)). lia.
      + rewrite (pk_gh_top _ _ _ _ P). cbn [prim_gh frame_gh]. unfold slot_gh. cbn [s_pres s_row s_free].
        rewrite (row_tree_tree_row g WF), Ht. apply gh_eq_refl.
    - destruct reserved.
      + apply enter_tu_ok; [exact Li| |].
        * cbn [twf]. split; [|split; [exact P|exact R]]. cbn [top_wf]. split; [eexists _, _, _; split; [left; reflexivity|exact Li]|].
          split; discriminate.
        * rewrite (unres_gh _ _ _ _ _ _ P). cbn [frame_gh]. rewrite gh_add_nil_r. apply gh_eq_refl.
      + unfold enter_tput. apply enter_tu_ok; [exact Li| |].
        * cbn [twf]. split; [|split; [exact P|exact R]]. cbn [top_wf]. split; [eexists _, _; split; [left; reflexivity|exact Li]|].
          split; discriminate.
        * eapply gh_eq_trans; [eapply tput_gh; [exact P|reflexivity]|]. cbn [c_n c_order low_gh]. apply gh_eq_refl.
  Qed.


  Lemma K_RS3 p frm tc k v :
    twf g policy u c p (KRS3 frm tc :: k) -> vfacts p v ->
    aok (gh_add (post_gh g p v (KRS3 frm tc)) (gh_bl frm)) 21 (resume g policy u v (KRS3 frm tc) k).
  Proof.
    intros (T & P & R) V. cbn [top_wf] in T. destruct T as (r & idx & new & Ec & -> & So & Pn & Rn). cbn [lvl gives_vg] in P, R.
    cbn [vfacts] in V. destruct V as (old & -> & Si). cbn [resume post_gh]. unfold slot_gh.
    destruct (s_pres old) eqn:Po.
    - destruct (Si Po) as (L1 & L2). apply enter_tu_ok; [exact L1| |].
      + cbn [twf]. split; [|split; [exact P|exact R]]. cbn [top_wf]. split; [eexists _, _, _; split; [left; reflexivity|exact L1]|].
        split; [discriminate|]. intros x _. eexists _, _. exact Ec.
      + rewrite (unres_gh _ _ _ _ _ _ P). cbn [frame_gh]. apply gh_eq_refl.
    - eapply aok_rret; [exact Ec|exact P|exact R|]. rewrite gh_add_nil_l. apply gh_eq_refl.
  Qed.

  Lemma ret_r_ok' G r k lo :
    pas_stack u c lo k -> ret_ty false k -> (forall z, r <> Panic z) -> gh_eq (ret_gh c r) G -> aok G 21 (ret_r r k).
  Proof.
    intros P T N E. eapply aok_weak; [eapply sw_bound; exact P|]. apply ret_r_ok; [eapply pas_weak; [|exact P]; lia|exact T|exact N|exact E].
  Qed.

  Lemma K_Unres p rr k v :
    twf g policy u c p (KUnres rr :: k) -> vfacts p v ->
    aokw (gh_add (post_gh g p v (KUnres rr)) (frame_gh g (KUnres rr))) 21 (resume g policy u v (KUnres rr) k).
  Proof.
    intros (T & P & R) V. cbn [top_wf] in T. destruct T as ((t & a & cl & Tp & L) & NP & HG). cbn [lvl gives_vg] in P, R.
    destruct (tprim_v _ _ _ _ Tp V) as (ok & old & new & -> & Ha & ->). cbn [resume].
    destruct ok; [right|left; eexists; reflexivity]. cbn [post_gh]. rewrite gh_add_nil_l.
    eapply ret_r_ok'; [exact P|exact R|exact NP|].
    destruct rr as [[fr0 c0]|e|z]; cbn [frame_gh].
    - destruct (HG _ eq_refl) as (fr & r & Ec). rewrite Ec. apply gh_eq_refl.
    - rewrite ret_gh_err. apply gh_eq_refl.
    - destruct (NP z eq_refl).
  Qed.

  Lemma K_RetR p rr k v :
    twf g policy u c p (KRetR rr :: k) -> vfacts p v ->
    aok (gh_add (post_gh g p v (KRetR rr)) gh_nil) 21 (resume g policy u v (KRetR rr) k).
  Proof.
    intros (T & P & R) V. cbn [top_wf] in T. destruct T as ((t & n & Tp & L) & NP & HP). cbn [lvl gives_vg] in P, R.
    destruct (tprim_v _ _ _ _ Tp V) as (ok & old & new & -> & Ha & ->); try (specialize (Ha ltac:(intros; discriminate))). cbn [resume].
    destruct ok; [|destruct (fput_some _ _ _ Ha)]. cbn [post_gh]. rewrite gh_add_nil_l.
    eapply ret_r_ok'; [exact P|exact R|exact NP|].
    destruct rr as [x|e|z].
    - destruct (HP _ eq_refl) as (f & r & Ec). rewrite Ec. apply gh_eq_refl.
    - rewrite ret_gh_err. apply gh_eq_refl.
    - destruct (NP z eq_refl).
  Qed.

  (* --- steal_global --- *)
  Lemma row_ok_tree fr i : i < ntrees u -> fr_tree g fr i -> row_ok g u fr (tree_row g i).
  Proof. intros L F. unfold row_ok. rewrite (row_tree_tree_row g WF). split; assumption. Qed.

  Lemma K_SG1 p i o fr k v :
    twf g policy u c p (KSG1 i o fr :: k) -> vfacts p v ->
    aok (gh_add (post_gh g p v (KSG1 i o fr)) gh_nil) 21 (resume g policy u v (KSG1 i o fr) k).
  Proof.
    intros (T & P & R) V. cbn [top_wf] in T. destruct T as (r & Ec & -> & Tp & Li & Ft). cbn [lvl gives_vg] in P, R.
    destruct (tprim_v _ _ _ _ Tp V) as (ok & old & new & -> & Ha & ->); try (specialize (Ha ltac:(intros; discriminate))). cbn [resume post_gh]. rewrite gh_add_nil_r.
    destruct ok; [|cbn [tf_gh]; eapply aok_err'; eassumption].
    apply enter_low_get; [apply low_call_put|apply cwf_low_get; [exact Ec|apply row_ok_tree; assumption]| |exact P|exact R|].
    - cbn [top_wf]. exists fr, r. split; [exact Ec|]. split; [reflexivity|]. split; [eexists; reflexivity|]. split; assumption.
    - rewrite low_call_n. cbn [low_gh frame_gh]. rewrite gh_add_nil_r. apply gh_eq_refl.
  Qed.

  Lemma K_SG2 p i o cl k v :
    twf g policy u c p (KSG2 i o cl :: k) -> vfacts p v ->
    aok (gh_add (post_gh g p v (KSG2 i o cl)) gh_nil) 21 (resume g policy u v (KSG2 i o cl) k).
  Proof.
    intros (T & P & R) V. cbn [top_wf] in T. destruct T as (fr & r & Ec & -> & Lp & Li & Ft). cbn [lvl gives_vg] in P, R.
    destruct (lprim_v _ _ _ Lp V) as (pc & -> & [(frm & -> & Hf)| ->]); cbn [resume post_gh]; rewrite gh_add_nil_r.
    - eapply aok_rret; [exact Ec|exact P|exact R|apply gh_eq_refl].
    - unfold enter_tput. apply enter_tu_ok; [exact Li| |].
      + cbn [twf]. split; [|split; [exact P|exact R]]. cbn [top_wf]. split; [eexists _, _; split; [left; reflexivity|exact Li]|].
        split; discriminate.
      + eapply gh_eq_trans; [eapply tput_gh; [exact P|reflexivity]|]. rewrite low_call_n. cbn [low_gh]. apply gh_eq_refl.
  Qed.

  (* --- steal_local --- *)
  Lemma K_SL1 p r fr i j k v :
    twf g policy u c p (KSL1 r fr i j :: k) -> vfacts p v ->
    aok (gh_add (post_gh g p v (KSL1 r fr i j)) gh_nil) 21 (resume g policy u v (KSL1 r fr i j) k).
  Proof.
    intros (T & P & R) V. cbn [top_wf] in T. destruct T as (Ec & idx & Sp & So). cbn [lvl gives_vg] in P, R.
    destruct (sprim_v _ _ _ _ _ Sp V) as (ok & old & new & -> & Si & Ha & ->). cbn [resume post_gh]. rewrite gh_add_nil_r.
    destruct ok.
    - cbn [sf_apply] in Ha. destruct (slot_get g old (otree g fr) (pow2 (r_order r))) as [s'|] eqn:Eg; [|discriminate].
      destruct (slot_get_facts _ _ _ _ Eg) as (Pr & Tr & Le & _). destruct (Si Pr) as (L1 & L2).
      assert (RO : row_ok g u fr (s_row old)) by (split; [exact L1|apply fr_tree_otree; exact Tr]).
      apply enter_low_get; [apply low_call_put|apply cwf_low_get; assumption| |exact P|exact R|].
      + cbn [top_wf]. exists fr. split; [exact Ec|]. split; [eexists; reflexivity|exact RO].
      + rewrite low_call_n. cbn [low_gh frame_gh]. rewrite gh_add_nil_r. apply gh_eq_refl.
    - cbn [sf_gh]. eapply aok_weak; [eapply sw_bound; exact P|]. apply sl_next_ok; assumption.
  Qed.

  Lemma K_SL2 p r row tc k v :
    twf g policy u c p (KSL2 r row tc :: k) -> vfacts p v ->
    aok (gh_add (post_gh g p v (KSL2 r row tc)) gh_nil) 21 (resume g policy u v (KSL2 r row tc) k).
  Proof.
    intros (T & P & R) V. cbn [top_wf] in T. destruct T as (fr & Ec & Lp & RO). cbn [lvl gives_vg] in P, R.
    destruct (lprim_v _ _ _ Lp V) as (pc & -> & [(frm & -> & Hf)| ->]); cbn [resume post_gh]; rewrite gh_add_nil_r.
    - eapply aok_rret; [exact Ec|exact P|exact R|apply gh_eq_refl].
    - unfold enter_tput. apply enter_tu_ok; [apply RO| |].
      + cbn [twf]. split; [|split; [exact P|exact R]]. cbn [top_wf]. split; [eexists _, _; split; [left; reflexivity|apply RO]|].
        split; discriminate.
      + eapply gh_eq_trans; [eapply tput_gh; [exact P|reflexivity]|]. rewrite low_call_n. cbn [low_gh]. apply gh_eq_refl.
  Qed.

  (* --- demote_local --- *)
  Lemma K_DL1 p r fr i j k v :
    twf g policy u c p (KDL1 r fr i j :: k) -> vfacts p v ->
    aok (gh_add (post_gh g p v (KDL1 r fr i j)) gh_nil) 21 (resume g policy u v (KDL1 r fr i j) k).
  Proof.
    intros (T & P & R) V. cbn [top_wf] in T. destruct T as (Ec & idx & Sp & So & Pd). cbn [lvl gives_vg] in P, R.
    destruct (sprim_v _ _ _ _ _ Sp V) as (ok & old & new & -> & Si & Ha & ->). cbn [resume post_gh]. rewrite gh_add_nil_r.
    destruct ok.
    - cbn [sf_apply] in Ha. destruct (slot_get g old (otree g fr) (pow2 (r_order r))) as [s'|] eqn:Eg; [|discriminate].
      destruct (slot_get_facts _ _ _ _ Eg) as (Pr & Tr & Le & ->). destruct (Si Pr) as (L1 & L2).
      assert (RO : row_ok g u fr (s_row old)) by (split; [exact L1|apply fr_tree_otree; exact Tr]).
      change (option_map (fun f0 : N => f0 / TF) fr) with (otree g fr). rewrite Eg.
      destruct (r_local r) as [lc|] eqn:El.
      + destruct (slot_ok_local r fr lc (or_introl Ec) El) as (Sl & len & E & L). rewrite E. apply N.ltb_lt in L. rewrite L.
        apply aok_do; [| |apply not_lprim_enter; discriminate].
        * cbn [twf]. split; [|split; [exact P|exact R]]. cbn [top_wf]. split; [exact Ec|]. eexists _, _. split; [reflexivity|].
          split; [exact Sl|]. split; [reflexivity|]. split; [reflexivity|]. split; [exact RO|exact L2].
        * rewrite (pk_gh_top _ _ _ _ P). cbn [prim_gh frame_gh]. unfold slot_gh, rt. cbn [s_pres s_row s_free]. apply gh_eq_refl.
      + apply enter_tu_ok; [exact L1| |].
        * cbn [twf]. split; [|split; [exact P|exact R]]. cbn [top_wf]. split; [exact Ec|].
          split; [eexists _, _; split; [left; reflexivity|exact L1]|exact RO].
        * rewrite (unres_gh _ _ _ _ _ _ P). cbn [frame_gh s_row s_free]. unfold rt. apply gh_eq_refl.
    - cbn [sf_gh]. eapply aok_weak; [eapply sw_bound; exact P|]. apply dl_next_ok; assumption.
  Qed.

  Lemma K_DL2 p r fr row k v :
    twf g policy u c p (KDL2 r fr row :: k) -> vfacts p v ->
    aok (gh_add (post_gh g p v (KDL2 r fr row)) (frame_gh g (KDL2 r fr row))) 21 (resume g policy u v (KDL2 r fr row) k).
  Proof.
    intros (T & P & R) V. cbn [top_wf] in T. destruct T as (Ec & lc & new & -> & So & Pn & Er & RO & Rr). cbn [lvl gives_vg] in P, R.
    cbn [vfacts] in V. destruct V as (old & -> & Si). cbn [resume post_gh frame_gh]. unfold slot_gh.
    destruct (s_pres old) eqn:Po.
    - destruct (Si Po) as (L1 & L2). apply enter_tu_ok; [exact L1| |].
      + cbn [twf]. split; [|split; [exact P|exact R]]. cbn [top_wf]. split; [exact Ec|].
        split; [eexists _, _; split; [left; reflexivity|exact L1]|exact RO].
      + rewrite (unres_gh _ _ _ _ _ _ P). cbn [frame_gh]. apply gh_eq_refl.
    - apply enter_low_get; [apply low_call_put|apply cwf_low_get; assumption| |exact P|exact R|].
      + cbn [top_wf]. exists fr. split; [exact Ec|]. split; [eexists; reflexivity|exact RO].
      + rewrite low_call_n. cbn [low_gh frame_gh]. rewrite gh_add_nil_r, gh_add_nil_l. apply gh_eq_refl.
  Qed.

  Lemma K_DL3 p r fr row k v :
    twf g policy u c p (KDL3 r fr row :: k) -> vfacts p v ->
    aokw (gh_add (post_gh g p v (KDL3 r fr row)) (frame_gh g (KDL3 r fr row))) 21 (resume g policy u v (KDL3 r fr row) k).
  Proof.
    intros (T & P & R) V. cbn [top_wf] in T. destruct T as (Ec & (t & a & Tp & L) & RO). cbn [lvl gives_vg] in P, R.
    destruct (tprim_v _ _ _ _ Tp V) as (ok & old & new & -> & Ha & ->). cbn [resume].
    destruct ok; [right|left; eexists; reflexivity]. cbn [post_gh frame_gh]. rewrite gh_add_nil_l.
    apply enter_low_get; [apply low_call_put|apply cwf_low_get; assumption| |exact P|exact R|].
    - cbn [top_wf]. exists fr. split; [exact Ec|]. split; [eexists; reflexivity|exact RO].
    - rewrite low_call_n. cbn [low_gh frame_gh]. rewrite gh_add_nil_r. apply gh_eq_refl.
  Qed.

  Lemma K_DL4 p r row k v :
    twf g policy u c p (KDL4 r row :: k) -> vfacts p v ->
    aok (gh_add (post_gh g p v (KDL4 r row)) gh_nil) 21 (resume g policy u v (KDL4 r row) k).
  Proof.
    intros (T & P & R) V. cbn [top_wf] in T. destruct T as (fr & Ec & Lp & RO). cbn [lvl gives_vg] in P, R.
    destruct (lprim_v _ _ _ Lp V) as (pc & -> & [(frm & -> & Hf)| ->]); cbn [resume post_gh]; rewrite gh_add_nil_r.
    - eapply aok_rret; [exact Ec|exact P|exact R|apply gh_eq_refl].
    - unfold enter_tput. apply enter_tu_ok; [apply RO| |].
      + cbn [twf]. split; [|split; [exact P|exact R]]. cbn [top_wf]. split; [eexists _, _; split; [left; reflexivity|apply RO]|].
        split; discriminate.
      + eapply gh_eq_trans; [eapply tput_gh; [exact P|reflexivity]|]. rewrite low_call_n. cbn [low_gh]. apply gh_eq_refl.
  Qed.

  (* --- put --- *)
  Lemma put_facts f r : c = UPut f r -> req_ok g u r /\ frame_ok u f (r_order r).
  Proof. intros Ec. rewrite Ec in CW. exact CW. Qed.

  Lemma aok_unit k lo : (exists f r, c = UPut f r) \/ c = UDrain \/ (exists m ch, c = UChange m ch) ->
    pas_stack u c lo k -> ret_ty false k ->
    aok gh_nil 21 (ARet (VR (Ok (0, 0))) k).
  Proof.
    intros Ec P T. split; [|cbn [wt]; eapply sw_bound; exact P]. cbn [act_ok].
    split; [eapply pas_weak; [|exact P]; lia|]. split; [exact T|]. split; [discriminate|].
    destruct Ec as [(f & r & ->)|[-> |(m & ch & ->)]]; apply gh_eq_refl.
  Qed.

  Lemma K_Put1 p f r k v :
    twf g policy u c p (KPut1 f r :: k) -> vfacts p v ->
    aok (gh_add (post_gh g p v (KPut1 f r)) gh_nil) 21 (resume g policy u v (KPut1 f r) k).
  Proof.
    intros (T & P & R) V. cbn [top_wf] in T. destruct T as (Ec & Lp). cbn [lvl gives_vg] in P, R.
    destruct (put_facts _ _ Ec) as (Rq & Fo). pose proof (frame_tree_lt _ _ Fo) as Lt.
    assert (P2 : pas_stack u c 2 k) by (eapply pas_weak; [|exact P]; lia).
    assert (TP : aok (gh_cr (f / TF) (pow2 (r_order r))) 21 (enter_tput u (f / TF) (pow2 (r_order r)) (KRetR (Ok (0, 0)) :: k))).
    { unfold enter_tput. apply enter_tu_ok; [exact Lt| |].
      - cbn [twf]. split; [|split; [exact P2|exact R]]. cbn [top_wf]. split; [eexists _, _; split; [left; reflexivity|exact Lt]|].
        split; [discriminate|]. intros x _. eexists _, _. exact Ec.
      - eapply tput_gh; [exact P2|reflexivity]. }
    destruct (lprim_v _ _ _ Lp V) as (pc & -> & [(frm & -> & Hf)| ->]); cbn [resume post_gh]; rewrite gh_add_nil_r.
    - destruct (r_local r) as [local|] eqn:El; [|exact TP].
      destruct (slot_ok_local r None local (or_intror (ex_intro _ f Ec)) El) as (Sl & len & E & L).
      rewrite E. apply N.ltb_lt in L. rewrite L.
      apply aok_do; [| |apply not_lprim_enter; discriminate].
      + cbn [twf]. split; [|split; [exact P|exact R]]. cbn [top_wf]. split; [exact Ec|]. eexists. split; [left; reflexivity|exact Sl].
      + rewrite (pk_gh_top _ _ _ _ P). cbn [prim_gh sf_gh frame_gh]. rewrite gh_add_nil_r. apply gh_eq_refl.
    - eapply aok_err'; eassumption.
  Qed.

  Lemma K_Put2 p f r k v :
    twf g policy u c p (KPut2 f r :: k) -> vfacts p v ->
    aok (gh_add (post_gh g p v (KPut2 f r)) gh_nil) 21 (resume g policy u v (KPut2 f r) k).
  Proof.
    intros (T & P & R) V. cbn [top_wf] in T. destruct T as (Ec & local & Sp & So). cbn [lvl gives_vg] in P, R.
    destruct (put_facts _ _ Ec) as (Rq & Fo). pose proof (frame_tree_lt _ _ Fo) as Lt.
    assert (P2 : pas_stack u c 2 k) by (eapply pas_weak; [|exact P]; lia).
    destruct (sprim_v _ _ _ _ _ Sp V) as (ok & old & new & -> & Si & Ha & ->). cbn [resume post_gh]. rewrite gh_add_nil_r.
    destruct ok.
    - eapply aok_unit; [left; eexists _, _; exact Ec|exact P|exact R].
    - cbn [sf_gh]. unfold enter_tput. apply enter_tu_ok; [exact Lt| |].
      + cbn [twf]. split; [|split; [exact P2|exact R]]. cbn [top_wf]. split; [eexists _, _; split; [left; reflexivity|exact Lt]|].
        split; [discriminate|]. intros x _. eexists _, _. exact Ec.
      + eapply tput_gh; [exact P2|reflexivity].
  Qed.

  (* --- drain --- *)
  Lemma drain_scan_slots n : forall cc j c' j', drain_scan u cc j n = Some (c', j') -> slot_ok u c' j' = true.
  Proof.
    induction n as [|n IH]; intros cc j c' j'; cbn [drain_scan]; [discriminate|].
    destruct (8 <=? cc); [discriminate|]. destruct (class_locals u cc) as [len|] eqn:E; [|apply IH].
    destruct (j <? len) eqn:Ej; [|apply IH]. intros H; inversion H; subst. unfold slot_ok. rewrite E. exact Ej.
  Qed.

  Lemma dr_next_ok cc j k : c = UDrain -> pas_stack u c 5 k -> ret_ty false k -> aok gh_nil 21 (dr_next u cc j k).
  Proof.
    intros Ec P R. unfold dr_next. destruct (drain_scan u cc j 9) as [[c' j']|] eqn:E.
    - apply aok_do; [| |apply not_lprim_enter; discriminate].
      + cbn [twf]. split; [|split; [exact P|exact R]]. cbn [top_wf]. split; [exact Ec|]. split; [reflexivity|].
        eapply drain_scan_slots; exact E.
      + eapply gh_top_nil; [exact P|reflexivity|reflexivity].
    - eapply aok_unit; [right; left; exact Ec|exact P|exact R].
  Qed.

  Lemma K_Dr1 p cc j k v :
    twf g policy u c p (KDr1 cc j :: k) -> vfacts p v ->
    aok (gh_add (post_gh g p v (KDr1 cc j)) gh_nil) 21 (resume g policy u v (KDr1 cc j) k).
  Proof.
    intros (T & P & R) V. cbn [top_wf] in T. destruct T as (Ec & -> & So). cbn [lvl gives_vg] in P, R.
    cbn [vfacts] in V. destruct V as (old & -> & Si). cbn [resume post_gh]. unfold slot_gh. rewrite gh_add_nil_r.
    destruct (s_pres old) eqn:Po.
    - destruct (Si Po) as (L1 & L2). apply enter_tu_ok; [exact L1| |].
      + cbn [twf]. split; [|split; [exact P|exact R]]. cbn [top_wf]. split; [exact Ec|]. eexists _, _; split; [left; reflexivity|exact L1].
      + rewrite (unres_gh _ _ _ _ _ _ P). cbn [frame_gh]. rewrite gh_add_nil_r. apply gh_eq_refl.
    - apply dr_next_ok; assumption.
  Qed.

  Lemma K_Dr2 p cc j k v :
    twf g policy u c p (KDr2 cc j :: k) -> vfacts p v ->
    aokw (gh_add (post_gh g p v (KDr2 cc j)) gh_nil) 21 (resume g policy u v (KDr2 cc j) k).
  Proof.
    intros (T & P & R) V. cbn [top_wf] in T. destruct T as (Ec & t & a & Tp & L). cbn [lvl gives_vg] in P, R.
    destruct (tprim_v _ _ _ _ Tp V) as (ok & old & new & -> & Ha & ->). cbn [resume].
    destruct ok; [right|left; eexists; reflexivity]. cbn [post_gh]. rewrite gh_add_nil_r. apply dr_next_ok; assumption.
  Qed.

  (* --- change_at --- *)
  Lemma K_Ch p k v :
    twf g policy u c p (KCh :: k) -> vfacts p v ->
    aok (gh_add (post_gh g p v KCh) gh_nil) 21 (resume g policy u v KCh k).
  Proof.
    intros (T & P & R) V. cbn [top_wf] in T. destruct T as (i & m & ch & Ec & Tp & L). cbn [lvl gives_vg] in P, R.
    destruct (tprim_v _ _ _ _ Tp V) as (ok & old & new & -> & Ha & ->); try (specialize (Ha ltac:(intros; discriminate))). cbn [resume post_gh]. rewrite gh_add_nil_r.
    destruct ok; cbn [tf_gh].
    - eapply aok_unit; [right; right; eexists _, _; exact Ec|exact P|exact R].
    - eapply aok_err'; eassumption.
  Qed.

  (* ----- all top frames ----- *)
  Lemma K_top p f k v :
    twf g policy u c p (f :: k) -> vfacts p v ->
    aokw (gh_add (post_gh g p v f) (frame_gh g f)) 21 (resume g policy u v f k).
  Proof.
    intros T V. destruct f; try (destruct T as (T & _); destruct T; fail).
    - right; exact (K_GL1 _ _ _ _ _ _ _ _ T V).
    - right; exact (K_GL2 _ _ _ _ _ _ _ T V).
    - right; exact (K_GL3 _ _ _ _ _ T V).
    - right; exact (K_GL4 _ _ _ _ _ T V).
    - right; exact (K_GL5 _ _ _ _ _ _ _ _ T V).
    - right; exact (K_GL6 _ _ _ _ _ _ _ _ _ T V).
    - right; exact (K_SBL _ _ _ _ T V).
    - right; exact (K_RS1 _ _ _ _ _ _ _ T V).
    - right; exact (K_RS2 _ _ _ _ _ _ _ _ _ T V).
    - right; exact (K_RS3 _ _ _ _ _ T V).
    - exact (K_Unres _ _ _ _ T V).
    - right; exact (K_RetR _ _ _ _ T V).
    - right; exact (K_SG1 _ _ _ _ _ _ T V).
    - right; exact (K_SG2 _ _ _ _ _ _ T V).
    - right; exact (K_SL1 _ _ _ _ _ _ _ T V).
    - right; exact (K_SL2 _ _ _ _ _ _ T V).
    - right; exact (K_DL1 _ _ _ _ _ _ _ T V).
    - right; exact (K_DL2 _ _ _ _ _ _ T V).
    - exact (K_DL3 _ _ _ _ _ _ T V).
    - right; exact (K_DL4 _ _ _ _ _ T V).
    - right; exact (K_Put1 _ _ _ _ _ T V).
    - right; exact (K_Put2 _ _ _ _ _ T V).
    - right; exact (K_Dr1 _ _ _ _ _ T V).
    - exact (K_Dr2 _ _ _ _ _ T V).
    - right; exact (K_Ch _ _ _ T V).
  Qed.

  Lemma K_settle p f k v :
    twf g policy u c p (f :: k) -> vfacts p v ->
    goodw (gh_add (post_gh g p v f) (frame_gh g f)) (settle g policy SETTLE u (ARet v (f :: k))).
  Proof.
    intros T V.
    change (settle g policy SETTLE u (ARet v (f :: k))) with (settle g policy 63 u (resume g policy u v f k)).
    destruct (K_top p f k v T V) as [(z & ->)|[A W]]; [exact I|].
    pose proof (settle_good 63 _ _ A ltac:(lia)) as Gd.
    destruct (settle g policy 63 u (resume g policy u v f k)); cbn [goodw]; [exact Gd|exact Gd|exact I].
  Qed.

  (* ----- the start of a get / drain (c is the call) ----- *)
  Lemma enter_global_ok r k : c = UGet None r -> pas_stack u c 5 k -> ret_ty false k -> aok gh_nil 21 (enter_global u r k).
  Proof.
    intros Ec P T. unfold enter_global.
    assert (P5 : pas_stack u c 3 (KGet2 r None :: k)) by (apply pas_cons; [exact Ec|cbn; lia|exact P]).
    eapply aok_weak; [eapply sw_bound; exact P5|]. apply enter_sb_ok; [|exact I|eapply ntrees_pos; exact Ec|exact P5|].
    - exists r. split; [exact Ec|]. split; reflexivity.
    - apply ret_ty_cons; [reflexivity|exact T].
  Qed.
End LocalW.

(* ================= the start of a call ================= *)
Section StartW.
  Variable g : geom.
  Variable policy : N -> N -> N -> pol.
  Hypothesis WF : wf_geom g.
  Variable u : upper.
  Hypothesis SH : ntrees u = ntab g (frames (low u)).
  Notation TF := (TF g).

  (* scope restriction "valid parameters": a slot index below the slot count of the class, or none;
     change_tree: Offline or a pure class change onto a configured class (`change_ok`) *)
  Definition call_valid_w (c : ucall) : Prop :=
    match c with
    | UGet _ r | UPut _ r => forall l len, r_local r = Some l -> class_locals u (r_class r) = Some len -> l < len
    | UDrain => True
    | UChange _ _ => True
    end.

  Lemma check_wf frame r :
    check g u frame r = Ok tt ->
    (forall l len, r_local r = Some l -> class_locals u (r_class r) = Some len -> l < len) ->
    req_ok g u r /\ frame_ok u frame (r_order r).
  Proof.
    unfold check. intros H V.
    destruct (Nat.leb (r_order r) (tord g)) eqn:E1; cbn [negb] in H; [|discriminate].
    destruct ((frame + pow2 (r_order r) <? W64) && (frame + pow2 (r_order r) <=? frames (low u))) eqn:E2; cbn [negb] in H; [|discriminate].
    destruct (frame mod pow2 (r_order r) =? 0) eqn:E3; cbn [negb] in H; [|discriminate].
    destruct (class_locals u (r_class r)) as [len|] eqn:E4; [|discriminate].
    apply Nat.leb_le in E1. apply andb_true_iff in E2. destruct E2 as [_ E2]. apply N.leb_le in E2. apply N.eqb_eq in E3.
    split; [|split; assumption]. split; [exact E1|]. split; [pose proof (pow2_pos (r_order r)); lia|]. exists len. split; [exact E4|].
    intros l El. exact (V l len El eq_refl).
  Qed.

  Definition start_good_w (c : ucall) (x : settled) : Prop :=
    match x with
    | SRun p k =>
        call_wf_w g u c /\ twf g policy u c p k /\ gh_eq (pk_gh g p k) gh_nil /\
        (enter_ok g u p \/
         exists f r, c = UPut f r /\ p = PLow (TRun (CPut f (r_order r)) (entry_pc g (CPut f (r_order r)))) /\
                     cwf g (frames (low u)) (CPut f (r_order r)) = true)
    | SDone r => (forall z, r <> Panic z) /\ ret_gh c r = gh_nil
    | SCrash _ => True
    end.

  Lemma good_start c G x : call_wf_w g u c -> gh_eq G gh_nil -> good g policy u c G x -> start_good_w c x.
  Proof.
    intros CW E. destruct x as [p k|r|z]; cbn [good start_good_w]; [| |tauto].
    - intros (T & Ge & En). split; [exact CW|]. split; [exact T|]. split; [eapply gh_eq_trans; eassumption|left; exact En].
    - intros (NP & Ge). split; [exact NP|].
      pose proof (gh_eq_trans _ _ _ Ge E) as (_ & _ & B). destruct c; try reflexivity.
      destruct r as [[fr cl]|e|z]; try reflexivity. cbn in B. discriminate.
  Qed.

  Lemma start_ok c : call_valid_w c -> start_good_w c (settle g policy SETTLE u (enter_call g u c)).
  Proof.
    intros V. destruct c as [fr r|f r| |m ch]; cbn [call_valid_w enter_call] in *.
    - (* get *)
      unfold enter_get. destruct (check g u (match fr with Some f => f | None => 0 end) r) as [[]|e|z] eqn:Ck.
      2:{ unfold SETTLE. cbn [settle start_good_w]. split; [discriminate|reflexivity]. }
      2:{ exfalso. unfold check in Ck. destruct (negb _); [discriminate|]. destruct (negb _); [discriminate|].
          destruct (negb _); [discriminate|]. destruct (class_locals u (r_class r)); discriminate. }
      destruct (check_wf _ _ Ck V) as (Rq & Fo).
      assert (CW : call_wf_w g u (UGet fr r)) by (destruct fr; cbn [call_wf_w call_wf]; [split; assumption|exact Rq]).
      eapply good_start; [exact CW|apply gh_eq_refl|]. apply settle_ok; [exact SH|exact CW|].
      refine (proj1 (_ : aok g policy u _ gh_nil 21 _)).
      destruct fr as [f|].
      + unfold enter_get_at. destruct (r_local r) as [local|] eqn:El.
        * destruct (slot_ok_local g u _ CW r (Some f) local (or_introl eq_refl) El) as (Sl & _).
          eapply (enter_get_local_ok g policy u _ SH 21); [reflexivity|exact Sl| |].
          -- apply pas_cons; [reflexivity|cbn; lia|apply pas_nil].
          -- split; [reflexivity|constructor].
        * apply (after_local_ok g policy u _ SH CW 21); [reflexivity|apply pas_nil|reflexivity].
      + destruct (r_local r) as [local|] eqn:El.
        * destruct (slot_ok_local g u _ CW r None local (or_introl eq_refl) El) as (Sl & len & E & L).
          rewrite E. destruct ((0 <? len) && (len <? ntrees u)) eqn:Eb.
          -- apply andb_true_iff in Eb. destruct Eb as [Eb _]. apply N.ltb_lt in Eb.
             eapply (enter_get_local_ok g policy u _ SH 21); [reflexivity|exact Sl| |].
             ++ apply pas_cons; [|cbn; lia|apply pas_nil]. cbn [pas_wf]. split; [reflexivity|]. exists local, len.
                split; [exact El|]. split; [exact E|exact Eb].
             ++ split; [reflexivity|constructor].
          -- apply (enter_global_ok g policy u _ SH CW); [reflexivity|apply pas_nil|reflexivity].
        * apply (enter_global_ok g policy u _ SH CW); [reflexivity|apply pas_nil|reflexivity].
    - (* put *)
      unfold enter_put. destruct (check g u f r) as [[]|e|z] eqn:Ck.
      2:{ unfold SETTLE. cbn [settle start_good_w]. split; [discriminate|reflexivity]. }
      2:{ exfalso. unfold check in Ck. destruct (negb _); [discriminate|]. destruct (negb _); [discriminate|].
          destruct (negb _); [discriminate|]. destruct (class_locals u (r_class r)); discriminate. }
      destruct (check_wf _ _ Ck V) as (Rq & Fo).
      assert (CW : call_wf_w g u (UPut f r)) by (split; assumption).
      unfold enter_low, SETTLE. cbn [settle start_good_w]. split; [exact CW|]. split.
      + cbn [twf]. split; [|split; [apply pas_nil|reflexivity]]. cbn [top_wf]. split; [reflexivity|eexists; reflexivity].
      + split.
        * unfold pk_gh. cbn [hd_error prim_gh low_gh frames_gh fold_right frame_gh].
          assert (E0 : lhold g (TRun (CPut f (r_order r)) (entry_pc g (CPut f (r_order r)))) = 0).
          { cbn [entry_pc lhold]. destruct (Nat.leb _ _); cbn [lhold]; [apply N.mul_0_l|reflexivity]. }
          rewrite E0, !gh_add_nil_r. apply gh_cr0.
        * right. exists f, r. split; [reflexivity|]. split; [reflexivity|].
          destruct Rq as (O & _). destruct Fo as [A B]. unfold cwf. cbn [c_order]. apply Nat.leb_le in O. rewrite O.
          apply N.eqb_eq in A. apply N.leb_le in B. rewrite A, B. reflexivity.
    - (* drain *)
      eapply good_start; [exact I|apply gh_eq_refl|]. apply settle_ok; [exact SH|exact I|].
      refine (proj1 (_ : aok g policy u _ gh_nil 21 _)). apply (dr_next_ok g policy u UDrain SH I); [reflexivity|apply pas_nil|reflexivity].
    - (* change_tree *)
      assert (CW : call_wf_w g u (UChange m ch)) by exact I.
      eapply good_start; [exact CW|apply gh_eq_refl|]. apply settle_ok; [exact SH|exact CW|].
      refine (proj1 (_ : aok g policy u _ gh_nil 21 _)).
      assert (A : acc_wf u (UChange m ch) (AcChange (m_class m) (m_free m) ch)) by (exists m; repeat split).
      assert (C : exists mc mf ch0, AcChange (m_class m) (m_free m) ch = AcChange mc mf ch0) by (eexists _, _, _; reflexivity).
      unfold enter_change. destruct (m_id m) as [i|].
      + destruct (UpperMachine.tree_ok u i) eqn:Et.
        * apply (enter_access_change g policy u _ SH 21%nat); [exact A|exact C|apply N.ltb_lt; exact Et|apply pas_nil|reflexivity].
        * cbn [enter_access]. rewrite Et. apply (aok_weak g policy u _ SH gh_nil 1%nat 21%nat); [lia|].
          apply (aok_err g policy u _ SH CW EArgument []); [apply pas_nil|reflexivity].
      + destruct (ntrees u =? 0) eqn:En.
        * apply (aok_weak g policy u _ SH gh_nil 1%nat 21%nat); [lia|].
          apply (aok_err g policy u _ SH CW EMemory []); [apply pas_nil|reflexivity].
        * apply (aok_weak g policy u _ SH gh_nil 1%nat 21%nat); [lia|].
          apply (se_next_ok g policy u _ SH CW _ 0 (length (trees u)) []); [exact A|exact C|apply N.eqb_neq; exact En|apply pas_nil|reflexivity].
  Qed.
End StartW.
(* ================= Part 2: the weak invariant and its preservation ================= *)
From LLF Require Import LowerFacts LowerFactsProofs ConcInvStep ConcInvIdle ConcInv ConcProps UpperConcUIC UpperConcM1 UpperConcInv.
From LLF Require UpperProgress.

Lemma nth_error_upd_cases {A} (l : list A) k x j y : nth_error (upd l k x) j = Some y -> y = x \/ nth_error l j = Some y.
Proof.
  revert k j. induction l as [|a l IH]; intros k j; destruct k, j; cbn [upd nth_error]; intros H; try (right; exact H).
  - left. inversion H. reflexivity.
  - apply (IH k j). exact H.
Qed.

Section Weak.
  Variable g : geom.
  Variable policy : N -> N -> N -> pol.
  Hypothesis WF : wf_geom g.
  Notation TF := (TF g).

  Ltac flat :=
    repeat match goal with
           | H : exists _, _ |- _ => destruct H
           | H : _ /\ _ |- _ => destruct H
           end.
  Ltac prims :=
    repeat match goal with
           | H : tprim _ _ _ _ _ _ |- _ => destruct H as [->|(?cur & ?new & -> & ?)]
           | H : sprim _ _ _ _ _ |- _ => destruct H as [->|(?cur & ?new & -> & ?)]
           | H : lprim _ _ |- _ => destruct H as (?pc & ->)
           end.

  (* ----- the shape of the shared upper state: no accounting ----- *)
  Definition slots_in (u : upper) : Prop :=
    forall c j s, UpperPrims.slot_at u c j = Some s -> slot_in g u s.
  Definition shape (u : upper) : Prop := ntrees u = ntab g (frames (low u)) /\ slots_in u.

  Lemma slot_in_static u u' s : static_eq u u' -> slot_in g u s -> slot_in g u' s.
  Proof. intros (A & _ & B & _) H P. unfold slot_in in *. rewrite A, B. exact (H P). Qed.

  Lemma slots_in_set_slot u cl idx new : slots_in u -> slot_in g u new -> slots_in (set_slot u cl idx new).
  Proof.
    intros S N c j s Hs. apply (slot_in_static u); [apply static_set_slot|].
    unfold UpperPrims.slot_at in Hs. destruct (N.eq_dec c cl) as [->|Ne].
    - destruct (class_slots u cl) as [l|] eqn:E.
      + rewrite (class_slots_set_slot_same u cl idx new l E) in Hs.
        destruct (nth_error_upd_cases _ _ _ _ _ Hs) as [->|Q]; [exact N|].
        apply (S cl j). unfold UpperPrims.slot_at. rewrite E. exact Q.
      + unfold set_slot in Hs. rewrite E, E in Hs. discriminate.
    - rewrite class_slots_set_slot_other in Hs by exact Ne. apply (S c j). exact Hs.
  Qed.
  Lemma shape_set_slot u cl idx new : shape u -> slot_in g u new -> shape (set_slot u cl idx new).
  Proof.
    intros [A B] N. split; [|apply slots_in_set_slot; assumption].
    destruct (static_set_slot u cl idx new) as (E1 & _ & E2 & _). rewrite E1, E2. exact A.
  Qed.
  Lemma shape_set_tree u i t : shape u -> shape (set_tree u i t).
  Proof.
    intros [A B]. destruct (static_set_tree u i t) as (E1 & _ & E2 & _). split; [rewrite E1, E2; exact A|].
    intros c j s Hs. apply (slot_in_static u); [apply static_set_tree|]. apply (B c j). exact Hs.
  Qed.
  Lemma shape_with_low u l : shape u -> frames l = frames (low u) -> shape (with_low u l).
  Proof.
    intros [A B] E. split; [cbn; rewrite E; exact A|].
    intros c j s Hs P. destruct (B c j s Hs P) as [Q1 Q2]. split; [exact Q1|cbn; rewrite E; exact Q2].
  Qed.
  Lemma row_in u row : shape u -> row * 64 < frames (low u) -> row_tree g row < ntrees u.
  Proof. intros [A _] H. rewrite A. unfold row_tree. apply (div_lt_ntab g). exact H. Qed.

  (* ----- what the top frame says about the primitive (no accounting, no restriction on change_tree) ----- *)
  Definition prim_okw (u : upper) (p : prim) : Prop :=
    match p with
    | PTC i f0 cur new => tf_apply g policy (dflt u) f0 cur 0 = Some (Ok new)
    | PSC cl idx f0 cur new => sf_apply g f0 cur = Some (Ok new) /\ (forall row, f0 = SSetStart row -> row * 64 < frames (low u))
    | PSW cl idx new => s_pres new = true -> s_row new * 64 < frames (low u)
    | _ => True
    end.
  Lemma top_wf_primw u c p f : top_wf g policy u c p f -> prim_okw u p.
  Proof.
    intros T. destruct f; cbn [top_wf] in T; try (destruct T; fail); unfold ros_ok, row_ok in *; flat; subst; prims;
      cbn [prim_okw]; try exact I; try assumption;
      try (split; [assumption|intros ? E0; first [discriminate E0|inversion E0; subst; assumption]]);
      try (intros _; assumption); try (intros Q; discriminate Q).
  Qed.

  (* normal form of a primitive: `fetch_free` in progress / a change_at compare-exchange = the closure as entered *)
  Definition pnorm (p : prim) : prim :=
    match p with
    | PTF i f _ _ _ => PTL i f
    | PTC i (FChange a b ch) _ _ => PTL i (FChange a b ch)
    | _ => p
    end.
  Lemma pnorm_low p : (forall th, p <> PLow th) -> forall th, pnorm p <> PLow th.
  Proof. intros N th. destruct p as [| | | i f0 ? ?| | | |]; cbn [pnorm]; try discriminate; [destruct f0; discriminate|apply N]. Qed.

  Lemma twf_PTC_PTL u c i f0 cur new f k :
    twf g policy u c (PTC i f0 cur new) (f :: k) -> twf g policy u c (PTL i f0) (f :: k).
  Proof.
    apply (twf_mono g policy).
    - intros i' f' [H|(? & ? & H & _)]; [discriminate H|]. inversion H; subst. left. reflexivity.
    - intros ? ? ? [H|(? & ? & H & _)]; discriminate H.
    - intros ? (? & H). discriminate H.
    - intros ? ? ? H. discriminate H.
    - intros ? H. discriminate H.
  Qed.
  Lemma twf_PTL_PTC u c i f0 cur new f k :
    tf_apply g policy (dflt u) f0 cur 0 = Some (Ok new) ->
    twf g policy u c (PTL i f0) (f :: k) -> twf g policy u c (PTC i f0 cur new) (f :: k).
  Proof.
    intros Ea. apply (twf_mono g policy).
    - intros i' f' [H|(? & ? & H & _)]; [|discriminate H]. inversion H; subst. right. eexists _, _. split; [reflexivity|exact Ea].
    - intros ? ? ? [H|(? & ? & H & _)]; discriminate H.
    - intros ? (? & H). discriminate H.
    - intros ? ? ? H. discriminate H.
    - intros ? H. discriminate H.
  Qed.
  Lemma twf_PSC_PSL u c cl idx f0 cur new f k :
    twf g policy u c (PSC cl idx f0 cur new) (f :: k) -> twf g policy u c (PSL cl idx f0) (f :: k).
  Proof.
    apply (twf_mono g policy).
    - intros ? ? [H|(? & ? & H & _)]; discriminate H.
    - intros ? ? ? [H|(? & ? & H & _)]; [discriminate H|]. inversion H; subst. left. reflexivity.
    - intros ? (? & H). discriminate H.
    - intros ? ? ? H. discriminate H.
    - intros ? H. discriminate H.
  Qed.
  Lemma twf_PSL_PSC u c cl idx f0 cur new f k :
    sf_apply g f0 cur = Some (Ok new) ->
    twf g policy u c (PSL cl idx f0) (f :: k) -> twf g policy u c (PSC cl idx f0 cur new) (f :: k).
  Proof.
    intros Ea. apply (twf_mono g policy).
    - intros ? ? [H|(? & ? & H & _)]; discriminate H.
    - intros ? ? ? [H|(? & ? & H & _)]; [|discriminate H]. inversion H; subst. right. eexists _, _. split; [reflexivity|exact Ea].
    - intros ? (? & H). discriminate H.
    - intros ? ? ? H. discriminate H.
    - intros ? H. discriminate H.
  Qed.
  (* a well-formed (primitive, stack) stays so under normalisation *)
  Lemma twf_pnorm u c p k : twf g policy u c p k -> twf g policy u c (pnorm p) k.
  Proof.
    destruct k as [|f k]; [intros []|]. destruct p as [| | i f0 cur j a | i f0 cur new | | | |]; cbn [pnorm]; try (intros H; exact H).
    - apply (twf_mono g policy).
      + intros ? ? [H|(? & ? & H & _)]; discriminate H.
      + intros ? ? ? [H|(? & ? & H & _)]; discriminate H.
      + intros ? (? & H). discriminate H.
      + intros ? ? ? H. discriminate H.
      + intros ? H. discriminate H.
    - destruct f0; try (intros H; exact H). apply twf_PTC_PTL.
  Qed.

  Lemma tf_apply_fetch d f0 t x : (forall a b ch, f0 <> FChange a b ch) -> tf_apply g policy d f0 t x = tf_apply g policy d f0 t 0.
  Proof. intros N. destruct f0; try reflexivity. destruct (N _ _ _ eq_refl). Qed.

  (* the closure is FChange, or not *)
  Lemma fchange_dec f0 : (exists a b ch, f0 = FChange a b ch) \/ (forall a b ch, f0 <> FChange a b ch).
  Proof. destruct f0; try (right; discriminate). left. eexists _, _, _. reflexivity. Qed.

  Lemma PTL_to_pnorm_PTC u c i f0 t new f k x :
    tf_apply g policy (dflt u) f0 t x = Some (Ok new) ->
    twf g policy u c (PTL i f0) (f :: k) -> twf g policy u c (pnorm (PTC i f0 t new)) (f :: k).
  Proof.
    intros Ea T. destruct (fchange_dec f0) as [(a & b & ch & ->)|NC]; [exact T|].
    rewrite (tf_apply_fetch _ _ _ _ NC) in Ea.
    replace (pnorm (PTC i f0 t new)) with (PTC i f0 t new) by (destruct f0; try reflexivity; destruct (NC _ _ _ eq_refl)).
    apply twf_PTL_PTC; assumption.
  Qed.

  (* evaluating a tree closure on the value just read *)
  Lemma tu_eval_w u c i f0 t f k :
    twf g policy u c (PTL i f0) (f :: k) ->
    match tu_eval g policy u i f0 t with
    | OStay p' => twf g policy u c (pnorm p') (f :: k) /\ (forall th, p' <> PLow th)
    | OVal v => vfacts g policy u (PTL i f0) v
    | OCrash _ => True
    end.
  Proof.
    intros T. unfold tu_eval. destruct (needs_fetch f0 t); [split; [exact T|discriminate]|].
    destruct (tf_apply g policy (dflt u) f0 t 0) as [[new|e|z]|] eqn:Ea; try exact I.
    - split; [eapply PTL_to_pnorm_PTC; eassumption|discriminate].
    - cbn [vfacts]. exists false, t, t. split; [reflexivity|]. intros _. exact Ea.
  Qed.
  Lemma tu_eval_fetched_w u c i f0 t x f k :
    twf g policy u c (PTL i f0) (f :: k) ->
    match tu_eval_fetched g policy u i f0 t x with
    | OStay p' => twf g policy u c (pnorm p') (f :: k) /\ (forall th, p' <> PLow th)
    | OVal v => vfacts g policy u (PTL i f0) v
    | OCrash _ => True
    end.
  Proof.
    intros T. unfold tu_eval_fetched.
    destruct (tf_apply g policy (dflt u) f0 t x) as [[new|e|z]|] eqn:Ea; try exact I.
    - split; [eapply PTL_to_pnorm_PTC; eassumption|discriminate].
    - cbn [vfacts]. exists false, t, t. split; [reflexivity|]. intros NC. rewrite <- (tf_apply_fetch _ _ _ x NC). exact Ea.
  Qed.
  Lemma su_eval_w u c cl idx f0 s f k :
    slot_in g u s -> twf g policy u c (PSL cl idx f0) (f :: k) ->
    match su_eval g cl idx f0 s with
    | OStay p' => twf g policy u c (pnorm p') (f :: k) /\ (forall th, p' <> PLow th)
    | OVal v => vfacts g policy u (PSL cl idx f0) v
    | OCrash _ => True
    end.
  Proof.
    intros Si T. unfold su_eval. destruct (sf_apply g f0 s) as [[new|e|z]|] eqn:Ea; try exact I.
    - split; [cbn [pnorm]; apply twf_PSL_PSC; assumption|discriminate].
    - cbn [vfacts]. exists false, s, s. split; [reflexivity|]. split; [exact Si|exact Ea].
  Qed.

  Lemma slot_at_eq u c j : UpperMachine.slot_at u c j = UpperPrims.slot_at u c j.
  Proof. reflexivity. Qed.

  (* ================= one access of a tree / slot primitive ================= *)
  Lemma P_access_w u c p f k :
    shape u -> twf g policy u c (pnorm p) (f :: k) -> (forall th, p <> PLow th) ->
    static_eq u (fst (fst (prim_step g policy u p))) /\ low (fst (fst (prim_step g policy u p))) = low u /\
    shape (fst (fst (prim_step g policy u p))) /\
    match snd (prim_step g policy u p) with
    | OStay p' => fst (fst (prim_step g policy u p)) = u /\ twf g policy u c (pnorm p') (f :: k) /\ (forall th, p' <> PLow th)
    | OVal v => vfacts g policy u (pnorm p) v
    | OCrash _ => True
    end.
  Proof.
    intros SHP T NL.
    assert (Stay : forall o, match o with
                             | OStay p' => twf g policy u c (pnorm p') (f :: k) /\ (forall th, p' <> PLow th)
                             | OVal v => vfacts g policy u (pnorm p) v
                             | OCrash _ => True
                             end ->
              static_eq u u /\ low u = low u /\ shape u /\
              match o with
              | OStay p' => u = u /\ twf g policy u c (pnorm p') (f :: k) /\ (forall th, p' <> PLow th)
              | OVal v => vfacts g policy u (pnorm p) v
              | OCrash _ => True
              end).
    { intros o H. split; [apply static_refl|]. split; [reflexivity|]. split; [exact SHP|].
      destruct o; [split; [reflexivity|exact H]|exact H|exact I]. }
    destruct p as [i|i f0|i f0 cur j a|i f0 cur new|cl idx f0|cl idx f0 cur new|cl idx new|th]; [| | | | | | |destruct (NL th eq_refl)].
    - (* PLd *)
      cbn [prim_step]. destruct (tree_at u i) as [t|]; cbn [fst snd]; [|apply (Stay (OCrash SRowOrder)); exact I].
      apply (Stay (OVal _)). cbn [pnorm vfacts]. exists t. reflexivity.
    - (* PTL *)
      cbn [prim_step]. destruct (tree_at u i) as [t|]; cbn [fst snd]; [|apply (Stay (OCrash SRowOrder)); exact I].
      apply Stay. apply tu_eval_w. exact T.
    - (* PTF *)
      cbn [prim_step]. cbn [pnorm] in T.
      destruct (nth_error (ents (low u)) (nn (i * THUGE g + j))) as [e|]; cbn [fst snd]; [|apply (Stay (OCrash SRowOrder)); exact I].
      apply Stay. destruct (j + 1 <? THUGE g); [split; [exact T|discriminate]|]. apply tu_eval_fetched_w. exact T.
    - (* PTC *)
      assert (TL : twf g policy u c (PTL i f0) (f :: k)).
      { destruct (fchange_dec f0) as [(a & b & ch & ->)|NC]; [exact T|]. apply (twf_PTC_PTL _ _ _ _ cur new).
        replace (PTC i f0 cur new) with (pnorm (PTC i f0 cur new)) by (destruct f0; try reflexivity; destruct (NC _ _ _ eq_refl)).
        exact T. }
      cbn [prim_step]. destruct (tree_at u i) as [t|]; cbn [fst snd]; [|apply (Stay (OCrash SRowOrder)); exact I].
      destruct (tree_eqb t cur) eqn:Eq; cbn [fst snd].
      + split; [apply static_set_tree|]. split; [reflexivity|]. split; [apply shape_set_tree; exact SHP|].
        destruct (fchange_dec f0) as [(a & b & ch & ->)|NC].
        * cbn [pnorm vfacts]. exists true, cur, new. split; [reflexivity|]. intros NC. destruct (NC _ _ _ eq_refl).
        * replace (pnorm (PTC i f0 cur new)) with (PTC i f0 cur new) in * by (destruct f0; try reflexivity; destruct (NC _ _ _ eq_refl)).
          destruct T as (T & _). apply top_wf_primw in T. cbn [prim_okw] in T.
          cbn [vfacts]. exists true, cur, new. split; [reflexivity|]. intros _. exact T.
      + apply Stay. pose proof (tu_eval_w u c i f0 t f k TL) as Q.
        destruct (tu_eval g policy u i f0 t) as [p'|v|z]; [exact Q| |exact I].
        destruct (fchange_dec f0) as [(a & b & ch & ->)|NC]; [exact Q|].
        replace (pnorm (PTC i f0 cur new)) with (PTC i f0 cur new) by (destruct f0; try reflexivity; destruct (NC _ _ _ eq_refl)).
        exact Q.
    - (* PSL *)
      cbn [prim_step pnorm] in *. rewrite slot_at_eq. destruct (UpperPrims.slot_at u cl idx) as [s|] eqn:Hs; cbn [fst snd]; [|apply (Stay (OCrash SRowOrder)); exact I].
      apply Stay. apply su_eval_w; [exact (proj2 SHP _ _ _ Hs)|exact T].
    - (* PSC *)
      cbn [pnorm] in T. pose proof (twf_PSC_PSL _ _ _ _ _ _ _ _ _ T) as TL.
      destruct T as (T & _). apply top_wf_primw in T. cbn [prim_okw] in T. destruct T as [Ea Hrow].
      cbn [prim_step]. rewrite slot_at_eq. destruct (UpperPrims.slot_at u cl idx) as [s|] eqn:Hs; cbn [fst snd]; [|apply (Stay (OCrash SRowOrder)); exact I].
      pose proof (proj2 SHP _ _ _ Hs) as Si.
      destruct (slot_eqb s cur) eqn:Eq; cbn [fst snd].
      + apply slot_eqb_true in Eq. subst s.
        assert (Sn : slot_in g u new).
        { intros Pn. destruct f0 as [tree n|tree n|t n|row]; cbn [sf_apply] in Ea.
          - destruct (slot_get g cur tree n) as [x|] eqn:Es; cbn [option_map] in Ea; inversion Ea; subst x.
            destruct (slot_get_facts g _ _ _ _ Es) as (Pr & _ & _ & ->). exact (Si Pr).
          - destruct (slot_get g cur tree n) as [x|] eqn:Es; cbn [option_map] in Ea; inversion Ea; subst new. discriminate Pn.
          - unfold slot_put in Ea. destruct (s_pres cur && (row_tree g (s_row cur) =? t)) eqn:Ec; [|discriminate].
            apply andb_true_iff in Ec. destruct Ec as [Pr _].
            destruct (s_free cur + n <=? TF); inversion Ea; subst new. exact (Si Pr).
          - specialize (Hrow row eq_refl).
            unfold slot_set_start in Ea. destruct (s_pres cur && (row_tree g (s_row cur) =? row_tree g row) && negb (s_row cur =? row)); cbn [option_map] in Ea; inversion Ea; subst new.
            unfold rt. cbn [s_row]. split; [apply row_in; assumption|exact Hrow]. }
        split; [apply static_set_slot|]. split; [apply set_slot_low|]. split; [apply shape_set_slot; assumption|].
        cbn [pnorm vfacts]. exists true, cur, new. split; [reflexivity|]. split; [exact Si|exact Ea].
      + apply Stay. apply su_eval_w; assumption.
    - (* PSW *)
      cbn [pnorm] in T. destruct T as (T & _). apply top_wf_primw in T. cbn [prim_okw] in T.
      cbn [prim_step]. rewrite slot_at_eq. destruct (UpperPrims.slot_at u cl idx) as [s|] eqn:Hs; cbn [fst snd]; [|apply (Stay (OCrash SRowOrder)); exact I].
      pose proof (proj2 SHP _ _ _ Hs) as Si.
      split; [apply static_set_slot|]. split; [apply set_slot_low|]. split.
      + apply shape_set_slot; [exact SHP|]. intros Pn. unfold rt. split; [apply row_in; [exact SHP|exact (T Pn)]|exact (T Pn)].
      + cbn [pnorm vfacts]. exists s. split; [reflexivity|exact Si].
  Qed.

  (* ================= the weak invariant ================= *)
  (* the M1 view with the ghost list L of leaked blocks (a get that panicked in upper code while it had a frame in hand) *)
  Definition m1w (s : m2state) (L : list (N * nat)) : mstate :=
    {| ms_frames := frames (low (m2_up s)); ms_ents := ents (low (m2_up s)); ms_bfs := bfs (low (m2_up s));
       ms_pool := map low_thr (m2_pool s);
       ms_held := (m2_held s ++ flat_map (inflight g) (m2_pool s)) ++ L |}.
  Lemma m1w_nil s : m1w s [] = m1_of g s.
  Proof. unfold m1w, m1_of. rewrite app_nil_r. reflexivity. Qed.

  Definition thr_wf_w (u : upper) (x : uthr) : Prop :=
    match x with
    | URun c p k => call_wf_w g u c /\ twf g policy u c (pnorm p) k
    | _ => True
    end.
  Definition WI (L : list (N * nat)) (s : m2state) : Prop :=
    Inv g (m1w s L) /\ shape (m2_up s) /\ Forall (thr_wf_w (m2_up s)) (m2_pool s).

  Lemma call_wf_w_static u u' c : static_eq u u' -> call_wf_w g u c -> call_wf_w g u' c.
  Proof. intros SE. destruct c; cbn [call_wf_w]; try tauto; apply call_wf_static; exact SE. Qed.
  Lemma thr_wf_w_static u u' x : static_eq u u' -> thr_wf_w u x -> thr_wf_w u' x.
  Proof.
    intros SE. destruct x as [l|c p k|z c]; cbn [thr_wf_w]; [tauto| |tauto].
    intros [A B]. split; [eapply call_wf_w_static; eassumption|eapply twf_static; eassumption].
  Qed.
  Lemma vfacts_static u u' p v : static_eq u u' -> vfacts g policy u p v -> vfacts g policy u' p v.
  Proof.
    intros (A & _ & B & C). destruct p; cbn [vfacts]; unfold slot_in; intros H; rewrite ?A, ?B, ?C; exact H.
  Qed.

  Lemma low_thr_panic z c : z <> SExceedingRetries -> low_thr (UPanic z c) = TIdle None.
  Proof. intros N. destruct z; try reflexivity. destruct (N eq_refl). Qed.
  Lemma low_thr_run c p k : (forall th, p <> PLow th) -> low_thr (URun c p k) = TIdle None.
  Proof. intros N. destruct p; try reflexivity. destruct (N th eq_refl). Qed.

  Notation mkst := UpperConcInv.mkst.

  Lemma m1w_upd M u' pool t x' H' L :
    Inv g M ->
    ms_frames M = frames (low u') -> ms_ents M = ents (low u') -> ms_bfs M = bfs (low u') ->
    (t < length pool)%nat ->
    (exists yM, ms_pool M = upd (map low_thr pool) t yM /\
                (yM = low_thr x' \/ (exists l, yM = TIdle l) /\ exists l', low_thr x' = TIdle l')) ->
    Permutation (ms_held M) ((H' ++ flat_map (inflight g) (upd pool t x')) ++ L) ->
    Inv g (m1w (mkst u' (upd pool t x') H') L).
  Proof.
    intros I E1 E2 E3 Lt (yM & Ep & Hy) Pm.
    assert (Lt' : (t < length (map low_thr pool))%nat) by (rewrite map_length; exact Lt).
    assert (I1 : Inv g (set_thr M t (low_thr x'))).
    { destruct Hy as [->|((l & ->) & (l' & El))].
      - replace (set_thr M t (low_thr x')) with M; [exact I|]. destruct M. unfold set_thr. cbn in *.
        f_equal. rewrite Ep, upd_upd. reflexivity.
      - rewrite El. eapply (Inv_idle_irrel g WF); [exact I|]. rewrite Ep. apply nth_error_upd_same. exact Lt'. }
    pose proof (Inv_held_perm g WF _ _ I1 Pm) as I2.
    replace (m1w (mkst u' (upd pool t x') H') L)
      with (set_held (set_thr M t (low_thr x')) ((H' ++ flat_map (inflight g) (upd pool t x')) ++ L)); [exact I2|].
    unfold m1w, set_held, set_thr, UpperConcInv.mkst. cbn.
    rewrite E1, E2, E3, Ep, upd_upd, map_upd. reflexivity.
  Qed.

  Lemma WI_upd L L' s t x0 u' x' H' :
    WI L s -> nth_error (m2_pool s) t = Some x0 -> static_eq (m2_up s) u' -> shape u' ->
    Inv g (m1w (mkst u' (upd (m2_pool s) t x') H') L') -> thr_wf_w u' x' ->
    WI L' (mkst u' (upd (m2_pool s) t x') H').
  Proof.
    intros (I & S & F) Ht SE S' I' W'. split; [exact I'|]. split; [exact S'|].
    cbn [UpperConcInv.mkst m2_up m2_pool]. apply Forall_upd; [|exact W'].
    eapply Forall_impl; [|exact F]. intros x. apply thr_wf_w_static. exact SE.
  Qed.

  (* the blocks in flight of a thread: only the frames of its stack (and the lower call it is in) matter *)
  Notation blocks := UpperConcInv.blocks.
  Notation inflB := (UpperConcInv.inflB g).
  Notation inflA := (UpperConcInv.inflA g).

  Lemma pk_gh_bl p k : (forall th, p <> PLow th) -> g_bl (pk_gh g p k) = g_bl (frames_gh g k).
  Proof. intros N. unfold pk_gh. cbn [gh_add g_bl]. rewrite (prim_gh_bl g _ _ N). reflexivity. Qed.
  Lemma blocks_ext c G G' : g_bl G = g_bl G' -> blocks c G = blocks c G'.
  Proof. intros E. unfold UpperConcInv.blocks. rewrite E. reflexivity. Qed.

  (* the state right after the access of thread t: memory u', the blocks B the thread has in hand, thread t idle in M1 *)
  Definition midw (L : list (N * nat)) (st : m2state) (t : nat) (c : ucall) (u' : upper) (G : ugh) : Prop :=
    static_eq (m2_up st) u' /\ shape u' /\
    exists M, Inv g M /\ ms_frames M = frames (low u') /\ ms_ents M = ents (low u') /\ ms_bfs M = bfs (low u') /\
              (exists l, ms_pool M = upd (map low_thr (m2_pool st)) t (TIdle l)) /\
              Permutation (ms_held M)
                ((m2_held st ++ (inflB (m2_pool st) t ++ inflA (m2_pool st) t) ++ blocks c G) ++ L).

  Lemma perm_midw {A} (H a b B L : list A) : Permutation ((H ++ (a ++ b) ++ B) ++ L) ((H ++ a ++ B ++ b) ++ L).
  Proof. apply Permutation_app_tail. apply UpperConcInv.perm_mid. Qed.
  Lemma perm_leak {A} (H a b B L : list A) : Permutation ((H ++ (a ++ b) ++ B) ++ L) ((H ++ a ++ [] ++ b) ++ B ++ L).
  Proof.
    cbn [app]. rewrite <- !app_assoc. apply Permutation_app_head. apply Permutation_app_head. apply Permutation_app_head.
    apply Permutation_refl.
  Qed.

  Lemma perm_ret {A} (x : A) (H a b L : list A) : Permutation ((H ++ (a ++ b) ++ [x]) ++ L) ((x :: H ++ a ++ b) ++ L).
  Proof. apply Permutation_app_tail. rewrite app_assoc. apply Permutation_sym. apply Permutation_cons_append. Qed.

  Lemma finish_step_w L st t x0 c u' G x :
    WI L st -> nth_error (m2_pool st) t = Some x0 -> midw L st t c u' G -> call_wf_w g u' c ->
    goodw g policy u' c G x -> (forall z, x = SCrash z -> z <> SExceedingRetries) ->
    exists L', WI L' (apply_settled (with_up st u') t c x).
  Proof.
    intros WIs Ht (SE & SHP & M & IM & E1 & E2 & E3 & (l & Ep) & Pm) CW Gd Site.
    assert (Lt : (t < length (m2_pool st))%nat) by (apply nth_error_Some; congruence).
    assert (Lt' : (t < length (map low_thr (m2_pool st)))%nat) by (rewrite map_length; exact Lt).
    destruct x as [p' k'|r|z]; cbn [goodw good apply_settled] in *.
    - (* the call continues *)
      exists L. destruct Gd as (T & Ge & En).
      change (set_uthr (with_up st u') t (URun c p' k')) with (mkst u' (upd (m2_pool st) t (URun c p' k')) (m2_held st)).
      assert (Pm' : Permutation (ms_held M) ((m2_held st ++ flat_map (inflight g) (upd (m2_pool st) t (URun c p' k'))) ++ L)).
      { rewrite (UpperConcInv.infl_upd g _ _ _ Lt), UpperConcInv.inflight_blocks. destruct Ge as (_ & _ & Eb).
        rewrite (blocks_ext c _ _ Eb). eapply perm_trans; [exact Pm|apply perm_midw]. }
      eapply WI_upd; [exact WIs|exact Ht|exact SE|exact SHP| |split; [exact CW|apply twf_pnorm; exact T]].
      destruct p' as [i|i f0|i f0 cur j a0|i f0 cur new|cl idx f0|cl idx f0 cur new|cl idx new|th'];
        try (eapply (m1w_upd M); [exact IM|exact E1|exact E2|exact E3|exact Lt| |exact Pm'];
             exists (TIdle l); split; [exact Ep|]; right; split; [eexists; reflexivity|exists None; reflexivity]).
      destruct (En th' eq_refl) as (cl & -> & Cw & Np).
      assert (IM2 : Inv g (goto M t cl (entry_pc g cl))).
      { eapply (UpperConcInv.m1_enter_get g WF); [exact IM| |rewrite E1; exact Cw|exact Np]. rewrite Ep. apply nth_error_upd_same. exact Lt'. }
      eapply (m1w_upd (goto M t cl (entry_pc g cl))); [exact IM2|exact E1|exact E2|exact E3|exact Lt| |exact Pm'].
      exists (TRun cl (entry_pc g cl)). split; [|left; reflexivity].
      unfold goto, set_thr. cbn. rewrite Ep, upd_upd. reflexivity.
    - (* the call returns *)
      exists L. destruct Gd as (NP & Ge). destruct Ge as (_ & _ & Eb).
      assert (IdleM : forall H', Permutation (ms_held M) ((H' ++ flat_map (inflight g) (upd (m2_pool st) t (UIdle (Some r)))) ++ L) ->
                Inv g (m1w (mkst u' (upd (m2_pool st) t (UIdle (Some r))) H') L)).
      { intros H' PmH. eapply (m1w_upd M); [exact IM|exact E1|exact E2|exact E3|exact Lt| |exact PmH].
        exists (TIdle l). split; [exact Ep|]. right. split; [eexists; reflexivity|exists None; reflexivity]. }
      unfold ufinish.
      assert (Dflt : blocks c G = [] -> WI L (mkst u' (upd (m2_pool st) t (UIdle (Some r))) (m2_held st))).
      { intros Bn. eapply WI_upd; [exact WIs|exact Ht|exact SE|exact SHP| |exact I].
        apply IdleM. rewrite (UpperConcInv.infl_upd g _ _ _ Lt). cbn [inflight app]. rewrite Bn, app_nil_r in Pm. exact Pm. }
      destruct c as [fr rq|f rq| |m ch].
      + destruct r as [[frm cl]|e|z].
        * change (with_held (set_uthr (with_up st u') t (UIdle (Some (Ok (frm, cl)))))
                    ((frm, r_order rq) :: m2_held (set_uthr (with_up st u') t (UIdle (Some (Ok (frm, cl)))))))
            with (mkst u' (upd (m2_pool st) t (UIdle (Some (Ok (frm, cl))))) ((frm, r_order rq) :: m2_held st)).
          eapply WI_upd; [exact WIs|exact Ht|exact SE|exact SHP| |exact I].
          apply IdleM. rewrite (UpperConcInv.infl_upd g _ _ _ Lt). cbn [inflight app].
          cbn [ret_gh gh_bl g_bl] in Eb. unfold UpperConcInv.blocks in Pm. rewrite <- Eb in Pm. cbn [map] in Pm.
          eapply perm_trans; [exact Pm|]. exact (perm_ret _ _ _ _ _).
        * apply Dflt. unfold UpperConcInv.blocks. rewrite <- Eb. reflexivity.
        * destruct (NP z eq_refl).
      + apply Dflt. reflexivity.
      + apply Dflt. reflexivity.
      + apply Dflt. reflexivity.
    - (* the upper layer panics: the blocks the thread has in hand are leaked *)
      exists (blocks c G ++ L).
      change (set_uthr (with_up st u') t (UPanic z c)) with (mkst u' (upd (m2_pool st) t (UPanic z c)) (m2_held st)).
      eapply WI_upd; [exact WIs|exact Ht|exact SE|exact SHP| |exact I].
      eapply (m1w_upd M); [exact IM|exact E1|exact E2|exact E3|exact Lt| |].
      + exists (TIdle l). split; [exact Ep|]. right. split; [eexists; reflexivity|exists None; apply low_thr_panic; apply Site; reflexivity].
      + rewrite (UpperConcInv.infl_upd g _ _ _ Lt). cbn [inflight]. eapply perm_trans; [exact Pm|apply perm_leak].
  Qed.

  (* ================= sites of upper-layer panics: never "Exceeding retries" (UpperProgress.v) ================= *)
  Lemma prim_site u p : UpperProgress.prim_ok g p = true ->
    match snd (prim_step g policy u p) with
    | OStay _ => True
    | OVal v => UpperProgress.val_ok v = true
    | OCrash z => (forall th, p <> PLow th) -> z <> SExceedingRetries
    end.
  Proof.
    intros Hp. pose proof (UpperProgress.prim_step_dec g policy u p Hp) as D.
    destruct (prim_step g policy u p) as [[u' ev] o]. cbn [snd]. destruct D as (_ & _ & D).
    destruct o as [p'|v|z]; [exact I|exact D|]. intros NL ->. destruct (D eq_refl) as (c & i & ->). destruct (NL _ eq_refl).
  Qed.
  Lemma settle_site u v k z : UpperProgress.val_ok v = true -> UpperProgress.stk_ok g (ntrees u) k = true ->
    settle g policy SETTLE u (ARet v k) = SCrash z -> z <> SExceedingRetries.
  Proof.
    intros Hv Hk E.
    assert (Lq : UpperProgress.leq g u (ARet v k) (UpperProgress.mact g u (ARet v k))).
    { split; [cbn [UpperProgress.act_ok]; rewrite Hv, Hk; reflexivity|apply N.le_refl]. }
    pose proof (UpperProgress.settle_le g policy WF SETTLE u _ _ Lq) as S. rewrite E in S. exact S.
  Qed.
  Lemma start_site u c z : settle g policy SETTLE u (enter_call g u c) = SCrash z -> z <> SExceedingRetries.
  Proof.
    intros E. destruct (UpperProgress.enter_call_leq g policy WF u c) as (M & Lq).
    pose proof (UpperProgress.settle_le g policy WF SETTLE u _ _ Lq) as S. rewrite E in S. exact S.
  Qed.

  Lemma WI_thread L st t c p k :
    WI L st -> nth_error (m2_pool st) t = Some (URun c p k) ->
    call_wf_w g (m2_up st) c /\ twf g policy (m2_up st) c (pnorm p) k.
  Proof. intros (_ & _ & F) Ht. exact (Forall_nth_error _ _ _ _ F Ht). Qed.

  Lemma upd_same' {A} (l : list A) t x : nth_error l t = Some x -> upd l t x = l.
  Proof. apply UpperConcInv.upd_same. Qed.

  (* a step of a thread whose primitive is a tree / slot access *)
  Lemma step_access_w L st t c p k c0 :
    WI L st -> UpperProgress.uthread_ok g st t -> nth_error (m2_pool st) t = Some (URun c p k) -> (forall th, p <> PLow th) ->
    exists L', WI L' (fst (ustep g policy st t c0)).
  Proof.
    intros WIs UO Ht NL. destruct (WI_thread _ _ _ _ _ _ WIs Ht) as (CW & T).
    unfold UpperProgress.uthread_ok in UO. rewrite Ht in UO. destruct UO as [Hp Hk].
    destruct k as [|f k]; [destruct T|].
    assert (PS : pas_stack (m2_up st) c (lvl f) k) by (destruct T as (_ & PS & _); exact PS).
    assert (Lt : (t < length (m2_pool st))%nat) by (apply nth_error_Some; congruence).
    pose proof WIs as (I & SHP & F).
    pose proof (P_access_w _ _ _ _ _ SHP T NL) as PA. pose proof (prim_site (m2_up st) p Hp) as PSi.
    unfold ustep. rewrite Ht. destruct (prim_step g policy (m2_up st) p) as [[u' ev] oc]. cbn [fst snd] in *.
    destruct PA as (SE & El & SHP' & PA).
    assert (Eb0 : g_bl (pk_gh g p (f :: k)) = g_bl (frame_gh g f)).
    { rewrite (pk_gh_bl _ _ NL). cbn [frames_gh fold_right]. fold (frames_gh g k).
      rewrite (pas_frames_gh g policy _ _ _ (proj1 PS)). cbn [gh_add g_bl gh_nil]. apply app_nil_r. }
    assert (Hpool : upd (map low_thr (m2_pool st)) t (TIdle None) = map low_thr (m2_pool st)).
    { apply upd_same'. rewrite nth_error_map, Ht. cbn [option_map]. f_equal. apply low_thr_run. exact NL. }
    destruct oc as [p'|v|z].
    - (* the primitive continues *)
      destruct PA as (-> & T' & NL'). exists L.
      change (set_uthr (with_up st (m2_up st)) t (URun c p' (f :: k)))
        with (mkst (m2_up st) (upd (m2_pool st) t (URun c p' (f :: k))) (m2_held st)).
      eapply WI_upd; [exact WIs|exact Ht|exact SE|exact SHP| |split; assumption].
      eapply (m1w_upd (m1w st L)); [exact I|reflexivity|reflexivity|reflexivity|exact Lt| |].
      + exists (TIdle None). split; [cbn; symmetry; exact Hpool|left; symmetry; apply low_thr_run; exact NL'].
      + cbn. rewrite (UpperConcInv.infl_at g _ _ _ Ht), (UpperConcInv.infl_upd g _ _ _ Lt), !UpperConcInv.inflight_blocks.
        rewrite (blocks_ext c (pk_gh g p' (f :: k)) (pk_gh g p (f :: k))); [apply Permutation_refl|].
        rewrite !pk_gh_bl by assumption. reflexivity.
    - (* the primitive completes *)
      assert (SH' : ntrees u' = ntab g (frames (low u'))) by exact (proj1 SHP').
      assert (CW' : call_wf_w g u' c) by (eapply call_wf_w_static; eassumption).
      eapply (finish_step_w L st t _ c u' (gh_add (post_gh g (pnorm p) v f) (frame_gh g f))); [exact WIs|exact Ht| |exact CW'| |].
      + split; [exact SE|]. split; [exact SHP'|]. exists (m1w st L). split; [exact I|].
        split; [cbn; rewrite El; reflexivity|]. split; [cbn; rewrite El; reflexivity|]. split; [cbn; rewrite El; reflexivity|].
        split; [exists None; cbn; symmetry; exact Hpool|].
        cbn. rewrite (UpperConcInv.infl_at g _ _ _ Ht), UpperConcInv.inflight_blocks.
        rewrite (blocks_ext c (gh_add (post_gh g (pnorm p) v f) (frame_gh g f)) (pk_gh g p (f :: k))).
        * apply Permutation_sym. apply perm_midw.
        * cbn [gh_add g_bl]. rewrite (post_gh_bl g _ _ _ (pnorm_low _ NL)), Eb0. reflexivity.
      + apply (K_settle g policy WF u' c SH' CW'); [eapply twf_static; eassumption|eapply vfacts_static; eassumption].
      + intros z E. apply (settle_site u' v (f :: k) z); [exact PSi| |exact E]. rewrite (proj1 SE). exact Hk.
    - (* the access panics (slice index, a failed assert of a closure): nothing is written *)
      exists (blocks c (pk_gh g p (f :: k)) ++ L).
      change (set_uthr (with_up st u') t (UPanic z c)) with (mkst u' (upd (m2_pool st) t (UPanic z c)) (m2_held st)).
      eapply WI_upd; [exact WIs|exact Ht|exact SE|exact SHP'| |exact Logic.I].
      eapply (m1w_upd (m1w st L)); [exact I|cbn; rewrite El; reflexivity|cbn; rewrite El; reflexivity|cbn; rewrite El; reflexivity|exact Lt| |].
      + exists (TIdle None). split; [cbn; symmetry; exact Hpool|left; symmetry; apply low_thr_panic; exact (PSi NL)].
      + cbn. rewrite (UpperConcInv.infl_at g _ _ _ Ht), (UpperConcInv.infl_upd g _ _ _ Lt), UpperConcInv.inflight_blocks. cbn [inflight].
        eapply perm_trans; [apply Permutation_sym; apply perm_midw|apply perm_leak].
  Qed.

  (* ================= a step inside the lower allocator ================= *)
  Ltac kill_prims :=
    repeat match goal with
           | H : tprim _ _ _ (PLow _) _ _ |- _ => exfalso; destruct H as [H|(? & ? & H & _)]; discriminate H
           | H : sprim _ (PLow _) _ _ _ |- _ => exfalso; destruct H as [H|(? & ? & H & _)]; discriminate H
           | H : PLow _ = PSW _ _ _ |- _ => discriminate H
           | H : PLow _ = PLd _ |- _ => discriminate H
           | H : lprim (PLow _) _ |- _ => destruct H as (?pc & H); inversion H; subst; clear H
           end.
  Lemma lgc_put row o fr : is_put (low_get_call row o fr) = false.
  Proof. destruct fr; reflexivity. Qed.
  Lemma lgc_order row o fr : c_order (low_get_call row o fr) = o.
  Proof. destruct fr; reflexivity. Qed.

  Lemma twf_low_w u c th f k :
    twf g policy u c (PLow th) (f :: k) ->
    exists cl pc, th = TRun cl pc /\ UpperConcInv.low_frame f = true /\ frame_gh g f = gh_nil /\
      (forall pc', twf g policy u c (PLow (TRun cl pc')) (f :: k)) /\
      ((is_put cl = false /\ (forall a b, f <> KPut1 a b) /\ exists fr r, c = UGet fr r /\ c_order cl = r_order r) \/
       (exists fr r, f = KPut1 fr r /\ c = UPut fr r /\ cl = CPut fr (r_order r))).
  Proof.
    intros (T & R). revert R. destruct f; cbn [top_wf] in T; try (destruct T; fail); unfold ros_ok, row_ok in *; flat; subst; kill_prims; intros R.
    all: eexists _, _; split; [reflexivity|]; split; [reflexivity|]; split; [reflexivity|].
    - split.
      + intros pc'. split; [|exact R]. cbn [top_wf]. eexists _, _. repeat split; try eassumption; try reflexivity. eexists; reflexivity.
      + left. split; [apply lgc_put|]. split; [discriminate|]. eexists _, _. split; [reflexivity|apply lgc_order].
    - split.
      + intros pc'. split; [|exact R]. cbn [top_wf]. eexists. repeat match goal with |- _ /\ _ => split end; try eassumption; try reflexivity. eexists; reflexivity.
      + left. split; [reflexivity|]. split; [discriminate|]. eexists _, _. split; reflexivity.
    - split.
      + intros pc'. split; [|exact R]. cbn [top_wf]. eexists _, _. repeat split; try eassumption; try reflexivity. eexists; reflexivity.
      + left. split; [apply lgc_put|]. split; [discriminate|]. eexists _, _. split; [reflexivity|apply lgc_order].
    - split.
      + intros pc'. split; [|exact R]. cbn [top_wf]. eexists. repeat split; try eassumption; try reflexivity. eexists; reflexivity.
      + left. split; [apply lgc_put|]. split; [discriminate|]. eexists _, _. split; [reflexivity|apply lgc_order].
    - split.
      + intros pc'. split; [|exact R]. cbn [top_wf]. eexists. repeat split; try eassumption; try reflexivity. eexists; reflexivity.
      + left. split; [apply lgc_put|]. split; [discriminate|]. eexists _, _. split; [reflexivity|apply lgc_order].
    - split.
      + intros pc'. split; [|exact R]. cbn [top_wf]. split; [reflexivity|eexists; reflexivity].
      + right. eexists _, _. repeat split.
  Qed.

  Lemma blocks_nil c G : g_bl G = [] -> blocks c G = [].
  Proof. intros E. unfold UpperConcInv.blocks. rewrite E. destruct c; reflexivity. Qed.

  Lemma step_low_w L st t c th k c0 :
    WI L st -> UpperProgress.uthread_ok g st t -> nth_error (m2_pool st) t = Some (URun c (PLow th) k) ->
    exists L', WI L' (fst (ustep g policy st t c0)).
  Proof.
    intros WIs UO Ht. destruct (WI_thread _ _ _ _ _ _ WIs Ht) as (CW & T). cbn [pnorm] in T.
    unfold UpperProgress.uthread_ok in UO. rewrite Ht in UO. destruct UO as [Hp Hk].
    destruct k as [|f k]; [destruct T|].
    destruct (twf_low_w _ _ _ _ _ T) as (cl & pc & -> & Lf & Fg & Tpc & Cls).
    assert (PS : pas_stack (m2_up st) c (lvl f) k) by (destruct T as (_ & PS & _); exact PS).
    assert (Lt : (t < length (m2_pool st))%nat) by (apply nth_error_Some; congruence).
    pose proof WIs as (I & SHP & F).
    set (m := m1w st L) in *.
    assert (Hm : nth_error (ms_pool m) t = Some (TRun cl pc)).
    { unfold m, m1w. cbn. rewrite nth_error_map, Ht. reflexivity. }
    (* the M1 step *)
    destruct (view_step g WF m t cl pc cl cl Hm) as (Efr & x' & Hx & Est).
    pose proof (step_inv g WF m t cl I) as IM.
    assert (Hx' : nth_error (ms_pool (fst (mstep g m t cl))) t = Some x').
    { rewrite Est. cbn. apply nth_error_upd_same. unfold m, m1w. cbn. rewrite map_length. exact Lt. }
    pose proof (step_result g WF m t cl pc cl x' I Hm Hx') as SR.
    pose proof (step_held g WF m t cl pc cl x' Hm Hx') as SHl.
    set (M := fst (mstep g m t cl)) in *.
    change (view m (TRun cl pc)) with (m1_view (m2_up st) (TRun cl pc)) in *.
    pose proof (prim_site (m2_up st) (PLow (TRun cl pc)) Hp) as PSi.
    unfold ustep. rewrite Ht. cbn [prim_step] in *.
    destruct (mstep g (m1_view (m2_up st) (TRun cl pc)) 0 cl) as [ms' ev] eqn:Ems. cbn [fst snd] in *.
    set (l' := {| frames := ms_frames ms'; bfs := ms_bfs ms'; ents := ms_ents ms' |}) in *.
    set (u' := with_low (m2_up st) l') in *.
    assert (EM : M = {| ms_frames := ms_frames m; ms_ents := ms_ents ms'; ms_bfs := ms_bfs ms';
                        ms_pool := upd (ms_pool m) t x'; ms_held := ms_held ms' ++ ms_held m |}).
    { unfold M. rewrite Est. reflexivity. }
    assert (SE : static_eq (m2_up st) u').
    { unfold u', static_eq. cbn. repeat split. exact Efr. }
    assert (SHP' : shape u') by (apply shape_with_low; [exact SHP|exact Efr]).
    assert (EMp : ms_pool M = upd (map low_thr (m2_pool st)) t x') by (rewrite EM; reflexivity).
    assert (InflPC : forall pc0, inflight g (URun c (PLow (TRun cl pc0)) (f :: k)) = []).
    { intros pc0. rewrite UpperConcInv.inflight_blocks. apply blocks_nil. unfold pk_gh. cbn [hd_error prim_gh frames_gh fold_right gh_add g_bl].
      fold (frames_gh g k). rewrite (pas_frames_gh g policy _ _ _ (proj1 PS)), Fg, (low_gh_bl g). reflexivity. }
    assert (Hm0 : ms_held m = (m2_held st ++ inflB (m2_pool st) t ++ inflA (m2_pool st) t) ++ L).
    { unfold m, m1w. cbn. rewrite (UpperConcInv.infl_at g _ _ _ Ht), InflPC. reflexivity. }
    assert (CW' : call_wf_w g u' c) by (eapply call_wf_w_static; eassumption).
    assert (SH' : ntrees u' = ntab g (frames (low u'))) by exact (proj1 SHP').
    rewrite Hx in *.
    destruct x' as [[[frm|e|z]|]|cl' pc'|z cl']; cbn [fst snd] in *; try (destruct SR; fail).
    - (* the lower call returns a frame / Ok *)
      assert (V : vfacts g policy u' (PLow (TRun cl pc)) (VL (Ok frm))).
      { cbn [vfacts]. exists cl, pc. split; [reflexivity|]. intros Np. destruct (SR Np) as (A & _ & B). split; [exact A|].
        cbn. rewrite Efr. unfold m, m1w in B. cbn in B. pose proof (pow2_pos (c_order cl)). lia. }
      eapply (finish_step_w L st t _ c u' (gh_add (post_gh g (PLow (TRun cl pc)) (VL (Ok frm)) f) (frame_gh g f)));
        [exact WIs|exact Ht| |exact CW'|
         apply (K_settle g policy WF u' c SH' CW'); [eapply twf_static; eassumption|exact V]|
         intros z E; apply (settle_site u' (VL (Ok frm)) (f :: k) z); [exact PSi|rewrite (proj1 SE); exact Hk|exact E]].
      split; [exact SE|]. split; [exact SHP'|].
      exists M. split; [exact IM|]. split; [rewrite EM; cbn; exact (eq_sym Efr)|]. split; [rewrite EM; reflexivity|].
      split; [rewrite EM; reflexivity|]. split; [eexists; exact EMp|].
      rewrite SHl, Hm0. rewrite Fg, gh_add_nil_r.
      destruct Cls as [(Np & NK & fr & r & Ec & Eo)|(fr & r & -> & Ec & ->)].
      + rewrite Np, Ec, Eo. unfold UpperConcInv.blocks.
        assert (Eb : g_bl (post_gh g (PLow (TRun cl pc)) (VL (Ok frm)) f) = [frm]).
        { destruct f; cbn [UpperConcInv.low_frame] in Lf; try discriminate; try (destruct (NK _ _ eq_refl); fail);
            cbn [post_gh]; try (destruct reserved); reflexivity. }
        rewrite Eb. cbn [map].
        apply Permutation_sym. eapply perm_trans; [apply perm_ret|]. cbn [app]. apply Permutation_refl.
      + cbn [is_put]. rewrite Ec. cbn [UpperConcInv.blocks]. rewrite app_nil_r. apply Permutation_refl.
    - (* out of memory *)
      subst e.
      assert (V : vfacts g policy u' (PLow (TRun cl pc)) (VL (Err EMemory))).
      { cbn [vfacts]. exists cl, pc. split; reflexivity. }
      eapply (finish_step_w L st t _ c u' (gh_add (post_gh g (PLow (TRun cl pc)) (VL (Err EMemory)) f) (frame_gh g f)));
        [exact WIs|exact Ht| |exact CW'|
         apply (K_settle g policy WF u' c SH' CW'); [eapply twf_static; eassumption|exact V]|
         intros z E; apply (settle_site u' (VL (Err EMemory)) (f :: k) z); [exact PSi|rewrite (proj1 SE); exact Hk|exact E]].
      split; [exact SE|]. split; [exact SHP'|].
      exists M. split; [exact IM|]. split; [rewrite EM; cbn; exact (eq_sym Efr)|]. split; [rewrite EM; reflexivity|].
      split; [rewrite EM; reflexivity|]. split; [eexists; exact EMp|].
      rewrite SHl, Hm0.
      assert (Eb : blocks c (gh_add (post_gh g (PLow (TRun cl pc)) (VL (Err EMemory)) f) (frame_gh g f)) = []).
      { apply blocks_nil. rewrite Fg, gh_add_nil_r.
        destruct f; cbn [UpperConcInv.low_frame] in Lf; try discriminate; cbn [post_gh low_gh]; try (destruct reserved); try reflexivity;
          cbn [low_gh gh_add gh_ih gh_cr g_bl app]; reflexivity. }
      rewrite Eb, app_nil_r. apply Permutation_refl.
    - (* the lower call continues *)
      subst cl'. exists L.
      change (set_uthr (with_up st u') t (URun c (PLow (TRun cl pc')) (f :: k)))
        with (mkst u' (upd (m2_pool st) t (URun c (PLow (TRun cl pc')) (f :: k))) (m2_held st)).
      eapply WI_upd; [exact WIs|exact Ht|exact SE|exact SHP'| |].
      + eapply (m1w_upd M); [exact IM|rewrite EM; cbn; exact (eq_sym Efr)|rewrite EM; reflexivity|rewrite EM; reflexivity|exact Lt| |].
        * exists (TRun cl pc'). split; [exact EMp|left; reflexivity].
        * rewrite SHl, Hm0, (UpperConcInv.infl_upd g _ _ _ Lt), InflPC. apply Permutation_refl.
      + cbn [thr_wf_w pnorm]. split; [exact CW'|eapply twf_static; [exact SE|apply Tpc]].
    - (* "Exceeding retries" *)
      destruct SR as (-> & -> & Pu). exists L.
      destruct Cls as [(Np & _)|(fr & r & -> & Ec & ->)]; [congruence|].
      change (set_uthr (with_up st u') t (UPanic SExceedingRetries c))
        with (mkst u' (upd (m2_pool st) t (UPanic SExceedingRetries c)) (m2_held st)).
      eapply WI_upd; [exact WIs|exact Ht|exact SE|exact SHP'| |exact Logic.I].
      eapply (m1w_upd M); [exact IM|rewrite EM; cbn; exact (eq_sym Efr)|rewrite EM; reflexivity|rewrite EM; reflexivity|exact Lt| |].
      + exists (TPanic SExceedingRetries (CPut fr (r_order r))). split; [exact EMp|left; rewrite Ec; reflexivity].
      + rewrite SHl, Hm0, (UpperConcInv.infl_upd g _ _ _ Lt). cbn [inflight app]. apply Permutation_refl.
  Qed.

  (* ================= the start of a call ================= *)
  (* scope: a slot index is below the slot count of its class (or none); a put passes `check` (its block was taken out
     of the ghost `held` before the check).  change_tree: ANY matcher and ANY change, Online included. *)
  Definition call_valid2_w (u : upper) (c : ucall) : Prop :=
    call_valid_w u c /\ match c with UPut f r => check g u f r = Ok tt | _ => True end.

  Lemma start_fin L st t l c0 x :
    WI L st -> nth_error (m2_pool st) t = Some (UIdle l) -> (forall f r, c0 <> UPut f r) ->
    start_good_w g policy (m2_up st) c0 x -> (forall z, x = SCrash z -> z <> SExceedingRetries) ->
    WI L (apply_settled st t c0 x).
  Proof.
    intros WIs Ht NP SG Site. pose proof WIs as (I & SHP & F).
    assert (Lt : (t < length (m2_pool st))%nat) by (apply nth_error_Some; congruence).
    assert (Hm : nth_error (ms_pool (m1w st L)) t = Some (TIdle None)).
    { unfold m1w. cbn. rewrite nth_error_map, Ht. reflexivity. }
    assert (Hfl : flat_map (inflight g) (m2_pool st) = inflB (m2_pool st) t ++ inflA (m2_pool st) t).
    { rewrite (UpperConcInv.infl_at g _ _ _ Ht). reflexivity. }
    assert (Same : forall x', inflight g x' = [] -> (exists l', low_thr x' = TIdle l') ->
              Inv g (m1w (mkst (m2_up st) (upd (m2_pool st) t x') (m2_held st)) L)).
    { intros x' Ei (l' & El).
      eapply (m1w_upd (m1w st L)); [exact I|reflexivity|reflexivity|reflexivity|exact Lt| |].
      - exists (TIdle None). split; [cbn; symmetry; apply upd_same'; exact Hm|right; split; [eexists; reflexivity|exists l'; exact El]].
      - cbn. rewrite (UpperConcInv.infl_upd g _ _ _ Lt), Ei, Hfl. apply Permutation_refl. }
    destruct x as [p k|r|z]; cbn [start_good_w apply_settled] in *.
    - destruct SG as (CW & T & Ge & En).
      change (set_uthr st t (URun c0 p k)) with (mkst (m2_up st) (upd (m2_pool st) t (URun c0 p k)) (m2_held st)).
      assert (Eb : inflight g (URun c0 p k) = []).
      { rewrite UpperConcInv.inflight_blocks. apply blocks_nil. destruct Ge as (_ & _ & Eb). exact Eb. }
      eapply WI_upd; [exact WIs|exact Ht|apply static_refl|exact SHP| |split; [exact CW|apply twf_pnorm; exact T]].
      destruct En as [En|(f0 & r0 & E0 & _)]; [|destruct (NP _ _ E0)].
      destruct p as [i|i f0|i f0 cur j a0|i f0 cur new|cl idx f0|cl idx f0 cur new|cl idx new|th'];
        try (apply Same; [exact Eb|exists None; reflexivity]).
      destruct (En th' eq_refl) as (cl & -> & Cw & Np).
      eapply (m1w_upd (goto (m1w st L) t cl (entry_pc g cl))); [|reflexivity|reflexivity|reflexivity|exact Lt| |].
      + eapply (UpperConcInv.m1_enter_get g WF); [exact I|exact Hm|exact Cw|exact Np].
      + exists (TRun cl (entry_pc g cl)). split; [reflexivity|left; reflexivity].
      + cbn. rewrite (UpperConcInv.infl_upd g _ _ _ Lt), Eb, Hfl. apply Permutation_refl.
    - destruct SG as (NPr & Er). unfold ufinish.
      assert (Q : WI L (set_uthr st t (UIdle (Some r)))).
      { change (set_uthr st t (UIdle (Some r))) with (mkst (m2_up st) (upd (m2_pool st) t (UIdle (Some r))) (m2_held st)).
        eapply WI_upd; [exact WIs|exact Ht|apply static_refl|exact SHP| |exact Logic.I].
        apply Same; [reflexivity|exists None; reflexivity]. }
      destruct c0 as [fr rq|f rq| |m ch]; try exact Q.
      destruct r as [[a b]|e|z]; try exact Q. cbn [ret_gh] in Er. discriminate Er.
    - change (set_uthr st t (UPanic z c0)) with (mkst (m2_up st) (upd (m2_pool st) t (UPanic z c0)) (m2_held st)).
      eapply WI_upd; [exact WIs|exact Ht|apply static_refl|exact SHP| |exact Logic.I].
      apply Same; [reflexivity|exists None; apply low_thr_panic; apply Site; reflexivity].
  Qed.

  Lemma step_start_w L st t l c0 :
    WI L st -> nth_error (m2_pool st) t = Some (UIdle l) -> call_valid2_w (m2_up st) c0 ->
    WI L (fst (ustep g policy st t c0)).
  Proof.
    intros WIs Ht (V & Vp). pose proof WIs as (I & SHP & F). pose proof (proj1 SHP) as SH.
    assert (Lt : (t < length (m2_pool st))%nat) by (apply nth_error_Some; congruence).
    pose proof (start_ok g policy (m2_up st) SH c0 V) as SG.
    unfold ustep. rewrite Ht.
    destruct c0 as [fr r|f r| |m ch].
    - cbn [fst]. eapply start_fin; [exact WIs|exact Ht|discriminate|exact SG|intros z E; eapply start_site; exact E].
    - (* put *)
      destruct (client_take (m2_held st) f (r_order r)) as [h'|] eqn:Ct; cbn [fst]; [|exact WIs].
      cbn [with_held m2_up]. cbn [enter_call] in *. unfold enter_put in *. rewrite Vp in *. unfold enter_low, SETTLE in *.
      cbn [settle start_good_w apply_settled] in *.
      destruct SG as (CW & T & Ge & [En|(f0 & r0 & E0 & _ & Cw)]).
      { destruct (En _ eq_refl) as (cl & E1 & _ & Np). inversion E1; subst cl. discriminate Np. }
      inversion E0; subst f0 r0.
      assert (Hm : nth_error (ms_pool (m1w st L)) t = Some (TIdle None)).
      { unfold m1w. cbn. rewrite nth_error_map, Ht. reflexivity. }
      assert (Hfl : flat_map (inflight g) (m2_pool st) = inflB (m2_pool st) t ++ inflA (m2_pool st) t).
      { rewrite (UpperConcInv.infl_at g _ _ _ Ht). reflexivity. }
      change (set_uthr (with_held st h') t (URun (UPut f r) (PLow (TRun (CPut f (r_order r)) (entry_pc g (CPut f (r_order r))))) [KPut1 f r]))
        with (mkst (m2_up st) (upd (m2_pool st) t (URun (UPut f r) (PLow (TRun (CPut f (r_order r)) (entry_pc g (CPut f (r_order r))))) [KPut1 f r])) h').
      eapply WI_upd; [exact WIs|exact Ht|apply static_refl|exact SHP| |split; [exact CW|exact T]].
      eapply (m1w_upd (goto (set_held (m1w st L) ((h' ++ flat_map (inflight g) (m2_pool st)) ++ L)) t (CPut f (r_order r)) (entry_pc g (CPut f (r_order r)))));
        [|reflexivity|reflexivity|reflexivity|exact Lt| |].
      + eapply (UpperConcInv.m1_enter_put g WF); [exact I|exact Hm|exact Cw|]. cbn.
        apply UpperConcInv.client_take_app. apply UpperConcInv.client_take_app. exact Ct.
      + eexists. split; [reflexivity|left; reflexivity].
      + cbn. rewrite (UpperConcInv.infl_upd g _ _ _ Lt), Hfl. cbn [inflight app]. apply Permutation_refl.
    - cbn [fst]. eapply start_fin; [exact WIs|exact Ht|discriminate|exact SG|intros z E; eapply start_site; exact E].
    - cbn [fst]. eapply start_fin; [exact WIs|exact Ht|discriminate|exact SG|intros z E; eapply start_site; exact E].
  Qed.

  (* ================= every step ================= *)
  Theorem ustep_winv L st t c0 :
    WI L st -> UpperProgress.uall_ok g st -> call_valid2_w (m2_up st) c0 ->
    exists L', WI L' (fst (ustep g policy st t c0)).
  Proof.
    intros WIs UO V. destruct (nth_error (m2_pool st) t) as [[l|c p k|z c]|] eqn:Ht.
    - exists L. eapply step_start_w; eassumption.
    - destruct p; try (eapply step_access_w; [exact WIs|apply UO|exact Ht|discriminate]). eapply step_low_w; [exact WIs|apply UO|exact Ht].
    - exists L. unfold ustep. rewrite Ht. exact WIs.
    - exists L. unfold ustep. rewrite Ht. exact WIs.
  Qed.

  Lemma check_static u u' f r : static_eq u u' -> check g u' f r = check g u f r.
  Proof. intros (_ & A & B & _). unfold check. rewrite A, B. reflexivity. Qed.
  Lemma call_valid2_w_static u u' c : static_eq u u' -> call_valid2_w u c -> call_valid2_w u' c.
  Proof.
    intros SE (V & P). split.
    - destruct c as [fr r|f r| |m ch]; cbn [call_valid_w] in *; try exact V.
      + intros l len El Ec. apply (V l len El). rewrite <- (proj1 (proj2 SE)). exact Ec.
      + intros l len El Ec. apply (V l len El). rewrite <- (proj1 (proj2 SE)). exact Ec.
    - destruct c; try exact P. rewrite (check_static _ _ _ _ SE). exact P.
  Qed.

  (* schedules: every call that may be started has valid parameters with respect to the static configuration *)
  Definition sched_valid_w (u : upper) (sch : list (nat * ucall)) : Prop :=
    Forall (fun tc => call_valid2_w u (snd tc)) sch.

  Theorem urun_winv sch : forall st L, WI L st -> UpperProgress.uall_ok g st -> sched_valid_w (m2_up st) sch ->
    exists L', WI L' (urun g policy sch st).
  Proof.
    induction sch as [|[t c] sch IH]; intros st L WIs UO SV; [exists L; exact WIs|]. inversion SV as [|? ? V1 V2]; subst. cbn [snd] in V1.
    destruct (ustep_winv L st t c WIs UO V1) as (L1 & W1).
    change (urun g policy ((t, c) :: sch) st) with (urun g policy sch (fst (ustep g policy st t c))). apply (IH _ L1 W1).
    - apply (UpperProgress.uall_ok_step g policy WF). exact UO.
    - eapply Forall_impl; [|exact V2]. intros tc. apply call_valid2_w_static. apply (UpperConcInv.ustep_static g policy WF).
  Qed.

  (* ----- the initial state ----- *)
  Lemma uboot_winv u held0 n : LowerInv g (low u) -> shape u -> HeldInit g (low u) held0 -> WI [] (uboot u held0 n).
  Proof.
    intros LI SHP HH. split; [|split; [exact SHP|]].
    - replace (m1w (uboot u held0 n) []) with (boot (low u) held0 n).
      + apply (boot_inv g WF); assumption.
      + unfold m1w, boot, uboot. cbn. rewrite !app_nil_r.
        assert (E1 : map low_thr (repeat (UIdle None) n) = repeat (TIdle None) n) by (clear; induction n as [|n IHn]; cbn [repeat map low_thr]; [reflexivity|f_equal; exact IHn]).
        assert (E2 : flat_map (inflight g) (repeat (UIdle None) n) = []) by (clear; induction n as [|n IHn]; cbn [repeat flat_map inflight app]; [reflexivity|exact IHn]).
        rewrite E1, E2, app_nil_r. reflexivity.
    - cbn [uboot m2_up m2_pool]. apply Forall_forall. intros x Hx. apply repeat_spec in Hx. subst x. exact I.
  Qed.

  (* ----- C01 from the weak invariant ----- *)
  Lemma heldc_app x a b : heldc x (a ++ b) = heldc x a + heldc x b.
  Proof. unfold heldc. apply sumf_app. Qed.
  Lemma winv_held L s : WI L s -> uheld_ok s = true.
  Proof.
    intros (I & _ & _). unfold uheld_ok.
    pose proof (I_H g _ I) as Hk. cbn [m1w ms_held ms_frames] in Hk. apply Forall_app in Hk. destruct Hk as [Hk _].
    apply Forall_app in Hk. destruct Hk as [Hk _].
    apply andb_true_iff. split.
    - apply forallb_forall. intros b Hb. exact (proj1 (Forall_forall _ _) Hk b Hb).
    - apply (pairwise_from_heldc (frames (low (m2_up s)))); [exact Hk|].
      intros x Hx. pose proof (inv_heldc_le1 g WF _ I x Hx) as Q. cbn [m1w ms_held] in Q. rewrite !heldc_app in Q. lia.
  Qed.

  (* the shape follows from the sequential invariant *)
  Lemma shape_of_UpperInv u : UpperInv g policy (ustate_new u) -> shape u.
  Proof.
    intros HU. apply (UpperInv_C0 g policy) in HU. apply (UIC2_of_C g policy WF _ _ _ (lower_facts_proved g WF)) in HU.
    split; [exact (U2_ntrees g policy WF _ _ _ HU)|].
    intros c j s Hs P. destruct (U2_slot g policy WF _ _ _ c j s HU Hs P) as (A & B & _). split; assumption.
  Qed.
End Weak.

From LLF Require RecoverProofs Crash UpperOnlineRace UpperPutProofs PolicyFacts ConcInvInit.
Import RecoverProofs Crash.

(* ================================ the theorems ================================ *)
(* general form: no hypothesis on the policy, no upper accounting at the start: only the lower allocator's invariant and
   the shape of the upper state (number of trees = ceil(frames / TREE_FRAMES); the rows of present slots are in range) *)
Theorem conc_upper_winv : forall g policy u held0 n sch,
  wf_geom g -> LowerInv g (low u) -> shape g u -> HeldInit g (low u) held0 -> sched_valid_w g u sch ->
  exists L, WI g policy L (urun g policy sch (uboot u held0 n)).
Proof.
  intros g policy u held0 n sch WF LI SHP HH SV.
  apply (urun_winv g policy WF sch (uboot u held0 n) []).
  - apply uboot_winv; assumption.
  - apply (UpperProgress.uall_ok_boot g).
  - exact SV.
Qed.

(* C01 through the upper API, in EVERY interleaving of get / get_at / put / drain / change_tree (Online included) *)
Theorem conc_upper_held_weak_shape : forall g policy u held0 n sch,
  wf_geom g -> LowerInv g (low u) -> shape g u -> HeldInit g (low u) held0 -> sched_valid_w g u sch ->
  uheld_ok (urun g policy sch (uboot u held0 n)) = true.
Proof.
  intros g policy u held0 n sch WF LI SHP HH SV.
  destruct (conc_upper_winv g policy u held0 n sch WF LI SHP HH SV) as (L & W). exact (winv_held g policy WF L _ W).
Qed.

Theorem conc_upper_held_weak : forall g policy u held0 n sch,
  wf_geom g ->
  UpperInv g policy (ustate_new u) ->
  HeldInit g (low u) held0 ->
  sched_valid_w g u sch ->
  uheld_ok (urun g policy sch (uboot u held0 n)) = true.
Proof.
  intros g policy u held0 n sch WF HU HH SV.
  apply conc_upper_held_weak_shape; [exact WF|exact (proj1 HU)|apply (shape_of_UpperInv g policy WF); exact HU|exact HH|exact SV].
Qed.
Print Assumptions conc_upper_held_weak.

(* M1's invariant holds for the M1 view of every reachable M2 state, with a ghost list L of LEAKED blocks appended to the
   held list: frames a get had obtained from the lower allocator when it panicked in upper code (a failed assert /
   "Unreserve failed" caused by broken accounting): they stay allocated for ever.  (m1w s [] = m1_of s.) *)
Theorem conc_upper_m1_inv_weak : forall g policy u held0 n sch,
  wf_geom g ->
  UpperInv g policy (ustate_new u) ->
  HeldInit g (low u) held0 ->
  sched_valid_w g u sch ->
  exists L, Inv g (m1w g (urun g policy sch (uboot u held0 n)) L).
Proof.
  intros g policy u held0 n sch WF HU HH SV.
  destruct (conc_upper_winv g policy u held0 n sch WF (proj1 HU) (shape_of_UpperInv g policy WF u HU) HH SV) as (L & W).
  exists L. exact (proj1 W).
Qed.
Print Assumptions conc_upper_m1_inv_weak.

(* ... hence every reachable M2 state is a crash point (Crash.crash_safe_inv), change_tree(Online) included *)
Lemma lower_of_m1w g s L : lower_of (m1w g s L) = low (m2_up s).
Proof. unfold lower_of, m1w. cbn. destruct (low (m2_up s)); reflexivity. Qed.

Theorem conc_upper_crash_safe_weak : forall g policy u held0 n sch,
  wf_geom g ->
  UpperInv g policy (ustate_new u) ->
  HeldInit g (low u) held0 ->
  sched_valid_w g u sch ->
  let s := urun g policy sch (uboot u held0 n) in
  let l := low (m2_up s) in
  let m := lower_recover g l in
  LowerPre g l /\ LowerInv g m /\ abs g m = abs g l /\
  (* completed allocations (and blocks in the hands of in-flight gets) are still allocated and can be freed *)
  (forall f k, In (f, k) (m2_held s ++ flat_map (inflight g) (m2_pool s)) -> spec_put_enabled g (abs g m) f k = true) /\
  (* every frame allocated after recovery is held, in hand, leaked by a panicked get, or touched by an in-flight lower call *)
  exists L, forall f, N.testbit (o_alloc (abs g m)) f = true -> covered_by_held (m1w g s L) f \/ touched g (m1w g s L) f.
Proof.
  intros g policy u held0 n sch WF HU HH SV s l m.
  destruct (conc_upper_m1_inv_weak g policy u held0 n sch WF HU HH SV) as (L & I). fold s in I.
  pose proof (crash_safe_inv g WF (m1w g s L) I) as C. cbv zeta in C.
  rewrite lower_of_m1w in C. fold l in C. fold m in C.
  destruct C as (A & B & C & D & F). repeat (split; [assumption|]). split.
  - intros f k Hin. apply D. cbn [m1w ms_held]. apply in_or_app. left. exact Hin.
  - exists L. exact F.
Qed.
Print Assumptions conc_upper_crash_safe_weak.

(* ================================ non-vacuity ================================ *)
(* the schedule of UpperOnlineRace.v: thread 0 frees frame 0, thread 1 brings tree 0 "online" between the lower free and
   the counter increment.  It satisfies all hypotheses; at its end the accounting is broken (counter 2, 1 frame free:
   UpperOnlineRace.conc_online_put_double_count) and the blocks handed out are still disjoint, aligned and in range. *)
Module WeakExample.
  Import UpperOnlineRace.
  Lemma wf7 : wf_geom g7. Proof. unfold wf_geom; cbn; lia. Qed.
  Lemma inv0 : UpperInv g7 simple7 (ustate_new u0).
  Proof. apply UpperPutProofs.upper_invb_sound; [apply PolicyFacts.pol_simple_facts|]. vm_compute. reflexivity. Qed.
  Lemma held0 : HeldInit g7 (low u0) (alloc_all_held g7 256).
  Proof.
    replace (low u0) with (reserve_all g7 256) by (vm_compute; reflexivity).
    apply ConcInvInit.held_init_reserve_all. exact wf7.
  Qed.
  Lemma valid_put : call_valid2_w g7 u0 put0.
  Proof. split; [|vm_compute; reflexivity]. cbn [call_valid_w put0]. intros l len E. discriminate E. Qed.
  Lemma valid_online : call_valid2_w g7 u0 online0.
  Proof. split; exact I. Qed.
  Lemma sched_ok : sched_valid_w g7 u0 race.
  Proof.
    unfold sched_valid_w, race. apply Forall_app. split; [|apply Forall_app; split];
      apply Forall_forall; intros x Hx; apply repeat_spec in Hx; subst x; cbn [snd]; first [exact valid_put|exact valid_online].
  Qed.
  (* the race really contains an Online concurrent with a put: after the first 10 steps thread 0 is inside the put
     (between the lower free and the counter increment) when thread 1 starts the Online *)
  Example race_is_concurrent :
    In (1%nat, online0) race /\
    match nth_error (m2_pool (urun g7 simple7 (repeat (0%nat, put0) 10) (uboot u0 (alloc_all_held g7 256) 2))) 0 with
    | Some (URun (UPut _ _) _ _) => True
    | _ => False
    end.
  Proof. split; [unfold race; apply in_or_app; right; apply in_or_app; left; left; reflexivity|vm_compute; exact I]. Qed.

  Local Strategy 1000 [urun].
  Example conc_weak_instance : uheld_ok s_end = true /\ exists L, Inv g7 (m1w g7 s_end L).
  Proof.
    split.
    - exact (conc_upper_held_weak g7 simple7 u0 (alloc_all_held g7 256) 2 race wf7 inv0 held0 sched_ok).
    - exact (conc_upper_m1_inv_weak g7 simple7 u0 (alloc_all_held g7 256) 2 race wf7 inv0 held0 sched_ok).
  Qed.
End WeakExample.
