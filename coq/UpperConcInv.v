(* The invariant `UInv` of machine M2 (UpperMachine.v) and its preservation by every step of every call
   (get / get_at / put / drain / change_tree with Offline or a class change; see `call_valid2`).
   UInv o s := (o = the ghost "hidden by offline" amounts, changed only by a successful Offline: `off_next`, `grun`)
              M1's invariant `Inv` for the M1 state formed by the embedded threads (`m1_of`),
              the upper accounting `UG` = UIC2 with credit / in-hand := sums of the per-thread ghosts (`uthr_gh`),
              every thread well-formed (`thr_wf`: `twf` of UpperConcWf.v; the only panic is "Exceeding retries").
   A step = one access (per-primitive lemmas `P_*`: the sequential per-primitive lemmas of UpperConcUIC.v applied to
   the current memory, the thread's ghost being focused out of the sums) followed by the pure continuation
   (`K_settle` of UpperConcLocal.v). *)
From Coq Require Import PeanoNat Permutation.
From LLF Require Import Base Row Bitfield Lower Spec Sorted Upper UpperInvDef LowerFacts UpperPrims UpperGetLoops
  LowerMachine ConcBase ConcInvDef ConcInvStep ConcInvIdle ConcInv UpperMachine UpperConcInvDef UpperConcUIC UpperConcWf
  UpperConcLocal UpperConcM1.

Lemma crsum_nil i : crsum [] i = 0.
Proof. reflexivity. Qed.

Lemma flat_map_upd {A B} (f : A -> list B) l t x y : nth_error l t = Some x ->
  exists a b, flat_map f l = a ++ f x ++ b /\ flat_map f (upd l t y) = a ++ f y ++ b.
Proof.
  revert t. induction l as [|h r IH]; destruct t; cbn [nth_error upd flat_map]; intros H; try discriminate.
  - inversion H; subst. exists [], (flat_map f r). split; reflexivity.
  - destruct (IH t H) as (a & b & E1 & E2). exists (f h ++ a), b. rewrite E1, E2, <- !app_assoc. split; reflexivity.
Qed.

Lemma upd_same {A} (l : list A) t x : nth_error l t = Some x -> upd l t x = l.
Proof. revert t. induction l; destruct t; cbn [nth_error upd]; intros H; try discriminate; [inversion H; reflexivity|f_equal; auto]. Qed.
Lemma upd_upd {A} (l : list A) t x y : upd (upd l t x) t y = upd l t y.
Proof. revert t. induction l; destruct t; cbn [upd]; try reflexivity. f_equal. auto. Qed.
Lemma map_upd {A B} (f : A -> B) l t x : map f (upd l t x) = upd (map f l) t (f x).
Proof. revert t. induction l; destruct t; cbn [upd map]; try reflexivity. f_equal. auto. Qed.

Section Main.
  Variable g : geom.
  Variable policy : N -> N -> N -> pol.
  Hypothesis WF : wf_geom g.
  Hypothesis PR : pol_refl_match policy.
  Hypothesis PT : pol_demote_trans policy.
  Notation TF := (TF g).
  Notation UIC := (UIC2 g policy).

  (* `o` = the ghost "hidden by offline" amounts (UpperInvDef.off); only a successful Offline change_tree changes it *)
  Definition ux (o : list N) (u : upper) : ustate := {| us := u; off := o |}.
  Definition UG (o : list N) (u : upper) (gs : list ugh) : Prop := UIC (CRf gs) (IHf gs) (ux o u).
  Definition thr_wf (u : upper) (x : uthr) : Prop :=
    match x with
    | UIdle _ => True
    | URun c p k => call_wf g u c /\ twf g policy u c p k
    | UPanic z c => z = SExceedingRetries /\ exists f r, c = UPut f r
    end.
  Definition UInv (o : list N) (s : m2state) : Prop :=
    Inv g (m1_of g s) /\ UG o (m2_up s) (map (uthr_gh g) (m2_pool s)) /\ Forall (thr_wf (m2_up s)) (m2_pool s).

  (* ----- one thread's ghost focused out of the sums ----- *)
  Definition UGt (o : list N) (u : upper) (G : ugh) (cr0 : N -> N) (ih0 : list (N * N * N)) : Prop :=
    UIC (fun i => crsum (g_cr G) i + cr0 i) (g_ih G ++ ih0) (ux o u).
  Definition crR (gs : list ugh) (t : nat) : N -> N := CRf (upd gs t gh_nil).
  Definition ihR (gs : list ugh) (t : nat) : list (N * N * N) := IHf (upd gs t gh_nil).

  Lemma CRf_focus gs t G G' i : nth_error gs t = Some G -> CRf (upd gs t G') i = crsum (g_cr G') i + crR gs t i.
  Proof.
    intros H. unfold crR, CRf.
    pose proof (sumf_upd (fun x => crsum (g_cr x) i) gs t G' G H) as A.
    pose proof (sumf_upd (fun x => crsum (g_cr x) i) gs t gh_nil G H) as B. cbn [g_cr gh_nil] in B.
    rewrite crsum_nil in B. lia.
  Qed.
  Lemma IHf_focus gs t G G' : nth_error gs t = Some G -> Permutation (IHf (upd gs t G')) (g_ih G' ++ ihR gs t).
  Proof.
    unfold ihR, IHf. revert t. induction gs as [|h r IH]; destruct t; cbn [nth_error upd flat_map]; intros H; try discriminate.
    - apply Permutation_refl.
    - eapply perm_trans; [apply Permutation_app_head; exact (IH t H)|apply Permutation_app_swap_app].
  Qed.

  Lemma UG_to_t o u gs t G : nth_error gs t = Some G -> UG o u gs -> UGt o u G (crR gs t) (ihR gs t).
  Proof.
    intros H U. unfold UG in U. rewrite <- (upd_same gs t G H) in U. unfold UGt.
    eapply (U2_ext g policy WF); [|eapply (U2_perm g policy WF); [apply (IHf_focus gs t G G H)|exact U]].
    intros i. apply (CRf_focus gs t G G i H).
  Qed.
  Lemma UG_of_t o u gs t G G' : nth_error gs t = Some G -> UGt o u G' (crR gs t) (ihR gs t) -> UG o u (upd gs t G').
  Proof.
    intros H U. unfold UG. unfold UGt in U.
    eapply (U2_ext g policy WF); [|eapply (U2_perm g policy WF); [apply Permutation_sym; apply (IHf_focus gs t G G' H)|exact U]].
    intros i. symmetry. apply (CRf_focus gs t G G' i H).
  Qed.
  Lemma UGt_eq o u G G' cr0 ih0 : gh_eq G G' -> UGt o u G cr0 ih0 -> UGt o u G' cr0 ih0.
  Proof.
    intros (A & B & _) U. unfold UGt in *.
    eapply (U2_ext g policy WF); [|eapply (U2_perm g policy WF); [apply Permutation_app_tail; exact B|exact U]].
    intros i. cbv beta. rewrite (A i). reflexivity.
  Qed.

  Lemma UGt_eq' o u G G' cr0 ih0 :
    (forall i, crsum (g_cr G) i = crsum (g_cr G') i) -> Permutation (g_ih G) (g_ih G') -> UGt o u G cr0 ih0 -> UGt o u G' cr0 ih0.
  Proof.
    intros A B U. unfold UGt in *.
    eapply (U2_ext g policy WF); [|eapply (U2_perm g policy WF); [apply Permutation_app_tail; exact B|exact U]].
    intros i. cbv beta. rewrite (A i). reflexivity.
  Qed.

  Lemma UGt_split o u A F cr0 ih0 :
    UGt o u (gh_add A F) cr0 ih0 <-> UGt o u A (fun i => crsum (g_cr F) i + cr0 i) (g_ih F ++ ih0).
  Proof.
    unfold UGt, gh_add. cbn [g_cr g_ih]. rewrite <- app_assoc. split; intros U.
    - eapply (U2_ext g policy WF); [|exact U]. intros i. cbv beta. rewrite crsum_app. lia.
    - eapply (U2_ext g policy WF); [|exact U]. intros i. cbv beta. rewrite crsum_app. lia.
  Qed.

  Lemma UGt_ntrees o u G cr0 ih0 : UGt o u G cr0 ih0 -> ntrees u = ntab g (frames (low u)).
  Proof. intros U. exact (U2_ntrees g policy WF _ _ _ U). Qed.

  Section Offs.
  Variable o : list N.


  Lemma ux_set_tree u i t : mk2 (ux o u) (set_tree u i t) = ux o (set_tree u i t).
  Proof. reflexivity. Qed.
  Lemma ux_set_slot u c j s : mk2 (ux o u) (set_slot u c j s) = ux o (set_slot u c j s).
  Proof. reflexivity. Qed.
  Lemma ux_with_low u l : mk2 (ux o u) (with_low u l) = ux o (with_low u l).
  Proof. reflexivity. Qed.

  Lemma crsum_one t n i : crsum [(t, n)] i = delta i t n.
  Proof. unfold crsum, delta. cbn [sumf fold_right fst snd]. rewrite (N.eqb_sym i t). destruct (t =? i); lia. Qed.


  (* ================= tree entries ================= *)
  Lemma P_tput u i n cr0 ih0 :
    UGt o u (gh_cr i n) cr0 ih0 -> i < ntrees u ->
    exists t t', tree_at u i = Some t /\ tree_put g policy (dflt u) t n = Ok t' /\
                 UGt o (set_tree u i t') gh_nil cr0 ih0.
  Proof.
    intros U L. unfold UGt in U. cbn [gh_cr g_cr g_ih app] in U.
    destruct (trees_put g policy u i n) as [r u'] eqn:E.
    destruct (trees_put_C2 g policy WF _ (fun j => crsum [] j + cr0 j) _ (ux o u) i n r u' U L) as (Er & U' & t & t' & Et & Ep & _ & _ & Eu).
    - cbv beta. rewrite crsum_one. unfold delta. rewrite N.eqb_refl. lia.
    - intros j. cbv beta. rewrite crsum_one, crsum_nil. lia.
    - exact E.
    - exists t, t'. split; [exact Et|]. split; [exact Ep|]. cbn [us] in Eu. subst u'. rewrite ux_set_tree in U'. exact U'.
  Qed.

  Lemma P_sync u i mn t new cr0 ih0 :
    UGt o u gh_nil cr0 ih0 -> tree_at u i = Some t -> tree_sync_steal t mn = Some new ->
    UGt o (set_tree u i new) (gh_cr i (t_free t)) cr0 ih0.
  Proof.
    intros U Et Es. unfold UGt in U. cbn [gh_nil g_cr g_ih app] in U.
    pose proof (tree_at_lt _ _ _ Et) as L.
    assert (E : trees_sync (us (ux o u)) i mn = (Ok (Some (t_free t)), set_tree u i new)).
    { unfold trees_sync. cbn [us ux]. rewrite Et, Es. reflexivity. }
    destruct (trees_sync_C2 g policy WF _ _ (ux o u) i mn _ _ U L E) as [(Q & _)|(t0 & Et0 & R & M & _ & Eu & H)]; [discriminate|].
    unfold UGt. cbn [gh_cr g_cr g_ih app]. rewrite <- ux_set_tree. apply H.
    cbn [us ux] in Et0. rewrite Et in Et0. inversion Et0; subst t0.
    intros j. cbv beta. rewrite crsum_one, crsum_nil. lia.
  Qed.

  Lemma P_steal u i cl n t new cr0 ih0 :
    UGt o u gh_nil cr0 ih0 -> tree_at u i = Some t -> tree_steal policy t cl n = Some new ->
    class_slots u cl <> None ->
    UGt o (set_tree u i new) (gh_cr i n) cr0 ih0.
  Proof.
    intros U Et Es Hc. unfold UGt in U. cbn [gh_nil g_cr g_ih app] in U.
    pose proof (tree_at_lt _ _ _ Et) as L.
    assert (E : trees_steal policy (us (ux o u)) i cl n = (Ok (Some (t_class new)), set_tree u i new)).
    { unfold trees_steal. cbn [us ux]. rewrite Et, Es. reflexivity. }
    destruct (trees_steal_C2 g policy WF _ _ (ux o u) i cl n _ _ U L Hc E) as [(Q & _)|(t0 & t' & _ & _ & _ & _ & _ & _ & _ & _ & _ & H)]; [discriminate|].
    unfold UGt. cbn [gh_cr g_cr g_ih app]. rewrite <- ux_set_tree. apply H.
    intros j. cbv beta. rewrite crsum_one, crsum_nil. lia.
  Qed.

  Lemma P_ros u i cl n t new cr0 ih0 :
    UGt o u gh_nil cr0 ih0 -> tree_at u i = Some t -> tree_reserve_or_steal policy t n cl = Some new ->
    class_slots u cl <> None ->
    UGt o (set_tree u i new)
        (if t_res new then gh_add (gh_ih i (t_class new) (t_free t - n)) (gh_cr i n) else gh_cr i n) cr0 ih0.
  Proof.
    intros U Et Es Hc. unfold UGt in U. cbn [gh_nil g_cr g_ih app] in U.
    pose proof (tree_at_lt _ _ _ Et) as L.
    assert (E : trees_reserve_or_steal policy (us (ux o u)) i cl n = (Ok (Some (t_res new, t_free t, t_class new)), set_tree u i new)).
    { unfold trees_reserve_or_steal. cbn [us ux]. rewrite Et, Es. reflexivity. }
    destruct (trees_reserve_or_steal_C2 g policy WF _ _ (ux o u) i cl n _ _ PR U L Hc E)
      as [(Q & _)|(t0 & Et0 & Rf & Ln & [(Pk & Er & Eu & H)|(Pk & Er & Eu & H)])]; [discriminate| |];
      cbn [us ux] in Et0; rewrite Et in Et0; inversion Et0; subst t0; inversion Er as [[E1 E2]].
    - rewrite E1, E2. unfold UGt. cbn [gh_add gh_ih gh_cr g_cr g_ih app]. rewrite <- ux_set_tree.
      eapply (U2_ih_credit g policy WF); [exact H|]. intros j. cbv beta. rewrite crsum_one, crsum_nil.
      unfold delta. destruct (j =? i); lia.
    - rewrite E1. unfold UGt. cbn [gh_cr g_cr g_ih app]. rewrite <- ux_set_tree. apply H.
      intros j. cbv beta. rewrite crsum_one, crsum_nil. lia.
  Qed.

  Lemma P_unres u i cl a cr0 ih0 :
    UGt o u (gh_ih i cl a) cr0 ih0 ->
    exists t t', tree_at u i = Some t /\ tree_unreserve_add g policy (dflt u) t a cl = Some (Ok t') /\
                 UGt o (set_tree u i t') gh_nil cr0 ih0.
  Proof.
    intros U. unfold UGt in U. cbn [gh_ih g_cr g_ih app] in U.
    destruct (trees_unreserve g policy u i a cl) as [r u'] eqn:E.
    destruct (trees_unreserve_C2 g policy WF _ _ (ux o u) i a cl r u' U E) as (Er & U' & t & t' & Et & _ & _ & _ & Eu).
    cbn [us ux] in Et. unfold trees_unreserve in E. rewrite Et in E.
    destruct (tree_unreserve_add g policy (dflt u) t a cl) as [[t''|e|z]|] eqn:Ea; inversion E as [[E1 E2]]; try (subst r; discriminate).
    exists t, t''. split; [exact Et|]. split; [exact Ea|].
    unfold UGt. cbn [gh_nil g_cr g_ih app]. rewrite <- ux_set_tree. rewrite E2. exact U'.
  Qed.

  (* ================= local slots ================= *)
  Notation pslot_at := UpperPrims.slot_at.

  Lemma slot_idx_ok u c j s : pslot_at u c j = Some s -> idx_ok2 u c j.
  Proof.
    unfold UpperPrims.slot_at, idx_ok2. intros H l E. rewrite E in H.
    assert ((nn j < length l)%nat) by (apply nth_error_Some; congruence). unfold nn in *. lia.
  Qed.

  Lemma P_slot_in u G cr0 ih0 c j s :
    UGt o u G cr0 ih0 -> pslot_at u c j = Some s -> s_pres s = true ->
    rt g s < ntrees u /\ s_row s * 64 < frames (low u) /\ s_free s <= TF.
  Proof. intros U H P. exact (U2_slot g policy WF _ _ (ux o u) c j s U H P). Qed.

  Lemma P_sget u c j s tree n s' cr0 ih0 :
    UGt o u gh_nil cr0 ih0 -> pslot_at u c j = Some s -> slot_get g s tree n = Some s' ->
    UGt o (set_slot u c j s') (gh_cr (rt g s) n) cr0 ih0.
  Proof.
    intros U Hs Hg. destruct (slot_get_facts g _ _ _ _ Hg) as (Pr & _ & Ln & ->).
    destruct (P_slot_in _ _ _ _ _ _ _ U Hs Pr) as (L1 & L2 & L3).
    unfold UGt in *. cbn [gh_nil gh_cr g_cr g_ih app] in *. rewrite <- ux_set_slot.
    eapply (U2_slot_free g policy WF); [exact U|exact Hs|exact Pr|reflexivity|reflexivity|exact L2|cbn [s_free]; lia|].
    intros t. cbv beta. cbn [s_free]. rewrite crsum_one, crsum_nil. unfold rt, delta. destruct (t =? row_tree g (s_row s)); lia.
  Qed.

  Lemma P_sput u c j s t n cr0 ih0 :
    UGt o u (gh_cr t n) cr0 ih0 -> pslot_at u c j = Some s ->
    match slot_put g s t n with
    | None => True
    | Some (Ok s') => UGt o (set_slot u c j s') gh_nil cr0 ih0
    | Some _ => False
    end.
  Proof.
    intros U Hs. unfold UGt in U. cbn [gh_cr g_cr g_ih app] in U.
    destruct (locals_put g u c j t n) as [r u'] eqn:E.
    assert (Hn : n <= (fun i => crsum [(t, n)] i + cr0 i) t).
    { cbv beta. rewrite crsum_one. unfold delta. rewrite N.eqb_refl. lia. }
    pose proof (locals_put_C2 g policy WF _ _ (ux o u) c j t n r u' U (slot_idx_ok _ _ _ _ Hs) Hn E) as Q.
    unfold locals_put in E. cbn [us ux] in Q. unfold UpperPrims.slot_at in Hs.
    destruct (class_slots u c) as [l|]; [|discriminate]. rewrite Hs in E.
    destruct (slot_put g s t n) as [[s'|e|z]|]; [| | |exact I]; inversion E as [[E1 E2]]; subst r u'.
    - destruct Q as [(Q & _)|(_ & s0 & _ & _ & _ & Eu & H)]; [discriminate|].
      unfold UGt. cbn [gh_nil g_cr g_ih app]. rewrite <- ux_set_slot. apply H.
      intros i. cbv beta. rewrite crsum_one, crsum_nil. lia.
    - destruct Q as [(Q & _)|(Q & _)]; discriminate.
    - destruct Q as [(Q & _)|(Q & _)]; discriminate.
  Qed.

  Lemma P_sstart u G c j s row s' cr0 ih0 :
    UGt o u G cr0 ih0 -> pslot_at u c j = Some s -> slot_set_start g s row = Some s' -> row * 64 < frames (low u) ->
    UGt o (set_slot u c j s') G cr0 ih0.
  Proof.
    intros U Hs Hg Hr.
    destruct (locals_set_start g u c j row) as [r u'] eqn:E.
    destruct (locals_set_start_C2 g policy WF _ _ (ux o u) c j row r u' U (slot_idx_ok _ _ _ _ Hs) Hr E) as (_ & U' & _).
    unfold locals_set_start in E. unfold UpperPrims.slot_at in Hs.
    destruct (class_slots u c) as [l|]; [|discriminate]. rewrite Hs, Hg in E. inversion E; subst r u'.
    unfold UGt. rewrite <- ux_set_slot. exact U'.
  Qed.

  Lemma slot_gh_ih c s : g_ih (slot_gh g c s) = resv_of g c s.
  Proof. unfold slot_gh, resv_of. destruct (s_pres s); reflexivity. Qed.
  Lemma slot_gh_cr c s : g_cr (slot_gh g c s) = [].
  Proof. unfold slot_gh. destruct (s_pres s); reflexivity. Qed.

  Lemma ih_sum_in e l : In e l -> snd e <= ih_sum l.
  Proof.
    unfold ih_sum. induction l as [|a l IH]; cbn [In fold_right]; [intros []|]. intros [->|H]; [lia|specialize (IH H); lia].
  Qed.

  Lemma U2_inhand_le cr ih x t c f : UIC cr ih x -> In (t, c, f) ih -> f <= TF.
  Proof.
    intros U Hin. destruct (U2_inhand g policy WF _ _ _ _ _ _ U Hin) as (L & _).
    destruct (tree_at_some _ _ L) as (tr & Et).
    pose proof (U2_tree g policy WF _ _ _ _ _ U Et) as Ok. apply (tree_ok2_nn2 g policy WF) in Ok.
    destruct Ok as (_ & B & _). pose proof (U2_tree_free_le g policy WF _ _ _ _ U L) as Le.
    assert (Q : In (t, c, f) (ih_of ih t)) by (apply in_ih_of; split; [exact Hin|reflexivity]).
    pose proof (ih_sum_in _ _ Q) as S. cbn [snd] in S. lia.
  Qed.

  Lemma P_swap u c j old new cr0 ih0 :
    UGt o u (slot_gh g c new) cr0 ih0 -> pslot_at u c j = Some old ->
    (s_pres new = true -> s_row new * 64 < frames (low u)) ->
    UGt o (set_slot u c j new) (slot_gh g c old) cr0 ih0.
  Proof.
    intros U Hs Hr. unfold UGt in *. rewrite slot_gh_cr, slot_gh_ih in *. rewrite <- ux_set_slot.
    apply (U2_slot_xchg g policy WF); [exact Hs| |exact U].
    intros Pn. split; [exact (Hr Pn)|].
    eapply (U2_inhand_le _ _ _ (row_tree g (s_row new)) c); [exact U|]. apply in_or_app. left.
    apply in_resv_of. repeat split. exact Pn.
  Qed.

  (* the class of an in-hand reservation is demoted *)
  Lemma U2_relabel cr ih x t c c' f n :
    UIC cr ((t, c, f) :: ih) x -> policy c' c n = PDemote -> class_slots (us x) c' <> None ->
    UIC cr ((t, c', f) :: ih) x.
  Proof.
    intros (H1 & H2 & H3 & H4 & H5 & H6 & H7 & H8) Pd Hc. unfold UIC2. cbv zeta.
    split; [exact H1|]. split; [exact H2|]. split; [exact H3|]. split; [exact H4|]. split; [exact H5|]. split; [|split; [exact H7|]].
    - intros i tr Hi. destruct (H6 i tr Hi) as (A & B & C & D & F). unfold tree_ok2. cbv zeta.
      rewrite ih_of_cons in *. cbn [fst] in *.
      split; [destruct (t =? N.of_nat i); exact A|]. split; [destruct (t =? N.of_nat i); exact B|]. split; [exact C|].
      split; [exact D|]. intros c0 f0 [Q|Q] f1.
      + inversion Q; subst. eapply PT; [exact Pd|]. apply (F c f0). left. reflexivity.
      + apply (F c0 f0). right. exact Q.
    - intros t0 c0 f0 [Q|Q].
      + inversion Q; subst. split; [|exact Hc]. apply (H8 t0 c f0). left. reflexivity.
      + apply (H8 t0 c0 f0). right. exact Q.
  Qed.

  Lemma P_sgetnone u tc j s tree n s' cl cr0 ih0 :
    UGt o u gh_nil cr0 ih0 -> pslot_at u tc j = Some s -> slot_get g s tree n = Some s' ->
    policy cl tc n = PDemote -> class_slots u cl <> None ->
    UGt o (set_slot u tc j slot_none) (gh_add (gh_ih (rt g s) cl (s_free s - n)) (gh_cr (rt g s) n)) cr0 ih0.
  Proof.
    intros U Hs Hg Pd Hc. destruct (slot_get_facts g _ _ _ _ Hg) as (Pr & _ & Ln & _).
    unfold UGt in *. cbn [gh_nil gh_add gh_ih gh_cr g_cr g_ih app] in *. rewrite <- ux_set_slot.
    assert (U1 : UIC (fun i => crsum [] i + cr0 i) (resv_of g tc s ++ ih0) (mk2 (ux o u) (set_slot u tc j slot_none))).
    { apply (U2_slot_xchg g policy WF); [exact Hs|discriminate|exact U]. }
    unfold resv_of in U1. rewrite Pr in U1. cbn [app] in U1.
    eapply (U2_ih_credit g policy WF); [eapply U2_relabel; [exact U1|exact Pd|]|].
    - unfold mk2. cbn [us]. intros Q. apply Hc. apply class_slots_set_slot_none in Q. exact Q.
    - intros i. cbv beta. rewrite crsum_one, crsum_nil. unfold rt, delta. destruct (i =? row_tree g (s_row s)); lia.
  Qed.

  (* ================= what the top frame says about the primitive ================= *)
  Definition tfun_ok (u : upper) (f0 : tfun) : Prop :=
    match f0 with
    | FSteal cl _ | FRos _ cl => class_slots u cl <> None
    | FChange _ _ ch => c_op ch <> Some OpOnline /\ (forall c, c_class ch = Some c -> class_slots u c <> None)
    | _ => True
    end.
  Definition sfun_ok (u : upper) (tc : N) (f0 : sfun) (f : kframe) : Prop :=
    match f0 with
    | SGetNone _ n =>
        exists r fr i j, f = KDL1 r fr i j /\ policy (r_class r) tc n = PDemote /\ class_slots u (r_class r) <> None
    | SSetStart row => row * 64 < frames (low u)
    | _ => True
    end.
  Definition prim_ok (u : upper) (p : prim) (f : kframe) : Prop :=
    match p with
    | PLd i => i < ntrees u
    | PTL i f0 => i < ntrees u /\ tfun_ok u f0
    | PTC i f0 cur new => i < ntrees u /\ tfun_ok u f0 /\ tf_apply g policy (dflt u) f0 cur 0 = Some (Ok new)
    | PTF _ _ _ _ _ => False
    | PSL cl idx f0 => slot_ok u cl idx = true /\ sfun_ok u cl f0 f
    | PSC cl idx f0 cur new => slot_ok u cl idx = true /\ sfun_ok u cl f0 f /\ sf_apply g f0 cur = Some (Ok new)
    | PSW cl idx new => slot_ok u cl idx = true /\ (s_pres new = true -> s_row new * 64 < frames (low u))
    | PLow _ => True
    end.

  Lemma locals_slots u cl len : class_locals u cl = Some len -> class_slots u cl <> None.
  Proof. unfold class_locals. destruct (class_slots u cl); [discriminate|discriminate]. Qed.
  Lemma get_class_ok u fr r : call_wf g u (UGet fr r) -> class_slots u (r_class r) <> None.
  Proof.
    intros CW. assert (R : req_ok g u r) by (destruct fr; cbn [call_wf] in CW; [exact (proj1 CW)|exact CW]).
    destruct R as (_ & _ & len & E & _). eapply locals_slots; exact E.
  Qed.

  Ltac flat :=
    repeat match goal with
           | H : exists _, _ |- _ => destruct H
           | H : _ /\ _ |- _ => destruct H
           end.
  Ltac prims :=
    repeat match goal with
           | H : tprim _ _ _ _ _ _ |- _ => destruct H as [->|(?cur & ?new & -> & ?)]
           | H : sprim _ _ _ _ _ |- _ => destruct H as [->|(?cur & ?new & -> & ?)]
           | H : lprim _ _ |- _ => destruct H as (?pc & ->)
           end.

  Lemma twf_prim u c p f k : call_wf g u c -> twf g policy u c p (f :: k) -> prim_ok u p f.
  Proof.
    intros CW (T & _ & _). destruct f; cbn [top_wf] in T; try (destruct T; fail); unfold ros_ok in *; flat; subst; prims;
      cbn [prim_ok tfun_ok sfun_ok]; repeat split; try assumption; try exact I;
      try (eapply get_class_ok; eassumption);
      try (eapply locals_slots; eassumption);
      try (intros _; assumption);
      try (intros Q; discriminate Q);
      try (eexists _, _, _, _; split; [reflexivity|split; [assumption|eapply get_class_ok; eassumption]]);
      try (cbn [call_wf] in CW; destruct CW as [C1 C2]; first [exact C1|intros c0 E0 Q; apply (C2 c0 E0); unfold class_locals; rewrite Q; reflexivity]).
  Qed.

  Lemma top_wf_mono u c p p' f :
    (forall i f0, tprim g policy u p i f0 -> tprim g policy u p' i f0) ->
    (forall cl idx f0, sprim g p cl idx f0 -> sprim g p' cl idx f0) ->
    (forall cl, lprim p cl -> False) -> (forall a b d, p = PSW a b d -> False) -> (forall i, p = PLd i -> False) ->
    top_wf g policy u c p f -> top_wf g policy u c p' f.
  Proof.
    intros Ht Hs Hl Hw Hd T. destruct f; cbn [top_wf] in *; try (destruct T; fail); flat; subst;
      try (exfalso; eapply Hl; eassumption); try (exfalso; eapply Hw; reflexivity); try (exfalso; eapply Hd; reflexivity);
      repeat match goal with
             | |- _ /\ _ => split
             | |- exists _, _ => eexists
             end; eauto.
  Qed.

  Lemma twf_mono u c p p' f k :
    (forall i f0, tprim g policy u p i f0 -> tprim g policy u p' i f0) ->
    (forall cl idx f0, sprim g p cl idx f0 -> sprim g p' cl idx f0) ->
    (forall cl, lprim p cl -> False) -> (forall a b d, p = PSW a b d -> False) -> (forall i, p = PLd i -> False) ->
    twf g policy u c p (f :: k) -> twf g policy u c p' (f :: k).
  Proof. intros Ht Hs Hl Hw Hd (T & R). split; [eapply top_wf_mono; eassumption|exact R]. Qed.

  Lemma tree_eqb_true a b : tree_eqb a b = true -> a = b.
  Proof.
    unfold tree_eqb. destruct a, b. cbn. intros H.
    apply andb_true_iff in H. destruct H as [H H3]. apply andb_true_iff in H. destruct H as [H1 H2].
    apply N.eqb_eq in H1, H3. apply Bool.eqb_prop in H2. subst. reflexivity.
  Qed.
  Lemma slot_eqb_true a b : slot_eqb a b = true -> a = b.
  Proof.
    unfold slot_eqb. destruct a, b. cbn. intros H.
    apply andb_true_iff in H. destruct H as [H H3]. apply andb_true_iff in H. destruct H as [H1 H2].
    apply N.eqb_eq in H2, H3. apply Bool.eqb_prop in H1. subst. reflexivity.
  Qed.

  (* evaluating a tree closure on the value just read *)
  Lemma P_tu u i f0 t cr0 ih0 :
    UGt o u (tf_gh i f0) cr0 ih0 -> i < ntrees u -> tfun_ok u f0 -> tree_at u i = Some t ->
    match tu_eval g policy u i f0 t with
    | OStay p' => exists new, p' = PTC i f0 t new /\ tf_apply g policy (dflt u) f0 t 0 = Some (Ok new)
    | OVal v => v = VT false t t /\ tf_apply g policy (dflt u) f0 t 0 = None /\ (forall a cl, f0 <> FUnres a cl)
    | OCrash _ => False
    end.
  Proof.
    intros U L Tf Et. unfold tu_eval.
    assert (Nf : needs_fetch f0 t = false).
    { destruct f0 as [| | | |mc mf ch|]; cbn [tfun_ok needs_fetch] in *; try reflexivity. destruct Tf as [No _].
      destruct (c_op ch) as [[|]|]; rewrite ?andb_false_r; try reflexivity. destruct (No eq_refl). }
    rewrite Nf. destruct f0 as [mn|cl n|n cl|a cl|mc mf ch|n]; cbn [tf_apply tf_gh tfun_ok] in *.
    - destruct (tree_sync_steal t mn); cbn [option_map]; [eexists; split; reflexivity|]. repeat split; discriminate.
    - destruct (tree_steal policy t cl n); cbn [option_map]; [eexists; split; reflexivity|]. repeat split; discriminate.
    - destruct (tree_reserve_or_steal policy t n cl); cbn [option_map]; [eexists; split; reflexivity|]. repeat split; discriminate.
    - destruct (P_unres _ _ _ _ _ _ U) as (t0 & t' & Et0 & Ea & _). rewrite Et in Et0. inversion Et0; subst t0.
      rewrite Ea. eexists; split; reflexivity.
    - destruct (tree_apply_change t mc mf ch 0); cbn [option_map]; [eexists; split; reflexivity|]. repeat split; discriminate.
    - destruct (P_tput _ _ _ _ _ U L) as (t0 & t' & Et0 & Ea & _). rewrite Et in Et0. inversion Et0; subst t0.
      rewrite Ea. eexists; split; reflexivity.
  Qed.

  (* evaluating a slot closure *)
  Lemma P_su u cl idx f0 s cr0 ih0 :
    UGt o u (sf_gh f0) cr0 ih0 -> UpperPrims.slot_at u cl idx = Some s ->
    match su_eval g cl idx f0 s with
    | OStay p' => exists new, p' = PSC cl idx f0 s new /\ sf_apply g f0 s = Some (Ok new)
    | OVal v => v = UpperMachine.VS false s s /\ sf_apply g f0 s = None
    | OCrash _ => False
    end.
  Proof.
    intros U Hs. unfold su_eval. destruct f0 as [tree n|tree n|t n|row]; cbn [sf_apply sf_gh] in *.
    - destruct (slot_get g s tree n); cbn [option_map]; [eexists; split; reflexivity|split; reflexivity].
    - destruct (slot_get g s tree n); cbn [option_map]; [eexists; split; reflexivity|split; reflexivity].
    - pose proof (P_sput _ _ _ _ _ _ _ _ U Hs) as Q. destruct (slot_put g s t n) as [[s'|e|z]|]; try (destruct Q; fail).
      + eexists; split; reflexivity.
      + split; reflexivity.
    - destruct (slot_set_start g s row); cbn [option_map]; [eexists; split; reflexivity|split; reflexivity].
  Qed.

  Lemma slot_at_eq u c j : UpperMachine.slot_at u c j = UpperPrims.slot_at u c j.
  Proof. reflexivity. Qed.
  Lemma slot_ok_some u c j : slot_ok u c j = true -> exists s, UpperPrims.slot_at u c j = Some s.
  Proof.
    unfold slot_ok, class_locals, UpperPrims.slot_at. destruct (class_slots u c) as [l|]; cbn [option_map]; [|discriminate].
    intros H. apply N.ltb_lt in H. destruct (nth_error l (nn j)) eqn:E; [eexists; reflexivity|].
    apply nth_error_None in E. unfold nn in E. lia.
  Qed.

  (* ================= the ghost `off`: changed by a successful Offline only ================= *)
  Definition off_upd (ch : tree_change) (i : N) (t : tree) : list N :=
    match c_op ch with Some OpOffline => upd o (nn i) (nth (nn i) o 0 + t_free t) | _ => o end.
  Definition off_next (u : upper) (p : prim) : list N :=
    match p with
    | PTC i (FChange _ _ ch) cur _ =>
        match tree_at u i with
        | Some t => if tree_eqb t cur then off_upd ch i cur else o
        | None => o
        end
    | _ => o
    end.
  Lemma off_next_fail u i f0 t cur new : tree_at u i = Some t -> tree_eqb t cur = false -> off_next u (PTC i f0 cur new) = o.
  Proof. intros Et Eq. destruct f0; cbn [off_next]; try reflexivity. rewrite Et, Eq. reflexivity. Qed.

  Lemma nth_upd_same {A} (l : list A) k x d : (k < length l)%nat -> nth k (upd l k x) d = x.
  Proof. revert k. induction l as [|a l IH]; intros k L; cbn [length] in L; [lia|]. destruct k; cbn [upd nth]; [reflexivity|]. apply IH. lia. Qed.
  Lemma nth_upd_other {A} (l : list A) k j x d : j <> k -> nth j (upd l k x) d = nth j l d.
  Proof. revert k j. induction l as [|a l IH]; intros k j N; destruct k, j; cbn [upd nth]; try reflexivity; try lia. apply IH. lia. Qed.

  Lemma P_change u i mc mf ch t new cr0 ih0 :
    UGt o u gh_nil cr0 ih0 -> tree_at u i = Some t -> tree_apply_change t mc mf ch 0 = Some new ->
    tfun_ok u (FChange mc mf ch) ->
    UGt (off_upd ch i t) (set_tree u i new) gh_nil cr0 ih0.
  Proof.
    intros U Et Ea (No & Hc). unfold UGt in *. cbn [gh_nil g_cr g_ih app] in *.
    pose proof (tree_at_lt _ _ _ Et) as L.
    assert (Lo : (nn i < length o)%nat).
    { destruct U as (_ & _ & H3 & _). cbn [ux off us] in H3. rewrite H3. unfold ntrees in L. unfold nn. lia. }
    pose proof (U2_tree g policy WF _ _ _ _ _ U Et) as Ok0. cbn [ux us off] in Ok0.
    unfold tree_apply_change in Ea.
    destruct (negb (t_res t) && match mc with Some k => k =? t_class t | None => true end && (mf <=? t_free t)) eqn:Ec; [|discriminate].
    apply andb_true_iff in Ec. destruct Ec as [Ec _]. apply andb_true_iff in Ec. destruct Ec as [Rf _]. apply negb_true_iff in Rf.
    assert (Cls : class_slots u (match c_class ch with Some c => c | None => t_class t end) <> None).
    { destruct (c_class ch) as [c0|] eqn:Ecc; [apply (Hc c0 eq_refl)|]. destruct Ok0 as (_ & _ & C & _). exact C. }
    change (ux (off_upd ch i t) (set_tree u i new)) with {| us := set_tree (us (ux o u)) i new; off := off_upd ch i t |}.
    eapply (U2_set_tree_off g policy WF _ _ _ _ (ux o u) i t new); [exact U|exact Et| | |reflexivity|reflexivity| |].
    - unfold off_upd. destruct (c_op ch) as [[|]|]; [reflexivity| |reflexivity]. cbn [ux off]. apply upd_length.
    - intros k0 Nk. unfold off_upd. destruct (c_op ch) as [[|]|]; [reflexivity| |reflexivity]. cbn [ux off]. apply nth_upd_other. exact Nk.
    - cbn [ux us off]. unfold off_upd.
      destruct (c_op ch) as [[|]|] eqn:Eo.
      + destruct (No eq_refl).
      + inversion Ea; subst new. eapply (ok2_unres g policy WF); [exact Ok0|exact Rf|exact Rf|exact Cls|].
        cbn [t_free]. rewrite nth_upd_same by exact Lo. lia.
      + inversion Ea; subst new. eapply (ok2_unres g policy WF); [exact Ok0|exact Rf|exact Rf|exact Cls|]. reflexivity.
    - intros t0 c0 f0 Hin. exact (U2_inhand g policy WF _ _ _ _ _ _ U Hin).
  Qed.

  (* ================= one access of a tree / slot primitive ================= *)
  Lemma P_access u c p f k cr0 ih0 :
    call_wf g u c -> twf g policy u c p (f :: k) -> (forall th, p <> PLow th) ->
    UGt o u (pk_gh g p (f :: k)) cr0 ih0 ->
    static_eq u (fst (fst (prim_step g policy u p))) /\ low (fst (fst (prim_step g policy u p))) = low u /\
    match snd (prim_step g policy u p) with
    | OStay p' => fst (fst (prim_step g policy u p)) = u /\ twf g policy u c p' (f :: k) /\
                  pk_gh g p' (f :: k) = pk_gh g p (f :: k) /\ (forall th, p' <> PLow th) /\ off_next u p = o
    | OVal v => vfacts g policy u p v /\
                UGt (off_next u p) (fst (fst (prim_step g policy u p))) (gh_add (post_gh g p v f) (frame_gh g f)) cr0 ih0
    | OCrash _ => False
    end.
  Proof.
    intros CW T NL U. pose proof (twf_prim _ _ _ _ _ CW T) as PO.
    assert (PS : pas_stack u c (lvl f) k) by (destruct T as (_ & PS & _); exact PS).
    rewrite (pk_gh_top g policy u c p f k _ PS) in U. apply UGt_split in U.
    set (cr1 := fun i => crsum (g_cr (frame_gh g f)) i + cr0 i) in *. set (ih1 := g_ih (frame_gh g f) ++ ih0) in *.
    destruct p as [i|i f0|i f0 cur j a|i f0 cur new|cl idx f0|cl idx f0 cur new|cl idx new|th]; cbn [prim_ok] in PO;
      [| |destruct PO| | | | |destruct (NL th eq_refl)].
    - (* PLd *)
      destruct (tree_at_some _ _ PO) as (t & Et). cbn [prim_step]. rewrite Et. cbn [fst snd].
      split; [apply static_refl|]. split; [reflexivity|]. split; [exists t; reflexivity|].
      cbn [off_next]. apply UGt_split. exact U.
    - (* PTL *)
      destruct PO as (L & Tf). destruct (tree_at_some _ _ L) as (t & Et). cbn [prim_step]. rewrite Et. cbn [fst snd].
      split; [apply static_refl|]. split; [reflexivity|].
      pose proof (P_tu _ _ _ _ _ _ U L Tf Et) as Q. destruct (tu_eval g policy u i f0 t) as [p'|v|z]; [| |exact Q].
      + destruct Q as (new & -> & Ea). split; [reflexivity|]. split; [|split; [reflexivity|split; [discriminate|try reflexivity; eapply off_next_fail; eassumption]]].
        eapply twf_mono; [| | | | |exact T].
        * intros i' f' [H|(? & ? & H & _)]; inversion H; subst. right. eexists _, _. split; [reflexivity|exact Ea].
        * intros ? ? ? [H|(? & ? & H & _)]; discriminate H.
        * intros ? (? & H). discriminate H.
        * intros ? ? ? H. discriminate H.
        * intros ? H. discriminate H.
      + destruct Q as (-> & Ea & Nu). split.
        * cbn [vfacts]. exists false, t, t. split; [reflexivity|]. split; [exact Ea|]. intros a cl E. destruct (Nu _ _ E).
        * try rewrite (off_next_fail _ _ _ _ _ _ Et Eq); cbn [off_next]; apply UGt_split; cbn [post_gh]; exact U.
    - (* PTC *)
      destruct PO as (L & Tf & Ea0). destruct (tree_at_some _ _ L) as (t & Et). cbn [prim_step]. rewrite Et.
      destruct (tree_eqb t cur) eqn:Eq; cbn [fst snd].
      + pose proof Eq as Eq'. apply tree_eqb_true in Eq. subst t.
        split; [apply static_set_tree|]. split; [reflexivity|]. split.
        * cbn [vfacts]. exists true, cur, new. split; [reflexivity|]. split; [exact Ea0|]. reflexivity.
        * apply UGt_split. fold cr1 ih1. cbn [post_gh prim_gh] in *.
          destruct f0 as [mn|cl n|n cl|a cl|mc mf ch|n]; cbn [tf_apply tf_gh tfun_ok off_next] in *.
          -- destruct (tree_sync_steal cur mn) as [x|] eqn:Es; cbn [option_map] in Ea0; inversion Ea0; subst x.
             eapply P_sync; eassumption.
          -- destruct (tree_steal policy cur cl n) as [x|] eqn:Es; cbn [option_map] in Ea0; inversion Ea0; subst x.
             eapply P_steal; eassumption.
          -- destruct (tree_reserve_or_steal policy cur n cl) as [x|] eqn:Es; cbn [option_map] in Ea0; inversion Ea0; subst x.
             eapply P_ros; eassumption.
          -- destruct (P_unres _ _ _ _ _ _ U) as (t0 & t' & Et0 & Ea & U'). rewrite Et in Et0. inversion Et0; subst t0.
             rewrite Ea0 in Ea. inversion Ea; subst t'. exact U'.
          -- rewrite Et, Eq'. destruct (tree_apply_change cur mc mf ch 0) as [x|] eqn:Es; cbn [option_map] in Ea0; inversion Ea0; subst x.
             eapply P_change; eassumption.
          -- destruct (P_tput _ _ _ _ _ U L) as (t0 & t' & Et0 & Ea & U'). rewrite Et in Et0. inversion Et0; subst t0.
             rewrite Ea in Ea0. inversion Ea0; subst t'. exact U'.
      + split; [apply static_refl|]. split; [reflexivity|].
        pose proof (P_tu _ _ _ _ _ _ U L Tf Et) as Q. destruct (tu_eval g policy u i f0 t) as [p'|v|z]; [| |exact Q].
        * destruct Q as (new' & -> & Ea). split; [reflexivity|]. split; [|split; [reflexivity|split; [discriminate|try reflexivity; eapply off_next_fail; eassumption]]].
          eapply twf_mono; [| | | | |exact T].
          -- intros i' f' [H|(? & ? & H & _)]; inversion H; subst. right. eexists _, _. split; [reflexivity|exact Ea].
          -- intros ? ? ? [H|(? & ? & H & _)]; discriminate H.
          -- intros ? (? & H). discriminate H.
          -- intros ? ? ? H. discriminate H.
          -- intros ? H. discriminate H.
        * destruct Q as (-> & Ea & Nu). split.
          -- cbn [vfacts]. exists false, t, t. split; [reflexivity|]. split; [exact Ea|]. intros a cl E. destruct (Nu _ _ E).
          -- try rewrite (off_next_fail _ _ _ _ _ _ Et Eq); cbn [off_next]; apply UGt_split; cbn [post_gh]; exact U.
    - (* PSL *)
      destruct PO as (So & Sf). destruct (slot_ok_some _ _ _ So) as (s & Hs). cbn [prim_step]. rewrite slot_at_eq, Hs. cbn [fst snd].
      split; [apply static_refl|]. split; [reflexivity|].
      pose proof (P_su _ _ _ _ _ _ _ U Hs) as Q. destruct (su_eval g cl idx f0 s) as [p'|v|z]; [| |exact Q].
      + destruct Q as (new & -> & Ea). split; [reflexivity|]. split; [|split; [reflexivity|split; [discriminate|try reflexivity; eapply off_next_fail; eassumption]]].
        eapply twf_mono; [| | | | |exact T].
        * intros ? ? [H|(? & ? & H & _)]; discriminate H.
        * intros ? ? ? [H|(? & ? & H & _)]; inversion H; subst. right. eexists _, _. split; [reflexivity|exact Ea].
        * intros ? (? & H). discriminate H.
        * intros ? ? ? H. discriminate H.
        * intros ? H. discriminate H.
      + destruct Q as (-> & Ea). split.
        * cbn [vfacts]. exists false, s, s. split; [reflexivity|]. split; [|exact Ea].
          intros Pr. exact (P_slot_in _ _ _ _ _ _ _ U Hs Pr).
        * try rewrite (off_next_fail _ _ _ _ _ _ Et Eq); cbn [off_next]; apply UGt_split; cbn [post_gh]; exact U.
    - (* PSC *)
      destruct PO as (So & Sf & Ea0). destruct (slot_ok_some _ _ _ So) as (s & Hs). cbn [prim_step]. rewrite slot_at_eq, Hs.
      destruct (slot_eqb s cur) eqn:Eq; cbn [fst snd].
      + apply slot_eqb_true in Eq. subst s.
        split; [apply static_set_slot|]. split; [apply set_slot_low|]. split.
        * cbn [vfacts]. exists true, cur, new. split; [reflexivity|]. split; [|exact Ea0].
          intros Pr. exact (P_slot_in _ _ _ _ _ _ _ U Hs Pr).
        * cbn [off_next]. apply UGt_split. fold cr1 ih1. cbn [post_gh prim_gh] in *.
          destruct f0 as [tree n|tree n|t n|row]; cbn [sf_apply sf_gh sfun_ok] in *.
          -- destruct (slot_get g cur tree n) as [x|] eqn:Es; cbn [option_map] in Ea0; inversion Ea0; subst x.
             eapply P_sget; eassumption.
          -- destruct (slot_get g cur tree n) as [x|] eqn:Es; cbn [option_map] in Ea0; inversion Ea0; subst new.
             destruct Sf as (r & fr & i0 & j0 & -> & Pd & Hc). eapply P_sgetnone; eassumption.
          -- pose proof (P_sput _ _ _ _ _ _ _ _ U Hs) as Q. rewrite Ea0 in Q. exact Q.
          -- destruct (slot_set_start g cur row) as [x|] eqn:Es; cbn [option_map] in Ea0; inversion Ea0; subst x.
             eapply P_sstart; eassumption.
      + split; [apply static_refl|]. split; [reflexivity|].
        pose proof (P_su _ _ _ _ _ _ _ U Hs) as Q. destruct (su_eval g cl idx f0 s) as [p'|v|z]; [| |exact Q].
        * destruct Q as (new' & -> & Ea). split; [reflexivity|]. split; [|split; [reflexivity|split; [discriminate|try reflexivity; eapply off_next_fail; eassumption]]].
          eapply twf_mono; [| | | | |exact T].
          -- intros ? ? [H|(? & ? & H & _)]; discriminate H.
          -- intros ? ? ? [H|(? & ? & H & _)]; inversion H; subst. right. eexists _, _. split; [reflexivity|exact Ea].
          -- intros ? (? & H). discriminate H.
          -- intros ? ? ? H. discriminate H.
          -- intros ? H. discriminate H.
        * destruct Q as (-> & Ea). split.
          -- cbn [vfacts]. exists false, s, s. split; [reflexivity|]. split; [|exact Ea].
             intros Pr. exact (P_slot_in _ _ _ _ _ _ _ U Hs Pr).
          -- try rewrite (off_next_fail _ _ _ _ _ _ Et Eq); cbn [off_next]; apply UGt_split; cbn [post_gh]; exact U.
    - (* PSW *)
      destruct PO as (So & Hr). destruct (slot_ok_some _ _ _ So) as (s & Hs). cbn [prim_step]. rewrite slot_at_eq, Hs. cbn [fst snd].
      split; [apply static_set_slot|]. split; [apply set_slot_low|]. split.
      + cbn [vfacts]. exists s. split; [reflexivity|]. intros Pr. exact (P_slot_in _ _ _ _ _ _ _ U Hs Pr).
      + cbn [off_next]. apply UGt_split. fold cr1 ih1. cbn [post_gh prim_gh] in *. eapply P_swap; eassumption.
  Qed.

  (* ================= the embedded M1 state ================= *)
  Lemma client_take_app h r f k h' : client_take h f k = Some h' -> client_take (h ++ r) f k = Some (h' ++ r).
  Proof.
    revert h'. induction h as [|[F K] h IH]; intros h'; cbn [client_take app]; [discriminate|].
    destruct (blk_in f k F K).
    - intros H; inversion H; subst. rewrite <- app_assoc. reflexivity.
    - destruct (client_take h f k) as [x|]; [|discriminate]. intros H; inversion H; subst.
      rewrite (IH x eq_refl). reflexivity.
  Qed.

  (* an idle M1 thread starts a get / get_at *)
  Lemma m1_enter_get m t l cl :
    Inv g m -> nth_error (ms_pool m) t = Some (TIdle l) -> cwf g (ms_frames m) cl = true -> is_put cl = false ->
    Inv g (goto m t cl (entry_pc g cl)).
  Proof.
    intros I Ht Cw Np. pose proof (step_inv g WF m t cl I) as S. unfold mstep in S. rewrite Ht in S.
    rewrite (call_ok_cwf g), Cw in S. destruct cl; try discriminate; exact S.
  Qed.
  (* ... a put of a block the client holds *)
  Lemma m1_enter_put m t l f k h' :
    Inv g m -> nth_error (ms_pool m) t = Some (TIdle l) -> cwf g (ms_frames m) (CPut f k) = true ->
    client_take (ms_held m) f k = Some h' ->
    Inv g (goto (set_held m h') t (CPut f k) (entry_pc g (CPut f k))).
  Proof.
    intros I Ht Cw Ct. pose proof (step_inv g WF m t (CPut f k) I) as S. unfold mstep in S. rewrite Ht in S.
    rewrite (call_ok_cwf g), Cw, Ct in S. exact S.
  Qed.

  (* the blocks in flight of a thread *)
  Lemma prim_gh_bl p top : (forall th, p <> PLow th) -> g_bl (prim_gh g p top) = [].
  Proof.
    intros N. destruct p as [i|i f0|i f0 ? ? ?|i f0 ? ?|? ? f0|? ? f0 ? ?|cl ? nw|th]; cbn [prim_gh];
      try reflexivity; try (destruct f0; reflexivity).
    - unfold slot_gh. destruct (s_pres nw); reflexivity.
    - destruct (N th eq_refl).
  Qed.
  Lemma low_gh_bl h top : g_bl (low_gh g h top) = [].
  Proof. destruct top as [f|]; [|reflexivity]. destruct f; try reflexivity. cbn [low_gh]. destruct reserved; reflexivity. Qed.
  Lemma post_gh_bl p v f : (forall th, p <> PLow th) -> g_bl (post_gh g p v f) = [].
  Proof.
    intros N. destruct p as [i|i f0|i f0 ? ? ?|i f0 ? ?|? ? f0|? ? f0 ? ?|cl ? nw|th]; [| | | | | | |destruct (N th eq_refl)];
      destruct v as [ok old nw'|ok old nw'|x|x|x]; cbn [post_gh]; try reflexivity;
      try (destruct ok; destruct f0; try reflexivity).
    - destruct (t_res nw'); reflexivity.
    - destruct (t_res nw'); reflexivity.
    - destruct (t_res nw'); reflexivity.
    - destruct f; reflexivity.
    - destruct f; reflexivity.
    - unfold slot_gh. destruct (s_pres old); reflexivity.
  Qed.

  (* ================= assembling a step ================= *)
  Definition mkst (u : upper) (pool : list uthr) (H : list (N * nat)) : m2state :=
    {| m2_up := u; m2_pool := pool; m2_held := H |}.

  Lemma thr_wf_static u u' x : static_eq u u' -> thr_wf u x -> thr_wf u' x.
  Proof.
    intros SE. destruct x as [l|c p k|z c]; cbn [thr_wf]; [tauto| |tauto].
    intros [A B]. split; [eapply call_wf_static; eassumption|eapply twf_static; eassumption].
  Qed.

  Lemma UInv_upd o' s t x0 u' x' H' :
    UInv o s -> nth_error (m2_pool s) t = Some x0 -> static_eq (m2_up s) u' ->
    Inv g (m1_of g (mkst u' (upd (m2_pool s) t x') H')) ->
    UGt o' u' (uthr_gh g x') (crR (map (uthr_gh g) (m2_pool s)) t) (ihR (map (uthr_gh g) (m2_pool s)) t) ->
    thr_wf u' x' ->
    UInv o' (mkst u' (upd (m2_pool s) t x') H').
  Proof.
    intros (I & U & F) Ht SE I' U' W'. split; [exact I'|]. split.
    - cbn [mkst m2_up m2_pool]. rewrite map_upd. eapply UG_of_t; [|exact U'].
      rewrite nth_error_map, Ht. reflexivity.
    - cbn [mkst m2_up m2_pool]. apply Forall_upd; [|exact W'].
      eapply Forall_impl; [|exact F]. intros x. apply thr_wf_static. exact SE.
  Qed.

  (* the M1 state of an updated M2 state, from an M1 state M that differs at thread t by the content of an idle
     thread and in the order of the held blocks *)
  Lemma m1_of_upd M u' pool t x' H' :
    Inv g M ->
    ms_frames M = frames (low u') -> ms_ents M = ents (low u') -> ms_bfs M = bfs (low u') ->
    (t < length pool)%nat ->
    (exists yM, ms_pool M = upd (map low_thr pool) t yM /\
                (yM = low_thr x' \/ (exists l, yM = TIdle l) /\ exists l', low_thr x' = TIdle l')) ->
    Permutation (ms_held M) (H' ++ flat_map (inflight g) (upd pool t x')) ->
    Inv g (m1_of g (mkst u' (upd pool t x') H')).
  Proof.
    intros I E1 E2 E3 Lt (yM & Ep & Hy) Pm.
    assert (Lt' : (t < length (map low_thr pool))%nat) by (rewrite map_length; exact Lt).
    assert (I1 : Inv g (set_thr M t (low_thr x'))).
    { destruct Hy as [->|((l & ->) & (l' & El))].
      - replace (set_thr M t (low_thr x')) with M; [exact I|]. destruct M. unfold set_thr. cbn in *.
        f_equal. rewrite Ep, upd_upd. reflexivity.
      - rewrite El. eapply (Inv_idle_irrel g WF); [exact I|]. rewrite Ep. apply nth_error_upd_same. exact Lt'. }
    pose proof (Inv_held_perm g WF _ _ I1 Pm) as I2.
    replace (m1_of g (mkst u' (upd pool t x') H')) with (set_held (set_thr M t (low_thr x')) (H' ++ flat_map (inflight g) (upd pool t x'))); [exact I2|].
    unfold m1_of, set_held, set_thr, mkst. cbn.
    rewrite E1, E2, E3, Ep, upd_upd, map_upd. reflexivity.
  Qed.


  Definition blocks (c : ucall) (G : ugh) : list (N * nat) :=
    match c with UGet _ r => map (fun fr => (fr, r_order r)) (g_bl G) | _ => [] end.
  Lemma inflight_blocks c p k : inflight g (URun c p k) = blocks c (pk_gh g p k).
  Proof. destruct c; reflexivity. Qed.

  (* in-flight blocks of the threads before / after thread t *)
  Definition inflB (pool : list uthr) (t : nat) : list (N * nat) := flat_map (inflight g) (firstn t pool).
  Definition inflA (pool : list uthr) (t : nat) : list (N * nat) := flat_map (inflight g) (skipn (S t) pool).
  Lemma infl_upd pool t y : (t < length pool)%nat ->
    flat_map (inflight g) (upd pool t y) = inflB pool t ++ inflight g y ++ inflA pool t.
  Proof.
    unfold inflB, inflA. revert t. induction pool as [|h r IH]; intros t L; cbn [length] in L; [lia|].
    destruct t; cbn [upd flat_map firstn skipn app]; [reflexivity|]. rewrite (IH t ltac:(lia)), <- app_assoc. reflexivity.
  Qed.
  Lemma infl_at pool t x : nth_error pool t = Some x ->
    flat_map (inflight g) pool = inflB pool t ++ inflight g x ++ inflA pool t.
  Proof.
    intros H. rewrite <- (upd_same pool t x H) at 1. apply infl_upd. apply nth_error_Some. congruence.
  Qed.

  (* the state right after the access of thread t: memory u', the thread's ghost G, thread t idle in M1 *)
  Definition mid (o' : list N) (st : m2state) (t : nat) (c : ucall) (u' : upper) (G : ugh) : Prop :=
    static_eq (m2_up st) u' /\
    UGt o' u' G (crR (map (uthr_gh g) (m2_pool st)) t) (ihR (map (uthr_gh g) (m2_pool st)) t) /\
    exists M, Inv g M /\ ms_frames M = frames (low u') /\ ms_ents M = ents (low u') /\ ms_bfs M = bfs (low u') /\
              (exists l, ms_pool M = upd (map low_thr (m2_pool st)) t (TIdle l)) /\
              Permutation (ms_held M)
                (m2_held st ++ (inflB (m2_pool st) t ++ inflA (m2_pool st) t) ++ blocks c G).

  Lemma perm_mid {A} (H a b B : list A) : Permutation (H ++ (a ++ b) ++ B) (H ++ a ++ B ++ b).
  Proof.
    apply Permutation_app_head. rewrite <- app_assoc. apply Permutation_app_head. apply Permutation_app_comm.
  Qed.

  Lemma finish_step o' st t x0 c u' G x :
    UInv o st -> nth_error (m2_pool st) t = Some x0 -> mid o' st t c u' G -> call_wf g u' c ->
    good g policy u' c G x ->
    UInv o' (apply_settled (with_up st u') t c x).
  Proof.
    intros UI Ht (SE & UGm & M & IM & E1 & E2 & E3 & (l & Ep) & Pm) CW Gd.
    assert (Lt : (t < length (m2_pool st))%nat) by (apply nth_error_Some; congruence).
    assert (Lt' : (t < length (map low_thr (m2_pool st)))%nat) by (rewrite map_length; exact Lt).
    destruct x as [p' k'|r|z]; cbn [good apply_settled] in *; [| |destruct Gd].
    - (* the call continues *)
      destruct Gd as (T & Ge & En).
      change (set_uthr (with_up st u') t (URun c p' k')) with (mkst u' (upd (m2_pool st) t (URun c p' k')) (m2_held st)).
      assert (Pm' : Permutation (ms_held M) (m2_held st ++ flat_map (inflight g) (upd (m2_pool st) t (URun c p' k')))).
      { rewrite (infl_upd _ _ _ Lt), inflight_blocks. destruct Ge as (_ & _ & Eb).
        replace (blocks c (pk_gh g p' k')) with (blocks c G) by (unfold blocks; rewrite Eb; reflexivity).
        eapply perm_trans; [exact Pm|apply perm_mid]. }
      eapply UInv_upd; [exact UI|exact Ht|exact SE| | |split; assumption].
      + destruct p' as [i|i f0|i f0 cur j a0|i f0 cur new|cl idx f0|cl idx f0 cur new|cl idx new|th'];
          try (eapply (m1_of_upd M); [exact IM|exact E1|exact E2|exact E3|exact Lt| |exact Pm'];
               exists (TIdle l); split; [exact Ep|]; right; split; [eexists; reflexivity|exists None; reflexivity]).
        destruct (En th' eq_refl) as (cl & -> & Cw & Np).
        assert (IM2 : Inv g (goto M t cl (entry_pc g cl))).
        { eapply m1_enter_get; [exact IM| |rewrite E1; exact Cw|exact Np]. rewrite Ep. apply nth_error_upd_same. exact Lt'. }
        eapply (m1_of_upd (goto M t cl (entry_pc g cl))); [exact IM2|exact E1|exact E2|exact E3|exact Lt| |exact Pm'].
        exists (TRun cl (entry_pc g cl)). split; [|left; reflexivity].
        unfold goto, set_thr. cbn. rewrite Ep, upd_upd. reflexivity.
      + eapply UGt_eq'; [| |exact UGm]; destruct Ge as (A & B & _).
        * intros i. symmetry. apply A.
        * apply Permutation_sym. exact B.
    - (* the call returns *)
      destruct Gd as (NP & Ge). destruct Ge as (A & B & Eb).
      assert (Ug : UGt o' u' gh_nil (crR (map (uthr_gh g) (m2_pool st)) t) (ihR (map (uthr_gh g) (m2_pool st)) t)).
      { eapply UGt_eq'; [| |exact UGm].
        - intros i. rewrite <- (A i). destruct c, r as [[? ?]|?|?]; reflexivity.
        - eapply perm_trans; [apply Permutation_sym; exact B|]. destruct c, r as [[? ?]|?|?]; apply Permutation_refl. }
      assert (IdleM : forall H', Permutation (ms_held M) (H' ++ flat_map (inflight g) (upd (m2_pool st) t (UIdle (Some r)))) ->
                Inv g (m1_of g (mkst u' (upd (m2_pool st) t (UIdle (Some r))) H'))).
      { intros H' PmH. eapply (m1_of_upd M); [exact IM|exact E1|exact E2|exact E3|exact Lt| |exact PmH].
        exists (TIdle l). split; [exact Ep|]. right. split; [eexists; reflexivity|exists None; reflexivity]. }
      unfold ufinish.
      assert (Dflt : forall H', H' = m2_held st -> blocks c G = [] ->
                UInv o' (mkst u' (upd (m2_pool st) t (UIdle (Some r))) H')).
      { intros H' -> Bn. eapply UInv_upd; [exact UI|exact Ht|exact SE| |exact Ug|exact I].
        apply IdleM. rewrite (infl_upd _ _ _ Lt). cbn [inflight app]. rewrite Bn, app_nil_r in Pm. exact Pm. }
      destruct c as [fr rq|f rq| |m ch].
      + destruct r as [[frm cl]|e|z].
        * change (with_held (set_uthr (with_up st u') t (UIdle (Some (Ok (frm, cl)))))
                    ((frm, r_order rq) :: m2_held (set_uthr (with_up st u') t (UIdle (Some (Ok (frm, cl)))))))
            with (mkst u' (upd (m2_pool st) t (UIdle (Some (Ok (frm, cl))))) ((frm, r_order rq) :: m2_held st)).
          eapply UInv_upd; [exact UI|exact Ht|exact SE| |exact Ug|exact I].
          apply IdleM. rewrite (infl_upd _ _ _ Lt). cbn [inflight app].
          cbn [ret_gh gh_bl g_bl] in Eb. unfold blocks in Pm. rewrite <- Eb in Pm. cbn [map] in Pm.
          eapply perm_trans; [exact Pm|]. rewrite app_assoc. apply Permutation_sym. apply Permutation_cons_append.
        * apply (Dflt (m2_held st) eq_refl). unfold blocks. rewrite <- Eb. reflexivity.
        * destruct (NP z eq_refl).
      + apply (Dflt (m2_held st) eq_refl). reflexivity.
      + apply (Dflt (m2_held st) eq_refl). reflexivity.
      + apply (Dflt (m2_held st) eq_refl). reflexivity.
  Qed.

  Lemma low_thr_run c p k : (forall th, p <> PLow th) -> low_thr (URun c p k) = TIdle None.
  Proof. intros N. destruct p; try reflexivity. destruct (N th eq_refl). Qed.

  Lemma UInv_thread st t c p k :
    UInv o st -> nth_error (m2_pool st) t = Some (URun c p k) ->
    call_wf g (m2_up st) c /\ twf g policy (m2_up st) c p k /\
    UGt o (m2_up st) (pk_gh g p k) (crR (map (uthr_gh g) (m2_pool st)) t) (ihR (map (uthr_gh g) (m2_pool st)) t).
  Proof.
    intros (I & U & F) Ht. pose proof (Forall_nth_error _ _ _ _ F Ht) as W. cbn [thr_wf] in W. destruct W as [CW T].
    split; [exact CW|]. split; [exact T|].
    eapply (UG_to_t _ _ _ t (pk_gh g p k)); [|exact U]. rewrite nth_error_map, Ht. reflexivity.
  Qed.

  (* a step of a thread whose primitive is a tree / slot access *)
  Lemma step_access st t c p k c0 :
    UInv o st -> nth_error (m2_pool st) t = Some (URun c p k) -> (forall th, p <> PLow th) ->
    UInv (off_next (m2_up st) p) (fst (ustep g policy st t c0)).
  Proof.
    intros UI Ht NL. destruct (UInv_thread _ _ _ _ _ UI Ht) as (CW & T & Ut).
    destruct k as [|f k]; [destruct T|].
    assert (PS : pas_stack (m2_up st) c (lvl f) k) by (destruct T as (_ & PS & _); exact PS).
    assert (Lt : (t < length (m2_pool st))%nat) by (apply nth_error_Some; congruence).
    pose proof (P_access _ _ _ _ _ _ _ CW T NL Ut) as PA.
    unfold ustep. rewrite Ht. destruct (prim_step g policy (m2_up st) p) as [[u' ev] oc]. cbn [fst snd] in *.
    destruct PA as (SE & El & PA).
    assert (Eb0 : g_bl (pk_gh g p (f :: k)) = g_bl (frame_gh g f)).
    { rewrite (pk_gh_top g policy _ _ p f k _ PS). cbn [gh_add g_bl]. rewrite (prim_gh_bl _ _ NL). reflexivity. }
    destruct UI as (I & U & F).
    destruct oc as [p'|v|z]; [| |destruct PA].
    - (* the primitive continues *)
      destruct PA as (-> & T' & Eg & NL' & Eo). rewrite Eo.
      change (set_uthr (with_up st (m2_up st)) t (URun c p' (f :: k)))
        with (mkst (m2_up st) (upd (m2_pool st) t (URun c p' (f :: k))) (m2_held st)).
      eapply UInv_upd; [split; [exact I|split; [exact U|exact F]]|exact Ht|exact SE| | |split; assumption].
      + eapply (m1_of_upd (m1_of g st)); [exact I|reflexivity|reflexivity|reflexivity|exact Lt| |].
        * exists (TIdle None). split; [|left; symmetry; apply low_thr_run; exact NL'].
          cbn. symmetry. apply upd_same. rewrite nth_error_map, Ht. cbn [option_map]. f_equal. apply low_thr_run. exact NL.
        * cbn. rewrite (infl_at _ _ _ Ht), (infl_upd _ _ _ Lt), !inflight_blocks, Eg. apply Permutation_refl.
      + cbn [uthr_gh]. rewrite Eg. exact Ut.
    - (* the primitive completes *)
      destruct PA as (V & Ug).
      assert (SH' : ntrees u' = ntab g (frames (low u'))) by (eapply UGt_ntrees; exact Ug).
      eapply finish_step; [split; [exact I|split; [exact U|exact F]]|exact Ht| |eapply call_wf_static; eassumption|].
      + split; [exact SE|]. split; [exact Ug|]. exists (m1_of g st). split; [exact I|].
        split; [cbn; rewrite El; reflexivity|]. split; [cbn; rewrite El; reflexivity|]. split; [cbn; rewrite El; reflexivity|].
        split.
        * exists None. cbn. symmetry. apply upd_same. rewrite nth_error_map, Ht. cbn [option_map]. f_equal. apply low_thr_run. exact NL.
        * cbn. rewrite (infl_at _ _ _ Ht), inflight_blocks. unfold blocks at 2. cbn [gh_add g_bl].
          rewrite (post_gh_bl _ _ _ NL). cbn [app]. unfold blocks. rewrite Eb0. apply Permutation_sym. apply perm_mid.
      + apply (K_settle g policy WF u' c SH'); [eapply call_wf_static; eassumption|eapply twf_static; eassumption|
                                                 eapply vfacts_static; eassumption].
  Qed.

  (* ================= a step inside the lower allocator ================= *)
  (* the ghost of a thread inside the lower allocator: a fixed part A (in-hand) and the credit (T, hold) *)
  Definition low_A (f : kframe) : ugh :=
    match f with
    | KRS2 i o _ true free tc => gh_ih i tc (free - pow2 o)
    | _ => gh_nil
    end.
  Definition low_T (f : kframe) : N :=
    match f with
    | KGL2 _ _ _ row | KSL2 _ row _ | KDL4 _ row => row_tree g row
    | KRS2 i _ _ _ _ _ | KSG2 i _ _ => i
    | KPut1 frame _ => frame / TF
    | _ => 0
    end.
  Definition low_frame (f : kframe) : bool :=
    match f with
    | KGL2 _ _ _ _ | KSL2 _ _ _ | KDL4 _ _ | KRS2 _ _ _ _ _ _ | KSG2 _ _ _ | KPut1 _ _ => true
    | _ => false
    end.
  Lemma low_gh_split f h : low_frame f = true -> gh_eq (low_gh g h (Some f)) (gh_add (low_A f) (gh_cr (low_T f) h)).
  Proof.
    destruct f; cbn [low_frame]; try discriminate; intros _; cbn [low_gh low_A low_T]; rewrite ?gh_add_nil_l; try apply gh_eq_refl.
    destruct reserved; rewrite ?gh_add_nil_l; apply gh_eq_refl.
  Qed.

  Ltac kill_prims :=
    repeat match goal with
           | H : tprim _ _ _ (PLow _) _ _ |- _ => exfalso; destruct H as [H|(? & ? & H & _)]; discriminate H
           | H : sprim _ (PLow _) _ _ _ |- _ => exfalso; destruct H as [H|(? & ? & H & _)]; discriminate H
           | H : PLow _ = PSW _ _ _ |- _ => discriminate H
           | H : PLow _ = PLd _ |- _ => discriminate H
           | H : lprim (PLow _) _ |- _ => destruct H as (?pc & H); inversion H; subst; clear H
           end.

  Lemma low_call_tree row od fr : fr_tree g fr (row_tree g row) -> c_frame (low_get_call row od fr) / TF = row_tree g row.
  Proof. intros H. destruct fr as [f|]; cbn [low_get_call c_frame]; [apply H; reflexivity|reflexivity]. Qed.
  Lemma low_call_order row od fr : c_order (low_get_call row od fr) = od.
  Proof. destruct fr; reflexivity. Qed.

  Lemma twf_low u c th f k :
    call_wf g u c -> twf g policy u c (PLow th) (f :: k) ->
    exists cl pc, th = TRun cl pc /\ low_frame f = true /\ frame_gh g f = gh_nil /\ low_T f = c_frame cl / TF /\
      (forall pc', twf g policy u c (PLow (TRun cl pc')) (f :: k)) /\
      ((is_put cl = false /\ (forall a b, f <> KPut1 a b) /\
        exists fr r, c = UGet fr r /\ c_order cl = r_order r /\ c_n cl = pow2 (r_order r)) \/
       (exists fr r, f = KPut1 fr r /\ c = UPut fr r /\ cl = CPut fr (r_order r))).
  Proof.
    intros CW (T & R). revert R. destruct f; cbn [top_wf] in T; try (destruct T; fail); unfold ros_ok, row_ok in *; flat; subst; kill_prims; intros R.
    all: eexists _, _; split; [reflexivity|]; split; [reflexivity|]; split; [reflexivity|].
    all: cbn [low_T].
    - split; [symmetry; apply low_call_tree; assumption|]. split.
      + intros pc'. split; [|exact R]. cbn [top_wf]. eexists _, _. repeat split; try eassumption; try reflexivity. eexists; reflexivity.
      + left. split; [apply low_call_put|]. split; [discriminate|]. eexists _, _. split; [reflexivity|]. split; [apply low_call_order|apply low_call_n].
    - split; [cbn [c_frame]; change (tree_row g i * 64 / TF) with (row_tree g (tree_row g i)); rewrite (row_tree_tree_row g WF); reflexivity|].
      split.
      + intros pc'. split; [|exact R]. cbn [top_wf]. eexists. repeat match goal with |- _ /\ _ => split end; try eassumption; try reflexivity. eexists; reflexivity.
      + left. split; [reflexivity|]. split; [discriminate|]. eexists _, _. split; [reflexivity|]. split; reflexivity.
    - split; [symmetry; rewrite <- (row_tree_tree_row g WF i) at 2; apply low_call_tree; rewrite (row_tree_tree_row g WF); assumption|]. split.
      + intros pc'. split; [|exact R]. cbn [top_wf]. eexists _, _. repeat split; try eassumption; try reflexivity. eexists; reflexivity.
      + left. split; [apply low_call_put|]. split; [discriminate|]. eexists _, _. split; [reflexivity|]. split; [apply low_call_order|apply low_call_n].
    - split; [symmetry; apply low_call_tree; assumption|]. split.
      + intros pc'. split; [|exact R]. cbn [top_wf]. eexists. repeat split; try eassumption; try reflexivity. eexists; reflexivity.
      + left. split; [apply low_call_put|]. split; [discriminate|]. eexists _, _. split; [reflexivity|]. split; [apply low_call_order|apply low_call_n].
    - split; [symmetry; apply low_call_tree; assumption|]. split.
      + intros pc'. split; [|exact R]. cbn [top_wf]. eexists. repeat split; try eassumption; try reflexivity. eexists; reflexivity.
      + left. split; [apply low_call_put|]. split; [discriminate|]. eexists _, _. split; [reflexivity|]. split; [apply low_call_order|apply low_call_n].
    - split; [reflexivity|]. split.
      + intros pc'. split; [|exact R]. cbn [top_wf]. split; [reflexivity|eexists; reflexivity].
      + right. eexists _, _. repeat split.
  Qed.

  Lemma P_low_uic u A T h h' l' cr0 ih0 :
    g_cr A = [] -> UGt o u (gh_add A (gh_cr T h)) cr0 ih0 ->
    (forall t0, t0 < ntab g (frames l') -> tree_free g l' t0 <= TF) -> frames l' = frames (low u) ->
    (forall i, tree_free g l' i + delta i T h = tree_free g (low u) i + delta i T h') ->
    UGt o (with_low u l') (gh_add A (gh_cr T h')) cr0 ih0.
  Proof.
    intros EA U Le Ef Eq. unfold UGt in *. cbn [gh_add gh_cr g_cr g_ih] in *. rewrite EA in *. cbn [app] in *.
    rewrite <- ux_with_low. eapply (U2_with_low g policy WF); [exact U|exact Le|exact Ef|].
    intros t0 _. cbv beta. rewrite !crsum_one. specialize (Eq t0). cbn [us ux]. lia.
  Qed.

  Lemma low_A_cr f : g_cr (low_A f) = [].
  Proof. destruct f; try reflexivity. cbn [low_A]. destruct reserved; reflexivity. Qed.

  Lemma UGt_merge u i tc a n cr0 ih0 :
    UGt o u (gh_add (gh_ih i tc a) (gh_cr i n)) cr0 ih0 -> UGt o u (gh_ih i tc (a + n)) cr0 ih0.
  Proof.
    unfold UGt. cbn [gh_add gh_ih gh_cr g_cr g_ih app]. intros U.
    eapply (U2_ih_credit g policy WF); [exact U|]. intros j. cbv beta. rewrite crsum_one, crsum_nil. unfold delta.
    destruct (j =? i); lia.
  Qed.

  Lemma blocks_nil c G : g_bl G = [] -> blocks c G = [].
  Proof. intros E. unfold blocks. rewrite E. destruct c; reflexivity. Qed.

  Lemma step_low st t c th k c0 :
    UInv o st -> nth_error (m2_pool st) t = Some (URun c (PLow th) k) ->
    UInv o (fst (ustep g policy st t c0)).
  Proof.
    intros UI Ht. destruct (UInv_thread _ _ _ _ _ UI Ht) as (CW & T & Ut).
    destruct k as [|f k]; [destruct T|].
    destruct (twf_low _ _ _ _ _ CW T) as (cl & pc & -> & Lf & Fg & ET & Tpc & Cls).
    assert (PS : pas_stack (m2_up st) c (lvl f) k) by (destruct T as (_ & PS & _); exact PS).
    assert (Lt : (t < length (m2_pool st))%nat) by (apply nth_error_Some; congruence).
    destruct UI as (I & U & F).
    set (m := m1_of g st) in *.
    assert (Hm : nth_error (ms_pool m) t = Some (TRun cl pc)).
    { unfold m, m1_of. cbn. rewrite nth_error_map, Ht. reflexivity. }
    (* the ghost of the thread *)
    rewrite (pk_gh_top g policy _ _ _ f k _ PS), Fg, gh_add_nil_r in Ut. cbn [prim_gh] in Ut.
    pose proof (UGt_eq _ _ _ _ _ _ (low_gh_split f (lhold g (TRun cl pc)) Lf) Ut) as Ut'.
    (* the M1 step *)
    destruct (view_step g WF m t cl pc cl cl Hm) as (Efr & x' & Hx & Est).
    pose proof (step_inv g WF m t cl I) as IM.
    assert (Hx' : nth_error (ms_pool (fst (mstep g m t cl))) t = Some x').
    { rewrite Est. cbn. apply nth_error_upd_same. unfold m, m1_of. cbn. rewrite map_length. exact Lt. }
    pose proof (step_hold g WF m t cl pc cl x' I Hm Hx') as SHd.
    pose proof (step_result g WF m t cl pc cl x' I Hm Hx') as SR.
    pose proof (step_held g WF m t cl pc cl x' Hm Hx') as SHl.
    set (M := fst (mstep g m t cl)) in *.
    change (view m (TRun cl pc)) with (m1_view (m2_up st) (TRun cl pc)) in *.
    unfold ustep. rewrite Ht. cbn [prim_step].
    destruct (mstep g (m1_view (m2_up st) (TRun cl pc)) 0 cl) as [ms' ev] eqn:Ems. cbn [fst snd] in *.
    set (l' := {| frames := ms_frames ms'; bfs := ms_bfs ms'; ents := ms_ents ms' |}).
    set (u' := with_low (m2_up st) l').
    assert (EM : M = {| ms_frames := ms_frames m; ms_ents := ms_ents ms'; ms_bfs := ms_bfs ms';
                        ms_pool := upd (ms_pool m) t x'; ms_held := ms_held ms' ++ ms_held m |}).
    { unfold M. rewrite Est. reflexivity. }
    assert (SE : static_eq (m2_up st) u').
    { unfold u', static_eq. cbn. repeat split. exact Efr. }
    assert (TFl : forall t0, t0 < ntab g (frames l') -> tree_free g l' t0 <= TF).
    { intros t0 L0. pose proof (inv_tree_free_le g WF M t0 IM) as Q. rewrite EM in Q. cbn in Q. cbn in L0. rewrite Efr in L0.
      apply Q. exact L0. }
    assert (Eq : forall i, tree_free g l' i + delta i (low_T f) (lhold g (TRun cl pc))
                         = tree_free g (low (m2_up st)) i + delta i (low_T f) (fin_hold g cl x')).
    { intros i. specialize (SHd i). rewrite EM in SHd. rewrite ET. exact SHd. }
    assert (Ug : UGt o u' (gh_add (low_A f) (gh_cr (low_T f) (fin_hold g cl x')))
                   (crR (map (uthr_gh g) (m2_pool st)) t) (ihR (map (uthr_gh g) (m2_pool st)) t)).
    { eapply P_low_uic; [apply low_A_cr|exact Ut'|exact TFl|exact Efr|exact Eq]. }
    assert (EMp : ms_pool M = upd (map low_thr (m2_pool st)) t x') by (rewrite EM; reflexivity).
    assert (Infl0 : inflight g (URun c (PLow (TRun cl pc)) (f :: k)) = []).
    { rewrite inflight_blocks. apply blocks_nil. rewrite (pk_gh_top g policy _ _ _ f k _ PS), Fg. cbn [prim_gh gh_add g_bl gh_nil].
      rewrite low_gh_bl. reflexivity. }
    assert (Hm0 : ms_held m = m2_held st ++ inflB (m2_pool st) t ++ inflA (m2_pool st) t).
    { unfold m, m1_of. cbn. rewrite (infl_at _ _ _ Ht), Infl0. reflexivity. }
    rewrite Hx.
    destruct x' as [[[frm|e|z]|]|cl' pc'|z cl']; cbn [fst]; try (destruct SR; fail).
    - (* the lower call returns a frame / Ok *)
      assert (V : vfacts g policy u' (PLow (TRun cl pc)) (VL (Ok frm))).
      { cbn [vfacts]. exists cl, pc. split; [reflexivity|]. intros Np. destruct (SR Np) as (A & _ & B). split; [exact A|].
        cbn. rewrite Efr. unfold m, m1_of in B. cbn in B. pose proof (pow2_pos (c_order cl)). lia. }
      assert (SH' : ntrees u' = ntab g (frames (low u'))) by (eapply UGt_ntrees; exact Ug).
      eapply (finish_step o st t _ c u' (gh_add (post_gh g (PLow (TRun cl pc)) (VL (Ok frm)) f) (frame_gh g f)));
        [split; [exact I|split; [exact U|exact F]]|exact Ht| |eapply call_wf_static; eassumption|
         apply (K_settle g policy WF u' c SH'); [eapply call_wf_static; eassumption|eapply twf_static; eassumption|exact V]].
      split; [exact SE|]. split.
      + rewrite Fg, gh_add_nil_r. eapply UGt_eq'; [| |exact Ug].
        * intros i. cbn [gh_add g_cr]. rewrite low_A_cr. cbn [app gh_cr g_cr]. rewrite crsum_one. cbn [fin_hold].
          destruct Cls as [(Np & NK & fr & r & Ec & Eo & En)|(fr & r & -> & Ec & ->)].
          -- rewrite Np. destruct f; cbn [low_frame] in Lf; try discriminate; try (destruct (NK _ _ eq_refl); fail);
               cbn [post_gh]; try (destruct reserved); cbn; unfold delta; destruct (i =? _); reflexivity.
          -- cbn [is_put post_gh gh_cr g_cr low_T c_n c_order]. rewrite crsum_one. reflexivity.
        * cbn [gh_add g_ih gh_cr]. rewrite app_nil_r.
          destruct Cls as [(Np & NK & fr & r & Ec & Eo & En)|(fr & r & -> & Ec & ->)].
          -- destruct f; cbn [low_frame] in Lf; try discriminate; try (destruct (NK _ _ eq_refl); fail);
               cbn [post_gh low_A]; try (destruct reserved); apply Permutation_refl.
          -- apply Permutation_refl.
      + exists M. split; [exact IM|]. split; [rewrite EM; cbn; exact (eq_sym Efr)|]. split; [rewrite EM; reflexivity|].
        split; [rewrite EM; reflexivity|]. split; [eexists; exact EMp|].
        rewrite SHl, Hm0. rewrite Fg, gh_add_nil_r.
        destruct Cls as [(Np & NK & fr & r & Ec & Eo & En)|(fr & r & -> & Ec & ->)].
        * rewrite Np, Ec, Eo. unfold blocks.
          assert (Eb : g_bl (post_gh g (PLow (TRun cl pc)) (VL (Ok frm)) f) = [frm]).
          { destruct f; cbn [low_frame] in Lf; try discriminate; try (destruct (NK _ _ eq_refl); fail);
              cbn [post_gh]; try (destruct reserved); reflexivity. }
          rewrite Eb. cbn [map].
          replace (m2_held st ++ (inflB (m2_pool st) t ++ inflA (m2_pool st) t) ++ [(frm, r_order r)])
            with ((m2_held st ++ inflB (m2_pool st) t ++ inflA (m2_pool st) t) ++ [(frm, r_order r)])
            by (rewrite <- app_assoc; reflexivity).
          apply Permutation_cons_append.
        * cbn [is_put]. rewrite Ec. cbn [blocks]. rewrite app_nil_r. apply Permutation_refl.
    - (* out of memory *)
      subst e.
      assert (V : vfacts g policy u' (PLow (TRun cl pc)) (VL (Err EMemory))).
      { cbn [vfacts]. exists cl, pc. split; reflexivity. }
      assert (SH' : ntrees u' = ntab g (frames (low u'))) by (eapply UGt_ntrees; exact Ug).
      eapply (finish_step o st t _ c u' (gh_add (post_gh g (PLow (TRun cl pc)) (VL (Err EMemory)) f) (frame_gh g f)));
        [split; [exact I|split; [exact U|exact F]]|exact Ht| |eapply call_wf_static; eassumption|
         apply (K_settle g policy WF u' c SH'); [eapply call_wf_static; eassumption|eapply twf_static; eassumption|exact V]].
      split; [exact SE|]. split.
      + rewrite Fg, gh_add_nil_r. cbn [fin_hold] in Ug.
        destruct Cls as [(Np & NK & fr & r & Ec & Eo & En)|(fr & r & -> & Ec & ->)].
        * rewrite Np in Ug. destruct f; cbn [low_frame] in Lf; try discriminate; try (destruct (NK _ _ eq_refl); fail); cbn [post_gh];
            try (eapply UGt_eq; [apply gh_eq_sym; apply (low_gh_split _ (c_n cl)); reflexivity|exact Ug]).
          destruct reserved; [|eapply UGt_eq; [apply gh_eq_sym; apply (low_gh_split (KRS2 i order local false free tc) (c_n cl)); reflexivity|exact Ug]].
          cbn [low_A low_T] in Ug. apply UGt_merge in Ug.
          assert (Ef : free - pow2 order + c_n cl = free).
          { rewrite Ec in T. destruct T as (T & _). cbn [top_wf] in T. destruct T as (r0 & E0 & -> & _ & _ & Hr).
            inversion E0; subst r0. destruct (Hr eq_refl) as (_ & Ln & _). rewrite En. lia. }
          rewrite Ef in Ug. exact Ug.
        * cbn [is_put low_A low_T post_gh] in *. eapply UGt_eq'; [| |exact Ug].
          -- intros i. cbn [gh_add gh_nil gh_cr g_cr app]. rewrite crsum_one, crsum_nil. unfold delta. destruct (i =? _); reflexivity.
          -- apply Permutation_refl.
      + exists M. split; [exact IM|]. split; [rewrite EM; cbn; exact (eq_sym Efr)|]. split; [rewrite EM; reflexivity|].
        split; [rewrite EM; reflexivity|]. split; [eexists; exact EMp|].
        rewrite SHl, Hm0.
        assert (Eb : blocks c (gh_add (post_gh g (PLow (TRun cl pc)) (VL (Err EMemory)) f) (frame_gh g f)) = []).
        { rewrite Fg, gh_add_nil_r.
          assert (Eb : g_bl (post_gh g (PLow (TRun cl pc)) (VL (Err EMemory)) f) = []).
          { destruct f; cbn [low_frame] in Lf; try discriminate; cbn [post_gh low_gh]; try (destruct reserved); try reflexivity;
              cbn [low_gh gh_add gh_ih gh_cr g_bl app]; reflexivity. }
          unfold blocks. rewrite Eb. destruct c; reflexivity. }
        rewrite Eb, app_nil_r. apply Permutation_refl.
    - (* the lower call continues *)
      subst cl'.
      change (set_uthr (with_up st u') t (URun c (PLow (TRun cl pc')) (f :: k)))
        with (mkst u' (upd (m2_pool st) t (URun c (PLow (TRun cl pc')) (f :: k))) (m2_held st)).
      eapply UInv_upd; [split; [exact I|split; [exact U|exact F]]|exact Ht|exact SE| | |].
      + eapply (m1_of_upd M); [exact IM|rewrite EM; cbn; exact (eq_sym Efr)|rewrite EM; reflexivity|rewrite EM; reflexivity|exact Lt| |].
        * exists (TRun cl pc'). split; [exact EMp|left; reflexivity].
        * rewrite SHl, Hm0, (infl_upd _ _ _ Lt).
          assert (Infl1 : inflight g (URun c (PLow (TRun cl pc')) (f :: k)) = []).
          { rewrite inflight_blocks. apply blocks_nil. rewrite (pk_gh_top g policy _ _ _ f k _ PS), Fg. cbn [prim_gh gh_add g_bl gh_nil].
            rewrite low_gh_bl. reflexivity. }
          rewrite Infl1. apply Permutation_refl.
      + cbn [uthr_gh]. rewrite (pk_gh_top g policy _ _ _ f k _ PS), Fg, gh_add_nil_r. cbn [prim_gh].
        eapply UGt_eq; [apply gh_eq_sym; apply low_gh_split; exact Lf|]. exact Ug.
      + cbn [thr_wf]. split; [eapply call_wf_static; eassumption|eapply twf_static; [exact SE|apply Tpc]].
    - (* "Exceeding retries" *)
      destruct SR as (-> & -> & Pu).
      destruct Cls as [(Np & _)|(fr & r & -> & Ec & ->)]; [congruence|].
      change (set_uthr (with_up st u') t (UPanic SExceedingRetries c))
        with (mkst u' (upd (m2_pool st) t (UPanic SExceedingRetries c)) (m2_held st)).
      eapply UInv_upd; [split; [exact I|split; [exact U|exact F]]|exact Ht|exact SE| | |].
      + eapply (m1_of_upd M); [exact IM|rewrite EM; cbn; exact (eq_sym Efr)|rewrite EM; reflexivity|rewrite EM; reflexivity|exact Lt| |].
        * exists (TPanic SExceedingRetries (CPut fr (r_order r))). split; [exact EMp|left; rewrite Ec; reflexivity].
        * rewrite SHl, Hm0, (infl_upd _ _ _ Lt). cbn [inflight app]. apply Permutation_refl.
      + cbn [uthr_gh]. eapply UGt_eq'; [| |exact Ug].
        * intros i. cbn [gh_add low_A gh_nil gh_cr g_cr app fin_hold]. rewrite crsum_one, crsum_nil. unfold delta. destruct (i =? _); reflexivity.
        * apply Permutation_refl.
      + cbn [thr_wf]. split; [reflexivity|]. eexists _, _. exact Ec.
  Qed.

  (* ================= the start of a call ================= *)
  (* scope: valid parameters (UpperConcLocal.call_valid: slot index below the slot count or none; no change_tree),
     and a put passes `check` (its block was taken out of the ghost `held` before the check) *)
  Definition call_valid2 (u : upper) (c : ucall) : Prop :=
    call_valid u c /\ match c with UPut f r => check g u f r = Ok tt | _ => True end.

  Lemma UInv_idle_gh st t l : nth_error (m2_pool st) t = Some (UIdle l) -> UInv o st ->
    UGt o (m2_up st) gh_nil (crR (map (uthr_gh g) (m2_pool st)) t) (ihR (map (uthr_gh g) (m2_pool st)) t).
  Proof.
    intros Ht (_ & U & _). eapply (UG_to_t _ _ _ t gh_nil); [|exact U]. rewrite nth_error_map, Ht. reflexivity.
  Qed.

  Lemma UInv_SH st : UInv o st -> ntrees (m2_up st) = ntab g (frames (low (m2_up st))).
  Proof. intros (_ & U & _). exact (U2_ntrees g policy WF _ _ _ U). Qed.

  Lemma step_start st t l c0 :
    UInv o st -> nth_error (m2_pool st) t = Some (UIdle l) -> call_valid2 (m2_up st) c0 ->
    UInv o (fst (ustep g policy st t c0)).
  Proof.
    intros UI Ht (V & Vp). pose proof (UInv_SH _ UI) as SH. pose proof (UInv_idle_gh _ _ _ Ht UI) as Ug.
    assert (Lt : (t < length (m2_pool st))%nat) by (apply nth_error_Some; congruence).
    assert (Hm : nth_error (ms_pool (m1_of g st)) t = Some (TIdle None)).
    { unfold m1_of. cbn. rewrite nth_error_map, Ht. reflexivity. }
    pose proof (start_ok g policy (m2_up st) SH c0 V) as SG.
    unfold ustep. rewrite Ht.
    assert (Hfl : flat_map (inflight g) (m2_pool st) = inflB (m2_pool st) t ++ inflA (m2_pool st) t).
    { rewrite (infl_at _ _ _ Ht). reflexivity. }
    destruct UI as (I & U & F).
    destruct c0 as [fr r|f r| |m ch].
    - (* get *)
      cbn [fst]. destruct (settle g policy SETTLE (m2_up st) (enter_call g (m2_up st) (UGet fr r))) as [p k|r'|z];
        cbn [start_good apply_settled] in *; [| |destruct SG].
      + destruct SG as (CW & T & Ge & En).
        change (set_uthr st t (URun (UGet fr r) p k)) with (mkst (m2_up st) (upd (m2_pool st) t (URun (UGet fr r) p k)) (m2_held st)).
        assert (Eb : inflight g (URun (UGet fr r) p k) = []).
        { rewrite inflight_blocks. apply blocks_nil. destruct Ge as (_ & _ & Eb). exact Eb. }
        eapply UInv_upd; [split; [exact I|split; [exact U|exact F]]|exact Ht|apply static_refl| | |split; assumption].
        * destruct En as [En|(f0 & r0 & E0 & _)]; [|discriminate E0].
          assert (Pm : Permutation (ms_held (m1_of g st)) (m2_held st ++ flat_map (inflight g) (upd (m2_pool st) t (URun (UGet fr r) p k)))).
          { cbn. rewrite (infl_upd _ _ _ Lt), Eb, Hfl. apply Permutation_refl. }
          destruct p as [i|i f0|i f0 cur j a0|i f0 cur new|cl idx f0|cl idx f0 cur new|cl idx new|th'];
            try (eapply (m1_of_upd (m1_of g st)); [exact I|reflexivity|reflexivity|reflexivity|exact Lt| |exact Pm];
                 exists (TIdle None); split; [cbn; symmetry; apply upd_same; exact Hm|left; reflexivity]).
          destruct (En th' eq_refl) as (cl & -> & Cw & Np).
          eapply (m1_of_upd (goto (m1_of g st) t cl (entry_pc g cl))); [|reflexivity|reflexivity|reflexivity|exact Lt| |exact Pm].
          -- eapply m1_enter_get; [exact I|exact Hm|exact Cw|exact Np].
          -- exists (TRun cl (entry_pc g cl)). split; [reflexivity|left; reflexivity].
        * cbn [uthr_gh]. eapply UGt_eq; [apply gh_eq_sym; exact Ge|exact Ug].
      + destruct SG as (NP & Er).
        assert (Er' : forall x, r' <> Ok x).
        { intros [a b] E. subst r'. cbn [ret_gh] in Er. discriminate Er. }
        unfold ufinish. destruct r' as [[a b]|e|z]; [destruct (Er' _ eq_refl)| |destruct (NP z eq_refl)].
        change (set_uthr st t (UIdle (Some (Err e)))) with (mkst (m2_up st) (upd (m2_pool st) t (UIdle (Some (Err e)))) (m2_held st)).
        eapply UInv_upd; [split; [exact I|split; [exact U|exact F]]|exact Ht|apply static_refl| |exact Ug|exact Logic.I].
        eapply (m1_of_upd (m1_of g st)); [exact I|reflexivity|reflexivity|reflexivity|exact Lt| |].
        * exists (TIdle None). split; [cbn; symmetry; apply upd_same; exact Hm|left; reflexivity].
        * cbn. rewrite (infl_upd _ _ _ Lt), Hfl. apply Permutation_refl.
    - (* put *)
      destruct (client_take (m2_held st) f (r_order r)) as [h'|] eqn:Ct; cbn [fst]; [|split; [exact I|split; [exact U|exact F]]].
      cbn [with_held m2_up]. cbn [enter_call] in *. unfold enter_put in *. rewrite Vp in *. unfold enter_low, SETTLE in *.
      cbn [settle start_good apply_settled] in *.
      destruct SG as (CW & T & Ge & [En|(f0 & r0 & E0 & _ & Cw)]).
      { destruct (En _ eq_refl) as (cl & E1 & _ & Np). inversion E1; subst cl. discriminate Np. }
      inversion E0; subst f0 r0.
      change (set_uthr (with_held st h') t (URun (UPut f r) (PLow (TRun (CPut f (r_order r)) (entry_pc g (CPut f (r_order r))))) [KPut1 f r]))
        with (mkst (m2_up st) (upd (m2_pool st) t (URun (UPut f r) (PLow (TRun (CPut f (r_order r)) (entry_pc g (CPut f (r_order r))))) [KPut1 f r])) h').
      eapply UInv_upd; [split; [exact I|split; [exact U|exact F]]|exact Ht|apply static_refl| | |split; assumption].
      + eapply (m1_of_upd (goto (set_held (m1_of g st) (h' ++ flat_map (inflight g) (m2_pool st))) t (CPut f (r_order r)) (entry_pc g (CPut f (r_order r)))));
          [|reflexivity|reflexivity|reflexivity|exact Lt| |].
        * eapply m1_enter_put; [exact I|exact Hm|exact Cw|]. cbn. apply client_take_app. exact Ct.
        * eexists. split; [reflexivity|left; reflexivity].
        * cbn. rewrite (infl_upd _ _ _ Lt), Hfl. cbn [inflight app]. apply Permutation_refl.
      + cbn [uthr_gh]. eapply UGt_eq; [apply gh_eq_sym; exact Ge|exact Ug].
    - (* drain *)
      cbn [fst]. destruct (settle g policy SETTLE (m2_up st) (enter_call g (m2_up st) UDrain)) as [p k|r'|z];
        cbn [start_good apply_settled] in *; [| |destruct SG].
      + destruct SG as (CW & T & Ge & En).
        change (set_uthr st t (URun UDrain p k)) with (mkst (m2_up st) (upd (m2_pool st) t (URun UDrain p k)) (m2_held st)).
        eapply UInv_upd; [split; [exact I|split; [exact U|exact F]]|exact Ht|apply static_refl| | |split; assumption].
        * destruct En as [En|(f0 & r0 & E0 & _)]; [|discriminate E0].
          assert (Pm : Permutation (ms_held (m1_of g st)) (m2_held st ++ flat_map (inflight g) (upd (m2_pool st) t (URun UDrain p k)))).
          { cbn. rewrite (infl_upd _ _ _ Lt), Hfl. cbn [inflight app]. apply Permutation_refl. }
          destruct p as [i|i f0|i f0 cur j a0|i f0 cur new|cl idx f0|cl idx f0 cur new|cl idx new|th'];
            try (eapply (m1_of_upd (m1_of g st)); [exact I|reflexivity|reflexivity|reflexivity|exact Lt| |exact Pm];
                 exists (TIdle None); split; [cbn; symmetry; apply upd_same; exact Hm|left; reflexivity]).
          destruct (En th' eq_refl) as (cl & -> & Cw & Np).
          eapply (m1_of_upd (goto (m1_of g st) t cl (entry_pc g cl))); [|reflexivity|reflexivity|reflexivity|exact Lt| |exact Pm].
          -- eapply m1_enter_get; [exact I|exact Hm|exact Cw|exact Np].
          -- exists (TRun cl (entry_pc g cl)). split; [reflexivity|left; reflexivity].
        * cbn [uthr_gh]. eapply UGt_eq; [apply gh_eq_sym; exact Ge|exact Ug].
      + unfold ufinish.
        change (set_uthr st t (UIdle (Some r'))) with (mkst (m2_up st) (upd (m2_pool st) t (UIdle (Some r'))) (m2_held st)).
        eapply UInv_upd; [split; [exact I|split; [exact U|exact F]]|exact Ht|apply static_refl| |exact Ug|exact Logic.I].
        eapply (m1_of_upd (m1_of g st)); [exact I|reflexivity|reflexivity|reflexivity|exact Lt| |].
        * exists (TIdle None). split; [cbn; symmetry; apply upd_same; exact Hm|left; reflexivity].
        * cbn. rewrite (infl_upd _ _ _ Lt), Hfl. apply Permutation_refl.
    - (* change_tree *)
      cbn [fst]. destruct (settle g policy SETTLE (m2_up st) (enter_call g (m2_up st) (UChange m ch))) as [p k|r'|z];
        cbn [start_good apply_settled] in *; [| |destruct SG].
      + destruct SG as (CW & T & Ge & En).
        change (set_uthr st t (URun (UChange m ch) p k)) with (mkst (m2_up st) (upd (m2_pool st) t (URun (UChange m ch) p k)) (m2_held st)).
        eapply UInv_upd; [split; [exact I|split; [exact U|exact F]]|exact Ht|apply static_refl| | |split; assumption].
        * destruct En as [En|(f0 & r0 & E0 & _)]; [|discriminate E0].
          assert (Pm : Permutation (ms_held (m1_of g st)) (m2_held st ++ flat_map (inflight g) (upd (m2_pool st) t (URun (UChange m ch) p k)))).
          { cbn. rewrite (infl_upd _ _ _ Lt), Hfl. cbn [inflight app]. apply Permutation_refl. }
          destruct p as [i|i f0|i f0 cur j a0|i f0 cur new|cl idx f0|cl idx f0 cur new|cl idx new|th'];
            try (eapply (m1_of_upd (m1_of g st)); [exact I|reflexivity|reflexivity|reflexivity|exact Lt| |exact Pm];
                 exists (TIdle None); split; [cbn; symmetry; apply upd_same; exact Hm|left; reflexivity]).
          destruct (En th' eq_refl) as (cl & -> & Cw & Np).
          eapply (m1_of_upd (goto (m1_of g st) t cl (entry_pc g cl))); [|reflexivity|reflexivity|reflexivity|exact Lt| |exact Pm].
          -- eapply m1_enter_get; [exact I|exact Hm|exact Cw|exact Np].
          -- exists (TRun cl (entry_pc g cl)). split; [reflexivity|left; reflexivity].
        * cbn [uthr_gh]. eapply UGt_eq; [apply gh_eq_sym; exact Ge|exact Ug].
      + unfold ufinish.
        change (set_uthr st t (UIdle (Some r'))) with (mkst (m2_up st) (upd (m2_pool st) t (UIdle (Some r'))) (m2_held st)).
        eapply UInv_upd; [split; [exact I|split; [exact U|exact F]]|exact Ht|apply static_refl| |exact Ug|exact Logic.I].
        eapply (m1_of_upd (m1_of g st)); [exact I|reflexivity|reflexivity|reflexivity|exact Lt| |].
        * exists (TIdle None). split; [cbn; symmetry; apply upd_same; exact Hm|left; reflexivity].
        * cbn. rewrite (infl_upd _ _ _ Lt), Hfl. apply Permutation_refl.
  Qed.

  (* ================= every step ================= *)
  (* the ghost after a step of thread t *)
  Definition goff (st : m2state) (t : nat) : list N :=
    match nth_error (m2_pool st) t with
    | Some (URun _ p _) => off_next (m2_up st) p
    | _ => o
    end.

  Theorem ustep_inv st t c0 :
    UInv o st -> call_valid2 (m2_up st) c0 -> UInv (goff st t) (fst (ustep g policy st t c0)).
  Proof.
    intros UI V. unfold goff. destruct (nth_error (m2_pool st) t) as [[l|c p k|z c]|] eqn:Ht.
    - eapply step_start; eassumption.
    - destruct p; try (eapply step_access; [exact UI|exact Ht|discriminate]). cbn [off_next]. eapply step_low; eassumption.
    - unfold ustep. rewrite Ht. exact UI.
    - unfold ustep. rewrite Ht. exact UI.
  Qed.

  (* the ghost only changes inside a change_tree call *)
  Lemma goff_change st t :
    UInv o st -> goff st t <> o -> exists m ch p k, nth_error (m2_pool st) t = Some (URun (UChange m ch) p k).
  Proof.
    intros (_ & _ & F) Hne. unfold goff in Hne. destruct (nth_error (m2_pool st) t) as [[l|c p k|z c]|] eqn:Ht; try (destruct (Hne eq_refl)).
    pose proof (Forall_nth_error _ _ _ _ F Ht) as W. cbn [thr_wf] in W. destruct W as [CW T].
    destruct p as [i|i f0|i f0 cur j a|i f0 cur new|cl idx f0|cl idx f0 cur new|cl idx new|th]; try (destruct (Hne eq_refl)).
    destruct f0 as [| | | |mc mf ch|]; try (destruct (Hne eq_refl)).
    destruct k as [|f k]; [destruct T|]. destruct T as (T & _).
    destruct f; cbn [top_wf] in T; try (destruct T; fail); unfold ros_ok in *; flat; subst;
      repeat match goal with
             | H : tprim _ _ _ (PTC _ _ _ _) _ _ |- _ => destruct H as [H|(? & ? & H & _)]; [discriminate H|inversion H; subst; clear H]
             | H : sprim _ (PTC _ _ _ _) _ _ _ |- _ => destruct H as [H|(? & ? & H & _)]; discriminate H
             | H : lprim (PTC _ _ _ _) _ |- _ => destruct H as (? & H); discriminate H
             | H : PTC _ _ _ _ = _ |- _ => discriminate H
             end.
    eexists _, _, _, _. reflexivity.
  Qed.
  End Offs.


  (* the static parts of the shared state never change *)
  Lemma static_trans u1 u2 u3 : static_eq u1 u2 -> static_eq u2 u3 -> static_eq u1 u3.
  Proof.
    intros (A1 & A2 & A3 & A4) (B1 & B2 & B3 & B4). split; [congruence|]. split; [intros c; rewrite B2; apply A2|].
    split; congruence.
  Qed.

  Lemma prim_step_static u p : static_eq u (fst (fst (prim_step g policy u p))).
  Proof.
    destruct p as [i|i f0|i f0 cur j a|i f0 cur new|cl idx f0|cl idx f0 cur new|cl idx new|th]; cbn [prim_step].
    - destruct (tree_at u i); apply static_refl.
    - destruct (tree_at u i); apply static_refl.
    - destruct (nth_error _ _); apply static_refl.
    - destruct (tree_at u i); [|apply static_refl]. destruct (tree_eqb _ _); [apply static_set_tree|apply static_refl].
    - destruct (UpperMachine.slot_at u cl idx); apply static_refl.
    - destruct (UpperMachine.slot_at u cl idx); [|apply static_refl]. destruct (slot_eqb _ _); [apply static_set_slot|apply static_refl].
    - destruct (UpperMachine.slot_at u cl idx); [apply static_set_slot|apply static_refl].
    - destruct th as [l|c pc|z c]; try apply static_refl.
      pose proof (step_frames g WF (m1_view u (TRun c pc)) 0 c) as Ef.
      destruct (mstep g (m1_view u (TRun c pc)) 0 c) as [ms' ev]. cbn [fst] in Ef.
      assert (S : static_eq u (with_low u {| frames := ms_frames ms'; bfs := ms_bfs ms'; ents := ms_ents ms' |})).
      { unfold static_eq. cbn. repeat split. exact Ef. }
      destruct (nth_error (ms_pool ms') 0) as [[[[x|x|x]|]|c' p'|z c']|]; exact S.
  Qed.

  Lemma ustep_static st t c0 : static_eq (m2_up st) (m2_up (fst (ustep g policy st t c0))).
  Proof.
    unfold ustep. destruct (nth_error (m2_pool st) t) as [[l|c p k|z c]|]; try apply static_refl.
    - assert (S : forall s1, m2_up s1 = m2_up st -> forall x, static_eq (m2_up st) (m2_up (apply_settled s1 t c0 x))).
      { intros s1 E x. destruct x as [p k|r|z]; cbn [apply_settled]; [rewrite <- E; apply static_refl| |rewrite <- E; apply static_refl].
        unfold ufinish. destruct c0 as [fr rq| | |]; try (rewrite <- E; apply static_refl).
        destruct r as [[a b]|e|z]; rewrite <- E; apply static_refl. }
      destruct c0 as [fr r|f r| |m ch]; cbn [fst]; try (apply S; reflexivity).
      destruct (client_take _ _ _); cbn [fst]; [apply S; reflexivity|apply static_refl].
    - pose proof (prim_step_static (m2_up st) p) as PS.
      destruct (prim_step g policy (m2_up st) p) as [[u' ev] oc]. cbn [fst] in *.
      destruct oc as [p'|v|z]; try exact PS.
      destruct (settle g policy SETTLE u' (ARet v k)) as [p' k'|r|z]; cbn [apply_settled]; try exact PS.
      unfold ufinish. destruct c as [fr rq| | |]; try exact PS. destruct r as [[a b]|e|z]; exact PS.
  Qed.

  Lemma check_static u u' f r : static_eq u u' -> check g u' f r = check g u f r.
  Proof. intros (_ & A & B & _). unfold check. rewrite A, B. reflexivity. Qed.
  Lemma call_valid2_static u u' c : static_eq u u' -> call_valid2 u c -> call_valid2 u' c.
  Proof.
    intros SE (V & P). split.
    - destruct c as [fr r|f r| |m ch]; cbn [call_valid] in *; try exact V.
      + intros l len El Ec. apply (V l len El). rewrite <- (proj1 (proj2 SE)). exact Ec.
      + intros l len El Ec. apply (V l len El). rewrite <- (proj1 (proj2 SE)). exact Ec.
      + destruct V as [V1 V2]. split; [exact V1|]. intros c0 E0. rewrite (proj1 (proj2 SE)). exact (V2 c0 E0).
    - destruct c; try exact P. rewrite (check_static _ _ _ _ SE). exact P.
  Qed.

  (* schedules: every call that may be started has valid parameters with respect to the static configuration *)
  Definition sched_valid (u : upper) (sch : list (nat * ucall)) : Prop :=
    Forall (fun tc => call_valid2 u (snd tc)) sch.

  (* the run with its ghost *)
  Definition gstep (x : m2state * list N) (tc : nat * ucall) : m2state * list N :=
    (fst (ustep g policy (fst x) (fst tc) (snd tc)), goff (snd x) (fst x) (fst tc)).
  Definition grun (sch : list (nat * ucall)) (x : m2state * list N) : m2state * list N := fold_left gstep sch x.

  Lemma grun_fst sch : forall x, fst (grun sch x) = urun g policy sch (fst x).
  Proof.
    induction sch as [|tc sch IH]; intros x; [reflexivity|].
    change (grun (tc :: sch) x) with (grun sch (gstep x tc)). rewrite IH. reflexivity.
  Qed.

  Theorem grun_inv sch : forall st o, UInv o st -> sched_valid (m2_up st) sch ->
    UInv (snd (grun sch (st, o))) (fst (grun sch (st, o))).
  Proof.
    induction sch as [|[t c] sch IH]; intros st o UI SV; [exact UI|]. inversion SV as [|? ? V1 V2]; subst. cbn [snd] in V1.
    change (grun ((t, c) :: sch) (st, o)) with (grun sch (fst (ustep g policy st t c), goff o st t)). apply IH.
    - apply ustep_inv; assumption.
    - eapply Forall_impl; [|exact V2]. intros tc. apply call_valid2_static. apply ustep_static.
  Qed.

  (* ----- without change_tree the ghost never changes ----- *)
  Definition no_change (c : ucall) : Prop := match c with UChange _ _ => False | _ => True end.
  Definition thr_nochange (x : uthr) : Prop := match x with URun c _ _ => no_change c | _ => True end.
  Lemma ustep_nochange st t c0 :
    no_change c0 -> Forall thr_nochange (m2_pool st) -> Forall thr_nochange (m2_pool (fst (ustep g policy st t c0))).
  Proof.
    intros N F. unfold ustep. destruct (nth_error (m2_pool st) t) as [[l|c p k|z c]|] eqn:Ht; try exact F.
    - assert (S : forall s1, m2_pool s1 = m2_pool st -> forall x, Forall thr_nochange (m2_pool (apply_settled s1 t c0 x))).
      { intros s1 E x. destruct x as [p k|r|z]; cbn [apply_settled].
        - cbn. rewrite E. apply Forall_upd; [exact F|exact N].
        - unfold ufinish. assert (Q : Forall thr_nochange (upd (m2_pool s1) t (UIdle (Some r)))) by (rewrite E; apply Forall_upd; [exact F|exact I]).
          destruct c0 as [fr rq| | |]; try exact Q. destruct r as [[a b]|e|z]; exact Q.
        - cbn. rewrite E. apply Forall_upd; [exact F|exact I]. }
      destruct c0 as [fr r|f r| |m ch]; cbn [fst]; try (apply S; reflexivity).
      destruct (client_take _ _ _); cbn [fst]; [apply S; reflexivity|exact F].
    - pose proof (Forall_nth_error _ _ _ _ F Ht) as Nc. cbn [thr_nochange] in Nc.
      destruct (prim_step g policy (m2_up st) p) as [[u' ev] oc]. cbn [fst].
      destruct oc as [p'|v|z]; try (cbn; apply Forall_upd; [exact F|try exact Nc; exact I]).
      destruct (settle g policy SETTLE u' (ARet v k)) as [p' k'|r|z]; cbn [apply_settled]; try (cbn; apply Forall_upd; [exact F|try exact Nc; exact I]).
      unfold ufinish. assert (Q : Forall thr_nochange (upd (m2_pool st) t (UIdle (Some r)))) by (apply Forall_upd; [exact F|exact I]).
      destruct c as [fr rq| | |]; try exact Q. destruct r as [[a b]|e|z]; exact Q.
  Qed.

  Lemma grun_nochange sch : forall st o, UInv o st -> sched_valid (m2_up st) sch ->
    Forall (fun tc => no_change (snd tc)) sch -> Forall thr_nochange (m2_pool st) ->
    snd (grun sch (st, o)) = o.
  Proof.
    induction sch as [|[t c] sch IH]; intros st o UI SV NC F; [reflexivity|].
    inversion SV as [|? ? V1 V2]; subst. inversion NC as [|? ? N1 N2]; subst. cbn [snd] in V1, N1.
    change (grun ((t, c) :: sch) (st, o)) with (grun sch (fst (ustep g policy st t c), goff o st t)).
    assert (Eo : goff o st t = o).
    { destruct (list_eq_dec N.eq_dec (goff o st t) o) as [E|Ne]; [exact E|exfalso].
      destruct (goff_change o st t UI Ne) as (m & ch & p & k & Ht).
      pose proof (Forall_nth_error _ _ _ _ F Ht) as Q. exact Q. }
    rewrite Eo. apply IH.
    - rewrite <- Eo. apply ustep_inv; assumption.
    - eapply Forall_impl; [|exact V2]. intros tc. apply call_valid2_static. apply ustep_static.
    - exact N2.
    - apply ustep_nochange; assumption.
  Qed.

End Main.
