(* Bitfield-level facts used by the put / initialisation / recover proofs of the lower allocator:
   geometry, pointwise reading of `rows_bits`, zero counting via popcount, and the specifications
   of `bf_toggle` (expected = true), `toggle_rows`, `bf_fill`, `bf_set`.
   Names are prefixed `bp_` (AbsLemmas.v, owned by the get-side proofs, exports the unprefixed ones). *)
From Coq Require Import PeanoNat ZArith ZifyN ZifyBool.
From LLF Require Import Base BitLemmas Row RowProofs Bitfield Lower Spec.
Local Open Scope N_scope.

(* ---------- generic ---------- *)
Lemma bp_of_nat_pow2 a : N.of_nat (Nat.pow 2 a) = 2 ^ N.of_nat a.
Proof. rewrite Nat2N.inj_pow. reflexivity. Qed.

Lemma bp_pow2_pos a : 0 < 2 ^ a.
Proof. apply N.neq_0_lt_0, N.pow_nonzero. discriminate. Qed.

Lemma bp_popcount_le x n : x < 2 ^ n -> popcount x <= n.
Proof.
  intros Hx.
  assert (E : N.ones n = N.lor x (N.ldiff (N.ones n) x)).
  { apply N.bits_inj. intros i. rewrite N.lor_spec, N.ldiff_spec.
    destruct (N.lt_ge_cases i n) as [Hi|Hi].
    - rewrite N.ones_spec_low by assumption. destruct (N.testbit x i); reflexivity.
    - rewrite N.ones_spec_high by assumption. rewrite (testbit_high x n i) by assumption. reflexivity. }
  assert (D : N.land x (N.ldiff (N.ones n) x) = 0).
  { apply N.bits_inj. intros i. rewrite N.land_spec, N.ldiff_spec, N.bits_0.
    destruct (N.testbit x i); [apply andb_false_r | reflexivity]. }
  pose proof (popcount_lor_disjoint _ _ D) as P. rewrite <- E, popcount_ones in P. lia.
Qed.

(* all bits below n set and nothing above: the number is ones n *)
Lemma bp_eq_ones x n : x < 2 ^ n -> (forall i, i < n -> N.testbit x i = true) -> x = N.ones n.
Proof.
  intros Hx H. apply N.bits_inj. intros i. destruct (N.lt_ge_cases i n) as [Hi|Hi].
  - rewrite N.ones_spec_low by assumption. apply H; assumption.
  - rewrite N.ones_spec_high by assumption. apply testbit_high with n; assumption.
Qed.

Lemma bp_testbit_blk f n i : N.testbit (blk f n) i = (f <=? i) && (i <? f + n).
Proof.
  unfold blk, ones. destruct (N.leb_spec f i) as [H|H].
  - rewrite N.shiftl_spec_high' by assumption.
    destruct (N.ltb_spec i (f + n)).
    + rewrite N.ones_spec_low by lia. reflexivity.
    + rewrite N.ones_spec_high by lia. reflexivity.
  - rewrite N.shiftl_spec_low by assumption. reflexivity.
Qed.

Lemma bp_popcount_blk f n : popcount (blk f n) = n.
Proof. unfold blk, ones. rewrite popcount_shiftl. apply popcount_ones. Qed.

Lemma bp_testbit_mask64 b o i : N.testbit (mask64 b o) i = (o <=? i) && (i <? o + b).
Proof. apply bp_testbit_blk. Qed.

(* land x m = m  <->  all bits of m are bits of x *)
Lemma bp_land_eq_mask x m : (N.land x m =? m) = true <-> (forall i, N.testbit m i = true -> N.testbit x i = true).
Proof.
  rewrite N.eqb_eq. split.
  - intros H i Hm. assert (T : N.testbit (N.land x m) i = true) by (rewrite H; exact Hm).
    rewrite N.land_spec in T. apply andb_true_iff in T. tauto.
  - intros H. apply N.bits_inj. intros i. rewrite N.land_spec.
    destruct (N.testbit m i) eqn:Hm; [rewrite (H i Hm); reflexivity | apply andb_false_r].
Qed.

(* ---------- geometry ---------- *)
Section Geo.
  Variable g : geom.
  Hypothesis WF : wf_geom g.

  Lemma bp_HF_rows : HF g = 64 * ROWS g.
  Proof.
    destruct WF as (H6 & _). unfold ROWS, HF.
    replace (N.of_nat (hord g)) with (6 + N.of_nat (hord g - 6)) by lia.
    rewrite N.pow_add_r. change (2 ^ 6) with 64. rewrite N.mul_comm, N.div_mul by discriminate. lia.
  Qed.

  Lemma bp_ROWS_nat : ROWS g = N.of_nat (rows_nat g).
  Proof.
    destruct WF as (H6 & _). unfold ROWS, HF, rows_nat. rewrite bp_of_nat_pow2.
    replace (N.of_nat (hord g)) with (N.of_nat (hord g - 6) + 6) by lia.
    rewrite N.pow_add_r. change (2 ^ 6) with 64. rewrite N.div_mul by discriminate. reflexivity.
  Qed.

  Lemma bp_HF_rows_nat : HF g = 64 * N.of_nat (rows_nat g).
  Proof. rewrite bp_HF_rows, bp_ROWS_nat. reflexivity. Qed.

  Lemma bp_ROWS_pos : 0 < ROWS g.
  Proof. rewrite bp_ROWS_nat. unfold rows_nat. rewrite bp_of_nat_pow2. apply bp_pow2_pos. Qed.

  Lemma bp_HF_pos : 0 < HF g.
  Proof. apply bp_pow2_pos. Qed.

  Lemma bp_THUGE_pos : 0 < THUGE g.
  Proof. apply bp_pow2_pos. Qed.

  Lemma bp_TF_pos : 0 < TF g.
  Proof. unfold TF. pose proof bp_HF_pos. pose proof bp_THUGE_pos. nia. Qed.

  Lemma bp_HF_lt_MARK : HF g < MARK.
  Proof.
    destruct WF as (_ & H15 & _). unfold HF, MARK.
    apply N.le_lt_trans with (2 ^ 15); [|reflexivity].
    apply N.pow_le_mono_r; [discriminate | lia].
  Qed.

  Lemma bp_THUGE_nat : THUGE g = N.of_nat (thuge_nat g).
  Proof. unfold THUGE, thuge_nat. rewrite bp_of_nat_pow2. reflexivity. Qed.

  Lemma bp_pow2_HF k : (k <= hord g)%nat -> HF g = pow2 k * pow2 (hord g - k).
  Proof.
    intros H. unfold HF, pow2. rewrite <- N.pow_add_r. f_equal. lia.
  Qed.

  Lemma bp_pow2_le_HF k : (k <= hord g)%nat -> pow2 k <= HF g.
  Proof. intros H. unfold HF, pow2. apply N.pow_le_mono_r; [discriminate | lia]. Qed.

  Lemma bp_pow2_lt_HF k : (k < hord g)%nat -> 2 * pow2 k <= HF g.
  Proof.
    intros H. unfold HF, pow2. replace (N.of_nat (hord g)) with (N.succ (N.of_nat (hord g - 1))) by lia.
    rewrite N.pow_succ_r'. apply N.mul_le_mono_l. apply N.pow_le_mono_r; [discriminate | lia].
  Qed.
End Geo.

(* ---------- rows_bits ---------- *)
Lemma bp_testbit_high64 r i : r < W64 -> 64 <= i -> N.testbit r i = false.
Proof. intros Hr Hi. apply testbit_high with 64; [rewrite <- W64_pow|]; assumption. Qed.

Lemma bp_rows_bits_lt rows : Forall (fun r => r < W64) rows -> rows_bits rows < 2 ^ (64 * N.of_nat (length rows)).
Proof.
  induction 1 as [|r rest Hr _ IH]; cbn [rows_bits length].
  - reflexivity.
  - apply lt_pow2_bits. intros i Hi. rewrite N.lor_spec.
    rewrite (bp_testbit_high64 r i) by (assumption || lia).
    rewrite N.shiftl_spec_high' by lia.
    rewrite (testbit_high _ _ (i - 64) IH) by lia. reflexivity.
Qed.

Lemma bp_rows_bits_testbit rows : Forall (fun r => r < W64) rows -> forall i,
  N.testbit (rows_bits rows) i =
  match nth_error rows (nn (i / 64)) with Some r => N.testbit r (i mod 64) | None => false end.
Proof.
  induction 1 as [|r rest Hr _ IH]; intros i; cbn [rows_bits].
  - rewrite N.bits_0. destruct (nn (i / 64)); reflexivity.
  - rewrite N.lor_spec. destruct (N.lt_ge_cases i 64) as [Hi|Hi].
    + rewrite N.shiftl_spec_low by assumption. rewrite orb_false_r.
      rewrite N.div_small, N.mod_small by assumption. reflexivity.
    + rewrite (bp_testbit_high64 r i) by assumption.
      rewrite N.shiftl_spec_high' by assumption. rewrite IH. cbn [orb].
      assert (E1 : i / 64 = N.succ ((i - 64) / 64)).
      { replace i with ((i - 64) + 1 * 64) at 1 by lia. rewrite N.div_add by discriminate. lia. }
      assert (E2 : i mod 64 = (i - 64) mod 64).
      { replace i with ((i - 64) + 1 * 64) at 1 by lia. rewrite N.mod_add by discriminate. reflexivity. }
      rewrite E1, E2. unfold nn. rewrite N2Nat.inj_succ. reflexivity.
Qed.

Lemma bp_popcount_rows_bits rows : Forall (fun r => r < W64) rows ->
  popcount (rows_bits rows) = fold_right (fun v a => popcount v + a) 0 rows.
Proof.
  induction 1 as [|r rest Hr _ IH]; cbn [rows_bits fold_right].
  - reflexivity.
  - rewrite popcount_lor_disjoint, popcount_shiftl, IH; [reflexivity|].
    apply N.bits_inj. intros i. rewrite N.land_spec, N.bits_0.
    destruct (N.lt_ge_cases i 64) as [Hi|Hi].
    + rewrite N.shiftl_spec_low by assumption. apply andb_false_r.
    + rewrite (bp_testbit_high64 r i) by assumption. reflexivity.
Qed.

Lemma bp_count_zeros_popcount rows : Forall (fun r => r < W64) rows ->
  bf_count_zeros rows + popcount (rows_bits rows) = 64 * N.of_nat (length rows).
Proof.
  intros H. rewrite bp_popcount_rows_bits by assumption. unfold bf_count_zeros.
  induction H as [|r rest Hr _ IH]; cbn [fold_right length].
  - reflexivity.
  - unfold count_zeros64 at 1.
    assert (popcount r <= 64) by (apply bp_popcount_le; rewrite <- W64_pow; assumption). lia.
Qed.

Section BF.
  Variable g : geom.
  Hypothesis WF : wf_geom g.

  Lemma bp_rows_ok_lt rows : rows_ok g rows -> rows_bits rows < 2 ^ HF g.
  Proof.
    intros (Hl & Hf). pose proof (bp_rows_bits_lt rows Hf) as H. rewrite Hl in H.
    rewrite <- (bp_HF_rows_nat g WF) in H. exact H.
  Qed.

  Lemma bp_count_zeros rows : rows_ok g rows -> bf_count_zeros rows + popcount (rows_bits rows) = HF g.
  Proof.
    intros (Hl & Hf). rewrite bp_count_zeros_popcount by assumption. rewrite Hl.
    symmetry; apply bp_HF_rows_nat; assumption.
  Qed.

  Lemma bp_count_zeros_le rows : rows_ok g rows -> bf_count_zeros rows <= HF g.
  Proof. intros H. pose proof (bp_count_zeros rows H). lia. Qed.
End BF.

(* ---------- list plumbing ---------- *)
Lemma bp_Forall_nth {A} (P : A -> Prop) l :
  (forall j x, nth_error l j = Some x -> P x) -> Forall P l.
Proof.
  intros H. apply Forall_forall. intros x Hx. apply In_nth_error in Hx. destruct Hx as (j & Hj). eauto.
Qed.

Lemma bp_Forall_nth_inv {A} (P : A -> Prop) l j x : Forall P l -> nth_error l j = Some x -> P x.
Proof. intros H E. rewrite Forall_forall in H. apply H. eapply nth_error_In; eassumption. Qed.

Lemma bp_Forall_upd {A} (P : A -> Prop) l i x : Forall P l -> P x -> Forall P (upd l i x).
Proof.
  intros H Hx. apply bp_Forall_nth. intros j y Hj.
  destruct (Nat.eq_dec i j) as [->|Hne].
  - destruct (Nat.lt_ge_cases j (length l)) as [Hl|Hl].
    + rewrite nth_error_upd_same in Hj by assumption. congruence.
    + rewrite upd_oob in Hj by assumption. eapply bp_Forall_nth_inv; eassumption.
  - rewrite nth_error_upd_other in Hj by assumption. eapply bp_Forall_nth_inv; eassumption.
Qed.

Lemma bp_nth_error_upd {A} (l : list A) i j x :
  nth_error (upd l i x) j = if Nat.eqb i j then (if Nat.ltb j (length l) then Some x else None) else nth_error l j.
Proof.
  destruct (Nat.eqb_spec i j) as [->|Hne].
  - destruct (Nat.ltb_spec j (length l)) as [Hl|Hl].
    + apply nth_error_upd_same; assumption.
    + rewrite upd_oob by assumption. apply nth_error_None; assumption.
  - apply nth_error_upd_other; assumption.
Qed.

Lemma bp_nth_error_ext {A} (l1 l2 : list A) : (forall j, nth_error l1 j = nth_error l2 j) -> l1 = l2.
Proof.
  revert l2; induction l1 as [|a l1 IH]; intros [|b l2] H.
  - reflexivity.
  - specialize (H 0%nat); discriminate.
  - specialize (H 0%nat); discriminate.
  - pose proof (H 0%nat) as H0. cbn in H0. injection H0 as ->. f_equal. apply IH. intros j. exact (H (S j)).
Qed.

(* ---------- toggle_rows ---------- *)
Lemma bp_toggle_rows_some (b : bool) : forall n rows r rows',
  toggle_rows rows r n b = Some rows' ->
  length rows' = length rows /\
  (forall j, (r <= j < r + n)%nat -> nth_error rows j = Some (if b then MAX64 else 0)) /\
  (forall j, nth_error rows' j =
             if (r <=? j)%nat && (j <? r + n)%nat then Some (if b then 0 else MAX64) else nth_error rows j).
Proof.
  induction n as [|n IH]; intros rows r rows' H; cbn [toggle_rows] in H.
  - injection H as <-. split; [reflexivity|]. split; [intros; lia|].
    intros j. destruct (Nat.leb_spec r j), (Nat.ltb_spec j (r + 0)); cbn [andb]; try reflexivity; lia.
  - destruct (nth_error rows r) as [v|] eqn:Ev; [|discriminate].
    destruct (N.eqb_spec v (if b then MAX64 else 0)) as [->|]; [|discriminate].
    apply IH in H. destruct H as (Hl & Ha & Hb). rewrite upd_length in Hl.
    assert (Hr : (r < length rows)%nat) by (apply nth_error_Some; congruence).
    split; [exact Hl|]. split.
    + intros j Hj. destruct (Nat.eq_dec j r) as [->|Hne]; [exact Ev|].
      rewrite <- (Ha j) by lia. symmetry. apply nth_error_upd_other. lia.
    + intros j. rewrite Hb. rewrite bp_nth_error_upd.
      destruct (Nat.leb_spec (S r) j), (Nat.ltb_spec j (S r + n)), (Nat.leb_spec r j),
        (Nat.ltb_spec j (r + S n)), (Nat.eqb_spec r j); cbn [andb]; try reflexivity; try lia.
      subst j. destruct (Nat.ltb_spec r (length rows)); [reflexivity | lia].
Qed.

Lemma bp_toggle_rows_complete (b : bool) : forall n rows r,
  (forall j, (r <= j < r + n)%nat -> nth_error rows j = Some (if b then MAX64 else 0)) ->
  exists rows', toggle_rows rows r n b = Some rows'.
Proof.
  induction n as [|n IH]; intros rows r H; cbn [toggle_rows].
  - eauto.
  - rewrite (H r) by lia. rewrite N.eqb_refl. apply IH. intros j Hj.
    rewrite nth_error_upd_other by lia. apply H. lia.
Qed.

(* ---------- alignment ---------- *)
Lemma bp_pow2_split k m : (k <= m)%nat -> pow2 m = pow2 k * pow2 (m - k).
Proof. intros H. unfold pow2. rewrite <- N.pow_add_r. f_equal. lia. Qed.

Lemma bp_pow2_nz k : pow2 k <> 0.
Proof. apply N.pow_nonzero. discriminate. Qed.

Lemma bp_aligned_fit k m x : (k <= m)%nat -> x mod pow2 k = 0 ->
  (x mod pow2 m) mod pow2 k = 0 /\ x mod pow2 m + pow2 k <= pow2 m.
Proof.
  intros Hkm Hx. pose proof (bp_pow2_nz k) as Hk. pose proof (bp_pow2_nz (m - k)) as Hmk.
  assert (E : (x mod pow2 m) mod pow2 k = 0).
  { rewrite (bp_pow2_split k m Hkm). rewrite mod_mod_mul by assumption. exact Hx. }
  split; [exact E|].
  assert (L : x mod pow2 m < pow2 m) by (apply N.mod_lt, bp_pow2_nz).
  rewrite (bp_pow2_split k m Hkm) in *.
  pose proof (N.div_mod (x mod (pow2 k * pow2 (m - k))) (pow2 k) Hk) as D. rewrite E in D.
  revert L D. generalize (x mod (pow2 k * pow2 (m - k))) as y.
  generalize (pow2 k) as a, (pow2 (m - k)) as c. intros a c y. generalize (y / a) as q.
  intros q L D. assert (q < c) by nia. nia.
Qed.

(* ---------- bf_toggle with expected = true ---------- *)
Lemma bp_div64 r t : t < 64 -> (64 * r + t) / 64 = r /\ (64 * r + t) mod 64 = t.
Proof.
  intros Ht. split.
  - symmetry. apply (N.div_unique (64 * r + t) 64 r t); [assumption | reflexivity].
  - symmetry. apply (N.mod_unique (64 * r + t) 64 r t); [assumption | reflexivity].
Qed.

Ltac dm64 i := pose proof (N.div_mod i 64 ltac:(discriminate)); pose proof (N.mod_lt i 64 ltac:(discriminate)).

Lemma bp_upd_row_bits rows r e e' :
  Forall (fun r => r < W64) rows -> nth_error rows (nn r) = Some e -> e' < W64 ->
  forall i, N.testbit (rows_bits (upd rows (nn r) e')) i =
            if i / 64 =? r then N.testbit e' (i mod 64) else N.testbit (rows_bits rows) i.
Proof.
  intros Hf He He' i. rewrite bp_rows_bits_testbit by (apply bp_Forall_upd; assumption).
  rewrite bp_rows_bits_testbit by assumption. rewrite bp_nth_error_upd.
  assert (nn r < length rows)%nat by (apply nth_error_Some; congruence).
  destruct (N.eqb_spec (i / 64) r) as [->|Hne].
  - rewrite Nat.eqb_refl. destruct (Nat.ltb_spec (nn r) (length rows)); [reflexivity | lia].
  - destruct (Nat.eqb_spec (nn r) (nn (i / 64))); [exfalso; unfold nn in *; lia | reflexivity].
Qed.

Lemma bp_land_lt a b : a < W64 -> N.land a b < W64.
Proof.
  intros Ha. rewrite W64_pow. apply lt_pow2_bits. intros i Hi. rewrite N.land_spec.
  rewrite (bp_testbit_high64 a i) by assumption. reflexivity.
Qed.

Lemma bp_mod64_of_aligned f k : (6 <= k)%nat -> f mod pow2 k = 0 -> f mod 64 = 0.
Proof.
  intros Hk Hf. change 64 with (pow2 6). rewrite <- (mod_mod_mul f (pow2 6) (pow2 (k - 6))).
  - rewrite <- (bp_pow2_split 6 k Hk), Hf. reflexivity.
  - apply bp_pow2_nz.
  - apply bp_pow2_nz.
Qed.

Lemma bp_in_row p r s w i : p = 64 * r + s -> s + w <= 64 ->
  (p <=? i) && (i <? p + w) = (i / 64 =? r) && ((s <=? i mod 64) && (i mod 64 <? s + w)).
Proof.
  intros Ep Hs. pose proof (N.div_mod i 64 ltac:(discriminate)) as D.
  pose proof (N.mod_lt i 64 ltac:(discriminate)) as L.
  revert D L. generalize (i / 64) as q, (i mod 64) as t. intros q t D L. subst p i.
  destruct (N.eqb_spec q r) as [->|Hne].
  - destruct (N.leb_spec (64 * r + s) (64 * r + t)), (N.ltb_spec (64 * r + t) (64 * r + s + w)),
      (N.leb_spec s t), (N.ltb_spec t (s + w)); cbn [andb]; try reflexivity; exfalso; lia.
  - destruct (N.leb_spec (64 * r + s) (64 * q + t)), (N.ltb_spec (64 * q + t) (64 * r + s + w));
      cbn [andb]; try reflexivity; exfalso; lia.
Qed.

Lemma bp_toggle_rows_true rows di nr : Forall (fun r => r < W64) rows -> (di + nr <= length rows)%nat ->
  let p := 64 * N.of_nat di in let w := 64 * N.of_nat nr in
  match toggle_rows rows di nr true with
  | Some rows' =>
      length rows' = length rows /\ Forall (fun r => r < W64) rows' /\
      (forall i, p <= i < p + w -> N.testbit (rows_bits rows) i = true) /\
      (forall i, N.testbit (rows_bits rows') i = N.testbit (rows_bits rows) i && negb ((p <=? i) && (i <? p + w)))
  | None => ~ (forall i, p <= i < p + w -> N.testbit (rows_bits rows) i = true)
  end.
Proof.
  intros Hf Hlen p w. subst p w.
  destruct (toggle_rows rows di nr true) as [rows'|] eqn:T.
  - apply bp_toggle_rows_some in T. destruct T as (Hl' & Hold & Hnew).
    assert (Hf' : Forall (fun r => r < W64) rows').
    { apply bp_Forall_nth. intros j x Hj. rewrite Hnew in Hj.
      destruct ((di <=? j)%nat && (j <? di + nr)%nat).
      - injection Hj as <-. reflexivity.
      - exact (bp_Forall_nth_inv _ _ _ _ Hf Hj). }
    split; [exact Hl'|]. split; [exact Hf'|]. split.
    + intros i Hi. dm64 i. rewrite bp_rows_bits_testbit by assumption.
      rewrite Hold by (unfold nn; lia). rewrite MAX64_ones. apply N.ones_spec_low. assumption.
    + intros i. dm64 i. rewrite !bp_rows_bits_testbit by assumption. rewrite Hnew.
      destruct (Nat.leb_spec di (nn (i / 64))), (Nat.ltb_spec (nn (i / 64)) (di + nr)),
        (N.leb_spec (64 * N.of_nat di) i), (N.ltb_spec i (64 * N.of_nat di + 64 * N.of_nat nr)); cbn [andb negb];
        try (exfalso; unfold nn in *; lia).
      all: try (rewrite N.bits_0, andb_false_r; reflexivity); try (rewrite andb_true_r; reflexivity).
  - intros Hall.
    destruct (bp_toggle_rows_complete true nr rows di) as (rows' & T'); [|congruence].
    intros j Hj. destruct (nth_error rows j) as [v|] eqn:Ev.
    2:{ apply nth_error_None in Ev. lia. }
    f_equal. rewrite MAX64_ones. apply bp_eq_ones.
    + rewrite <- W64_pow. exact (bp_Forall_nth_inv _ _ _ _ Hf Ev).
    + intros t Ht. specialize (Hall (64 * N.of_nat j + t)).
      rewrite bp_rows_bits_testbit in Hall by assumption.
      destruct (bp_div64 (N.of_nat j) t Ht) as (E1 & E2). rewrite E1, E2 in Hall.
      replace (nn (N.of_nat j)) with j in Hall by (unfold nn; lia).
      rewrite Ev in Hall. apply Hall. lia.
Qed.

Section Toggle.
  Variable g : geom.
  Hypothesis WF : wf_geom g.

  Lemma bp_ROWS_nz : ROWS g <> 0.
  Proof. pose proof (bp_ROWS_pos g WF). lia. Qed.

  Lemma bp_pos_row f : (f / 64) mod ROWS g = (f mod HF g) / 64.
  Proof. rewrite (bp_HF_rows g WF). symmetry. apply div_mod_mul; [discriminate | apply bp_ROWS_nz]. Qed.

  Lemma bp_pos_bit f : f mod 64 = (f mod HF g) mod 64.
  Proof. rewrite (bp_HF_rows g WF). symmetry. apply mod_mod_mul; [discriminate | apply bp_ROWS_nz]. Qed.

  Lemma bp_row_lt f : (f / 64) mod ROWS g < ROWS g.
  Proof. apply N.mod_lt, bp_ROWS_nz. Qed.

  Lemma bp_HF_pow2 : HF g = pow2 (hord g).
  Proof. reflexivity. Qed.

  Definition toggle_true_post (rows : list N) (p w : N) (r : option (list N)) : Prop :=
    match r with
    | Some rows' =>
        rows_ok g rows' /\
        (forall i, p <= i < p + w -> N.testbit (rows_bits rows) i = true) /\
        (forall i, N.testbit (rows_bits rows') i =
                   N.testbit (rows_bits rows) i && negb ((p <=? i) && (i <? p + w)))
    | None => ~ (forall i, p <= i < p + w -> N.testbit (rows_bits rows) i = true)
    end.

  Lemma bp_toggle_true_small rows f k : rows_ok g rows -> (k <= 6)%nat -> f mod pow2 k = 0 ->
    toggle_true_post rows (f mod HF g) (pow2 k) (bf_toggle g rows f k true).
  Proof.
    intros (Hl & Hf) Hk Ha. unfold bf_toggle.
    destruct (Nat.leb_spec k 6) as [_|]; [|lia].
    pose proof (bp_row_lt f) as Hr. pose proof (bp_pos_row f) as Er. pose proof (bp_pos_bit f) as Eb.
    destruct (bp_aligned_fit k 6 f Hk Ha) as (_ & Hfit). change (pow2 6) with 64 in Hfit.
    set (r := (f / 64) mod ROWS g) in *. set (s := f mod 64) in *. set (p := f mod HF g) in *.
    set (w := pow2 k) in *.
    assert (Ep : p = 64 * r + s) by (rewrite Er, Eb; apply N.div_mod; discriminate).
    assert (Hs : s < 64) by (apply N.mod_lt; discriminate).
    clearbody r s p w. clear Er Eb Ha.
    rewrite (bp_ROWS_nat g WF), <- Hl in Hr.
    unfold row_at. destruct (nth_error rows (nn r)) as [e|] eqn:He.
    2:{ apply nth_error_None in He. unfold nn in He. lia. }
    assert (Hrow : forall i, i / 64 = r -> N.testbit (rows_bits rows) i = N.testbit e (i mod 64)).
    { intros i Hi. rewrite bp_rows_bits_testbit by assumption. rewrite Hi, He. reflexivity. }
    assert (Hin : forall i, (p <=? i) && (i <? p + w) = (i / 64 =? r) && ((s <=? i mod 64) && (i mod 64 <? s + w))).
    { intros i. apply bp_in_row; assumption. }
    destruct (N.land e (mask64 w s) =? mask64 w s) eqn:C.
    - pose proof (proj1 (bp_land_eq_mask _ _) C) as Hm. cbn [toggle_true_post].
      assert (He' : N.land e (not64 (mask64 w s)) < W64).
      { apply bp_land_lt. exact (bp_Forall_nth_inv _ _ _ _ Hf He). }
      split; [|split].
      + split; [rewrite upd_length; exact Hl | apply bp_Forall_upd; assumption].
      + intros i Hi. assert (T := Hin i).
        destruct (N.leb_spec p i), (N.ltb_spec i (p + w)); try lia. cbn [andb] in T.
        symmetry in T. apply andb_true_iff in T. destruct T as (T1 & T2). apply N.eqb_eq in T1.
        rewrite Hrow by assumption. apply Hm. rewrite bp_testbit_mask64. exact T2.
      + intros i. rewrite (bp_upd_row_bits rows r e) by assumption. rewrite Hin.
        destruct (N.eqb_spec (i / 64) r) as [Ei|Ei].
        * rewrite Hrow by assumption. rewrite N.land_spec, not64_spec, bp_testbit_mask64.
          assert (i mod 64 < 64) by (apply N.mod_lt; discriminate).
          destruct (N.ltb_spec (i mod 64) 64); [|lia]. reflexivity.
        * cbn [andb negb]. rewrite andb_true_r. reflexivity.
    - cbn [toggle_true_post]. intros Hall.
      assert (C' : (N.land e (mask64 w s) =? mask64 w s) = true).
      { apply bp_land_eq_mask. intros t Ht. rewrite bp_testbit_mask64 in Ht.
        apply andb_true_iff in Ht. destruct Ht as (T1 & T2). apply N.leb_le in T1. apply N.ltb_lt in T2.
        destruct (bp_div64 r t) as (E1 & E2); [lia|].
        rewrite <- E2, <- (Hrow (64 * r + t) E1). apply Hall. lia. }
      congruence.
  Qed.

  Lemma bp_toggle_true_large rows f k : rows_ok g rows -> (6 < k)%nat -> (k <= hord g)%nat -> f mod pow2 k = 0 ->
    toggle_true_post rows (f mod HF g) (pow2 k) (bf_toggle g rows f k true).
  Proof.
    intros (Hl & Hf) Hk Hkh Ha. unfold bf_toggle.
    destruct (Nat.leb_spec k 6) as [|_]; [lia|].
    assert (Ep : f mod HF g = 64 * N.of_nat (nn ((f / 64) mod ROWS g))).
    { unfold nn. rewrite N2Nat.id, bp_pos_row.
      pose proof (N.div_mod (f mod HF g) 64 ltac:(discriminate)) as D.
      rewrite <- bp_pos_bit, (bp_mod64_of_aligned f k) in D by (lia || assumption).
      revert D. generalize (f mod HF g / 64) (f mod HF g). intros; lia. }
    assert (Ew : pow2 k = 64 * N.of_nat (Nat.pow 2 (k - 6))).
    { rewrite bp_of_nat_pow2. rewrite (bp_pow2_split 6 k) by lia. reflexivity. }
    assert (Hfit : (nn ((f / 64) mod ROWS g) + Nat.pow 2 (k - 6) <= length rows)%nat).
    { destruct (bp_aligned_fit k (hord g) f Hkh Ha) as (_ & Hfit). rewrite <- bp_HF_pow2 in Hfit.
      rewrite Ep, Ew in Hfit. rewrite (bp_HF_rows_nat g WF), <- Hl in Hfit.
      revert Hfit. generalize (nn ((f / 64) mod ROWS g)) (Nat.pow 2 (k - 6)) (length rows). intros; lia. }
    rewrite Ep, Ew.
    pose proof (bp_toggle_rows_true rows _ _ Hf Hfit) as P. cbv zeta in P.
    revert P. generalize (nn ((f / 64) mod ROWS g)) (Nat.pow 2 (k - 6)). intros di nr P.
    destruct (toggle_rows rows di nr true) as [rows'|]; cbn [toggle_true_post].
    - destruct P as (P1 & P2 & P3 & P4). split; [|split]; try assumption.
      split; [congruence | assumption].
    - exact P.
  Qed.

  Lemma bp_toggle_true rows f k : rows_ok g rows -> (k <= hord g)%nat -> f mod pow2 k = 0 ->
    toggle_true_post rows (f mod HF g) (pow2 k) (bf_toggle g rows f k true).
  Proof.
    intros. destruct (Nat.le_gt_cases k 6).
    - apply bp_toggle_true_small; assumption.
    - apply bp_toggle_true_large; assumption.
  Qed.
End Toggle.

(* ---------- constant bitfields ---------- *)
Lemma bp_nth_error_repeat {A} (a : A) n j : nth_error (repeat a n) j = if (j <? n)%nat then Some a else None.
Proof.
  revert j; induction n as [|n IH]; intros [|j]; cbn [repeat nth_error]; try reflexivity.
  rewrite IH. destruct (Nat.ltb_spec j n), (Nat.ltb_spec (S j) (S n)); try reflexivity; lia.
Qed.

Lemma bp_all_eq_repeat (rows : list N) v : Forall (fun r => r = v) rows -> rows = repeat v (length rows).
Proof. induction 1 as [|r rest -> _ IH]; cbn [length repeat]; [reflexivity | f_equal; exact IH]. Qed.

Lemma bp_Forall_repeat {A} (P : A -> Prop) a n : P a -> Forall P (repeat a n).
Proof. intros H. induction n; cbn [repeat]; constructor; assumption. Qed.

Lemma bp_rows_bits_repeat0 n : rows_bits (repeat 0 n) = 0.
Proof. induction n as [|n IH]; cbn [repeat rows_bits]; [reflexivity|]. rewrite IH. reflexivity. Qed.

Lemma bp_rows_bits_repeat1 n : rows_bits (repeat MAX64 n) = N.ones (64 * N.of_nat n).
Proof.
  apply N.bits_inj. intros i. dm64 i.
  rewrite bp_rows_bits_testbit by (apply bp_Forall_repeat; reflexivity).
  rewrite bp_nth_error_repeat. destruct (Nat.ltb_spec (nn (i / 64)) n).
  - rewrite N.ones_spec_low by (unfold nn in *; lia). rewrite MAX64_ones. apply N.ones_spec_low. assumption.
  - rewrite N.ones_spec_high by (unfold nn in *; lia). reflexivity.
Qed.

Lemma bp_count_zeros_repeat1 n : bf_count_zeros (repeat MAX64 n) = 0.
Proof. induction n as [|n IH]; cbn [repeat bf_count_zeros fold_right]; [reflexivity|]. unfold bf_count_zeros in IH. rewrite IH. reflexivity. Qed.

Lemma bp_count_zeros_repeat0 n : bf_count_zeros (repeat 0 n) = 64 * N.of_nat n.
Proof.
  induction n as [|n IH]; cbn [repeat bf_count_zeros fold_right]; [reflexivity|].
  unfold bf_count_zeros in IH. rewrite IH. change (count_zeros64 0) with 64. lia.
Qed.

Lemma bp_fill_eq rows v : bf_fill rows v = repeat (if v then MAX64 else 0) (length rows).
Proof. unfold bf_fill. induction rows as [|r rest IH]; cbn [map length repeat]; [reflexivity | f_equal; exact IH]. Qed.

Lemma bp_toggle_rows_fill n : toggle_rows (repeat 0 n) 0 n false = Some (repeat MAX64 n).
Proof.
  destruct (bp_toggle_rows_complete false n (repeat 0 n) 0) as (rows' & T).
  { intros j Hj. rewrite bp_nth_error_repeat. destruct (Nat.ltb_spec j n); [reflexivity | lia]. }
  rewrite T. f_equal. apply bp_toggle_rows_some in T. destruct T as (_ & _ & Hn).
  apply bp_nth_error_ext. intros j. rewrite Hn, !bp_nth_error_repeat.
  destruct (Nat.leb_spec 0 j), (Nat.ltb_spec j (0 + n)), (Nat.ltb_spec j n); cbn [andb]; try reflexivity; lia.
Qed.

Section Fill.
  Variable g : geom.
  Hypothesis WF : wf_geom g.

  Lemma bp_rows_ok_repeat v : v < W64 -> rows_ok g (repeat v (rows_nat g)).
  Proof. intros Hv. split; [apply repeat_length | apply bp_Forall_repeat; exact Hv]. Qed.

  Lemma bp_rows_bits_full : rows_bits (repeat MAX64 (rows_nat g)) = N.ones (HF g).
  Proof. rewrite bp_rows_bits_repeat1, <- (bp_HF_rows_nat g WF). reflexivity. Qed.

  (* partial_put_huge's `toggle(0, ORDER, false)` on the (all zero) bitfield of a whole huge frame *)
  Lemma bp_toggle_fill rows : rows_ok g rows -> Forall (fun r => r = 0) rows ->
    bf_toggle g rows 0 (hord g) false = Some (repeat MAX64 (rows_nat g)).
  Proof.
    intros (Hl & _) Hz. apply bp_all_eq_repeat in Hz. rewrite Hl in Hz. subst rows.
    unfold bf_toggle. destruct WF as (H6 & _). destruct (Nat.leb_spec (hord g) 6) as [Hle|Hgt].
    - assert (E : hord g = 6%nat) by lia. unfold rows_nat. rewrite E. reflexivity.
    - rewrite N.div_0_l by discriminate. rewrite N.mod_0_l by (apply bp_ROWS_nz; exact WF).
      apply bp_toggle_rows_fill.
  Qed.
End Fill.

(* ---------- bf_set ---------- *)
Lemma bp_mask64_lt b o : o + b <= 64 -> mask64 b o < W64.
Proof.
  intros H. rewrite W64_pow. apply lt_pow2_bits. intros i Hi. rewrite bp_testbit_mask64.
  destruct (N.leb_spec o i), (N.ltb_spec i (o + b)); cbn [andb]; try reflexivity; lia.
Qed.

Lemma bp_lor_lt a b : a < W64 -> b < W64 -> N.lor a b < W64.
Proof. rewrite W64_pow. apply lor_lt_pow2. Qed.

Lemma bp_set_row_lt v s e r x : x < W64 -> bf_set_row v s e r x < W64.
Proof.
  intros Hx. unfold bf_set_row.
  destruct (N.ltb_spec (N.max s (64 * r)) (N.min e (64 * r + 64))) as [H|H]; [|exact Hx].
  destruct v.
  - apply bp_lor_lt; [exact Hx|]. apply bp_mask64_lt. lia.
  - apply bp_land_lt. exact Hx.
Qed.

Lemma bp_set_row_testbit v s e r x t : t < 64 ->
  N.testbit (bf_set_row v s e r x) t =
  if (s <=? 64 * r + t) && (64 * r + t <? e) then v else N.testbit x t.
Proof.
  intros Ht. unfold bf_set_row.
  destruct (N.ltb_spec (N.max s (64 * r)) (N.min e (64 * r + 64))) as [H|H].
  - assert (Hm : N.testbit (mask64 (N.min e (64 * r + 64) - N.max s (64 * r)) (N.max s (64 * r) - 64 * r)) t
                 = (s <=? 64 * r + t) && (64 * r + t <? e)).
    { rewrite bp_testbit_mask64.
      destruct (N.leb_spec (N.max s (64 * r) - 64 * r) t),
        (N.ltb_spec t (N.max s (64 * r) - 64 * r + (N.min e (64 * r + 64) - N.max s (64 * r)))),
        (N.leb_spec s (64 * r + t)), (N.ltb_spec (64 * r + t) e); cbn [andb]; try reflexivity; exfalso; lia. }
    destruct v.
    + rewrite N.lor_spec, Hm. destruct ((s <=? 64 * r + t) && (64 * r + t <? e)); [apply orb_true_r | apply orb_false_r].
    + rewrite N.land_spec, not64_spec, Hm. destruct (N.ltb_spec t 64); [|lia].
      destruct ((s <=? 64 * r + t) && (64 * r + t <? e)); [apply andb_false_r | apply andb_true_r].
  - destruct (N.leb_spec s (64 * r + t)), (N.ltb_spec (64 * r + t) e); cbn [andb]; try reflexivity; exfalso; lia.
Qed.

Lemma bp_set_from_nth v s e : forall rows r j,
  nth_error (bf_set_from v s e r rows) j = option_map (bf_set_row v s e (r + N.of_nat j)) (nth_error rows j).
Proof.
  induction rows as [|x rest IH]; intros r [|j]; cbn [bf_set_from nth_error option_map]; try reflexivity.
  - rewrite N.add_0_r. reflexivity.
  - rewrite IH. replace (r + 1 + N.of_nat j) with (r + N.of_nat (S j)) by lia. reflexivity.
Qed.

Lemma bp_set_length rows s e v : length (bf_set rows s e v) = length rows.
Proof.
  unfold bf_set. generalize 0. induction rows as [|x rest IH]; intros r; cbn [bf_set_from length]; [reflexivity|].
  rewrite IH. reflexivity.
Qed.

Lemma bp_set_lt rows s e v : Forall (fun r => r < W64) rows -> Forall (fun r => r < W64) (bf_set rows s e v).
Proof.
  intros Hf. apply bp_Forall_nth. intros j x Hj. unfold bf_set in Hj. rewrite bp_set_from_nth in Hj.
  destruct (nth_error rows j) as [y|] eqn:Ey; [|discriminate]. injection Hj as <-.
  apply bp_set_row_lt. exact (bp_Forall_nth_inv _ _ _ _ Hf Ey).
Qed.

Lemma bp_set_testbit rows s e v i : Forall (fun r => r < W64) rows -> i < 64 * N.of_nat (length rows) ->
  N.testbit (rows_bits (bf_set rows s e v)) i =
  if (s <=? i) && (i <? e) then v else N.testbit (rows_bits rows) i.
Proof.
  intros Hf Hi. dm64 i. rewrite !bp_rows_bits_testbit by (try apply bp_set_lt; assumption).
  unfold bf_set. rewrite bp_set_from_nth.
  destruct (nth_error rows (nn (i / 64))) as [x|] eqn:Ex.
  2:{ apply nth_error_None in Ex. unfold nn in Ex. lia. }
  cbn [option_map]. rewrite bp_set_row_testbit by assumption.
  replace (64 * (0 + N.of_nat (nn (i / 64))) + i mod 64) with i by (unfold nn; lia). reflexivity.
Qed.
