(* Common definitions of the llfree-rs model: outcomes, machine words, list helpers.
   Stdlib only. No proofs about the model live here, only generic facts. *)
From Coq Require Export List NArith Bool Lia.
Export ListNotations.
Open Scope N_scope.

Arguments N.add : simpl never.
Arguments N.sub : simpl never.
Arguments N.mul : simpl never.
Arguments N.div : simpl never.
Arguments N.modulo : simpl never.
Arguments N.eqb : simpl never.
Arguments N.ltb : simpl never.
Arguments N.leb : simpl never.
Arguments N.pow : simpl never.
Arguments N.shiftl : simpl never.
Arguments N.shiftr : simpl never.
Arguments N.land : simpl never.
Arguments N.lor : simpl never.
Arguments N.lxor : simpl never.
Arguments N.testbit : simpl never.

(* ---------- outcomes of a call ---------- *)
Inductive error := EMemory | EArgument | EInit.

(* Panic sites of the modelled code (file:line of the pinned source, after the hook commit
   line numbers of core/src/{bitfield,lower,trees,local,llfree,util}.rs are unchanged
   except atomic.rs). *)
Inductive site :=
| SUndoFailedAll          (* atomic.rs  "undo failed" in compare_exchange_all *)
| SFailedUndoToggle       (* bitfield.rs:167 *)
| SFailedUndoSearch       (* bitfield.rs:255 *)
| SRowOrder               (* bitfield.rs:324 unreachable *)
| SSetCrosses             (* bitfield.rs:96 *)
| SIndex (n : N)          (* slice index out of range; n identifies the access *)
| SUndoFailed             (* lower.rs:232 *)
| SUndoUnwrap             (* lower.rs:260 *)
| SIsFreeAssert           (* lower.rs:297-299 *)
| SSplitLast              (* lower.rs:373 / 408 *)
| SReserveAllSub          (* lower.rs:414 *)
| SIncFailed              (* lower.rs:453 *)
| SFailedPartialClear     (* lower.rs:466 *)
| SExceedingRetries       (* lower.rs:470 *)
| SUnreserveFailed        (* trees.rs:193 *)
| STreeFree               (* trees.rs:325/334 free <= TREE_FRAMES *)
| SUnreserveClass         (* trees.rs:392 *)
| SLocalFree              (* local.rs:301 *)
| SInvalidClass           (* local.rs:183, llfree.rs:335 *)
| SNoLocals               (* llfree.rs:337 *)
| SArith (n : N)          (* checked usize arithmetic; n identifies the operation *)
| SValidate (n : N)       (* validate()'s asserts *)
| SField (n : N).         (* bitfield-struct setter range check *)

Inductive res (A : Type) :=
| Ok (a : A)
| Err (e : error)
| Panic (s : site).
Arguments Ok {A} a.
Arguments Err {A} e.
Arguments Panic {A} s.

Definition bind {A B} (r : res A) (f : A -> res B) : res B :=
  match r with Ok a => f a | Err e => Err e | Panic s => Panic s end.
Notation "'do' x <- r ; k" := (bind r (fun x => k)) (at level 200, x pattern, r at level 100, k at level 200).

(* ---------- machine words ---------- *)
Definition W64 : N := 18446744073709551616.   (* 2^64 *)
Definition MAX64 : N := 18446744073709551615.
Definition wrap64 (a : N) : N := a mod W64.
Definition wsub64 (a b : N) : N := (a + W64 - b) mod W64.       (* u64::wrapping_sub, a b < 2^64 *)
Definition not64 (a : N) : N := N.lxor a MAX64.                  (* !a on u64, a < 2^64 *)

(* ones n = 2^n - 1 *)
Definition ones (n : N) : N := N.ones n.

Fixpoint tz_pos (p : positive) : N :=
  match p with xO p' => N.succ (tz_pos p') | _ => 0 end.
(* u64::trailing_zeros (64 for 0) *)
Definition trailing_zeros (v : N) : N := match v with N0 => 64 | Npos p => tz_pos p end.
Fixpoint to_pos (p : positive) : N :=
  match p with xI p' => N.succ (to_pos p') | xO _ => 0 | xH => 1 end.
(* u64::trailing_ones (v < 2^64) *)
Definition trailing_ones (v : N) : N := match v with N0 => 0 | Npos p => to_pos p end.

Fixpoint popcount_pos (p : positive) : N :=
  match p with xI p' => N.succ (popcount_pos p') | xO p' => popcount_pos p' | xH => 1 end.
Definition popcount (v : N) : N := match v with N0 => 0 | Npos p => popcount_pos p end.
(* u64::count_zeros for v < 2^64 *)
Definition count_zeros64 (v : N) : N := 64 - popcount v.

(* ---------- list helpers (total, no defaults leaking into results) ---------- *)
Fixpoint upd {A} (l : list A) (i : nat) (x : A) : list A :=
  match l, i with
  | [], _ => []
  | _ :: r, O => x :: r
  | a :: r, S j => a :: upd r j x
  end.

Definition nn (n : N) : nat := N.to_nat n.

Lemma upd_length {A} (l : list A) i x : length (upd l i x) = length l.
Proof. revert i; induction l; destruct i; simpl; auto. Qed.
Lemma nth_error_upd_same {A} (l : list A) i x : (i < length l)%nat -> nth_error (upd l i x) i = Some x.
Proof. revert i; induction l; destruct i; simpl; intros; try lia; auto. apply IHl; lia. Qed.
Lemma nth_error_upd_other {A} (l : list A) i j x : i <> j -> nth_error (upd l i x) j = nth_error l j.
Proof. revert i j; induction l; destruct i, j; simpl; intros; try lia; auto. Qed.
Lemma upd_oob {A} (l : list A) i x : (length l <= i)%nat -> upd l i x = l.
Proof. revert i; induction l; destruct i; simpl; intros; try lia; auto. f_equal; apply IHl; lia. Qed.
