(* Index arithmetic of calls: where the block / the search position of a call lies in the
   (huge frame, row, bit) decomposition.  Everything here is static (geometry, `frames`, the call). *)
From Coq Require Import PeanoNat.
From LLF Require Import Base BitLemmas Row RowProofs Bitfield Lower Spec LowerMachine ConcBase ConcInvDef.

Lemma aligned_fit A M x : A <> 0 -> M mod A = 0 -> x mod A = 0 -> x < M -> x + A <= M.
Proof.
  intros HA HM Hx Hlt.
  pose proof (N.div_mod M A HA) as E1. pose proof (N.div_mod x A HA) as E2. rewrite HM in E1. rewrite Hx in E2.
  assert (x / A < M / A) by nia. nia.
Qed.
Lemma mod_mul_l a b c : b <> 0 -> c <> 0 -> (c * a) mod (c * b) = c * (a mod b).
Proof. intros. apply N.mul_mod_distr_l; assumption. Qed.
Lemma mod_of_multiple f A B : A <> 0 -> B <> 0 -> f mod (A * B) = 0 -> f mod A = 0.
Proof.
  intros HA HB H. assert (HAB : A * B <> 0) by nia. pose proof (N.div_mod f (A * B) HAB) as E. rewrite H in E.
  rewrite E, N.add_0_r. replace (A * B * (f / (A * B))) with ((B * (f / (A * B))) * A) by lia. apply N.mod_mul. exact HA.
Qed.
(* the remainder modulo a multiple keeps the alignment *)
Lemma mod_mod_aligned f A B : A <> 0 -> B <> 0 -> f mod A = 0 -> (f mod (A * B)) mod A = 0.
Proof.
  intros HA HB H. pose proof (N.div_mod f A HA) as E. rewrite H, N.add_0_r in E.
  rewrite E at 1. rewrite mod_mul_l by assumption. rewrite N.mul_comm. apply N.mod_mul. exact HA.
Qed.
Lemma div_of_aligned f A B : A <> 0 -> B <> 0 -> f mod (A * B) = 0 -> (f / A) mod B = 0.
Proof.
  intros HA HB H. assert (HAB : A * B <> 0) by nia. pose proof (N.div_mod f (A * B) HAB) as E. rewrite H, N.add_0_r in E.
  rewrite E at 1. replace (A * B * (f / (A * B))) with ((B * (f / (A * B))) * A) by lia.
  rewrite N.div_mul by exact HA. rewrite N.mul_comm. apply N.mod_mul. exact HB.
Qed.

Section Geom.
  Variable g : geom.
  Hypothesis wf : wf_geom g.
  Notation HF := (HF g).
  Notation TF := (TF g).
  Notation THUGE := (THUGE g).
  Notation ROWS := (ROWS g).

  (* ----- sizes ----- *)
  Lemma div_ceil_spec a b : b <> 0 -> a <= div_ceil a b * b /\ (div_ceil a b <> 0 -> (div_ceil a b - 1) * b < a).
  Proof.
    intros Hb. unfold div_ceil. pose proof (N.div_mod (a + b - 1) b Hb) as E. pose proof (N.mod_lt (a + b - 1) b Hb) as L.
    split; [nia|]. intros Hn. nia.
  Qed.
  Lemma lt_nbf fr f : f < fr -> f / HF < nbf g fr.
  Proof.
    intros H. pose proof (HF_pos g) as P. assert (Hb : HF <> 0) by lia.
    destruct (div_ceil_spec fr HF Hb) as [H1 _]. unfold nbf.
    pose proof (N.div_mod f HF Hb) as E. pose proof (N.mod_lt f HF Hb) as L.
    destruct (N.lt_ge_cases (f / HF) (div_ceil fr HF)) as [?|Hge]; [assumption|]. exfalso. nia.
  Qed.
  Lemma nbf_lt fr h : h < nbf g fr -> h * HF < fr.
  Proof.
    intros H. pose proof (HF_pos g) as P. assert (Hb : HF <> 0) by lia.
    destruct (div_ceil_spec fr HF Hb) as [_ H2]. unfold nbf in *. specialize (H2 ltac:(lia)). nia.
  Qed.
  Lemma nbf_le_ents fr : nbf g fr <= ntab g fr * THUGE.
  Proof.
    pose proof (HF_pos g) as P. pose proof (TF_pos g) as PT. assert (Hb : HF <> 0) by lia. assert (Ht : TF <> 0) by lia.
    destruct (div_ceil_spec fr TF Ht) as [H1 _]. destruct (div_ceil_spec fr HF Hb) as [_ H2].
    unfold nbf, ntab in *. set (D := div_ceil fr TF) in *. unfold Bitfield.TF in H1.
    destruct (N.eq_dec (div_ceil fr HF) 0) as [->|Hn]; [lia|]. specialize (H2 Hn).
    destruct (N.lt_ge_cases (D * THUGE) (div_ceil fr HF)) as [Hlt|?]; [|assumption]. exfalso.
    assert (D * THUGE * HF <= (div_ceil fr HF - 1) * HF) by (apply N.mul_le_mono_r; lia). lia.
  Qed.

  (* ----- a small block (f, k), aligned ----- *)
  Section SmallBlock.
    Variables (f : N) (k : nat).
    Hypothesis Hal : f mod pow2 k = 0.
    Hypothesis Hk : (k < hord g)%nat.
    Let h := f / HF.
    Let r0 := (f / 64) mod ROWS.
    Let off := f mod 64.

    Lemma small_decomp : f = fidx g h r0 off /\ r0 < ROWS /\ off < 64.
    Proof.
      pose proof (ROWS_pos g wf) as PR. unfold fidx, h, r0, off.
      assert (E : f / HF = f / 64 / ROWS) by (rewrite (HF_64 g wf), N.div_div by lia; reflexivity).
      rewrite E. pose proof (N.div_mod f 64 ltac:(lia)). pose proof (N.div_mod (f / 64) ROWS ltac:(lia)).
      pose proof (N.mod_lt f 64 ltac:(lia)). pose proof (N.mod_lt (f / 64) ROWS ltac:(lia)).
      rewrite (HF_64 g wf). repeat split; nia.
    Qed.
    Lemma small_fit6 : (k <= 6)%nat -> off + pow2 k <= 64.
    Proof.
      intros H6. unfold off. pose proof (pow2_nz k). pose proof (pow2_nz (6 - k)).
      apply aligned_fit; [assumption| | |apply N.mod_lt; lia].
      - change 64 with (pow2 6). rewrite (pow2_split k 6) by lia. apply N.mod_mul. assumption.
      - change 64 with (pow2 6). rewrite (pow2_split k 6), (N.mul_comm (pow2 (6 - k))) by lia.
        apply mod_mod_aligned; assumption.
    Qed.
    Lemma small_rows7 : (7 <= k)%nat -> off = 0 /\ pow2 k = 64 * pow2 (k - 6) /\ r0 + pow2 (k - 6) <= ROWS.
    Proof.
      intros H7. pose proof (pow2_nz (k - 6)). pose proof (ROWS_pos g wf) as PR.
      assert (Ek : pow2 k = 64 * pow2 (k - 6)) by (rewrite (pow2_split 6 k), pow2_6 by lia; lia).
      rewrite Ek in Hal. split; [|split; [exact Ek|]].
      - unfold off. apply (mod_of_multiple f 64 (pow2 (k - 6))); [lia|assumption|exact Hal].
      - unfold r0. apply aligned_fit; [assumption| | |apply N.mod_lt; lia].
        + rewrite (ROWS_pow2 g wf), (pow2_split (k - 6) (hord g - 6)) by lia. apply N.mod_mul. assumption.
        + rewrite (ROWS_pow2 g wf), (pow2_split (k - 6) (hord g - 6)), (N.mul_comm (pow2 _)) by lia.
          apply mod_mod_aligned; [assumption|apply pow2_nz|]. apply div_of_aligned; [lia|assumption|exact Hal].
    Qed.
    Lemma small_in_huge : f mod HF + pow2 k <= HF.
    Proof.
      pose proof (pow2_nz k). pose proof (HF_pos g).
      apply aligned_fit; [assumption| | |apply N.mod_lt; lia].
      - rewrite HF_pow2, (pow2_split k (hord g)) by lia. apply N.mod_mul. assumption.
      - rewrite HF_pow2, (pow2_split k (hord g)), (N.mul_comm (pow2 _)) by lia. apply mod_mod_aligned; [assumption|apply pow2_nz|exact Hal].
    Qed.
  End SmallBlock.

  (* ----- what the local facts say about the ghost of a thread ----- *)
  (* the owned interval starts at a frame of the focus huge frame *)
  Definition anchored (G : ghost) : Prop :=
    0 < own_n G /\ exists r i, r < ROWS /\ i < 64 /\ own_lo G = fidx g (g_h G) r i.
  Record gwf (G : ghost) : Prop := {
    W_tr : tr_lo G + tr_n G <= ROWS;
    W_nd : nd G = true -> 0 < p_n G \/ anchored G;
    W_trn : 0 < tr_n G -> nd G = true \/ anchored G
  }.

  Lemma gwf_gh0 : gwf gh0.
  Proof. pose proof (ROWS_pos g wf). constructor; cbn; intros; try lia; discriminate. Qed.
  Lemma gwf_gown lo n : gwf (gown lo n).
  Proof. pose proof (ROWS_pos g wf). constructor; cbn; intros; try lia; discriminate. Qed.
  Lemma gwf_ghuge lo n : gwf (ghuge lo n).
  Proof. pose proof (ROWS_pos g wf). constructor; cbn; intros; try lia; discriminate. Qed.
  Lemma gwf_gtr h n lo cnt : 0 < n -> lo + cnt <= ROWS -> gwf (gtr h n lo cnt).
  Proof. intros. constructor; cbn; intros; auto. Qed.
  Lemma gwf_gpend h n : 0 < n -> gwf (gpend h n).
  Proof. intros. pose proof (ROWS_pos g wf). constructor; cbn; intros; auto; lia. Qed.

  (* the block of a small get_at / put *)
  Lemma small_call_decomp fr c : cwf g fr c = true -> small g c = true -> is_get c = false ->
    c_frame c = fidx g (c_huge g c) (t_row g XPut c) (t_off XPut c) /\ t_row g XPut c < ROWS /\ t_off XPut c < 64 /\
    c_frame c mod pow2 (c_order c) = 0 /\ c_frame c + c_n c <= fr /\ c_huge g c < nbf g fr.
  Proof.
    intros Hc Hs Hg. unfold small in Hs. apply Nat.ltb_lt in Hs.
    assert (Hal : c_frame c mod pow2 (c_order c) = 0 /\ c_frame c + c_n c <= fr).
    { unfold cwf in Hc. destruct c; try discriminate; cbn [c_frame c_order c_n] in *; unfold c_n; cbn [c_order]; lia. }
    destruct Hal as [Hal Hr].
    destruct (small_decomp (c_frame c) (c_order c) Hal Hs) as (E & H1 & H2).
    unfold t_row, t_off, c_huge. repeat split; auto.
    apply lt_nbf. pose proof (pow2_pos (c_order c)). unfold c_n in Hr. lia.
  Qed.

  Lemma is_put_not_get c : is_put c = true -> is_get c = false. Proof. destruct c; cbn; congruence. Qed.
  Lemma is_getat_not_get c : is_getat c = true -> is_get c = false. Proof. destruct c; cbn; congruence. Qed.
  Lemma c_n_pos c : 0 < c_n c. Proof. apply pow2_pos. Qed.

  Lemma anchored_small fr c G : cwf g fr c = true -> small g c = true -> is_get c = false ->
    g_h G = c_huge g c -> own_lo G = c_frame c -> 0 < own_n G -> anchored G.
  Proof.
    intros Hc Hs Hg E1 E2 Hn. destruct (small_call_decomp fr c Hc Hs Hg) as (E & H1 & H2 & _).
    split; [exact Hn|]. exists (t_row g XPut c), (t_off XPut c). rewrite E1, E2. auto.
  Qed.

  (* chunk c of the multi-row search *)
  Lemma chunk_fits c ch q : (7 <= c_order c)%nat -> ch <? c_chunks g c = true -> q <= c_nr c -> ch * c_nr c + q <= ROWS.
  Proof.
    intros H7 Hch Hq. unfold c_chunks in Hch. pose proof (pow2_nz (c_order c - 6)) as Hn. fold (c_nr c) in Hn.
    pose proof (N.mul_div_le ROWS (c_nr c) Hn). apply N.ltb_lt in Hch. nia.
  Qed.

  Lemma t_nrows_split old c : t_nrows g (XSplit old) c = ROWS.
  Proof. unfold t_nrows, t_order. symmetry. apply (ROWS_pow2 g wf). Qed.

  (* rows of a multi-row toggle of the call's own block *)
  Lemma toggle_rows_fit fr c : cwf g fr c = true -> small g c = true -> is_get c = false -> (7 <= c_order c)%nat ->
    t_off XPut c = 0 /\ c_n c = 64 * pow2 (c_order c - 6) /\ t_row g XPut c + pow2 (c_order c - 6) <= ROWS.
  Proof.
    intros Hc Hs Hg H7. destruct (small_call_decomp fr c Hc Hs Hg) as (_ & _ & _ & Hal & _).
    unfold small in Hs. apply Nat.ltb_lt in Hs.
    exact (small_rows7 (c_frame c) (c_order c) Hal Hs H7).
  Qed.

  Ltac anch fr c Hc :=
    apply (anchored_small fr c);
    [exact Hc | lia | apply is_put_not_get; lia | reflexivity
    | cbn [own_lo gput gsplit]; lia | cbn [own_n gput gsplit]; lia].

  (* the huge frames visited by a get lie in the tree of the hint, which has a table *)
  Lemma child_h_lt fr c j : cwf g fr c = true -> is_get c = true -> child_h g c j < ntab g fr * THUGE.
  Proof.
    intros Hc Hg. destruct c as [st o| |]; try discriminate. unfold cwf in Hc.
    unfold child_h, c_tbase. cbn [c_frame] in *. pose proof (THUGE_pos g) as PT.
    pose proof (N.mod_lt (c_choff g (CGet st o) + j) THUGE ltac:(lia)).
    assert (st * 64 / TF + 1 <= ntab g fr) by lia.
    assert ((st * 64 / TF + 1) * THUGE <= ntab g fr * THUGE) by (apply N.mul_le_mono_r; assumption). lia.
  Qed.

  (* ----- huge orders: groups of entries ----- *)
  Lemma huge_call_aligned_geom fr c : cwf g fr c = true -> (hord g <= c_order c)%nat -> is_get c = false ->
    c_frame c = c_huge g c * HF /\ c_n c = c_hnum g c * HF.
  Proof.
    intros Hc Hk Hg. unfold c_n, c_hnum. rewrite (pow2_split (hord g) (c_order c) Hk), <- HF_pow2. split; [|reflexivity].
    assert (Hal : c_frame c mod pow2 (c_order c) = 0) by (unfold cwf in Hc; destruct c; try discriminate; cbn [c_frame c_order] in *; lia).
    rewrite (pow2_split (hord g) (c_order c) Hk), <- HF_pow2 in Hal.
    pose proof (HF_pos g). pose proof (pow2_nz (c_order c - hord g)).
    pose proof (mod_of_multiple (c_frame c) HF (pow2 (c_order c - hord g)) ltac:(lia) ltac:(lia)) as M.
    rewrite (N.mul_comm HF) in M. specialize (M Hal). unfold c_huge. pose proof (N.div_mod (c_frame c) HF ltac:(lia)). lia.
  Qed.
  Lemma le_nbf fr X : X * HF <= fr -> X <= nbf g fr.
  Proof.
    intros H. pose proof (HF_pos g) as P. destruct (div_ceil_spec fr HF ltac:(lia)) as [H1 _]. unfold nbf.
    apply (N.mul_le_mono_pos_r _ _ HF P). lia.
  Qed.
  Lemma hnum_divides c : (hord g <= c_order c)%nat -> (c_order c <= tord g)%nat ->
    THUGE = pow2 (tlog g - (c_order c - hord g)) * c_hnum g c.
  Proof. intros H1 H2. unfold c_hnum, tord in *. rewrite THUGE_pow2. apply pow2_split. lia. Qed.

  Lemma huge_group fr c gi : cwf g fr c = true -> (hord g <= c_order c)%nat ->
    group_h g c gi + c_hnum g c <= ntab g fr * THUGE /\ (group_h g c gi * HF) mod pow2 (c_order c) = 0.
  Proof.
    intros Hc Hk. pose proof (HF_pos g) as PH. pose proof (THUGE_pos g) as PT.
    assert (Hn : c_hnum g c <> 0) by apply pow2_nz.
    assert (Ek : pow2 (c_order c) = c_hnum g c * HF) by (unfold c_hnum; rewrite HF_pow2; apply pow2_split; exact Hk).
    assert (Hto : (c_order c <= tord g)%nat) by (unfold cwf in Hc; lia).
    pose proof (hnum_divides c Hk Hto) as ET. set (m := pow2 (tlog g - (c_order c - hord g))) in *.
    assert (Hm : m <> 0) by apply pow2_nz.
    destruct c as [st o|f o|f o]; cbn [group_h].
    - (* get: the group lies in the tree of the hint *)
      assert (Htree : st * 64 / TF < ntab g fr) by (unfold cwf in Hc; lia).
      set (c := CGet st o) in *.
      set (A := c_choff g c / c_hnum g c).
      assert (EX : (A * c_hnum g c + gi * c_hnum g c) mod THUGE = c_hnum g c * ((A + gi) mod m)).
      { rewrite ET. replace (A * c_hnum g c + gi * c_hnum g c) with (c_hnum g c * (A + gi)) by lia.
        rewrite (N.mul_comm m). apply mod_mul_l; assumption. }
      rewrite EX. pose proof (N.mod_lt (A + gi) m Hm) as Hlt.
      assert (Hfit : c_hnum g c * ((A + gi) mod m) + c_hnum g c <= THUGE) by (rewrite ET; nia).
      unfold c_tbase. subst c. cbn [c_frame]. split.
      + assert (st * 64 / TF + 1 <= ntab g fr) by lia.
        assert ((st * 64 / TF + 1) * THUGE <= ntab g fr * THUGE) by (apply N.mul_le_mono_r; assumption). lia.
      + rewrite Ek, ET.
        replace ((st * 64 / TF * (m * c_hnum g (CGet st o)) + c_hnum g (CGet st o) * ((A + gi) mod m)) * HF)
          with ((st * 64 / TF * m + (A + gi) mod m) * (c_hnum g (CGet st o) * HF)) by lia.
        apply N.mod_mul. nia.
    - destruct (huge_call_aligned_geom fr (CGetAt f o) Hc Hk eq_refl) as [E1 E2].
      assert (Hr : f mod pow2 o = 0 /\ f + pow2 o <= fr) by (unfold cwf in Hc; lia).
      unfold c_n in E2. cbn [c_frame c_order] in *. split.
      + etransitivity; [|apply nbf_le_ents]. apply le_nbf. lia.
      + rewrite <- E1. lia.
    - destruct (huge_call_aligned_geom fr (CPut f o) Hc Hk eq_refl) as [E1 E2].
      assert (Hr : f mod pow2 o = 0 /\ f + pow2 o <= fr) by (unfold cwf in Hc; lia).
      unfold c_n in E2. cbn [c_frame c_order] in *. split.
      + etransitivity; [|apply nbf_le_ents]. apply le_nbf. lia.
      + rewrite <- E1. lia.
  Qed.

  Lemma local_gwf fr x : local_b g fr x = true -> gwf (ghost_of g x).
  Proof.
    pose proof (ROWS_pos g wf) as PR.
    destruct x as [l|c p|s c]; cbn [local_b ghost_of].
    - intros _. apply gwf_gh0.
    - intros H. apply andb_true_iff in H. destruct H as [Hc Hl]. pose proof (c_n_pos c) as Hn.
      destruct p; cbn [gpc lpc] in *;
        try apply gwf_gh0; try (apply gwf_gpend; exact Hn); try apply gwf_gown;
        try (destruct (is_put c); apply gwf_ghuge).
      + (* G2W *) apply gwf_gtr; [exact Hn|]. apply chunk_fits; lia.
      + (* G2U *) apply gwf_gtr; [exact Hn|]. apply chunk_fits; lia.
      + (* TL *) destruct x; cbn [gtoggle ctx_ok] in *.
        * apply gwf_gtr; [exact Hn|]. unfold t_row. pose proof (N.mod_lt (c_frame c / 64) ROWS ltac:(lia)). lia.
        * constructor; cbn; intros; try lia. right.
          anch fr c Hc.
        * constructor; cbn; intros; try lia; discriminate.
      + (* TC *) destruct x; cbn [gtoggle ctx_ok] in *.
        * apply gwf_gtr; [exact Hn|]. unfold t_row. pose proof (N.mod_lt (c_frame c / 64) ROWS ltac:(lia)). lia.
        * constructor; cbn; intros; try lia. right.
          anch fr c Hc.
        * constructor; cbn; intros; try lia; discriminate.
      + (* TN *) destruct x; cbn [gtoggle ctx_ok] in *.
        * apply gwf_gtr; [exact Hn|]. unfold t_row. pose proof (N.mod_lt (c_frame c / 64) ROWS ltac:(lia)). lia.
        * constructor; cbn; intros; try lia. right.
          anch fr c Hc.
        * constructor; cbn; intros; try lia; discriminate.
      + (* TW *) destruct x; unfold t_nrows in *; cbn [gtoggle ctx_ok t_order] in *.
        * apply gwf_gtr; [exact Hn|].
          destruct (toggle_rows_fit fr c) as (_ & _ & Hf); try lia. apply is_getat_not_get; lia.
          change (t_row g XGetAt c) with (t_row g XPut c). lia.
        * destruct (toggle_rows_fit fr c) as (_ & E & Hf); try lia. apply is_put_not_get; lia.
          constructor; cbn; intros; try lia.
          destruct (N.eq_dec q 0) as [->|Hq]; [|left; lia]. right.
          anch fr c Hc.
        * pose proof (ROWS_pow2 g wf) as ER. constructor; cbn; intros; try lia. right.
          anch fr c Hc.
      + (* TU *) destruct x; unfold t_nrows in *; cbn [gtoggle ctx_ok t_order not_xput] in *.
        * apply gwf_gtr; [exact Hn|].
          destruct (toggle_rows_fit fr c) as (_ & _ & Hf); try lia. apply is_getat_not_get; lia.
          change (t_row g XGetAt c) with (t_row g XPut c). lia.
        * exfalso. lia.
        * pose proof (ROWS_pow2 g wf) as ER. constructor; cbn; intros; try lia. right.
          anch fr c Hc.
      + (* PP2 *) constructor; cbn; intros; try lia. right.
        anch fr c Hc.
    - intros H. destruct s; try apply gwf_gh0. apply gwf_gown.
  Qed.
End Geom.
