(* C21 for the upper layer: every call of the whole allocator finishes in a bounded number of steps once
   it runs alone.  Machine: UpperMachine.v (M2).  `usoloN n s t` = n steps of thread t only.
   Proof: a measure on (memory, primitive in progress, continuation stack) = measure of the primitive
   (remaining accesses + one staleness unit for a CAS whose cached value differs from memory; for an
   embedded lower call: the measure `mu` of Progress.v) + the sum of the weights of the frames of the
   stack (remaining loop iterations x cost of one iteration, truncated subtraction for indices out of
   range).  Every step of a running thread whose primitive/stack are well formed (`prim_ok`, `stk_ok`)
   settles the thread or strictly decreases the measure and keeps well-formedness (`ustep_dec`).
   Well-formedness: orders <= tord (so that the embedded pc is `pc_ok`), loop counters of the searches
   within the number of trees, stored results are not panics, and the frames of the stack appear in
   call-graph order (`lvl` strictly decreasing towards the bottom), which bounds the sum of weights by
   `uboundN`: a function of the geometry, the number of trees and the number of slots only. *)
From Coq Require Import PeanoNat ZifyBool.
From LLF Require Import Base Row Bitfield Lower Sorted Upper LowerMachine Progress ConcBase Policies UpperMachine.

(* ---------- lists ---------- *)
Lemma up_nth_lt {A} (l : list A) i x : nth_error l i = Some x -> (i < length l)%nat.
Proof. intros H. apply nth_error_Some. rewrite H. discriminate. Qed.

Lemma tree_eqb_refl t : tree_eqb t t = true.
Proof. unfold tree_eqb. rewrite !N.eqb_refl, Bool.eqb_reflx. reflexivity. Qed.
Lemma slot_eqb_refl s : slot_eqb s s = true.
Proof. unfold slot_eqb. rewrite !N.eqb_refl, Bool.eqb_reflx. reflexivity. Qed.

(* ---------- the configuration: what the bound may depend on ---------- *)
Definition slen (o : option (list slot)) : N := match o with Some l => N.of_nat (length l) | None => 0 end.
Definition nslots (u : upper) : N := sumf slen (locals u).

Lemma class_slots_le u c l : class_slots u c = Some l -> N.of_nat (length l) <= nslots u.
Proof.
  unfold class_slots, nslots. destruct (nth_error (locals u) (nn c)) as [[l'|]|] eqn:E; try discriminate.
  intros H. injection H as <-. exact (sumf_ge slen _ _ _ E).
Qed.

Lemma ntrees_set_tree u i t : ntrees (set_tree u i t) = ntrees u.
Proof. unfold ntrees, set_tree, with_trees. cbn [trees]. rewrite upd_length. reflexivity. Qed.
Lemma nslots_set_tree u i t : nslots (set_tree u i t) = nslots u.
Proof. reflexivity. Qed.
Lemma ntrees_set_slot u c i x : ntrees (set_slot u c i x) = ntrees u.
Proof. unfold set_slot. destruct (class_slots u c); reflexivity. Qed.
Lemma nslots_set_slot u c i x : nslots (set_slot u c i x) = nslots u.
Proof.
  unfold set_slot. destruct (class_slots u c) as [l|] eqn:E; [|reflexivity].
  unfold class_slots in E. destruct (nth_error (locals u) (nn c)) as [[l'|]|] eqn:E'; try discriminate.
  injection E as ->. unfold nslots, with_locals. cbn [locals].
  pose proof (sumf_upd slen (locals u) (nn c) (Some (upd l (nn i) x)) (Some l) E') as H.
  cbn [slen] in H. rewrite upd_length in H. lia.
Qed.

(* ---------- M1 facts needed for the embedded lower calls ---------- *)
(* the measure of Progress.v reads the memory only *)
Lemma mu_ext g s1 s2 c p : ms_ents s1 = ms_ents s2 -> ms_bfs s1 = ms_bfs s2 -> mu g s1 c p = mu g s2 c p.
Proof.
  intros He Hb. unfold mu. f_equal.
  destruct p; cbn [stale]; unfold stale_ent, stale_row, rd_ent, rd_row; rewrite ?He, ?Hb; reflexivity.
Qed.

Lemma entry_pc_ok g c : Nat.leb (c_order c) (tord g) = true -> pc_ok g c (entry_pc g c) = true.
Proof.
  intros H. assert (0 < c_hnum g c) by apply pow2_pos. unfold entry_pc.
  destruct c; cbn [c_order] in *; destruct (Nat.leb (hord g) order) eqn:E; cbn [pc_ok];
    unfold small; cbn [c_order]; lia.
Qed.

(* a call of M1 never completes with a panic as its result (panics stop the thread) *)
Section NoPanicResult.
  Variable g : geom.
  Definition npr (s : mstate) (t : nat) (s' : mstate) : Prop :=
    forall x, nth_error (ms_pool s') t <> Some (TIdle (Some (Panic x))).
  Lemma npr_crash s t c p s1 x : nth_error (ms_pool s) t = Some (TRun c p) ->
    ms_pool s1 = ms_pool s -> npr s t (crash s1 t c x).
  Proof.
    intros Hth Hp y H. rewrite (pool_crash s s1 t c x Hp) in H.
    rewrite nth_error_upd_same in H by (eapply up_nth_lt; exact Hth). discriminate.
  Qed.
  Lemma npr_finish s t c p s1 r : nth_error (ms_pool s) t = Some (TRun c p) ->
    ms_pool s1 = ms_pool s -> (forall x, r <> Panic x) -> npr s t (finish s1 t c r).
  Proof.
    intros Hth Hp Hr y H. rewrite (pool_finish s s1 t c r Hp) in H.
    rewrite nth_error_upd_same in H by (eapply up_nth_lt; exact Hth). injection H as ->. eapply Hr; reflexivity.
  Qed.
  Lemma npr_goto s t c p s1 p1 : nth_error (ms_pool s) t = Some (TRun c p) ->
    ms_pool s1 = ms_pool s -> npr s t (goto s1 t c p1).
  Proof.
    intros Hth Hp y H. rewrite (pool_goto s s1 t c p1 Hp) in H.
    rewrite nth_error_upd_same in H by (eapply up_nth_lt; exact Hth). discriminate.
  Qed.
  Ltac nleaf c :=
    lazymatch goal with
    | |- npr _ _ (crash _ _ _ _) => eapply npr_crash; [eassumption | pool]
    | |- npr _ _ (finish _ _ _ _) => eapply npr_finish; [eassumption | pool | try (destruct c); intros; discriminate]
    | |- npr _ _ (goto _ _ _ _) => eapply npr_goto; [eassumption | pool]
    end.
  Lemma no_panic_result s t c p c0 y : nth_error (ms_pool s) t = Some (TRun c p) ->
    nth_error (ms_pool (fst (mstep g s t c0))) t <> Some (TIdle (Some (Panic y))).
  Proof.
    intros Hth. revert y. change (npr s t (fst (mstep g s t c0))).
    unfold mstep. rewrite Hth.
    destruct p; cbv beta iota zeta.
    all: try (destruct x).
    all: branches.
    all: nleaf c.
  Qed.
End NoPanicResult.

Section UProgress.
  Variable g : geom.
  Variable policy : N -> N -> N -> pol.
  Notation TH := (THUGE g).
  Notation B := (boundN g).

  (* ---------- "the cached value of a CAS-retry primitive is out of date" ---------- *)
  Definition stale_tree (u : upper) (i : N) (cur : tree) : N :=
    match tree_at u i with Some t => if tree_eqb t cur then 0 else 1 | None => 0 end.
  Definition stale_slot (u : upper) (c idx : N) (cur : slot) : N :=
    match slot_at u c idx with Some s => if slot_eqb s cur then 0 else 1 | None => 0 end.

  (* ---------- the measure of the primitive in progress ---------- *)
  Definition TU : N := TH + 2.                       (* a whole tree try_update / update *)
  Definition SU : N := 2.                            (* a whole slot try_update *)
  Definition mprim (u : upper) (p : prim) : N :=
    match p with
    | PLd _ => 1
    | PTL _ _ => TU
    | PTF i _ cur j _ => rem TH j + 2 + stale_tree u i cur * (TH + 2)
    | PTC i _ cur _ => 1 + stale_tree u i cur * (TH + 2)
    | PSL _ _ _ => SU
    | PSC c idx _ cur _ => 1 + stale_slot u c idx cur
    | PSW _ _ _ => 1
    | PLow (TRun c p) => mu g (m1_view u (TRun c p)) c p
    | PLow _ => 1
    end.

  Definition prim_ok (p : prim) : bool :=
    match p with PLow (TRun c pc) => pc_ok g c pc | _ => true end.

  Lemma mprim_pos u p : 1 <= mprim u p.
  Proof.
    destruct p; cbn [mprim]; unfold TU, SU; try lia.
    destruct th; try lia. apply mu_pos.
  Qed.

  Lemma stale_tree_le1 u i t : stale_tree u i t <= 1.
  Proof. unfold stale_tree. destruct (tree_at u i); [destruct (tree_eqb _ _)|]; lia. Qed.
  Lemma stale_slot_le1 u c i t : stale_slot u c i t <= 1.
  Proof. unfold stale_slot. destruct (slot_at u c i); [destruct (slot_eqb _ _)|]; lia. Qed.
  Lemma stale_tree_fresh u i t : tree_at u i = Some t -> stale_tree u i t = 0.
  Proof. intros H. unfold stale_tree. rewrite H, tree_eqb_refl. reflexivity. Qed.
  Lemma stale_slot_fresh u c i t : slot_at u c i = Some t -> stale_slot u c i t = 0.
  Proof. intros H. unfold stale_slot. rewrite H, slot_eqb_refl. reflexivity. Qed.

  Lemma TH_pos : 1 <= TH.
  Proof. rewrite THUGE_pow2. pose proof (pow2_pos (tlog g)). lia. Qed.

  (* panics raised by the closures are not "Exceeding retries" *)
  Lemma tf_apply_site d f t fetch x : tf_apply g policy d f t fetch = Some (Panic x) -> x <> SExceedingRetries.
  Proof.
    destruct f; cbn [tf_apply]; unfold tree_unreserve_add, tree_put.
    all: repeat match goal with
         | |- context [option_map _ ?x] => destruct x; cbn [option_map]
         | |- context [if ?x then _ else _] => destruct x
         | |- context [match ?x with _ => _ end] => destruct x
         end; intros H; try discriminate; injection H as <-; discriminate.
  Qed.
  Lemma sf_apply_site f s x : sf_apply g f s = Some (Panic x) -> x <> SExceedingRetries.
  Proof.
    destruct f; cbn [sf_apply]; unfold slot_put.
    all: repeat match goal with
         | |- context [option_map _ ?x] => destruct x; cbn [option_map]
         | |- context [if ?x then _ else _] => destruct x
         | |- context [match ?x with _ => _ end] => destruct x
         end; intros H; try discriminate; injection H as <-; discriminate.
  Qed.

  (* results and values that are not panics *)
  Definition res_ok {A} (r : res A) : bool := match r with Panic _ => false | _ => true end.
  Definition val_ok (v : val) : bool :=
    match v with VR r => res_ok r | VL r => res_ok r | VG (GPanic _) => false | _ => true end.

  (* ---------- one access: the primitive continues with a smaller measure, or completes ---------- *)
  Definition pdec (u : upper) (p : prim) (u' : upper) (o : outcome) : Prop :=
    ntrees u' = ntrees u /\ nslots u' = nslots u /\
    match o with
    | OStay p' => mprim u' p' < mprim u p /\ prim_ok p' = true
    | OVal v => val_ok v = true
    | OCrash x => x = SExceedingRetries -> exists c i, p = PLow (TRun c (PP3 i))
    end.

  Lemma tu_eval_dec u i f t M : tree_at u i = Some t -> TH + 1 < M ->
    match tu_eval g policy u i f t with
    | OStay p' => mprim u p' < M /\ prim_ok p' = true
    | OVal v => val_ok v = true
    | OCrash x => x <> SExceedingRetries
    end.
  Proof.
    intros Ht HM. pose proof TH_pos. unfold tu_eval. destruct (needs_fetch f t).
    - cbn [mprim prim_ok]. rewrite (stale_tree_fresh u i t Ht). unfold rem. split; [lia|reflexivity].
    - destruct (tf_apply g policy (dflt u) f t 0) as [[new|e|x]|] eqn:E; try reflexivity; try discriminate.
      + cbn [mprim prim_ok]. rewrite (stale_tree_fresh u i t Ht). split; [lia|reflexivity].
      + eapply tf_apply_site; exact E.
  Qed.

  Lemma su_eval_dec u c idx f s M : slot_at u c idx = Some s -> 1 < M ->
    match su_eval g c idx f s with
    | OStay p' => mprim u p' < M /\ prim_ok p' = true
    | OVal v => val_ok v = true
    | OCrash x => x <> SExceedingRetries
    end.
  Proof.
    intros Hs HM. unfold su_eval.
    destruct (sf_apply g f s) as [[new|e|x]|] eqn:E; try reflexivity; try discriminate.
    - cbn [mprim prim_ok]. rewrite (stale_slot_fresh u c idx s Hs). split; [lia|reflexivity].
    - eapply sf_apply_site; exact E.
  Qed.

  Lemma low_step_dec u c pc : prim_ok (PLow (TRun c pc)) = true ->
    let '(u', _, o) := prim_step g policy u (PLow (TRun c pc)) in pdec u (PLow (TRun c pc)) u' o.
  Proof.
    intros Hok. cbn [prim_step].
    set (s0 := m1_view u (TRun c pc)).
    assert (Hth : nth_error (ms_pool s0) 0 = Some (TRun c pc)) by reflexivity.
    pose proof (step_dec g s0 0 c pc c Hth) as [_ Hd].
    pose proof (no_panic_result g s0 0 c pc c) as Hnp.
    pose proof (exceeding_retries_only_PP3 g s0 0 c pc c) as Hex.
    destruct (mstep g s0 0 c) as [ms' ev]. cbn [fst] in *.
    set (u' := with_low u _).
    assert (Hcfg : ntrees u' = ntrees u /\ nslots u' = nslots u) by (split; reflexivity).
    destruct Hcfg as [Hn1 Hn2].
    destruct (nth_error (ms_pool ms') 0) as [[[[x|e|x]|]|c' p'|x c']|] eqn:En.
    all: unfold pdec; split; [exact Hn1|split; [exact Hn2|]]; try reflexivity; try discriminate.
    - intros _. exfalso. eapply Hnp; [exact Hth|reflexivity].
    - destruct Hd as [Hs | (p1 & Hp1 & Hlt & Hk)].
      + unfold Progress.settled in Hs. rewrite En in Hs. discriminate.
      + injection Hp1 as <- <-. cbn [mprim prim_ok].
        split; [|apply Hk; exact Hok].
        rewrite (mu_ext g (m1_view u' (TRun c' p')) ms' c' p') by reflexivity. exact Hlt.
    - intros ->. destruct (Hex c' Hth eq_refl) as (i & ->). exists c, i. reflexivity.
  Qed.

  Lemma pdec_of_eval u p o :
    match o with
    | OStay p' => mprim u p' < mprim u p /\ prim_ok p' = true
    | OVal v => val_ok v = true
    | OCrash x => x <> SExceedingRetries
    end -> pdec u p u o.
  Proof.
    intros H. split; [reflexivity|split; [reflexivity|]]. destruct o; try exact H. intros Hx. contradiction.
  Qed.

  Ltac ctriv := split; [reflexivity | split; [reflexivity | first [reflexivity | intros Hx; discriminate Hx]]].

  Lemma prim_step_dec u p : prim_ok p = true ->
    let '(u', _, o) := prim_step g policy u p in pdec u p u' o.
  Proof.
    intros Hok. pose proof TH_pos as HT.
    destruct p as [i|i f|i f cur j a|i f cur new|c idx f|c idx f cur new|c idx new|th].
    - cbn [prim_step]. destruct (tree_at u i); ctriv.
    - cbn [prim_step]. destruct (tree_at u i) as [t|] eqn:Et; [|ctriv].
      pose proof (tu_eval_dec u i f t (mprim u (PTL i f)) Et) as H.
      apply pdec_of_eval, H. cbn [mprim]. unfold TU. lia.
    - cbn [prim_step]. destruct (nth_error (ents (low u)) (nn (i * TH + j))) as [e|]; [|ctriv].
      destruct (j + 1 <? TH) eqn:Ej.
      + repeat split. cbn [mprim]. apply N.ltb_lt in Ej. rewrite (rem_succ TH j Ej). lia.
      + unfold tu_eval_fetched.
        destruct (tf_apply g policy (dflt u) f cur (a + e_free e)) as [[new|e'|x]|] eqn:E; repeat split; try discriminate.
        * cbn [mprim]. lia.
        * intros ->. exfalso. eapply tf_apply_site; [exact E|reflexivity].
    - cbn [prim_step]. destruct (tree_at u i) as [t|] eqn:Et; [|ctriv].
      destruct (tree_eqb t cur) eqn:Eq.
      + split; [apply ntrees_set_tree|split; [apply nslots_set_tree|reflexivity]].
      + pose proof (tu_eval_dec u i f t (mprim u (PTC i f cur new)) Et) as H.
        apply pdec_of_eval, H. cbn [mprim]. unfold stale_tree. rewrite Et, Eq. lia.
    - cbn [prim_step]. destruct (slot_at u c idx) as [s|] eqn:Es; [|ctriv].
      pose proof (su_eval_dec u c idx f s (mprim u (PSL c idx f)) Es) as H.
      apply pdec_of_eval, H. cbn [mprim]. unfold SU. lia.
    - cbn [prim_step]. destruct (slot_at u c idx) as [s|] eqn:Es; [|ctriv].
      destruct (slot_eqb s cur) eqn:Eq.
      + split; [apply ntrees_set_slot|split; [apply nslots_set_slot|reflexivity]].
      + pose proof (su_eval_dec u c idx f s (mprim u (PSC c idx f cur new)) Es) as H.
        apply pdec_of_eval, H. cbn [mprim]. unfold stale_slot. rewrite Es, Eq. lia.
    - cbn [prim_step]. destruct (slot_at u c idx) as [s|] eqn:Es; [|ctriv].
      split; [apply ntrees_set_slot|split; [apply nslots_set_slot|reflexivity]].
    - destruct th as [r|c pc|x c]; [ctriv| |ctriv].
      apply low_step_dec. exact Hok.
  Qed.
End UProgress.

Section UFrames.
  Variable g : geom.
  Variable policy : N -> N -> N -> pol.
  Notation TH := (THUGE g).
  Notation B := (boundN g).
  Notation TU := (TU g).
  Notation mprim := (mprim g).
  Notation prim_ok := (prim_ok g).

  (* ---------- weights of the continuation frames ---------- *)
  Definition AW : N := TU + B + 1 + TU.                          (* one `access` closure *)
  Definition wsb (sb : sbst) : N :=
    N.of_nat (sb_n sb) * (1 + AW) + N.of_nat (length (sb_best sb)) * AW.
  Definition SBW (nt : N) : N := (nt + 4) * (1 + AW).           (* one search_best *)
  (* remaining (class index, slot index) pairs of a scan over 8 classes with <= ns slots each *)
  Definition scan (ns i j : N) : N := (7 - i) * (ns + 1) + (ns - j).
  Definition SCW (ns : N) : N := 8 * (ns + 1).
  Definition G1f : N := B + SU + TU.
  Definition wGL6 : N := SU + G1f + TU.
  Definition wGL5 : N := TU + SU + wGL6.
  Definition wGL1 (sync : bool) : N := if sync then G1f + TU + wGL5 else G1f.
  Definition SLT : N := B + TU.
  Definition DLT : N := 1 + TU + B + TU.
  Definition SLW (ns : N) : N := SCW ns * SU + SLT.
  Definition DLW (ns : N) : N := SCW ns * SU + DLT.
  Definition wGet2 (ns : N) : N := SLW ns + DLW ns.

  Definition wf (nt ns : N) (f : kframe) : N :=
    match f with
    | KGet1 _ _ => 2 * SBW nt + wGet2 ns
    | KGet2 _ _ => wGet2 ns
    | KOom1 _ _ => DLW ns
    | KAt1 _ _ => TU + B + TU + wGet2 ns
    | KGL1 _ _ _ _ sync => wGL1 sync
    | KGL2 _ _ _ _ => SU + TU
    | KGL3 _ _ | KGL4 _ _ => 0
    | KGL5 _ _ _ _ _ => wGL5
    | KGL6 _ _ _ _ _ _ => wGL6
    | KSR1 _ _ _ _ => SBW nt
    | KSBL sb => wsb sb + AW
    | KSBA sb => wsb sb
    | KSBT _ cands => N.of_nat (length cands) * AW
    | KSe _ _ n => N.of_nat n * AW
    | KRS1 _ _ _ _ => B + 1 + TU
    | KRS2 _ _ _ _ _ _ => 1 + TU
    | KRS3 _ _ => TU
    | KUnres _ | KRetR _ => 0
    | KSG1 _ _ _ => B + TU
    | KSG2 _ _ _ => TU
    | KSL1 _ _ i j => scan ns i j * SU + SLT
    | KSL2 _ _ _ => TU
    | KDL1 _ _ i j => scan ns i j * SU + DLT
    | KDL2 _ _ _ => TU + B + TU
    | KDL3 _ _ _ => B + TU
    | KDL4 _ _ => TU
    | KPut1 _ _ => SU + TU
    | KPut2 _ _ => TU
    | KDr1 c j => TU + scan ns c j * (1 + TU)
    | KDr2 c j => scan ns c j * (1 + TU)
    | KCh => 0
    end.

  Fixpoint mstk (nt ns : N) (k : list kframe) : N :=
    match k with [] => 0 | f :: k' => wf nt ns f + mstk nt ns k' end.

  (* ---------- the frames appear in call-graph order ---------- *)
  Definition lvl (f : kframe) : nat :=
    match f with
    | KGet1 _ _ | KGet2 _ _ | KOom1 _ _ | KAt1 _ _ | KPut1 _ _ | KPut2 _ _ | KDr1 _ _ | KDr2 _ _
    | KSe _ _ _ | KDL1 _ _ _ _ | KDL2 _ _ _ | KDL3 _ _ _ | KDL4 _ _ => 0
    | KSR1 _ _ _ _ | KSL1 _ _ _ _ | KSL2 _ _ _
    | KGL1 _ _ _ _ _ | KGL2 _ _ _ _ | KGL3 _ _ | KGL4 _ _ | KGL5 _ _ _ _ _ | KGL6 _ _ _ _ _ _ => 1
    | KSBL _ | KSBA _ | KSBT _ _ => 2
    | KRS1 _ _ _ _ | KRS2 _ _ _ _ _ _ | KRS3 _ _ | KSG1 _ _ _ | KSG2 _ _ _ | KCh => 3
    | KUnres _ | KRetR _ => 4
    end%nat.
  (* 1 + level of the top frame *)
  Definition hl (k : list kframe) : nat := match k with [] => 0 | f :: _ => S (lvl f) end.

  (* ---------- well-formed frames ---------- *)
  Definition ord_ok (o : nat) : bool := Nat.leb o (tord g).
  Definition acc_ok (a : acc) : bool :=
    match a with AcRos o _ _ => ord_ok o | AcSteal _ o => ord_ok o | AcChange _ _ _ => true end.
  Definition sb_ok (nt : N) (sb : sbst) (extra : nat) : bool :=
    acc_ok (sb_acc sb) && (N.of_nat (sb_n sb + length (sb_best sb) + extra) <=? nt + 4).
  Definition kf_ok (nt : N) (f : kframe) : bool :=
    match f with
    | KGet1 r _ | KGet2 r _ | KOom1 r _ | KAt1 _ r | KSL1 r _ _ _ | KDL1 r _ _ _ | KDL2 r _ _ | KDL3 r _ _ =>
        ord_ok (r_order r)
    | KGL1 o _ _ _ _ | KGL5 o _ _ _ _ | KGL6 o _ _ _ _ _ | KSR1 o _ _ _ | KRS1 _ o _ _ | KSG1 _ o _ => ord_ok o
    | KSBL sb => sb_ok nt sb 1
    | KSBA sb => sb_ok nt sb 0
    | KSBT sb cands => acc_ok (sb_acc sb) && (N.of_nat (length cands) <=? nt + 4)
    | KSe a _ n => acc_ok a && (N.of_nat n <=? nt)
    | KUnres r | KRetR r => res_ok r
    | _ => true
    end.
  Fixpoint stk_ok (nt : N) (k : list kframe) : bool :=
    match k with
    | [] => true
    | f :: k' => kf_ok nt f && Nat.leb (hl k') (lvl f) && stk_ok nt k'
    end.
  (* primitives as they are entered (not in the middle of a retry loop) *)
  Definition is_entry (p : prim) : bool :=
    match p with
    | PLd _ | PTL _ _ | PSL _ _ _ | PSW _ _ _ => true
    | PLow (TRun c pc) => match retry_site pc with None => true | Some _ => false end
    | _ => false
    end.
  Definition act_ok (nt : N) (a : act) : bool :=
    match a with
    | ADo p k => prim_ok p && is_entry p && stk_ok nt k
    | ARet v k => val_ok v && stk_ok nt k
    | APanic SExceedingRetries => false
    | APanic _ => true
    end.
  Definition mact (u : upper) (a : act) : N :=
    match a with
    | ADo p k => mprim u p + mstk (ntrees u) (nslots u) k
    | ARet _ k => mstk (ntrees u) (nslots u) k
    | APanic _ => 0
    end.

  (* `a` is well formed and costs at most M *)
  Definition leq (u : upper) (a : act) (M : N) : Prop := act_ok (ntrees u) a = true /\ mact u a <= M.
  (* a frame of level n may be pushed on k *)
  Definition fits (u : upper) (n : nat) (k : list kframe) : Prop := stk_ok (ntrees u) k = true /\ (hl k <= n)%nat.
  Notation W u k := (mstk (ntrees u) (nslots u) k).

  Lemma fits_mono u n m k : fits u n k -> (n <= m)%nat -> fits u m k.
  Proof. intros [H1 H2] H. split; [exact H1|lia]. Qed.
  Lemma fits_push u f k : kf_ok (ntrees u) f = true -> fits u (lvl f) k -> fits u (S (lvl f)) (f :: k).
  Proof.
    intros Hf [H1 H2]. split; [|cbn [hl]; lia]. cbn [stk_ok]. rewrite Hf, H1.
    replace (Nat.leb (hl k) (lvl f)) with true by (symmetry; apply Nat.leb_le; exact H2). reflexivity.
  Qed.

  Hypothesis WF : wf_geom g.

  Lemma leq_ret u v k M : val_ok v = true -> stk_ok (ntrees u) k = true -> W u k <= M -> leq u (ARet v k) M.
  Proof. intros Hv Hk HM. split; [cbn [act_ok]; rewrite Hv, Hk; reflexivity | exact HM]. Qed.
  Lemma leq_do u p k M : prim_ok p = true -> is_entry p = true -> stk_ok (ntrees u) k = true ->
    mprim u p + W u k <= M -> leq u (ADo p k) M.
  Proof. intros Hv He Hk HM. split; [cbn [act_ok]; rewrite Hv, He, Hk; reflexivity | exact HM]. Qed.
  Lemma leq_panic u s M : s <> SExceedingRetries -> leq u (APanic s) M.
  Proof. intros H. split; [destruct s; try reflexivity; contradiction | cbn [mact]; lia]. Qed.
  Lemma leq_bad u M : leq u bad M.
  Proof. apply leq_panic. discriminate. Qed.
  Lemma leq_ret_r u r k M : res_ok r = true -> stk_ok (ntrees u) k = true -> W u k <= M -> leq u (ret_r r k) M.
  Proof.
    intros Hr Hk HM. destruct r; cbn [ret_r]; try discriminate Hr; (apply leq_ret; [reflexivity | exact Hk | exact HM]).
  Qed.

  Lemma fits_nil u n : fits u n [].
  Proof. split; [reflexivity | cbn [hl]; lia]. Qed.
  Lemma fits_stk u n k : fits u n k -> stk_ok (ntrees u) k = true.
  Proof. intros [H _]. exact H. Qed.
  Lemma stk_push u f k : kf_ok (ntrees u) f = true -> fits u (lvl f) k -> stk_ok (ntrees u) (f :: k) = true.
  Proof. intros Hf Hk. exact (proj1 (fits_push u f k Hf Hk)). Qed.

  Ltac kfok :=
    cbn [kf_ok acc_ok]; first [reflexivity | assumption | idtac].
  Ltac fit :=
    cbn [lvl];
    lazymatch goal with
    | |- fits _ _ (_ :: _) => eapply fits_mono; [apply fits_push; [kfok | fit] | cbn [lvl]; lia]
    | |- fits _ _ [] => apply fits_nil
    | |- fits _ _ _ => eapply fits_mono; [eassumption | cbn [lvl]; lia]
    end.
  Ltac stk :=
    lazymatch goal with
    | |- stk_ok _ (_ :: _) = true => apply stk_push; [kfok | fit]
    | |- stk_ok _ _ = true => first [assumption | eapply fits_stk; eassumption]
    end.
  Ltac wts := cbn [mstk wf mprim length]; unfold wGL1, wGL5, wGL6, G1f, SLT, DLT, AW, wGet2, SLW, DLW, SU, UpperProgress.SU in *.

  Lemma leq_tu u i f k M : stk_ok (ntrees u) k = true -> TU + W u k <= M -> leq u (enter_tu u i f k) M.
  Proof.
    intros Hk HM. unfold enter_tu. destruct (tree_ok u i).
    - apply leq_do; [reflexivity | reflexivity | exact Hk | exact HM].
    - apply leq_panic. discriminate.
  Qed.
  Lemma leq_tput u i fr k M : stk_ok (ntrees u) k = true -> TU + W u k <= M -> leq u (enter_tput u i fr k) M.
  Proof. apply leq_tu. Qed.

  Lemma leq_low u c k M : ord_ok (c_order c) = true -> stk_ok (ntrees u) k = true -> B + W u k <= M ->
    leq u (enter_low g c k) M.
  Proof.
    intros Ho Hk HM. unfold enter_low. pose proof (entry_pc_ok g c Ho) as Hpc.
    apply leq_do; [exact Hpc | | exact Hk |].
    { cbn [is_entry]. unfold entry_pc. destruct c; destruct (Nat.leb (hord g) order); reflexivity. }
    cbn [mprim].
    pose proof (mu_bound g WF (m1_view u (TRun c (entry_pc g c))) c (entry_pc g c) Hpc). lia.
  Qed.
  Lemma lgc_order row o fr : c_order (low_get_call row o fr) = o.
  Proof. destruct fr; reflexivity. Qed.
  Lemma leq_lowget u row o fr k M : ord_ok o = true -> stk_ok (ntrees u) k = true -> B + W u k <= M ->
    leq u (enter_low g (low_get_call row o fr) k) M.
  Proof. intros Ho. apply leq_low. rewrite lgc_order. exact Ho. Qed.

  Lemma leq_get_local u order class local frame sync k M : ord_ok order = true -> fits u 1 k ->
    SU + wGL1 sync + W u k <= M -> leq u (enter_get_local g u order class local frame sync k) M.
  Proof.
    intros Ho Hk HM. unfold enter_get_local. destruct (class_locals u class) as [len|].
    - destruct (local <? len).
      + apply leq_do; [reflexivity | reflexivity | stk | wts; lia].
      + apply leq_panic. discriminate.
    - apply leq_ret; [reflexivity | stk | lia].
  Qed.

  Lemma leq_access u a i k M : acc_ok a = true -> fits u 3 k -> AW + W u k <= M -> leq u (enter_access u a i k) M.
  Proof.
    intros Ha Hk HM. destruct a; cbn [enter_access acc_ok] in *.
    - apply leq_tu; [stk | wts; lia].
    - apply leq_tu; [stk | wts; lia].
    - destruct (tree_ok u i).
      + apply leq_do; [reflexivity | reflexivity | stk | wts; unfold UpperProgress.TU in *; lia].
      + apply leq_ret; [reflexivity | stk | lia].
  Qed.

  (* ----- search_best / search ----- *)
  Lemma mul_le_r a b w : a <= b -> a * w <= b * w.
  Proof. apply N.mul_le_mono_r. Qed.

  Lemma leq_sb_try u sb cands k M : acc_ok (sb_acc sb) = true -> N.of_nat (length cands) <= ntrees u + 4 ->
    fits u 2 k -> N.of_nat (length cands) * AW + W u k <= M -> leq u (sb_try u sb cands k) M.
  Proof.
    intros Ha Hn Hk HM. destruct cands as [|[key i] r]; cbn [sb_try].
    - apply leq_ret; [reflexivity | stk | cbn [length] in HM; lia].
    - cbn [length] in *. apply leq_access; [exact Ha | fit | cbn [mstk wf]; lia].
      rewrite Ha. apply N.leb_le. lia.
  Qed.

  Lemma leq_sb_next u sb k M : sb_ok (ntrees u) sb 0 = true -> fits u 2 k -> wsb sb + W u k <= M ->
    leq u (sb_next u sb k) M.
  Proof.
    intros Hs Hk HM. unfold sb_ok in Hs. apply andb_true_iff in Hs. destruct Hs as [Ha Hn]. apply N.leb_le in Hn.
    unfold sb_next. unfold wsb in HM. destruct (sb_n sb) as [|n] eqn:En.
    - apply leq_sb_try; [exact Ha | | exact Hk |]; unfold sb_iter_rev; rewrite rev_length; lia.
    - destruct (tree_ok u _).
      + apply leq_do; [reflexivity | reflexivity | stk |].
        * unfold sb_ok. cbn [sb_adv sb_acc sb_n sb_best]. rewrite Ha, En. apply N.leb_le. cbn [pred]. lia.
        * cbn [mstk wf mprim]. unfold wsb. cbn [sb_adv sb_n sb_best]. rewrite En. cbn [pred]. lia.
      + apply leq_panic. discriminate.
  Qed.

  Lemma leq_enter_sb u a rt cap start offset len k M : acc_ok a = true -> len - offset <= ntrees u + 4 ->
    fits u 2 k -> SBW (ntrees u) + W u k <= M -> leq u (enter_sb u a rt cap start offset len k) M.
  Proof.
    intros Ha Hn Hk HM. unfold enter_sb. destruct ((0 <? len - offset) && (ntrees u =? 0)).
    - apply leq_panic. discriminate.
    - apply leq_sb_next; [| exact Hk |].
      + unfold sb_ok. cbn [sb_acc sb_n sb_best length]. rewrite Ha. apply N.leb_le. unfold nn. lia.
      + unfold wsb. cbn [sb_n sb_best length]. unfold SBW in HM.
        pose proof (mul_le_r (N.of_nat (nn (len - offset))) (ntrees u + 4) (1 + AW) ltac:(unfold nn; lia)). lia.
  Qed.

  Lemma leq_se_next u a i n k M : acc_ok a = true -> N.of_nat n <= ntrees u -> fits u 0 k ->
    N.of_nat n * AW + W u k <= M -> leq u (se_next u a i n k) M.
  Proof.
    intros Ha Hn Hk HM. destruct n as [|n]; cbn [se_next].
    - apply leq_ret; [reflexivity | stk | lia].
    - apply leq_access; [exact Ha | fit | cbn [mstk wf]; lia].
      rewrite Ha. apply N.leb_le. lia.
  Qed.

  Lemma near_le nt : N.max (nt / 16) 4 - 1 <= nt + 4.
  Proof.
    assert (nt / 16 <= nt) by (apply N.div_le_upper_bound; lia). lia.
  Qed.

  Lemma leq_sr u order class local start k M : ord_ok order = true -> fits u 1 k ->
    2 * SBW (ntrees u) + W u k <= M -> leq u (enter_search_and_reserve g u order class local start k) M.
  Proof.
    intros Ho Hk HM. unfold enter_search_and_reserve. destruct (Nat.ltb order (hord g)).
    - apply leq_enter_sb; [exact Ho | apply near_le | fit | cbn [mstk wf]; lia].
    - apply leq_enter_sb; [exact Ho | lia | fit | lia].
  Qed.

  (* ----- the scans over (class index, slot index) ----- *)
  Definition scan_out (ns i j i' j' : N) : Prop :=
    i' < 8 /\ j' < ns /\ ((i' = i /\ j' = j) \/ (i < i' /\ j' = 0)).

  Lemma scan_out_next ns i i' j' : scan_out ns (i + 1) 0 i' j' -> forall j, scan_out ns i j i' j'.
  Proof. intros (H1 & H2 & H3) j. split; [exact H1|split; [exact H2|]]. right. lia. Qed.

  Lemma steal_scan_spec u class free n : forall i j i' j',
    steal_scan policy u class free i j n = Some (i', j') -> scan_out (nslots u) i j i' j'.
  Proof.
    induction n as [|n IH]; intros i j i' j'; cbn [steal_scan]; [discriminate|].
    destruct (8 <=? i) eqn:E8; [discriminate|].
    destruct (class_slots u ((i + class) mod 8)) as [l|] eqn:El.
    2: { intros H. apply scan_out_next, IH, H. }
    pose proof (class_slots_le u _ l El) as Hle.
    destruct (policy class ((i + class) mod 8) free); try (intros H; apply scan_out_next, IH, H).
    all: destruct (j <? N.of_nat (length l)) eqn:Ej; try (intros H; apply scan_out_next, IH, H).
    all: intros H; injection H as <- <-; unfold scan_out; lia.
  Qed.

  Lemma demote_scan_spec u class free n : forall i j i' j',
    demote_scan policy u class free i j n = Some (i', j') -> scan_out (nslots u) i j i' j'.
  Proof.
    induction n as [|n IH]; intros i j i' j'; cbn [demote_scan]; [discriminate|].
    destruct (8 <=? i) eqn:E8; [discriminate|].
    destruct (class_slots u ((i + class) mod 8)) as [l|] eqn:El.
    2: { intros H. apply scan_out_next, IH, H. }
    pose proof (class_slots_le u _ l El) as Hle.
    destruct (policy class ((i + class) mod 8) free); try (intros H; apply scan_out_next, IH, H).
    all: destruct (j <? N.of_nat (length l)) eqn:Ej; try (intros H; apply scan_out_next, IH, H).
    all: intros H; injection H as <- <-; unfold scan_out; lia.
  Qed.

  Lemma drain_scan_spec u n : forall c j c' j',
    drain_scan u c j n = Some (c', j') -> scan_out (nslots u) c j c' j'.
  Proof.
    induction n as [|n IH]; intros c j c' j'; cbn [drain_scan]; [discriminate|].
    destruct (8 <=? c) eqn:E8; [discriminate|].
    unfold class_locals. destruct (class_slots u c) as [l|] eqn:El; cbn [option_map].
    2: { intros H. apply scan_out_next, IH, H. }
    pose proof (class_slots_le u _ l El) as Hle.
    destruct (j <? N.of_nat (length l)) eqn:Ej; try (intros H; apply scan_out_next, IH, H).
    intros H; injection H as <- <-; unfold scan_out; lia.
  Qed.

  (* the scan measure: decreases from a tried pair to the next one, bounded at entry *)
  Lemma scan_step ns i0 j0 i' j' : scan_out ns i0 (j0 + 1) i' j' -> scan ns i' j' + 1 <= scan ns i0 j0.
  Proof.
    intros (H1 & H2 & [[-> ->] | [H3 ->]]); unfold scan.
    - lia.
    - pose proof (mul_le_r ((7 - i') + 1) (7 - i0) (ns + 1) ltac:(lia)). lia.
  Qed.
  Lemma scan_first ns i' j' : scan ns i' j' + 1 <= SCW ns.
  Proof.
    unfold scan, SCW. pose proof (mul_le_r (7 - i') 7 (ns + 1) ltac:(lia)). lia.
  Qed.

  Lemma leq_sl_next u r frame i j k M : ord_ok (r_order r) = true -> fits u 1 k -> W u k <= M ->
    (forall i' j', scan_out (nslots u) i j i' j' -> (scan (nslots u) i' j' + 1) * SU + SLT + W u k <= M) ->
    leq u (sl_next g policy u r frame i j k) M.
  Proof.
    intros Ho Hk H0 HM. unfold sl_next.
    destruct (steal_scan policy u (r_class r) (pow2 (r_order r)) i j 9) as [[i' j']|] eqn:E.
    - apply steal_scan_spec in E. specialize (HM i' j' E).
      apply leq_do; [reflexivity | reflexivity | stk | wts; lia].
    - apply leq_ret; [reflexivity | stk | exact H0].
  Qed.

  Lemma leq_dl_next u r frame i j k M : ord_ok (r_order r) = true -> fits u 0 k -> W u k <= M ->
    (forall i' j', scan_out (nslots u) i j i' j' -> (scan (nslots u) i' j' + 1) * SU + DLT + W u k <= M) ->
    leq u (dl_next g policy u r frame i j k) M.
  Proof.
    intros Ho Hk H0 HM. unfold dl_next.
    destruct (demote_scan policy u (r_class r) (pow2 (r_order r)) i j 9) as [[i' j']|] eqn:E.
    - apply demote_scan_spec in E. specialize (HM i' j' E).
      apply leq_do; [reflexivity | reflexivity | stk | wts; lia].
    - apply leq_ret; [reflexivity | stk | exact H0].
  Qed.

  Lemma leq_dr_next u c j k M : fits u 0 k -> W u k <= M ->
    (forall c' j', scan_out (nslots u) c j c' j' -> (scan (nslots u) c' j' + 1) * (1 + TU) + W u k <= M) ->
    leq u (dr_next u c j k) M.
  Proof.
    intros Hk H0 HM. unfold dr_next.
    destruct (drain_scan u c j 9) as [[c' j']|] eqn:E.
    - apply drain_scan_spec in E. specialize (HM c' j' E).
      apply leq_do; [reflexivity | reflexivity | stk | wts; lia].
    - apply leq_ret; [reflexivity | stk | exact H0].
  Qed.

  Lemma leq_steal_local u r frame k M : ord_ok (r_order r) = true -> fits u 1 k -> SLW (nslots u) + W u k <= M ->
    leq u (enter_steal_local g policy u r frame k) M.
  Proof.
    intros Ho Hk HM. unfold enter_steal_local. apply leq_sl_next; [exact Ho | exact Hk | lia |].
    intros i' j' _. pose proof (scan_first (nslots u) i' j') as H.
    apply (mul_le_r _ _ SU) in H. unfold SLW in HM. lia.
  Qed.

  Lemma leq_demote_local u r frame k M : ord_ok (r_order r) = true -> fits u 0 k -> DLW (nslots u) + W u k <= M ->
    leq u (enter_demote_local g policy u r frame k) M.
  Proof.
    intros Ho Hk HM. unfold enter_demote_local. destruct (class_slots u (r_class r)).
    - apply leq_dl_next; [exact Ho | exact Hk | lia |].
      intros i' j' _. pose proof (scan_first (nslots u) i' j') as H.
      apply (mul_le_r _ _ SU) in H. unfold DLW in HM. lia.
    - apply leq_ret; [reflexivity | stk | lia].
  Qed.

  Lemma leq_after_local u f r k M : ord_ok (r_order r) = true -> fits u 0 k ->
    TU + B + TU + wGet2 (nslots u) + W u k <= M -> leq u (after_local g u f r k) M.
  Proof.
    intros Ho Hk HM. unfold after_local, enter_steal_global. apply leq_tu; [stk | wts; lia].
  Qed.

  (* ----- the program points ----- *)
  Lemma insert_at_length {K V} n (x : K * V) buf : length (insert_at n x buf) = S (length buf).
  Proof. revert buf; induction n; intros [|a r]; cbn [insert_at length]; try reflexivity. rewrite IHn. reflexivity. Qed.
  Lemma sb_add_length {K V} le cap (buf : list (K * V)) x : (length (sb_add le cap buf x) <= S (length buf))%nat.
  Proof.
    unfold sb_add. destruct (Nat.ltb (length buf) cap).
    - rewrite insert_at_length. lia.
    - destruct (sb_pos le (fst x) buf); [lia|]. rewrite insert_at_length. destruct buf; cbn [tl length]; lia.
  Qed.

  Lemma leq_sb_next_add u sb x k M : sb_ok (ntrees u) sb 1 = true -> fits u 2 k -> wsb sb + AW + W u k <= M ->
    leq u (sb_next u {| sb_acc := sb_acc sb; sb_rate := sb_rate sb; sb_cap := sb_cap sb; sb_start := sb_start sb;
                        sb_i := sb_i sb; sb_n := sb_n sb;
                        sb_best := sb_add N.leb (sb_cap sb) (sb_best sb) x |} k) M.
  Proof.
    intros Hs Hk HM. unfold sb_ok in Hs. apply andb_true_iff in Hs. destruct Hs as [Ha Hn]. apply N.leb_le in Hn.
    pose proof (sb_add_length N.leb (sb_cap sb) (sb_best sb) x) as Hl.
    apply leq_sb_next; [| exact Hk |].
    - unfold sb_ok. cbn [sb_acc sb_n sb_best]. rewrite Ha. apply N.leb_le. lia.
    - unfold wsb in *. cbn [sb_n sb_best].
      pose proof (mul_le_r (N.of_nat (length (sb_add N.leb (sb_cap sb) (sb_best sb) x)))
                           (N.of_nat (length (sb_best sb)) + 1) AW ltac:(lia)). lia.
  Qed.
  Lemma leq_sb_next_same u sb k M : sb_ok (ntrees u) sb 1 = true -> fits u 2 k -> wsb sb + AW + W u k <= M ->
    leq u (sb_next u sb k) M.
  Proof.
    intros Hs Hk HM. apply leq_sb_next; [| exact Hk | lia].
    unfold sb_ok in *. apply andb_true_iff in Hs. destruct Hs as [Ha Hn]. apply N.leb_le in Hn.
    rewrite Ha. apply N.leb_le. lia.
  Qed.

  Ltac split_act :=
    repeat lazymatch goal with
    | |- leq _ (match ?x with _ => _ end) _ => destruct x eqn:?
    end.
  Ltac leaf :=
    lazymatch goal with
    | |- leq _ (ARet _ _) _ => apply leq_ret; [first [reflexivity | assumption] | stk | wts; lia]
    | |- leq _ (APanic _) _ => apply leq_panic; discriminate
    | |- leq _ bad _ => apply leq_bad
    | |- leq _ (ADo _ _) _ => apply leq_do; [reflexivity | reflexivity | stk | wts; lia]
    | |- leq _ (ret_r _ _) _ => apply leq_ret_r; [assumption | stk | wts; lia]
    | |- leq _ (enter_tu _ _ _ _) _ => apply leq_tu; [stk | wts; lia]
    | |- leq _ (enter_tput _ _ _ _) _ => apply leq_tput; [stk | wts; lia]
    | |- leq _ (enter_low _ (low_get_call _ _ _) _) _ => apply leq_lowget; [assumption | stk | wts; lia]
    | |- leq _ (enter_low _ _ _) _ => apply leq_low; [assumption | stk | wts; lia]
    | |- leq _ (enter_get_local _ _ _ _ _ _ _ _) _ => apply leq_get_local; [assumption | fit | wts; lia]
    | |- leq _ (enter_search_and_reserve _ _ _ _ _ _ _) _ => apply leq_sr; [assumption | fit | wts; lia]
    | |- leq _ (enter_steal_local _ _ _ _ _ _) _ => apply leq_steal_local; [assumption | fit | wts; lia]
    | |- leq _ (enter_demote_local _ _ _ _ _ _) _ => apply leq_demote_local; [assumption | fit | wts; lia]
    | |- leq _ (after_local _ _ _ _ _) _ => apply leq_after_local; [assumption | fit | wts; lia]
    | |- leq _ (enter_sb _ _ _ _ _ _ _ _) _ => apply leq_enter_sb; [assumption | lia | fit | wts; lia]
    | |- leq _ (sb_next _ (Build_sbst _ _ _ _ _ _ _) _) (wf _ _ (KSBL _) + _) =>
        apply leq_sb_next_add; [assumption | fit | cbn [wf]; lia]
    | |- leq _ (sb_next _ _ _) (wf _ _ (KSBL _) + _) => apply leq_sb_next_same; [assumption | fit | cbn [wf]; lia]
    | |- leq _ (sb_next _ _ _) (wf _ _ (KSBA _) + _) => apply leq_sb_next; [assumption | fit | cbn [wf]; lia]
    | _ => idtac
    end.

  Lemma resume_le u v f k : val_ok v = true -> stk_ok (ntrees u) (f :: k) = true ->
    leq u (resume g policy u v f k) (wf (ntrees u) (nslots u) f + W u k).
  Proof.
    intros Hv Hs. cbn [stk_ok] in Hs. apply andb_true_iff in Hs. destruct Hs as [Hs Hk].
    apply andb_true_iff in Hs. destruct Hs as [Hf Hl]. apply Nat.leb_le in Hl.
    assert (Hfit : fits u (lvl f) k) by (split; assumption).
    clear Hl.
    destruct f; try destruct sync; cbn [lvl] in Hfit; cbn [kf_ok] in Hf; destruct v; cbn [resume andb]; try apply leq_bad.
    all: split_act.
    all: cbn [val_ok res_ok] in Hv; try discriminate Hv.
    all: try solve [leaf].
    - (* KSBL: a perfect match *)
      unfold sb_ok in Hf. apply andb_true_iff in Hf. destruct Hf as [Ha Hn]. apply N.leb_le in Hn.
      apply leq_access; [exact Ha | fit | cbn [wf mstk]; lia].
      unfold sb_ok. rewrite Ha. apply N.leb_le. lia.
    - (* KSBT *)
      apply andb_true_iff in Hf. destruct Hf as [Ha Hn]. apply N.leb_le in Hn.
      apply leq_sb_try; [exact Ha | exact Hn | fit | cbn [wf]; lia].
    - (* KSe *)
      apply andb_true_iff in Hf. destruct Hf as [Ha Hn]. apply N.leb_le in Hn.
      apply leq_se_next; [exact Ha | exact Hn | fit | cbn [wf]; lia].
    - (* KSL1 *)
      apply leq_sl_next; [exact Hf | fit | cbn [wf]; lia |].
      intros i' j' Ho. apply scan_step in Ho. apply (mul_le_r _ _ SU) in Ho. cbn [wf]. lia.
    - (* KDL1 *)
      apply leq_dl_next; [exact Hf | fit | cbn [wf]; lia |].
      intros i' j' Ho. apply scan_step in Ho. apply (mul_le_r _ _ SU) in Ho. cbn [wf]. lia.
    - (* KDr1 *)
      apply leq_dr_next; [fit | cbn [wf]; lia |].
      intros i' j' Ho. apply scan_step in Ho. apply (mul_le_r _ _ (1 + TU)) in Ho. cbn [wf]. lia.
    - (* KDr2 *)
      apply leq_dr_next; [fit | cbn [wf]; lia |].
      intros i' j' Ho. apply scan_step in Ho. apply (mul_le_r _ _ (1 + TU)) in Ho. cbn [wf]. lia.
    - (* KCh *)
      apply leq_ret; [destruct ok; reflexivity | stk | cbn [wf]; lia].
  Qed.

  (* ----- the entry of a call ----- *)
  Lemma check_ord u fr r x : check g u fr r = Ok x -> ord_ok (r_order r) = true.
  Proof.
    unfold check, ord_ok. destruct (Nat.leb (r_order r) (tord g)); [reflexivity | cbn [negb]; discriminate].
  Qed.

  Lemma check_no_panic u fr r x : check g u fr r <> Panic x.
  Proof.
    unfold check. repeat match goal with |- (if ?x then _ else _) <> _ => destruct x end; try discriminate.
    all: destruct (class_locals u (r_class r)); discriminate.
  Qed.

  Lemma leq_global u r k M : ord_ok (r_order r) = true -> fits u 0 k ->
    SBW (ntrees u) + wGet2 (nslots u) + W u k <= M -> leq u (enter_global u r k) M.
  Proof.
    intros Ho Hk HM. unfold enter_global. apply leq_enter_sb; [exact Ho | lia | fit | wts; lia].
  Qed.

  Lemma enter_call_leq u c : exists M, leq u (enter_call g u c) M.
  Proof.
    destruct c as [frame r|frame r| |m ch]; cbn [enter_call].
    - unfold enter_get. destruct (check g u _ r) eqn:Ec.
      2: { eexists. apply leq_ret; [reflexivity | reflexivity | apply N.le_refl]. }
      2: { exfalso. eapply check_no_panic; exact Ec. }
      apply check_ord in Ec.
      destruct frame as [f|].
      + unfold enter_get_at. destruct (r_local r).
        * eexists. apply leq_get_local; [exact Ec | fit | apply N.le_refl].
        * eexists. apply leq_after_local; [exact Ec | fit | apply N.le_refl].
      + assert (HG : exists M, leq u (enter_global u r []) M)
          by (eexists; apply leq_global; [exact Ec | fit | apply N.le_refl]).
        destruct (r_local r); [|exact HG].
        destruct (_ && _); [|exact HG].
        eexists. apply leq_get_local; [exact Ec | fit | apply N.le_refl].
    - unfold enter_put. destruct (check g u frame r) eqn:Ec.
      2: { eexists. apply leq_ret; [reflexivity | reflexivity | apply N.le_refl]. }
      2: { exfalso. eapply check_no_panic; exact Ec. }
      apply check_ord in Ec.
      eexists. apply leq_low; [exact Ec | stk | apply N.le_refl].
    - eexists. apply leq_dr_next; [fit | apply N.le_0_l |]. 
      intros c' j' _. cbn [mstk]. pose proof (scan_first (nslots u) c' j') as H.
      apply (mul_le_r _ _ (1 + TU)) in H. rewrite N.add_0_r. exact H.
    - unfold enter_change. destruct (m_id m).
      + eexists. apply leq_access; [reflexivity | fit | apply N.le_refl].
      + destruct (ntrees u =? 0).
        * eexists. apply leq_ret; [reflexivity | reflexivity | apply N.le_refl].
        * eexists. apply leq_se_next; [reflexivity | unfold ntrees; lia | fit | apply N.le_refl].
  Qed.

  (* ----- following return chains ----- *)
  Definition settled_ok (u : upper) (M : N) (x : UpperMachine.settled) : Prop :=
    match x with
    | SRun p k => prim_ok p = true /\ is_entry p = true /\ stk_ok (ntrees u) k = true /\ mprim u p + W u k <= M
    | SDone _ => True
    | SCrash x => x <> SExceedingRetries
    end.

  Lemma settle_le fuel : forall u a M, leq u a M -> settled_ok u M (settle g policy fuel u a).
  Proof.
    induction fuel as [|fuel IH]; intros u a M [Hok HM].
    - destruct a as [p k|v [|f k]|s]; cbn [settle settled_ok].
      + cbn [act_ok] in Hok. apply andb_true_iff in Hok. destruct Hok as [Hok Hk].
        apply andb_true_iff in Hok. destruct Hok as [Hp He]. repeat split; assumption.
      + cbn [act_ok] in Hok. destruct v as [| |r|[| |]|]; cbn [settled_ok]; try discriminate; exact I.
      + discriminate.
      + destruct s; cbn [act_ok] in Hok; discriminate.
    - destruct a as [p k|v [|f k]|s]; cbn [settle settled_ok].
      + cbn [act_ok] in Hok. apply andb_true_iff in Hok. destruct Hok as [Hok Hk].
        apply andb_true_iff in Hok. destruct Hok as [Hp He]. repeat split; assumption.
      + cbn [act_ok] in Hok. destruct v as [| |r|[| |]|]; cbn [settled_ok]; try discriminate; exact I.
      + cbn [act_ok] in Hok. apply andb_true_iff in Hok. destruct Hok as [Hv Hk].
        apply IH. pose proof (resume_le u v f k Hv Hk) as [H1 H2]. split; [exact H1|].
        cbn [mact mstk] in HM. lia.
      + destruct s; cbn [act_ok] in Hok; discriminate.
  Qed.
End UFrames.

(* ---------- the statement's vocabulary ---------- *)
Definition usoloN (g : geom) (policy : N -> N -> N -> pol) (n : nat) (s : m2state) (t : nat) : m2state :=
  Nat.iter n (fun s => fst (ustep g policy s t UDrain)) s.

Definition usettled (s : m2state) (t : nat) : bool :=
  match nth_error (m2_pool s) t with Some (URun _ _ _) => false | _ => true end.

(* a CAS of a retry loop: a tree entry, a local slot, or a CAS site of the embedded lower call *)
Inductive usite := USTree (i : N) | USSlot (c idx : N) | USLow (k : nat * N * N).

Section UTheorems.
  Variable g : geom.
  Variable policy : N -> N -> N -> pol.
  Notation TH := (THUGE g).
  Notation B := (boundN g).
  Notation TU := (TU g).
  Notation mprim := (mprim g).
  Notation prim_ok := (prim_ok g).
  Notation stk_ok := (stk_ok g).
  Notation W u k := (mstk g (ntrees u) (nslots u) k).
  Notation ustep := (ustep g policy).

  (* the primitive and the continuation stack of thread t are well formed *)
  Definition uthread_ok (s : m2state) (t : nat) : Prop :=
    match nth_error (m2_pool s) t with
    | Some (URun _ p k) => prim_ok p = true /\ stk_ok (ntrees (m2_up s)) k = true
    | _ => True
    end.

  Definition thr_of (c : ucall) (x : UpperMachine.settled) : uthr :=
    match x with SRun p k => URun c p k | SDone r => UIdle (Some r) | SCrash x => UPanic x c end.

  Lemma apply_settled_up s t c x : m2_up (apply_settled s t c x) = m2_up s.
  Proof. destruct x as [p k|r|x]; cbn [apply_settled]; try reflexivity. unfold ufinish. destruct c, r as [[? ?]| |]; reflexivity. Qed.
  Lemma apply_settled_pool s t c x : m2_pool (apply_settled s t c x) = upd (m2_pool s) t (thr_of c x).
  Proof. destruct x as [p k|r|x]; cbn [apply_settled]; try reflexivity. unfold ufinish. destruct c, r as [[? ?]| |]; reflexivity. Qed.

  Hypothesis WF : wf_geom g.

  (* what one step of a running, well-formed thread does *)
  Definition udec (s : m2state) (t : nat) (c : ucall) (p : prim) (k : list kframe) (s' : m2state) : Prop :=
    ntrees (m2_up s') = ntrees (m2_up s) /\ nslots (m2_up s') = nslots (m2_up s) /\
    (forall t', t' <> t -> nth_error (m2_pool s') t' = nth_error (m2_pool s) t') /\
    match nth_error (m2_pool s') t with
    | Some (URun c' p' k') =>
        c' = c /\ prim_ok p' = true /\ stk_ok (ntrees (m2_up s')) k' = true /\
        mprim (m2_up s') p' + W (m2_up s') k' < mprim (m2_up s) p + W (m2_up s) k /\
        (is_entry p' = true \/ (k' = k /\ exists ev, prim_step g policy (m2_up s) p = (m2_up s', ev, OStay p')))
    | Some (UPanic x _) => x = SExceedingRetries -> exists lc i, p = PLow (TRun lc (PP3 i))
    | Some (UIdle _) => True
    | None => False
    end.

  Lemma ustep_dec s t c p k c0 : nth_error (m2_pool s) t = Some (URun c p k) ->
    prim_ok p = true -> stk_ok (ntrees (m2_up s)) k = true -> udec s t c p k (fst (ustep s t c0)).
  Proof.
    intros Hth Hp Hk. unfold UpperMachine.ustep. rewrite Hth.
    pose proof (prim_step_dec g policy (m2_up s) p Hp) as Hd.
    pose proof (up_nth_lt _ _ _ Hth) as Hlt.
    destruct (prim_step g policy (m2_up s) p) as [[u' ev] o] eqn:Eps. cbn [fst].
    destruct Hd as (Hn1 & Hn2 & Hd).
    destruct o as [p'|v|x].
    - unfold udec. cbn [set_uthr with_up m2_up m2_pool]. split; [exact Hn1|split; [exact Hn2|split]].
      + intros t' Hne. apply nth_error_upd_other. congruence.
      + rewrite nth_error_upd_same by exact Hlt. destruct Hd as [Hm Hp'].
        split; [reflexivity|split; [exact Hp'|split; [rewrite Hn1; exact Hk|split]]].
        * rewrite Hn1, Hn2. lia.
        * right. split; [reflexivity|]. exists ev. exact Eps.
    - pose proof (settle_le g policy WF SETTLE u' (ARet v k) (W u' k)) as Hs.
      assert (Hl : leq g u' (ARet v k) (W u' k)).
      { split; [cbn [act_ok]; rewrite Hd, Hn1, Hk; reflexivity | apply N.le_refl]. }
      specialize (Hs Hl). unfold udec.
      rewrite apply_settled_up, apply_settled_pool. cbn [with_up m2_up m2_pool].
      split; [exact Hn1|split; [exact Hn2|split]].
      + intros t' Hne. apply nth_error_upd_other. congruence.
      + rewrite nth_error_upd_same by exact Hlt.
        destruct (settle g policy SETTLE u' (ARet v k)) as [p1 k1|r|x]; cbn [thr_of settled_ok] in *.
        * destruct Hs as (H1 & H2 & H3 & H4). pose proof (mprim_pos g policy (m2_up s) p).
          split; [reflexivity|split; [exact H1|split; [exact H3|split; [|left; exact H2]]]].
          rewrite <- Hn1, <- Hn2. lia.
        * exact I.
        * intros ->. contradiction.
    - unfold udec. cbn [set_uthr with_up m2_up m2_pool]. split; [exact Hn1|split; [exact Hn2|split]].
      + intros t' Hne. apply nth_error_upd_other. congruence.
      + rewrite nth_error_upd_same by exact Hlt. exact Hd.
  Qed.

  (* ---------- the closed-form bound ---------- *)
  Definition cap (nt ns : N) (l : nat) : N :=
    match l with
    | 0%nat => N.max (2 * SBW g nt + wGet2 g ns + TU + B + TU + SU) (N.max (nt * AW g) (TU + SCW ns * (1 + TU)))
    | 1%nat => N.max (SBW g nt) (N.max (SCW ns * SU + SLT g) (wGL1 g true))
    | 2%nat => SBW g nt
    | 3%nat => B + 1 + TU
    | _ => 0
    end.
  Fixpoint capsum (nt ns : N) (n : nat) : N :=
    match n with O => 0 | S m => cap nt ns m + capsum nt ns m end.
  Definition uboundN (nt ns : N) : N := 2 * TH + 3 + B + capsum nt ns 5.

  Lemma capsum_mono nt ns n m : (n <= m)%nat -> capsum nt ns n <= capsum nt ns m.
  Proof. induction 1; [lia|]. cbn [capsum]. lia. Qed.

  Lemma wf_cap nt ns f : kf_ok g nt f = true -> wf g nt ns f <= cap nt ns (lvl f).
  Proof.
    intros Hf.
    pose proof (fun i j => scan_first policy ns i j) as Hsc.
    destruct f; cbn [wf lvl cap kf_ok] in *; unfold wGet2, SLW, DLW, wGL1, wGL5, wGL6, G1f, SLT, DLT, SU in *; try lia.
    - (* KGL1 *) destruct sync; lia.
    - (* KSBL *) unfold sb_ok in Hf. apply andb_true_iff in Hf. destruct Hf as [_ Hn]. apply N.leb_le in Hn.
      unfold wsb, SBW.
      pose proof (mul_le_r (N.of_nat (sb_n sb) + N.of_nat (length (sb_best sb)) + 1) (nt + 4) (1 + AW g) ltac:(lia)). lia.
    - (* KSBA *) unfold sb_ok in Hf. apply andb_true_iff in Hf. destruct Hf as [_ Hn]. apply N.leb_le in Hn.
      unfold wsb, SBW.
      pose proof (mul_le_r (N.of_nat (sb_n sb) + N.of_nat (length (sb_best sb))) (nt + 4) (1 + AW g) ltac:(lia)). lia.
    - (* KSBT *) apply andb_true_iff in Hf. destruct Hf as [_ Hn]. apply N.leb_le in Hn. unfold SBW.
      pose proof (mul_le_r (N.of_nat (length cands)) (nt + 4) (1 + AW g) Hn). lia.
    - (* KSe *) apply andb_true_iff in Hf. destruct Hf as [_ Hn]. apply N.leb_le in Hn.
      pose proof (mul_le_r (N.of_nat n) nt (AW g) Hn). lia.
    - (* KSL1 *) pose proof (mul_le_r _ _ 2 (Hsc i j)). lia.
    - (* KDL1 *) pose proof (mul_le_r _ _ 2 (Hsc i j)). lia.
    - (* KDr1 *) pose proof (mul_le_r _ _ (1 + TU) (Hsc c j)). lia.
    - (* KDr2 *) pose proof (mul_le_r _ _ (1 + TU) (Hsc c j)). lia.
  Qed.

  Lemma mstk_le nt ns k : stk_ok nt k = true -> mstk g nt ns k <= capsum nt ns (hl k).
  Proof.
    induction k as [|f k IH]; intros H; [cbn; lia|].
    cbn [UpperProgress.stk_ok] in H. apply andb_true_iff in H. destruct H as [H Hk].
    apply andb_true_iff in H. destruct H as [Hf Hl]. apply Nat.leb_le in Hl.
    cbn [mstk hl capsum]. pose proof (wf_cap nt ns f Hf). specialize (IH Hk).
    pose proof (capsum_mono nt ns _ _ Hl). lia.
  Qed.

  Lemma hl_le5 k : (hl k <= 5)%nat.
  Proof. destruct k as [|f k]; cbn [hl]; [lia|]. destruct f; cbn [lvl]; lia. Qed.

  Lemma mprim_le u p : prim_ok p = true -> mprim u p <= 2 * TH + 3 + B.
  Proof.
    intros Hp. pose proof (TH_pos g) as HT.
    destruct p; cbn [UpperProgress.mprim]; unfold UpperProgress.TU, SU; try lia.
    - pose proof (stale_tree_le1 policy u i cur). unfold rem.
      pose proof (mul_le_r _ _ (TH + 2) H). lia.
    - pose proof (stale_tree_le1 policy u i cur). pose proof (mul_le_r _ _ (TH + 2) H). lia.
    - pose proof (stale_slot_le1 policy u c idx cur). lia.
    - destruct th; try lia. pose proof (mu_bound g WF (m1_view u (TRun c p)) c p Hp). lia.
  Qed.

  Lemma measure_le u p k : prim_ok p = true -> stk_ok (ntrees u) k = true ->
    mprim u p + W u k <= uboundN (ntrees u) (nslots u).
  Proof.
    intros Hp Hk. pose proof (mprim_le u p Hp). pose proof (mstk_le _ (nslots u) k Hk).
    pose proof (capsum_mono (ntrees u) (nslots u) _ _ (hl_le5 k)). unfold uboundN. lia.
  Qed.

  Definition ubound (u : upper) : nat := N.to_nat (uboundN (ntrees u) (nslots u)).

  Lemma usoloN_S n s t : usoloN g policy (S n) s t = usoloN g policy n (fst (ustep s t UDrain)) t.
  Proof. exact (iter_S_r (fun s => fst (ustep s t UDrain)) n s). Qed.

  Lemma usolo_mu t : forall m s c p k, nth_error (m2_pool s) t = Some (URun c p k) ->
    prim_ok p = true -> stk_ok (ntrees (m2_up s)) k = true ->
    mprim (m2_up s) p + W (m2_up s) k <= N.of_nat m ->
    exists n, (n <= m)%nat /\ usettled (usoloN g policy n s t) t = true.
  Proof.
    induction m; intros s c p k Hth Hp Hk Hm.
    - pose proof (mprim_pos g policy (m2_up s) p). lia.
    - pose proof (ustep_dec s t c p k UDrain Hth Hp Hk) as (_ & _ & _ & Hd).
      destruct (nth_error (m2_pool (fst (ustep s t UDrain))) t) as [[r|c' p' k'|x c']|] eqn:E; [| | |contradiction].
      + exists 1%nat. split; [lia|]. unfold usettled. change (usoloN g policy 1 s t) with (fst (ustep s t UDrain)). rewrite E. reflexivity.
      + destruct Hd as (-> & Hp' & Hk' & Hlt & _).
        destruct (IHm _ c p' k' E Hp' Hk') as (n & Hn & Hset); [lia|].
        exists (S n). split; [lia|]. rewrite usoloN_S. exact Hset.
      + exists 1%nat. split; [lia|]. unfold usettled. change (usoloN g policy 1 s t) with (fst (ustep s t UDrain)). rewrite E. reflexivity.
  Qed.

  (* ---------- C21u: a call that runs alone finishes within `ubound` steps ---------- *)
  Theorem usolo_terminates s t : uthread_ok s t ->
    exists n, (n <= ubound (m2_up s))%nat /\ usettled (usoloN g policy n s t) t = true.
  Proof.
    intros Hok. unfold uthread_ok in Hok.
    destruct (nth_error (m2_pool s) t) as [[r|c p k|x c]|] eqn:Hth.
    2: { destruct Hok as [Hp Hk]. apply (usolo_mu t (ubound (m2_up s)) s c p k Hth Hp Hk).
         unfold ubound. rewrite N2Nat.id. apply measure_le; assumption. }
    all: exists 0%nat; split; [lia|]; change (usoloN g policy 0 s t) with s; unfold usettled; rewrite Hth; reflexivity.
  Qed.

  (* ---------- well-formedness holds for every thread of every reachable state ---------- *)
  Definition uall_ok (s : m2state) : Prop := forall t, uthread_ok s t.

  Lemma uthread_ok_other s s' u t : ntrees (m2_up s') = ntrees (m2_up s) ->
    (forall t', t' <> u -> nth_error (m2_pool s') t' = nth_error (m2_pool s) t') ->
    t <> u -> uthread_ok s t -> uthread_ok s' t.
  Proof. intros Hn Hf Hne H. unfold uthread_ok in *. rewrite (Hf t Hne), Hn. exact H. Qed.

  Lemma start_ok s1 t c0 last : nth_error (m2_pool s1) t = Some (UIdle last) -> uall_ok s1 ->
    uall_ok (apply_settled s1 t c0 (settle g policy SETTLE (m2_up s1) (enter_call g (m2_up s1) c0))).
  Proof.
    intros Hth Hall t'. destruct (Nat.eq_dec t' t) as [->|Hne].
    - unfold uthread_ok. rewrite apply_settled_up, apply_settled_pool.
      rewrite nth_error_upd_same by (eapply up_nth_lt; exact Hth).
      destruct (enter_call_leq g policy WF (m2_up s1) c0) as (M & HM).
      pose proof (settle_le g policy WF SETTLE _ _ _ HM) as Hs.
      destruct (settle g policy SETTLE (m2_up s1) (enter_call g (m2_up s1) c0)); cbn [thr_of settled_ok] in *; try exact I.
      destruct Hs as (H1 & _ & H3 & _). split; assumption.
    - eapply uthread_ok_other; [| | exact Hne | apply Hall].
      + rewrite apply_settled_up. reflexivity.
      + intros t2 Hne2. rewrite apply_settled_pool. apply nth_error_upd_other. congruence.
  Qed.

  Lemma uall_ok_step s u c0 : uall_ok s -> uall_ok (fst (ustep s u c0)).
  Proof.
    intros Hall. destruct (nth_error (m2_pool s) u) as [[r|c p k|x c]|] eqn:Hu.
    - unfold UpperMachine.ustep. rewrite Hu.
      assert (Hs : uall_ok (apply_settled s u c0 (settle g policy SETTLE (m2_up s) (enter_call g (m2_up s) c0))))
        by (eapply start_ok; [exact Hu | exact Hall]).
      destruct c0 as [fr rq|fr rq| |m ch]; cbn [fst]; try exact Hs.
      destruct (client_take (m2_held s) fr (r_order rq)) as [h'|]; cbn [fst]; [|exact Hall].
      apply (start_ok (with_held s h') u (UPut fr rq) r); [exact Hu | exact Hall].
    - pose proof (Hall u) as Hok. unfold uthread_ok in Hok. rewrite Hu in Hok. destruct Hok as [Hp Hk].
      pose proof (ustep_dec s u c p k c0 Hu Hp Hk) as (Hn1 & _ & Hf & Hd).
      intros t. destruct (Nat.eq_dec t u) as [->|Hne].
      + unfold uthread_ok. destruct (nth_error (m2_pool (fst (ustep s u c0))) u) as [[r|c' p' k'|x c']|]; try exact I.
        destruct Hd as (_ & H1 & H2 & _). split; assumption.
      + eapply uthread_ok_other; [exact Hn1 | exact Hf | exact Hne | apply Hall].
    - unfold UpperMachine.ustep. rewrite Hu. exact Hall.
    - unfold UpperMachine.ustep. rewrite Hu. exact Hall.
  Qed.

  Lemma uall_ok_run sch : forall s, uall_ok s -> uall_ok (urun g policy sch s).
  Proof.
    induction sch as [|[u c0] sch IH]; intros s H; [exact H|].
    unfold urun in *. cbn [fold_left fst snd]. apply IH, uall_ok_step, H.
  Qed.

  Lemma uall_ok_boot u h n : uall_ok (uboot u h n).
  Proof.
    intros t. unfold uthread_ok, uboot. cbn [m2_pool].
    destruct (nth_error (repeat (UIdle None) n) t) eqn:E; [|exact I].
    apply nth_error_In, repeat_spec in E. subst. exact I.
  Qed.

  Theorem uthread_ok_reachable sch u h n t : uthread_ok (urun g policy sch (uboot u h n)) t.
  Proof. apply uall_ok_run, uall_ok_boot. Qed.

  Theorem ureachable_solo_terminates u h n sch t :
    let s := urun g policy sch (uboot u h n) in
    exists k, (k <= ubound (m2_up s))%nat /\ usettled (usoloN g policy k s t) t = true.
  Proof. apply usolo_terminates. apply uall_ok_run, uall_ok_boot. Qed.

  (* ---------- CAS-retry primitives: left after at most two solo steps ---------- *)
  Definition uretry_site (p : prim) : option usite :=
    match p with
    | PTC i _ _ _ => Some (USTree i)
    | PSC c idx _ _ _ => Some (USSlot c idx)
    | PLow (TRun _ pc) => option_map USLow (retry_site pc)
    | _ => None
    end.
  Definition uat_site (s : m2state) (t : nat) (k : usite) : Prop :=
    exists c p st, nth_error (m2_pool s) t = Some (URun c p st) /\ uretry_site p = Some k.
  Definition ustale (u : upper) (p : prim) : N :=
    match p with
    | PTC i _ cur _ => stale_tree u i cur
    | PSC c idx _ cur _ => stale_slot u c idx cur
    | PLow (TRun c pc) => stale g (m1_view u (TRun c pc)) c pc
    | _ => 0
    end.

  Lemma is_entry_no_site p : is_entry p = true -> uretry_site p = None.
  Proof.
    destruct p; cbn [is_entry uretry_site]; try discriminate; try reflexivity.
    destruct th; try discriminate. destruct (retry_site p); [discriminate | reflexivity].
  Qed.

  Lemma stale_ext s1 s2 c p : ms_ents s1 = ms_ents s2 -> ms_bfs s1 = ms_bfs s2 -> stale g s1 c p = stale g s2 c p.
  Proof.
    intros He Hb. destruct p; cbn [stale]; unfold stale_ent, stale_row, rd_ent, rd_row; rewrite ?He, ?Hb; reflexivity.
  Qed.

  (* a primitive that is still at the same CAS after an access: its cached value was stale and is now current *)
  Lemma prim_retry u p k u' ev p' : prim_step g policy u p = (u', ev, OStay p') ->
    uretry_site p = Some k -> uretry_site p' = Some k -> ustale u' p' = 0 /\ ustale u p = 1.
  Proof.
    destruct p as [i|i f|i f cur j a|i f cur new|c idx f|c idx f cur new|c idx new|th]; cbn [uretry_site]; try discriminate.
    - (* PTC *) cbn [prim_step]. destruct (tree_at u i) as [t|] eqn:Et; [|discriminate].
      destruct (tree_eqb t cur) eqn:Eq; [discriminate|].
      unfold tu_eval. destruct (needs_fetch f t).
      + intros H _ H'. injection H as _ _ <-. discriminate H'.
      + destruct (tf_apply g policy (dflt u) f t 0) as [[nw|e|x]|]; try discriminate.
        intros H _ _. injection H as <- _ <-. cbn [ustale].
        split; [apply stale_tree_fresh; exact Et | unfold stale_tree; rewrite Et, Eq; reflexivity].
    - (* PSC *) cbn [prim_step]. destruct (slot_at u c idx) as [sl|] eqn:Es; [|discriminate].
      destruct (slot_eqb sl cur) eqn:Eq; [discriminate|].
      unfold su_eval. destruct (sf_apply g f sl) as [[nw|e|x]|]; try discriminate.
      intros H _ _. injection H as <- _ <-. cbn [ustale].
      split; [apply stale_slot_fresh; exact Es | unfold stale_slot; rewrite Es, Eq; reflexivity].
    - (* PLow *) destruct th as [r|c pc|x c]; try discriminate.
      destruct (retry_site pc) as [kk|] eqn:Ek; [|discriminate]. cbn [option_map].
      cbn [prim_step]. set (s0 := m1_view u (TRun c pc)).
      assert (Hth : nth_error (ms_pool s0) 0 = Some (TRun c pc)) by reflexivity.
      pose proof (retry_step g s0 0 c pc kk c Hth Ek) as Hr.
      destruct (mstep g s0 0 c) as [ms' e']. cbn [fst] in Hr.
      destruct (nth_error (ms_pool ms') 0) as [[[[x|e|x]|]|c' p''|x c']|] eqn:En; try discriminate.
      intros H Hk Hk'. injection H as <- _ <-. injection Hk as <-.
      cbn [uretry_site] in Hk'. destruct (retry_site p'') as [k2|] eqn:Ek2; [|discriminate].
      injection Hk' as ->.
      destruct (Hr c' p'' En Ek2) as (-> & H0 & H1). cbn [ustale].
      split; [|exact H1]. rewrite <- H0. apply stale_ext; reflexivity.
  Qed.

  Lemma usite_eq_dec (a b : option usite) : {a = b} + {a <> b}.
  Proof. repeat decide equality. Qed.

  Theorem uretry_bounded s t c p st k : uthread_ok s t ->
    nth_error (m2_pool s) t = Some (URun c p st) -> uretry_site p = Some k ->
    ~ uat_site (usoloN g policy 1 s t) t k \/ ~ uat_site (usoloN g policy 2 s t) t k.
  Proof.
    intros Hok Hth Hk. unfold uthread_ok in Hok. rewrite Hth in Hok. destruct Hok as [Hp Hst].
    change (usoloN g policy 2 s t) with (fst (ustep (usoloN g policy 1 s t) t UDrain)).
    change (usoloN g policy 1 s t) with (fst (ustep s t UDrain)).
    pose proof (ustep_dec s t c p st UDrain Hth Hp Hst) as (_ & _ & _ & Hd).
    set (s1 := fst (ustep s t UDrain)) in *.
    destruct (nth_error (m2_pool s1) t) as [[r|c1 p1 k1|x c1]|] eqn:H1.
    2: destruct (usite_eq_dec (uretry_site p1) (Some k)) as [K1|K1].
    2: { right. destruct Hd as (_ & Hp1 & Hk1 & _ & [He | (_ & ev & Hps)]).
         { rewrite (is_entry_no_site p1 He) in K1. discriminate. }
         destruct (prim_retry _ _ _ _ _ _ Hps Hk K1) as [Hs0 _].
         intros (c2 & p2 & st2 & H2 & K2).
         pose proof (ustep_dec s1 t c1 p1 k1 UDrain H1 Hp1 Hk1) as (_ & _ & _ & Hd2).
         rewrite H2 in Hd2. destruct Hd2 as (_ & _ & _ & _ & [He | (_ & ev2 & Hps2)]).
         { rewrite (is_entry_no_site p2 He) in K2. discriminate. }
         destruct (prim_retry _ _ _ _ _ _ Hps2 K1 K2) as [_ Hs1]. lia. }
    all: left; intros (c' & p' & st' & H & K); rewrite H1 in H; try discriminate H.
    injection H as <- <- <-. contradiction.
  Qed.

  (* ---------- the only panic that waits for another thread ---------- *)
  Theorem uexceeding_retries_only_PP3 s t c p k c0 c' : uthread_ok s t ->
    nth_error (m2_pool s) t = Some (URun c p k) ->
    nth_error (m2_pool (fst (ustep s t c0))) t = Some (UPanic SExceedingRetries c') ->
    exists lc i, p = PLow (TRun lc (PP3 i)).
  Proof.
    intros Hok Hth H. unfold uthread_ok in Hok. rewrite Hth in Hok. destruct Hok as [Hp Hst].
    pose proof (ustep_dec s t c p k c0 Hth Hp Hst) as (_ & _ & _ & Hd).
    rewrite H in Hd. apply Hd. reflexivity.
  Qed.
End UTheorems.

(* ---------- non-vacuity (vm_compute) ---------- *)
Definition gu : geom := {| hord := 9; tlog := 2 |}.
Definition pu := pol_simple 2048.
Definition rqu (o : nat) (c : N) (l : option N) : request := {| r_order := o; r_class := c; r_local := l |}.
Definition mku (g : geom) (fr : N) (i : init) (classing : list (N * N)) (d : N) : upper :=
  match llfree_new g fr i classing d (free_all g fr) [] (repeat slot_none 16) with
  | Ok u => u
  | _ => {| low := free_all g 0; trees := []; locals := []; dflt := 0 |}
  end.
(* 4 trees of 2048 frames, classes 0 and 1 with one slot each *)
Definition UE := mku gu 8192 IFreeAll [(0, 1); (1, 1)] 1.

(* number of solo steps until thread t is settled *)
Fixpoint usolo_steps (g : geom) (pol : N -> N -> N -> pol) (fuel : nat) (s : m2state) (t : nat) : option nat :=
  if usettled s t then Some 0%nat else
  match fuel with
  | O => None
  | S f => option_map S (usolo_steps g pol f (fst (ustep g pol s t UDrain)) t)
  end.
Definition thr_at (s : m2state) (t : nat) := nth_error (m2_pool s) t.
Definition prim_at (s : m2state) (t : nat) := match thr_at s t with Some (URun _ p _) => Some p | _ => None end.
Definition getu := UGet None (rqu 0 0 (Some 0)).

(* the bound for this configuration; a first get (local miss, neighbourhood search over 3 trees, reservation,
   lower get, slot swap) takes 11 accesses *)
Example ubound_values :
  ntrees UE = 4 /\ nslots UE = 2 /\ boundN gu = 235 /\ uboundN gu 4 2 = 9290 /\
  uboundN g7 1 1 = 1724.
Proof. vm_compute. repeat split; reflexivity. Qed.

Example usolo_get_ok :
  let s := fst (ustep gu pu (uboot UE [] 2) 0 getu) in
  usolo_steps gu pu 100 s 0 = Some 11%nat /\
  thr_at (usoloN gu pu 11 s 0) 0 = Some (UIdle (Some (Ok (6144, 0)))).
Proof. vm_compute. split; reflexivity. Qed.

(* thread 0 has loaded tree entry 3 and is about to reserve it (CAS); thread 1 allocates a frame of that tree
   in between (get_at): thread 0's CAS fails once, is retried with the value it observed, and succeeds *)
Definition getat3 := UGet (Some 6144) (rqu 0 1 None).
Definition Srace := urun gu pu (repeat (0%nat, getu) 6 ++ repeat (1%nat, getat3) 7) (uboot UE [] 2).
Example usolo_mid_race :
  thr_at Srace 1 = Some (UIdle (Some (Ok (6144, 1)))) /\
  prim_at Srace 0 = Some (PTC 3 (FRos 1 0) {| t_free := 2048; t_res := false; t_class := 1 |}
                                           {| t_free := 0; t_res := true; t_class := 0 |}) /\
  prim_at (usoloN gu pu 1 Srace 0) 0 =
    Some (PTC 3 (FRos 1 0) {| t_free := 2047; t_res := false; t_class := 1 |}
                           {| t_free := 0; t_res := true; t_class := 0 |}) /\
  prim_at (usoloN gu pu 2 Srace 0) 0 = Some (PLow (TRun (CGet 96 0) (G1L 0))) /\
  usolo_steps gu pu 100 Srace 0 = Some 7%nat /\
  thr_at (usoloN gu pu 7 Srace 0) 0 = Some (UIdle (Some (Ok (6145, 0)))).
Proof. vm_compute. repeat split; reflexivity. Qed.

(* D13 through the upper API (LLFree::put): thread 0 frees frame 0 of an allocated huge frame and stops before
   the CAS that clears the marker; thread 1 frees frame 1 of the same huge frame and spins on the marker.
   Alone, thread 1 panics "Exceeding retries"; after one step of thread 0 the same call completes. *)
Definition p7 := pol_simple 256.
Definition U7 := mku g7 256 IAllocAll [(0, 1)] 0.
Definition put7 (f : N) := UPut f (rqu 0 0 None).
Definition sch7 : list (nat * ucall) :=
  [(0%nat, put7 0); (0%nat, put7 0); (0%nat, put7 0); (0%nat, put7 0);
   (1%nat, put7 1); (1%nat, put7 1); (1%nat, put7 1)].
Theorem uknown_wait :
  let s := urun g7 p7 sch7 (uboot U7 (alloc_all_held g7 256) 2) in
  wf_geom g7 /\ uheld_ok s = true /\
  prim_at s 0 = Some (PLow (TRun (CPut 0 0) (PP2 MARK))) /\
  prim_at s 1 = Some (PLow (TRun (CPut 1 0) (PP3 0))) /\
  thr_at (usoloN g7 p7 4 s 1) 1 = Some (UPanic SExceedingRetries (put7 1)) /\
  thr_at (usoloN g7 p7 7 (fst (ustep g7 p7 s 0 UDrain)) 1) 1 = Some (UIdle (Some (Ok (0, 0)))).
Proof. split; [unfold wf_geom; cbn; lia|]. vm_compute. repeat split; reflexivity. Qed.
