(* C21 for the upper layer: every call of the whole allocator finishes in a bounded number of steps once
   it runs alone.  Machine: UpperMachine.v (M2).  `usoloN n s t` = n steps of thread t only.
   Proof: a measure on (memory, primitive in progress, continuation stack) = measure of the primitive
   (remaining accesses + one staleness unit for a CAS whose cached value differs from memory; for an
   embedded lower call: the measure `mu` of Progress.v) + the sum of the weights of the frames of the
   stack (remaining loop iterations x cost of one iteration, truncated subtraction for indices out of
   range).  Every step of a running thread whose primitive/stack are well formed (`prim_ok`, `stk_ok`)
   settles the thread or strictly decreases the measure and keeps well-formedness (`ustep_dec`).
   Well-formedness: orders <= tord (so that the embedded pc is `pc_ok`), loop counters of the searches
   within the number of trees, stored results are not panics, and the frames of the stack appear in
   call-graph order (`lvl` strictly decreasing towards the bottom), which bounds the sum of weights by
   `uboundN`: a function of the geometry, the number of trees and the number of slots only. *)
From Coq Require Import PeanoNat ZifyBool.
From LLF Require Import Base Row Bitfield Lower Sorted Upper LowerMachine Progress ConcBase UpperMachine.

(* ---------- lists ---------- *)
Lemma up_nth_lt {A} (l : list A) i x : nth_error l i = Some x -> (i < length l)%nat.
Proof. intros H. apply nth_error_Some. rewrite H. discriminate. Qed.

Lemma tree_eqb_refl t : tree_eqb t t = true.
Proof. unfold tree_eqb. rewrite !N.eqb_refl, Bool.eqb_reflx. reflexivity. Qed.
Lemma slot_eqb_refl s : slot_eqb s s = true.
Proof. unfold slot_eqb. rewrite !N.eqb_refl, Bool.eqb_reflx. reflexivity. Qed.

(* ---------- the configuration: what the bound may depend on ---------- *)
Definition slen (o : option (list slot)) : N := match o with Some l => N.of_nat (length l) | None => 0 end.
Definition nslots (u : upper) : N := sumf slen (locals u).

Lemma class_slots_le u c l : class_slots u c = Some l -> N.of_nat (length l) <= nslots u.
Proof.
  unfold class_slots, nslots. destruct (nth_error (locals u) (nn c)) as [[l'|]|] eqn:E; try discriminate.
  intros H. injection H as <-. exact (sumf_ge slen _ _ _ E).
Qed.

Lemma ntrees_set_tree u i t : ntrees (set_tree u i t) = ntrees u.
Proof. unfold ntrees, set_tree, with_trees. cbn [trees]. rewrite upd_length. reflexivity. Qed.
Lemma nslots_set_tree u i t : nslots (set_tree u i t) = nslots u.
Proof. reflexivity. Qed.
Lemma ntrees_set_slot u c i x : ntrees (set_slot u c i x) = ntrees u.
Proof. unfold set_slot. destruct (class_slots u c); reflexivity. Qed.
Lemma nslots_set_slot u c i x : nslots (set_slot u c i x) = nslots u.
Proof.
  unfold set_slot. destruct (class_slots u c) as [l|] eqn:E; [|reflexivity].
  unfold class_slots in E. destruct (nth_error (locals u) (nn c)) as [[l'|]|] eqn:E'; try discriminate.
  injection E as ->. unfold nslots, with_locals. cbn [locals].
  pose proof (sumf_upd slen (locals u) (nn c) (Some (upd l (nn i) x)) (Some l) E') as H.
  cbn [slen] in H. rewrite upd_length in H. lia.
Qed.

(* ---------- M1 facts needed for the embedded lower calls ---------- *)
(* the measure of Progress.v reads the memory only *)
Lemma mu_ext g s1 s2 c p : ms_ents s1 = ms_ents s2 -> ms_bfs s1 = ms_bfs s2 -> mu g s1 c p = mu g s2 c p.
Proof.
  intros He Hb. unfold mu. f_equal.
  destruct p; cbn [stale]; unfold stale_ent, stale_row, rd_ent, rd_row; rewrite ?He, ?Hb; reflexivity.
Qed.

Lemma entry_pc_ok g c : Nat.leb (c_order c) (tord g) = true -> pc_ok g c (entry_pc g c) = true.
Proof.
  intros H. assert (0 < c_hnum g c) by apply pow2_pos. unfold entry_pc.
  destruct c; cbn [c_order] in *; destruct (Nat.leb (hord g) order) eqn:E; cbn [pc_ok];
    unfold small; cbn [c_order]; lia.
Qed.

(* a call of M1 never completes with a panic as its result (panics stop the thread) *)
Section NoPanicResult.
  Variable g : geom.
  Definition npr (s : mstate) (t : nat) (s' : mstate) : Prop :=
    forall x, nth_error (ms_pool s') t <> Some (TIdle (Some (Panic x))).
  Lemma npr_crash s t c p s1 x : nth_error (ms_pool s) t = Some (TRun c p) ->
    ms_pool s1 = ms_pool s -> npr s t (crash s1 t c x).
  Proof.
    intros Hth Hp y H. rewrite (pool_crash s s1 t c x Hp) in H.
    rewrite nth_error_upd_same in H by (eapply up_nth_lt; exact Hth). discriminate.
  Qed.
  Lemma npr_finish s t c p s1 r : nth_error (ms_pool s) t = Some (TRun c p) ->
    ms_pool s1 = ms_pool s -> (forall x, r <> Panic x) -> npr s t (finish s1 t c r).
  Proof.
    intros Hth Hp Hr y H. rewrite (pool_finish s s1 t c r Hp) in H.
    rewrite nth_error_upd_same in H by (eapply up_nth_lt; exact Hth). injection H as ->. eapply Hr; reflexivity.
  Qed.
  Lemma npr_goto s t c p s1 p1 : nth_error (ms_pool s) t = Some (TRun c p) ->
    ms_pool s1 = ms_pool s -> npr s t (goto s1 t c p1).
  Proof.
    intros Hth Hp y H. rewrite (pool_goto s s1 t c p1 Hp) in H.
    rewrite nth_error_upd_same in H by (eapply up_nth_lt; exact Hth). discriminate.
  Qed.
  Ltac nleaf c :=
    lazymatch goal with
    | |- npr _ _ (crash _ _ _ _) => eapply npr_crash; [eassumption | pool]
    | |- npr _ _ (finish _ _ _ _) => eapply npr_finish; [eassumption | pool | try (destruct c); intros; discriminate]
    | |- npr _ _ (goto _ _ _ _) => eapply npr_goto; [eassumption | pool]
    end.
  Lemma no_panic_result s t c p c0 y : nth_error (ms_pool s) t = Some (TRun c p) ->
    nth_error (ms_pool (fst (mstep g s t c0))) t <> Some (TIdle (Some (Panic y))).
  Proof.
    intros Hth. revert y. change (npr s t (fst (mstep g s t c0))).
    unfold mstep. rewrite Hth.
    destruct p; cbv beta iota zeta.
    all: try (destruct x).
    all: branches.
    all: nleaf c.
  Qed.
End NoPanicResult.

Section UProgress.
  Variable g : geom.
  Variable policy : N -> N -> N -> pol.
  Notation TH := (THUGE g).
  Notation B := (boundN g).

  (* ---------- "the cached value of a CAS-retry primitive is out of date" ---------- *)
  Definition stale_tree (u : upper) (i : N) (cur : tree) : N :=
    match tree_at u i with Some t => if tree_eqb t cur then 0 else 1 | None => 0 end.
  Definition stale_slot (u : upper) (c idx : N) (cur : slot) : N :=
    match slot_at u c idx with Some s => if slot_eqb s cur then 0 else 1 | None => 0 end.

  (* ---------- the measure of the primitive in progress ---------- *)
  Definition TU : N := TH + 2.                       (* a whole tree try_update / update *)
  Definition SU : N := 2.                            (* a whole slot try_update *)
  Definition mprim (u : upper) (p : prim) : N :=
    match p with
    | PLd _ => 1
    | PTL _ _ => TU
    | PTF i _ cur j _ => rem TH j + 2 + stale_tree u i cur * (TH + 2)
    | PTC i _ cur _ => 1 + stale_tree u i cur * (TH + 2)
    | PSL _ _ _ => SU
    | PSC c idx _ cur _ => 1 + stale_slot u c idx cur
    | PSW _ _ _ => 1
    | PLow (TRun c p) => mu g (m1_view u (TRun c p)) c p
    | PLow _ => 1
    end.

  Definition prim_ok (p : prim) : bool :=
    match p with PLow (TRun c pc) => pc_ok g c pc | _ => true end.

  Lemma mprim_pos u p : 1 <= mprim u p.
  Proof.
    destruct p; cbn [mprim]; unfold TU, SU; try lia.
    destruct th; try lia. apply mu_pos.
  Qed.

  Lemma stale_tree_le1 u i t : stale_tree u i t <= 1.
  Proof. unfold stale_tree. destruct (tree_at u i); [destruct (tree_eqb _ _)|]; lia. Qed.
  Lemma stale_slot_le1 u c i t : stale_slot u c i t <= 1.
  Proof. unfold stale_slot. destruct (slot_at u c i); [destruct (slot_eqb _ _)|]; lia. Qed.
  Lemma stale_tree_fresh u i t : tree_at u i = Some t -> stale_tree u i t = 0.
  Proof. intros H. unfold stale_tree. rewrite H, tree_eqb_refl. reflexivity. Qed.
  Lemma stale_slot_fresh u c i t : slot_at u c i = Some t -> stale_slot u c i t = 0.
  Proof. intros H. unfold stale_slot. rewrite H, slot_eqb_refl. reflexivity. Qed.

  Lemma TH_pos : 1 <= TH.
  Proof. rewrite THUGE_pow2. pose proof (pow2_pos (tlog g)). lia. Qed.

  (* panics raised by the closures are not "Exceeding retries" *)
  Lemma tf_apply_site d f t fetch x : tf_apply g policy d f t fetch = Some (Panic x) -> x <> SExceedingRetries.
  Proof.
    destruct f; cbn [tf_apply]; unfold tree_unreserve_add, tree_put.
    all: repeat match goal with
         | |- context [option_map _ ?x] => destruct x; cbn [option_map]
         | |- context [if ?x then _ else _] => destruct x
         | |- context [match ?x with _ => _ end] => destruct x
         end; intros H; try discriminate; injection H as <-; discriminate.
  Qed.
  Lemma sf_apply_site f s x : sf_apply g f s = Some (Panic x) -> x <> SExceedingRetries.
  Proof.
    destruct f; cbn [sf_apply]; unfold slot_put.
    all: repeat match goal with
         | |- context [option_map _ ?x] => destruct x; cbn [option_map]
         | |- context [if ?x then _ else _] => destruct x
         | |- context [match ?x with _ => _ end] => destruct x
         end; intros H; try discriminate; injection H as <-; discriminate.
  Qed.

  (* results and values that are not panics *)
  Definition res_ok {A} (r : res A) : bool := match r with Panic _ => false | _ => true end.
  Definition val_ok (v : val) : bool := match v with VR r => res_ok r | _ => true end.

  (* ---------- one access: the primitive continues with a smaller measure, or completes ---------- *)
  Definition pdec (u : upper) (p : prim) (u' : upper) (o : outcome) : Prop :=
    ntrees u' = ntrees u /\ nslots u' = nslots u /\
    match o with
    | OStay p' => mprim u' p' < mprim u p /\ prim_ok p' = true
    | OVal v => val_ok v = true
    | OCrash x => x = SExceedingRetries -> exists c i, p = PLow (TRun c (PP3 i))
    end.

  Lemma tu_eval_dec u i f t M : tree_at u i = Some t -> TH + 1 < M ->
    match tu_eval g policy u i f t with
    | OStay p' => mprim u p' < M /\ prim_ok p' = true
    | OVal v => val_ok v = true
    | OCrash x => x <> SExceedingRetries
    end.
  Proof.
    intros Ht HM. pose proof TH_pos. unfold tu_eval. destruct (needs_fetch f t).
    - cbn [mprim prim_ok]. rewrite (stale_tree_fresh u i t Ht). unfold rem. split; [lia|reflexivity].
    - destruct (tf_apply g policy (dflt u) f t 0) as [[new|e|x]|] eqn:E; try reflexivity; try discriminate.
      + cbn [mprim prim_ok]. rewrite (stale_tree_fresh u i t Ht). split; [lia|reflexivity].
      + eapply tf_apply_site; exact E.
  Qed.

  Lemma su_eval_dec u c idx f s M : slot_at u c idx = Some s -> 1 < M ->
    match su_eval g c idx f s with
    | OStay p' => mprim u p' < M /\ prim_ok p' = true
    | OVal v => val_ok v = true
    | OCrash x => x <> SExceedingRetries
    end.
  Proof.
    intros Hs HM. unfold su_eval.
    destruct (sf_apply g f s) as [[new|e|x]|] eqn:E; try reflexivity; try discriminate.
    - cbn [mprim prim_ok]. rewrite (stale_slot_fresh u c idx s Hs). split; [lia|reflexivity].
    - eapply sf_apply_site; exact E.
  Qed.

  Lemma low_step_dec u c pc : prim_ok (PLow (TRun c pc)) = true ->
    let '(u', _, o) := prim_step g policy u (PLow (TRun c pc)) in pdec u (PLow (TRun c pc)) u' o.
  Proof.
    intros Hok. cbn [prim_step].
    set (s0 := m1_view u (TRun c pc)).
    assert (Hth : nth_error (ms_pool s0) 0 = Some (TRun c pc)) by reflexivity.
    pose proof (step_dec g s0 0 c pc c Hth) as [_ Hd].
    pose proof (no_panic_result g s0 0 c pc c) as Hnp.
    pose proof (exceeding_retries_only_PP3 g s0 0 c pc c) as Hex.
    destruct (mstep g s0 0 c) as [ms' ev]. cbn [fst] in *.
    set (u' := with_low u _).
    assert (Hcfg : ntrees u' = ntrees u /\ nslots u' = nslots u) by (split; reflexivity).
    destruct Hcfg as [Hn1 Hn2].
    destruct (nth_error (ms_pool ms') 0) as [[[[x|e|x]|]|c' p'|x c']|] eqn:En.
    all: unfold pdec; split; [exact Hn1|split; [exact Hn2|]]; try reflexivity; try discriminate.
    - intros _. exfalso. eapply Hnp; [exact Hth|reflexivity].
    - destruct Hd as [Hs | (p1 & Hp1 & Hlt & Hk)].
      + unfold Progress.settled in Hs. rewrite En in Hs. discriminate.
      + injection Hp1 as <- <-. cbn [mprim prim_ok].
        split; [|apply Hk; exact Hok].
        rewrite (mu_ext g (m1_view u' (TRun c' p')) ms' c' p') by reflexivity. exact Hlt.
    - intros ->. destruct (Hex c' Hth eq_refl) as (i & ->). exists c, i. reflexivity.
  Qed.

  Lemma pdec_of_eval u p o :
    match o with
    | OStay p' => mprim u p' < mprim u p /\ prim_ok p' = true
    | OVal v => val_ok v = true
    | OCrash x => x <> SExceedingRetries
    end -> pdec u p u o.
  Proof.
    intros H. split; [reflexivity|split; [reflexivity|]]. destruct o; try exact H. intros Hx. contradiction.
  Qed.

  Ltac ctriv := split; [reflexivity | split; [reflexivity | first [reflexivity | intros Hx; discriminate Hx]]].

  Lemma prim_step_dec u p : prim_ok p = true ->
    let '(u', _, o) := prim_step g policy u p in pdec u p u' o.
  Proof.
    intros Hok. pose proof TH_pos as HT.
    destruct p as [i|i f|i f cur j a|i f cur new|c idx f|c idx f cur new|c idx new|th].
    - cbn [prim_step]. destruct (tree_at u i); ctriv.
    - cbn [prim_step]. destruct (tree_at u i) as [t|] eqn:Et; [|ctriv].
      pose proof (tu_eval_dec u i f t (mprim u (PTL i f)) Et) as H.
      apply pdec_of_eval, H. cbn [mprim]. unfold TU. lia.
    - cbn [prim_step]. destruct (nth_error (ents (low u)) (nn (i * TH + j))) as [e|]; [|ctriv].
      destruct (j + 1 <? TH) eqn:Ej.
      + repeat split. cbn [mprim]. apply N.ltb_lt in Ej. rewrite (rem_succ TH j Ej). lia.
      + unfold tu_eval_fetched.
        destruct (tf_apply g policy (dflt u) f cur (a + e_free e)) as [[new|e'|x]|] eqn:E; repeat split; try discriminate.
        * cbn [mprim]. lia.
        * intros ->. exfalso. eapply tf_apply_site; [exact E|reflexivity].
    - cbn [prim_step]. destruct (tree_at u i) as [t|] eqn:Et; [|ctriv].
      destruct (tree_eqb t cur) eqn:Eq.
      + split; [apply ntrees_set_tree|split; [apply nslots_set_tree|reflexivity]].
      + pose proof (tu_eval_dec u i f t (mprim u (PTC i f cur new)) Et) as H.
        apply pdec_of_eval, H. cbn [mprim]. unfold stale_tree. rewrite Et, Eq. lia.
    - cbn [prim_step]. destruct (slot_at u c idx) as [s|] eqn:Es; [|ctriv].
      pose proof (su_eval_dec u c idx f s (mprim u (PSL c idx f)) Es) as H.
      apply pdec_of_eval, H. cbn [mprim]. unfold SU. lia.
    - cbn [prim_step]. destruct (slot_at u c idx) as [s|] eqn:Es; [|ctriv].
      destruct (slot_eqb s cur) eqn:Eq.
      + split; [apply ntrees_set_slot|split; [apply nslots_set_slot|reflexivity]].
      + pose proof (su_eval_dec u c idx f s (mprim u (PSC c idx f cur new)) Es) as H.
        apply pdec_of_eval, H. cbn [mprim]. unfold stale_slot. rewrite Es, Eq. lia.
    - cbn [prim_step]. destruct (slot_at u c idx) as [s|] eqn:Es; [|ctriv].
      split; [apply ntrees_set_slot|split; [apply nslots_set_slot|reflexivity]].
    - destruct th as [r|c pc|x c]; [ctriv| |ctriv].
      apply low_step_dec. exact Hok.
  Qed.
End UProgress.
