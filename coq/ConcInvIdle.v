(* Preservation of the invariant: an idle thread starts a call (for put: the ghost held list is split by
   `client_take` and the block moves to the thread). *)
From Coq Require Import PeanoNat.
From LLF Require Import Base BitLemmas Row RowProofs Bitfield Lower Spec LowerMachine
  ConcBase ConcInvDef ConcInvGeom ConcInvStep ConcInvTac ConcInvAt.

Lemma lxor_1 a : N.lxor a 1 = if N.even a then a + 1 else a - 1.
Proof. destruct a as [|[p|p|]]; cbn; try reflexivity; lia. Qed.

(* a block and its buddy make up the parent *)
Lemma buddy_cover f k x : f mod pow2 k = 0 ->
  b2n (cover (f, k) x) + b2n (cover (N.lxor (f / pow2 k) 1 * pow2 k, k) x)
  = b2n (cover (f / pow2 (S k) * pow2 (S k), S k) x).
Proof.
  intros Hal. pose proof (pow2_nz k) as Hn. pose proof (pow2_pos k) as Hp.
  pose proof (N.div_mod f (pow2 k) Hn) as E. rewrite Hal, N.add_0_r in E.
  set (a := f / pow2 k) in *. set (P := pow2 k) in *.
  assert (E2 : f / pow2 (S k) = a / 2).
  { rewrite pow2_S. fold P. rewrite (N.mul_comm 2 P), <- N.div_div by lia. reflexivity. }
  rewrite E2, lxor_1, pow2_S. fold P. unfold cover, inb. cbn [fst snd]. rewrite pow2_S. fold P.
  pose proof (N.div_mod a 2 ltac:(lia)) as Ea. pose proof (N.mod_lt a 2 ltac:(lia)) as La.
  set (b := a / 2) in *. rewrite E at 1 2.
  destruct (N.even a) eqn:Ev.
  - apply N.even_spec in Ev. destruct Ev as [b' Eb]. assert (a = 2 * b) by lia.
    replace (P * a) with (2 * b * P) by lia. replace ((a + 1) * P) with (2 * b * P + P) by lia. lia.
  - assert (Ho : N.odd a = true) by (rewrite <- N.negb_even, Ev; reflexivity).
    apply N.odd_spec in Ho. destruct Ho as [b' Eb]. assert (a = 2 * b + 1) by lia.
    replace (a - 1) with (2 * b) by lia. replace (P * a) with (2 * b * P + P) by lia. lia.
Qed.

Lemma div_mul_div f A B : A <> 0 -> B <> 0 -> (f / A * A) / (A * B) = f / (A * B).
Proof. intros HA HB. rewrite <- !N.div_div by assumption. rewrite N.div_mul by assumption. reflexivity. Qed.

Lemma siblings_cover n : forall f k x, f mod pow2 k = 0 ->
  sumf (fun b => b2n (cover b x)) (siblings f k n) + b2n (cover (f, k) x)
  = b2n (cover (f / pow2 (k + n) * pow2 (k + n), (k + n)%nat) x).
Proof.
  induction n as [|n IH]; intros f k x Hal.
  - cbn [siblings]. rewrite sumf_nil, Nat.add_0_r. pose proof (pow2_nz k) as Hn.
    pose proof (N.div_mod f (pow2 k) Hn) as E. rewrite Hal, N.add_0_r in E. rewrite (N.mul_comm (f / pow2 k)), <- E. lia.
  - cbn [siblings]. rewrite sumf_cons.
    assert (Hal' : (f / pow2 (S k) * pow2 (S k)) mod pow2 (S k) = 0) by (apply N.mod_mul, pow2_nz).
    specialize (IH _ (S k) x Hal'). pose proof (buddy_cover f k x Hal) as Bd.
    replace (k + S n)%nat with (S k + n)%nat by lia.
    assert (Ed : f / pow2 (S k) * pow2 (S k) / pow2 (S k + n) = f / pow2 (S k + n)).
    { rewrite pow2_add. apply div_mul_div; apply pow2_nz. }
    rewrite Ed in IH. clear - IH Bd.
    set (c1 := cover (f, k) x) in *. set (c2 := cover (N.lxor (f / pow2 k) 1 * pow2 k, k) x) in *.
    set (c3 := cover (f / pow2 (S k) * pow2 (S k), S k) x) in *. lia.
Qed.

Lemma siblings_aligned n : forall f k, Forall (fun b => fst b mod pow2 (snd b) = 0) (siblings f k n).
Proof. induction n; intros f k; cbn [siblings]; constructor; [cbn [fst snd]; apply N.mod_mul, pow2_nz|apply IHn]. Qed.
Lemma siblings_orders n : forall f k, Forall (fun b => (snd b < k + n)%nat) (siblings f k n).
Proof. induction n; intros f k; cbn [siblings]; constructor; [cbn [snd]; lia|].
  eapply Forall_impl; [|apply IHn]. cbn beta. intros b Hb. lia. Qed.

Section Idle.
  Variable g : geom.
  Hypothesis wf : wf_geom g.
  Notation HF := (HF g).
  Notation THUGE := (THUGE g).
  Notation ROWS := (ROWS g).

  (* carving (f,k) out of the held block (F,K) that contains it *)
  Lemma carve fm f k F K : blk_in f k F K = true -> f mod pow2 k = 0 -> blk_ok fm (F, K) = true ->
    (forall x, sumf (fun b => b2n (cover b x)) (siblings f k (K - k)) + b2n (cover (f, k) x) = b2n (cover (F, K) x)) /\
    (forall h, sumf (hugeb g h) (siblings f k (K - k)) + hugeb g h (f, k) <= hugeb g h (F, K)) /\
    Forall (fun b => blk_ok fm b = true) (siblings f k (K - k)).
  Proof.
    intros Hin Hal Hok. unfold blk_in in Hin. unfold blk_ok in Hok. cbn [fst snd] in Hok.
    assert (HkK : (k <= K)%nat) by lia.
    pose proof (pow2_nz K) as HnK. pose proof (pow2_pos k) as Hpk.
    assert (Eanc : f / pow2 (k + (K - k)) * pow2 (k + (K - k)) = F).
    { replace (k + (K - k))%nat with K by lia.
      pose proof (N.div_mod F (pow2 K) HnK) as EF. assert (F mod pow2 K = 0) by lia.
      assert (f / pow2 K = F / pow2 K).
      { symmetry. apply (N.div_unique f (pow2 K) (F / pow2 K) (f - F)); lia. }
      lia. }
    assert (Hcov : forall x, sumf (fun b => b2n (cover b x)) (siblings f k (K - k)) + b2n (cover (f, k) x) = b2n (cover (F, K) x)).
    { intros x. rewrite (siblings_cover (K - k) f k x Hal), Eanc. replace (k + (K - k))%nat with K by lia. reflexivity. }
    split; [exact Hcov|]. split.
    - intros h. destruct (Nat.leb_spec (hord g) K) as [HK|HK].
      + specialize (Hcov (h * HF)).
        assert (Hle : sumf (hugeb g h) (siblings f k (K - k)) <= sumf (fun b => b2n (cover b (h * HF))) (siblings f k (K - k))).
        { apply sumf_le_in. intros b _. unfold hugeb. destruct (Nat.leb (hord g) (snd b)); cbn [andb]; lia. }
        unfold hugeb at 2 3. cbn [snd]. destruct (Nat.leb_spec (hord g) K); [|lia]. cbn [andb].
        destruct (Nat.leb (hord g) k); cbn [andb]; lia.
      + assert (Hz : sumf (hugeb g h) (siblings f k (K - k)) = 0).
        { apply sumf_all_zero. intros b Hb. pose proof (proj1 (Forall_forall _ _) (siblings_orders (K - k) f k) b Hb) as Ho.
          cbn beta in Ho. unfold hugeb. destruct (Nat.leb_spec (hord g) (snd b)); [lia|reflexivity]. }
        rewrite Hz. unfold hugeb. cbn [snd]. destruct (Nat.leb_spec (hord g) k); [lia|]. cbn. lia.
    - apply Forall_forall. intros b Hb.
      pose proof (proj1 (Forall_forall _ _) (siblings_aligned (K - k) f k) b Hb) as Hab. cbn beta in Hab.
      pose proof (pow2_pos (snd b)) as Hpb.
      assert (Hc : forall x, b2n (cover b x) <= b2n (cover (F, K) x)).
      { intros x. pose proof (Hcov x). pose proof (sumf_ge_in (fun b => b2n (cover b x)) _ b Hb). cbn beta in *. lia. }
      pose proof (Hc (fst b)) as H1. pose proof (Hc (fst b + pow2 (snd b) - 1)) as H2.
      unfold cover, inb in H1, H2. cbn [fst snd] in H1, H2. unfold blk_ok. lia.
  Qed.

  Lemma client_take_spec fm f k : f mod pow2 k = 0 -> forall held held',
    client_take held f k = Some held' -> Forall (fun b => blk_ok fm b = true) held ->
    (forall x, heldc x held = heldc x held' + b2n (cover (f, k) x)) /\
    (forall h, hugec g h held' + hugeb g h (f, k) <= hugec g h held) /\
    Forall (fun b => blk_ok fm b = true) held'.
  Proof.
    intros Hal. induction held as [|[F K] r IH]; intros held' Ht Hok; cbn [client_take] in Ht; [discriminate|].
    inversion Hok as [|? ? Hb Hr]; subst.
    destruct (blk_in f k F K) eqn:Hin.
    - inversion Ht; subst held'. destruct (carve fm f k F K Hin Hal Hb) as (Hc & Hh & Hf).
      split; [|split].
      + intros x. unfold heldc. rewrite sumf_app, sumf_cons. specialize (Hc x). lia.
      + intros h. unfold hugec. rewrite sumf_app, sumf_cons. specialize (Hh h). lia.
      + apply Forall_app. split; assumption.
    - destruct (client_take r f k) as [r'|] eqn:Er; [|discriminate]. inversion Ht; subst held'.
      destruct (IH r' eq_refl Hr) as (Hc & Hh & Hf). split; [|split].
      + intros x. unfold heldc in *. rewrite !sumf_cons. specialize (Hc x). lia.
      + intros h. unfold hugec in *. rewrite !sumf_cons. specialize (Hh h). lia.
      + constructor; assumption.
  Qed.

  Lemma call_ok_cwf s c : call_ok g s c = cwf g (ms_frames s) c.
  Proof. reflexivity. Qed.

  Lemma entry_local fm c : cwf g fm c = true -> lpc g fm c (entry_pc g c) = true.
  Proof.
    intros Hc. pose proof (THUGE_pos g) as PT.
    assert (H0 : 0 <? c_hnum g c = true) by (apply N.ltb_lt, pow2_pos).
    assert (Hg : (hord g <= c_order c)%nat -> 0 <? group_cnt g c = true).
    { intros Hk. apply N.ltb_lt. destruct c; cbn [group_cnt]; try lia.
      apply N.div_str_pos. split; [apply pow2_pos|].
      unfold c_hnum. rewrite THUGE_pow2. apply pow2_le. unfold cwf, tord in Hc. cbn [c_order] in *. lia. }
    destruct c as [st o|f o|f o]; cbn [entry_pc c_order] in *;
      (destruct (Nat.leb_spec (hord g) o) as [Hk|Hk]; cbn [lpc c_order is_get is_getat is_put]; unfold small; cbn [c_order];
       [specialize (Hg Hk); destruct (Nat.leb_spec (hord g) o); lia | destruct (Nat.ltb_spec o (hord g)); lia]).
  Qed.

  Lemma step_Idle s t l c0 : Inv g s -> nth_error (ms_pool s) t = Some (TIdle l) ->
    Inv g (fst (mstep g s t c0)).
  Proof.
    intros I Ht. unfold mstep. rewrite Ht. rewrite call_ok_cwf.
    destruct (cwf g (ms_frames s) c0) eqn:Hc; [|exact I].
    pose proof (entry_local (ms_frames s) c0 Hc) as Hl.
    assert (Hloc : local_b g (ms_frames s) (TRun c0 (entry_pc g c0)) = true) by (cbn [local_b]; rewrite Hc, Hl; reflexivity).
    pose proof (HF_pos g) as HP.
    destruct c0 as [st o|f o|f o].
    - cbn [fst]. apply (inv_plain g s t _ _ I Ht); [|reflexivity|exact Hloc].
      intros h. cbn [entry_pc]. destruct (hord g <=? o)%nat; constructor; intros; gsimp; cbn [is_put]; gsimp; unfold inb; try lia; destr_if; lia.
    - cbn [fst]. apply (inv_plain g s t _ _ I Ht); [|reflexivity|exact Hloc].
      intros h. cbn [entry_pc]. destruct (hord g <=? o)%nat; constructor; intros; gsimp; cbn [is_put]; gsimp; unfold inb; try lia; destr_if; lia.
    - destruct (client_take (ms_held s) f o) as [held'|] eqn:Et; [|exact I]. cbn [fst].
      change (Inv g (mk_thr s t (TRun (CPut f o) (entry_pc g (CPut f o))) held')).
      assert (Hal : f mod pow2 o = 0) by (unfold cwf in Hc; lia).
      destruct (client_take_spec (ms_frames s) f o Hal _ _ Et (I_H g s I)) as (Hcv & Hhu & Hok).
      apply (inv_thr g s t _ _ held' I Ht); [|reflexivity|exact Hloc|exact Hok].
      intros h. cbn [entry_pc]. destruct (Nat.leb_spec (hord g) o) as [Hk|Hk].
      + constructor; intros; try (gsimp; cbn [is_put]; gsimp; unfold inb; try lia; destr_if; lia).
        * rewrite (Hcv (fidx g h r i)). gsimp. cbn [is_put]. gsimp. unfold cover, inb, c_n. cbn [fst snd c_order c_frame]. lia.
        * specialize (Hhu h). unfold hugeb in Hhu. cbn [snd] in Hhu. destruct (Nat.leb_spec (hord g) o); [|lia].
          gsimp. cbn [is_put]. gsimp. unfold cover, inb, c_n in *. cbn [fst snd c_order c_frame andb] in *. lia.
      + constructor; intros; try (gsimp; unfold inb; try lia; destr_if; lia).
        * rewrite (Hcv (fidx g h r i)). gsimp. unfold cover, inb, c_n. cbn [fst snd c_order c_frame]. lia.
        * specialize (Hhu h). gsimp. cbn. lia.
  Qed.
End Idle.
