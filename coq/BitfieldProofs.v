(* Bitfield-level facts for the allocation side: `bf_toggle .. false`, `bf_set_first_zeros`,
   `bf_is_zero`, stated on the bitfield read as one number (`rows_bits`): the operation sets exactly
   one aligned block `blk off (pow2 k)` that was clear, and the search is complete. *)
From Coq Require Import PeanoNat ZArith ZifyN ZifyBool.
From LLF Require Import Base BitLemmas Row RowProofs Bitfield Lower Spec AbsLemmas.
Local Open Scope N_scope.
Ltac Zify.zify_post_hook ::= Z.div_mod_to_equations.

(* ---------- lists ---------- *)
Lemma forallb_firstn_spec {A} (f : A -> bool) : forall n l,
  forallb f (firstn n l) = true <-> (forall j x, (j < n)%nat -> nth_error l j = Some x -> f x = true).
Proof.
  induction n as [|n IH]; intros l; cbn [firstn forallb].
  - split; [intros _ j x Hj; lia|reflexivity].
  - destruct l as [|a l]; cbn [forallb].
    + split; [intros _ j x _; rewrite nth_error_nil; discriminate|reflexivity].
    + rewrite andb_true_iff, IH. split.
      * intros (Ha & H) [|j] x Hj; cbn [nth_error]; [intros [= <-]; exact Ha|]. apply H. lia.
      * intros H. split; [apply (H O a); [lia|reflexivity]|].
        intros j x Hj Hx. apply (H (S j) x); [lia|exact Hx].
Qed.

Lemma forallb_firstn_skipn_spec {A} (f : A -> bool) : forall r l n,
  forallb f (firstn n (skipn r l)) = true <->
  (forall j x, (r <= j < r + n)%nat -> nth_error l j = Some x -> f x = true).
Proof.
  induction r as [|r IH]; intros l n.
  - cbn [skipn]. rewrite forallb_firstn_spec. split; intros H j x Hj; apply H; lia.
  - destruct l as [|a l]; cbn [skipn].
    + rewrite firstn_nil. cbn [forallb]. split; [intros _ j x _; rewrite nth_error_nil; discriminate|reflexivity].
    + rewrite IH. split.
      * intros H [|j] x Hj; [lia|]. cbn [nth_error]. apply H. lia.
      * intros H j x Hj Hx. apply (H (S j) x); [lia|exact Hx].
Qed.

Lemma toggle_rows_cas : forall n rows r, toggle_rows rows r n false = cas_all rows r n 0 MAX64.
Proof.
  induction n as [|n IH]; intros rows r; cbn [toggle_rows cas_all]; [reflexivity|].
  destruct (nth_error rows r) as [v|]; [|reflexivity].
  destruct (v =? 0); [apply IH|reflexivity].
Qed.

Lemma aligned_weaken a k k' : (k' <= k)%nat -> a mod pow2 k = 0 -> a mod pow2 k' = 0.
Proof.
  intros Hk Ha. rewrite (aligned_mul a (pow2 k) (pow2_nz k) Ha), (pow2_split k' k Hk), N.mul_assoc.
  apply N.mod_mul, pow2_nz.
Qed.

Lemma of_nat_nn x : N.of_nat (nn x) = x.
Proof. apply N2Nat.id. Qed.

Lemma MAX64_lt : MAX64 < W64.
Proof. reflexivity. Qed.

Lemma MAX64_testbit b : b < 64 -> N.testbit MAX64 b = true.
Proof. intros H. rewrite MAX64_ones. apply N.ones_spec_low, H. Qed.

Section BF.
  Variable g : geom.
  Hypothesis WF : wf_geom g.

  Lemma rows_ok_nth rows r e : rows_ok g rows -> nth_error rows r = Some e -> e < W64.
  Proof.
    intros (_ & Hf) He. rewrite Forall_forall in Hf. apply Hf. apply (nth_error_In _ _ He).
  Qed.

  Lemma rows_bits_upd_testbit rows r v j :
    rows_ok g rows -> v < W64 -> (r < length rows)%nat ->
    N.testbit (rows_bits (upd rows r v)) j =
    if j / 64 =? N.of_nat r then N.testbit v (j mod 64) else N.testbit (rows_bits rows) j.
  Proof.
    intros Hr Hv Hlt.
    rewrite (rows_bits_testbit g _ (rows_ok_upd g rows r v Hr Hv)), (rows_bits_testbit g _ Hr).
    destruct (N.eqb_spec (j / 64) (N.of_nat r)) as [E|E].
    - replace (nn (j / 64)) with r by (unfold nn; lia). rewrite nth_error_upd_same by exact Hlt. reflexivity.
    - rewrite nth_error_upd_other by (unfold nn; lia). reflexivity.
  Qed.

  (* ---------- one block inside one row ---------- *)
  Lemma row_block_zero rows r e b n :
    rows_ok g rows -> nth_error rows r = Some e -> b + n <= 64 ->
    (N.land e (blk b n) = 0 <-> N.land (rows_bits rows) (blk (64 * N.of_nat r + b) n) = 0).
  Proof.
    intros Hr He Hb. rewrite !land_blk_zero. split; intros H j Hj.
    - rewrite (rows_bits_testbit g _ Hr).
      replace (nn (j / 64)) with r by (unfold nn; lia). rewrite He. apply H. lia.
    - specialize (H (64 * N.of_nat r + j)). rewrite (rows_bits_testbit g _ Hr) in H.
      replace (nn ((64 * N.of_nat r + j) / 64)) with r in H by (unfold nn; lia). rewrite He in H.
      replace ((64 * N.of_nat r + j) mod 64) with j in H by lia. apply H. lia.
  Qed.

  Lemma row_block_set rows r e b n :
    rows_ok g rows -> nth_error rows r = Some e -> b + n <= 64 ->
    rows_ok g (upd rows r (N.lor e (blk b n))) /\
    rows_bits (upd rows r (N.lor e (blk b n))) = N.lor (rows_bits rows) (blk (64 * N.of_nat r + b) n).
  Proof.
    intros Hr He Hb.
    assert (Hv : N.lor e (blk b n) < W64).
    { rewrite W64_pow. apply lor_lt_pow2; [apply (rows_ok_nth rows r e Hr He)|apply blk_lt, Hb]. }
    assert (Hlt : (r < length rows)%nat) by (apply nth_error_Some; congruence).
    split; [apply rows_ok_upd; assumption|].
    apply N.bits_inj. intros j. rewrite (rows_bits_upd_testbit rows r _ j Hr Hv Hlt), !lor_blk_testbit.
    destruct (N.eqb_spec (j / 64) (N.of_nat r)) as [E|E].
    - rewrite (rows_bits_testbit g _ Hr). replace (nn (j / 64)) with r by (unfold nn; lia). rewrite He.
      f_equal.
      destruct (N.leb_spec b (j mod 64)), (N.ltb_spec (j mod 64) (b + n)),
        (N.leb_spec (64 * N.of_nat r + b) j), (N.ltb_spec j (64 * N.of_nat r + b + n));
        cbn [andb]; try reflexivity; lia.
    - destruct (N.leb_spec (64 * N.of_nat r + b) j), (N.ltb_spec j (64 * N.of_nat r + b + n));
        cbn [andb]; rewrite ?orb_false_r; try reflexivity; lia.
  Qed.

  (* ---------- a range of whole rows ---------- *)
  Definition rows_zero (rows : list N) (r n : nat) : Prop :=
    forall j, (r <= j < r + n)%nat -> nth_error rows j = Some 0.

  Lemma rows_range_zero rows r n :
    rows_ok g rows -> (r + n <= length rows)%nat ->
    (rows_zero rows r n <-> N.land (rows_bits rows) (blk (64 * N.of_nat r) (64 * N.of_nat n)) = 0).
  Proof.
    intros Hr Hlen. rewrite land_blk_zero. split.
    - intros H j Hj. rewrite (rows_bits_testbit g _ Hr).
      rewrite (H (nn (j / 64))) by (unfold nn; lia). apply N.bits_0.
    - intros H j Hj. destruct (nth_error rows j) as [v|] eqn:E.
      + f_equal. apply N.bits_inj. intros b. rewrite N.bits_0.
        destruct (N.lt_ge_cases b 64) as [Hb|Hb].
        * specialize (H (64 * N.of_nat j + b)). rewrite (rows_bits_testbit g _ Hr) in H.
          replace (nn ((64 * N.of_nat j + b) / 64)) with j in H by (unfold nn; lia). rewrite E in H.
          replace ((64 * N.of_nat j + b) mod 64) with b in H by lia. apply H. lia.
        * apply (testbit_high v 64); [apply (rows_ok_nth rows j v Hr E)|exact Hb].
      + apply nth_error_None in E. lia.
  Qed.

  Lemma rows_range_set rows r n rows' :
    rows_ok g rows -> length rows' = length rows ->
    (forall j, nth_error rows' j = if (r <=? j)%nat && (j <? r + n)%nat then Some MAX64 else nth_error rows j) ->
    rows_ok g rows' /\
    rows_bits rows' = N.lor (rows_bits rows) (blk (64 * N.of_nat r) (64 * N.of_nat n)).
  Proof.
    intros Hr Hlen Hn.
    assert (Hr' : rows_ok g rows').
    { split; [rewrite Hlen; apply Hr|]. apply Forall_forall. intros x Hx.
      apply In_nth_error in Hx. destruct Hx as (j & Hj). rewrite Hn in Hj.
      destruct ((r <=? j)%nat && (j <? r + n)%nat); [injection Hj as <-; apply MAX64_lt|].
      apply (rows_ok_nth rows j x Hr Hj). }
    split; [exact Hr'|].
    apply N.bits_inj. intros j.
    rewrite lor_blk_testbit, (rows_bits_testbit g _ Hr'), (rows_bits_testbit g _ Hr), Hn.
    destruct (Nat.leb_spec r (nn (j / 64))), (Nat.ltb_spec (nn (j / 64)) (r + n)),
      (N.leb_spec (64 * N.of_nat r) j), (N.ltb_spec j (64 * N.of_nat r + 64 * N.of_nat n));
      cbn [andb]; unfold nn in *; rewrite ?orb_false_r; try reflexivity; try lia.
    rewrite MAX64_testbit by lia. rewrite orb_true_r. reflexivity.
  Qed.
End BF.

Section Toggle.
  Variable g : geom.
  Hypothesis WF : wf_geom g.

  Lemma pow2_le_64 k : (k <= 6)%nat -> pow2 k <= 64.
  Proof. intros H. change 64 with (pow2 6). apply pow2_le, H. Qed.

  (* position of frame i inside its bitfield: row (i/64) mod ROWS, bit i mod 64 *)
  Lemma bf_pos i : i mod HF g = 64 * ((i / 64) mod ROWS g) + i mod 64.
  Proof.
    pose proof (ROWS_pos g WF) as HR.
    assert (E1 : (i mod HF g) / 64 = (i / 64) mod ROWS g).
    { rewrite (HF_64 g WF). apply div_mod_mul; lia. }
    assert (E2 : (i mod HF g) mod 64 = i mod 64).
    { rewrite (HF_64 g WF). apply mod_mod_mul; lia. }
    pose proof (N.div_mod (i mod HF g) 64 nz64). lia.
  Qed.

  Lemma bf_row_lt i : (i / 64) mod ROWS g < ROWS g.
  Proof. apply N.mod_lt. pose proof (ROWS_pos g WF). lia. Qed.

  Lemma small_block_in_row i k : (k <= 6)%nat -> i mod pow2 k = 0 -> i mod 64 + pow2 k <= 64.
  Proof.
    intros Hk Hi. apply aligned_block_fits.
    - apply pow2_nz.
    - change 64 with (pow2 6). apply pow2_mod, Hk.
    - change 64 with (pow2 6). rewrite (pow2_split k 6 Hk), N.mul_comm.
      rewrite mod_mod_mul; [exact Hi|apply pow2_nz|apply pow2_nz].
    - apply N.mod_lt. discriminate.
  Qed.

  Lemma row_exists rows r : rows_ok g rows -> r < ROWS g -> exists e, nth_error rows (nn r) = Some e.
  Proof.
    intros Hr Hlt. destruct (nth_error rows (nn r)) as [e|] eqn:E; [eauto|].
    apply nth_error_None in E. pose proof (rows_ok_length g WF rows Hr). unfold nn in *. lia.
  Qed.

  (* geometry of a block of whole rows: order k > 6 *)
  Lemma big_block_rows i k : (6 < k)%nat -> (k <= hord g)%nat -> i mod pow2 k = 0 ->
    let di := (i / 64) mod ROWS g in
    let nr := Nat.pow 2 (k - 6) in
    i mod HF g = 64 * N.of_nat (nn di) /\ pow2 k = 64 * N.of_nat nr /\
    (nn di + nr <= rows_nat g)%nat.
  Proof.
    intros Hk6 Hk Hi di nr.
    assert (E64 : i mod 64 = 0).
    { change 64 with (pow2 6). apply (aligned_weaken i k 6); [lia|exact Hi]. }
    assert (Ep : pow2 k = 64 * N.of_nat nr).
    { rewrite (pow2_split 6 k) by lia. change (pow2 6) with 64. rewrite pow2_of_nat. subst nr. lia. }
    assert (Eo : i mod HF g = 64 * N.of_nat (nn di)).
    { rewrite bf_pos, E64. unfold nn. rewrite N2Nat.id. subst di. lia. }
    split; [exact Eo|]. split; [exact Ep|].
    pose proof (aligned_in_huge g i k Hk Hi) as Hfit. rewrite Eo, Ep, (HF_64 g WF), (ROWS_nat g WF) in Hfit.
    lia.
  Qed.

  (* ---------- toggle(i, k, false) ---------- *)
  Lemma bf_toggle_false_some rows i k rows' :
    rows_ok g rows -> (k <= hord g)%nat -> i mod pow2 k = 0 ->
    bf_toggle g rows i k false = Some rows' ->
    rows_ok g rows' /\
    N.land (rows_bits rows) (blk (i mod HF g) (pow2 k)) = 0 /\
    rows_bits rows' = N.lor (rows_bits rows) (blk (i mod HF g) (pow2 k)).
  Proof.
    intros Hr Hk Hi H. unfold bf_toggle in H.
    destruct (Nat.leb_spec k 6) as [Hk6|Hk6].
    - cbv zeta in H. unfold row_at in H. rewrite mask64_blk in H.
      destruct (nth_error rows (nn ((i / 64) mod ROWS g))) as [e|] eqn:E; [|discriminate].
      destruct (N.eqb_spec (N.land e (blk (i mod 64) (pow2 k))) 0) as [Z|Z]; [|discriminate].
      injection H as <-.
      pose proof (small_block_in_row i k Hk6 Hi) as Hfit.
      rewrite bf_pos.
      destruct (row_block_set g rows _ e _ _ Hr E Hfit) as (Hok & Hbits).
      pose proof (row_block_zero g rows _ e _ _ Hr E Hfit) as RB.
      rewrite of_nat_nn in Hbits, RB.
      split; [exact Hok|]. split; [|exact Hbits].
      apply RB. exact Z.
    - cbv zeta in H. rewrite toggle_rows_cas in H.
      destruct (big_block_rows i k Hk6 Hk Hi) as (Eo & Ep & Hfit). cbv zeta in *.
      apply cas_all_some in H. destruct H as (Hlen & Hz & Hn).
      rewrite Eo, Ep.
      destruct (rows_range_set g rows _ _ rows' Hr Hlen Hn) as (Hok & Hbits).
      split; [exact Hok|]. split; [|exact Hbits].
      apply (rows_range_zero g rows _ _ Hr); [destruct Hr as (Hl & _); lia|exact Hz].
  Qed.

  Lemma bf_toggle_false_none rows i k :
    rows_ok g rows -> (k <= hord g)%nat -> i mod pow2 k = 0 ->
    bf_toggle g rows i k false = None ->
    N.land (rows_bits rows) (blk (i mod HF g) (pow2 k)) <> 0.
  Proof.
    intros Hr Hk Hi H Hz. unfold bf_toggle in H.
    destruct (Nat.leb_spec k 6) as [Hk6|Hk6].
    - cbv zeta in H. unfold row_at in H. rewrite mask64_blk in H.
      destruct (row_exists rows _ Hr (bf_row_lt i)) as (e & E). rewrite E in H.
      pose proof (small_block_in_row i k Hk6 Hi) as Hfit.
      rewrite bf_pos in Hz.
      pose proof (row_block_zero g rows _ e _ _ Hr E Hfit) as RB. rewrite of_nat_nn in RB.
      apply RB in Hz. rewrite Hz in H. discriminate.
    - cbv zeta in H. rewrite toggle_rows_cas in H.
      destruct (big_block_rows i k Hk6 Hk Hi) as (Eo & Ep & Hfit). cbv zeta in *.
      rewrite Eo, Ep in Hz.
      apply (rows_range_zero g rows _ _ Hr) in Hz; [|destruct Hr as (Hl & _); lia].
      apply cas_all_none in H. destruct H as (j & Hj & Hne). apply Hne, Hz, Hj.
  Qed.

  (* the toggle succeeds exactly when the block is clear *)
  Lemma bf_toggle_false_iff rows i k :
    rows_ok g rows -> (k <= hord g)%nat -> i mod pow2 k = 0 ->
    (bf_toggle g rows i k false <> None <-> N.land (rows_bits rows) (blk (i mod HF g) (pow2 k)) = 0).
  Proof.
    intros Hr Hk Hi. split.
    - destruct (bf_toggle g rows i k false) as [rows'|] eqn:E; [|congruence].
      intros _. apply (bf_toggle_false_some rows i k rows' Hr Hk Hi E).
    - intros Hz E. apply (bf_toggle_false_none rows i k Hr Hk Hi E Hz).
  Qed.

  Lemma bf_toggle_false_count rows i k rows' :
    rows_ok g rows -> (k <= hord g)%nat -> i mod pow2 k = 0 ->
    bf_toggle g rows i k false = Some rows' ->
    bf_count_zeros rows' + pow2 k = bf_count_zeros rows.
  Proof.
    intros Hr Hk Hi H. destruct (bf_toggle_false_some rows i k rows' Hr Hk Hi H) as (Hok & Hz & Hb).
    apply (count_zeros_set_block g WF rows rows' _ _ Hr Hok Hz Hb).
  Qed.

  (* ---------- is_zero ---------- *)
  Lemma bf_is_zero_spec rows i k :
    rows_ok g rows -> (k <= hord g)%nat -> i mod pow2 k = 0 ->
    (bf_is_zero g rows i k = true <-> N.land (rows_bits rows) (blk (i mod HF g) (pow2 k)) = 0).
  Proof.
    intros Hr Hk Hi. unfold bf_is_zero.
    destruct (Nat.leb_spec k 6) as [Hk6|Hk6].
    - unfold row_at. rewrite mask64_blk.
      destruct (row_exists rows _ Hr (bf_row_lt i)) as (e & E). rewrite E.
      pose proof (small_block_in_row i k Hk6 Hi) as Hfit.
      rewrite bf_pos, N.eqb_eq.
      pose proof (row_block_zero g rows _ e _ _ Hr E Hfit) as RB. rewrite of_nat_nn in RB. exact RB.
    - destruct (big_block_rows i k Hk6 Hk Hi) as (Eo & Ep & Hfit). cbv zeta in *.
      rewrite Eo, Ep, forallb_firstn_skipn_spec.
      rewrite <- (rows_range_zero g rows _ _ Hr) by (destruct Hr as (Hl & _); lia).
      unfold rows_zero. split.
      + intros H j Hj. destruct (nth_error rows j) as [v|] eqn:E.
        * f_equal. apply N.eqb_eq. apply (H j v Hj E).
        * apply nth_error_None in E. destruct Hr as (Hl & _). lia.
      + intros H j x Hj Hx. rewrite (H j Hj) in Hx. injection Hx as <-. reflexivity.
  Qed.
End Toggle.
