(* Bitfield-level facts for the allocation side: `bf_toggle .. false`, `bf_set_first_zeros`,
   `bf_is_zero`, stated on the bitfield read as one number (`rows_bits`): the operation sets exactly
   one aligned block `blk off (pow2 k)` that was clear, and the search is complete. *)
From Coq Require Import PeanoNat ZArith ZifyN ZifyBool.
From LLF Require Import Base BitLemmas Row RowProofs Bitfield Lower Spec AbsLemmas.
Local Open Scope N_scope.
Ltac Zify.zify_post_hook ::= Z.div_mod_to_equations.

(* ---------- lists ---------- *)
Lemma forallb_firstn_spec {A} (f : A -> bool) : forall n l,
  forallb f (firstn n l) = true <-> (forall j x, (j < n)%nat -> nth_error l j = Some x -> f x = true).
Proof.
  induction n as [|n IH]; intros l; cbn [firstn forallb].
  - split; [intros _ j x Hj; lia|reflexivity].
  - destruct l as [|a l]; cbn [forallb].
    + split; [intros _ j x _; rewrite nth_error_nil; discriminate|reflexivity].
    + rewrite andb_true_iff, IH. split.
      * intros (Ha & H) [|j] x Hj; cbn [nth_error]; [intros [= <-]; exact Ha|]. apply H. lia.
      * intros H. split; [apply (H O a); [lia|reflexivity]|].
        intros j x Hj Hx. apply (H (S j) x); [lia|exact Hx].
Qed.

Lemma forallb_firstn_skipn_spec {A} (f : A -> bool) : forall r l n,
  forallb f (firstn n (skipn r l)) = true <->
  (forall j x, (r <= j < r + n)%nat -> nth_error l j = Some x -> f x = true).
Proof.
  induction r as [|r IH]; intros l n.
  - cbn [skipn]. rewrite forallb_firstn_spec. split; intros H j x Hj; apply H; lia.
  - destruct l as [|a l]; cbn [skipn].
    + rewrite firstn_nil. cbn [forallb]. split; [intros _ j x _; rewrite nth_error_nil; discriminate|reflexivity].
    + rewrite IH. split.
      * intros H [|j] x Hj; [lia|]. cbn [nth_error]. apply H. lia.
      * intros H j x Hj Hx. apply (H (S j) x); [lia|exact Hx].
Qed.

Lemma toggle_rows_cas : forall n rows r, toggle_rows rows r n false = cas_all rows r n 0 MAX64.
Proof.
  induction n as [|n IH]; intros rows r; cbn [toggle_rows cas_all]; [reflexivity|].
  destruct (nth_error rows r) as [v|]; [|reflexivity].
  destruct (v =? 0); [apply IH|reflexivity].
Qed.

Lemma aligned_weaken a k k' : (k' <= k)%nat -> a mod pow2 k = 0 -> a mod pow2 k' = 0.
Proof.
  intros Hk Ha. rewrite (aligned_mul a (pow2 k) (pow2_nz k) Ha), (pow2_split k' k Hk), N.mul_assoc.
  apply N.mod_mul, pow2_nz.
Qed.

Lemma of_nat_nn x : N.of_nat (nn x) = x.
Proof. apply N2Nat.id. Qed.

Lemma MAX64_lt : MAX64 < W64.
Proof. reflexivity. Qed.

Lemma MAX64_testbit b : b < 64 -> N.testbit MAX64 b = true.
Proof. intros H. rewrite MAX64_ones. apply N.ones_spec_low, H. Qed.

Section BF.
  Variable g : geom.
  Hypothesis WF : wf_geom g.

  Lemma rows_ok_nth rows r e : rows_ok g rows -> nth_error rows r = Some e -> e < W64.
  Proof.
    intros (_ & Hf) He. rewrite Forall_forall in Hf. apply Hf. apply (nth_error_In _ _ He).
  Qed.

  Lemma rows_bits_upd_testbit rows r v j :
    rows_ok g rows -> v < W64 -> (r < length rows)%nat ->
    N.testbit (rows_bits (upd rows r v)) j =
    if j / 64 =? N.of_nat r then N.testbit v (j mod 64) else N.testbit (rows_bits rows) j.
  Proof.
    intros Hr Hv Hlt.
    rewrite (rows_bits_testbit g _ (rows_ok_upd g rows r v Hr Hv)), (rows_bits_testbit g _ Hr).
    destruct (N.eqb_spec (j / 64) (N.of_nat r)) as [E|E].
    - replace (nn (j / 64)) with r by (unfold nn; lia). rewrite nth_error_upd_same by exact Hlt. reflexivity.
    - rewrite nth_error_upd_other by (unfold nn; lia). reflexivity.
  Qed.

  (* ---------- one block inside one row ---------- *)
  Lemma row_block_zero rows r e b n :
    rows_ok g rows -> nth_error rows r = Some e -> b + n <= 64 ->
    (N.land e (blk b n) = 0 <-> N.land (rows_bits rows) (blk (64 * N.of_nat r + b) n) = 0).
  Proof.
    intros Hr He Hb. rewrite !land_blk_zero. split; intros H j Hj.
    - rewrite (rows_bits_testbit g _ Hr).
      replace (nn (j / 64)) with r by (unfold nn; lia). rewrite He. apply H. lia.
    - specialize (H (64 * N.of_nat r + j)). rewrite (rows_bits_testbit g _ Hr) in H.
      replace (nn ((64 * N.of_nat r + j) / 64)) with r in H by (unfold nn; lia). rewrite He in H.
      replace ((64 * N.of_nat r + j) mod 64) with j in H by lia. apply H. lia.
  Qed.

  Lemma row_block_set rows r e b n :
    rows_ok g rows -> nth_error rows r = Some e -> b + n <= 64 ->
    rows_ok g (upd rows r (N.lor e (blk b n))) /\
    rows_bits (upd rows r (N.lor e (blk b n))) = N.lor (rows_bits rows) (blk (64 * N.of_nat r + b) n).
  Proof.
    intros Hr He Hb.
    assert (Hv : N.lor e (blk b n) < W64).
    { rewrite W64_pow. apply lor_lt_pow2; [apply (rows_ok_nth rows r e Hr He)|apply blk_lt, Hb]. }
    assert (Hlt : (r < length rows)%nat) by (apply nth_error_Some; congruence).
    split; [apply rows_ok_upd; assumption|].
    apply N.bits_inj. intros j. rewrite (rows_bits_upd_testbit rows r _ j Hr Hv Hlt), !lor_blk_testbit.
    destruct (N.eqb_spec (j / 64) (N.of_nat r)) as [E|E].
    - rewrite (rows_bits_testbit g _ Hr). replace (nn (j / 64)) with r by (unfold nn; lia). rewrite He.
      f_equal.
      destruct (N.leb_spec b (j mod 64)), (N.ltb_spec (j mod 64) (b + n)),
        (N.leb_spec (64 * N.of_nat r + b) j), (N.ltb_spec j (64 * N.of_nat r + b + n));
        cbn [andb]; try reflexivity; lia.
    - destruct (N.leb_spec (64 * N.of_nat r + b) j), (N.ltb_spec j (64 * N.of_nat r + b + n));
        cbn [andb]; rewrite ?orb_false_r; try reflexivity; lia.
  Qed.

  (* ---------- a range of whole rows ---------- *)
  Definition rows_zero (rows : list N) (r n : nat) : Prop :=
    forall j, (r <= j < r + n)%nat -> nth_error rows j = Some 0.

  Lemma rows_range_zero rows r n :
    rows_ok g rows -> (r + n <= length rows)%nat ->
    (rows_zero rows r n <-> N.land (rows_bits rows) (blk (64 * N.of_nat r) (64 * N.of_nat n)) = 0).
  Proof.
    intros Hr Hlen. rewrite land_blk_zero. split.
    - intros H j Hj. rewrite (rows_bits_testbit g _ Hr).
      rewrite (H (nn (j / 64))) by (unfold nn; lia). apply N.bits_0.
    - intros H j Hj. destruct (nth_error rows j) as [v|] eqn:E.
      + f_equal. apply N.bits_inj. intros b. rewrite N.bits_0.
        destruct (N.lt_ge_cases b 64) as [Hb|Hb].
        * specialize (H (64 * N.of_nat j + b)). rewrite (rows_bits_testbit g _ Hr) in H.
          replace (nn ((64 * N.of_nat j + b) / 64)) with j in H by (unfold nn; lia). rewrite E in H.
          replace ((64 * N.of_nat j + b) mod 64) with b in H by lia. apply H. lia.
        * apply (testbit_high v 64); [apply (rows_ok_nth rows j v Hr E)|exact Hb].
      + apply nth_error_None in E. lia.
  Qed.

  Lemma rows_range_set rows r n rows' :
    rows_ok g rows -> length rows' = length rows ->
    (forall j, nth_error rows' j = if (r <=? j)%nat && (j <? r + n)%nat then Some MAX64 else nth_error rows j) ->
    rows_ok g rows' /\
    rows_bits rows' = N.lor (rows_bits rows) (blk (64 * N.of_nat r) (64 * N.of_nat n)).
  Proof.
    intros Hr Hlen Hn.
    assert (Hr' : rows_ok g rows').
    { split; [rewrite Hlen; apply Hr|]. apply Forall_forall. intros x Hx.
      apply In_nth_error in Hx. destruct Hx as (j & Hj). rewrite Hn in Hj.
      destruct ((r <=? j)%nat && (j <? r + n)%nat); [injection Hj as <-; apply MAX64_lt|].
      apply (rows_ok_nth rows j x Hr Hj). }
    split; [exact Hr'|].
    apply N.bits_inj. intros j.
    rewrite lor_blk_testbit, (rows_bits_testbit g _ Hr'), (rows_bits_testbit g _ Hr), Hn.
    destruct (Nat.leb_spec r (nn (j / 64))), (Nat.ltb_spec (nn (j / 64)) (r + n)),
      (N.leb_spec (64 * N.of_nat r) j), (N.ltb_spec j (64 * N.of_nat r + 64 * N.of_nat n));
      cbn [andb]; unfold nn in *; rewrite ?orb_false_r; try reflexivity; try lia.
    rewrite MAX64_testbit by lia. rewrite orb_true_r. reflexivity.
  Qed.
End BF.

Section Toggle.
  Variable g : geom.
  Hypothesis WF : wf_geom g.

  Lemma pow2_le_64 k : (k <= 6)%nat -> pow2 k <= 64.
  Proof. intros H. change 64 with (pow2 6). apply pow2_le, H. Qed.

  (* position of frame i inside its bitfield: row (i/64) mod ROWS, bit i mod 64 *)
  Lemma bf_pos i : i mod HF g = 64 * ((i / 64) mod ROWS g) + i mod 64.
  Proof.
    pose proof (ROWS_pos g WF) as HR.
    assert (E1 : (i mod HF g) / 64 = (i / 64) mod ROWS g).
    { rewrite (HF_64 g WF). apply div_mod_mul; lia. }
    assert (E2 : (i mod HF g) mod 64 = i mod 64).
    { rewrite (HF_64 g WF). apply mod_mod_mul; lia. }
    pose proof (N.div_mod (i mod HF g) 64 nz64). lia.
  Qed.

  Lemma bf_row_lt i : (i / 64) mod ROWS g < ROWS g.
  Proof. apply N.mod_lt. pose proof (ROWS_pos g WF). lia. Qed.

  Lemma small_block_in_row i k : (k <= 6)%nat -> i mod pow2 k = 0 -> i mod 64 + pow2 k <= 64.
  Proof.
    intros Hk Hi. apply aligned_block_fits.
    - apply pow2_nz.
    - change 64 with (pow2 6). apply pow2_mod, Hk.
    - change 64 with (pow2 6). rewrite (pow2_split k 6 Hk), N.mul_comm.
      rewrite mod_mod_mul; [exact Hi|apply pow2_nz|apply pow2_nz].
    - apply N.mod_lt. discriminate.
  Qed.

  Lemma row_exists rows r : rows_ok g rows -> r < ROWS g -> exists e, nth_error rows (nn r) = Some e.
  Proof.
    intros Hr Hlt. destruct (nth_error rows (nn r)) as [e|] eqn:E; [eauto|].
    apply nth_error_None in E. pose proof (rows_ok_length g WF rows Hr). unfold nn in *. lia.
  Qed.

  (* geometry of a block of whole rows: order k > 6 *)
  Lemma big_block_rows i k : (6 < k)%nat -> (k <= hord g)%nat -> i mod pow2 k = 0 ->
    let di := (i / 64) mod ROWS g in
    let nr := Nat.pow 2 (k - 6) in
    i mod HF g = 64 * N.of_nat (nn di) /\ pow2 k = 64 * N.of_nat nr /\
    (nn di + nr <= rows_nat g)%nat.
  Proof.
    intros Hk6 Hk Hi di nr.
    assert (E64 : i mod 64 = 0).
    { change 64 with (pow2 6). apply (aligned_weaken i k 6); [lia|exact Hi]. }
    assert (Ep : pow2 k = 64 * N.of_nat nr).
    { rewrite (pow2_split 6 k) by lia. change (pow2 6) with 64. rewrite pow2_of_nat. subst nr. lia. }
    assert (Eo : i mod HF g = 64 * N.of_nat (nn di)).
    { rewrite bf_pos, E64. unfold nn. rewrite N2Nat.id. subst di. lia. }
    split; [exact Eo|]. split; [exact Ep|].
    pose proof (aligned_in_huge g i k Hk Hi) as Hfit. rewrite Eo, Ep, (HF_64 g WF), (ROWS_nat g WF) in Hfit.
    lia.
  Qed.

  (* ---------- toggle(i, k, false) ---------- *)
  Lemma bf_toggle_false_some rows i k rows' :
    rows_ok g rows -> (k <= hord g)%nat -> i mod pow2 k = 0 ->
    bf_toggle g rows i k false = Some rows' ->
    rows_ok g rows' /\
    N.land (rows_bits rows) (blk (i mod HF g) (pow2 k)) = 0 /\
    rows_bits rows' = N.lor (rows_bits rows) (blk (i mod HF g) (pow2 k)).
  Proof.
    intros Hr Hk Hi H. unfold bf_toggle in H.
    destruct (Nat.leb_spec k 6) as [Hk6|Hk6].
    - cbv zeta in H. unfold row_at in H. rewrite mask64_blk in H.
      destruct (nth_error rows (nn ((i / 64) mod ROWS g))) as [e|] eqn:E; [|discriminate].
      destruct (N.eqb_spec (N.land e (blk (i mod 64) (pow2 k))) 0) as [Z|Z]; [|discriminate].
      injection H as <-.
      pose proof (small_block_in_row i k Hk6 Hi) as Hfit.
      rewrite bf_pos.
      destruct (row_block_set g rows _ e _ _ Hr E Hfit) as (Hok & Hbits).
      pose proof (row_block_zero g rows _ e _ _ Hr E Hfit) as RB.
      rewrite of_nat_nn in Hbits, RB.
      split; [exact Hok|]. split; [|exact Hbits].
      apply RB. exact Z.
    - cbv zeta in H. rewrite toggle_rows_cas in H.
      destruct (big_block_rows i k Hk6 Hk Hi) as (Eo & Ep & Hfit). cbv zeta in *.
      apply cas_all_some in H. destruct H as (Hlen & Hz & Hn).
      rewrite Eo, Ep.
      destruct (rows_range_set g rows _ _ rows' Hr Hlen Hn) as (Hok & Hbits).
      split; [exact Hok|]. split; [|exact Hbits].
      apply (rows_range_zero g rows _ _ Hr); [destruct Hr as (Hl & _); lia|exact Hz].
  Qed.

  Lemma bf_toggle_false_none rows i k :
    rows_ok g rows -> (k <= hord g)%nat -> i mod pow2 k = 0 ->
    bf_toggle g rows i k false = None ->
    N.land (rows_bits rows) (blk (i mod HF g) (pow2 k)) <> 0.
  Proof.
    intros Hr Hk Hi H Hz. unfold bf_toggle in H.
    destruct (Nat.leb_spec k 6) as [Hk6|Hk6].
    - cbv zeta in H. unfold row_at in H. rewrite mask64_blk in H.
      destruct (row_exists rows _ Hr (bf_row_lt i)) as (e & E). rewrite E in H.
      pose proof (small_block_in_row i k Hk6 Hi) as Hfit.
      rewrite bf_pos in Hz.
      pose proof (row_block_zero g rows _ e _ _ Hr E Hfit) as RB. rewrite of_nat_nn in RB.
      apply RB in Hz. rewrite Hz in H. discriminate.
    - cbv zeta in H. rewrite toggle_rows_cas in H.
      destruct (big_block_rows i k Hk6 Hk Hi) as (Eo & Ep & Hfit). cbv zeta in *.
      rewrite Eo, Ep in Hz.
      apply (rows_range_zero g rows _ _ Hr) in Hz; [|destruct Hr as (Hl & _); lia].
      apply cas_all_none in H. destruct H as (j & Hj & Hne). apply Hne, Hz, Hj.
  Qed.

  (* the toggle succeeds exactly when the block is clear *)
  Lemma bf_toggle_false_iff rows i k :
    rows_ok g rows -> (k <= hord g)%nat -> i mod pow2 k = 0 ->
    (bf_toggle g rows i k false <> None <-> N.land (rows_bits rows) (blk (i mod HF g) (pow2 k)) = 0).
  Proof.
    intros Hr Hk Hi. split.
    - destruct (bf_toggle g rows i k false) as [rows'|] eqn:E; [|congruence].
      intros _. apply (bf_toggle_false_some rows i k rows' Hr Hk Hi E).
    - intros Hz E. apply (bf_toggle_false_none rows i k Hr Hk Hi E Hz).
  Qed.

  Lemma bf_toggle_false_count rows i k rows' :
    rows_ok g rows -> (k <= hord g)%nat -> i mod pow2 k = 0 ->
    bf_toggle g rows i k false = Some rows' ->
    bf_count_zeros rows' + pow2 k = bf_count_zeros rows.
  Proof.
    intros Hr Hk Hi H. destruct (bf_toggle_false_some rows i k rows' Hr Hk Hi H) as (Hok & Hz & Hb).
    apply (count_zeros_set_block g WF rows rows' _ _ Hr Hok Hz Hb).
  Qed.

  (* ---------- is_zero ---------- *)
  Lemma bf_is_zero_spec rows i k :
    rows_ok g rows -> (k <= hord g)%nat -> i mod pow2 k = 0 ->
    (bf_is_zero g rows i k = true <-> N.land (rows_bits rows) (blk (i mod HF g) (pow2 k)) = 0).
  Proof.
    intros Hr Hk Hi. unfold bf_is_zero.
    destruct (Nat.leb_spec k 6) as [Hk6|Hk6].
    - unfold row_at. rewrite mask64_blk.
      destruct (row_exists rows _ Hr (bf_row_lt i)) as (e & E). rewrite E.
      pose proof (small_block_in_row i k Hk6 Hi) as Hfit.
      rewrite bf_pos, N.eqb_eq.
      pose proof (row_block_zero g rows _ e _ _ Hr E Hfit) as RB. rewrite of_nat_nn in RB. exact RB.
    - destruct (big_block_rows i k Hk6 Hk Hi) as (Eo & Ep & Hfit). cbv zeta in *.
      rewrite Eo, Ep, forallb_firstn_skipn_spec.
      rewrite <- (rows_range_zero g rows _ _ Hr) by (destruct Hr as (Hl & _); lia).
      unfold rows_zero. split.
      + intros H j Hj. destruct (nth_error rows j) as [v|] eqn:E.
        * f_equal. apply N.eqb_eq. apply (H j v Hj E).
        * apply nth_error_None in E. destruct Hr as (Hl & _). lia.
      + intros H j x Hj Hx. rewrite (H j Hj) in Hx. injection Hx as <-. reflexivity.
  Qed.
End Toggle.

Lemma rot_surj Q c m : m < Q -> exists j, j < Q /\ (j + c) mod Q = m.
Proof.
  intros Hm. assert (HQ : Q <> 0) by lia.
  exists ((m + Q - c mod Q) mod Q). split; [apply N.mod_lt, HQ|].
  rewrite N.add_mod_idemp_l by exact HQ.
  pose proof (N.div_mod c Q HQ) as E. pose proof (N.mod_lt c Q HQ) as L.
  replace (m + Q - c mod Q + c) with (m + (1 + c / Q) * Q) by nia.
  rewrite N.mod_add by exact HQ. apply N.mod_small, Hm.
Qed.

Section SetFirstZeros.
  Variable g : geom.
  Hypothesis WF : wf_geom g.

  (* ---------- orders 0..6: one row ---------- *)
  Lemma sfz_loop_some rows start k : rows_ok g rows -> forall n i rows' off,
    sfz_loop g rows start k i n = Some (rows', off) ->
    exists r e v p, r < ROWS g /\ nth_error rows (nn r) = Some e /\ fza e k = Some (v, p) /\
                    rows' = upd rows (nn r) v /\ off = r * 64 + p.
  Proof.
    intros Hr. induction n as [|n IH]; intros i rows' off H; cbn [sfz_loop] in H; [discriminate|].
    cbv zeta in H. unfold row_at in H.
    set (r := (i + start mod ROWS g) mod ROWS g) in *.
    destruct (nth_error rows (nn r)) as [e|] eqn:E; [|discriminate].
    destruct (fza e k) as [[v p]|] eqn:F.
    - injection H as <- <-. exists r, e, v, p. repeat split; try assumption.
      apply N.mod_lt. pose proof (ROWS_pos g WF). lia.
    - apply (IH _ _ _ H).
  Qed.

  Lemma sfz_loop_none rows start k : rows_ok g rows -> forall n i,
    sfz_loop g rows start k i n = None ->
    forall i', i <= i' < i + N.of_nat n ->
    exists e, nth_error rows (nn ((i' + start mod ROWS g) mod ROWS g)) = Some e /\ fza e k = None.
  Proof.
    intros Hr. induction n as [|n IH]; intros i H i' Hi'; [lia|].
    cbn [sfz_loop] in H. cbv zeta in H. unfold row_at in H.
    assert (Hlt : (i + start mod ROWS g) mod ROWS g < ROWS g).
    { apply N.mod_lt. pose proof (ROWS_pos g WF). lia. }
    destruct (row_exists g WF rows _ Hr Hlt) as (e & E). rewrite E in H.
    destruct (fza e k) as [[v p]|] eqn:F; [discriminate|].
    destruct (N.eq_dec i' i) as [->|Hne]; [exists e; split; assumption|].
    apply (IH _ H). lia.
  Qed.

  Lemma sfz_small_some rows start k rows' off :
    rows_ok g rows -> (k <= 6)%nat ->
    sfz_loop g rows start k 0 (length rows) = Some (rows', off) ->
    off mod pow2 k = 0 /\ off + pow2 k <= HF g /\ rows_ok g rows' /\
    N.land (rows_bits rows) (blk off (pow2 k)) = 0 /\
    rows_bits rows' = N.lor (rows_bits rows) (blk off (pow2 k)).
  Proof.
    intros Hr Hk H.
    destruct (sfz_loop_some rows start k Hr _ _ _ _ H) as (r & e & v & p & Hlt & E & F & -> & ->).
    pose proof (rows_ok_nth g rows _ e Hr E) as He.
    destruct (fza_some e k v p He Hk F) as (Hal & Hfit & Hfree & -> & _).
    fold (pow2 k) in *. rewrite blk_block_mask in *.
    unfold block_free in Hfree. rewrite blk_block_mask in Hfree. apply N.eqb_eq in Hfree.
    destruct (row_block_set g rows _ e _ _ Hr E Hfit) as (Hok & Hbits).
    pose proof (row_block_zero g rows _ e _ _ Hr E Hfit) as RB. rewrite of_nat_nn in Hbits, RB.
    replace (r * 64 + p) with (64 * r + p) by lia.
    split; [|split; [|split; [exact Hok|split; [apply RB, Hfree|exact Hbits]]]].
    - assert (E64 : 64 = pow2 (6 - k) * pow2 k) by (change 64 with (pow2 6); apply pow2_split, Hk).
      replace (64 * r + p) with (p + (r * pow2 (6 - k)) * pow2 k) by nia.
      rewrite N.mod_add by apply pow2_nz. exact Hal.
    - rewrite (HF_64 g WF). lia.
  Qed.

  Lemma sfz_small_none rows start k :
    rows_ok g rows -> (k <= 6)%nat ->
    sfz_loop g rows start k 0 (length rows) = None ->
    forall off, off mod pow2 k = 0 -> off + pow2 k <= HF g ->
    N.land (rows_bits rows) (blk off (pow2 k)) <> 0.
  Proof.
    intros Hr Hk H off Hal Hfit Hz.
    pose proof (pow2_pos k) as Hp.
    assert (Hrow : off / 64 < ROWS g).
    { apply N.div_lt_upper_bound; [discriminate|]. rewrite <- (HF_64 g WF). lia. }
    destruct (rot_surj (ROWS g) (start mod ROWS g) (off / 64) Hrow) as (j & Hj & Ej).
    pose proof (sfz_loop_none rows start k Hr _ _ H j) as Hn.
    rewrite (rows_ok_length g WF rows Hr) in Hn. destruct Hn as (e & E & F); [lia|].
    rewrite Ej in E.
    pose proof (rows_ok_nth g rows _ e Hr E) as He.
    pose proof (small_block_in_row (off) k Hk Hal) as Hfit64.
    assert (Hal64 : (off mod 64) mod pow2 k = 0).
    { change 64 with (pow2 6). rewrite (pow2_split k 6 Hk), N.mul_comm.
      rewrite mod_mod_mul; [exact Hal|apply pow2_nz|apply pow2_nz]. }
    pose proof (fza_none e k He Hk F (off mod 64) Hal64 Hfit64) as Hnf.
    unfold block_free in Hnf. rewrite blk_block_mask in Hnf. apply N.eqb_neq in Hnf. apply Hnf.
    pose proof (row_block_zero g rows _ e _ _ Hr E Hfit64) as RB. rewrite of_nat_nn in RB.
    apply RB. replace (64 * (off / 64) + off mod 64) with off by lia. exact Hz.
  Qed.

  (* ---------- orders above 6: chunks of whole rows ---------- *)
  Lemma sfzr_loop_some rows nr : forall n c rows' off,
    sfzr_loop rows nr c n = Some (rows', off) ->
    exists c', (c <= c' < c + n)%nat /\ toggle_rows rows (c' * nr) nr false = Some rows' /\
               off = N.of_nat (c' * nr) * 64.
  Proof.
    induction n as [|n IH]; intros c rows' off H; cbn [sfzr_loop] in H; [discriminate|].
    destruct (forallb (fun v => v =? 0) (firstn nr (skipn (c * nr) rows))).
    - destruct (toggle_rows rows (c * nr) nr false) as [r'|] eqn:T; [|discriminate].
      injection H as <- <-. exists c. repeat split; [lia|lia|exact T].
    - destruct (IH _ _ _ H) as (c' & Hc & T & E). exists c'. repeat split; try assumption; lia.
  Qed.

  Lemma chunk_zero_toggle rows nr c :
    (c * nr + nr <= length rows)%nat ->
    forallb (fun v => v =? 0) (firstn nr (skipn (c * nr) rows)) = true ->
    toggle_rows rows (c * nr) nr false <> None.
  Proof.
    intros Hfit F. rewrite forallb_firstn_skipn_spec in F. rewrite toggle_rows_cas.
    destruct (cas_all_complete nr rows (c * nr) 0 MAX64) as (es' & Es); [|congruence].
    intros j Hj. destruct (nth_error rows j) as [v|] eqn:E.
    - f_equal. apply N.eqb_eq. apply (F j v Hj E).
    - apply nth_error_None in E. lia.
  Qed.

  Lemma sfzr_loop_none rows nr : forall n c,
    ((c + n) * nr <= length rows)%nat ->
    sfzr_loop rows nr c n = None ->
    forall c', (c <= c' < c + n)%nat ->
    forallb (fun v => v =? 0) (firstn nr (skipn (c' * nr) rows)) = false.
  Proof.
    induction n as [|n IH]; intros c Hlen H c' Hc; [lia|]. cbn [sfzr_loop] in H.
    destruct (forallb (fun v => v =? 0) (firstn nr (skipn (c * nr) rows))) eqn:F.
    - exfalso. apply (chunk_zero_toggle rows nr c); [nia|exact F|].
      destruct (toggle_rows rows (c * nr) nr false); [discriminate|reflexivity].
    - destruct (Nat.eq_dec c' c) as [->|Hne]; [exact F|].
      apply (IH (S c)); [nia|exact H|lia].
  Qed.

  Lemma chunk_geom k : (6 < k)%nat -> (k <= hord g)%nat ->
    let nr := Nat.pow 2 (k - 6) in let n := Nat.pow 2 (hord g - k) in
    rows_nat g = (n * nr)%nat /\ pow2 k = 64 * N.of_nat nr /\ nr <> O /\
    (Nat.div (rows_nat g) nr + (if Nat.eqb (Nat.modulo (rows_nat g) nr) 0 then 0 else 1) = n)%nat.
  Proof.
    intros Hk6 Hk nr n.
    assert (E : rows_nat g = (n * nr)%nat).
    { unfold rows_nat. subst n nr. rewrite <- Nat.pow_add_r. f_equal. lia. }
    assert (Hnr : nr <> O) by (apply Nat.pow_nonzero; lia).
    split; [exact E|]. split; [|split; [exact Hnr|]].
    - rewrite (pow2_split 6 k) by lia. change (pow2 6) with 64. rewrite pow2_of_nat. subst nr. lia.
    - rewrite E, Nat.div_mul, Nat.mod_mul by exact Hnr. cbn [Nat.eqb]. lia.
  Qed.

  Lemma sfz_big_some rows k rows' off :
    rows_ok g rows -> (6 < k)%nat -> (k <= hord g)%nat ->
    (let nr := Nat.pow 2 (k - 6) in
     sfzr_loop rows nr 0 (Nat.div (length rows) nr + (if Nat.eqb (Nat.modulo (length rows) nr) 0 then 0 else 1)))
    = Some (rows', off) ->
    off mod pow2 k = 0 /\ off + pow2 k <= HF g /\ rows_ok g rows' /\
    N.land (rows_bits rows) (blk off (pow2 k)) = 0 /\
    rows_bits rows' = N.lor (rows_bits rows) (blk off (pow2 k)).
  Proof.
    intros Hr Hk6 Hk H. cbv zeta in H.
    destruct (chunk_geom k Hk6 Hk) as (Elen & Ep & Hnr & En). cbv zeta in *.
    set (nr := Nat.pow 2 (k - 6)) in *. set (n := Nat.pow 2 (hord g - k)) in *.
    destruct Hr as (Hl & Hf). rewrite Hl, En in H. assert (Hr : rows_ok g rows) by (split; assumption).
    destruct (sfzr_loop_some rows nr _ _ _ _ H) as (c' & Hc & T & ->).
    rewrite toggle_rows_cas in T. apply cas_all_some in T. destruct T as (Hlen & Hz & Hn).
    assert (Hfit : (c' * nr + nr <= length rows)%nat).
    { rewrite Hl, Elen. nia. }
    destruct (rows_range_set g rows _ _ rows' Hr Hlen Hn) as (Hok & Hbits).
    replace (N.of_nat (c' * nr) * 64) with (64 * N.of_nat (c' * nr)) by lia.
    rewrite Ep. split; [|split; [|split; [exact Hok|split; [|exact Hbits]]]].
    - rewrite Nat2N.inj_mul. replace (64 * (N.of_nat c' * N.of_nat nr)) with (N.of_nat c' * (64 * N.of_nat nr)) by lia.
      apply N.mod_mul. lia.
    - rewrite (HF_64 g WF), (ROWS_nat g WF), <- Hl. lia.
    - apply (rows_range_zero g rows _ _ Hr Hfit). exact Hz.
  Qed.

  Lemma sfz_big_none rows k :
    rows_ok g rows -> (6 < k)%nat -> (k <= hord g)%nat ->
    (let nr := Nat.pow 2 (k - 6) in
     sfzr_loop rows nr 0 (Nat.div (length rows) nr + (if Nat.eqb (Nat.modulo (length rows) nr) 0 then 0 else 1)))
    = None ->
    forall off, off mod pow2 k = 0 -> off + pow2 k <= HF g ->
    N.land (rows_bits rows) (blk off (pow2 k)) <> 0.
  Proof.
    intros Hr Hk6 Hk H off Hal Hfit Hz. cbv zeta in H.
    destruct (chunk_geom k Hk6 Hk) as (Elen & Ep & Hnr & En). cbv zeta in *.
    set (nr := Nat.pow 2 (k - 6)) in *. set (n := Nat.pow 2 (hord g - k)) in *.
    destruct Hr as (Hl & Hf). rewrite Hl, En in H. assert (Hr : rows_ok g rows) by (split; assumption).
    pose proof (aligned_mul off (pow2 k) (pow2_nz k) Hal) as Eo.
    set (c := off / pow2 k) in *.
    assert (Hc : c < N.of_nat n).
    { rewrite (HF_64 g WF), (ROWS_nat g WF), Elen in Hfit. rewrite Eo, Ep in Hfit. nia. }
    assert (Eoff : off = 64 * N.of_nat (nn c * nr)).
    { rewrite Eo, Ep, Nat2N.inj_mul, of_nat_nn. lia. }
    assert (Hfitr : (nn c * nr + nr <= length rows)%nat).
    { rewrite Hl, Elen. unfold nn. nia. }
    rewrite Eoff, Ep in Hz. apply (rows_range_zero g rows _ _ Hr Hfitr) in Hz.
    assert (F : forallb (fun v => v =? 0) (firstn nr (skipn (nn c * nr) rows)) = false).
    { apply (sfzr_loop_none rows nr n 0%nat); [rewrite Hl, Elen; lia|exact H|unfold nn; lia]. }
    assert (Tr : forallb (fun v => v =? 0) (firstn nr (skipn (nn c * nr) rows)) = true).
    { apply forallb_firstn_skipn_spec. intros j x Hj Hx. rewrite (Hz j Hj) in Hx.
      injection Hx as <-. reflexivity. }
    congruence.
  Qed.

  (* ---------- set_first_zeros ---------- *)
  Theorem bf_sfz_some rows start k rows' off :
    rows_ok g rows -> (k <= hord g)%nat ->
    bf_set_first_zeros g rows start k = Some (rows', off) ->
    off mod pow2 k = 0 /\ off + pow2 k <= HF g /\ rows_ok g rows' /\
    N.land (rows_bits rows) (blk off (pow2 k)) = 0 /\
    rows_bits rows' = N.lor (rows_bits rows) (blk off (pow2 k)).
  Proof.
    intros Hr Hk H. unfold bf_set_first_zeros in H.
    destruct (Nat.leb_spec k 6) as [Hk6|Hk6].
    - apply (sfz_small_some rows start k rows' off Hr Hk6 H).
    - apply (sfz_big_some rows k rows' off Hr Hk6 Hk H).
  Qed.

  Theorem bf_sfz_none rows start k :
    rows_ok g rows -> (k <= hord g)%nat ->
    bf_set_first_zeros g rows start k = None ->
    forall off, off mod pow2 k = 0 -> off + pow2 k <= HF g ->
    N.land (rows_bits rows) (blk off (pow2 k)) <> 0.
  Proof.
    intros Hr Hk H. unfold bf_set_first_zeros in H.
    destruct (Nat.leb_spec k 6) as [Hk6|Hk6].
    - apply (sfz_small_none rows start k Hr Hk6 H).
    - apply (sfz_big_none rows k Hr Hk6 Hk H).
  Qed.

  Lemma bf_sfz_count rows start k rows' off :
    rows_ok g rows -> (k <= hord g)%nat ->
    bf_set_first_zeros g rows start k = Some (rows', off) ->
    bf_count_zeros rows' + pow2 k = bf_count_zeros rows.
  Proof.
    intros Hr Hk H. destruct (bf_sfz_some rows start k rows' off Hr Hk H) as (_ & _ & Hok & Hz & Hb).
    apply (count_zeros_set_block g WF rows rows' _ _ Hr Hok Hz Hb).
  Qed.

  (* if some aligned block is clear the search succeeds *)
  Corollary bf_sfz_complete rows start k off :
    rows_ok g rows -> (k <= hord g)%nat ->
    off mod pow2 k = 0 -> off + pow2 k <= HF g ->
    N.land (rows_bits rows) (blk off (pow2 k)) = 0 ->
    exists rows' off', bf_set_first_zeros g rows start k = Some (rows', off').
  Proof.
    intros Hr Hk Hal Hfit Hz.
    destruct (bf_set_first_zeros g rows start k) as [[rows' off']|] eqn:E; [eauto|].
    exfalso. apply (bf_sfz_none rows start k Hr Hk E off Hal Hfit Hz).
  Qed.
End SetFirstZeros.
