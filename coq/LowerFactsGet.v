(* The get / get_at / tree_free / stats_at part of `lower_facts g` (LowerFacts.v), proved from
   LowerGetProofs.v; the record itself is assembled from these and the put-side statement. *)
From Coq Require Import PeanoNat ZArith ZifyN ZifyBool.
From LLF Require Import Base BitLemmas Row RowProofs Bitfield Lower Spec LowerFacts AbsLemmas BitfieldProofs
  LowerGetProofs.
Local Open Scope N_scope.

(* ---------- counting set bits in a range ---------- *)
Definition cnt (a lo n : N) : N := popcount (N.land a (blk lo n)).

Lemma cnt_0 a lo : cnt a lo 0 = 0.
Proof. unfold cnt, blk, ones. change (N.ones 0) with 0. rewrite N.shiftl_0_l, N.land_0_r. reflexivity. Qed.

Lemma cnt_split a lo n m : cnt a lo (n + m) = cnt a lo n + cnt a (lo + n) m.
Proof.
  unfold cnt. rewrite <- popcount_lor_disjoint.
  - f_equal. apply N.bits_inj. intros i. rewrite N.lor_spec, !N.land_spec, !blk_testbit.
    destruct (N.testbit a i); cbn [andb]; [|reflexivity]. bsolve.
  - apply N.bits_inj. intros i. rewrite !N.land_spec, !blk_testbit, N.bits_0.
    destruct (N.testbit a i); cbn [andb]; [|reflexivity]. bsolve.
Qed.

Lemma cnt_le a lo n : cnt a lo n <= n.
Proof.
  unfold cnt.
  assert (E : N.lor (N.land a (blk lo n)) (N.ldiff (blk lo n) a) = blk lo n).
  { apply N.bits_inj. intros i. rewrite N.lor_spec, N.land_spec, N.ldiff_spec.
    destruct (N.testbit a i), (N.testbit (blk lo n) i); reflexivity. }
  assert (D : N.land (N.land a (blk lo n)) (N.ldiff (blk lo n) a) = 0).
  { apply N.bits_inj. intros i. rewrite !N.land_spec, N.ldiff_spec, N.bits_0.
    destruct (N.testbit a i), (N.testbit (blk lo n) i); reflexivity. }
  pose proof (popcount_lor_disjoint _ _ D) as P. rewrite E, popcount_blk in P. lia.
Qed.

Lemma cnt_full a lo n : (forall i, lo <= i < lo + n -> N.testbit a i = true) -> cnt a lo n = n.
Proof. intros H. unfold cnt. rewrite (proj2 (land_blk_full a lo n) H). apply popcount_blk. Qed.

Lemma cnt_all a n : a < 2 ^ n -> cnt a 0 n = popcount a.
Proof.
  intros H. unfold cnt, blk, ones. rewrite N.shiftl_0_r, N.land_ones, N.mod_small by exact H. reflexivity.
Qed.

Section Facts.
  Variable g : geom.
  Hypothesis WF : wf_geom g.

  (* ---------- lf_get / lf_get_at ---------- *)
  Theorem lf_get_proof : forall l start k r l', LowerInv g l -> (k <= tord g)%nat ->
    (start * 64) / TF g < ntab g (frames l) ->
    lower_get g l start k = (r, l') ->
    match r with
    | Ok f => f / TF g = (start * 64) / TF g /\
              spec_get_enabled (abs g l) f k = true /\
              abs g l' = spec_get g (abs g l) f k /\ LowerInv g l' /\ frames l' = frames l /\
              (forall t, tree_free g l' t + delta t (f / TF g) (pow2 k) = tree_free g l t)
    | Err e => e = EMemory /\ l' = l /\
               (forall f, f / TF g = (start * 64) / TF g -> spec_get_enabled (abs g l) f k = false)
    | Panic _ => False
    end.
  Proof.
    intros l start k r l' Inv Hk Ht H. destruct r as [f|e|s].
    - apply (lower_get_ok g WF l start k f l' Inv Hk Ht H).
    - apply (lower_get_err g WF l start k e l' Inv Hk Ht H).
    - apply (lower_get_no_panic g WF l start k Inv Hk Ht s). rewrite H. reflexivity.
  Qed.

  Theorem lf_get_at_proof : forall l f k r l', LowerInv g l -> (k <= tord g)%nat ->
    aligned f k = true -> f + pow2 k <= frames l ->
    lower_get_at g l f k = (r, l') ->
    match r with
    | Ok _ => spec_get_enabled (abs g l) f k = true /\
              abs g l' = spec_get g (abs g l) f k /\ LowerInv g l' /\ frames l' = frames l /\
              (forall t, tree_free g l' t + delta t (f / TF g) (pow2 k) = tree_free g l t)
    | Err e => e = EMemory /\ l' = l /\ spec_get_enabled (abs g l) f k = false
    | Panic _ => False
    end.
  Proof.
    intros l f k r l' Inv Hk Hal Hr H. destruct r as [u|e|s].
    - apply (lower_get_at_ok g WF l f k u l' Inv Hk Hal Hr H).
    - apply (lower_get_at_err g WF l f k e l' Inv Hk Hal Hr H).
    - apply (lower_get_at_no_panic g WF l f k Inv Hk Hal Hr s). rewrite H. reflexivity.
  Qed.

  (* ---------- lf_stats_at_tree ---------- *)
  Theorem lf_stats_at_tree_proof : forall l t, LowerInv g l -> t < ntab g (frames l) ->
    exists s, lower_stats_at g l (t * TF g) (tord g) = Ok s /\ free_frames s = tree_free g l t.
  Proof.
    intros l t Inv Ht. unfold lower_stats_at. cbv zeta.
    rewrite (N.div_mul t (TF g) (TF_nz g)), (has_tree_true g l t Inv Ht). cbn [negb].
    destruct WF as (H6 & _).
    replace (Nat.eqb (tord g) 0) with false by (symmetry; apply Nat.eqb_neq; unfold tord; lia).
    destruct (Nat.eqb_spec (tord g) (hord g)) as [E|E].
    - assert (Etl : tlog g = 0%nat) by (unfold tord in E; lia).
      assert (ETH : THUGE g = 1) by (rewrite THUGE_pow2, Etl; reflexivity).
      assert (Eh : t * TF g / HF g = t * THUGE g).
      { rewrite TF_eq, N.mul_assoc. apply N.div_mul, HF_nz. }
      rewrite Eh.
      destruct (ent l (t * THUGE g)) as [e|] eqn:He.
      + eexists. split; [reflexivity|]. cbn [free_frames].
        unfold tree_free, thuge_nat. rewrite Etl. change (Nat.pow 2 0) with 1%nat.
        unfold ent in He. rewrite (skipn_nth_cons _ _ _ He). cbn [firstn fold_right]. lia.
      + exfalso. apply (tree_ents g l t Inv Ht (t * THUGE g)); [lia|exact He].
    - rewrite Nat.eqb_refl. eexists. split; reflexivity.
  Qed.

  (* ---------- lf_tree_free ---------- *)
  Lemma cnt_alloc_rows l h e rows cn :
    LowerInv g l -> ent l h = Some e -> bf l h = Some rows -> e <> MARK ->
    h * HF g + cn <= frames l -> cn <= HF g ->
    cnt (o_alloc (abs g l)) (h * HF g) cn = cnt (rows_bits rows) 0 cn.
  Proof.
    intros Inv He Hb Hne Hfr Hcn. unfold cnt.
    replace (N.land (o_alloc (abs g l)) (blk (h * HF g) cn))
      with (N.shiftl (N.land (rows_bits rows) (blk 0 cn)) (h * HF g)); [apply popcount_shiftl|].
    apply N.bits_inj. intros i. rewrite N.land_spec, blk_testbit.
    destruct (N.lt_ge_cases i (h * HF g)) as [Hi|Hi].
    - rewrite N.shiftl_spec_low by exact Hi. destruct (N.leb_spec (h * HF g) i); [lia|]. cbn [andb]. rewrite andb_false_r. reflexivity.
    - rewrite N.shiftl_spec_high' by exact Hi. rewrite N.land_spec, blk_testbit.
      destruct (N.ltb_spec i (h * HF g + cn)) as [Hlt|Hge].
      + destruct (in_huge_divmod g h i) as (Ed & Em); [lia|].
        rewrite (abs_alloc_testbit g WF l Inv), (alloc_at_eq g l i e rows) by (rewrite Ed; assumption).
        rewrite Em, (e_huge_false e Hne). cbn [orb].
        destruct (N.ltb_spec i (frames l)); [|lia]. cbn [andb]. f_equal. bsolve.
      + replace ((0 <=? i - h * HF g) && (i - h * HF g <? 0 + cn)) with false by (symmetry; bsolve).
        rewrite !andb_false_r. reflexivity.
  Qed.

  Definition child_len (fr h : N) : N := N.min fr ((h + 1) * HF g) - h * HF g.

  Lemma child_count l h : LowerInv g l -> ent l h <> None ->
    efree_at (ents l) (nn h) + cnt (o_alloc (abs g l)) (h * HF g) (child_len (frames l) h)
    = child_len (frames l) h.
  Proof.
    intros Inv He. pose proof (HF_pos g) as Hp. pose proof (HF_lt_MARK g WF) as HM.
    unfold efree_at. change (nth_error (ents l) (nn h)) with (ent l h).
    destruct (ent l h) as [e|] eqn:Ee; [clear He|congruence].
    set (cn := child_len (frames l) h).
    destruct (bf l h) as [rows|] eqn:Eb.
    - pose proof (nbf_lt_inv g _ _ (LowerInv_bf_lt g l h rows Inv Eb)) as Hlt.
      destruct (LowerInv_huge_ok g l h e rows Inv Ee Eb) as (Hok & Hm & Hcnt & Hhi).
      destruct (N.eq_dec e MARK) as [->|Hne].
      + destruct (Hm eq_refl) as (_ & Hfull).
        assert (Ecn : cn = HF g) by (subst cn; unfold child_len; lia).
        rewrite Ecn. change (e_free MARK) with 0. rewrite cnt_full; [lia|].
        intros i Hi. destruct (in_huge_divmod g h i) as (Ed & Em); [lia|].
        rewrite (abs_alloc_testbit g WF l Inv), (alloc_at_eq g l i MARK rows) by (rewrite Ed; assumption).
        change (e_huge MARK) with true. cbn [orb]. destruct (N.ltb_spec i (frames l)); [reflexivity|lia].
      + destruct (Hcnt Hne) as (Ecz & _).
        assert (Hcn : cn <= HF g /\ h * HF g + cn <= frames l) by (subst cn; unfold child_len; lia).
        rewrite (cnt_alloc_rows l h e rows cn Inv Ee Eb Hne (proj2 Hcn) (proj1 Hcn)).
        unfold e_free. rewrite (e_huge_false e Hne).
        pose proof (bf_count_zeros_sum g WF rows Hok) as S.
        rewrite <- (cnt_all _ (HF g) (rows_bits_lt_HF g WF rows Hok)) in S.
        replace (HF g) with (cn + (HF g - cn)) in S at 1 by lia.
        rewrite cnt_split in S. rewrite (cnt_full _ (0 + cn) (HF g - cn)) in S.
        * pose proof (cnt_le (rows_bits rows) 0 cn). lia.
        * intros i Hi. apply Hhi; [lia|]. subst cn. unfold child_len in *. lia.
    - rewrite (LowerInv_no_bf g l h e Inv Ee Eb). change (e_free 0) with 0.
      assert (Hge : frames l <= h * HF g).
      { destruct (N.le_gt_cases (frames l) (h * HF g)) as [|Hgt]; [assumption|]. exfalso.
        assert (Hd : h < nbf g (frames l)).
        { unfold nbf. pose proof (div_lt_div_ceil (frames l) (HF g) (h * HF g) (HF_nz g) Hgt) as D.
          rewrite N.div_mul in D by apply HF_nz. exact D. }
        destruct (LowerInv_bf_some g l h Inv Hd) as (rows & Er). congruence. }
      assert (Ecn : cn = 0) by (subst cn; unfold child_len; lia).
      rewrite Ecn, cnt_0. reflexivity.
  Qed.

  Definition span_len (fr h0 : N) (m : nat) : N := N.min fr ((h0 + N.of_nat m) * HF g) - h0 * HF g.

  Lemma span_count l : LowerInv g l -> forall m h0,
    (forall h, h0 <= h < h0 + N.of_nat m -> ent l h <> None) ->
    nsum m (fun j => efree_at (ents l) (nn h0 + j)) + cnt (o_alloc (abs g l)) (h0 * HF g) (span_len (frames l) h0 m)
    = span_len (frames l) h0 m.
  Proof.
    intros Inv. pose proof (HF_pos g) as Hp.
    induction m as [|m IH]; intros h0 Hent.
    - cbn [nsum]. unfold span_len. replace (N.min (frames l) ((h0 + N.of_nat 0) * HF g) - h0 * HF g) with 0 by lia.
      rewrite cnt_0. reflexivity.
    - cbn [nsum]. rewrite Nat.add_0_r.
      pose proof (child_count l h0 Inv (Hent h0 ltac:(lia))) as C.
      specialize (IH (h0 + 1) ltac:(intros h Hh; apply Hent; lia)).
      rewrite (nsum_ext m _ (fun j => efree_at (ents l) (nn (h0 + 1) + j)))
        by (intros j _; f_equal; unfold nn; lia).
      set (A := efree_at (ents l) (nn h0)) in *.
      set (B := nsum m (fun j => efree_at (ents l) (nn (h0 + 1) + j))) in *.
      set (al := o_alloc (abs g l)) in *.
      assert (El : span_len (frames l) h0 (S m)
                   = child_len (frames l) h0 + span_len (frames l) (h0 + 1) m).
      { unfold span_len, child_len. rewrite Nat2N.inj_succ. lia. }
      rewrite El, cnt_split.
      destruct (N.le_gt_cases ((h0 + 1) * HF g) (frames l)) as [Hfull|Hcut].
      + assert (Ec : child_len (frames l) h0 = HF g) by (unfold child_len; lia).
        replace (h0 * HF g + child_len (frames l) h0) with ((h0 + 1) * HF g) by lia. lia.
      + assert (Es : span_len (frames l) (h0 + 1) m = 0) by (unfold span_len; lia).
        rewrite Es, cnt_0 in *. lia.
  Qed.

  Lemma efree_le l h : LowerInv g l -> efree_at (ents l) (nn h) <= HF g.
  Proof.
    intros Inv. unfold efree_at. change (nth_error (ents l) (nn h)) with (ent l h).
    destruct (ent l h) as [e|] eqn:Ee; [|lia].
    destruct (N.eq_dec e MARK) as [->|Hne]; [change (e_free MARK) with 0; lia|].
    unfold e_free. rewrite (e_huge_false e Hne).
    destruct (bf l h) as [rows|] eqn:Eb.
    - destruct (LowerInv_huge_ok g l h e rows Inv Ee Eb) as (_ & _ & Hcnt & _). apply Hcnt, Hne.
    - rewrite (LowerInv_no_bf g l h e Inv Ee Eb). lia.
  Qed.

  Theorem lf_tree_free_proof : forall l t, LowerInv g l -> t < ntab g (frames l) ->
    tree_free g l t = spec_tree_free g (abs g l) t /\ tree_free g l t <= TF g.
  Proof.
    intros l t Inv Ht. split.
    - pose proof (span_count l Inv (thuge_nat g) (t * THUGE g)) as S.
      rewrite <- (THUGE_nat g) in S. specialize (S (tree_ents g l t Inv Ht)).
      rewrite <- tree_free_nsum in S.
      unfold spec_tree_free. cbv zeta. rewrite abs_frames.
      assert (El : span_len (frames l) (t * THUGE g) (thuge_nat g)
                   = N.min (frames l) (t * TF g + TF g) - t * TF g).
      { unfold span_len. rewrite <- (THUGE_nat g), TF_eq. f_equal; [f_equal|]; lia. }
      rewrite El in S. replace (t * THUGE g * HF g) with (t * TF g) in S by (rewrite TF_eq; lia).
      fold (cnt (o_alloc (abs g l)) (t * TF g) (N.min (frames l) (t * TF g + TF g) - t * TF g)). lia.
    - rewrite tree_free_nsum, TF_eq, (THUGE_nat g). apply nsum_le. intros j _.
      replace (nn (t * N.of_nat (thuge_nat g)) + j)%nat with (nn (t * N.of_nat (thuge_nat g) + N.of_nat j))
        by (unfold nn; lia).
      apply efree_le, Inv.
  Qed.

  (* the record, given the put-side statement *)
  Theorem lower_facts_of_put :
    (forall l f k r l', LowerInv g l -> (k <= tord g)%nat ->
        aligned f k = true -> f + pow2 k <= frames l ->
        lower_put g l f k = (r, l') ->
        match r with
        | Ok _ => spec_put_enabled g (abs g l) f k = true /\
                  abs g l' = spec_put g (abs g l) f k /\ LowerInv g l' /\ frames l' = frames l /\
                  (forall t, tree_free g l' t = tree_free g l t + delta t (f / TF g) (pow2 k))
        | Err e => e = EMemory /\ l' = l /\ spec_put_enabled g (abs g l) f k = false
        | Panic _ => False
        end) ->
    lower_facts g.
  Proof.
    intros Hput. constructor.
    - exact lf_tree_free_proof.
    - exact lf_get_proof.
    - exact lf_get_at_proof.
    - exact Hput.
    - exact lf_stats_at_tree_proof.
  Qed.
End Facts.

Print Assumptions lf_get_proof.
Print Assumptions lf_get_at_proof.
Print Assumptions lf_tree_free_proof.
Print Assumptions lf_stats_at_tree_proof.
Print Assumptions lower_facts_of_put.
