(* The invariant is inductive: every step of the machine preserves it, and it holds initially for a lower
   allocator state satisfying LowerInv whose allocated part is exactly the client's initial blocks. *)
From Coq Require Import PeanoNat.
From LLF Require Import Base BitLemmas Row RowProofs Bitfield Lower Spec LowerMachine
  ConcBase ConcInvDef ConcInvGeom ConcInvStep ConcInvTac ConcInvGet ConcInvAt ConcInvPut ConcInvHuge ConcInvIdle.

Section Main.
  Variable g : geom.
  Hypothesis wf : wf_geom g.
  Notation HF := (HF g).
  Notation THUGE := (THUGE g).
  Notation ROWS := (ROWS g).

  Theorem step_inv s t c0 : Inv g s -> Inv g (fst (mstep g s t c0)).
  Proof.
    intros I. destruct (nth_error (ms_pool s) t) as [x|] eqn:Ht.
    2:{ unfold mstep. rewrite Ht. exact I. }
    destruct x as [l|c p|x c].
    - eapply step_Idle; eassumption.
    - destruct p.
      + eapply step_G1L; eassumption.
      + eapply step_G1C; eassumption.
      + eapply step_G2L; eassumption.
      + eapply step_G2C; eassumption.
      + eapply step_G2R; eassumption.
      + eapply step_G2W; eassumption.
      + eapply step_G2U; eassumption.
      + eapply step_G3L; eassumption.
      + eapply step_G3C; eassumption.
      + eapply step_HC; eassumption.
      + eapply step_HU; eassumption.
      + eapply step_A1L; eassumption.
      + eapply step_A1C; eassumption.
      + eapply step_A3L; eassumption.
      + eapply step_A3C; eassumption.
      + eapply step_TL; eassumption.
      + eapply step_TC; eassumption.
      + eapply step_TN; eassumption.
      + eapply step_TW; eassumption.
      + eapply step_TU; eassumption.
      + eapply step_P1; eassumption.
      + eapply step_PP2; eassumption.
      + eapply step_PP3; eassumption.
      + eapply step_PS2L; eassumption.
      + eapply step_PS2C; eassumption.
    - unfold mstep. rewrite Ht. exact I.
  Qed.

  Theorem run_inv sch : forall s, Inv g s -> Inv g (mrun g sch s).
  Proof. induction sch as [|[t c] r IH]; intros s I; [exact I|]. cbn [mrun fold_left fst snd]. apply IH, step_inv, I. Qed.

  (* ----- the initial state ----- *)
  (* The client's initial blocks are exactly the allocated part of l: they are aligned and in range; for every
     frame slot of every bitfield, "bit set or under a marker entry" (counted with multiplicity: under a
     marker the rows are zero) equals the number of initial blocks covering the frame, plus one for the slots
     at or beyond `frames` (which are set and belong to nobody); blocks of huge order cover marker entries only.
     It holds for (free_all, []) and (reserve_all, alloc_all_held): see ConcProps.v. *)
  Record HeldInit (l : lower) (held0 : list (N * nat)) : Prop := {
    HI_ok : Forall (fun b => blk_ok (frames l) b = true) held0;
    HI_exact : forall h r i, h < nbf g (frames l) -> r < ROWS -> i < 64 ->
      b2n (bit (boot l held0 0) h r i) + isMark (entv (boot l held0 0) h)
      = heldc (fidx g h r i) held0 + oor (frames l) (fidx g h r i);
    HI_huge : forall h, entv (boot l held0 0) h <> MARK -> hugec g h held0 = 0
  }.

  Lemma sumf_cz_count rows : Forall (fun r => r < W64) rows -> sumf cz rows = bf_count_zeros rows.
  Proof. induction 1 as [|v rows Hv Hr IH]; [reflexivity|]. cbn [bf_count_zeros fold_right]. rewrite sumf_cons, IH, (cz_popcount v Hv). reflexivity. Qed.

  Theorem boot_inv l held0 n : LowerInv g l -> HeldInit l held0 -> Inv g (boot l held0 n).
  Proof.
    intros (L1 & L2 & L3 & L4) [Hok Hex Hhu].
    assert (Hz : forall f : thr -> N, f (TIdle None) = 0 -> sumf f (repeat (TIdle None) n) = 0) by (intros; apply sumf_repeat_zero; assumption).
    pose proof (nbf_le_ents g (frames l)) as Hle.
    assert (Hrows : forall h, h < nbf g (frames l) -> exists e rows,
               nth_error (ents l) (nn h) = Some e /\ nth_error (bfs l) (nn h) = Some rows /\ huge_ok g (frames l) h e rows).
    { intros h Hh.
      destruct (nth_error (ents l) (nn h)) as [e|] eqn:Ee.
      2:{ exfalso. apply nth_error_None in Ee. rewrite L2 in Ee. unfold nn in *. lia. }
      destruct (nth_error (bfs l) (nn h)) as [rows|] eqn:Eb.
      2:{ exfalso. apply nth_error_None in Eb. rewrite L1 in Eb. unfold nn in *. lia. }
      exists e, rows. split; [reflexivity|split; [reflexivity|]]. pose proof (L3 _ _ _ Ee Eb) as H. unfold nn in H. rewrite N2Nat.id in H. exact H. }
    constructor; cbn [ms_frames ms_ents ms_bfs ms_pool ms_held boot].
    - exact L1.
    - exact L2.
    - intros h rows Eb. assert (Hh : (h < length (bfs l))%nat) by (apply nth_error_Some; congruence).
      destruct (Hrows (N.of_nat h)) as (e & rows' & Ee & Eb' & Hok'); [rewrite L1 in Hh; unfold nn in Hh; lia|].
      unfold nn in Eb'. rewrite Nat2N.id in Eb'. rewrite Eb in Eb'. inversion Eb'; subst rows'. apply Hok'.
    - intros h Hh. unfold entv, rd_ent. cbn [ms_ents boot]. destruct (nth_error (ents l) (nn h)) as [e|] eqn:Ee; [|reflexivity].
      apply (L4 _ _ Ee). apply nth_error_None. rewrite L1. unfold nn in *. lia.
    - intros h Hh He. destruct (Hrows h Hh) as (e & rows & Ee & Eb & Hok' & Hm & _).
      unfold entv, rd_ent in He. cbn [ms_ents boot] in He. rewrite Ee in He. apply (Hm He).
    - intros h r i Hh Hr Hi. rewrite !Hz by (gsimp; unfold inb; lia). rewrite !N.add_0_r. apply (Hex h r i Hh Hr Hi).
    - intros h Hh He r i Hr Hi. rewrite Hz by (gsimp; unfold inb; lia). rewrite N.add_0_r.
      destruct (Hrows h Hh) as (e & rows & Ee & Eb & Hok' & Hm & _).
      pose proof (Hex h r i Hh Hr Hi) as X. change (entv (boot l held0 0) h) with (entv (boot l held0 n) h) in X. rewrite He in X.
      unfold entv, rd_ent in He. cbn [ms_ents boot] in He. rewrite Ee in He. destruct (Hm He) as [Hzero Hin].
      assert (Hb : bit (boot l held0 0) h r i = false).
      { unfold bit, rowv, rd_row. cbn [ms_bfs boot]. rewrite Eb. destruct (nth_error rows (nn r)) as [v|] eqn:Ev; [|apply N.bits_0].
        rewrite (Forall_nth_error _ _ _ _ Hzero Ev). apply N.bits_0. }
      rewrite Hb in X. unfold isMark, oor in X. rewrite N.eqb_refl in X. pose proof (rowbit_lt g wf r i Hr Hi). unfold fidx in *.
      destruct (N.leb_spec (frames l) (h * HF + r * 64 + i)); [lia|]. cbn [b2n] in X. lia.
    - intros h Hh He. rewrite !Hz by (gsimp; destr_if; lia). rewrite N.mul_0_r, !N.add_0_r.
      destruct (Hrows h Hh) as (e & rows & Ee & Eb & [Hl Hf] & _ & Hc & _).
      unfold entv, rd_ent, zeros in *. cbn [ms_ents ms_bfs boot] in *. rewrite Ee in *. rewrite Eb.
      destruct (Hc He) as [-> _]. symmetry. apply sumf_cz_count. exact Hf.
    - intros h Hh He. apply Hz. gsimp. lia.
    - apply Hz. reflexivity.
    - intros h He. rewrite Hz by (gsimp; reflexivity). rewrite N.add_0_r. apply (Hhu h He).
    - apply Forall_forall. intros x Hx. apply repeat_spec in Hx. subst x. reflexivity.
    - exact Hok.
  Qed.
End Main.
