(* Extraction of the policies (Policies.v), the request closures / class tables and the JSON policy
   (Requests.v) and the executable request-validity specification for driver `policy`.
   ExtrOcamlBasic only: bool, option, list, prod, unit, sumbool map to OCaml's; N, positive, nat
   stay Coq's inductives. No Extract Constant / Extract Inductive of our own. *)
From LLF Require Import Base Upper Policies Requests.
Require Import ExtrOcamlBasic.
Extraction Language OCaml.
Set Extraction KeepSingleton.
Extraction "model.ml"
  pol_simple pol_movable pol_zeroed pol_zeroslot pol_custom pol_select pol_json
  simple_request movable_request simple_classing movable_classing
  request_valid_b slots_of.
