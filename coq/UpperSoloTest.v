(* Regression / non-vacuity for UpperSolo*.v: the hypothesis `SInv` holds on the 78 (state, call) pairs of
   UpperMachineTest.v (boolean checker `sinvb`, proved sound), so `usolo_call` applies to each of them; the
   boolean tester `usolo_agrees` (fuel-bounded solo run of M2 vs `ubig`) on the same pairs. *)
From Coq Require Import PeanoNat.
From LLF Require Import Base BitLemmas Row RowProofs Bitfield Lower Spec AbsLemmas Sorted Upper LowerMachine
  UpperInvDef UpperPrims SoloRunLemmas SoloRun Progress Policies UpperMachine UpperMachineTest
  UpperSoloLemmas UpperSolo UpperSoloGet.

Definition sinvb (g : geom) (u : upper) : bool :=
  lower_invb g (low u) && (ntrees u =? ntab g (frames (low u))) &&
  forallb (fun o => match o with
                    | Some l => forallb (fun s => negb (s_pres s) || (row_tree g (s_row s) <? ntrees u)) l
                    | None => true
                    end) (locals u).

Lemma sinvb_sound g u : sinvb g u = true -> SInv g u.
Proof.
  unfold sinvb. rewrite !andb_true_iff. intros ((H1 & H2) & H3).
  split; [apply lower_invb_sound; exact H1|]. split; [apply N.eqb_eq; exact H2|].
  intros c idx s Hs Hp. unfold slot_at, class_slots in Hs.
  destruct (nth_error (locals u) (nn c)) as [[l|]|] eqn:El; try discriminate Hs.
  rewrite forallb_forall in H3. specialize (H3 _ (nth_error_In _ _ El)). cbn in H3.
  rewrite forallb_forall in H3. specialize (H3 _ (nth_error_In _ _ Hs)).
  rewrite Hp in H3. cbn [negb orb] in H3. apply N.ltb_lt. exact H3.
Qed.

(* the test states satisfy the hypothesis of the theorems *)
Example tests_sinv : forallb (fun t => sinvb g0 (snd (fst t))) tests = true.
Proof. vm_compute. reflexivity. Qed.

Lemma g0_wf : wf_geom g0.
Proof. unfold wf_geom, g0. cbn. lia. Qed.

(* hence the theorem applies to every test pair (thread 0 of a one-thread machine, the ghost holding the block of a put) *)
Theorem tests_solo : forall pol u c, In (pol, u, c) tests -> forall H', take_held c (solo_held c) H' ->
  exists fuel, let s := usolo g0 pol fuel (fst (ustep g0 pol (uboot u (solo_held c) 1) 0 c)) c in
    match ubig g0 pol u c with
    | (Panic x, _) => nth_error (m2_pool s) 0 = Some (UPanic x c)
    | (r, u') => nth_error (m2_pool s) 0 = Some (UIdle (Some r)) /\ m2_up s = u'
    end.
Proof.
  intros pol u c Hin H' Hh. apply (usolo_one_thread g0 pol g0_wf u c H'); [|exact Hh].
  apply sinvb_sound. pose proof tests_sinv as HT. rewrite forallb_forall in HT. exact (HT _ Hin).
Qed.

(* the boolean tester on the same pairs (fuel 2000), as in UpperMachineTest.v *)
Example usolo_agrees_regression :
  forallb (fun t => usolo_agrees g0 (fst (fst t)) (snd (fst t)) (snd t) 2000) tests = true.
Proof. exact usolo_agrees_tests. Qed.
Example usolo_site_agrees_regression :
  forallb (fun t => usolo_site_agrees (fst (fst t)) (snd (fst t)) (snd t) 2000) tests = true.
Proof. exact usolo_site_agrees_tests. Qed.

Print Assumptions usolo_call.
Print Assumptions usolo_one_thread.
Print Assumptions tests_solo.
