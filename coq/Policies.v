(* The policy functions used by the sequential correspondence harness (harness/src/bin/seqrun.rs),
   as functions of the compile-time tree size TF = TREE_FRAMES.  Definitions only.
   Each mirrors a Rust `fn(requested: Class, target: Class, free: usize) -> Policy`:

   simple   = the nested `policy` of `Classing::simple`  (core/src/lib.rs:275)
   movable  = the nested `policy` of `Classing::movable` (core/src/lib.rs:307)
   zeroed   = `zeroed_policy` of eval/tests/integration.rs:981 (textually the simple policy; used with the
              three classes 0,1,2 and default class 1)
   zeroslot = the simple policy (the configurations give a class zero local slots)
   custom   = seqrun.rs `custom_policy`: requested 0 on target 2 and requested 2 on target 0 are
              `Policy::Invalid`; every other pair is rated like the simple policy. *)
From LLF Require Import Base Upper.

Definition pol_by_free (TF : N) (low : N) (free : N) : pol :=
  if TF / 2 <=? free then PMatch 1            (* half free *)
  else if TF / 64 <=? free then PMatch 255    (* almost allocated: perfect match *)
  else PMatch low.                            (* low free count *)

Definition pol_simple (TF : N) (requested target free : N) : pol :=
  if target <? requested then PSteal
  else if requested <? target then PDemote
  else pol_by_free TF 0 free.

Definition pol_movable (TF : N) (requested target free : N) : pol :=
  if target <? requested then PSteal
  else if requested <? target then PDemote
  else pol_by_free TF 2 free.

Definition pol_zeroed (TF : N) (requested target free : N) : pol := pol_simple TF requested target free.

Definition pol_zeroslot (TF : N) (requested target free : N) : pol := pol_simple TF requested target free.

Definition pol_custom (TF : N) (requested target free : N) : pol :=
  if ((requested =? 0) && (target =? 2)) || ((requested =? 2) && (target =? 0)) then PInvalid
  else pol_simple TF requested target free.

(* selection by the index the driver derives from the transcript's `policy=` name:
   0 simple, 1 movable, 2 zeroed, 3 zeroslot, 4 custom *)
Definition pol_select (k : N) (TF : N) : N -> N -> N -> pol :=
  match k with
  | 0 => pol_simple TF
  | 1 => pol_movable TF
  | 2 => pol_zeroed TF
  | 3 => pol_zeroslot TF
  | _ => pol_custom TF
  end.
