(* Facts about ordered policies: the four named policy hypotheses of UpperPrims.v (`pol_refl_match`,
   `pol_kind_indep`, `pol_demote_trans`, `pol_never_invalid`) hold for every policy that compares the class
   ids (requested > target: Steal, requested < target: Demote, equal: Match rated by the free count), in
   particular for the built-in policies of Policies.v (simple, movable, zeroed, zeroslot).
   The custom policy of the harness (with Invalid pairs) is not ordered; what it satisfies is stated last. *)
From Coq Require Import List NArith Bool Lia.
From LLF Require Import Base Row Bitfield Lower Upper UpperInvDef UpperPrims Policies.

Definition ordered_policy (m : N -> N) (r t f : N) : pol :=
  if t <? r then PSteal else if r <? t then PDemote else PMatch (m f).

Section Ordered.
  Variable m : N -> N.

  Lemma ordered_refl_match : pol_refl_match (ordered_policy m).
  Proof. intros c f. unfold ordered_policy. rewrite N.ltb_irrefl. reflexivity. Qed.

  Lemma ordered_kind_indep : pol_kind_indep (ordered_policy m).
  Proof. intros r t f f'. unfold ordered_policy. destruct (t <? r), (r <? t); reflexivity. Qed.

  Lemma ordered_demote_trans : pol_demote_trans (ordered_policy m).
  Proof.
    intros a b c f f'. unfold ordered_policy.
    destruct (N.ltb_spec b a), (N.ltb_spec a b); try discriminate. intros _.
    destruct (N.ltb_spec c b); [discriminate|]. intros _.
    destruct (N.ltb_spec c a); [lia|]. destruct (a <? c); reflexivity.
  Qed.

  Lemma ordered_never_invalid : pol_never_invalid (ordered_policy m).
  Proof. intros r t f. unfold ordered_policy. destruct (t <? r), (r <? t); reflexivity. Qed.

  (* the exact kind *)
  Lemma ordered_kind r t f :
    pol_kind (ordered_policy m r t f) = if t <? r then 2 else if r <? t then 1 else 0.
  Proof. unfold ordered_policy. destruct (t <? r), (r <? t); reflexivity. Qed.
End Ordered.

(* the four facts are extensional *)
Lemma pol_facts_ext (p q : N -> N -> N -> pol) :
  (forall r t f, p r t f = q r t f) ->
  pol_refl_match q /\ pol_kind_indep q /\ pol_demote_trans q /\ pol_never_invalid q ->
  pol_refl_match p /\ pol_kind_indep p /\ pol_demote_trans p /\ pol_never_invalid p.
Proof.
  intros E (A & B & C & D). repeat split.
  - intros c f. rewrite E. apply A.
  - intros r t f f'. rewrite !E. apply B.
  - intros a b c f f'. rewrite !E. apply C.
  - intros r t f. rewrite E. apply D.
Qed.

Lemma ordered_facts m :
  pol_refl_match (ordered_policy m) /\ pol_kind_indep (ordered_policy m) /\
  pol_demote_trans (ordered_policy m) /\ pol_never_invalid (ordered_policy m).
Proof.
  repeat split; [apply ordered_refl_match | apply ordered_kind_indep | apply ordered_demote_trans
                | apply ordered_never_invalid].
Qed.

(* ---------- the built-in policies are ordered policies ---------- *)
(* the rating of a same-class tree by its free count, as a number *)
Definition by_free_rank (TF low free : N) : N :=
  if TF / 2 <=? free then 1 else if TF / 64 <=? free then 255 else low.

Lemma pol_by_free_rank TF low free : pol_by_free TF low free = PMatch (by_free_rank TF low free).
Proof. unfold pol_by_free, by_free_rank. destruct (_ <=? _); [|destruct (_ <=? _)]; reflexivity. Qed.

Lemma pol_simple_ordered TF r t f : pol_simple TF r t f = ordered_policy (by_free_rank TF 0) r t f.
Proof. unfold pol_simple, ordered_policy. rewrite pol_by_free_rank. reflexivity. Qed.

Lemma pol_movable_ordered TF r t f : pol_movable TF r t f = ordered_policy (by_free_rank TF 2) r t f.
Proof. unfold pol_movable, ordered_policy. rewrite pol_by_free_rank. reflexivity. Qed.

Lemma pol_zeroed_ordered TF r t f : pol_zeroed TF r t f = ordered_policy (by_free_rank TF 0) r t f.
Proof. apply pol_simple_ordered. Qed.

Lemma pol_zeroslot_ordered TF r t f : pol_zeroslot TF r t f = ordered_policy (by_free_rank TF 0) r t f.
Proof. apply pol_simple_ordered. Qed.

Theorem pol_simple_facts TF :
  pol_refl_match (pol_simple TF) /\ pol_kind_indep (pol_simple TF) /\
  pol_demote_trans (pol_simple TF) /\ pol_never_invalid (pol_simple TF).
Proof. eapply pol_facts_ext; [apply pol_simple_ordered | apply ordered_facts]. Qed.

Theorem pol_movable_facts TF :
  pol_refl_match (pol_movable TF) /\ pol_kind_indep (pol_movable TF) /\
  pol_demote_trans (pol_movable TF) /\ pol_never_invalid (pol_movable TF).
Proof. eapply pol_facts_ext; [apply pol_movable_ordered | apply ordered_facts]. Qed.

Theorem pol_zeroed_facts TF :
  pol_refl_match (pol_zeroed TF) /\ pol_kind_indep (pol_zeroed TF) /\
  pol_demote_trans (pol_zeroed TF) /\ pol_never_invalid (pol_zeroed TF).
Proof. eapply pol_facts_ext; [apply pol_zeroed_ordered | apply ordered_facts]. Qed.

Theorem pol_zeroslot_facts TF :
  pol_refl_match (pol_zeroslot TF) /\ pol_kind_indep (pol_zeroslot TF) /\
  pol_demote_trans (pol_zeroslot TF) /\ pol_never_invalid (pol_zeroslot TF).
Proof. eapply pol_facts_ext; [apply pol_zeroslot_ordered | apply ordered_facts]. Qed.

(* `pol_select k` for k = 0..3 *)
Theorem pol_select_facts k TF : k < 4 ->
  pol_refl_match (pol_select k TF) /\ pol_kind_indep (pol_select k TF) /\
  pol_demote_trans (pol_select k TF) /\ pol_never_invalid (pol_select k TF).
Proof.
  intros H. destruct k as [|p]; [apply pol_simple_facts|].
  destruct p as [[|p|]|[p|p|]|]; try lia; cbn [pol_select];
    [apply pol_zeroslot_facts | apply pol_zeroed_facts | apply pol_movable_facts].
Qed.

(* ---------- the custom policy (Invalid for the pairs (0,2) and (2,0)) ---------- *)
(* it keeps reflexivity and kind independence; it is neither Invalid-free nor demote-transitive *)
Lemma pol_custom_refl_match TF : pol_refl_match (pol_custom TF).
Proof.
  intros c f. unfold pol_custom.
  destruct (N.eqb_spec c 0), (N.eqb_spec c 2); subst; try discriminate; cbn [andb orb];
    apply (proj1 (pol_simple_facts TF)).
Qed.

Lemma pol_custom_kind_indep TF : pol_kind_indep (pol_custom TF).
Proof.
  intros r t f f'. unfold pol_custom. destruct (_ || _); [reflexivity|].
  apply (proj1 (proj2 (pol_simple_facts TF))).
Qed.

Lemma pol_custom_invalid TF : pol_is_invalid (pol_custom TF 0 2 0) = true.
Proof. reflexivity. Qed.

Lemma pol_custom_not_demote_trans TF : ~ pol_demote_trans (pol_custom TF).
Proof.
  intros H. specialize (H 0 1 2 0 0). cbv in H. specialize (H eq_refl eq_refl). discriminate.
Qed.
