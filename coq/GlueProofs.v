(* Integration ("glue") of the lower- and upper-allocator proofs.

   1. `LS_sum`          : the global free counter of the lower allocator is the sum of the per-tree counters
                          (discharges the hypothesis `LS_sum_P` of UpperStatsProofs.v)
   2. `lower_new_inv_*` : `Lower::new` establishes `LowerInv` in every init mode
   3. `init_inv`        : `LLFree::new` (FreeAll / AllocAll / Recover) returns Ok and establishes `UpperInv`
   4. per-frame queries of the lower allocator against the ownership state
      (`lower_stats_at_0_abs`, `lower_stats_at_huge_abs`, `lower_stats_at_tree_abs`, `lower_is_free_abs`,
       `lower_stats_at_no_panic` is in GlueHistory.v)
   5. `exact_free_tree_sum`, `all_hidden_exact_free`, `all_hidden_none_offline`: the exact free count as the sum
      of the per-tree counts; "every free frame is hidden" in the summed form used by C10 / C11
   The history runner with ghost state and the induction over histories are in GlueHistory.v. *)
From Coq Require Import List NArith Bool Lia PeanoNat.
From LLF Require Import Base Row Bitfield Lower Spec Upper UpperInvDef LowerFacts AbsLemmas BitfieldProofs
  LowerGetProofs LowerFactsGet LowerInitProofs RecoverProofs LowerFactsProofs UpperPrims UpperPutProofs
  UpperStatsProofs.

(* ====================================================================================== *)
(* 1. LS_sum                                                                               *)
(* ====================================================================================== *)
Lemma nsum_sum_seq : forall n f, nsum n f = sum_seq n f.
Proof.
  unfold sum_seq. induction n as [|n IH]; intros f; cbn [nsum seq map sumN fold_right]; [reflexivity|].
  rewrite IH, <- seq_shift, map_map. reflexivity.
Qed.

Lemma at_efree es j : at_ e_free es j = efree_at es j.
Proof. reflexivity. Qed.

Theorem LS_sum : forall g, wf_geom g -> LS_sum_P g.
Proof.
  intros g WF l Inv. pose proof Inv as (_ & Hle & _).
  assert (Hl : length (ents l) = (nn (ntab g (frames l)) * thuge_nat g)%nat) by (rewrite Hle; apply nn_tree_base).
  rewrite (li_stats_sums g l _ Hl). cbn [free_frames].
  rewrite Hl, <- li_nsum_flat, <- nsum_sum_seq.
  apply nsum_ext. intros t _. rewrite tree_free_nsum, nn_tree_base.
  unfold nn at 1. rewrite Nat2N.id. reflexivity.
Qed.

(* ====================================================================================== *)
(* 2. Lower::new establishes LowerInv                                                      *)
(* ====================================================================================== *)
Section LowerNew.
  Variable g : geom.
  Hypothesis WF : wf_geom g.

  Theorem lower_new_inv_free_all fr buf : LowerInv g (lower_new g fr IFreeAll buf).
  Proof. exact (free_all_inv g WF fr). Qed.

  Theorem lower_new_inv_alloc_all fr buf : LowerInv g (lower_new g fr IAllocAll buf).
  Proof. exact (reserve_all_inv g WF fr). Qed.

  Theorem lower_new_inv_recover fr buf :
    LowerPre g {| frames := fr; bfs := bfs buf; ents := ents buf |} -> LowerInv g (lower_new g fr IRecover buf).
  Proof. intros H. exact (recover_inv g WF _ H). Qed.

  Theorem lower_new_inv_none fr buf : LowerInv g buf -> frames buf = fr -> LowerInv g (lower_new g fr INone buf).
  Proof. intros H <-. destruct buf; exact H. Qed.

  (* the precondition of the three writing modes *)
  Definition init_pre (fr : N) (i : init) (lbuf : lower) : Prop :=
    match i with
    | IFreeAll | IAllocAll => True
    | IRecover => LowerPre g {| frames := fr; bfs := bfs lbuf; ents := ents lbuf |}
    | INone => False
    end.

  Lemma lower_new_inv fr i lbuf : init_pre fr i lbuf -> LowerInv g (lower_new g fr i lbuf).
  Proof.
    destruct i; cbn [init_pre]; intros H;
      [apply lower_new_inv_free_all|apply lower_new_inv_alloc_all|apply lower_new_inv_recover; exact H|destruct H].
  Qed.

  (* ==================================================================================== *)
  (* 3. LLFree::new                                                                        *)
  (* ==================================================================================== *)
  Variable policy : N -> N -> N -> pol.

  Theorem init_inv fr i classing d lbuf tbuf sbuf :
    init_pre fr i lbuf ->
    Forall (fun s => s_pres s = false) sbuf ->
    (forall c k, In (c, k) classing -> c < 8) ->
    (exists k, In (d, k) classing) ->
    exists u, llfree_new g fr i classing d lbuf tbuf sbuf = Ok u /\
              UpperInv g policy (ustate_new u) /\
              low u = lower_new g fr i lbuf /\ frames (low u) = fr /\ dflt u = d /\
              present_slots u = [].
  Proof.
    intros Hpre Hbuf Hcl Hd.
    assert (Hi : i <> INone) by (intros ->; exact Hpre).
    destruct (llfree_new_correct g policy (lower_facts_proved g WF) fr i classing d lbuf tbuf sbuf Hi
                (lower_new_inv fr i lbuf Hpre) Hbuf Hcl Hd) as (u & E & HI & Hl & Hdf & _ & HP).
    exists u. splits; auto. rewrite Hl. apply frames_lower_new.
  Qed.
End LowerNew.

(* ====================================================================================== *)
(* 4. per-frame / per-huge-frame / per-tree queries against the ownership state            *)
(* ====================================================================================== *)
Lemma forallb_firstn_skipn {A} (p : A -> bool) (es : list A) : forall n h,
  forallb p (firstn n (skipn h es)) = true <->
  (forall j e, (j < n)%nat -> nth_error es (h + j) = Some e -> p e = true).
Proof.
  induction n as [|n IH]; intros h.
  - cbn. split; auto. intros _ j e Hj. lia.
  - destruct (nth_error es h) as [a|] eqn:E.
    + rewrite (skipn_nth_cons es h a E). cbn [firstn forallb]. rewrite andb_true_iff, IH. split.
      * intros (Ha & Hr) j e Hj Hn. destruct j as [|j].
        -- rewrite Nat.add_0_r in Hn. congruence.
        -- apply (Hr j e); [lia|]. rewrite <- Hn. f_equal. lia.
      * intros H. split.
        -- apply (H O a); [lia|]. rewrite Nat.add_0_r. exact E.
        -- intros j e Hj Hn. apply (H (S j) e); [lia|]. rewrite <- Hn. f_equal. lia.
    + rewrite (skipn_nth_none es h E), firstn_nil. cbn [forallb]. split; auto.
      intros _ j e Hj Hn. exfalso.
      assert (nth_error es (h + j) = None) by (apply nth_error_None; apply nth_error_None in E; lia).
      congruence.
Qed.

Lemma bool_eq_iff (a b : bool) : (a = true <-> b = true) -> a = b.
Proof. destruct a, b; intros [H1 H2]; auto; try (symmetry; auto); auto. Qed.

Section Queries.
  Variable g : geom.
  Hypothesis WF : wf_geom g.

  (* ----- a block inside one huge frame ----- *)
  Lemma small_free_iff l f k e rows :
    LowerInv g l -> (k <= hord g)%nat -> f mod pow2 k = 0 -> f + pow2 k <= frames l ->
    ent l (f / HF g) = Some e -> bf l (f / HF g) = Some rows ->
    (all_free (abs g l) f k = true <->
     e <> MARK /\ N.land (rows_bits rows) (blk (f mod HF g) (pow2 k)) = 0).
  Proof.
    intros Inv Hk Hal Hr He Hb. pose proof (pow2_pos k) as Hp. pose proof (HF_pos g) as HP.
    pose proof (aligned_in_huge g f k Hk Hal) as Hfit.
    pose proof (huge_of_frame g f) as Hf. set (h := f / HF g) in *.
    destruct (in_huge_divmod g h f Hf) as (_ & Emf).
    assert (Ha : forall i, f <= i < f + pow2 k ->
                   N.testbit (o_alloc (abs g l)) i = e_huge e || N.testbit (rows_bits rows) (i - h * HF g)).
    { intros i Hi. rewrite (abs_alloc_testbit g WF l Inv).
      destruct (in_huge_divmod g h i) as (Ed & Em); [clear - Hi Hf Hfit Emf; lia|].
      rewrite (alloc_at_eq g l i e rows) by (rewrite Ed; assumption). rewrite Em.
      destruct (N.ltb_spec i (frames l)) as [|Hge]; [reflexivity|]. exfalso. clear - Hge Hi Hr. lia. }
    rewrite all_free_spec. split.
    - intros H.
      assert (Hne : e <> MARK).
      { intros ->. specialize (H f ltac:(clear - Hp; lia)). rewrite Ha in H by (clear - Hp; lia).
        rewrite e_huge_MARK in H. discriminate. }
      split; [exact Hne|]. apply land_blk_zero. intros i Hi.
      specialize (H (h * HF g + i) ltac:(clear - Hi Emf Hf; lia)).
      rewrite Ha in H by (clear - Hi Emf Hf; lia). rewrite (e_huge_false e Hne) in H. cbn [orb] in H.
      replace (h * HF g + i - h * HF g) with i in H by (clear; lia). exact H.
    - intros (Hne & Z) i Hi. rewrite Ha by exact Hi. rewrite (e_huge_false e Hne). cbn [orb].
      rewrite land_blk_zero in Z. apply Z. clear - Hi Emf Hf. lia.
  Qed.

  (* `is_free(frame, order)` answers whether the block is entirely free in the ownership state *)
  Theorem lower_is_free_abs l f k :
    LowerInv g l -> (k <= tord g)%nat -> aligned f k = true -> f + pow2 k <= frames l ->
    lower_is_free g l f k = Ok (all_free (abs g l) f k).
  Proof.
    intros Inv Hkt Hal Hr. pose proof Hal as Hal'. unfold aligned in Hal. apply N.eqb_eq in Hal.
    pose proof (pow2_pos k) as Hp. pose proof (HF_pos g) as HP. pose proof (HF_lt_MARK g WF) as HM.
    assert (Hf : f < frames l) by (clear - Hp Hr; lia).
    unfold lower_is_free. cbv zeta.
    replace ((f mod pow2 k =? 0) && (f + pow2 k <=? frames l) && Nat.leb k (tord g)) with true.
    2:{ symmetry. rewrite !andb_true_iff. split; [split|]; [apply N.eqb_eq; exact Hal|apply N.leb_le; exact Hr|apply Nat.leb_le; exact Hkt]. }
    cbn [negb].
    rewrite (has_tree_true g l _ Inv (frame_lt_ntab g _ _ Hf)). cbn [negb].
    destruct (Nat.leb_spec (hord g) k) as [Hk|Hk].
    - (* huge orders *)
      destruct (aligned_huge g f k Hk Hal) as (Ef & Ehm).
      pose proof (huge_index_fits g (f / HF g) k Hk Hkt Ehm) as Hfit.
      set (h := f / HF g) in *. set (n := pow2 (k - hord g)) in *.
      destruct (N.ltb_spec (THUGE g) (h mod THUGE g + n)) as [Hbad|_]; [exfalso; clear - Hbad Hfit; lia|].
      f_equal. apply bool_eq_iff.
      assert (Epow : pow2 k = n * HF g) by (subst n; rewrite HF_pow2; apply pow2_split, Hk).
      assert (Hin : forall h', h <= h' < h + n -> (h' + 1) * HF g <= frames l).
      { intros h' Hh'. assert ((h' + 1) * HF g <= (h + n) * HF g) by (apply N.mul_le_mono_r; clear - Hh'; lia).
        rewrite Ef, Epow in Hr. clear - Hr H. lia. }
      rewrite forallb_firstn_skipn. split.
      + intros H. apply all_free_spec. intros i Hi.
        assert (Hi' : h * HF g <= i < (h + n) * HF g) by (rewrite Ef, Epow in Hi; clear - Hi; lia).
        pose proof (div_range_in g h n i Hi') as Hh'. set (h' := i / HF g) in *.
        assert (Hfull : at_ e_free (ents l) (nn h') = HF g).
        { destruct (LowerInv_frame g l (h' * HF g) Inv) as (e & rows & He & _).
          { specialize (Hin h' Hh'). clear - Hin HP. lia. }
          rewrite N.div_mul in He by apply HF_nz.
          unfold at_. change (nth_error (ents l) (nn h')) with (ent l h'). rewrite He.
          apply N.eqb_eq. apply (H (nn h' - nn h)%nat e).
          - unfold nn. clear - Hh'. lia.
          - replace (nn h + (nn h' - nn h))%nat with (nn h') by (unfold nn; clear - Hh'; lia). exact He. }
        apply (li_huge_all_free g WF l h' Inv (Hin h' Hh')) in Hfull.
        rewrite all_free_spec in Hfull. apply Hfull. rewrite <- (HF_pow2 g).
        pose proof (huge_of_frame g i) as Q. fold h' in Q. clear - Q. lia.
      + intros H j e Hj Hn.
        set (h' := h + N.of_nat j).
        assert (Hh' : h <= h' < h + n) by (subst h'; unfold nn in Hj; clear - Hj; lia).
        assert (He : ent l h' = Some e).
        { unfold ent. replace (nn h') with (nn h + j)%nat by (subst h'; unfold nn; clear; lia). exact Hn. }
        assert (Hfull : all_free (abs g l) (h' * HF g) (hord g) = true).
        { apply all_free_spec. intros i Hi. rewrite all_free_spec in H. apply H.
          rewrite <- (HF_pow2 g) in Hi. rewrite Ef, Epow.
          assert (h * HF g <= h' * HF g) by (apply N.mul_le_mono_r; clear - Hh'; lia).
          assert ((h' + 1) * HF g <= (h + n) * HF g) by (apply N.mul_le_mono_r; clear - Hh'; lia).
          clear - Hi H0 H1. lia. }
        apply (li_huge_all_free g WF l h' Inv (Hin h' Hh')) in Hfull.
        unfold at_ in Hfull. change (nth_error (ents l) (nn h')) with (ent l h') in Hfull. rewrite He in Hfull.
        apply N.eqb_eq. exact Hfull.
    - (* small orders *)
      destruct (LowerInv_frame g l f Inv Hf) as (e & rows & He & Hb). rewrite He.
      destruct (LowerInv_huge_ok g l _ e rows Inv He Hb) as (Hok & _ & Hcnt & _).
      pose proof (small_free_iff l f k e rows Inv ltac:(lia) Hal Hr He Hb) as IFF.
      pose proof (aligned_in_huge g f k ltac:(lia) Hal) as Hfit.
      destruct (N.ltb_spec (e_free e) (pow2 k)) as [Hlt|Hge].
      + f_equal. symmetry. apply not_true_is_false. intros T. apply IFF in T. destruct T as (Hne & Z).
        destruct (Hcnt Hne) as (Ec & _).
        pose proof (count_zeros_ge_block g WF rows _ _ Hok Hfit Z) as G.
        unfold e_free in Hlt. rewrite (e_huge_false e Hne) in Hlt. clear - Hlt G Ec. lia.
      + assert (Hne : e <> MARK).
        { intros ->. change (e_free MARK) with 0 in Hge. clear - Hge Hp. lia. }
        destruct (Hcnt Hne) as (Ec & _).
        assert (Ee : e_free e = e) by (unfold e_free; rewrite (e_huge_false e Hne); reflexivity).
        destruct (N.eqb_spec (e_free e) (HF g)) as [Efull|_].
        * f_equal. symmetry. apply IFF. split; [exact Hne|].
          rewrite Ee, Ec in Efull. pose proof (count_zeros_full_zero g WF rows Hok Efull) as Hz.
          rewrite (rows_zero_bits rows Hz). apply N.land_0_l.
        * rewrite Hb. f_equal. apply bool_eq_iff.
          rewrite (bf_is_zero_spec g WF rows f k Hok ltac:(lia) Hal), IFF. tauto.
  Qed.
End Queries.

Section Queries2.
  Variable g : geom.
  Hypothesis WF : wf_geom g.

  (* `stats_at(frame, 0)`: one frame *)
  Theorem lower_stats_at_0_abs l f :
    LowerInv g l -> f < frames l ->
    lower_stats_at g l f 0 =
      Ok {| free_frames := if N.testbit (o_alloc (abs g l)) f then 0 else 1; free_huge := 0; free_trees := 0 |}.
  Proof.
    intros Inv Hf. pose proof (HF_pos g) as HP.
    unfold lower_stats_at. cbv zeta.
    rewrite (has_tree_true g l _ Inv (frame_lt_ntab g _ _ Hf)). cbn [negb Nat.eqb].
    destruct (LowerInv_frame g l f Inv Hf) as (e & rows & He & Hb). rewrite He.
    destruct (LowerInv_huge_ok g l _ e rows Inv He Hb) as (Hok & _ & Hcnt & _).
    rewrite (abs_alloc_testbit g WF l Inv), (alloc_at_eq g l f e rows He Hb).
    destruct (N.ltb_spec f (frames l)) as [_|Hge]; [cbn [andb]|exfalso; clear - Hge Hf; lia].
    assert (Hz : bf_is_zero g rows f 0 = negb (N.testbit (rows_bits rows) (f mod HF g))).
    { apply bool_eq_iff. rewrite (bf_is_zero_spec g WF rows f 0 Hok ltac:(lia) (N.mod_1_r f)).
      rewrite land_blk_zero. change (pow2 0) with 1. rewrite negb_true_iff. generalize (f mod HF g). intros m. split.
      - intros H. apply H. clear. lia.
      - intros H i Hi. replace i with m by (clear - Hi; lia). exact H. }
    destruct (N.eq_dec e MARK) as [->|Hne].
    - rewrite e_huge_MARK. change (e_free MARK) with 0. cbn. reflexivity.
    - rewrite (e_huge_false e Hne). cbn [orb]. destruct (Hcnt Hne) as (Ec & _).
      assert (Ee : e_free e = e) by (unfold e_free; rewrite (e_huge_false e Hne); reflexivity).
      rewrite Ee. destruct (N.ltb_spec 0 e) as [Hpos|Hzero].
      + rewrite Hb, Hz. destruct (N.testbit (rows_bits rows) (f mod HF g)); reflexivity.
      + destruct (N.testbit (rows_bits rows) (f mod HF g)) eqn:T; [reflexivity|exfalso].
        assert (Z : N.land (rows_bits rows) (blk (f mod HF g) 1) = 0).
        { apply land_blk_zero. revert T. generalize (f mod HF g). intros m T i Hi. replace i with m by (clear - Hi; lia). exact T. }
        pose proof (N.mod_lt f (HF g) ltac:(clear - HP; lia)) as Hm.
        assert (Hm' : f mod HF g + 1 <= HF g) by (rewrite N.add_1_r; apply N.le_succ_l; exact Hm).
        pose proof (count_zeros_ge_block g WF rows _ _ Hok Hm' Z) as G.
        clear - G Ec Hzero. lia.
  Qed.

  (* number of allocated frames among [lo, lo+n) in the ownership state *)
  Definition alloc_in (s : ospec) (lo n : N) : N := popcount (N.land (o_alloc s) (blk lo n)).
  (* the managed part of huge frame h *)
  Definition huge_len (fr h : N) : N := N.min fr ((h + 1) * HF g) - h * HF g.

  (* `stats_at(frame, HUGE_ORDER)`: the managed frames of the huge frame that are free; it counts as a
     free huge frame iff it is in range and entirely free *)
  Theorem lower_stats_at_huge_abs l f :
    LowerInv g l -> f < frames l ->
    let h := f / HF g in
    exists s, lower_stats_at g l f (hord g) = Ok s /\
      free_frames s + alloc_in (abs g l) (h * HF g) (huge_len (frames l) h) = huge_len (frames l) h /\
      free_huge s = (if in_range (abs g l) (h * HF g) (hord g) && all_free (abs g l) (h * HF g) (hord g) then 1 else 0) /\
      free_trees s = 0.
  Proof.
    intros Inv Hf h. pose proof (HF_pos g) as HP.
    unfold lower_stats_at. cbv zeta.
    rewrite (has_tree_true g l _ Inv (frame_lt_ntab g _ _ Hf)). cbn [negb].
    destruct WF as (H6 & _).
    replace (Nat.eqb (hord g) 0) with false by (symmetry; apply Nat.eqb_neq; lia).
    rewrite Nat.eqb_refl.
    destruct (LowerInv_frame g l f Inv Hf) as (e & rows & He & Hb). fold h in He, Hb. fold h. rewrite He.
    eexists. split; [reflexivity|]. cbn [free_frames free_huge free_trees].
    assert (Hent : ent l h <> None) by congruence.
    pose proof (child_count g WF l h Inv Hent) as C.
    assert (Ea : efree_at (ents l) (nn h) = e_free e).
    { unfold efree_at. change (nth_error (ents l) (nn h)) with (ent l h). rewrite He. reflexivity. }
    rewrite Ea in C. split; [exact C|]. split; [|reflexivity].
    pose proof (efree_le g l h Inv) as Hle. rewrite Ea in Hle.
    unfold in_range. rewrite abs_frames, <- (HF_pow2 g).
    destruct (N.leb_spec (h * HF g + HF g) (frames l)) as [Hin|Hout]; cbn [andb].
    - pose proof (li_huge_all_free g WF l h Inv ltac:(clear - Hin; lia)) as IFF.
      assert (Eat : at_ e_free (ents l) (nn h) = e_free e) by exact Ea. rewrite Eat in IFF.
      destruct (all_free (abs g l) (h * HF g) (hord g)).
      + rewrite (proj1 IFF eq_refl). apply N.div_same. clear - HP. lia.
      + apply N.div_small. destruct (N.eq_dec (e_free e) (HF g)) as [E|E]; [|clear - E Hle; lia].
        apply IFF in E. discriminate.
    - apply N.div_small.
      assert (Hb' : frames l / HF g <= h).
      { destruct (N.le_gt_cases (frames l / HF g) h) as [|Hgt]; [assumption|exfalso].
        assert (h + 1 <= frames l / HF g) by (clear - Hgt; lia).
        pose proof (N.mul_div_le (frames l) (HF g) ltac:(clear - HP; lia)) as M.
        assert ((h + 1) * HF g <= frames l / HF g * HF g) by (apply N.mul_le_mono_r; assumption).
        clear - Hout M H0. lia. }
      pose proof (li_not_free_beyond g WF l h Inv Hb') as NE.
      assert (Eat : at_ e_free (ents l) (nn h) = e_free e) by exact Ea. rewrite Eat in NE.
      clear - NE Hle. lia.
  Qed.

  (* `stats_at(tree * TREE_FRAMES, TREE_ORDER).free_frames`: the free frames of the tree *)
  Theorem lower_stats_at_tree_abs l t :
    LowerInv g l -> t < ntab g (frames l) ->
    exists s, lower_stats_at g l (t * TF g) (tord g) = Ok s /\
              free_frames s = spec_tree_free g (abs g l) t /\ free_frames s <= TF g.
  Proof.
    intros Inv Ht. destruct (lf_stats_at_tree_proof g WF l t Inv Ht) as (s & E & F).
    destruct (lf_tree_free_proof g WF l t Inv Ht) as (A & B).
    exists s. split; [exact E|]. rewrite F. split; [exact A|exact B].
  Qed.
End Queries2.

(* ====================================================================================== *)
(* 5. the exact free count is the sum of the per-tree counts; "every free frame is hidden" *)
(* ====================================================================================== *)
Section FreeSums.
  Variable g : geom.
  Hypothesis WF : wf_geom g.

  Theorem exact_free_tree_sum l : LowerInv g l ->
    exact_free (abs g l) = sum_seq (nn (ntab g (frames l))) (fun i => tree_free g l (N.of_nat i)).
  Proof.
    intros Inv. destruct (lower_stats_abs g WF l Inv) as (E & _). rewrite <- E. apply (LS_sum g WF l Inv).
  Qed.

  Variable policy : N -> N -> N -> pol.

  (* if the free frames of every tree are all hidden by offline operations, the number of free frames is the
     total hidden amount *)
  Theorem all_hidden_exact_free x :
    UpperInv g policy x ->
    (forall i, i < ntrees (us x) -> tree_free g (low (us x)) i = nth (nn i) (off x) 0) ->
    exact_free (abs g (low (us x))) = sumN (off x).
  Proof.
    intros HI H. pose proof HI as (HL & H2 & H3 & _).
    rewrite (exact_free_tree_sum _ HL), <- H2.
    rewrite <- (map_id (off x)) at 1. rewrite sumN_by_index, H3.
    unfold sum_seq. apply sumN_map_ext. intros i Hi. apply in_seq in Hi.
    rewrite H by (unfold ntrees; lia). unfold nn. rewrite Nat2N.id.
    destruct (nth_error (off x) i) as [o|] eqn:E.
    - unfold id. apply nth_error_nth. exact E.
    - apply nth_error_None in E. lia.
  Qed.

  (* ... in particular zero when no tree is offline *)
  Corollary all_hidden_none_offline x :
    UpperInv g policy x -> Forall (fun o => o = 0) (off x) ->
    (forall i, i < ntrees (us x) -> tree_free g (low (us x)) i = nth (nn i) (off x) 0) ->
    exact_free (abs g (low (us x))) = 0.
  Proof.
    intros HI Hoff H. rewrite (all_hidden_exact_free x HI H).
    rewrite <- (map_id (off x)). apply sumN_map_zero. rewrite Forall_forall in Hoff. exact Hoff.
  Qed.
End FreeSums.
