(* L6: the trace replayer of eval/src/bin/replay.rs (the `main` loop, lines 105-178) over an ABSTRACT
   allocator given by its frame-ownership specification.  Definitions only; proofs are in ReplayProofs.v.

   The allocator state is the set of allocated base frames, represented as a list of half-open
   intervals [lo, hi).  `aput f k` succeeds iff the block is aligned, inside the managed range and every
   one of its 2^k frames is allocated, and then frees exactly those frames; `aget k` allocates the block
   named by an oracle `choose` (Section variable; ReplayProofs assumes that a block it returns is aligned,
   in range and entirely free).  Classes, cores and local reservations do not influence which frames are
   owned, so events carry only (alloc, pfn, order).

   `step true`  = the loop with the repair of D11 (`put(frame + (pfn - a_pfn))`),
   `step false` = the loop as pinned (`put(frame)`, the first part whatever part the event names). *)
From LLF Require Import Base.

(* ---------- blocks ---------- *)
Definition block := (N * nat)%type.                       (* (first frame, order) *)
Definition bsize (b : block) : N := 2 ^ N.of_nat (snd b).
Definition inb (x : N) (b : block) : bool := (fst b <=? x) && (x <? fst b + bsize b).
Definition bsum (l : list block) : N := fold_right (fun b acc => bsize b + acc) 0 l.

(* ---------- abstract allocator: set of allocated frames as a list of intervals ---------- *)
Definition ival := (N * N)%type.                          (* [lo, hi) *)
Definition astate := list ival.
Definition inI (x : N) (i : ival) : bool := (fst i <=? x) && (x <? snd i).
Definition allocd (st : astate) (x : N) : bool := existsb (inI x) st.

(* i \ [a, b): at most two non-empty pieces *)
Definition iminus (a b : N) (i : ival) : list ival :=
  (if fst i <? N.min (snd i) a then [(fst i, N.min (snd i) a)] else []) ++
  (if N.max (fst i) b <? snd i then [(N.max (fst i) b, snd i)] else []).
Definition aremove (st : astate) (a b : N) : astate := flat_map (iminus a b) st.

(* what is left of the intervals `rem` after taking away every interval of st *)
Fixpoint uncovered (rem : list ival) (st : astate) : list ival :=
  match st with
  | [] => rem
  | i :: r => uncovered (flat_map (iminus (fst i) (snd i)) rem) r
  end.
Definition covered (st : astate) (a b : N) : bool :=
  match uncovered [(a, b)] st with [] => true | _ => false end.

Definition alen (st : astate) : N := fold_right (fun i acc => (snd i - fst i) + acc) 0 st.

(* ---------- trace events ---------- *)
Record event := mkEv { e_alloc : bool; e_pfn : N; e_order : nat }.

(* ---------- the table `allocated: Vec<Allocation>`: present entries only, keyed by pfn ---------- *)
Definition table := list (N * block).
Fixpoint tget (T : table) (p : N) : option block :=
  match T with
  | [] => None
  | e :: r => if fst e =? p then Some (snd e) else tget r p
  end.
Definition tdel (T : table) (p : N) : table := filter (fun e => negb (fst e =? p)) T.
Definition tset (T : table) (p : N) (b : block) : table := (p, b) :: tdel T p.
Definition tsum (T : table) : N := bsum (map snd T).
(* `allocated[a].present().then(|| allocated[a].order())` *)
Definition look (T : table) (a : N) : option nat :=
  match tget T a with Some b => Some (snd b) | None => None end.

Definition TREE_ORDER : nat := 11.
(* util::align_down for a power of two *)
Definition align_down (p a : N) : N := p - p mod a.

Inductive tobs :=
| TAlloc (re : bool)                 (* table entry written; re = the entry was present (a re-allocation) *)
| TUnknown                           (* free of an unknown block *)
| TFree (a F : N) (K : nat).         (* free inside the tracked allocation a |-> (F, K) *)

Inductive obs :=
| OAlloc (f : N) (k : nat)           (* llfree.get returned f *)
| OPut (f : N) (k : nat) (ok : bool) (* llfree.put(f, order k) was called; ok = it returned Ok *)
| OUnknown.

Record rstate := mkR {
  r_alloc : astate;                  (* the allocator *)
  r_tab : table;                     (* present entries of `allocated` *)
  r_orph : list block;               (* ghost: blocks whose present entry was overwritten (never freed) *)
  r_failed : N;                      (* number of "Free failed" log lines *)
  r_unknown : N;                     (* free_unkown *)
  r_reallocs : N }.                  (* reallocs *)

Definition init : rstate := mkR [] [] [] 0 0 0.

Section Replay.
  Variable max_pfn : N.              (* length of `allocated` = number of managed frames *)

  (* ---------- allocator operations ---------- *)
  Variable choose : astate -> nat -> option N.

  Definition free_frames (st : astate) : N := max_pfn - alen st.
  Definition aget (st : astate) (k : nat) : option (N * astate) :=
    match choose st k with
    | Some f => Some (f, (f, f + 2 ^ N.of_nat k) :: st)
    | None => None
    end.
  Definition aput (st : astate) (f : N) (k : nat) : option astate :=
    let sz := 2 ^ N.of_nat k in
    if (f mod sz =? 0) && (f + sz <=? max_pfn) && covered st f (f + sz)
    then Some (aremove st f (f + sz)) else None.

  (* ---------- the table part of the loop ---------- *)
  (* lines 139-146: `for order in entry.order..=TREE_ORDER`; outer None = index out of bounds (panic) *)
  Fixpoint find_loop (lk : N -> option nat) (fuel o : nat) (pfn : N) : option (option N) :=
    match fuel with
    | O => Some None
    | S fuel' =>
        let a := align_down pfn (2 ^ N.of_nat o) in
        if max_pfn <=? a then None
        else match lk a with
             | Some K => if Nat.leb o K then Some (Some a) else find_loop lk fuel' (S o) pfn
             | None => find_loop lk fuel' (S o) pfn
             end
    end.
  Definition find_alloc (lk : N -> option nat) (pfn : N) (k : nat) : option (option N) :=
    find_loop lk (S TREE_ORDER - k) k pfn.

  (* lines 157-169, one iteration: part j of the allocation a |-> (F, K) at order k *)
  Definition split_part (a F : N) (k : nat) (pfn : N) (j : N) (st : table * list block)
    : option (table * list block) :=
    let s := 2 ^ N.of_nat k in
    let part_pfn := a + j * s in
    let part_frame := F + j * s in
    if max_pfn <=? part_pfn then None
    else
      let orph' := match tget (fst st) part_pfn with
                   | Some b => if j =? 0 then snd st else b :: snd st
                   | None => snd st
                   end in
      Some (if pfn =? part_pfn then tdel (fst st) part_pfn else tset (fst st) part_pfn (part_frame, k),
            orph').
  Fixpoint split_loop (a F : N) (k : nat) (pfn : N) (fuel : nat) (j : N) (st : table * list block)
    : option (table * list block) :=
    match fuel with
    | O => Some st
    | S fuel' =>
        match split_part a F k pfn j st with
        | None => None
        | Some st' => split_loop a F k pfn fuel' (j + 1) st'
        end
    end.

  (* everything the loop does to `allocated` for one event; f = the frame returned by get (alloc events) *)
  Definition tab_step (st : table * list block) (e : event) (f : N)
    : option (table * list block * tobs) :=
    let pfn := e_pfn e in
    let k := e_order e in
    if e_alloc e then
      if max_pfn <=? pfn then None
      else match tget (fst st) pfn with
           | Some b => Some (tset (fst st) pfn (f, k), b :: snd st, TAlloc true)
           | None => Some (tset (fst st) pfn (f, k), snd st, TAlloc false)
           end
    else
      match find_alloc (look (fst st)) pfn k with
      | None => None
      | Some None => Some (fst st, snd st, TUnknown)
      | Some (Some a) =>
          match tget (fst st) a with
          | None => None
          | Some (F, K) =>
              if Nat.ltb K k then None
              else match split_loop a F k pfn (N.to_nat (2 ^ N.of_nat (K - k))) 0 st with
                   | None => None
                   | Some st' => Some (fst st', snd st', TFree a F K)
                   end
          end
      end.

  (* ---------- one loop iteration; None = the real loop panics ---------- *)
  Definition step (repaired : bool) (s : rstate) (e : event) : option (rstate * obs) :=
    if e_alloc e then
      match aget (r_alloc s) (e_order e) with
      | None => None                                  (* `.unwrap()` of Err(Memory) *)
      | Some (f, st') =>
          match tab_step (r_tab s, r_orph s) e f with
          | Some (T', orph', TAlloc re) =>
              Some (mkR st' T' orph' (r_failed s) (r_unknown s)
                        (r_reallocs s + if re then 1 else 0), OAlloc f (e_order e))
          | _ => None
          end
      end
    else
      match tab_step (r_tab s, r_orph s) e 0 with
      | Some (T', orph', TUnknown) =>
          Some (mkR (r_alloc s) T' orph' (r_failed s) (r_unknown s + 1) (r_reallocs s), OUnknown)
      | Some (T', orph', TFree a F K) =>
          let f := if repaired then F + (e_pfn e - a) else F in
          match aput (r_alloc s) f (e_order e) with
          | Some st' =>
              Some (mkR st' T' orph' (r_failed s) (r_unknown s) (r_reallocs s), OPut f (e_order e) true)
          | None =>
              Some (mkR (r_alloc s) T' orph' (r_failed s + 1) (r_unknown s) (r_reallocs s),
                    OPut f (e_order e) false)
          end
      | _ => None
      end.

  Fixpoint run (repaired : bool) (s : rstate) (evs : list event) : option rstate :=
    match evs with
    | [] => Some s
    | e :: r => match step repaired s e with Some (s', _) => run repaired s' r | None => None end
    end.

  (* the calls made to the allocator, in order *)
  Fixpoint run_log (repaired : bool) (s : rstate) (evs : list event) : option (list obs) :=
    match evs with
    | [] => Some []
    | e :: r =>
        match step repaired s e with
        | Some (s', o) => match run_log repaired s' r with Some l => Some (o :: l) | None => None end
        | None => None
        end
    end.

  Definition replay_step := step true.
  Definition old_replay_step := step false.
  Definition replay (evs : list event) : option rstate := run true init evs.
  Definition old_replay (evs : list event) : option rstate := run false init evs.

  (* frames the replayer holds: tracked blocks + blocks whose entry was overwritten *)
  Definition held (s : rstate) : N := tsum (r_tab s) + bsum (r_orph s).

  (* ---------- what the trace holds, from the trace alone (pfn space; no allocator) ----------
     The same bookkeeping run on the traced system itself, where the frame of a block is its pfn.
     Result: (frames of tracked blocks, frames of allocations whose entry was overwritten - by a
     re-allocation at the same pfn, or by a part of a split -, unknown frees, re-allocations). *)
  Record sstate := mkS { s_tab : table; s_orph : list block; s_unknown : N; s_reallocs : N }.
  Definition spec_step (t : sstate) (e : event) : option sstate :=
    match tab_step (s_tab t, s_orph t) e (e_pfn e) with
    | Some (T', orph', TAlloc re) => Some (mkS T' orph' (s_unknown t) (s_reallocs t + if re then 1 else 0))
    | Some (T', orph', TUnknown) => Some (mkS T' orph' (s_unknown t + 1) (s_reallocs t))
    | Some (T', orph', TFree _ _ _) => Some (mkS T' orph' (s_unknown t) (s_reallocs t))
    | None => None
    end.
  Fixpoint spec_run (t : sstate) (evs : list event) : option sstate :=
    match evs with
    | [] => Some t
    | e :: r => match spec_step t e with Some t' => spec_run t' r | None => None end
    end.
  Definition trace_spec (evs : list event) : option sstate := spec_run (mkS [] [] 0 0) evs.
  Definition trace_held (evs : list event) : option N :=
    match trace_spec evs with Some t => Some (tsum (s_tab t) + bsum (s_orph t)) | None => None end.
End Replay.

(* ---------- hypotheses of the theorems (explicit, satisfiable: see first_fit below) ---------- *)
(* the oracle returns only aligned, in-range, entirely free blocks *)
Definition choose_ok (max_pfn : N) (choose : astate -> nat -> option N) : Prop :=
  forall st k f, choose st k = Some f ->
    f mod 2 ^ N.of_nat k = 0 /\ f + 2 ^ N.of_nat k <= max_pfn /\
    (forall x, f <= x < f + 2 ^ N.of_nat k -> allocd st x = false).

(* events as a kernel trace has them: orders 0..10, the pfn aligned to the order, the block below max_pfn *)
Definition ev_ok (max_pfn : N) (e : event) : Prop :=
  (e_order e <= 10)%nat /\ e_pfn e mod 2 ^ N.of_nat (e_order e) = 0 /\
  e_pfn e + 2 ^ N.of_nat (e_order e) <= max_pfn.
Definition ev_okb (max_pfn : N) (e : event) : bool :=
  Nat.leb (e_order e) 10 && (e_pfn e mod 2 ^ N.of_nat (e_order e) =? 0) &&
  (e_pfn e + 2 ^ N.of_nat (e_order e) <=? max_pfn).

(* ---------- a concrete oracle: first fit (lowest free aligned block) ---------- *)
Definition overlap (lo hi : N) (i : ival) : bool := (fst i <? hi) && (lo <? snd i).
Definition align_up (x sz : N) : N := ((x + sz - 1) / sz) * sz.
Fixpoint ff_loop (max_pfn : N) (st : astate) (sz : N) (fuel : nat) (f : N) : option N :=
  if max_pfn <? f + sz then None
  else match find (overlap f (f + sz)) st with
       | None => Some f
       | Some i => match fuel with
                   | O => None
                   | S fuel' => ff_loop max_pfn st sz fuel' (align_up (snd i) sz)
                   end
       end.
Definition first_fit (max_pfn : N) (st : astate) (k : nat) : option N :=
  ff_loop max_pfn st (2 ^ N.of_nat k) (S (length st)) 0.

(* the model as the driver runs it *)
Definition replay_ff (max_pfn : N) (evs : list event) : option rstate := replay max_pfn (first_fit max_pfn) evs.
Definition old_replay_ff (max_pfn : N) (evs : list event) : option rstate := old_replay max_pfn (first_fit max_pfn) evs.
Definition result (max_pfn : N) (s : rstate) : N * N * N * N :=
  (free_frames max_pfn (r_alloc s), r_failed s, r_unknown s, r_reallocs s).
