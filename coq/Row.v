(* L0: the row bit search of bitfield.rs:286 `first_zeros_aligned` on one 64-bit row,
   and its specification. No proofs here. *)
From LLF Require Import Base.

(* `first_zeros_aligned(v, order)`; v < 2^64. Result: (new row, bit offset). Orders above 6
   are `unreachable!()` in the code; the model returns None and the callers never pass them
   (checked by the caller's model, which maps that case to a Panic). *)
Definition zero_lane_off (v mask : N) (w : N) : N :=
  (* (((v.wrapping_sub(mask) & !v) >> (w-1)) & mask).trailing_zeros() *)
  trailing_zeros (N.land (N.shiftr (N.land (wsub64 v mask) (not64 v)) (w - 1)) mask).

Definition fza (v : N) (o : nat) : option (N * N) :=
  match o with
  | 0%nat =>
      let off := trailing_ones v in
      if off <? 64 then Some (N.lor v (N.shiftl 1 off), off) else None
  | 1%nat =>
      let mask := 0xaaaaaaaaaaaaaaaa in
      let off := trailing_ones (N.lor (N.lor v (N.shiftr v 1)) mask) in
      if off <? 64 then Some (N.lor v (N.shiftl 3 off), off) else None
  | 2%nat =>
      let off := zero_lane_off v 0x1111111111111111 4 in
      if off <? 64 then Some (N.lor v (N.shiftl 15 off), off) else None
  | 3%nat =>
      let off := zero_lane_off v 0x0101010101010101 8 in
      if off <? 64 then Some (N.lor v (N.shiftl 255 off), off) else None
  | 4%nat =>
      let off := zero_lane_off v 0x0001000100010001 16 in
      if off <? 64 then Some (N.lor v (N.shiftl 65535 off), off) else None
  | 5%nat =>
      let mask := 0xffffffff in
      if N.land v mask =? 0 then Some (N.lor v mask, 0)
      else if N.shiftr v 32 =? 0 then Some (N.lor v (N.shiftl mask 32), 32)
      else None
  | 6%nat => if v =? 0 then Some (MAX64, 0) else None
  | _ => None
  end.

(* ---------- specification: the obvious search ---------- *)
(* block p of width 2^o is free in v *)
Definition block_mask (o : nat) (p : N) : N := N.shiftl (ones (2 ^ N.of_nat o)) p.
Definition block_free (v : N) (o : nat) (p : N) : bool := N.land v (block_mask o p) =? 0.

(* candidates in increasing order: 0, 2^o, 2*2^o, ... < 64 *)
Definition candidates (o : nat) : list N :=
  map (fun k => N.of_nat k * 2 ^ N.of_nat o) (seq 0 (Nat.pow 2 (6 - o))).

Definition row_spec (v : N) (o : nat) : option (N * N) :=
  match find (block_free v o) (candidates o) with
  | Some p => Some (N.lor v (block_mask o p), p)
  | None => None
  end.
