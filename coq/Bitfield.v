(* L1: sequential model of bitfield.rs `Bitfield` (one huge frame's allocation bits: ROWS rows of 64 bits).
   A bitfield is a `list N` of rows, each < 2^64. Definitions only.
   Sequentially a `try_update f` is "if f v = Some v' then write v'", a `compare_exchange(a,b)` is
   "if v = a then write b"; the rollback loops of the multi-CAS operations can only run after a failed
   CAS, and when they run they restore exactly the rows written before, so on a sequential run a failing
   multi-row operation leaves the bitfield unchanged and its `expect`s cannot fire. *)
From LLF Require Import Base Row.

Record geom := { hord : nat; tlog : nat }.       (* HUGE_ORDER, log2 TREE_HUGE *)

Section Geometry.
  Variable g : geom.
  Definition HF : N := 2 ^ N.of_nat (hord g).                    (* HUGE_FRAMES = Bitfield::LEN *)
  Definition THUGE : N := 2 ^ N.of_nat (tlog g).                 (* TREE_HUGE *)
  Definition TF : N := THUGE * HF.                               (* TREE_FRAMES *)
  Definition tord : nat := (hord g + tlog g)%nat.                (* TREE_ORDER *)
  Definition ROWS : N := HF / 64.
  Definition rows_nat : nat := Nat.pow 2 (hord g - 6).
  Definition thuge_nat : nat := Nat.pow 2 (tlog g).
  (* the crate's compile-time asserts: rows exist, packed field widths (Tree.free 28 bits,
     LocalTree.free 19 bits, HugeEntry u16 with 0xFFFF reserved) *)
  Definition wf_geom : Prop := (6 <= hord g)%nat /\ (hord g <= 15)%nat /\ (hord g + tlog g <= 18)%nat.
End Geometry.

Definition pow2 (o : nat) : N := 2 ^ N.of_nat o.

(* (u64::MAX >> (64 - bits)) << off, for 1 <= bits <= 64 *)
Definition mask64 (bits off : N) : N := N.shiftl (ones bits) off.

Definition row_at (rows : list N) (r : N) : option N := nth_error rows (nn r).

Section Bitfield.
  Variable g : geom.
  Notation ROWS := (ROWS g).
  Notation HF := (HF g).

  (* `toggle(i, order, expected)`: i is a frame number (only i mod HF matters), aligned to 2^order.
     Orders 0..2 use a 64-bit try_update with a mask, 3..6 one narrow CAS on the 2^order-bit lane
     (little endian: the lane at bit offset i mod 64 of row (i/64) mod ROWS), orders >= 7 one CAS per row.
     Sequentially all three are "if the block has the expected value, flip it".  None = Err(Memory). *)
  Fixpoint toggle_rows (rows : list N) (r : nat) (n : nat) (expected : bool) : option (list N) :=
    match n with
    | O => Some rows
    | S n' =>
        match nth_error rows r with
        | Some v =>
            if v =? (if expected then MAX64 else 0)
            then toggle_rows (upd rows r (if expected then 0 else MAX64)) (S r) n' expected
            else None
        | None => None
        end
    end.

  Definition bf_toggle (rows : list N) (i : N) (order : nat) (expected : bool) : option (list N) :=
    if Nat.leb order 6 then
      let r := (i / 64) mod ROWS in
      let m := mask64 (pow2 order) (i mod 64) in
      match row_at rows r with
      | Some e =>
          if expected then
            if N.land e m =? m then Some (upd rows (nn r) (N.land e (not64 m))) else None
          else
            if N.land e m =? 0 then Some (upd rows (nn r) (N.lor e m)) else None
      | None => None
      end
    else
      let di := (i / 64) mod ROWS in
      toggle_rows rows (nn di) (Nat.pow 2 (order - 6)) expected.

  (* `is_zero(i, order)` *)
  Definition bf_is_zero (rows : list N) (i : N) (order : nat) : bool :=
    if Nat.leb order 6 then
      match row_at rows ((i / 64) mod ROWS) with
      | Some e => N.land e (mask64 (pow2 order) (i mod 64)) =? 0
      | None => false
      end
    else
      forallb (fun v => v =? 0) (firstn (Nat.pow 2 (order - 6)) (skipn (nn ((i / 64) mod ROWS)) rows)).

  (* `set_first_zeros(start_row, order)` for order <= 6: rows are tried from start_row (mod ROWS),
     wrapping; the first row whose search succeeds is updated. Result: (rows', frame offset in the
     bitfield). *)
  Fixpoint sfz_loop (rows : list N) (start : N) (order : nat) (i : N) (n : nat) : option (list N * N) :=
    match n with
    | O => None
    | S n' =>
        let r := (i + start mod ROWS) mod ROWS in
        match row_at rows r with
        | Some e =>
            match fza e order with
            | Some (v, off) => Some (upd rows (nn r) v, r * 64 + off)
            | None => sfz_loop rows start order (i + 1) n'
            end
        | None => None
        end
    end.

  (* `set_first_zero_rows(order)` for order > 6: chunks of 2^(order-6) rows from row 0; the first chunk
     that is entirely zero is filled. *)
  Fixpoint sfzr_loop (rows : list N) (nr : nat) (c : nat) (n : nat) : option (list N * N) :=
    match n with
    | O => None
    | S n' =>
        if forallb (fun v => v =? 0) (firstn nr (skipn (c * nr) rows))
        then match toggle_rows rows (c * nr) nr false with
             | Some rows' => Some (rows', N.of_nat (c * nr) * 64)
             | None => None
             end
        else sfzr_loop rows nr (S c) n'
    end.

  Definition bf_set_first_zeros (rows : list N) (start_row : N) (order : nat) : option (list N * N) :=
    if Nat.leb order 6 then sfz_loop rows start_row order 0 (length rows)
    else let nr := Nat.pow 2 (order - 6) in
         sfzr_loop rows nr 0 (Nat.div (length rows) nr + (if Nat.eqb (Nat.modulo (length rows) nr) 0 then 0 else 1)).

  Definition bf_fill (rows : list N) (v : bool) : list N :=
    map (fun _ => if v then MAX64 else 0) rows.

  Definition bf_count_zeros (rows : list N) : N :=
    fold_right (fun v a => count_zeros64 v + a) 0 rows.

  (* `set(start..end, v)` with 0 <= start <= end <= HF (both inside this bitfield): row r receives the
     bits [max(start,64r), min(end,64r+64)). *)
  Definition bf_set_row (v : bool) (s e : N) (r : N) (x : N) : N :=
    let lo := N.max s (64 * r) in
    let hi := N.min e (64 * r + 64) in
    if lo <? hi then
      let m := mask64 (hi - lo) (lo - 64 * r) in
      if v then N.lor x m else N.land x (not64 m)
    else x.

  Fixpoint bf_set_from (v : bool) (s e : N) (r : N) (rows : list N) : list N :=
    match rows with
    | [] => []
    | x :: rest => bf_set_row v s e r x :: bf_set_from v s e (r + 1) rest
    end.
  Definition bf_set (rows : list N) (s e : N) (v : bool) : list N := bf_set_from v s e 0 rows.
End Bitfield.
