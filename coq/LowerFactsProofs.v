(* The interface record of the lower allocator (LowerFacts.v) is proved: get / get_at / accounting from
   LowerGetProofs (via LowerFactsGet), put from LowerPutProofs. *)
From LLF Require Import Base Row Bitfield Lower Spec LowerFacts LowerFactsGet LowerPutProofs.

Theorem lower_facts_proved g : wf_geom g -> lower_facts g.
Proof. intros WF. apply (lower_facts_of_put g WF). exact (lower_put_facts g WF). Qed.
Print Assumptions lower_facts_proved.
