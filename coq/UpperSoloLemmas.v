(* Lemmas for UpperSolo.v (a call running ALONE on M2 computes the big-step function of Upper.v):
   - M1: a step of a running thread changes only that thread's pool entry, and the ghost only when it finishes;
   - the thread-level view of M2: configurations (memory, settled thread state), `sstep`, `sruns`;
     `At d u a cf`: the thread is about to process the action `a` with at least SETTLE - d steps of return-chain
     fuel left (`settle` follows return chains with bounded fuel, reset by every primitive step);
   - the embedded lower call (`PLow`) = the big-step lower model, from SoloRun.v's `call_entry` (`low_sim`);
   - the primitives when nobody interferes: tree try_update/update (`tu_sim`: load, fetch_free loads, one successful
     compare-exchange), slot try_update (`su_sim`), swap (`sw_sim`), load (`ld_sim`);
   - from `sruns` to the fuel-bounded solo run of `ustep` (`usolo_fuel`, `sruns_fuel`). *)
From Coq Require Import PeanoNat ZifyBool.
From LLF Require Import Base BitLemmas Row RowProofs Bitfield Lower Spec Sorted Upper LowerMachine
  UpperInvDef LowerFacts LowerFactsProofs UpperPrims SoloRunLemmas SoloRun Progress UpperMachine.

(* ---------- M1: what a step leaves alone ---------- *)
Section M1Shape.
  Variable g : geom.
  Definition shp (s : mstate) (t : nat) (s' : mstate) : Prop :=
    (exists x, ms_pool s' = upd (ms_pool s) t x) /\
    (ms_held s' = ms_held s \/ Progress.settled s' t = true).
  Lemma held_wr_row' s h r v : ms_held (wr_row s h r v) = ms_held s.
  Proof. unfold wr_row. destruct (nth_error (ms_bfs s) (nn h)); reflexivity. Qed.
  Lemma shp_crash s t c p s1 x : nth_error (ms_pool s) t = Some (TRun c p) ->
    ms_pool s1 = ms_pool s -> ms_held s1 = ms_held s -> shp s t (crash s1 t c x).
  Proof.
    intros Hth Hp Hh. split; [eexists; apply pool_crash; exact Hp|]. left. exact Hh.
  Qed.
  Lemma shp_goto s t c p s1 p1 : nth_error (ms_pool s) t = Some (TRun c p) ->
    ms_pool s1 = ms_pool s -> ms_held s1 = ms_held s -> shp s t (goto s1 t c p1).
  Proof.
    intros Hth Hp Hh. split; [eexists; apply pool_goto; exact Hp|]. left. exact Hh.
  Qed.
  Lemma shp_finish s t c p s1 r : nth_error (ms_pool s) t = Some (TRun c p) ->
    ms_pool s1 = ms_pool s -> shp s t (finish s1 t c r).
  Proof.
    intros Hth Hp. pose proof (pool_finish s s1 t c r Hp) as E. split; [eexists; exact E|]. right.
    unfold Progress.settled. rewrite E, nth_error_upd_same by (eapply sr_some_lt; exact Hth). reflexivity.
  Qed.
  Ltac hld := first [reflexivity | apply held_wr_row'].
  Ltac sleaf :=
    lazymatch goal with
    | |- shp _ _ (crash _ _ _ _) => eapply shp_crash; [eassumption | pool | hld]
    | |- shp _ _ (finish _ _ _ _) => eapply shp_finish; [eassumption | pool]
    | |- shp _ _ (goto _ _ _ _) => eapply shp_goto; [eassumption | pool | hld]
    end.
  Lemma mstep_shp s t c p c0 : nth_error (ms_pool s) t = Some (TRun c p) -> shp s t (fst (mstep g s t c0)).
  Proof.
    intros Hth. unfold mstep. rewrite Hth.
    destruct p; cbv beta iota zeta.
    all: try (destruct x).
    all: branches.
    all: sleaf.
  Qed.

  (* a one-thread view stays a one-thread view while the call runs *)
  Lemma mstep_view l c pc c' p' :
    let s1 := fst (mstep g (mk l [TRun c pc] []) 0 c) in
    nth_error (ms_pool s1) 0 = Some (TRun c' p') -> s1 = mk (lower_of s1) [TRun c' p'] [] /\ c' = c.
  Proof.
    intros s1 H1.
    assert (Hth : nth_error (ms_pool (mk l [TRun c pc] [])) 0 = Some (TRun c pc)) by reflexivity.
    pose proof (mstep_shp _ 0 c pc c Hth) as [(x & Hx) Hh].
    pose proof (step_dec g _ 0 c pc c Hth) as [_ Hd].
    fold s1 in Hx, Hh, Hd. cbn [ms_pool mk upd] in Hx.
    rewrite Hx in H1. cbn [nth_error] in H1. injection H1 as ->.
    destruct Hh as [Hh | Hs].
    2: { unfold Progress.settled in Hs. rewrite Hx in Hs. discriminate Hs. }
    cbn [ms_held mk] in Hh. split.
    - clearbody s1. destruct s1 as [fr es bs pl hd]. cbn [ms_pool ms_held] in *. subst. reflexivity.
    - destruct Hd as [Hs | (p1 & Hp1 & _)].
      + unfold Progress.settled in Hs. rewrite Hx in Hs. discriminate Hs.
      + rewrite Hx in Hp1. cbn [nth_error] in Hp1. injection Hp1 as -> _. reflexivity.
  Qed.
End M1Shape.

(* ---------- the thread-level machine: (memory, settled thread state) ---------- *)
Definition CF := (upper * UpperMachine.settled)%type.

(* what a function of the code delivers to its continuation *)
Inductive out := ORet (v : val) | OPanic (s : site).

Lemma tree_ok_at u i : tree_ok u i = true <-> tree_at u i <> None.
Proof.
  unfold tree_ok, tree_at, ntrees. rewrite N.ltb_lt. split; intros H.
  - apply nth_error_Some. unfold nn. lia.
  - apply nth_error_Some in H. unfold nn in H. lia.
Qed.
Lemma tree_eqb_refl t : tree_eqb t t = true.
Proof. unfold tree_eqb. rewrite !N.eqb_refl, Bool.eqb_reflx. reflexivity. Qed.
Lemma slot_eqb_refl s : slot_eqb s s = true.
Proof. unfold slot_eqb. rewrite !N.eqb_refl, Bool.eqb_reflx. reflexivity. Qed.

Section ThreadMachine.
  Variable g : geom.
  Variable policy : N -> N -> N -> pol.
  Notation settle := (settle g policy).
  Notation resume := (resume g policy).
  Notation prim_step := (prim_step g policy).

  Definition sstep (u : upper) (p : prim) (k : list kframe) : CF :=
    let '(u', _, o) := prim_step u p in
    (u', match o with
         | OStay p' => SRun p' k
         | OVal v => settle SETTLE u' (ARet v k)
         | OCrash x => SCrash x
         end).

  Inductive sruns : CF -> CF -> Prop :=
  | sr_refl c : sruns c c
  | sr_step u p k c' : sruns (sstep u p k) c' -> sruns (u, SRun p k) c'.

  Lemma sruns_trans a b c : sruns a b -> sruns b c -> sruns a c.
  Proof. induction 1; auto. intros. apply sr_step. auto. Qed.
  Lemma sruns_one u p k : sruns (u, SRun p k) (sstep u p k).
  Proof. apply sr_step, sr_refl. Qed.

  (* the thread is about to process `a` and at least SETTLE - d steps of the return chain remain *)
  Definition At (d : nat) (u : upper) (a : act) (c : CF) : Prop :=
    exists n, (SETTLE <= n + d)%nat /\ c = (u, settle n u a).

  Lemma At_0 u a : At 0 u a (u, settle SETTLE u a).
  Proof. exists SETTLE. split; [lia | reflexivity]. Qed.
  Lemma At_mono d d' u a c : At d u a c -> (d <= d')%nat -> At d' u a c.
  Proof. intros (n & Hn & E) H. exists n. split; [lia | exact E]. Qed.
  Lemma At_do d u p k c : At d u (ADo p k) c -> c = (u, SRun p k).
  Proof. intros (n & _ & E). rewrite E. destruct n; reflexivity. Qed.
  Lemma At_panic d u s c : At d u (APanic s) c -> c = (u, SCrash s).
  Proof. intros (n & _ & E). rewrite E. destruct n; reflexivity. Qed.
  Lemma At_ret d u v f k c : At d u (ARet v (f :: k)) c -> (d < SETTLE)%nat -> At (S d) u (resume u v f k) c.
  Proof.
    intros (n & Hn & E) Hd. destruct n as [|n]; [lia|]. exists n. split; [lia|]. rewrite E. reflexivity.
  Qed.
  Lemma At_done d u r c : At d u (ARet (VR r) []) c ->
    c = (u, match r with Panic s => SCrash s | _ => SDone r end).
  Proof. intros (n & _ & E). rewrite E. destruct n, r; reflexivity. Qed.

  Definition Lands (d : nat) (k : list kframe) (o : out) (u' : upper) (c' : CF) : Prop :=
    match o with
    | ORet v => At d u' (ARet v k) c'
    | OPanic s => exists u'', c' = (u'', SCrash s)
    end.

  (* ---------- the embedded lower call = the big-step lower model (SoloRun.v) ---------- *)
  Hypothesis WF : wf_geom g.

  Definition low_out (r : res N) : out :=
    match r with Ok f => ORet (VL (Ok f)) | Err e => ORet (VL (Err e)) | Panic x => OPanic x end.

  Lemma m1_view_mk u th : m1_view u th = mk (low u) [th] [].
  Proof. reflexivity. Qed.

  Lemma lower_of_mk l P H : lower_of (mk l P H) = l.
  Proof. destruct l; reflexivity. Qed.

  Lemma runs_settled t c0 s s' : runs g t c0 s s' ->
    (forall c p, nth_error (ms_pool s) t <> Some (TRun c p)) -> s' = s.
  Proof. intros R Hn. inversion R; subst; [reflexivity|]. exfalso. eapply Hn; eassumption. Qed.

  Lemma runs_sruns c k rl s s' : runs g 0 c s s' -> Post [TIdle None] 0 c [] rl s' ->
    forall u pc, s = mk (low u) [TRun c pc] [] ->
    exists c', sruns (u, SRun (PLow (TRun c pc)) k) c' /\ Lands 0 k (low_out (fst rl)) (with_low u (snd rl)) c'.
  Proof.
    induction 1 as [s|s c1 p1 s' E R IH]; intros HP u pc ->.
    - exfalso. unfold Post in HP. destruct (fst rl); try discriminate HP.
    - cbn [mk ms_pool nth_error] in E. injection E as <- <-.
      assert (Est : sstep u (PLow (TRun c pc)) k =
                    (let ms1 := fst (mstep g (mk (low u) [TRun c pc] []) 0 c) in
                     let u1 := with_low u (lower_of ms1) in
                     (u1, match nth_error (ms_pool ms1) 0 with
                          | Some (TRun c' p') => SRun (PLow (TRun c' p')) k
                          | Some (TIdle (Some (Ok x))) => settle SETTLE u1 (ARet (VL (Ok x)) k)
                          | Some (TIdle (Some (Err e))) => settle SETTLE u1 (ARet (VL (Err e)) k)
                          | Some (TIdle (Some (Panic x))) => SCrash x
                          | Some (TPanic x _) => SCrash x
                          | _ => SCrash (SArith 95)
                          end))).
      { unfold sstep. cbn [UpperMachine.prim_step]. rewrite m1_view_mk.
        destruct (mstep g (mk (low u) [TRun c pc] []) 0 c) as [ms1 ev]. cbn [fst].
        destruct (nth_error (ms_pool ms1) 0) as [[[[x|e|x]|]|c' p'|x c']|]; reflexivity. }
      set (ms1 := fst (mstep g (mk (low u) [TRun c pc] []) 0 c)) in *.
      destruct (nth_error (ms_pool ms1) 0) as [[r|c' p'|x c']|] eqn:En.
      + (* the lower call is over *)
        assert (Es : s' = ms1).
        { apply (runs_settled 0 c _ _ R). intros c2 p2. rewrite En. discriminate. }
        subst s'. unfold Post in HP.
        eexists. split; [apply sr_step; rewrite Est; apply sr_refl|]. cbv zeta. fold ms1. rewrite En.
        destruct (fst rl) as [f|e|x] eqn:Er.
        * rewrite HP in En. cbn in En. injection En as <-.
          rewrite HP. unfold fin, st. rewrite lower_of_mk. cbn [low_out Lands]. apply At_0.
        * rewrite HP in En. cbn in En. injection En as <-.
          rewrite HP. unfold fin, st. rewrite lower_of_mk. cbn [low_out Lands]. apply At_0.
        * rewrite HP in En. cbn in En. discriminate En.
      + destruct (mstep_view g (low u) c pc c' p' En) as [Ev ->].
        fold ms1 in Ev.
        destruct (IH HP (with_low u (lower_of ms1)) p') as (c2 & R2 & L2).
        { rewrite Ev at 1. reflexivity. }
        exists c2. split; [|exact L2].
        apply sr_step. rewrite Est. cbv zeta. fold ms1. rewrite En. exact R2.
      + assert (Es : s' = ms1).
        { apply (runs_settled 0 c _ _ R). intros c2 p2. rewrite En. discriminate. }
        subst s'. unfold Post in HP.
        eexists. split; [apply sr_step; rewrite Est; apply sr_refl|]. cbv zeta. fold ms1. rewrite En.
        destruct (fst rl) as [f|e|x'] eqn:Er.
        * rewrite HP in En. cbn in En. discriminate En.
        * rewrite HP in En. cbn in En. discriminate En.
        * rewrite HP in En. cbn in En. injection En as <- _. cbn [low_out Lands]. eexists. reflexivity.
      + exfalso.
        assert (Es : s' = ms1).
        { apply (runs_settled 0 c _ _ R). intros c2 p2. rewrite En. discriminate. }
        subst s'. unfold Post in HP.
        destruct (fst rl); rewrite HP in En; cbn in En; discriminate En.
  Qed.

  (* entering a lower call whose parameters the upper layer guarantees *)
  Lemma low_sim u c k d cf : Shape g (low u) -> call_ok g (mk (low u) [TIdle None] []) c = true ->
    At d u (enter_low g c k) cf ->
    exists c', sruns cf c' /\ Lands 0 k (low_out (fst (big g (low u) c))) (with_low u (snd (big g (low u) c))) c'.
  Proof.
    intros Sh Hok HA. unfold enter_low in HA. apply At_do in HA. subst cf.
    destruct (call_entry g WF [TIdle None] 0 ltac:(cbn; lia) c (low u) [] c Sh Hok) as (s' & R & Q).
    eapply runs_sruns; [exact R | exact Q | reflexivity].
  Qed.

  (* ---------- the primitives when nobody interferes ---------- *)

  (* fetch_free: the loads of the huge entries j.. of tree i, sum so far a *)
  Fixpoint ptf_loop (u : upper) (i j a : N) (n : nat) : option N :=
    match n with
    | O => None
    | S n' =>
        match nth_error (ents (low u)) (nn (i * THUGE g + j)) with
        | None => None
        | Some e => if j + 1 <? THUGE g then ptf_loop u i (j + 1) (a + e_free e) n' else Some (a + e_free e)
        end
    end.

  (* the configuration after the closure was evaluated on the value `cur` just read *)
  Definition eval_cf (u : upper) (i : N) (f : tfun) (cur : tree) (fetch : N) (k : list kframe) : CF :=
    (u, match tf_apply g policy (dflt u) f cur fetch with
        | None => settle SETTLE u (ARet (VT false cur cur) k)
        | Some (Ok new) => SRun (PTC i f cur new) k
        | Some (Panic s) => SCrash s
        | Some (Err _) => SCrash (SArith 96)
        end).

  Lemma ptf_run u i f cur k n : forall j a, (nn j + S n = nn (THUGE g))%nat ->
    exists c', sruns (u, SRun (PTF i f cur j a) k) c' /\
      match ptf_loop u i j a (S n) with
      | None => c' = (u, SCrash (SIndex 36))
      | Some fetch => c' = eval_cf u i f cur fetch k
      end.
  Proof.
    induction n as [|n IH]; intros j a Hn.
    - cbn [ptf_loop]. eexists. split; [apply sruns_one|].
      unfold sstep. cbn [UpperMachine.prim_step].
      destruct (nth_error (ents (low u)) (nn (i * THUGE g + j))) as [e|]; [|reflexivity].
      replace (j + 1 <? THUGE g) with false by (symmetry; apply N.ltb_ge; unfold nn in Hn; lia).
      unfold tu_eval_fetched, eval_cf.
      destruct (tf_apply g policy (dflt u) f cur (a + e_free e)) as [[new|e'|x]|]; reflexivity.
    - remember (S n) as m. cbn [ptf_loop].
      destruct (nth_error (ents (low u)) (nn (i * THUGE g + j))) as [e|] eqn:Ee.
      + replace (j + 1 <? THUGE g) with true by (symmetry; apply N.ltb_lt; unfold nn in Hn; lia).
        destruct (IH (j + 1) (a + e_free e)) as (c' & R & Q); [unfold nn in *; lia|].
        exists c'. split; [|subst m; exact Q].
        apply sr_step. unfold sstep. cbn [UpperMachine.prim_step]. rewrite Ee.
        replace (j + 1 <? THUGE g) with true by (symmetry; apply N.ltb_lt; unfold nn in Hn; lia).
        exact R.
      + eexists. split; [apply sruns_one|]. unfold sstep. cbn [UpperMachine.prim_step]. rewrite Ee. reflexivity.
  Qed.

  Definition fetch_of (u : upper) (i : N) (f : tfun) (t : tree) : option N :=
    if needs_fetch f t then ptf_loop u i 0 0 (thuge_nat g) else Some 0.

  (* `entries[i].try_update(f)` / `.update(f)` alone: one load (+ fetch_free), one compare-exchange *)
  Lemma tu_sim u i f k d cf : At d u (enter_tu u i f k) cf ->
    exists c', sruns cf c' /\
      match tree_at u i with
      | None => c' = (u, SCrash (SIndex (tf_site f)))
      | Some t =>
          match fetch_of u i f t with
          | None => c' = (u, SCrash (SIndex 36))
          | Some fetch =>
              match tf_apply g policy (dflt u) f t fetch with
              | None => At 0 u (ARet (VT false t t) k) c'
              | Some (Ok new) => At 0 (set_tree u i new) (ARet (VT true t new) k) c'
              | Some (Panic s) => c' = (u, SCrash s)
              | Some (Err _) => c' = (u, SCrash (SArith 96))
              end
          end
      end.
  Proof.
    intros HA. unfold enter_tu in HA.
    destruct (tree_at u i) as [t|] eqn:Et.
    2: { replace (tree_ok u i) with false in HA.
         - apply At_panic in HA. subst cf. eexists. split; [apply sr_refl | reflexivity].
         - symmetry. apply Bool.not_true_iff_false. intros H. apply tree_ok_at in H. contradiction. }
    replace (tree_ok u i) with true in HA by (symmetry; apply tree_ok_at; rewrite Et; discriminate).
    apply At_do in HA. subst cf.
    (* after the closure is evaluated *)
    assert (Hcas : forall fetch, exists c', sruns (eval_cf u i f t fetch k) c' /\
              match tf_apply g policy (dflt u) f t fetch with
              | None => At 0 u (ARet (VT false t t) k) c'
              | Some (Ok new) => At 0 (set_tree u i new) (ARet (VT true t new) k) c'
              | Some (Panic s) => c' = (u, SCrash s)
              | Some (Err _) => c' = (u, SCrash (SArith 96))
              end).
    { intros fetch. unfold eval_cf.
      destruct (tf_apply g policy (dflt u) f t fetch) as [[new|e'|x]|].
      - eexists. split; [apply sruns_one|]. unfold sstep. cbn [UpperMachine.prim_step].
        rewrite Et, tree_eqb_refl. apply At_0.
      - eexists. split; [apply sr_refl | reflexivity].
      - eexists. split; [apply sr_refl | reflexivity].
      - eexists. split; [apply sr_refl | apply At_0]. }
    unfold fetch_of. destruct (needs_fetch f t) eqn:Enf.
    - pose proof (sr_THUGE_nat g) as HTn. pose proof (sr_THUGE_pos g) as HTp.
      destruct (thuge_nat g) as [|n] eqn:En; [lia|].
      destruct (ptf_run u i f t k n 0 0) as (c1 & R1 & Q1); [unfold nn; lia|].
      destruct (ptf_loop u i 0 0 (S n)) as [fetch|].
      + destruct (Hcas fetch) as (c2 & R2 & Q2). exists c2. split; [|exact Q2].
        apply sr_step. unfold sstep. cbn [UpperMachine.prim_step]. rewrite Et. unfold tu_eval. rewrite Enf.
        subst c1. eapply sruns_trans; [exact R1 | exact R2].
      + exists c1. split; [|exact Q1].
        apply sr_step. unfold sstep. cbn [UpperMachine.prim_step]. rewrite Et. unfold tu_eval. rewrite Enf. exact R1.
    - destruct (Hcas 0) as (c2 & R2 & Q2). exists c2. split; [|exact Q2].
      apply sr_step. unfold sstep. cbn [UpperMachine.prim_step]. rewrite Et. unfold tu_eval. rewrite Enf.
      unfold eval_cf in R2.
      destruct (tf_apply g policy (dflt u) f t 0) as [[new|e'|x]|]; exact R2.
  Qed.

  (* slot try_update alone *)
  Lemma su_sim u c idx f k d cf : At d u (ADo (PSL c idx f) k) cf ->
    exists c', sruns cf c' /\
      match slot_at u c idx with
      | None => c' = (u, SCrash (SIndex 40))
      | Some s =>
          match sf_apply g f s with
          | None => At 0 u (ARet (VS false s s) k) c'
          | Some (Ok new) => At 0 (set_slot u c idx new) (ARet (VS true s new) k) c'
          | Some (Panic x) => c' = (u, SCrash x)
          | Some (Err _) => c' = (u, SCrash (SArith 96))
          end
      end.
  Proof.
    intros HA. apply At_do in HA. subst cf.
    destruct (slot_at u c idx) as [s|] eqn:Es.
    2: { eexists. split; [apply sruns_one|]. unfold sstep. cbn [UpperMachine.prim_step]. rewrite Es. reflexivity. }
    destruct (sf_apply g f s) as [[new|e'|x]|] eqn:Ef.
    - eexists. split.
      + apply sr_step. unfold sstep. cbn [UpperMachine.prim_step]. rewrite Es. unfold su_eval. rewrite Ef.
        apply sruns_one.
      + unfold sstep. cbn [UpperMachine.prim_step]. rewrite Es, slot_eqb_refl. apply At_0.
    - eexists. split; [apply sruns_one|]. unfold sstep. cbn [UpperMachine.prim_step]. rewrite Es. unfold su_eval. rewrite Ef. reflexivity.
    - eexists. split; [apply sruns_one|]. unfold sstep. cbn [UpperMachine.prim_step]. rewrite Es. unfold su_eval. rewrite Ef. reflexivity.
    - eexists. split; [apply sruns_one|]. unfold sstep. cbn [UpperMachine.prim_step]. rewrite Es. unfold su_eval. rewrite Ef. apply At_0.
  Qed.

  Lemma sw_sim u c idx new k d cf : At d u (ADo (PSW c idx new) k) cf ->
    exists c', sruns cf c' /\
      match slot_at u c idx with
      | None => c' = (u, SCrash (SIndex 42))
      | Some s => At 0 (set_slot u c idx new) (ARet (VS true s new) k) c'
      end.
  Proof.
    intros HA. apply At_do in HA. subst cf.
    eexists. split; [apply sruns_one|]. unfold sstep. cbn [UpperMachine.prim_step].
    destruct (slot_at u c idx) as [s|]; [apply At_0 | reflexivity].
  Qed.

  Lemma ld_sim u i k d cf : At d u (ADo (PLd i) k) cf ->
    exists c', sruns cf c' /\
      match tree_at u i with
      | None => c' = (u, SCrash (SIndex 35))
      | Some t => At 0 u (ARet (VT true t t) k) c'
      end.
  Proof.
    intros HA. apply At_do in HA. subst cf.
    eexists. split; [apply sruns_one|]. unfold sstep. cbn [UpperMachine.prim_step].
    destruct (tree_at u i) as [t|]; [apply At_0 | reflexivity].
  Qed.
End ThreadMachine.

(* ---------- from the thread-level machine to `ustep` ---------- *)
Fixpoint usolo_fuel (g : geom) (policy : N -> N -> N -> pol) (n : nat) (s : m2state) (t : nat) (c : ucall) : m2state :=
  match n with
  | O => s
  | S n' => let s' := fst (ustep g policy s t c) in
            match nth_error (m2_pool s') t with
            | Some (URun _ _ _) => usolo_fuel g policy n' s' t c
            | _ => s'
            end
  end.

Definition is_final (x : UpperMachine.settled) : bool := match x with SRun _ _ => false | _ => true end.

Section Glue.
  Variable g : geom.
  Variable policy : N -> N -> N -> pol.
  Variable P : list uthr.
  Variable t : nat.
  Variable c : ucall.
  Hypothesis Ht : (t < length P)%nat.

  (* memory u, thread t as described by x, ghost H *)
  Definition ust (u : upper) (H : list (N * nat)) (x : UpperMachine.settled) : m2state :=
    apply_settled {| m2_up := u; m2_pool := P; m2_held := H |} t c x.

  Lemma apply_settled_base u H a x :
    apply_settled {| m2_up := u; m2_pool := upd P t a; m2_held := H |} t c x = ust u H x.
  Proof.
    unfold ust. destruct x as [p k|r|x]; cbn [apply_settled].
    - unfold set_uthr. cbn [m2_up m2_pool m2_held]. rewrite sr_upd_upd. reflexivity.
    - unfold ufinish, set_uthr, with_held. cbn [m2_up m2_pool m2_held]. rewrite sr_upd_upd. reflexivity.
    - unfold set_uthr. cbn [m2_up m2_pool m2_held]. rewrite sr_upd_upd. reflexivity.
  Qed.

  Lemma ust_thread u H x : nth_error (m2_pool (ust u H x)) t =
    Some (match x with SRun p k => URun c p k | SDone r => UIdle (Some r) | SCrash y => UPanic y c end).
  Proof.
    unfold ust. destruct x as [p k|r|x]; cbn [apply_settled].
    - apply nth_error_upd_same. exact Ht.
    - unfold ufinish. destruct c, r as [[? ?]| |]; cbn [set_uthr with_held m2_pool]; apply nth_error_upd_same; exact Ht.
    - apply nth_error_upd_same. exact Ht.
  Qed.

  Lemma ustep_ust u H p k c0 :
    fst (ustep g policy (ust u H (SRun p k)) t c0) = ust (fst (sstep g policy u p k)) H (snd (sstep g policy u p k)).
  Proof.
    unfold ustep. rewrite ust_thread. unfold sstep. cbn [ust apply_settled set_uthr m2_up m2_pool m2_held].
    destruct (prim_step g policy u p) as [[u' ev] o]. cbn [fst snd].
    destruct o as [p'|v|x]; unfold with_up; cbn [m2_up m2_pool m2_held].
    - unfold set_uthr. cbn [m2_up m2_pool m2_held]. rewrite sr_upd_upd. reflexivity.
    - apply apply_settled_base.
    - unfold set_uthr. cbn [m2_up m2_pool m2_held]. rewrite sr_upd_upd. reflexivity.
  Qed.

  Lemma sruns_final cf cf' : sruns g policy cf cf' -> is_final (snd cf) = true -> cf' = cf.
  Proof. intros R H. inversion R; subst; [reflexivity|]. discriminate H. Qed.

  Lemma sruns_fuel H cf cf' : sruns g policy cf cf' -> is_final (snd cf') = true -> is_final (snd cf) = false ->
    exists n, usolo_fuel g policy n (ust (fst cf) H (snd cf)) t c = ust (fst cf') H (snd cf').
  Proof.
    induction 1 as [cf|u p k cf' R IH]; intros Hf Hr.
    - rewrite Hf in Hr. discriminate.
    - cbn [fst snd]. destruct (is_final (snd (sstep g policy u p k))) eqn:Es.
      + pose proof (sruns_final _ _ R Es) as ->.
        exists 1%nat. cbn [usolo_fuel]. rewrite ustep_ust, ust_thread.
        destruct (snd (sstep g policy u p k)); [discriminate Es | reflexivity | reflexivity].
      + destruct (IH Hf eq_refl) as (n & Hn). exists (S n). cbn [usolo_fuel]. rewrite ustep_ust, ust_thread.
        destruct (snd (sstep g policy u p k)) eqn:E2; [|discriminate Es|discriminate Es].
        exact Hn.
  Qed.
End Glue.

(* ---------- reaching a configuration with a property ---------- *)
Definition res_ok {A} (r : res A) : bool := match r with Panic _ => false | _ => true end.
Definition Crashed (s : site) (c' : CF) : Prop := exists u'', c' = (u'', SCrash s).

Section Reach.
  Variable g : geom.
  Variable policy : N -> N -> N -> pol.
  Definition Reach (cf : CF) (Q : CF -> Prop) : Prop := exists c', sruns g policy cf c' /\ Q c'.
  Lemma Reach_trans cf c1 Q : sruns g policy cf c1 -> Reach c1 Q -> Reach cf Q.
  Proof. intros R (c' & R' & H). exists c'. split; [eapply sruns_trans; eassumption | exact H]. Qed.
  Lemma Reach_here cf (Q : CF -> Prop) : Q cf -> Reach cf Q.
  Proof. intros H. exists cf. split; [apply sr_refl | exact H]. Qed.
  Lemma Reach_weaken cf (Q Q' : CF -> Prop) : Reach cf Q -> (forall c, Q c -> Q' c) -> Reach cf Q'.
  Proof. intros (c' & R & H) HQ. exists c'. split; [exact R | apply HQ, H]. Qed.
  Lemma Reach_bind cf (Q Q' : CF -> Prop) : Reach cf Q -> (forall c, Q c -> Reach c Q') -> Reach cf Q'.
  Proof. intros (c' & R & H) HQ. eapply Reach_trans; [exact R | apply HQ, H]. Qed.
End Reach.
