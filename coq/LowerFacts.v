(* The interface of the lower allocator that the upper-allocator proofs rely on, as one record of
   propositions (a definition, not an assumption): `lower_facts g` is PROVED in LowerFactsProofs.v from
   LowerGetProofs / LowerPutProofs, and the upper proofs take a proof of it as an argument. *)
From LLF Require Import Base Row Bitfield Lower Spec.

Section LowerFacts.
  Variable g : geom.
  Notation TF := (TF g).

  (* number of free frames of tree t according to the ownership state *)
  Definition spec_tree_free (s : ospec) (t : N) : N :=
    let lo := t * TF in
    let hi := N.min (o_frames s) (lo + TF) in
    (hi - lo) - popcount (N.land (o_alloc s) (blk lo (hi - lo))).

  Definition delta (t t' n : N) : N := if t =? t' then n else 0.

  Record lower_facts : Prop := {
    (* accounting: the per-tree counter sum equals the number of free frames of the tree *)
    lf_tree_free : forall l t, LowerInv g l -> t < ntab g (frames l) ->
        tree_free g l t = spec_tree_free (abs g l) t /\ tree_free g l t <= TF;
    (* directed search in the tree of row `start` *)
    lf_get : forall l start k r l', LowerInv g l -> (k <= tord g)%nat ->
        (start * 64) / TF < ntab g (frames l) ->
        lower_get g l start k = (r, l') ->
        match r with
        | Ok f => f / TF = (start * 64) / TF /\
                  spec_get_enabled (abs g l) f k = true /\
                  abs g l' = spec_get g (abs g l) f k /\ LowerInv g l' /\ frames l' = frames l /\
                  (forall t, tree_free g l' t + delta t (f / TF) (pow2 k) = tree_free g l t)
        | Err e => e = EMemory /\ l' = l /\
                   (forall f, f / TF = (start * 64) / TF -> spec_get_enabled (abs g l) f k = false)
        | Panic _ => False
        end;
    (* allocation of a specific block *)
    lf_get_at : forall l f k r l', LowerInv g l -> (k <= tord g)%nat ->
        aligned f k = true -> f + pow2 k <= frames l ->
        lower_get_at g l f k = (r, l') ->
        match r with
        | Ok _ => spec_get_enabled (abs g l) f k = true /\
                  abs g l' = spec_get g (abs g l) f k /\ LowerInv g l' /\ frames l' = frames l /\
                  (forall t, tree_free g l' t + delta t (f / TF) (pow2 k) = tree_free g l t)
        | Err e => e = EMemory /\ l' = l /\ spec_get_enabled (abs g l) f k = false
        | Panic _ => False
        end;
    (* free *)
    lf_put : forall l f k r l', LowerInv g l -> (k <= tord g)%nat ->
        aligned f k = true -> f + pow2 k <= frames l ->
        lower_put g l f k = (r, l') ->
        match r with
        | Ok _ => spec_put_enabled g (abs g l) f k = true /\
                  abs g l' = spec_put g (abs g l) f k /\ LowerInv g l' /\ frames l' = frames l /\
                  (forall t, tree_free g l' t = tree_free g l t + delta t (f / TF) (pow2 k))
        | Err e => e = EMemory /\ l' = l /\ spec_put_enabled g (abs g l) f k = false
        | Panic _ => False
        end;
    (* queries *)
    lf_stats_at_tree : forall l t, LowerInv g l -> t < ntab g (frames l) ->
        exists s, lower_stats_at g l (t * TF) (tord g) = Ok s /\ free_frames s = tree_free g l t
  }.
End LowerFacts.
