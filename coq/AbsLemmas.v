(* Shared lemmas about the geometry, bitsets, the abstraction function `abs` (pointwise reading),
   `cas_all`, and the invariant `LowerInv` (boolean checker soundness, update plumbing).
   Used by the get-side (LowerGetProofs.v) and the put/init-side proofs. *)
From Coq Require Import PeanoNat.
From LLF Require Import Base BitLemmas Row RowProofs Bitfield Lower Spec.
Local Open Scope N_scope.

(* ====================================================================== *)
(* geometry                                                               *)
(* ====================================================================== *)
Lemma pow2_pos k : 0 < pow2 k.
Proof. unfold pow2. apply N.neq_0_lt_0, N.pow_nonzero. discriminate. Qed.

Lemma pow2_nz k : pow2 k <> 0.
Proof. pose proof (pow2_pos k). lia. Qed.

Lemma pow2_0 : pow2 0 = 1.
Proof. reflexivity. Qed.

Lemma pow2_S k : pow2 (S k) = 2 * pow2 k.
Proof. unfold pow2. rewrite Nat2N.inj_succ, N.pow_succ_r'. reflexivity. Qed.

Lemma pow2_add a b : pow2 (a + b) = pow2 a * pow2 b.
Proof. unfold pow2. rewrite Nat2N.inj_add, N.pow_add_r. reflexivity. Qed.

Lemma pow2_le a b : (a <= b)%nat -> pow2 a <= pow2 b.
Proof. intros H. unfold pow2. apply N.pow_le_mono_r; lia. Qed.

Lemma pow2_lt a b : (a < b)%nat -> pow2 a < pow2 b.
Proof. intros H. unfold pow2. apply N.pow_lt_mono_r; lia. Qed.

Lemma pow2_split a b : (a <= b)%nat -> pow2 b = pow2 (b - a) * pow2 a.
Proof. intros H. rewrite <- pow2_add. f_equal. lia. Qed.

Lemma pow2_mod a b : (a <= b)%nat -> pow2 b mod pow2 a = 0.
Proof. intros H. rewrite (pow2_split a b H). apply N.mod_mul, pow2_nz. Qed.

Lemma pow2_of_nat k : pow2 k = N.of_nat (Nat.pow 2 k).
Proof. unfold pow2. rewrite Nat2N.inj_pow. reflexivity. Qed.

Lemma HF_pow2 g : HF g = pow2 (hord g).
Proof. reflexivity. Qed.

Lemma THUGE_pow2 g : THUGE g = pow2 (tlog g).
Proof. reflexivity. Qed.

Lemma TF_eq g : TF g = THUGE g * HF g.
Proof. reflexivity. Qed.

Lemma TF_pow2 g : TF g = pow2 (tord g).
Proof. unfold TF, tord. rewrite THUGE_pow2, HF_pow2, N.mul_comm, pow2_add. reflexivity. Qed.

Lemma HF_pos g : 0 < HF g.
Proof. rewrite HF_pow2. apply pow2_pos. Qed.

Lemma THUGE_pos g : 0 < THUGE g.
Proof. rewrite THUGE_pow2. apply pow2_pos. Qed.

Lemma TF_pos g : 0 < TF g.
Proof. rewrite TF_pow2. apply pow2_pos. Qed.

Lemma HF_nz g : HF g <> 0.
Proof. pose proof (HF_pos g). lia. Qed.

Lemma THUGE_nz g : THUGE g <> 0.
Proof. pose proof (THUGE_pos g). lia. Qed.

Lemma TF_nz g : TF g <> 0.
Proof. pose proof (TF_pos g). lia. Qed.

Lemma HF_64 g : wf_geom g -> HF g = 64 * ROWS g.
Proof.
  intros (H6 & _). unfold ROWS. rewrite HF_pow2, (pow2_split 6 (hord g) H6).
  change (pow2 6) with 64. rewrite N.div_mul by discriminate. lia.
Qed.

Lemma ROWS_pow2 g : wf_geom g -> ROWS g = pow2 (hord g - 6).
Proof.
  intros (H6 & _). unfold ROWS. rewrite HF_pow2, (pow2_split 6 (hord g) H6).
  change (pow2 6) with 64. apply N.div_mul. discriminate.
Qed.

Lemma ROWS_nat g : wf_geom g -> ROWS g = N.of_nat (rows_nat g).
Proof. intros H. rewrite (ROWS_pow2 g H). apply pow2_of_nat. Qed.

Lemma ROWS_pos g : wf_geom g -> 0 < ROWS g.
Proof. intros H. rewrite (ROWS_pow2 g H). apply pow2_pos. Qed.

Lemma THUGE_nat g : THUGE g = N.of_nat (thuge_nat g).
Proof. rewrite THUGE_pow2. apply pow2_of_nat. Qed.

Lemma HF_le_max g : wf_geom g -> HF g <= 32768.
Proof. intros (_ & H15 & _). rewrite HF_pow2. change 32768 with (pow2 15). apply pow2_le. exact H15. Qed.

Lemma HF_lt_MARK g : wf_geom g -> HF g < MARK.
Proof. intros H. pose proof (HF_le_max g H). unfold MARK. lia. Qed.

Lemma HF_ge_64 g : wf_geom g -> 64 <= HF g.
Proof. intros (H6 & _). rewrite HF_pow2. change 64 with (pow2 6). apply pow2_le. exact H6. Qed.

Lemma pow2_le_HF g k : (k <= hord g)%nat -> pow2 k <= HF g.
Proof. intros H. rewrite HF_pow2. apply pow2_le. exact H. Qed.

Lemma pow2_lt_HF g k : (k < hord g)%nat -> pow2 k < HF g.
Proof. intros H. rewrite HF_pow2. apply pow2_lt. exact H. Qed.

Lemma pow2_le_TF g k : (k <= tord g)%nat -> pow2 k <= TF g.
Proof. intros H. rewrite TF_pow2. apply pow2_le. exact H. Qed.

Lemma HF_mod_pow2 g k : (k <= hord g)%nat -> HF g mod pow2 k = 0.
Proof. intros H. rewrite HF_pow2. apply pow2_mod. exact H. Qed.

(* a block of order k <= hord that starts aligned inside huge frame f / HF stays inside it *)
Lemma aligned_mul a b : b <> 0 -> a mod b = 0 -> a = (a / b) * b.
Proof. intros Hb H. pose proof (N.div_mod a b Hb). lia. Qed.

Lemma aligned_mod_HF g f k : (k <= hord g)%nat -> f mod pow2 k = 0 -> (f mod HF g) mod pow2 k = 0.
Proof.
  intros Hk Hf. rewrite HF_pow2, (pow2_split k (hord g) Hk), N.mul_comm.
  rewrite mod_mod_mul; [exact Hf|apply pow2_nz|apply pow2_nz].
Qed.

Lemma aligned_block_fits a n m : n <> 0 -> m mod n = 0 -> a mod n = 0 -> a < m -> a + n <= m.
Proof.
  intros Hn Hm Ha Hlt.
  rewrite (aligned_mul a n Hn Ha), (aligned_mul m n Hn Hm) in *.
  assert (a / n < m / n) by nia. nia.
Qed.

Lemma aligned_in_huge g f k : (k <= hord g)%nat -> f mod pow2 k = 0 -> f mod HF g + pow2 k <= HF g.
Proof.
  intros Hk Hf. apply aligned_block_fits.
  - apply pow2_nz.
  - apply HF_mod_pow2. exact Hk.
  - apply aligned_mod_HF; assumption.
  - apply N.mod_lt, HF_nz.
Qed.

(* ====================================================================== *)
(* bitsets                                                                *)
(* ====================================================================== *)
Lemma blk_testbit f n i : N.testbit (blk f n) i = (f <=? i) && (i <? f + n).
Proof.
  unfold blk, ones.
  destruct (N.leb_spec f i) as [H|H].
  - rewrite N.shiftl_spec_high' by assumption.
    destruct (N.ltb_spec i (f + n)).
    + rewrite N.ones_spec_low by lia. reflexivity.
    + rewrite N.ones_spec_high by lia. reflexivity.
  - rewrite N.shiftl_spec_low by assumption. reflexivity.
Qed.

Lemma blk_block_mask o p : block_mask o p = blk p (pow2 o).
Proof. reflexivity. Qed.

Lemma mask64_blk bits off : mask64 bits off = blk off bits.
Proof. reflexivity. Qed.

Lemma ldiff_blk_testbit a f n i :
  N.testbit (N.ldiff a (blk f n)) i = N.testbit a i && negb ((f <=? i) && (i <? f + n)).
Proof. rewrite N.ldiff_spec, blk_testbit. reflexivity. Qed.

Lemma lor_blk_testbit a f n i :
  N.testbit (N.lor a (blk f n)) i = N.testbit a i || ((f <=? i) && (i <? f + n)).
Proof. rewrite N.lor_spec, blk_testbit. reflexivity. Qed.

Lemma blk_lt f n m : f + n <= m -> blk f n < 2 ^ m.
Proof.
  intros H. apply lt_pow2_bits. intros i Hi. rewrite blk_testbit.
  destruct (N.ltb_spec i (f + n)); [lia|]. apply andb_false_r.
Qed.

Lemma popcount_blk f n : popcount (blk f n) = n.
Proof. unfold blk, ones. rewrite popcount_shiftl. apply popcount_ones. Qed.

(* land with a block is zero / the block iff all bits of the block are clear / set *)
Lemma land_blk_zero a f n :
  N.land a (blk f n) = 0 <-> (forall i, f <= i < f + n -> N.testbit a i = false).
Proof.
  split.
  - intros H i Hi.
    assert (T : N.testbit (N.land a (blk f n)) i = false) by (rewrite H; apply N.bits_0).
    rewrite N.land_spec, blk_testbit in T.
    destruct (N.leb_spec f i); [|lia]. destruct (N.ltb_spec i (f + n)); [|lia].
    rewrite andb_true_r in T. exact T.
  - intros H. apply N.bits_inj. intros i. rewrite N.bits_0, N.land_spec, blk_testbit.
    destruct (N.leb_spec f i); [|apply andb_false_r].
    destruct (N.ltb_spec i (f + n)); [|apply andb_false_r].
    rewrite H by lia. reflexivity.
Qed.

Lemma land_blk_full a f n :
  N.land a (blk f n) = blk f n <-> (forall i, f <= i < f + n -> N.testbit a i = true).
Proof.
  split.
  - intros H i Hi.
    assert (T : N.testbit (N.land a (blk f n)) i = N.testbit (blk f n) i) by (rewrite H; reflexivity).
    rewrite N.land_spec, blk_testbit in T.
    destruct (N.leb_spec f i); [|lia]. destruct (N.ltb_spec i (f + n)); [|lia].
    rewrite andb_true_r in T. exact T.
  - intros H. apply N.bits_inj. intros i. rewrite N.land_spec, blk_testbit.
    destruct (N.leb_spec f i); [|apply andb_false_r].
    destruct (N.ltb_spec i (f + n)); [|apply andb_false_r].
    rewrite H by lia. reflexivity.
Qed.

Lemma popcount_0_inv v : popcount v = 0 -> v = 0.
Proof.
  destruct v as [|p]; [reflexivity|]. cbn [popcount]. intros H. exfalso.
  induction p as [p IH|p IH|]; cbn [popcount_pos] in H; lia.
Qed.

Lemma popcount_lt_pow2 v n : v < 2 ^ n -> popcount v <= n.
Proof.
  intros Hv.
  assert (E : N.lor v (N.ldiff (N.ones n) v) = N.ones n).
  { apply N.bits_inj. intros i. rewrite N.lor_spec, N.ldiff_spec.
    destruct (N.lt_ge_cases i n) as [Hi|Hi].
    - rewrite N.ones_spec_low by assumption. destruct (N.testbit v i); reflexivity.
    - rewrite N.ones_spec_high by assumption. rewrite (testbit_high v n i) by assumption. reflexivity. }
  assert (D : N.land v (N.ldiff (N.ones n) v) = 0).
  { apply N.bits_inj. intros i. rewrite N.land_spec, N.ldiff_spec, N.bits_0.
    destruct (N.testbit v i); [|reflexivity]. rewrite andb_false_r. reflexivity. }
  pose proof (popcount_lor_disjoint _ _ D) as P. rewrite E, popcount_ones in P. lia.
Qed.

(* ====================================================================== *)
(* the specification, pointwise                                           *)
(* ====================================================================== *)
Lemma ospec_ext s1 s2 :
  o_frames s1 = o_frames s2 ->
  (forall i, N.testbit (o_alloc s1) i = N.testbit (o_alloc s2) i) ->
  (forall h, N.testbit (o_whole s1) h = N.testbit (o_whole s2) h) -> s1 = s2.
Proof.
  destruct s1, s2. cbn. intros -> Ha Hw.
  apply N.bits_inj in Ha. apply N.bits_inj in Hw. subst. reflexivity.
Qed.

Section SpecPointwise.
  Variable g : geom.

  Lemma spec_get_frames s f k : o_frames (spec_get g s f k) = o_frames s.
  Proof. reflexivity. Qed.
  Lemma spec_put_frames s f k : o_frames (spec_put g s f k) = o_frames s.
  Proof. reflexivity. Qed.

  Lemma spec_get_alloc_testbit s f k i :
    N.testbit (o_alloc (spec_get g s f k)) i = N.testbit (o_alloc s) i || ((f <=? i) && (i <? f + pow2 k)).
  Proof. unfold spec_get; cbn. apply lor_blk_testbit. Qed.

  Lemma spec_put_alloc_testbit s f k i :
    N.testbit (o_alloc (spec_put g s f k)) i = N.testbit (o_alloc s) i && negb ((f <=? i) && (i <? f + pow2 k)).
  Proof. unfold spec_put; cbn. apply ldiff_blk_testbit. Qed.

  Lemma spec_get_whole_testbit s f k h :
    N.testbit (o_whole (spec_get g s f k)) h =
    N.testbit (o_whole s) h || (Nat.leb (hord g) k && ((f / HF g <=? h) && (h <? f / HF g + pow2 (k - hord g)))).
  Proof.
    unfold spec_get; cbn. destruct (Nat.leb (hord g) k).
    - unfold hblk. rewrite lor_blk_testbit. reflexivity.
    - rewrite orb_false_r. reflexivity.
  Qed.

  Lemma spec_put_whole_testbit s f k h :
    N.testbit (o_whole (spec_put g s f k)) h =
    N.testbit (o_whole s) h &&
    negb (if Nat.leb (hord g) k then (f / HF g <=? h) && (h <? f / HF g + pow2 (k - hord g)) else h =? f / HF g).
  Proof.
    unfold spec_put; cbn. destruct (Nat.leb (hord g) k).
    - unfold hblk. apply ldiff_blk_testbit.
    - destruct (N.eqb_spec h (f / HF g)) as [->|Hn].
      + rewrite N.clearbit_eq. rewrite andb_false_r. reflexivity.
      + rewrite N.clearbit_neq by congruence. rewrite andb_true_r. reflexivity.
  Qed.

  Lemma all_free_spec s f k :
    all_free s f k = true <-> (forall i, f <= i < f + pow2 k -> N.testbit (o_alloc s) i = false).
  Proof. unfold all_free. rewrite N.eqb_eq. apply land_blk_zero. Qed.

  Lemma all_alloc_spec s f k :
    all_alloc s f k = true <-> (forall i, f <= i < f + pow2 k -> N.testbit (o_alloc s) i = true).
  Proof. unfold all_alloc. rewrite N.eqb_eq. apply land_blk_full. Qed.

  Lemma all_whole_spec s f k :
    all_whole g s f k = true <->
    (forall h, f / HF g <= h < f / HF g + pow2 (k - hord g) -> N.testbit (o_whole s) h = true).
  Proof. unfold all_whole, hblk. rewrite N.eqb_eq. apply land_blk_full. Qed.

  Lemma spec_get_enabled_spec s f k :
    spec_get_enabled s f k = true <->
    f mod pow2 k = 0 /\ f + pow2 k <= o_frames s /\
    (forall i, f <= i < f + pow2 k -> N.testbit (o_alloc s) i = false).
  Proof.
    unfold spec_get_enabled, aligned, in_range.
    rewrite !andb_true_iff, N.eqb_eq, N.leb_le, all_free_spec. tauto.
  Qed.
End SpecPointwise.
