(* Shared lemmas about the geometry, bitsets, the abstraction function `abs` (pointwise reading),
   `cas_all`, and the invariant `LowerInv` (boolean checker soundness, update plumbing).
   Used by the get-side (LowerGetProofs.v) and the put/init-side proofs. *)
From Coq Require Import PeanoNat.
From LLF Require Import Base BitLemmas Row RowProofs Bitfield Lower Spec.
Local Open Scope N_scope.

(* ====================================================================== *)
(* geometry                                                               *)
(* ====================================================================== *)
Lemma pow2_pos k : 0 < pow2 k.
Proof. unfold pow2. apply N.neq_0_lt_0, N.pow_nonzero. discriminate. Qed.

Lemma pow2_nz k : pow2 k <> 0.
Proof. pose proof (pow2_pos k). lia. Qed.

Lemma pow2_0 : pow2 0 = 1.
Proof. reflexivity. Qed.

Lemma pow2_S k : pow2 (S k) = 2 * pow2 k.
Proof. unfold pow2. rewrite Nat2N.inj_succ, N.pow_succ_r'. reflexivity. Qed.

Lemma pow2_add a b : pow2 (a + b) = pow2 a * pow2 b.
Proof. unfold pow2. rewrite Nat2N.inj_add, N.pow_add_r. reflexivity. Qed.

Lemma pow2_le a b : (a <= b)%nat -> pow2 a <= pow2 b.
Proof. intros H. unfold pow2. apply N.pow_le_mono_r; lia. Qed.

Lemma pow2_lt a b : (a < b)%nat -> pow2 a < pow2 b.
Proof. intros H. unfold pow2. apply N.pow_lt_mono_r; lia. Qed.

Lemma pow2_split a b : (a <= b)%nat -> pow2 b = pow2 (b - a) * pow2 a.
Proof. intros H. rewrite <- pow2_add. f_equal. lia. Qed.

Lemma pow2_mod a b : (a <= b)%nat -> pow2 b mod pow2 a = 0.
Proof. intros H. rewrite (pow2_split a b H). apply N.mod_mul, pow2_nz. Qed.

Lemma pow2_of_nat k : pow2 k = N.of_nat (Nat.pow 2 k).
Proof. unfold pow2. rewrite Nat2N.inj_pow. reflexivity. Qed.

Lemma HF_pow2 g : HF g = pow2 (hord g).
Proof. reflexivity. Qed.

Lemma THUGE_pow2 g : THUGE g = pow2 (tlog g).
Proof. reflexivity. Qed.

Lemma TF_eq g : TF g = THUGE g * HF g.
Proof. reflexivity. Qed.

Lemma TF_pow2 g : TF g = pow2 (tord g).
Proof. unfold TF, tord. rewrite THUGE_pow2, HF_pow2, N.mul_comm, pow2_add. reflexivity. Qed.

Lemma HF_pos g : 0 < HF g.
Proof. rewrite HF_pow2. apply pow2_pos. Qed.

Lemma THUGE_pos g : 0 < THUGE g.
Proof. rewrite THUGE_pow2. apply pow2_pos. Qed.

Lemma TF_pos g : 0 < TF g.
Proof. rewrite TF_pow2. apply pow2_pos. Qed.

Lemma HF_nz g : HF g <> 0.
Proof. pose proof (HF_pos g). lia. Qed.

Lemma THUGE_nz g : THUGE g <> 0.
Proof. pose proof (THUGE_pos g). lia. Qed.

Lemma TF_nz g : TF g <> 0.
Proof. pose proof (TF_pos g). lia. Qed.

Lemma HF_64 g : wf_geom g -> HF g = 64 * ROWS g.
Proof.
  intros (H6 & _). unfold ROWS. rewrite HF_pow2, (pow2_split 6 (hord g) H6).
  change (pow2 6) with 64. rewrite N.div_mul by discriminate. lia.
Qed.

Lemma ROWS_pow2 g : wf_geom g -> ROWS g = pow2 (hord g - 6).
Proof.
  intros (H6 & _). unfold ROWS. rewrite HF_pow2, (pow2_split 6 (hord g) H6).
  change (pow2 6) with 64. apply N.div_mul. discriminate.
Qed.

Lemma ROWS_nat g : wf_geom g -> ROWS g = N.of_nat (rows_nat g).
Proof. intros H. rewrite (ROWS_pow2 g H). apply pow2_of_nat. Qed.

Lemma ROWS_pos g : wf_geom g -> 0 < ROWS g.
Proof. intros H. rewrite (ROWS_pow2 g H). apply pow2_pos. Qed.

Lemma THUGE_nat g : THUGE g = N.of_nat (thuge_nat g).
Proof. rewrite THUGE_pow2. apply pow2_of_nat. Qed.

Lemma HF_le_max g : wf_geom g -> HF g <= 32768.
Proof. intros (_ & H15 & _). rewrite HF_pow2. change 32768 with (pow2 15). apply pow2_le. exact H15. Qed.

Lemma HF_lt_MARK g : wf_geom g -> HF g < MARK.
Proof. intros H. pose proof (HF_le_max g H). unfold MARK. lia. Qed.

Lemma HF_ge_64 g : wf_geom g -> 64 <= HF g.
Proof. intros (H6 & _). rewrite HF_pow2. change 64 with (pow2 6). apply pow2_le. exact H6. Qed.

Lemma pow2_le_HF g k : (k <= hord g)%nat -> pow2 k <= HF g.
Proof. intros H. rewrite HF_pow2. apply pow2_le. exact H. Qed.

Lemma pow2_lt_HF g k : (k < hord g)%nat -> pow2 k < HF g.
Proof. intros H. rewrite HF_pow2. apply pow2_lt. exact H. Qed.

Lemma pow2_le_TF g k : (k <= tord g)%nat -> pow2 k <= TF g.
Proof. intros H. rewrite TF_pow2. apply pow2_le. exact H. Qed.

Lemma HF_mod_pow2 g k : (k <= hord g)%nat -> HF g mod pow2 k = 0.
Proof. intros H. rewrite HF_pow2. apply pow2_mod. exact H. Qed.

(* a block of order k <= hord that starts aligned inside huge frame f / HF stays inside it *)
Lemma aligned_mul a b : b <> 0 -> a mod b = 0 -> a = (a / b) * b.
Proof. intros Hb H. pose proof (N.div_mod a b Hb). lia. Qed.

Lemma aligned_mod_HF g f k : (k <= hord g)%nat -> f mod pow2 k = 0 -> (f mod HF g) mod pow2 k = 0.
Proof.
  intros Hk Hf. rewrite HF_pow2, (pow2_split k (hord g) Hk), N.mul_comm.
  rewrite mod_mod_mul; [exact Hf|apply pow2_nz|apply pow2_nz].
Qed.

Lemma aligned_block_fits a n m : n <> 0 -> m mod n = 0 -> a mod n = 0 -> a < m -> a + n <= m.
Proof.
  intros Hn Hm Ha Hlt.
  rewrite (aligned_mul a n Hn Ha), (aligned_mul m n Hn Hm) in *.
  assert (a / n < m / n) by nia. nia.
Qed.

Lemma aligned_in_huge g f k : (k <= hord g)%nat -> f mod pow2 k = 0 -> f mod HF g + pow2 k <= HF g.
Proof.
  intros Hk Hf. apply aligned_block_fits.
  - apply pow2_nz.
  - apply HF_mod_pow2. exact Hk.
  - apply aligned_mod_HF; assumption.
  - apply N.mod_lt, HF_nz.
Qed.

(* ====================================================================== *)
(* bitsets                                                                *)
(* ====================================================================== *)
Lemma blk_testbit f n i : N.testbit (blk f n) i = (f <=? i) && (i <? f + n).
Proof.
  unfold blk, ones.
  destruct (N.leb_spec f i) as [H|H].
  - rewrite N.shiftl_spec_high' by assumption.
    destruct (N.ltb_spec i (f + n)).
    + rewrite N.ones_spec_low by lia. reflexivity.
    + rewrite N.ones_spec_high by lia. reflexivity.
  - rewrite N.shiftl_spec_low by assumption. reflexivity.
Qed.

Lemma blk_block_mask o p : block_mask o p = blk p (pow2 o).
Proof. reflexivity. Qed.

Lemma mask64_blk bits off : mask64 bits off = blk off bits.
Proof. reflexivity. Qed.

Lemma ldiff_blk_testbit a f n i :
  N.testbit (N.ldiff a (blk f n)) i = N.testbit a i && negb ((f <=? i) && (i <? f + n)).
Proof. rewrite N.ldiff_spec, blk_testbit. reflexivity. Qed.

Lemma lor_blk_testbit a f n i :
  N.testbit (N.lor a (blk f n)) i = N.testbit a i || ((f <=? i) && (i <? f + n)).
Proof. rewrite N.lor_spec, blk_testbit. reflexivity. Qed.

Lemma blk_lt f n m : f + n <= m -> blk f n < 2 ^ m.
Proof.
  intros H. apply lt_pow2_bits. intros i Hi. rewrite blk_testbit.
  destruct (N.ltb_spec i (f + n)); [lia|]. apply andb_false_r.
Qed.

Lemma popcount_blk f n : popcount (blk f n) = n.
Proof. unfold blk, ones. rewrite popcount_shiftl. apply popcount_ones. Qed.

(* land with a block is zero / the block iff all bits of the block are clear / set *)
Lemma land_blk_zero a f n :
  N.land a (blk f n) = 0 <-> (forall i, f <= i < f + n -> N.testbit a i = false).
Proof.
  split.
  - intros H i Hi.
    assert (T : N.testbit (N.land a (blk f n)) i = false) by (rewrite H; apply N.bits_0).
    rewrite N.land_spec, blk_testbit in T.
    destruct (N.leb_spec f i); [|lia]. destruct (N.ltb_spec i (f + n)); [|lia].
    rewrite andb_true_r in T. exact T.
  - intros H. apply N.bits_inj. intros i. rewrite N.bits_0, N.land_spec, blk_testbit.
    destruct (N.leb_spec f i); [|apply andb_false_r].
    destruct (N.ltb_spec i (f + n)); [|apply andb_false_r].
    rewrite H by lia. reflexivity.
Qed.

Lemma land_blk_full a f n :
  N.land a (blk f n) = blk f n <-> (forall i, f <= i < f + n -> N.testbit a i = true).
Proof.
  split.
  - intros H i Hi.
    assert (T : N.testbit (N.land a (blk f n)) i = N.testbit (blk f n) i) by (rewrite H; reflexivity).
    rewrite N.land_spec, blk_testbit in T.
    destruct (N.leb_spec f i); [|lia]. destruct (N.ltb_spec i (f + n)); [|lia].
    rewrite andb_true_r in T. exact T.
  - intros H. apply N.bits_inj. intros i. rewrite N.land_spec, blk_testbit.
    destruct (N.leb_spec f i); [|apply andb_false_r].
    destruct (N.ltb_spec i (f + n)); [|apply andb_false_r].
    rewrite H by lia. reflexivity.
Qed.

Lemma popcount_0_inv v : popcount v = 0 -> v = 0.
Proof.
  destruct v as [|p]; [reflexivity|]. cbn [popcount]. intros H. exfalso.
  induction p as [p IH|p IH|]; cbn [popcount_pos] in H; lia.
Qed.

Lemma popcount_lt_pow2 v n : v < 2 ^ n -> popcount v <= n.
Proof.
  intros Hv.
  assert (E : N.lor v (N.ldiff (N.ones n) v) = N.ones n).
  { apply N.bits_inj. intros i. rewrite N.lor_spec, N.ldiff_spec.
    destruct (N.lt_ge_cases i n) as [Hi|Hi].
    - rewrite N.ones_spec_low by assumption. destruct (N.testbit v i); reflexivity.
    - rewrite N.ones_spec_high by assumption. rewrite (testbit_high v n i) by assumption. reflexivity. }
  assert (D : N.land v (N.ldiff (N.ones n) v) = 0).
  { apply N.bits_inj. intros i. rewrite N.land_spec, N.ldiff_spec, N.bits_0.
    destruct (N.testbit v i); [|reflexivity]. rewrite andb_false_r. reflexivity. }
  pose proof (popcount_lor_disjoint _ _ D) as P. rewrite E, popcount_ones in P. lia.
Qed.

(* ====================================================================== *)
(* the specification, pointwise                                           *)
(* ====================================================================== *)
Lemma ospec_ext s1 s2 :
  o_frames s1 = o_frames s2 ->
  (forall i, N.testbit (o_alloc s1) i = N.testbit (o_alloc s2) i) ->
  (forall h, N.testbit (o_whole s1) h = N.testbit (o_whole s2) h) -> s1 = s2.
Proof.
  destruct s1, s2. cbn. intros -> Ha Hw.
  apply N.bits_inj in Ha. apply N.bits_inj in Hw. subst. reflexivity.
Qed.

Section SpecPointwise.
  Variable g : geom.

  Lemma spec_get_frames s f k : o_frames (spec_get g s f k) = o_frames s.
  Proof. reflexivity. Qed.
  Lemma spec_put_frames s f k : o_frames (spec_put g s f k) = o_frames s.
  Proof. reflexivity. Qed.

  Lemma spec_get_alloc_testbit s f k i :
    N.testbit (o_alloc (spec_get g s f k)) i = N.testbit (o_alloc s) i || ((f <=? i) && (i <? f + pow2 k)).
  Proof. unfold spec_get; cbn. apply lor_blk_testbit. Qed.

  Lemma spec_put_alloc_testbit s f k i :
    N.testbit (o_alloc (spec_put g s f k)) i = N.testbit (o_alloc s) i && negb ((f <=? i) && (i <? f + pow2 k)).
  Proof. unfold spec_put; cbn. apply ldiff_blk_testbit. Qed.

  Lemma spec_get_whole_testbit s f k h :
    N.testbit (o_whole (spec_get g s f k)) h =
    N.testbit (o_whole s) h || (Nat.leb (hord g) k && ((f / HF g <=? h) && (h <? f / HF g + pow2 (k - hord g)))).
  Proof.
    unfold spec_get; cbn. destruct (Nat.leb (hord g) k).
    - unfold hblk. rewrite lor_blk_testbit. reflexivity.
    - rewrite orb_false_r. reflexivity.
  Qed.

  Lemma spec_put_whole_testbit s f k h :
    N.testbit (o_whole (spec_put g s f k)) h =
    N.testbit (o_whole s) h &&
    negb (if Nat.leb (hord g) k then (f / HF g <=? h) && (h <? f / HF g + pow2 (k - hord g)) else h =? f / HF g).
  Proof.
    unfold spec_put; cbn. destruct (Nat.leb (hord g) k).
    - unfold hblk. apply ldiff_blk_testbit.
    - destruct (N.eqb_spec h (f / HF g)) as [->|Hn].
      + rewrite N.clearbit_eq. rewrite andb_false_r. reflexivity.
      + rewrite N.clearbit_neq by congruence. rewrite andb_true_r. reflexivity.
  Qed.

  Lemma all_free_spec s f k :
    all_free s f k = true <-> (forall i, f <= i < f + pow2 k -> N.testbit (o_alloc s) i = false).
  Proof. unfold all_free. rewrite N.eqb_eq. apply land_blk_zero. Qed.

  Lemma all_alloc_spec s f k :
    all_alloc s f k = true <-> (forall i, f <= i < f + pow2 k -> N.testbit (o_alloc s) i = true).
  Proof. unfold all_alloc. rewrite N.eqb_eq. apply land_blk_full. Qed.

  Lemma all_whole_spec s f k :
    all_whole g s f k = true <->
    (forall h, f / HF g <= h < f / HF g + pow2 (k - hord g) -> N.testbit (o_whole s) h = true).
  Proof. unfold all_whole, hblk. rewrite N.eqb_eq. apply land_blk_full. Qed.

  Lemma spec_get_enabled_spec s f k :
    spec_get_enabled s f k = true <->
    f mod pow2 k = 0 /\ f + pow2 k <= o_frames s /\
    (forall i, f <= i < f + pow2 k -> N.testbit (o_alloc s) i = false).
  Proof.
    unfold spec_get_enabled, aligned, in_range.
    rewrite !andb_true_iff, N.eqb_eq, N.leb_le, all_free_spec. tauto.
  Qed.
End SpecPointwise.

(* ====================================================================== *)
(* rows of a bitfield as one number                                       *)
(* ====================================================================== *)
Lemma nz64 : 64 <> 0. Proof. discriminate. Qed.

Lemma rows_bits_lt rows :
  Forall (fun r => r < W64) rows -> rows_bits rows < 2 ^ (64 * N.of_nat (length rows)).
Proof.
  induction 1 as [|r rest Hr _ IH]; cbn [rows_bits length].
  - apply N.neq_0_lt_0, N.pow_nonzero. discriminate.
  - apply lt_pow2_bits. intros i Hi. rewrite N.lor_spec.
    rewrite (testbit_high r 64 i) by (try exact Hr; lia).
    rewrite N.shiftl_spec_high' by lia.
    apply (testbit_high _ _ _ IH). lia.
Qed.

Lemma rows_bits_testbit_gen rows : Forall (fun r => r < W64) rows -> forall i,
  N.testbit (rows_bits rows) i =
  match nth_error rows (nn (i / 64)) with Some r => N.testbit r (i mod 64) | None => false end.
Proof.
  induction 1 as [|r rest Hr _ IH]; intros i; cbn [rows_bits].
  - rewrite N.bits_0. destruct (nn (i / 64)); reflexivity.
  - rewrite N.lor_spec.
    pose proof (N.div_mod i 64 nz64) as E. pose proof (N.mod_lt i 64 nz64) as L.
    destruct (N.lt_ge_cases i 64) as [Hi|Hi].
    + rewrite N.shiftl_spec_low by assumption. rewrite orb_false_r.
      rewrite (N.div_small i 64 Hi), (N.mod_small i 64 Hi). reflexivity.
    + rewrite (testbit_high r 64 i) by (try exact Hr; lia).
      rewrite N.shiftl_spec_high' by lia. rewrite IH. cbn [orb].
      assert (Ed : (i - 64) / 64 = i / 64 - 1).
      { symmetry. apply (N.div_unique _ _ _ (i mod 64)); lia. }
      assert (Em : (i - 64) mod 64 = i mod 64).
      { symmetry. apply (N.mod_unique _ _ (i / 64 - 1)); lia. }
      rewrite Ed, Em. unfold nn.
      replace (N.to_nat (i / 64)) with (S (N.to_nat (i / 64 - 1))) by lia. reflexivity.
Qed.

Lemma popcount_rows_bits rows : Forall (fun r => r < W64) rows ->
  popcount (rows_bits rows) = fold_right (fun v a => popcount v + a) 0 rows.
Proof.
  induction 1 as [|r rest Hr Hrest IH]; cbn [rows_bits fold_right]; [reflexivity|].
  rewrite popcount_lor_disjoint.
  - rewrite popcount_shiftl, IH. reflexivity.
  - apply N.bits_inj. intros i. rewrite N.land_spec, N.bits_0.
    destruct (N.lt_ge_cases i 64) as [Hi|Hi].
    + rewrite N.shiftl_spec_low by assumption. apply andb_false_r.
    + rewrite (testbit_high r 64 i) by (try exact Hr; lia). reflexivity.
Qed.

Lemma rows_zero_bits rows : Forall (fun r => r = 0) rows -> rows_bits rows = 0.
Proof.
  induction 1 as [|r rest Hr _ IH]; cbn [rows_bits]; [reflexivity|].
  rewrite Hr, IH, N.shiftl_0_l. reflexivity.
Qed.

Lemma rows_bits_zero_inv rows : rows_bits rows = 0 -> Forall (fun r => r = 0) rows.
Proof.
  induction rows as [|r rest IH]; cbn [rows_bits]; intros H; constructor.
  - apply N.lor_eq_0_iff in H. apply H.
  - apply IH. apply N.lor_eq_0_iff in H. destruct H as [_ H].
    apply N.shiftl_eq_0_iff in H. exact H.
Qed.

Lemma count_zeros_sum rows : Forall (fun r => r < W64) rows ->
  bf_count_zeros rows + popcount (rows_bits rows) = 64 * N.of_nat (length rows).
Proof.
  intros H. rewrite (popcount_rows_bits rows H).
  induction H as [|r rest Hr _ IH]; cbn [bf_count_zeros fold_right length]; [reflexivity|].
  unfold bf_count_zeros in IH. change (count_zeros64 r) with (64 - popcount r). rewrite Nat2N.inj_succ.
  pose proof (popcount_lt_pow2 r 64 Hr). lia.
Qed.

Section RowsOk.
  Variable g : geom.
  Hypothesis WF : wf_geom g.

  Lemma rows_ok_len64 rows : rows_ok g rows -> 64 * N.of_nat (length rows) = HF g.
  Proof. intros (Hl & _). rewrite Hl, <- (ROWS_nat g WF). symmetry. apply HF_64, WF. Qed.

  Lemma rows_ok_length rows : rows_ok g rows -> N.of_nat (length rows) = ROWS g.
  Proof. intros (Hl & _). rewrite Hl. symmetry. apply ROWS_nat, WF. Qed.

  Lemma rows_bits_testbit rows : rows_ok g rows -> forall i,
    N.testbit (rows_bits rows) i =
    match nth_error rows (nn (i / 64)) with Some r => N.testbit r (i mod 64) | None => false end.
  Proof. intros (_ & H). apply rows_bits_testbit_gen, H. Qed.

  Lemma rows_bits_lt_HF rows : rows_ok g rows -> rows_bits rows < 2 ^ HF g.
  Proof. intros H. rewrite <- (rows_ok_len64 rows H). apply rows_bits_lt, H. Qed.

  Lemma rows_bits_high rows i : rows_ok g rows -> HF g <= i -> N.testbit (rows_bits rows) i = false.
  Proof. intros H Hi. apply (testbit_high _ _ _ (rows_bits_lt_HF rows H) Hi). Qed.

  Lemma popcount_rows_bits_le rows : rows_ok g rows -> popcount (rows_bits rows) <= HF g.
  Proof. intros H. apply popcount_lt_pow2, rows_bits_lt_HF, H. Qed.

  Lemma bf_count_zeros_sum rows : rows_ok g rows ->
    bf_count_zeros rows + popcount (rows_bits rows) = HF g.
  Proof. intros H. rewrite <- (rows_ok_len64 rows H). apply count_zeros_sum, H. Qed.

  Lemma bf_count_zeros_spec rows : rows_ok g rows ->
    bf_count_zeros rows = HF g - popcount (rows_bits rows).
  Proof. intros H. pose proof (bf_count_zeros_sum rows H). lia. Qed.

  Lemma bf_count_zeros_le rows : rows_ok g rows -> bf_count_zeros rows <= HF g.
  Proof. intros H. pose proof (bf_count_zeros_sum rows H). lia. Qed.

  Lemma count_zeros_full_zero rows : rows_ok g rows -> bf_count_zeros rows = HF g ->
    Forall (fun r => r = 0) rows.
  Proof.
    intros H E. pose proof (bf_count_zeros_sum rows H).
    apply rows_bits_zero_inv, popcount_0_inv. lia.
  Qed.

  Lemma count_zeros_of_zero rows : rows_ok g rows -> Forall (fun r => r = 0) rows ->
    bf_count_zeros rows = HF g.
  Proof.
    intros H Z. pose proof (bf_count_zeros_sum rows H) as S.
    rewrite (rows_zero_bits rows Z) in S. cbn [popcount] in S. lia.
  Qed.

  Lemma rows_ok_upd rows r v : rows_ok g rows -> v < W64 -> rows_ok g (upd rows r v).
  Proof.
    intros (Hl & Hf) Hv. split; [rewrite upd_length; exact Hl|].
    clear Hl. revert r. induction Hf as [|x rest Hx Hrest IH]; intros r; destruct r; cbn [upd]; constructor; auto.
  Qed.

  (* two bitfields that differ by one block that was clear: the counts differ by the block size *)
  Lemma count_zeros_set_block rows rows' off n :
    rows_ok g rows -> rows_ok g rows' ->
    N.land (rows_bits rows) (blk off n) = 0 ->
    rows_bits rows' = N.lor (rows_bits rows) (blk off n) ->
    bf_count_zeros rows' + n = bf_count_zeros rows.
  Proof.
    intros H H' D E. pose proof (bf_count_zeros_sum rows H). pose proof (bf_count_zeros_sum rows' H').
    rewrite E, (popcount_lor_disjoint _ _ D), popcount_blk in *. lia.
  Qed.

  Lemma count_zeros_clear_block rows rows' off n :
    rows_ok g rows -> rows_ok g rows' ->
    N.land (rows_bits rows) (blk off n) = blk off n ->
    rows_bits rows' = N.ldiff (rows_bits rows) (blk off n) ->
    bf_count_zeros rows' = bf_count_zeros rows + n.
  Proof.
    intros H H' D E.
    assert (D' : N.land (rows_bits rows') (blk off n) = 0).
    { rewrite E. apply N.bits_inj. intros i. rewrite N.land_spec, N.ldiff_spec, N.bits_0.
      destruct (N.testbit (rows_bits rows) i), (N.testbit (blk off n) i); reflexivity. }
    assert (E' : rows_bits rows = N.lor (rows_bits rows') (blk off n)).
    { rewrite E. apply N.bits_inj. intros i. rewrite N.lor_spec, N.ldiff_spec.
      assert (T : N.testbit (N.land (rows_bits rows) (blk off n)) i = N.testbit (blk off n) i)
        by (rewrite D; reflexivity).
      rewrite N.land_spec in T.
      destruct (N.testbit (rows_bits rows) i), (N.testbit (blk off n) i); try reflexivity; discriminate. }
    pose proof (count_zeros_set_block rows' rows off n H' H D' E'). lia.
  Qed.

  (* a clear block leaves at least its size in zeros *)
  Lemma count_zeros_ge_block rows off n :
    rows_ok g rows -> off + n <= HF g -> N.land (rows_bits rows) (blk off n) = 0 ->
    n <= bf_count_zeros rows.
  Proof.
    intros H Hb D. pose proof (bf_count_zeros_sum rows H) as S.
    assert (L : N.lor (rows_bits rows) (blk off n) < 2 ^ HF g).
    { apply lor_lt_pow2; [apply rows_bits_lt_HF, H|apply blk_lt, Hb]. }
    apply popcount_lt_pow2 in L. rewrite (popcount_lor_disjoint _ _ D), popcount_blk in L. lia.
  Qed.
End RowsOk.

(* ====================================================================== *)
(* the abstraction, pointwise                                             *)
(* ====================================================================== *)
(* frame f is allocated according to the metadata *)
Definition alloc_at (g : geom) (l : lower) (f : N) : bool :=
  (f <? frames l) &&
  match ent l (f / HF g), bf l (f / HF g) with
  | Some e, Some rows => e_huge e || N.testbit (rows_bits rows) (f mod HF g)
  | _, _ => false
  end.

(* huge frame h is allocated whole *)
Definition whole_at (l : lower) (h : N) : bool :=
  match ent l h, bf l h with Some e, Some _ => e_huge e | _, _ => false end.

Lemma nth_error_nil {A} n : @nth_error A [] n = None.
Proof. destruct n; reflexivity. Qed.

Lemma whole_from_testbit : forall es bs h,
  N.testbit (whole_from es bs) h =
  match nth_error es (nn h), nth_error bs (nn h) with Some e, Some _ => e_huge e | _, _ => false end.
Proof.
  induction es as [|e es IH]; intros bs h.
  - cbn [whole_from]. rewrite N.bits_0, nth_error_nil. reflexivity.
  - destruct bs as [|rows bs]; cbn [whole_from].
    + rewrite N.bits_0, nth_error_nil. destruct (nth_error (e :: es) (nn h)); reflexivity.
    + rewrite N.lor_spec. destruct (N.eq_dec h 0) as [->|Hn].
      * rewrite N.shiftl_spec_low by lia. rewrite orb_false_r. cbn [nn N.to_nat nth_error].
        destruct (e_huge e); reflexivity.
      * rewrite N.shiftl_spec_high' by lia. rewrite IH.
        assert (T : N.testbit (if e_huge e then 1 else 0) h = false).
        { apply (testbit_high _ 1); [destruct (e_huge e); reflexivity|lia]. }
        rewrite T. cbn [orb]. unfold nn.
        replace (N.to_nat h) with (S (N.to_nat (h - 1))) by lia. reflexivity.
Qed.

Section Abs.
  Variable g : geom.
  Hypothesis WF : wf_geom g.

  Lemma ones_lt n : N.ones n < 2 ^ n.
  Proof.
    rewrite N.ones_equiv. assert (2 ^ n <> 0) by (apply N.pow_nonzero; discriminate). lia.
  Qed.

  Lemma huge_bits_lt e rows : rows_ok g rows -> huge_bits g e rows < 2 ^ HF g.
  Proof.
    intros H. unfold huge_bits. destruct (e_huge e); [apply ones_lt|apply rows_bits_lt_HF; assumption].
  Qed.

  Lemma huge_bits_testbit e rows i : i < HF g ->
    N.testbit (huge_bits g e rows) i = e_huge e || N.testbit (rows_bits rows) i.
  Proof.
    intros Hi. unfold huge_bits, ones. destruct (e_huge e); [|reflexivity].
    apply N.ones_spec_low. exact Hi.
  Qed.

  Lemma abs_from_testbit : forall es bs,
    (forall h e rows, nth_error es h = Some e -> nth_error bs h = Some rows -> rows_ok g rows) ->
    forall f, N.testbit (abs_from g es bs) f =
      match nth_error es (nn (f / HF g)), nth_error bs (nn (f / HF g)) with
      | Some e, Some rows => N.testbit (huge_bits g e rows) (f mod HF g)
      | _, _ => false
      end.
  Proof.
    induction es as [|e es IH]; intros bs Hok f.
    - cbn [abs_from]. rewrite N.bits_0, nth_error_nil. reflexivity.
    - destruct bs as [|rows bs]; cbn [abs_from].
      + rewrite N.bits_0, nth_error_nil. destruct (nth_error (e :: es) (nn (f / HF g))); reflexivity.
      + rewrite N.lor_spec.
        pose proof (HF_nz g) as Hnz.
        pose proof (N.div_mod f (HF g) Hnz) as E. pose proof (N.mod_lt f (HF g) Hnz) as L.
        destruct (N.lt_ge_cases f (HF g)) as [Hf|Hf].
        * rewrite N.shiftl_spec_low by assumption. rewrite orb_false_r.
          rewrite (N.div_small f _ Hf), (N.mod_small f _ Hf). reflexivity.
        * assert (Hr : rows_ok g rows) by (apply (Hok O e rows); reflexivity).
          rewrite (testbit_high _ _ f (huge_bits_lt e rows Hr) Hf).
          rewrite N.shiftl_spec_high' by assumption. cbn [orb].
          rewrite IH by (intros h e' r' H1 H2; apply (Hok (S h) e' r'); assumption).
          assert (Ed : (f - HF g) / HF g = f / HF g - 1).
          { symmetry. apply (N.div_unique _ _ _ (f mod HF g)); [assumption|].
            rewrite N.mul_sub_distr_l. assert (1 <= f / HF g) by nia. nia. }
          assert (Em : (f - HF g) mod HF g = f mod HF g).
          { symmetry. apply (N.mod_unique _ _ (f / HF g - 1)); [assumption|].
            rewrite N.mul_sub_distr_l. assert (1 <= f / HF g) by nia. nia. }
          rewrite Ed, Em. unfold nn.
          assert (1 <= f / HF g) by nia.
          replace (N.to_nat (f / HF g)) with (S (N.to_nat (f / HF g - 1))) by lia. reflexivity.
  Qed.

  (* the part of LowerInv the pointwise reading needs *)
  Definition bfs_ok (l : lower) : Prop :=
    forall h e rows, nth_error (ents l) h = Some e -> nth_error (bfs l) h = Some rows -> rows_ok g rows.

  Lemma LowerInv_bfs_ok l : LowerInv g l -> bfs_ok l.
  Proof. intros (_ & _ & H & _) h e rows He Hb. apply (H h e rows He Hb). Qed.

  Lemma abs_frames l : o_frames (abs g l) = frames l.
  Proof. reflexivity. Qed.

  Lemma abs_alloc_testbit_gen l : bfs_ok l -> forall f, N.testbit (o_alloc (abs g l)) f = alloc_at g l f.
  Proof.
    intros Hok f. unfold abs, alloc_at, ent, bf; cbn. rewrite N.land_spec, abs_from_testbit by exact Hok.
    unfold ones.
    destruct (N.ltb_spec f (frames l)) as [Hf|Hf].
    - rewrite N.ones_spec_low by assumption. rewrite andb_true_r. cbn [andb].
      destruct (nth_error (ents l) (nn (f / HF g))) as [e|]; [|reflexivity].
      destruct (nth_error (bfs l) (nn (f / HF g))) as [rows|]; [|reflexivity].
      apply huge_bits_testbit. apply N.mod_lt, HF_nz.
    - rewrite N.ones_spec_high by assumption. apply andb_false_r.
  Qed.

  Lemma abs_alloc_testbit l : LowerInv g l -> forall f, N.testbit (o_alloc (abs g l)) f = alloc_at g l f.
  Proof. intros H. apply abs_alloc_testbit_gen, LowerInv_bfs_ok, H. Qed.

  Lemma abs_whole_testbit_gen l h : N.testbit (o_whole (abs g l)) h = whole_at l h.
  Proof. unfold abs, whole_at, ent, bf; cbn. apply whole_from_testbit. Qed.

  Lemma abs_whole_testbit l : LowerInv g l -> forall h,
    N.testbit (o_whole (abs g l)) h =
    match ent l h, bf l h with Some e, Some _ => e_huge e | _, _ => false end.
  Proof. intros _ h. apply abs_whole_testbit_gen. Qed.
End Abs.

(* ====================================================================== *)
(* cas_all                                                                *)
(* ====================================================================== *)
Lemma range_test_false (h j : nat) : ((h <=? j)%nat && (j <? h + 0)%nat) = false.
Proof. destruct (Nat.leb_spec h j), (Nat.ltb_spec j (h + 0)); try reflexivity; lia. Qed.

Lemma cas_all_some : forall n es h cur new es', cas_all es h n cur new = Some es' ->
  length es' = length es /\
  (forall j, (h <= j < h + n)%nat -> nth_error es j = Some cur) /\
  (forall j, nth_error es' j = if (h <=? j)%nat && (j <? h + n)%nat then Some new else nth_error es j).
Proof.
  induction n as [|n IH]; intros es h cur new es' H; cbn [cas_all] in H.
  - injection H as <-. repeat split; [intros; lia|]. intros j. rewrite range_test_false. reflexivity.
  - destruct (nth_error es h) as [e|] eqn:E; [|discriminate].
    destruct (N.eqb_spec e cur) as [->|]; [|discriminate].
    apply IH in H. destruct H as (Hl & Hc & Hn). rewrite upd_length in Hl.
    assert (Hh : (h < length es)%nat) by (apply nth_error_Some; congruence).
    repeat split; [exact Hl| |].
    + intros j Hj. destruct (Nat.eq_dec j h) as [->|Hne]; [exact E|].
      rewrite <- (nth_error_upd_other es h j new) by lia. apply Hc. lia.
    + intros j. rewrite Hn.
      destruct (Nat.leb_spec (S h) j), (Nat.ltb_spec j (S h + n)), (Nat.leb_spec h j), (Nat.ltb_spec j (h + S n));
        cbn [andb]; try lia; try reflexivity;
        first [ apply nth_error_upd_other; lia
              | assert (j = h) by lia; subst j; apply nth_error_upd_same; exact Hh ].
Qed.

Lemma cas_all_none : forall n es h cur new, cas_all es h n cur new = None ->
  exists j, (h <= j < h + n)%nat /\ nth_error es j <> Some cur.
Proof.
  induction n as [|n IH]; intros es h cur new H; cbn [cas_all] in H; [discriminate|].
  destruct (nth_error es h) as [e|] eqn:E.
  - destruct (N.eqb_spec e cur) as [->|Hne].
    + apply IH in H. destruct H as (j & Hj & Hn). exists j. split; [lia|].
      rewrite nth_error_upd_other in Hn by lia. exact Hn.
    + exists h. split; [lia|]. rewrite E. congruence.
  - exists h. split; [lia|]. rewrite E. discriminate.
Qed.

Lemma cas_all_complete : forall n es h cur new,
  (forall j, (h <= j < h + n)%nat -> nth_error es j = Some cur) ->
  exists es', cas_all es h n cur new = Some es'.
Proof.
  induction n as [|n IH]; intros es h cur new H; cbn [cas_all]; [eexists; reflexivity|].
  rewrite (H h) by lia. rewrite N.eqb_refl. apply IH.
  intros j Hj. rewrite nth_error_upd_other by lia. apply H. lia.
Qed.

(* ====================================================================== *)
(* state updates                                                          *)
(* ====================================================================== *)
Lemma nn_inj a b : nn a = nn b -> a = b.
Proof. unfold nn. lia. Qed.

Lemma ent_set_ent_same l h e : ent l h <> None -> ent (set_ent l h e) h = Some e.
Proof. unfold ent, set_ent; cbn. intros H. apply nth_error_upd_same, nth_error_Some, H. Qed.

Lemma ent_set_ent_other l h e h' : h' <> h -> ent (set_ent l h e) h' = ent l h'.
Proof.
  unfold ent, set_ent; cbn. intros H. apply nth_error_upd_other. intros E. apply nn_inj in E. congruence.
Qed.

Lemma bf_set_ent l h e h' : bf (set_ent l h e) h' = bf l h'.
Proof. reflexivity. Qed.

Lemma ent_set_bf l h rows h' : ent (set_bf l h rows) h' = ent l h'.
Proof. reflexivity. Qed.

Lemma bf_set_bf_same l h rows : bf l h <> None -> bf (set_bf l h rows) h = Some rows.
Proof. unfold bf, set_bf; cbn. intros H. apply nth_error_upd_same, nth_error_Some, H. Qed.

Lemma bf_set_bf_other l h rows h' : h' <> h -> bf (set_bf l h rows) h' = bf l h'.
Proof.
  unfold bf, set_bf; cbn. intros H. apply nth_error_upd_other. intros E. apply nn_inj in E. congruence.
Qed.

Lemma frames_set_ent l h e : frames (set_ent l h e) = frames l.
Proof. reflexivity. Qed.
Lemma frames_set_bf l h rows : frames (set_bf l h rows) = frames l.
Proof. reflexivity. Qed.

(* ====================================================================== *)
(* sizes                                                                  *)
(* ====================================================================== *)
Lemma div_ceil_ge a b : b <> 0 -> a <= div_ceil a b * b.
Proof.
  intros Hb. unfold div_ceil.
  pose proof (N.div_mod (a + b - 1) b Hb). pose proof (N.mod_lt (a + b - 1) b Hb). nia.
Qed.

Lemma div_ceil_le a b m : b <> 0 -> a <= m * b -> div_ceil a b <= m.
Proof.
  intros Hb H. unfold div_ceil. apply N.lt_succ_r. apply N.div_lt_upper_bound; [exact Hb|]. nia.
Qed.

Lemma div_lt_div_ceil a b f : b <> 0 -> f < a -> f / b < div_ceil a b.
Proof.
  intros Hb H. apply N.div_lt_upper_bound; [exact Hb|].
  pose proof (div_ceil_ge a b Hb). nia.
Qed.

Lemma div_ceil_lt_inv a b h : b <> 0 -> h < div_ceil a b -> h * b < a.
Proof.
  intros Hb H. unfold div_ceil in H.
  pose proof (N.div_mod (a + b - 1) b Hb). pose proof (N.mod_lt (a + b - 1) b Hb).
  assert (h + 1 <= (a + b - 1) / b) by lia.
  set (q := (a + b - 1) / b) in *. set (r := (a + b - 1) mod b) in *.
  assert (b * (h + 1) <= b * q) by (apply N.mul_le_mono_l; lia). lia.
Qed.

Section Inv.
  Variable g : geom.
  Hypothesis WF : wf_geom g.

  Lemma nbf_le_ntab fr : nbf g fr <= ntab g fr * THUGE g.
  Proof.
    unfold nbf, ntab. apply div_ceil_le; [apply HF_nz|].
    pose proof (div_ceil_ge fr (TF g) (TF_nz g)) as H. set (m := div_ceil fr (TF g)) in *.
    rewrite TF_eq in H. lia.
  Qed.

  Lemma frame_lt_nbf fr f : f < fr -> f / HF g < nbf g fr.
  Proof. apply div_lt_div_ceil, HF_nz. Qed.

  Lemma frame_lt_ntab fr f : f < fr -> f / TF g < ntab g fr.
  Proof. apply div_lt_div_ceil, TF_nz. Qed.

  Lemma nbf_lt_inv fr h : h < nbf g fr -> h * HF g < fr.
  Proof. apply div_ceil_lt_inv, HF_nz. Qed.

  Lemma div_TF f : f / TF g = f / HF g / THUGE g.
  Proof. rewrite TF_eq, N.mul_comm. symmetry. apply N.div_div; [apply HF_nz|apply THUGE_nz]. Qed.

  (* N-indexed reading of LowerInv *)
  Lemma LowerInv_huge_ok l h e rows :
    LowerInv g l -> ent l h = Some e -> bf l h = Some rows -> huge_ok g (frames l) h e rows.
  Proof.
    intros (_ & _ & H & _) He Hb. specialize (H (nn h) e rows He Hb).
    unfold nn in H. rewrite N2Nat.id in H. exact H.
  Qed.

  Lemma LowerInv_no_bf l h e : LowerInv g l -> ent l h = Some e -> bf l h = None -> e = 0.
  Proof. intros (_ & _ & _ & H) He Hb. exact (H (nn h) e He Hb). Qed.

  Lemma LowerInv_bf_some l h : LowerInv g l -> h < nbf g (frames l) -> exists rows, bf l h = Some rows.
  Proof.
    intros (Hl & _) Hh. unfold bf. destruct (nth_error (bfs l) (nn h)) as [r|] eqn:E; [eauto|].
    apply nth_error_None in E. unfold nn in *. lia.
  Qed.

  Lemma LowerInv_bf_lt l h rows : LowerInv g l -> bf l h = Some rows -> h < nbf g (frames l).
  Proof.
    intros (Hl & _) Hb. unfold bf in Hb.
    assert (nth_error (bfs l) (nn h) <> None) as Hn by congruence.
    apply nth_error_Some in Hn. unfold nn in *. lia.
  Qed.

  Lemma LowerInv_ent_some l h : LowerInv g l -> h < ntab g (frames l) * THUGE g -> exists e, ent l h = Some e.
  Proof.
    intros (_ & Hl & _) Hh. unfold ent. destruct (nth_error (ents l) (nn h)) as [r|] eqn:E; [eauto|].
    apply nth_error_None in E. unfold nn in *. lia.
  Qed.

  Lemma LowerInv_ent_lt l h e : LowerInv g l -> ent l h = Some e -> h < ntab g (frames l) * THUGE g.
  Proof.
    intros (_ & Hl & _) Hb. unfold ent in Hb.
    assert (nth_error (ents l) (nn h) <> None) as Hn by congruence.
    apply nth_error_Some in Hn. unfold nn in *. lia.
  Qed.

  (* every managed frame has an entry and a bitfield *)
  Lemma LowerInv_frame l f : LowerInv g l -> f < frames l ->
    exists e rows, ent l (f / HF g) = Some e /\ bf l (f / HF g) = Some rows.
  Proof.
    intros H Hf. pose proof (frame_lt_nbf _ _ Hf) as Hb. pose proof (nbf_le_ntab (frames l)) as Hle.
    destruct (LowerInv_bf_some l _ H Hb) as (rows & Er).
    destruct (LowerInv_ent_some l (f / HF g) H) as (e & Ee); [lia|]. eauto.
  Qed.

  Lemma has_tree_spec l t : LowerInv g l -> has_tree g l t = true <-> t < ntab g (frames l).
  Proof.
    intros (_ & Hl & _). unfold has_tree. rewrite Hl. unfold nn. rewrite N2Nat.id, N.leb_le.
    pose proof (THUGE_pos g). split; intros; nia.
  Qed.

  (* replacing entry and bitfield of one huge frame *)
  Lemma LowerInv_set l h e' rows' :
    LowerInv g l -> ent l h <> None -> bf l h <> None ->
    huge_ok g (frames l) h e' rows' ->
    LowerInv g (set_bf (set_ent l h e') h rows').
  Proof.
    intros (L1 & L2 & L3 & L4) He Hb Hok. unfold LowerInv, set_bf, set_ent; cbn.
    rewrite !upd_length. split; [exact L1|]. split; [exact L2|]. split.
    - intros j e rows Hj Hr. destruct (Nat.eq_dec j (nn h)) as [->|Hne].
      + rewrite nth_error_upd_same in Hj by (apply nth_error_Some; exact He).
        rewrite nth_error_upd_same in Hr by (apply nth_error_Some; exact Hb).
        injection Hj as <-. injection Hr as <-. unfold nn. rewrite N2Nat.id. exact Hok.
      + rewrite nth_error_upd_other in Hj by congruence.
        rewrite nth_error_upd_other in Hr by congruence. apply (L3 j e rows Hj Hr).
    - intros j e Hj Hr. destruct (Nat.eq_dec j (nn h)) as [->|Hne].
      + rewrite nth_error_upd_same in Hr by (apply nth_error_Some; exact Hb). discriminate.
      + rewrite nth_error_upd_other in Hj by congruence.
        rewrite nth_error_upd_other in Hr by congruence. apply (L4 j e Hj Hr).
  Qed.

  (* replacing only entries *)
  Lemma LowerInv_set_ents l es' :
    LowerInv g l -> length es' = length (ents l) ->
    (forall h e rows, nth_error es' (nn h) = Some e -> bf l h = Some rows -> huge_ok g (frames l) h e rows) ->
    (forall h e, nth_error es' (nn h) = Some e -> bf l h = None -> e = 0) ->
    LowerInv g {| frames := frames l; bfs := bfs l; ents := es' |}.
  Proof.
    intros (L1 & L2 & L3 & L4) Hl H3 H4. unfold LowerInv; cbn. split; [exact L1|]. split; [congruence|]. split.
    - intros j e rows Hj Hr. specialize (H3 (N.of_nat j) e rows). unfold bf, nn in H3.
      rewrite Nat2N.id in H3. auto.
    - intros j e Hj Hr. specialize (H4 (N.of_nat j) e). unfold bf, nn in H4.
      rewrite Nat2N.id in H4. auto.
  Qed.

  (* ----- the boolean checker is sound ----- *)
  Lemma huge_okb_sound fr h e rows : huge_okb g fr h e rows = true -> huge_ok g fr h e rows.
  Proof.
    unfold huge_okb. rewrite !andb_true_iff. intros (((Hlen & Hw) & Hcase) & Hhi).
    apply Nat.eqb_eq in Hlen. rewrite forallb_forall in Hw.
    assert (Hrows : rows_ok g rows).
    { split; [exact Hlen|]. apply Forall_forall. intros x Hx. apply N.ltb_lt, Hw, Hx. }
    split; [exact Hrows|]. split; [|split].
    - intros ->. change (MARK =? MARK) with true in Hcase. cbv iota in Hcase.
      apply andb_true_iff in Hcase. destruct Hcase as (Hz & Hle). split.
      + rewrite forallb_forall in Hz. apply Forall_forall. intros x Hx. apply N.eqb_eq, Hz, Hx.
      + apply N.leb_le, Hle.
    - intros Hne. destruct (N.eqb_spec e MARK) as [|_]; [contradiction|].
      apply andb_true_iff in Hcase. destruct Hcase as (Hz & Hle).
      apply N.eqb_eq in Hz. apply N.leb_le in Hle. split; assumption.
    - intros i Hi Hfr. cbv zeta in Hhi. apply N.eqb_eq in Hhi.
      apply (proj1 (land_blk_full _ _ _) Hhi).
      destruct (N.leb_spec fr (h * HF g)); lia.
  Qed.

  Lemma lower_invb_from_sound fr : forall es bs h, lower_invb_from g fr h es bs = true ->
    (forall j e rows, nth_error es j = Some e -> nth_error bs j = Some rows ->
                      huge_ok g fr (h + N.of_nat j) e rows) /\
    (forall j e, nth_error es j = Some e -> nth_error bs j = None -> e = 0).
  Proof.
    induction es as [|e es IH]; intros bs h H.
    - split; intros j; rewrite nth_error_nil; discriminate.
    - destruct bs as [|rows bs]; cbn [lower_invb_from] in H.
      + split; intros j e'; [rewrite nth_error_nil; discriminate|].
        intros Hj _. rewrite forallb_forall in H. apply N.eqb_eq, H. apply (nth_error_In _ _ Hj).
      + apply andb_true_iff in H. destruct H as (H0 & H). apply IH in H. destruct H as (IH1 & IH2).
        split.
        * intros [|j] e' rows'; cbn [nth_error]; intros Hj Hr.
          -- injection Hj as <-. injection Hr as <-. rewrite N.add_0_r. apply huge_okb_sound, H0.
          -- replace (h + N.of_nat (S j)) with (h + 1 + N.of_nat j) by lia. apply IH1; assumption.
        * intros [|j] e'; cbn [nth_error]; intros Hj Hr; [discriminate|]. apply (IH2 j); assumption.
  Qed.

  Lemma lower_invb_sound l : lower_invb g l = true -> LowerInv g l.
  Proof.
    unfold lower_invb. rewrite !andb_true_iff. intros ((H1 & H2) & H3).
    apply Nat.eqb_eq in H1. apply Nat.eqb_eq in H2.
    apply lower_invb_from_sound in H3. destruct H3 as (H3 & H4).
    split; [exact H1|]. split; [exact H2|]. split; [|exact H4].
    intros h e rows He Hr. apply (H3 h e rows He Hr).
  Qed.
End Inv.

(* ====================================================================== *)
(* tree_free as a sum over the entries of the tree                        *)
(* ====================================================================== *)
Definition efree_at (es : list N) (j : nat) : N :=
  match nth_error es j with Some e => e_free e | None => 0 end.

Fixpoint nsum (n : nat) (f : nat -> N) : N :=
  match n with O => 0 | S n' => f O + nsum n' (fun j => f (S j)) end.

Lemma nsum_ext : forall n f f', (forall j, (j < n)%nat -> f j = f' j) -> nsum n f = nsum n f'.
Proof.
  induction n as [|n IH]; intros f f' H; cbn [nsum]; [reflexivity|].
  rewrite (H O) by lia. f_equal. apply IH. intros j Hj. apply H. lia.
Qed.

Lemma nsum_zero : forall n f, (forall j, (j < n)%nat -> f j = 0) -> nsum n f = 0.
Proof.
  induction n as [|n IH]; intros f H; cbn [nsum]; [reflexivity|].
  rewrite (H O) by lia. rewrite IH; [reflexivity|]. intros j Hj. apply H. lia.
Qed.

Lemma nsum_add : forall n f f' dd, (forall j, (j < n)%nat -> f' j + dd j = f j) ->
  nsum n f' + nsum n dd = nsum n f.
Proof.
  induction n as [|n IH]; intros f f' dd H; cbn [nsum]; [reflexivity|].
  pose proof (H O ltac:(lia)) as H0.
  pose proof (IH (fun j => f (S j)) (fun j => f' (S j)) (fun j => dd (S j))) as IH'.
  cbv beta in IH'. rewrite <- IH' by (intros j Hj; apply H; lia). lia.
Qed.

Lemma nsum_le : forall n f b, (forall j, (j < n)%nat -> f j <= b) -> nsum n f <= N.of_nat n * b.
Proof.
  induction n as [|n IH]; intros f b H; cbn [nsum]; [lia|].
  pose proof (H O ltac:(lia)). pose proof (IH (fun j => f (S j)) b) as IH'. cbv beta in IH'.
  specialize (IH' ltac:(intros j Hj; apply H; lia)). lia.
Qed.

Definition ind_range (a m : nat) (d : N) (j : nat) : N :=
  if (a <=? j)%nat && (j <? a + m)%nat then d else 0.

Lemma nsum_indicator : forall n a m d, (a + m <= n)%nat -> nsum n (ind_range a m d) = N.of_nat m * d.
Proof.
  induction n as [|n IH]; intros a m d H.
  - assert (m = O) by lia. subst m. cbn [nsum]. lia.
  - cbn [nsum]. destruct a as [|a].
    + destruct m as [|m].
      * rewrite nsum_zero; [unfold ind_range; cbn; lia|]. intros j Hj. unfold ind_range.
        destruct (Nat.leb_spec 0 (S j)), (Nat.ltb_spec (S j) (0 + 0)); cbn [andb]; try reflexivity; lia.
      * rewrite (nsum_ext n _ (ind_range 0 m d)).
        -- rewrite IH by lia. unfold ind_range. cbn [Nat.leb Nat.add andb]. 
           destruct (Nat.ltb_spec 0 (S m)); lia.
        -- intros j Hj. unfold ind_range.
           destruct (Nat.leb_spec 0 (S j)), (Nat.ltb_spec (S j) (0 + S m)),
             (Nat.leb_spec 0 j), (Nat.ltb_spec j (0 + m)); cbn [andb]; try reflexivity; lia.
    + rewrite (nsum_ext n _ (ind_range a m d)).
      * rewrite IH by lia. unfold ind_range. cbn [Nat.leb andb]. lia.
      * intros j Hj. unfold ind_range.
        destruct (Nat.leb_spec (S a) (S j)), (Nat.ltb_spec (S j) (S a + m)),
          (Nat.leb_spec a j), (Nat.ltb_spec j (a + m)); cbn [andb]; try reflexivity; lia.
Qed.

Lemma skipn_nth_cons {A} : forall (es : list A) r a, nth_error es r = Some a -> skipn r es = a :: skipn (S r) es.
Proof.
  induction es as [|x es IH]; intros r a H; [rewrite nth_error_nil in H; discriminate|].
  destruct r as [|r]; cbn [nth_error] in H.
  - injection H as <-. reflexivity.
  - cbn [skipn]. rewrite (IH r a H). reflexivity.
Qed.

Lemma skipn_nth_none {A} : forall (es : list A) r, nth_error es r = None -> skipn r es = [].
Proof. intros es r H. apply skipn_all2. apply nth_error_None, H. Qed.

Lemma sum_free_nsum es : forall n r,
  fold_right (fun e a => e_free e + a) 0 (firstn n (skipn r es)) = nsum n (fun j => efree_at es (r + j)).
Proof.
  induction n as [|n IH]; intros r; cbn [nsum]; [reflexivity|].
  destruct (nth_error es r) as [a|] eqn:E.
  - rewrite (skipn_nth_cons es r a E). cbn [firstn fold_right]. rewrite IH.
    unfold efree_at at 2. rewrite Nat.add_0_r, E. f_equal.
    apply nsum_ext. intros j _. f_equal. lia.
  - rewrite (skipn_nth_none es r E), firstn_nil. cbn [fold_right].
    unfold efree_at at 1. rewrite Nat.add_0_r, E.
    rewrite nsum_zero; [reflexivity|]. intros j _. unfold efree_at.
    assert (N : nth_error es (r + S j) = None).
    { apply nth_error_None. apply nth_error_None in E. lia. }
    rewrite N. reflexivity.
Qed.

Lemma tree_free_nsum g l t :
  tree_free g l t = nsum (thuge_nat g) (fun j => efree_at (ents l) (nn (t * THUGE g) + j)).
Proof. unfold tree_free. apply sum_free_nsum. Qed.

Lemma nn_tree_base g t : nn (t * THUGE g) = (nn t * thuge_nat g)%nat.
Proof. unfold nn. rewrite N2Nat.inj_mul, (THUGE_nat g), Nat2N.id. reflexivity. Qed.

(* entries [H, H+m), all inside tree t0, each lose d free frames *)
Lemma tree_free_change g l l' t0 H m d :
  (nn (t0 * THUGE g) <= H)%nat -> (H + m <= nn (t0 * THUGE g) + thuge_nat g)%nat ->
  (forall i, efree_at (ents l') i + ind_range H m d i = efree_at (ents l) i) ->
  forall t, tree_free g l' t + (if t =? t0 then N.of_nat m * d else 0) = tree_free g l t.
Proof.
  intros H1 H2 Hch t. rewrite !tree_free_nsum. destruct (N.eqb_spec t t0) as [->|Hne].
  - rewrite <- (nsum_indicator (thuge_nat g) (H - nn (t0 * THUGE g)) m d) by lia.
    apply nsum_add. intros j Hj. rewrite <- (Hch (nn (t0 * THUGE g) + j)%nat). f_equal.
    unfold ind_range.
    destruct (Nat.leb_spec H (nn (t0 * THUGE g) + j)), (Nat.ltb_spec (nn (t0 * THUGE g) + j) (H + m)),
      (Nat.leb_spec (H - nn (t0 * THUGE g)) j), (Nat.ltb_spec j (H - nn (t0 * THUGE g) + m));
      cbn [andb]; try reflexivity; lia.
  - rewrite N.add_0_r. apply nsum_ext. intros j Hj.
    rewrite <- (Hch (nn (t * THUGE g) + j)%nat).
    assert (Z : ind_range H m d (nn (t * THUGE g) + j) = 0).
    { unfold ind_range. rewrite !nn_tree_base in *.
      assert (nn t <> nn t0) by (unfold nn; lia).
      destruct (Nat.leb_spec H (nn t * thuge_nat g + j)),
        (Nat.ltb_spec (nn t * thuge_nat g + j) (H + m)); cbn [andb]; try reflexivity. nia. }
    rewrite Z. lia.
Qed.

Lemma efree_at_upd es i x j :
  efree_at (upd es i x) j = if Nat.eqb j i && (i <? length es)%nat then e_free x else efree_at es j.
Proof.
  unfold efree_at. destruct (Nat.eqb_spec j i) as [->|Hne]; cbn [andb].
  - destruct (Nat.ltb_spec i (length es)).
    + rewrite nth_error_upd_same by assumption. reflexivity.
    + rewrite upd_oob by assumption. reflexivity.
  - rewrite nth_error_upd_other by congruence. reflexivity.
Qed.
