(* Extraction of the candidate-buffer model for the correspondence driver `sorted` (C16).
   ExtrOcamlBasic only: bool, option, list, prod, unit, sumbool map to OCaml's; N, positive, nat
   stay Coq's inductives. No Extract Constant / Extract Inductive of our own. *)
From LLF Require Import Base Sorted.
Require Import ExtrOcamlBasic.
Extraction Language OCaml.
Set Extraction KeepSingleton.
(* the driver instantiates `le` with N.leb: keys of `SortedBuffer<N, OrdBy<u64, u64>>` *)
Extraction "model.ml" sb_add sb_add_all sb_iter_rev N.leb.
