(* C23: the bit-trick model `fza` of `first_zeros_aligned` (bitfield.rs:286) equals the obvious
   search `row_spec`, for every 64-bit row and every order 0..6, plus the characterisation
   lemmas of the result used by the bitfield proofs. Generic bit lemmas are in BitLemmas.v. *)
From Coq Require Import PeanoNat.
From LLF Require Import Base Row BitLemmas.
Local Open Scope N_scope.

(* ---------- block masks and block_free ---------- *)
Lemma testbit_block_mask o p i :
  N.testbit (block_mask o p) i = (p <=? i) && (i <? p + 2 ^ N.of_nat o).
Proof.
  unfold block_mask, ones. set (n := 2 ^ N.of_nat o).
  destruct (N.leb_spec p i) as [H|H].
  - rewrite N.shiftl_spec_high' by assumption.
    destruct (N.ltb_spec i (p + n)).
    + rewrite N.ones_spec_low by lia. reflexivity.
    + rewrite N.ones_spec_high by lia. reflexivity.
  - rewrite N.shiftl_spec_low by assumption. reflexivity.
Qed.

Lemma block_free_spec : forall v o p, block_free v o p = true <->
  (forall i, p <= i < p + 2 ^ N.of_nat o -> N.testbit v i = false).
Proof.
  intros v o p. unfold block_free. rewrite N.eqb_eq. split.
  - intros H i Hi.
    assert (T : N.testbit (N.land v (block_mask o p)) i = false) by (rewrite H; apply N.bits_0).
    rewrite N.land_spec, testbit_block_mask in T.
    destruct (N.leb_spec p i); [|lia]. destruct (N.ltb_spec i (p + 2 ^ N.of_nat o)); [|lia].
    rewrite andb_true_r in T. exact T.
  - intros H. apply N.bits_inj. intros i. rewrite N.bits_0, N.land_spec, testbit_block_mask.
    destruct (N.leb_spec p i); [|apply andb_false_r].
    destruct (N.ltb_spec i (p + 2 ^ N.of_nat o)); [|apply andb_false_r].
    rewrite H by lia. reflexivity.
Qed.

Lemma block_free_lane v o p :
  block_free v o p = ((v / 2 ^ p) mod 2 ^ (2 ^ N.of_nat o) =? 0).
Proof.
  unfold block_free, block_mask, ones. rewrite land_shiftl_ones.
  destruct (N.eqb_spec ((v / 2 ^ p) mod 2 ^ (2 ^ N.of_nat o)) 0) as [E|E].
  - rewrite E, N.shiftl_0_l. reflexivity.
  - apply N.eqb_neq. intros H. apply E. apply N.shiftl_eq_0_iff in H. exact H.
Qed.

Lemma block_free_0 v p : block_free v 0%nat p = negb (N.testbit v p).
Proof.
  destruct (block_free v 0%nat p) eqn:E.
  - rewrite (proj1 (block_free_spec v 0%nat p) E p); [reflexivity|].
    change (2 ^ N.of_nat 0) with 1. lia.
  - destruct (N.testbit v p) eqn:T; [reflexivity|]. exfalso.
    assert (F : block_free v 0%nat p = true).
    { apply block_free_spec. intros i Hi. change (2 ^ N.of_nat 0) with 1 in Hi.
      replace i with p by lia. exact T. }
    congruence.
Qed.

Lemma block_free_1 v p :
  block_free v 1%nat p = negb (N.testbit v p) && negb (N.testbit v (p + 1)).
Proof.
  destruct (block_free v 1%nat p) eqn:E.
  - pose proof (proj1 (block_free_spec v 1%nat p) E) as H.
    change (2 ^ N.of_nat 1) with 2 in H.
    rewrite (H p), (H (p + 1)) by lia. reflexivity.
  - destruct (N.testbit v p) eqn:T; [reflexivity|].
    destruct (N.testbit v (p + 1)) eqn:T1; [reflexivity|]. exfalso.
    assert (F : block_free v 1%nat p = true).
    { apply block_free_spec. intros i Hi. change (2 ^ N.of_nat 1) with 2 in Hi.
      destruct (N.eq_dec i p) as [->|Hn]; [exact T|].
      replace i with (p + 1) by lia. exact T1. }
    congruence.
Qed.

(* ---------- the specification's search ---------- *)
Lemma pow2_order o : (o <= 6)%nat -> N.of_nat (Nat.pow 2 (6 - o)) * 2 ^ N.of_nat o = 64.
Proof. intros H. do 7 (destruct o as [|o]; [reflexivity|]). lia. Qed.

Lemma find_map_seq_some {A} (f : A -> bool) (g : nat -> A) n : forall a x,
  find f (map g (seq a n)) = Some x ->
  exists k, (a <= k < a + n)%nat /\ x = g k /\ f (g k) = true /\
            forall j, (a <= j < k)%nat -> f (g j) = false.
Proof.
  induction n as [|n IH]; cbn [seq map find]; intros a x H; [discriminate|].
  destruct (f (g a)) eqn:E.
  - injection H as <-. exists a. repeat split; try lia. exact E.
  - apply IH in H. destruct H as (k & Hk & Hx & Hf & Hl).
    exists k. repeat split; try lia; try assumption.
    intros j Hj. destruct (Nat.eq_dec j a) as [->|Hn]; [exact E|]. apply Hl. lia.
Qed.

Lemma row_spec_some : forall v o v' p, (o <= 6)%nat -> row_spec v o = Some (v', p) ->
  p mod 2 ^ N.of_nat o = 0 /\ p + 2 ^ N.of_nat o <= 64 /\ block_free v o p = true /\
  v' = N.lor v (block_mask o p) /\
  (forall q, q mod 2 ^ N.of_nat o = 0 -> q < p -> block_free v o q = false).
Proof.
  intros v o v' p Ho H. unfold row_spec in H.
  destruct (find (block_free v o) (candidates o)) as [x|] eqn:E; [|discriminate].
  injection H as <- <-. unfold candidates in E.
  apply find_map_seq_some in E. destruct E as (k & Hk & -> & Hf & Hl).
  pose proof (pow2_order o Ho) as G.
  set (B := 2 ^ N.of_nat o) in *.
  assert (HB : B <> 0) by (apply N.pow_nonzero; discriminate).
  repeat split.
  - apply N.mod_mul. exact HB.
  - rewrite <- G. replace (N.of_nat k * B + B) with ((N.of_nat k + 1) * B) by ring.
    apply N.mul_le_mono_r. lia.
  - exact Hf.
  - intros q Hq Hlt.
    pose proof (N.div_mod q B HB) as Eq. rewrite Hq, N.add_0_r in Eq.
    assert (Hd : q / B < N.of_nat k).
    { apply N.div_lt_upper_bound; [exact HB|]. rewrite N.mul_comm. exact Hlt. }
    specialize (Hl (N.to_nat (q / B))). rewrite N2Nat.id, N.mul_comm, <- Eq in Hl.
    apply Hl. lia.
Qed.

Lemma row_spec_none : forall v o, (o <= 6)%nat -> row_spec v o = None ->
  forall q, q mod 2 ^ N.of_nat o = 0 -> q + 2 ^ N.of_nat o <= 64 -> block_free v o q = false.
Proof.
  intros v o Ho H q Hq Hle. unfold row_spec in H.
  destruct (find (block_free v o) (candidates o)) as [x|] eqn:E; [discriminate|].
  apply (find_none _ _ E). unfold candidates.
  pose proof (pow2_order o Ho) as G.
  set (B := 2 ^ N.of_nat o) in *.
  assert (HB : B <> 0) by (apply N.pow_nonzero; discriminate).
  pose proof (N.div_mod q B HB) as Eq. rewrite Hq, N.add_0_r in Eq.
  apply in_map_iff. exists (N.to_nat (q / B)). split.
  - rewrite N2Nat.id, N.mul_comm. symmetry. exact Eq.
  - apply in_seq. split; [lia|].
    assert (Hd : q / B < N.of_nat (Nat.pow 2 (6 - o))).
    { apply N.div_lt_upper_bound; [exact HB|]. rewrite N.mul_comm, G. lia. }
    lia.
Qed.

(* ---------- order 0 ---------- *)
Lemma fza_correct_0 v : v < W64 -> fza v 0 = row_spec v 0.
Proof.
  intros Hv. unfold fza. cbv zeta.
  destruct (row_spec v 0) as [[v' p]|] eqn:E.
  - destruct (row_spec_some _ _ _ _ (Nat.le_0_l 6) E) as (_ & Hb & Hf & -> & Hl).
    change (2 ^ N.of_nat 0) with 1 in *.
    assert (Et : trailing_ones v = p).
    { apply trailing_ones_unique.
      - intros i Hi. specialize (Hl i (N.mod_1_r i) Hi). rewrite block_free_0 in Hl.
        destruct (N.testbit v i); [reflexivity|discriminate].
      - rewrite block_free_0 in Hf. destruct (N.testbit v p); [discriminate|reflexivity]. }
    rewrite Et. destruct (N.ltb_spec p 64); [reflexivity|lia].
  - pose proof (row_spec_none _ _ (Nat.le_0_l 6) E) as Hn.
    change (2 ^ N.of_nat 0) with 1 in *.
    assert (Hge : 64 <= trailing_ones v).
    { apply trailing_ones_ge. intros i Hi.
      specialize (Hn i (N.mod_1_r i)). rewrite block_free_0 in Hn.
      destruct (N.testbit v i); [reflexivity|]. discriminate Hn. lia. }
    destruct (N.ltb_spec (trailing_ones v) 64); [lia|reflexivity].
Qed.

(* ---------- order 1 ---------- *)
Lemma check_below_bool n (f g : N -> bool) :
  forall_below n (fun i => Bool.eqb (f i) (g i)) = true ->
  forall i, i < N.of_nat n -> f i = g i.
Proof. intros H i Hi. apply eqb_prop. apply (forall_below_spec n _ H i Hi). Qed.

Lemma check_below_N n (f g : N -> N) :
  forall_below n (fun i => f i =? g i) = true ->
  forall i, i < N.of_nat n -> f i = g i.
Proof. intros H i Hi. apply N.eqb_eq. apply (forall_below_spec n _ H i Hi). Qed.

Lemma mask1_bit i : N.testbit 0xaaaaaaaaaaaaaaaa i = (i <? 64) && (i mod 2 =? 1).
Proof.
  destruct (N.ltb_spec i 64) as [H|H].
  - apply (check_below_bool 64 (N.testbit 0xaaaaaaaaaaaaaaaa) (fun i => i mod 2 =? 1));
      [vm_compute; reflexivity|exact H].
  - apply (testbit_high _ 64); [reflexivity|exact H].
Qed.

Lemma pair_bit v i :
  N.testbit (N.lor (N.lor v (N.shiftr v 1)) 0xaaaaaaaaaaaaaaaa) i =
  N.testbit v i || N.testbit v (i + 1) || ((i <? 64) && (i mod 2 =? 1)).
Proof. rewrite !N.lor_spec, N.shiftr_spec', mask1_bit. reflexivity. Qed.

Lemma mod2_cases i : i mod 2 = 0 \/ i mod 2 = 1.
Proof.
  assert (H : i mod 2 < 2) by (apply N.mod_lt; discriminate).
  set (x := i mod 2) in *. clearbody x. lia.
Qed.

Lemma fza_correct_1 v : v < W64 -> fza v 1 = row_spec v 1.
Proof.
  intros Hv. unfold fza. cbv zeta.
  assert (Ho : (1 <= 6)%nat) by lia.
  destruct (row_spec v 1) as [[v' p]|] eqn:E.
  - destruct (row_spec_some _ _ _ _ Ho E) as (Ha & Hb & Hf & -> & Hl).
    change (2 ^ N.of_nat 1) with 2 in *.
    match goal with |- context [trailing_ones ?Y] => assert (Et : trailing_ones Y = p) end.
    { apply trailing_ones_unique.
      - intros i Hi. rewrite pair_bit.
        destruct (mod2_cases i) as [Hm|Hm].
        + specialize (Hl i Hm Hi). rewrite block_free_1 in Hl.
          destruct (N.testbit v i); [reflexivity|].
          destruct (N.testbit v (i + 1)); [reflexivity|discriminate].
        + rewrite Hm. destruct (N.ltb_spec i 64); [|lia]. apply orb_true_r.
      - rewrite pair_bit, Ha. rewrite block_free_1 in Hf.
        destruct (N.testbit v p); [discriminate|].
        destruct (N.testbit v (p + 1)); [discriminate|]. apply andb_false_r. }
    rewrite Et. destruct (N.ltb_spec p 64); [reflexivity|lia].
  - pose proof (row_spec_none _ _ Ho E) as Hn.
    change (2 ^ N.of_nat 1) with 2 in *.
    match goal with |- context [trailing_ones ?Y] => assert (Hge : 64 <= trailing_ones Y) end.
    { apply trailing_ones_ge. intros i Hi. rewrite pair_bit.
      destruct (mod2_cases i) as [Hm|Hm].
      + specialize (Hn i Hm). rewrite block_free_1 in Hn.
        destruct (N.testbit v i); [reflexivity|].
        destruct (N.testbit v (i + 1)); [reflexivity|]. discriminate Hn.
        assert (i <> 63) by (intros ->; discriminate Hm). lia.
      + rewrite Hm. destruct (N.ltb_spec i 64); [|lia]. apply orb_true_r. }
    match goal with |- context [trailing_ones ?Y] =>
      destruct (N.ltb_spec (trailing_ones Y) 64); [lia|reflexivity] end.
Qed.

(* ---------- orders 2, 3, 4: the zero-lane trick ---------- *)
Section ZeroLane.
  Variables (w n mask : N) (o : nat).
  Hypothesis Hw : 0 < w.
  Hypothesis Hwn : w * n = 64.
  Hypothesis Hwo : 2 ^ N.of_nat o = w.
  Hypothesis Ho : (o <= 6)%nat.
  Hypothesis Hmask_lt : mask < W64.
  Hypothesis Hmask_bit : forall i, i < 64 -> N.testbit mask i = (i mod w =? 0).
  Hypothesis Hmask_lane : forall j, j < n -> lane w mask j = 1.
  Variable v : N.
  Hypothesis Hv : v < W64.

  Let X := wsub64 v mask.
  Let R := N.land (N.shiftr (N.land X (not64 v)) (w - 1)) mask.

  Lemma zl_pos j : j < n -> w * j + w <= 64.
  Proof.
    intros Hj. rewrite <- Hwn. replace (w * j + w) with (w * (j + 1)) by ring.
    apply N.mul_le_mono_l. lia.
  Qed.

  Lemma zl_idx i : i < 64 -> i / w < n.
  Proof.
    intros Hi. apply N.div_lt_upper_bound; [lia|]. rewrite Hwn. exact Hi.
  Qed.

  (* no borrow out of the low j lanes when they are all non-zero *)
  Lemma zl_low_ge j : j <= n -> (forall j', j' < j -> lane w v j' <> 0) ->
    mask mod 2 ^ (w * j) <= v mod 2 ^ (w * j).
  Proof.
    induction j as [|j IH] using N.peano_ind; intros Hj Hnz.
    - rewrite N.mul_0_r. change (2 ^ 0) with 1. rewrite !N.mod_1_r. lia.
    - rewrite <- N.add_1_r, !mod_pow2_split.
      rewrite Hmask_lane by lia.
      assert (IH' : mask mod 2 ^ (w * j) <= v mod 2 ^ (w * j)).
      { apply IH; [lia|]. intros j' Hj'. apply Hnz. lia. }
      assert (Ha : lane w v j <> 0) by (apply Hnz; lia).
      assert (2 ^ (w * j) * 1 <= 2 ^ (w * j) * lane w v j) by (apply N.mul_le_mono_l; lia).
      lia.
  Qed.

  Lemma zl_lane_X j : j < n -> (forall j', j' < j -> lane w v j' <> 0) ->
    lane w X j = (lane w v j + 2 ^ w - 1) mod 2 ^ w.
  Proof.
    intros Hj Hnz.
    assert (E64 : W64 = 2 ^ (w * j) * 2 ^ w * 2 ^ (w * (n - j - 1))).
    { rewrite <- !N.pow_add_r. change W64 with (2 ^ 64). f_equal. rewrite <- Hwn.
      replace n with (j + 1 + (n - j - 1)) at 1 by lia. ring. }
    pose proof Hv as Hv'. pose proof Hmask_lt as Hm'. rewrite E64 in Hv', Hm'.
    unfold lane, X, wsub64. rewrite E64.
    apply wsub_lane_gen; try (apply N.pow_nonzero; discriminate); try assumption.
    - apply zl_low_ge; [lia|exact Hnz].
    - apply Hmask_lane. exact Hj.
  Qed.

  Lemma zl_R_bit i :
    N.testbit R i =
    N.testbit X (i + (w - 1)) && N.testbit (not64 v) (i + (w - 1)) && N.testbit mask i.
  Proof. unfold R. rewrite N.land_spec, N.shiftr_spec', N.land_spec. reflexivity. Qed.

  Lemma zl_R_marker j : j < n -> (forall j', j' < j -> lane w v j' <> 0) ->
    N.testbit R (w * j) = (lane w v j =? 0).
  Proof.
    intros Hj Hnz. pose proof (zl_pos j Hj) as Hp.
    rewrite zl_R_bit, Hmask_bit by lia.
    rewrite (N.mul_comm w j), N.mod_mul by lia. rewrite (N.mul_comm j w).
    change (0 =? 0) with true. rewrite andb_true_r.
    rewrite not64_spec. destruct (N.ltb_spec (w * j + (w - 1)) 64); [|lia].
    rewrite <- !(lane_testbit w _ j (w - 1)) by lia.
    rewrite zl_lane_X by assumption.
    pose proof (lane_lt w v j) as Ha. set (a := lane w v j) in *.
    assert (HQ : 2 ^ w <> 0) by (apply N.pow_nonzero; discriminate).
    destruct (N.eqb_spec a 0) as [Ea|Ea].
    - rewrite Ea, N.add_0_l, N.mod_small by lia.
      rewrite N.sub_1_r, <- N.ones_equiv, N.ones_spec_low by lia.
      rewrite N.bits_0. reflexivity.
    - assert (Ea1 : (a + 2 ^ w - 1) mod 2 ^ w = a - 1).
      { replace (a + 2 ^ w - 1) with (a - 1 + 1 * 2 ^ w) by lia.
        rewrite N.mod_add by assumption. apply N.mod_small. lia. }
      rewrite Ea1, !testbit_top by lia.
      destruct (N.leb_spec (2 ^ (w - 1)) (a - 1)); [|reflexivity].
      destruct (N.leb_spec (2 ^ (w - 1)) a); [reflexivity|lia].
  Qed.

  Lemma zl_R_other i : i mod w <> 0 \/ 64 <= i -> N.testbit R i = false.
  Proof.
    intros H. rewrite zl_R_bit.
    assert (Hm : N.testbit mask i = false).
    { destruct (N.lt_ge_cases i 64) as [Hi|Hi].
      - rewrite Hmask_bit by assumption. apply N.eqb_neq. destruct H; [assumption|lia].
      - apply (testbit_high _ 64); assumption. }
    rewrite Hm. apply andb_false_r.
  Qed.

  Lemma zl_aligned i : i mod w = 0 -> i = w * (i / w).
  Proof.
    intros H. pose proof (N.div_mod i w) as E. rewrite H, N.add_0_r in E. apply E. lia.
  Qed.

  Lemma zl_some k : k < n -> lane w v k = 0 -> (forall j, j < k -> lane w v j <> 0) ->
    zero_lane_off v mask w = w * k.
  Proof.
    intros Hk Hz Hnz. unfold zero_lane_off. fold X. fold R.
    apply trailing_zeros_unique.
    - rewrite zl_R_marker, Hz by assumption. reflexivity.
    - intros i Hi. destruct (N.eq_dec (i mod w) 0) as [Hm|Hm].
      + assert (Hj : i / w < k).
        { apply N.div_lt_upper_bound; [lia|exact Hi]. }
        rewrite (zl_aligned i Hm), zl_R_marker.
        * apply N.eqb_neq. apply Hnz. exact Hj.
        * lia.
        * intros j' Hj'. apply Hnz. lia.
      + apply zl_R_other. left. exact Hm.
  Qed.

  Lemma zl_none : (forall j, j < n -> lane w v j <> 0) -> zero_lane_off v mask w = 64.
  Proof.
    intros Hnz. unfold zero_lane_off. fold X. fold R.
    assert (E : R = 0).
    { apply N.bits_inj. intros i. rewrite N.bits_0.
      destruct (N.lt_ge_cases i 64) as [Hi|Hi]; [|apply zl_R_other; right; exact Hi].
      destruct (N.eq_dec (i mod w) 0) as [Hm|Hm]; [|apply zl_R_other; left; exact Hm].
      pose proof (zl_idx i Hi) as Hj.
      rewrite (zl_aligned i Hm), zl_R_marker.
      - apply N.eqb_neq. apply Hnz. exact Hj.
      - exact Hj.
      - intros j' Hj'. apply Hnz. lia. }
    rewrite E. reflexivity.
  Qed.

  Lemma zl_block_free j : block_free v o (w * j) = (lane w v j =? 0).
  Proof. rewrite block_free_lane, Hwo. reflexivity. Qed.

  Lemma zero_lane_correct :
    (let off := zero_lane_off v mask w in
     if off <? 64 then Some (N.lor v (N.shiftl (N.ones w) off), off) else None) = row_spec v o.
  Proof.
    cbv zeta. destruct (row_spec v o) as [[v' p]|] eqn:E.
    - destruct (row_spec_some _ _ _ _ Ho E) as (Ha & Hb & Hf & -> & Hl).
      rewrite Hwo in *.
      pose proof (zl_aligned p Ha) as Ep. set (k := p / w) in *.
      assert (Hk : k < n).
      { destruct (N.lt_ge_cases k n) as [|Hge]; [assumption|].
        apply (N.mul_le_mono_l _ _ w) in Hge. lia. }
      assert (Eo : zero_lane_off v mask w = p).
      { rewrite Ep. apply zl_some.
        - exact Hk.
        - apply N.eqb_eq. rewrite <- zl_block_free, <- Ep. exact Hf.
        - intros j Hj. apply N.eqb_neq. rewrite <- zl_block_free. apply Hl.
          + rewrite N.mul_comm. apply N.mod_mul. lia.
          + rewrite Ep. apply N.mul_lt_mono_pos_l; assumption. }
      rewrite Eo. destruct (N.ltb_spec p 64); [|lia].
      unfold block_mask, ones. rewrite Hwo. reflexivity.
    - pose proof (row_spec_none _ _ Ho E) as Hn. rewrite Hwo in Hn.
      rewrite zl_none; [reflexivity|].
      intros j Hj. apply N.eqb_neq. rewrite <- zl_block_free. apply Hn.
      + rewrite N.mul_comm. apply N.mod_mul. lia.
      + apply zl_pos. exact Hj.
  Qed.
End ZeroLane.

Lemma fza_correct_2 v : v < W64 -> fza v 2 = row_spec v 2.
Proof.
  intros Hv. unfold fza.
  apply (zero_lane_correct 4 16 0x1111111111111111 2); try reflexivity; try lia; try assumption.
  - apply (check_below_bool 64 (N.testbit 0x1111111111111111) (fun i => i mod 4 =? 0)).
    vm_compute; reflexivity.
  - apply (check_below_N 16 (lane 4 0x1111111111111111) (fun _ => 1)).
    vm_compute; reflexivity.
Qed.

Lemma fza_correct_3 v : v < W64 -> fza v 3 = row_spec v 3.
Proof.
  intros Hv. unfold fza.
  apply (zero_lane_correct 8 8 0x0101010101010101 3); try reflexivity; try lia; try assumption.
  - apply (check_below_bool 64 (N.testbit 0x0101010101010101) (fun i => i mod 8 =? 0)).
    vm_compute; reflexivity.
  - apply (check_below_N 8 (lane 8 0x0101010101010101) (fun _ => 1)).
    vm_compute; reflexivity.
Qed.

Lemma fza_correct_4 v : v < W64 -> fza v 4 = row_spec v 4.
Proof.
  intros Hv. unfold fza.
  apply (zero_lane_correct 16 4 0x0001000100010001 4); try reflexivity; try lia; try assumption.
  - apply (check_below_bool 64 (N.testbit 0x0001000100010001) (fun i => i mod 16 =? 0)).
    vm_compute; reflexivity.
  - apply (check_below_N 4 (lane 16 0x0001000100010001) (fun _ => 1)).
    vm_compute; reflexivity.
Qed.

(* ---------- orders 5, 6 ---------- *)
Lemma fza_correct_5 v : v < W64 -> fza v 5 = row_spec v 5.
Proof.
  intros Hv. unfold fza, row_spec. cbv zeta.
  change (candidates 5) with [0; 32]. cbn [find].
  assert (E0 : block_free v 5 0 = (N.land v 0xffffffff =? 0)) by reflexivity.
  assert (E1 : block_free v 5 32 = (N.shiftr v 32 =? 0)).
  { rewrite block_free_lane, N.shiftr_div_pow2. change (2 ^ N.of_nat 5) with 32.
    rewrite N.mod_small; [reflexivity|].
    apply N.div_lt_upper_bound; [discriminate|exact Hv]. }
  rewrite E0, E1.
  destruct (N.land v 0xffffffff =? 0); [reflexivity|].
  destruct (N.shiftr v 32 =? 0); reflexivity.
Qed.

Lemma fza_correct_6 v : v < W64 -> fza v 6 = row_spec v 6.
Proof.
  intros Hv. unfold fza, row_spec.
  change (candidates 6) with [0]. cbn [find].
  assert (E0 : block_free v 6 0 = (v =? 0)).
  { unfold block_free. change (block_mask 6 0) with (N.ones 64).
    rewrite N.land_ones, N.mod_small by exact Hv. reflexivity. }
  rewrite E0. destruct (N.eqb_spec v 0) as [->|]; reflexivity.
Qed.

(* ---------- the main theorem ---------- *)
Theorem fza_correct : forall v o, v < W64 -> (o <= 6)%nat -> fza v o = row_spec v o.
Proof.
  intros v o Hv Ho.
  destruct o as [|o]; [apply fza_correct_0; exact Hv|].
  destruct o as [|o]; [apply fza_correct_1; exact Hv|].
  destruct o as [|o]; [apply fza_correct_2; exact Hv|].
  destruct o as [|o]; [apply fza_correct_3; exact Hv|].
  destruct o as [|o]; [apply fza_correct_4; exact Hv|].
  destruct o as [|o]; [apply fza_correct_5; exact Hv|].
  destruct o as [|o]; [apply fza_correct_6; exact Hv|].
  lia.
Qed.

(* ---------- consequences for the result of fza ---------- *)
Lemma fza_some : forall v o v' p, v < W64 -> (o <= 6)%nat -> fza v o = Some (v', p) ->
  p mod 2 ^ N.of_nat o = 0 /\ p + 2 ^ N.of_nat o <= 64 /\ block_free v o p = true /\
  v' = N.lor v (block_mask o p) /\
  (forall q, q mod 2 ^ N.of_nat o = 0 -> q < p -> block_free v o q = false).
Proof.
  intros v o v' p Hv Ho H. rewrite fza_correct in H by assumption.
  apply row_spec_some; assumption.
Qed.

Lemma fza_none : forall v o, v < W64 -> (o <= 6)%nat -> fza v o = None ->
  forall q, q mod 2 ^ N.of_nat o = 0 -> q + 2 ^ N.of_nat o <= 64 -> block_free v o q = false.
Proof.
  intros v o Hv Ho H. rewrite fza_correct in H by assumption.
  apply row_spec_none; assumption.
Qed.

Lemma block_mask_lt o p : p + 2 ^ N.of_nat o <= 64 -> block_mask o p < W64.
Proof.
  intros H. rewrite W64_pow. apply lt_pow2_bits. intros i Hi.
  rewrite testbit_block_mask. destruct (N.ltb_spec i (p + 2 ^ N.of_nat o)); [lia|].
  apply andb_false_r.
Qed.

Lemma fza_lt : forall v o v' p, v < W64 -> (o <= 6)%nat -> fza v o = Some (v', p) -> v' < W64.
Proof.
  intros v o v' p Hv Ho H.
  destruct (fza_some _ _ _ _ Hv Ho H) as (_ & Hb & _ & -> & _).
  rewrite W64_pow. apply lor_lt_pow2; [exact Hv|]. apply block_mask_lt. exact Hb.
Qed.

Lemma fza_testbit : forall v o v' p i, v < W64 -> (o <= 6)%nat -> fza v o = Some (v', p) ->
  N.testbit v' i = (N.testbit v i || ((p <=? i) && (i <? p + 2 ^ N.of_nat o))).
Proof.
  intros v o v' p i Hv Ho H.
  destruct (fza_some _ _ _ _ Hv Ho H) as (_ & _ & _ & -> & _).
  rewrite N.lor_spec, testbit_block_mask. reflexivity.
Qed.

Lemma popcount_block_mask o p : popcount (block_mask o p) = 2 ^ N.of_nat o.
Proof. unfold block_mask, ones. rewrite popcount_shiftl. apply popcount_ones. Qed.

Lemma fza_popcount : forall v o v' p, v < W64 -> (o <= 6)%nat -> fza v o = Some (v', p) ->
  popcount v' = popcount v + 2 ^ N.of_nat o.
Proof.
  intros v o v' p Hv Ho H.
  destruct (fza_some _ _ _ _ Hv Ho H) as (_ & _ & Hf & -> & _).
  unfold block_free in Hf. apply N.eqb_eq in Hf.
  rewrite popcount_lor_disjoint by exact Hf. rewrite popcount_block_mask. reflexivity.
Qed.

Print Assumptions fza_correct.
Print Assumptions row_spec_some.
Print Assumptions row_spec_none.
Print Assumptions block_free_spec.
Print Assumptions fza_lt.
Print Assumptions fza_testbit.
Print Assumptions fza_popcount.
