From LLF Require Import Base Row.
(* placeholder: filled in by the C23 proof *)
