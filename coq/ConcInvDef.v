(* The invariant of the lower machine M1 (LowerMachine.v), DESIGN.md Appendix A.3 / E.
   Every clause is a sum over the thread pool of a per-thread ghost function; the ghost of a thread is a
   function of its (call, pc) only, packaged as a record:
     - an owned interval of frames [own_lo, own_lo + own_n)  (the block being freed and not yet released,
       or the entries claimed so far by a multi-entry get), flag `hu` when it is entry-level ownership;
     - a focus huge frame g_h with: transit rows [tr_lo, tr_lo + tr_n) (rows this thread's own CAS filled and
       that it will keep or roll back), a pending amount p_n (frames subtracted from the counter whose bits
       are not yet set / bits cleared whose count is not yet added), flag `nd` (needs a counter entry).
   Definitions only (plus the boolean checker used for testing by vm_compute). *)
From LLF Require Import Base BitLemmas Row RowProofs Bitfield Lower Spec LowerMachine ConcBase.

Record ghost := {
  g_h : N; own_lo : N; own_n : N; tr_lo : N; tr_n : N; p_n : N; nd : bool; hu : bool }.

Definition gh0 : ghost :=
  {| g_h := 0; own_lo := 0; own_n := 0; tr_lo := 0; tr_n := 0; p_n := 0; nd := false; hu := false |}.

Definition isSome {A} (o : option A) : bool := match o with Some _ => true | None => false end.

Section Def.
  Variable g : geom.
  Notation HF := (HF g).
  Notation TF := (TF g).
  Notation THUGE := (THUGE g).
  Notation ROWS := (ROWS g).

  Definition fidx (h r i : N) : N := h * HF + r * 64 + i.

  (* ----- classification of calls ----- *)
  Definition is_put (c : call) : bool := match c with CPut _ _ => true | _ => false end.
  Definition is_get (c : call) : bool := match c with CGet _ _ => true | _ => false end.
  Definition is_getat (c : call) : bool := match c with CGetAt _ _ => true | _ => false end.
  Definition small (c : call) : bool := Nat.ltb (c_order c) (hord g).
  (* `call_ok` depends on the state only through `ms_frames` *)
  Definition cwf (fr : N) (c : call) : bool :=
    Nat.leb (c_order c) (tord g) &&
    match c with
    | CGet st _ => (st * 64) / TF <? ntab g fr
    | CGetAt f o | CPut f o => (f mod pow2 o =? 0) && (f + pow2 o <=? fr)
    end.

  (* ----- the ghost of a thread ----- *)
  Definition gpend (h n : N) : ghost :=
    {| g_h := h; own_lo := 0; own_n := 0; tr_lo := 0; tr_n := 0; p_n := n; nd := true; hu := false |}.
  Definition gtr (h n lo cnt : N) : ghost :=
    {| g_h := h; own_lo := 0; own_n := 0; tr_lo := lo; tr_n := cnt; p_n := n; nd := true; hu := false |}.
  Definition gown (lo n : N) : ghost :=
    {| g_h := 0; own_lo := lo; own_n := n; tr_lo := 0; tr_n := 0; p_n := 0; nd := false; hu := false |}.
  Definition ghuge (lo n : N) : ghost :=
    {| g_h := 0; own_lo := lo; own_n := n; tr_lo := 0; tr_n := 0; p_n := 0; nd := false; hu := true |}.
  (* a put whose first q rows are already cleared *)
  Definition gput (h f n q : N) : ghost :=
    {| g_h := h; own_lo := f + 64 * q; own_n := n - 64 * q; tr_lo := 0; tr_n := 0; p_n := 64 * q; nd := true; hu := false |}.
  (* a splitter with cnt rows filled *)
  Definition gsplit (h f n cnt : N) : ghost :=
    {| g_h := h; own_lo := f; own_n := n; tr_lo := 0; tr_n := cnt; p_n := 0; nd := false; hu := false |}.

  (* rows toggled so far at a toggle pc *)
  Definition gtoggle (x : tctx) (c : call) (cnt : N) : ghost :=
    match x with
    | XGetAt => gtr (c_huge g c) (c_n c) (t_row g x c) cnt
    | XPut => gput (c_huge g c) (c_frame c) (c_n c) cnt
    | XSplit _ => gsplit (c_huge g c) (c_frame c) (c_n c) cnt
    end.

  Definition gpc (c : call) (p : pc) : ghost :=
    let n := c_n c in
    match p with
    | G1L _ | G1C _ _ => gh0
    | G2L j _ | G2C j _ _ | G2R j _ _ | G3L j | G3C j _ => gpend (child_h g c j) n
    | G2W j ch q => gtr (child_h g c j) n (ch * c_nr c) q
    | G2U j ch q => gtr (child_h g c j) n (ch * c_nr c) (q + 1)
    | HC gi q => if is_put c then ghuge (c_frame c + q * HF) (n - q * HF)
                 else ghuge (group_h g c gi * HF) (q * HF)
    | HU gi q => if is_put c then ghuge (c_frame c + q * HF) (n - q * HF)
                 else ghuge (group_h g c gi * HF) ((q + 1) * HF)
    | A1L | A1C _ => gh0
    | A3L | A3C _ => gpend (c_huge g c) n
    | TL x | TC x _ | TN x => gtoggle x c 0
    | TW x q => gtoggle x c q
    | TU x q => gtoggle x c (q + 1)
    | P1 | PP3 _ => gown (c_frame c) n
    | PP2 _ => gsplit (c_huge g c) (c_frame c) n ROWS
    | PS2L | PS2C _ => gpend (c_huge g c) n
    end.

  Definition ghost_of (x : thr) : ghost :=
    match x with
    | TIdle _ => gh0
    | TRun c p => gpc c p
    | TPanic SExceedingRetries c => gown (c_frame c) (c_n c)
    | TPanic _ _ => gh0
    end.

  (* ----- derived per-index functions (the summands) ----- *)
  Definition fr (h r i : N) (x : thr) : N :=
    let G := ghost_of x in b2n (inb (own_lo G) (own_n G) (fidx h r i)).
  Definition tr (h r : N) (x : thr) : N :=
    let G := ghost_of x in b2n ((h =? g_h G) && inb (tr_lo G) (tr_n G) r).
  Definition trcount (h : N) (x : thr) : N :=
    let G := ghost_of x in if h =? g_h G then tr_n G else 0.
  Definition pend (h : N) (x : thr) : N :=
    let G := ghost_of x in if h =? g_h G then p_n G else 0.
  Definition needsC (h : N) (x : thr) : N :=
    let G := ghost_of x in b2n ((h =? g_h G) && nd G).
  Definition hfr (h : N) (x : thr) : N :=
    let G := ghost_of x in b2n (hu G && inb (own_lo G) (own_n G) (h * HF)).
  Definition isBad (x : thr) : N :=
    match x with
    | TPanic SExceedingRetries _ => 0
    | TPanic _ _ => 1
    | _ => 0
    end.

  (* ----- thread-local facts (static: they depend on the call, the pc and `frames` only) ----- *)
  Definition ctx_ok (x : tctx) (c : call) : bool :=
    match x with
    | XGetAt => is_getat c
    | XPut => is_put c
    | XSplit old => is_put c && (old =? MARK)
    end.
  Definition not_xput (x : tctx) : bool := match x with XPut => false | _ => true end.

  Definition lpc (fr : N) (c : call) (p : pc) : bool :=
    let n := c_n c in
    let k := c_order c in
    let nb := nbf g fr in
    match p with
    | G1L j => is_get c && small c && (j <? THUGE)
    | G1C j v => is_get c && small c && (j <? THUGE) && isSome (e_dec v n)
    | G2L j i => is_get c && small c && Nat.leb k 6 && (j <? THUGE) && (i <? ROWS) && (child_h g c j <? nb)
    | G2C j i e => is_get c && small c && Nat.leb k 6 && (j <? THUGE) && (i <? ROWS) && (child_h g c j <? nb)
                   && isSome (fza e k)
    | G2R j ch q | G2W j ch q | G2U j ch q =>
        is_get c && small c && Nat.leb 7 k && (j <? THUGE) && (ch <? c_chunks g c) && (q <? c_nr c)
        && (child_h g c j <? nb)
    | G3L j => is_get c && small c && (j <? THUGE) && (child_h g c j <? nb)
    | G3C j v => is_get c && small c && (j <? THUGE) && (child_h g c j <? nb) && isSome (e_inc g v n)
    | HC gi q => Nat.leb (hord g) k && (q <? c_hnum g c) && (gi <? group_cnt g c)
    | HU gi q => Nat.leb (hord g) k && (q <? c_hnum g c) && (gi <? group_cnt g c) && negb (is_put c)
    | A1L => is_getat c && small c
    | A1C v => is_getat c && small c && isSome (e_dec v n)
    | A3L => is_getat c && small c
    | A3C v => is_getat c && small c && isSome (e_inc g v n)
    | TL x => ctx_ok x c && small c && Nat.leb (t_order g x c) 2
    | TC x e => ctx_ok x c && small c && Nat.leb (t_order g x c) 2 && isSome (toggle_f g x c e)
    | TN x => ctx_ok x c && small c && Nat.leb 3 (t_order g x c) && Nat.leb (t_order g x c) 6
    | TW x q => ctx_ok x c && small c && Nat.leb 7 (t_order g x c) && (q <? t_nrows g x c)
    | TU x q => ctx_ok x c && small c && Nat.leb 7 (t_order g x c) && (q <? t_nrows g x c) && not_xput x
    | P1 => is_put c && small c
    | PP2 old => is_put c && small c && (old =? MARK)
    | PP3 _ => is_put c && small c
    | PS2L => is_put c && small c
    | PS2C v => is_put c && small c && isSome (e_inc g v n)
    end.

  Definition local_b (fr : N) (x : thr) : bool :=
    match x with
    | TIdle _ => true
    | TRun c p => cwf fr c && lpc fr c p
    | TPanic SExceedingRetries c => cwf fr c && is_put c && small c
    | TPanic _ _ => true
    end.

  (* ----- reading the memory ----- *)
  Definition entv (s : mstate) (h : N) : N := match rd_ent s h with Some v => v | None => 0 end.
  Definition rowv (s : mstate) (h r : N) : N := match rd_row s h r with Some v => v | None => 0 end.
  Definition bit (s : mstate) (h r i : N) : bool := N.testbit (rowv s h r) i.
  Definition isMark (e : N) : N := b2n (e =? MARK).
  Definition zeros (s : mstate) (h : N) : N :=
    match nth_error (ms_bfs s) (nn h) with Some rows => sumf cz rows | None => 0 end.

  (* ----- the client's blocks ----- *)
  Definition cover (b : N * nat) (f : N) : bool := inb (fst b) (pow2 (snd b)) f.
  Definition heldc (f : N) (held : list (N * nat)) : N := sumf (fun b => b2n (cover b f)) held.
  Definition hugeb (h : N) (b : N * nat) : N := b2n (Nat.leb (hord g) (snd b) && cover b (h * HF)).
  Definition hugec (h : N) (held : list (N * nat)) : N := sumf (hugeb h) held.
  Definition oor (fr f : N) : N := b2n (fr <=? f).

  Record Inv (s : mstate) : Prop := {
    I_len1 : length (ms_bfs s) = nn (nbf g (ms_frames s));
    I_len2 : length (ms_ents s) = nn (ntab g (ms_frames s) * THUGE);
    I_rows : forall h rows, nth_error (ms_bfs s) h = Some rows -> rows_ok g rows;
    I_nobf : forall h, nbf g (ms_frames s) <= h -> entv s h = 0;
    (* a marker entry lies entirely inside the managed range *)
    I_G : forall h, h < nbf g (ms_frames s) -> entv s h = MARK -> (h + 1) * HF <= ms_frames s;
    (* every set bit (and every frame under a marker) has exactly one owner *)
    I_A : forall h r i, h < nbf g (ms_frames s) -> r < ROWS -> i < 64 ->
          b2n (bit s h r i) + isMark (entv s h)
          = heldc (fidx h r i) (ms_held s) + sumf (fr h r i) (ms_pool s) + sumf (tr h r) (ms_pool s)
            + oor (ms_frames s) (fidx h r i);
    (* under the marker every frame is covered exactly once by a held block or a block being freed / claimed *)
    I_B : forall h, h < nbf g (ms_frames s) -> entv s h = MARK -> forall r i, r < ROWS -> i < 64 ->
          heldc (fidx h r i) (ms_held s) + sumf (fr h r i) (ms_pool s) = 1;
    (* the counter equation *)
    I_C : forall h, h < nbf g (ms_frames s) -> entv s h <> MARK ->
          entv s h + sumf (pend h) (ms_pool s) = zeros s h + 64 * sumf (trcount h) (ms_pool s);
    (* nobody who needs a counter is in flight under the marker *)
    I_D : forall h, h < nbf g (ms_frames s) -> entv s h = MARK -> sumf (needsC h) (ms_pool s) = 0;
    (* no bad panic *)
    I_E : sumf isBad (ms_pool s) = 0;
    (* a held (or being freed / claimed) block of huge order covers marker entries only *)
    I_F : forall h, entv s h <> MARK -> hugec h (ms_held s) + sumf (hfr h) (ms_pool s) = 0;
    I_L : Forall (fun x => local_b (ms_frames s) x = true) (ms_pool s);
    I_H : Forall (fun b => blk_ok (ms_frames s) b = true) (ms_held s)
  }.

  (* ----- boolean checker (testing only) ----- *)
  Definition allb (n : N) (f : N -> bool) : bool := forallb f (nseq n).
  Definition inv_b (s : mstate) : bool :=
    let fr_ := ms_frames s in
    let nb := nbf g fr_ in
    Nat.eqb (length (ms_bfs s)) (nn nb) &&
    Nat.eqb (length (ms_ents s)) (nn (ntab g fr_ * THUGE)) &&
    forallb (fun rows => Nat.eqb (length rows) (rows_nat g) && forallb (fun r => r <? W64) rows) (ms_bfs s) &&
    allb (N.of_nat (length (ms_ents s))) (fun h => (h <? nb) || (entv s h =? 0)) &&
    allb nb (fun h => negb (entv s h =? MARK) || ((h + 1) * HF <=? fr_)) &&
    allb nb (fun h => allb ROWS (fun r => allb 64 (fun i =>
      (b2n (bit s h r i) + isMark (entv s h)
       =? heldc (fidx h r i) (ms_held s) + sumf (fr h r i) (ms_pool s) + sumf (tr h r) (ms_pool s)
          + oor fr_ (fidx h r i)) &&
      (negb (entv s h =? MARK) || (heldc (fidx h r i) (ms_held s) + sumf (fr h r i) (ms_pool s) =? 1))))) &&
    allb nb (fun h =>
      if entv s h =? MARK then sumf (needsC h) (ms_pool s) =? 0
      else (entv s h + sumf (pend h) (ms_pool s) =? zeros s h + 64 * sumf (trcount h) (ms_pool s))) &&
    (sumf isBad (ms_pool s) =? 0) &&
    allb (N.of_nat (length (ms_ents s))) (fun h =>
      (entv s h =? MARK) || (hugec h (ms_held s) + sumf (hfr h) (ms_pool s) =? 0)) &&
    forallb (local_b fr_) (ms_pool s) &&
    forallb (blk_ok fr_) (ms_held s).
End Def.
